// C15 correspondence harness for exporter/otlpexporter (injected by overlay).
// Runs processError and shouldRetry on their WHOLE finite domains.
// Case terms (Coq): (kind, (input, observed)) : nat * (list Z * list Z)
//   kind 3: processError  input [code; ri_kind; ri_nanos]  observed [verdict; delay]
//           code -1 = an error that is not a gRPC status; ri_kind 0 no RetryInfo, 1 RetryInfo{delay}
//           (ri_kind 1 with a nil RetryDelay is sent as nanos 0: AsDuration of nil is 0)
//           verdict 0 success, 1 permanent, 2 retryable, 3 throttle(delay)
//   kind 4: shouldRetry   input [code; retryInfo_isnil]    observed [0/1]
// Direct oracle (independent of the Coq model): the OTLP specification's gRPC table, written here by
// hand a second time: Canceled, DeadlineExceeded, Aborted, OutOfRange, Unavailable, DataLoss retryable;
// ResourceExhausted only with RetryInfo; everything else permanent; a non-zero RetryInfo delay on a
// retryable status is honoured exactly.
package otlpexporter

import (
	"errors"
	"fmt"
	"math"
	"regexp"
	"strings"
	"testing"
	"time"

	"google.golang.org/genproto/googleapis/rpc/errdetails"
	"google.golang.org/grpc/codes"
	"google.golang.org/grpc/status"
	"google.golang.org/protobuf/types/known/durationpb"

	"go.opentelemetry.io/collector/consumer/consumererror"
)

var vThrottleRe = regexp.MustCompile(`^Throttle \(([^)]*)\)`)

func vClassify(err error) (int, int64) {
	if err == nil {
		return 0, 0
	}
	if consumererror.IsPermanent(err) {
		return 1, 0
	}
	for e := err; e != nil; e = errors.Unwrap(e) {
		if strings.HasSuffix(fmt.Sprintf("%T", e), "throttleRetry") {
			m := vThrottleRe.FindStringSubmatch(e.Error())
			if m == nil {
				return 3, math.MinInt64
			}
			d, perr := time.ParseDuration(m[1])
			if perr != nil {
				return 3, math.MinInt64
			}
			return 3, int64(d)
		}
	}
	return 2, 0
}

func vSpecRetryable(code int, hasRI bool) bool {
	switch codes.Code(code) {
	case codes.Canceled, codes.DeadlineExceeded, codes.Aborted, codes.OutOfRange, codes.Unavailable, codes.DataLoss:
		return true
	case codes.ResourceExhausted:
		return hasRI
	}
	return false
}

func TestVerifC15GrpcExp(t *testing.T) {
	out := vOpen()
	defer out.Close()
	delays := []time.Duration{0, 1, 999999999, time.Second, 1500 * time.Millisecond, 7 * time.Second, -1, -1500 * time.Millisecond, 3600 * time.Second}
	r := vNewRand(1503)
	for i := 0; i < 6; i++ {
		delays = append(delays, time.Duration(int64(r.U64()>>20))-time.Duration(1<<42))
	}
	emit := func(code, riKind int, d time.Duration, nilDelay bool, extraDetail bool, wrapped bool) {
		var err error
		if code == -1 {
			err = errors.New("not a status")
		} else {
			st := status.New(codes.Code(code), "msg")
			if code != 0 {
				var e2 error
				if extraDetail {
					st, e2 = st.WithDetails(&errdetails.ErrorInfo{Reason: "r"})
					if e2 != nil {
						t.Fatal(e2)
					}
				}
				if riKind == 1 {
					ri := &errdetails.RetryInfo{}
					if !nilDelay {
						ri.RetryDelay = durationpb.New(d)
					}
					st, e2 = st.WithDetails(ri)
					if e2 != nil {
						t.Fatal(e2)
					}
				}
			}
			err = st.Err()
			if code == 0 {
				err = nil
			}
			if wrapped && err != nil {
				err = fmt.Errorf("wrapped: %w", err)
			}
		}
		got := processError(err)
		verdict, delay := vClassify(got)
		in := vList([]string{vZ(int64(code)), vZ(int64(riKind)), vZ(int64(d))})
		term := vPair("3", vPair(in, vList([]string{vZ(int64(verdict)), vZ(delay)})))
		out.Case(true, term)
		out.Stat(fmt.Sprintf("process_error_verdict_%d", verdict), 1)
		// ---- direct oracle
		desc := fmt.Sprintf("code=%d ri_kind=%d delay=%d: verdict=%d delay=%d", code, riKind, int64(d), verdict, delay)
		switch {
		case code == 0:
			if verdict != 0 {
				out.Oracle("exporter-vs-spec", term, "OK classified as failure; "+desc)
			}
		case code == -1:
			if verdict != 1 {
				out.Oracle("exporter-vs-spec", term, "non-status error (Unknown) must be permanent; "+desc)
			}
		case !vSpecRetryable(code, riKind == 1):
			if verdict != 1 {
				out.Oracle("exporter-vs-spec", term, "spec: not retryable; "+desc)
			}
		default:
			if verdict != 2 && verdict != 3 {
				out.Oracle("exporter-vs-spec", term, "spec: retryable; "+desc)
			}
			if riKind == 1 && d != 0 && (verdict != 3 || delay != int64(d)) {
				out.Oracle("throttle-delay", term, "requested delay not honoured; "+desc)
			}
			if (riKind == 0 || d == 0) && verdict != 2 {
				out.Oracle("throttle-delay", term, "throttle without a requested delay; "+desc)
			}
		}
		if got != nil && err != nil && !errors.Is(got, err) {
			out.Oracle("exporter-error-lost", term, "the returned error does not wrap the received one; "+desc)
		}
	}
	for code := -1; code <= 18; code++ {
		emit(code, 0, 0, false, code%2 == 0, false)
		emit(code, 0, 0, false, false, true)
		if code <= 0 {
			continue
		}
		emit(code, 1, 0, true, false, false)
		for i, d := range delays {
			emit(code, 1, d, false, i%3 == 0, i%4 == 1)
		}
	}
	for code := -3; code <= 40; code++ {
		for _, isnil := range []bool{true, false} {
			var ri *errdetails.RetryInfo
			if !isnil {
				ri = &errdetails.RetryInfo{}
			}
			got := shouldRetry(codes.Code(code), ri)
			b := int64(0)
			if got {
				b = 1
			}
			n := int64(0)
			if isnil {
				n = 1
			}
			term := vPair("4", vPair(vList([]string{vZ(int64(code)), vZ(n)}), vList([]string{vZ(b)})))
			out.Case(true, term)
			if code >= 0 && got != vSpecRetryable(code, !isnil) {
				out.Oracle("exporter-vs-spec", term, fmt.Sprintf("shouldRetry(%d, nil=%v) = %v", code, isnil, got))
			}
		}
	}
}
