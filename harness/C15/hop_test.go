// C15 hop harness (injected into /repo/internal/e2e by overlay): REAL otlpreceiver on loopback ports
// with a scripted next consumer, REAL otlp (gRPC) and otlphttp (proto, json) exporters with retry and
// queue disabled, plus raw HTTP requests and raw gRPC frames.
//
// Case terms (Coq): (kind, (input, observed)) : nat * (list Z * list Z)
//   outcome o = okind; code; ri_kind; ri_nanos; wrap      (as in errors_test.go; okind 0 = accept)
//   kind 7  raw HTTP request:  [auth; enc; post; ct; body; o...]            -> [called; status; ra_present; ra_secs; body_code]
//           auth 0 none configured, 1 accepted, 2 refused; enc 0 good, 1 bad body (eager decoder), 2 bad body
//           (lazy decoder), 3 unsupported Content-Encoding, 4 the body read ends early (compressed stream without its trailer / fewer bytes than Content-Length) although the received prefix is intact; ct 0 protobuf, 1 json, 2 anything else;
//           body -1 = does not unmarshal, n >= 0 = n items; body_code -1 = body is not an rpc.Status
//   kind 8  hop through an exporter: [transport; auth; items; o...; signal; compression; sets_event_name_or_zero_threshold; compression level; body KiB] -> [called; verdict; delay; errcode; sink_n; sink_eq]
//           transport 0 grpc, 1 http/proto, 2 http/json; verdict 0 success, 1 permanent, 2 retryable, 3 throttle
//   kind 10 hop while the receiver shuts down: [transport; phase; items; o...; signal] -> [called; verdict; delay; errcode; sink_n; sink_eq]
//           phase 1: the export is inside the next consumer when Receiver.Shutdown starts (the consumer answers afterwards);
//           phase 2: the export is sent after Shutdown returned (errcode not compared: there is no status on the HTTP route)
//   kind 11 hop with a slow consumer and HTTP server timeouts: [transport; read_timeout ms; write_timeout ms; consumer ms; items; o...; signal]
//           -> [called; verdict; delay; errcode; sink_n; sink_eq]   (0 ms = timeout not configured)
//   kind 12 a history: several sends in a row against one receiver whose sink is NOT reset in between:
//           [t; a; items; o... (8 numbers per send)] -> [verdict; delay (2 numbers per send)] ++ [-7] ++ [indices of the sends found at the sink, in order]
//   kind 13 hop to a receiver with an explicit compression_algorithms list: [transport; compression name code; items; o...; signal; list codes...]
//           -> [called; verdict; delay; errcode; sink_n; sink_eq]    (codes: 0 "", 1 gzip, 2 zstd, 3 zlib, 4 snappy, 5 deflate, 6 lz4)
//   kind 9  raw gRPC frame:    [auth; body; o...]                            -> [called; code; ri_present; ri_nanos]   (code 0 = OK)
//
// Direct oracle (independent of the Coq model): the property's sentences — sink payload equals the sent
// payload (marshalled bytes); success iff the consumer accepted (or there were no items); explicit
// status keeps its code on gRPC; permanent => permanent, transient => retryable on every transport;
// classification follows the hand-written OTLP tables; malformed / wrong media type / wrong method /
// unauthenticated => client-error status and the consumer is never called; no items => consumer not called.
package e2e

import (
	"bufio"
	"bytes"
	"compress/gzip"
	"compress/zlib"
	"context"
	"encoding/json"
	"errors"
	"fmt"
	"io"
	"math"
	"net"
	"net/http"
	"regexp"
	"strconv"
	"strings"
	"sync"
	"testing"
	"time"

	"go.uber.org/goleak"
	spb "google.golang.org/genproto/googleapis/rpc/status"
	"google.golang.org/genproto/googleapis/rpc/errdetails"
	"google.golang.org/grpc"
	"google.golang.org/grpc/codes"
	"google.golang.org/grpc/credentials/insecure"
	"google.golang.org/grpc/metadata"
	"google.golang.org/grpc/status"
	"google.golang.org/protobuf/proto"
	"google.golang.org/protobuf/types/known/durationpb"

	"go.opentelemetry.io/collector/component"
	"go.opentelemetry.io/collector/config/configauth"
	"go.opentelemetry.io/collector/config/configcompression"
	"go.opentelemetry.io/collector/config/confighttp"
	"go.opentelemetry.io/collector/config/configopaque"
	"go.opentelemetry.io/collector/consumer"
	"go.opentelemetry.io/collector/consumer/consumererror"
	"go.opentelemetry.io/collector/consumer/xconsumer"
	"go.opentelemetry.io/collector/exporter"
	"go.opentelemetry.io/collector/exporter/exportertest"
	"go.opentelemetry.io/collector/exporter/otlpexporter"
	"go.opentelemetry.io/collector/exporter/otlphttpexporter"
	"go.opentelemetry.io/collector/exporter/xexporter"
	"go.opentelemetry.io/collector/pdata/pcommon"
	"go.opentelemetry.io/collector/pdata/plog"
	"go.opentelemetry.io/collector/pdata/plog/plogotlp"
	"go.opentelemetry.io/collector/pdata/pmetric"
	"go.opentelemetry.io/collector/pdata/pmetric/pmetricotlp"
	"go.opentelemetry.io/collector/pdata/pprofile"
	"go.opentelemetry.io/collector/pdata/pprofile/pprofileotlp"
	"go.opentelemetry.io/collector/pdata/ptrace"
	"go.opentelemetry.io/collector/pdata/ptrace/ptraceotlp"
	"go.opentelemetry.io/collector/receiver/otlpreceiver"
	"go.opentelemetry.io/collector/receiver/receivertest"
	"go.opentelemetry.io/collector/receiver/xreceiver"
)

// ---- scripted errors (same shapes as errors_test.go) ---------------------------------------------
type vCustomErr struct{ st *status.Status }

func (e vCustomErr) Error() string              { return "custom" }
func (e vCustomErr) GRPCStatus() *status.Status { return e.st }

type vOutcome struct {
	okind  int // 0 accept 1 plain 2 permanent 3 status 4 custom
	code   int
	riKind int
	d      time.Duration
	wrap   int
}

func (o vOutcome) terms() []string {
	return []string{vZ(int64(o.okind)), vZ(int64(o.code)), vZ(int64(o.riKind)), vZ(int64(o.d)), vZ(int64(o.wrap))}
}

func vMkStatus(code int, riKind int, d time.Duration) *status.Status {
	st := status.New(codes.Code(code), "msg")
	if riKind == 1 {
		if code == 0 {
			p := st.Proto()
			st2, _ := status.New(codes.Unknown, "msg").WithDetails(&errdetails.RetryInfo{RetryDelay: durationpb.New(d)})
			p.Details = st2.Proto().Details
			return status.FromProto(p)
		}
		st2, err := st.WithDetails(&errdetails.RetryInfo{RetryDelay: durationpb.New(d)})
		if err != nil {
			panic(err)
		}
		return st2
	}
	return st
}

func vWrap(err error, w int) error {
	switch w {
	case 1:
		return consumererror.NewPermanent(err)
	case 2:
		return fmt.Errorf("wrapped: %w", err)
	}
	return err
}

func (o vOutcome) err() error {
	switch o.okind {
	case 0:
		return nil
	case 1:
		return vWrap(errors.New("plain"), o.wrap)
	case 2:
		return vWrap(consumererror.NewPermanent(errors.New("perm")), o.wrap)
	case 3:
		return vWrap(vMkStatus(o.code, o.riKind, o.d).Err(), o.wrap)
	default:
		if o.code == -1 {
			return vWrap(vCustomErr{nil}, o.wrap)
		}
		return vWrap(vCustomErr{vMkStatus(o.code, o.riKind, o.d)}, o.wrap)
	}
}

// what the property expects of an outcome, independently of the model:
// class 0 success, 1 permanent, 2 retryable; -1: the two OTLP tables differ / unspecified, not judged
func (o vOutcome) expectedClass(transport int) int {
	switch o.okind {
	case 0:
		return 0
	case 1:
		return 2
	case 2:
		return 1
	}
	// a foreign error whose GRPCStatus() is nil, or says OK (an error all the same: since /repo b16584117 it is
	// reported like an error without a status), counts as "any other error"
	if o.okind == 4 && (o.code == -1 || o.code == 0) {
		if o.wrap == 1 {
			return 1
		}
		return 2
	}
	c := o.code
	switch c {
	case 1, 4, 10, 11, 14, 15:
		return 2
	case 8:
		if o.riKind == 1 {
			return 2
		}
		if transport == 0 {
			return 1
		}
		return 2 // HTTP 429 is retryable in the HTTP table
	}
	return 1
}

// ---- authenticator extension + host ---------------------------------------------------------------
type vAuthExt struct{}

func (vAuthExt) Start(context.Context, component.Host) error { return nil }
func (vAuthExt) Shutdown(context.Context) error              { return nil }
func (vAuthExt) Authenticate(ctx context.Context, sources map[string][]string) (context.Context, error) {
	for k, v := range sources {
		if strings.EqualFold(k, "authorization") && len(v) > 0 && v[0] == "good" {
			return ctx, nil
		}
	}
	return ctx, errors.New("bad credentials")
}

type vHost struct{ ext map[component.ID]component.Component }

func (h vHost) GetExtensions() map[component.ID]component.Component { return h.ext }

var vAuthID = component.MustNewID("vauth")

// ---- scripted sink ---------------------------------------------------------------------------------
type vSink struct {
	mu    sync.Mutex
	err   error
	calls [][]byte
	// when set, every consume call announces itself on entered and then waits for release (shutdown scenarios)
	entered chan struct{}
	release chan struct{}
	hold    time.Duration // every consume call takes at least this long (slow-consumer scenarios)
}

func (s *vSink) set(err error) {
	s.mu.Lock()
	s.err = err
	s.calls = nil
	s.mu.Unlock()
}

// setErr changes what the consumer answers without forgetting what it has received so far
func (s *vSink) setErr(err error) {
	s.mu.Lock()
	s.err = err
	s.mu.Unlock()
}

func (s *vSink) record(b []byte) error {
	s.mu.Lock()
	ent, rel, hold := s.entered, s.release, s.hold
	s.mu.Unlock()
	if hold > 0 {
		time.Sleep(hold)
	}
	if ent != nil {
		ent <- struct{}{}
		<-rel
	}
	s.mu.Lock()
	defer s.mu.Unlock()
	s.calls = append(s.calls, b)
	return s.err
}

func (s *vSink) got() [][]byte {
	s.mu.Lock()
	defer s.mu.Unlock()
	return append([][]byte(nil), s.calls...)
}

func (s *vSink) traces(_ context.Context, td ptrace.Traces) error {
	b, _ := (&ptrace.ProtoMarshaler{}).MarshalTraces(td)
	return s.record(b)
}

func (s *vSink) metrics(_ context.Context, md pmetric.Metrics) error {
	b, _ := (&pmetric.ProtoMarshaler{}).MarshalMetrics(md)
	return s.record(b)
}

func (s *vSink) logs(_ context.Context, ld plog.Logs) error {
	b, _ := (&plog.ProtoMarshaler{}).MarshalLogs(ld)
	return s.record(b)
}

func (s *vSink) profiles(_ context.Context, pd pprofile.Profiles) error {
	b, _ := (&pprofile.ProtoMarshaler{}).MarshalProfiles(pd)
	return s.record(b)
}

// ---- receiver ---------------------------------------------------------------------------------------
type vRecv struct {
	sink     *vSink
	grpcAddr string
	httpAddr string
	comps    []component.Component
}

func vFreeAddr() string {
	l, err := net.Listen("tcp4", "127.0.0.1:0")
	if err != nil {
		panic(err)
	}
	a := l.Addr().String()
	l.Close()
	return a
}

func vStartReceiver(withAuth bool, host component.Host, opts ...func(*otlpreceiver.Config)) (*vRecv, error) {
	var lastErr error
	for attempt := 0; attempt < 20; attempt++ {
		r := &vRecv{sink: &vSink{}, grpcAddr: vFreeAddr(), httpAddr: vFreeAddr()}
		f := otlpreceiver.NewFactory()
		cfg := f.CreateDefaultConfig().(*otlpreceiver.Config)
		cfg.GRPC.NetAddr.Endpoint = r.grpcAddr
		cfg.HTTP.ServerConfig.Endpoint = r.httpAddr
		if withAuth {
			cfg.GRPC.Auth = &configauth.Authentication{AuthenticatorID: vAuthID}
			cfg.HTTP.ServerConfig.Auth = &confighttp.AuthConfig{Authentication: configauth.Authentication{AuthenticatorID: vAuthID}}
		}
		for _, opt := range opts {
			opt(cfg)
		}
		set := receivertest.NewNopSettings(f.Type())
		ctx := context.Background()
		ct, _ := consumer.NewTraces(r.sink.traces)
		cm, _ := consumer.NewMetrics(r.sink.metrics)
		cl, _ := consumer.NewLogs(r.sink.logs)
		cp, _ := xconsumer.NewProfiles(r.sink.profiles)
		rt, err := f.CreateTraces(ctx, set, cfg, ct)
		if err != nil {
			return nil, err
		}
		rm, err := f.CreateMetrics(ctx, set, cfg, cm)
		if err != nil {
			return nil, err
		}
		rl, err := f.CreateLogs(ctx, set, cfg, cl)
		if err != nil {
			return nil, err
		}
		rp, err := f.(xreceiver.Factory).CreateProfiles(ctx, set, cfg, cp)
		if err != nil {
			return nil, err
		}
		r.comps = []component.Component{rt, rm, rl, rp}
		ok := true
		for _, c := range r.comps {
			if err := c.Start(ctx, host); err != nil {
				lastErr = err
				ok = false
				break
			}
		}
		if ok {
			return r, nil
		}
		for _, c := range r.comps { // a port was taken by somebody else in between: try other ports
			_ = c.Shutdown(ctx)
		}
	}
	return nil, lastErr
}

func (r *vRecv) stop() {
	for _, c := range r.comps {
		_ = c.Shutdown(context.Background())
	}
}

// ---- exporters ---------------------------------------------------------------------------------------
type vExp struct {
	comp     component.Component
	traces   exporter.Traces
	metrics  exporter.Metrics
	logs     exporter.Logs
	profiles xexporter.Profiles
}

var vGrpcComps = []string{"none", "gzip", "snappy", "zstd"}
var vHTTPComps = []string{"none", "gzip", "zlib", "deflate", "snappy", "zstd", "lz4"}

// comp is a compression name, optionally followed by ":<level>" (compression_params.level of the HTTP client)
func vCompLevel(comp string) (string, int) {
	if i := strings.IndexByte(comp, ':'); i >= 0 {
		n, err := strconv.Atoi(comp[i+1:])
		if err != nil {
			panic(err)
		}
		return comp[:i], n
	}
	return comp, 0
}

// vExpCfgHook, when set, edits the exporter configuration before the exporter is created (rare-configuration phase)
var vExpCfgHook func(grpcCfg *otlpexporter.Config, httpCfg *otlphttpexporter.Config)

func vNewExporter(transport int, comp string, authHdr int, signal int, r *vRecv, host component.Host) (*vExp, error) {
	ctx := context.Background()
	comp, level := vCompLevel(comp)
	hdr := map[string]configopaque.String{}
	switch authHdr {
	case 1:
		hdr["authorization"] = "good"
	case 2:
		hdr["authorization"] = "bad"
	}
	e := &vExp{}
	var err error
	if transport == 0 {
		f := otlpexporter.NewFactory()
		cfg := f.CreateDefaultConfig().(*otlpexporter.Config)
		cfg.ClientConfig.Endpoint = r.grpcAddr
		cfg.ClientConfig.TLSSetting.Insecure = true
		cfg.ClientConfig.Compression = configcompression.Type(comp)
		cfg.ClientConfig.Headers = hdr
		cfg.RetryConfig.Enabled = false
		cfg.QueueConfig.Enabled = false
		cfg.TimeoutConfig.Timeout = 60 * time.Second
		if vExpCfgHook != nil {
			vExpCfgHook(cfg, nil)
		}
		set := exportertest.NewNopSettings(f.Type())
		switch signal {
		case 0:
			e.traces, err = f.CreateTraces(ctx, set, cfg)
			e.comp = e.traces
		case 1:
			e.metrics, err = f.CreateMetrics(ctx, set, cfg)
			e.comp = e.metrics
		case 2:
			e.logs, err = f.CreateLogs(ctx, set, cfg)
			e.comp = e.logs
		default:
			e.profiles, err = f.(xexporter.Factory).CreateProfiles(ctx, set, cfg)
			e.comp = e.profiles
		}
	} else {
		f := otlphttpexporter.NewFactory()
		cfg := f.CreateDefaultConfig().(*otlphttpexporter.Config)
		cfg.ClientConfig.Endpoint = "http://" + r.httpAddr
		cfg.ClientConfig.Compression = configcompression.Type(comp)
		cfg.ClientConfig.CompressionParams = configcompression.CompressionParams{Level: configcompression.Level(level)}
		if err := cfg.ClientConfig.Compression.ValidateParams(cfg.ClientConfig.CompressionParams); err != nil {
			return nil, err
		}
		cfg.ClientConfig.Headers = hdr
		cfg.ClientConfig.Timeout = 60 * time.Second
		cfg.RetryConfig.Enabled = false
		cfg.QueueConfig.Enabled = false
		if transport == 2 {
			cfg.Encoding = otlphttpexporter.EncodingJSON
		} else {
			cfg.Encoding = otlphttpexporter.EncodingProto
		}
		if vExpCfgHook != nil {
			vExpCfgHook(nil, cfg)
		}
		set := exportertest.NewNopSettings(f.Type())
		switch signal {
		case 0:
			e.traces, err = f.CreateTraces(ctx, set, cfg)
			e.comp = e.traces
		case 1:
			e.metrics, err = f.CreateMetrics(ctx, set, cfg)
			e.comp = e.metrics
		case 2:
			e.logs, err = f.CreateLogs(ctx, set, cfg)
			e.comp = e.logs
		default:
			e.profiles, err = f.(xexporter.Factory).CreateProfiles(ctx, set, cfg)
			e.comp = e.profiles
		}
	}
	if err != nil {
		return nil, err
	}
	if err := e.comp.Start(ctx, host); err != nil {
		return nil, err
	}
	return e, nil
}

// ---- classification of the error an exporter returns ------------------------------------------------
var vThrottleRe = regexp.MustCompile(`^Throttle \(([^)]*)\)`)

// verdict 0 success, 1 permanent, 2 retryable, 3 throttle(delay)
func vClassify(err error) (int, int64) {
	if err == nil {
		return 0, 0
	}
	if consumererror.IsPermanent(err) {
		return 1, 0
	}
	for e := err; e != nil; e = errors.Unwrap(e) {
		if strings.HasSuffix(fmt.Sprintf("%T", e), "throttleRetry") {
			m := vThrottleRe.FindStringSubmatch(e.Error())
			if m == nil {
				return 3, math.MinInt64
			}
			d, perr := time.ParseDuration(m[1])
			if perr != nil {
				return 3, math.MinInt64
			}
			return 3, int64(d)
		}
	}
	return 2, 0
}

func vErrCode(err error) int64 {
	if err == nil {
		return -1
	}
	st, ok := status.FromError(err)
	if !ok {
		return -2
	}
	return int64(st.Code())
}

// ---- payloads ------------------------------------------------------------------------------------------
func vStr8(r *vRand) string {
	const al = "abcdefghijklmnopqrstuvwxyz0123456789-_./ éß漢"
	rs := []rune(al)
	n := r.Intn(9)
	out := make([]rune, n)
	for i := range out {
		out[i] = rs[r.Intn(len(rs))]
	}
	return string(out)
}

func vFloat(r *vRand) float64 {
	switch r.Intn(5) {
	case 0:
		return 0
	case 1:
		return float64(r.Intn(1000)) / 8
	case 2:
		return -float64(r.Intn(1000)+1) / 16
	case 3:
		return math.MaxFloat64
	}
	f := math.Float64frombits(r.U64())
	if math.IsNaN(f) || math.IsInf(f, 0) || f == 0 {
		return 1.5
	}
	return f
}

func vFillValue(r *vRand, v pcommon.Value, depth int) {
	k := r.Intn(7)
	if depth > 1 && k >= 5 {
		k = r.Intn(5)
	}
	switch k {
	case 0:
		v.SetStr(vStr8(r))
	case 1:
		v.SetInt(int64(r.U64()))
	case 2:
		v.SetDouble(vFloat(r))
	case 3:
		v.SetBool(r.Bool())
	case 4:
		b := make([]byte, 1+r.Intn(6))
		for i := range b {
			b[i] = byte(r.Intn(256))
		}
		v.SetEmptyBytes().FromRaw(b)
	case 5:
		m := v.SetEmptyMap()
		vFillMap(r, m, depth+1)
	default:
		s := v.SetEmptySlice()
		for i, n := 0, r.Intn(3); i < n; i++ {
			vFillValue(r, s.AppendEmpty(), depth+1)
		}
	}
}

func vFillMap(r *vRand, m pcommon.Map, depth int) {
	for i, n := 0, r.Intn(4); i < n; i++ {
		vFillValue(r, m.PutEmpty(fmt.Sprintf("k%d%s", i, vStr8(r))), depth)
	}
}

// split n items into groups: resources x scopes
func vSplit(r *vRand, n int) [][]int {
	nr := 1 + r.Intn(3)
	out := make([][]int, nr)
	for i := range out {
		out[i] = make([]int, 1+r.Intn(2))
	}
	for ; n > 0; n-- {
		i := r.Intn(nr)
		out[i][r.Intn(len(out[i]))]++
	}
	return out
}

func vGenTraces(r *vRand, n int) ptrace.Traces {
	td := ptrace.NewTraces()
	if n == 0 && r.Bool() {
		return td
	}
	for _, scopes := range vSplit(r, n) {
		rs := td.ResourceSpans().AppendEmpty()
		vFillMap(r, rs.Resource().Attributes(), 0)
		rs.SetSchemaUrl(vStr8(r))
		for _, k := range scopes {
			ss := rs.ScopeSpans().AppendEmpty()
			ss.Scope().SetName(vStr8(r))
			ss.Scope().SetVersion(vStr8(r))
			for i := 0; i < k; i++ {
				sp := ss.Spans().AppendEmpty()
				var tid [16]byte
				var sid [8]byte
				for j := range tid {
					tid[j] = byte(r.Intn(256))
				}
				for j := range sid {
					sid[j] = byte(r.Intn(256))
				}
				sp.SetTraceID(tid)
				sp.SetSpanID(sid)
				sp.SetName(vStr8(r))
				sp.SetKind(ptrace.SpanKind(r.Intn(6)))
				sp.SetStartTimestamp(pcommon.Timestamp(r.U64()))
				sp.SetEndTimestamp(pcommon.Timestamp(r.U64()))
				sp.SetFlags(uint32(r.U64()))
				sp.TraceState().FromRaw(vStr8(r))
				vFillMap(r, sp.Attributes(), 0)
				sp.SetDroppedAttributesCount(uint32(r.Intn(5)))
				sp.Status().SetCode(ptrace.StatusCode(r.Intn(3)))
				sp.Status().SetMessage(vStr8(r))
				for e, ne := 0, r.Intn(3); e < ne; e++ {
					ev := sp.Events().AppendEmpty()
					ev.SetName(vStr8(r))
					ev.SetTimestamp(pcommon.Timestamp(r.U64()))
					vFillMap(r, ev.Attributes(), 1)
				}
				for e, ne := 0, r.Intn(2); e < ne; e++ {
					ln := sp.Links().AppendEmpty()
					ln.SetTraceID(tid)
					ln.SetSpanID(sid)
					vFillMap(r, ln.Attributes(), 1)
				}
			}
		}
	}
	return td
}

func vGenLogs(r *vRand, n int) plog.Logs {
	useEvent := r.Intn(2) == 0 // regression input: the JSON decoder used to drop LogRecord.event_name (repaired by /repo 3d5efdb0d)
	ld := plog.NewLogs()
	if n == 0 && r.Bool() {
		return ld
	}
	for _, scopes := range vSplit(r, n) {
		rl := ld.ResourceLogs().AppendEmpty()
		vFillMap(r, rl.Resource().Attributes(), 0)
		rl.SetSchemaUrl(vStr8(r))
		for _, k := range scopes {
			sl := rl.ScopeLogs().AppendEmpty()
			sl.Scope().SetName(vStr8(r))
			sl.SetSchemaUrl(vStr8(r))
			for i := 0; i < k; i++ {
				lr := sl.LogRecords().AppendEmpty()
				lr.SetTimestamp(pcommon.Timestamp(r.U64()))
				lr.SetObservedTimestamp(pcommon.Timestamp(r.U64()))
				lr.SetSeverityNumber(plog.SeverityNumber(r.Intn(25)))
				lr.SetSeverityText(vStr8(r))
				lr.SetFlags(plog.LogRecordFlags(r.Intn(256)))
				if useEvent {
					lr.SetEventName("e" + vStr8(r))
				}
				vFillValue(r, lr.Body(), 0)
				vFillMap(r, lr.Attributes(), 0)
				lr.SetDroppedAttributesCount(uint32(r.Intn(4)))
			}
		}
	}
	return ld
}

// n = number of data points
func vGenMetrics(r *vRand, n int) pmetric.Metrics {
	useZT := r.Intn(2) == 0 // regression input: the JSON decoder used to drop ExponentialHistogramDataPoint.zero_threshold (repaired by /repo 3d5efdb0d)
	md := pmetric.NewMetrics()
	if n == 0 && r.Bool() {
		return md
	}
	for _, scopes := range vSplit(r, n) {
		rm := md.ResourceMetrics().AppendEmpty()
		vFillMap(r, rm.Resource().Attributes(), 0)
		rm.SetSchemaUrl(vStr8(r))
		for _, k := range scopes {
			sm := rm.ScopeMetrics().AppendEmpty()
			sm.Scope().SetName(vStr8(r))
			for k > 0 {
				pts := 1 + r.Intn(k)
				k -= pts
				m := sm.Metrics().AppendEmpty()
				m.SetName(vStr8(r))
				m.SetDescription(vStr8(r))
				m.SetUnit(vStr8(r))
				vFillMap(r, m.Metadata(), 1)
				switch r.Intn(5) {
				case 0:
					g := m.SetEmptyGauge()
					for i := 0; i < pts; i++ {
						dp := g.DataPoints().AppendEmpty()
						dp.SetTimestamp(pcommon.Timestamp(r.U64()))
						if r.Bool() {
							dp.SetIntValue(int64(r.U64()))
						} else {
							dp.SetDoubleValue(vFloat(r))
						}
						vFillMap(r, dp.Attributes(), 1)
					}
				case 1:
					s := m.SetEmptySum()
					s.SetIsMonotonic(r.Bool())
					s.SetAggregationTemporality(pmetric.AggregationTemporality(r.Intn(3)))
					for i := 0; i < pts; i++ {
						dp := s.DataPoints().AppendEmpty()
						dp.SetStartTimestamp(pcommon.Timestamp(r.U64()))
						dp.SetIntValue(int64(r.U64()))
						dp.SetFlags(pmetric.DataPointFlags(r.Intn(2)))
						if r.Bool() {
							ex := dp.Exemplars().AppendEmpty()
							ex.SetDoubleValue(vFloat(r))
							ex.SetTimestamp(pcommon.Timestamp(r.U64()))
							vFillMap(r, ex.FilteredAttributes(), 1)
						}
					}
				case 2:
					h := m.SetEmptyHistogram()
					h.SetAggregationTemporality(pmetric.AggregationTemporality(r.Intn(3)))
					for i := 0; i < pts; i++ {
						dp := h.DataPoints().AppendEmpty()
						dp.SetCount(r.U64())
						if r.Bool() {
							dp.SetSum(vFloat(r))
						}
						if r.Bool() {
							dp.SetMin(vFloat(r))
							dp.SetMax(vFloat(r))
						}
						nb := r.Intn(4)
						for b := 0; b < nb; b++ {
							dp.ExplicitBounds().Append(float64(b) * 2.5)
						}
						for b := 0; b <= nb; b++ {
							dp.BucketCounts().Append(uint64(r.Intn(100)))
						}
						vFillMap(r, dp.Attributes(), 1)
					}
				case 3:
					h := m.SetEmptyExponentialHistogram()
					h.SetAggregationTemporality(pmetric.AggregationTemporality(r.Intn(3)))
					for i := 0; i < pts; i++ {
						dp := h.DataPoints().AppendEmpty()
						dp.SetCount(r.U64())
						dp.SetScale(int32(r.Intn(20)) - 10)
						dp.SetZeroCount(uint64(r.Intn(10)))
						dp.Positive().SetOffset(int32(r.Intn(9)) - 4)
						for b, nb := 0, r.Intn(4); b < nb; b++ {
							dp.Positive().BucketCounts().Append(uint64(r.Intn(100)))
						}
						dp.Negative().SetOffset(int32(r.Intn(9)) - 4)
						if useZT {
							dp.SetZeroThreshold(float64(1+r.Intn(4)) / 4)
						}
					}
				default:
					s := m.SetEmptySummary()
					for i := 0; i < pts; i++ {
						dp := s.DataPoints().AppendEmpty()
						dp.SetCount(r.U64())
						dp.SetSum(float64(r.Intn(1000)) / 4)
						for q, nq := 0, r.Intn(3); q < nq; q++ {
							qv := dp.QuantileValues().AppendEmpty()
							qv.SetQuantile(float64(q+1) / 4)
							qv.SetValue(float64(r.Intn(1000)+1) / 8)
						}
					}
				}
			}
		}
	}
	return md
}

// n = number of samples
func vGenProfiles(r *vRand, n int) pprofile.Profiles {
	pd := pprofile.NewProfiles()
	if n == 0 && r.Bool() {
		return pd
	}
	for _, scopes := range vSplit(r, n) {
		rp := pd.ResourceProfiles().AppendEmpty()
		vFillMap(r, rp.Resource().Attributes(), 0)
		rp.SetSchemaUrl(vStr8(r))
		for _, k := range scopes {
			sp := rp.ScopeProfiles().AppendEmpty()
			sp.Scope().SetName(vStr8(r))
			for k > 0 {
				ns := 1 + r.Intn(k)
				k -= ns
				p := sp.Profiles().AppendEmpty()
				var id [16]byte
				for j := range id {
					id[j] = byte(r.Intn(256))
				}
				p.SetProfileID(id)
				p.SetTime(pcommon.Timestamp(r.U64() >> 1))
				p.SetDuration(pcommon.Timestamp(r.U64() >> 1))
				p.SetPeriod(int64(r.Intn(1000)))
				for i, m := 0, 1+r.Intn(3); i < m; i++ {
					p.StringTable().Append(vStr8(r))
				}
				for i := 0; i < ns; i++ {
					s := p.Sample().AppendEmpty()
					s.SetLocationsStartIndex(int32(r.Intn(5)))
					s.SetLocationsLength(int32(r.Intn(5)))
					s.Value().Append(int64(r.Intn(1000)))
				}
			}
		}
	}
	return pd
}

// ---- the harness -----------------------------------------------------------------------------------------
type vEnv struct {
	t     *testing.T
	out   *vOut
	host  vHost
	plain *vRecv // no authenticator configured
	auth  *vRecv // server-side authenticator configured
	exps  map[string]*vExp
	hc    *http.Client
	conns map[string]*grpc.ClientConn
	// rare-configuration phase: use this receiver / exporter instead of the shared ones
	ovRecv *vRecv
	ovExp  *vExp
}

func (v *vEnv) recv(auth int) *vRecv {
	if auth == 0 {
		return v.plain
	}
	return v.auth
}

func (v *vEnv) exporter(transport int, comp string, auth int, signal int) *vExp {
	key := fmt.Sprintf("%d/%s/%d/%d", transport, comp, auth, signal)
	if e, ok := v.exps[key]; ok {
		return e
	}
	e, err := vNewExporter(transport, comp, auth, signal, v.recv(auth), v.host)
	if err != nil {
		v.t.Fatalf("cannot create exporter %s: %v", key, err)
	}
	v.exps[key] = e
	return e
}

var vSignalPaths = []string{"/v1/traces", "/v1/metrics", "/v1/logs", "/v1development/profiles"}
var vGrpcMethods = []string{
	"/opentelemetry.proto.collector.trace.v1.TraceService/Export",
	"/opentelemetry.proto.collector.metrics.v1.MetricsService/Export",
	"/opentelemetry.proto.collector.logs.v1.LogsService/Export",
	"/opentelemetry.proto.collector.profiles.v1development.ProfilesService/Export",
}

// a payload of the signal with n items: (canonical proto bytes of the payload, proto request body, json request body, sender)
type vPayload struct {
	canon []byte
	pb    []byte
	js    []byte
	send  func(e *vExp) error
	alt   []byte // canonical bytes with event_name / zero_threshold cleared (nil: the payload sets neither)
	why   string // which of the two fields the payload sets (diagnostics only)
}

func vMkPayload(r *vRand, signal, n int) vPayload {
	ctx := context.Background()
	switch signal {
	case 0:
		td := vGenTraces(r, n)
		if vBlobBytes > 0 {
			vAddBlob(r, td.ResourceSpans().At(r.Intn(td.ResourceSpans().Len())).Resource().Attributes(), vBlobBytes)
		}
		if td.SpanCount() != n {
			panic("generator: span count")
		}
		c, _ := (&ptrace.ProtoMarshaler{}).MarshalTraces(td)
		req := ptraceotlp.NewExportRequestFromTraces(td)
		pb, _ := req.MarshalProto()
		var js []byte
		if !vSkipJSON {
			js, _ = req.MarshalJSON()
		}
		return vPayload{c, pb, js, func(e *vExp) error { return e.traces.ConsumeTraces(ctx, td) }, nil, ""}
	case 1:
		md := vGenMetrics(r, n)
		if vBlobBytes > 0 {
			vAddBlob(r, md.ResourceMetrics().At(r.Intn(md.ResourceMetrics().Len())).Resource().Attributes(), vBlobBytes)
		}
		if md.DataPointCount() != n {
			panic("generator: data point count")
		}
		c, _ := (&pmetric.ProtoMarshaler{}).MarshalMetrics(md)
		req := pmetricotlp.NewExportRequestFromMetrics(md)
		pb, _ := req.MarshalProto()
		var js []byte
		if !vSkipJSON {
			js, _ = req.MarshalJSON()
		}
		cp := pmetric.NewMetrics()
		md.CopyTo(cp)
		for i := 0; i < cp.ResourceMetrics().Len(); i++ {
			for j := 0; j < cp.ResourceMetrics().At(i).ScopeMetrics().Len(); j++ {
				ms := cp.ResourceMetrics().At(i).ScopeMetrics().At(j).Metrics()
				for k := 0; k < ms.Len(); k++ {
					if ms.At(k).Type() == pmetric.MetricTypeExponentialHistogram {
						dps := ms.At(k).ExponentialHistogram().DataPoints()
						for l := 0; l < dps.Len(); l++ {
							dps.At(l).SetZeroThreshold(0)
						}
					}
				}
			}
		}
		alt, _ := (&pmetric.ProtoMarshaler{}).MarshalMetrics(cp)
		if bytes.Equal(alt, c) {
			alt = nil
		}
		return vPayload{c, pb, js, func(e *vExp) error { return e.metrics.ConsumeMetrics(ctx, md) }, alt, "sets ExponentialHistogramDataPoint.zero_threshold; "}
	case 2:
		ld := vGenLogs(r, n)
		if vBlobBytes > 0 {
			vAddBlob(r, ld.ResourceLogs().At(r.Intn(ld.ResourceLogs().Len())).Resource().Attributes(), vBlobBytes)
		}
		if ld.LogRecordCount() != n {
			panic("generator: log record count")
		}
		c, _ := (&plog.ProtoMarshaler{}).MarshalLogs(ld)
		req := plogotlp.NewExportRequestFromLogs(ld)
		pb, _ := req.MarshalProto()
		var js []byte
		if !vSkipJSON {
			js, _ = req.MarshalJSON()
		}
		cp := plog.NewLogs()
		ld.CopyTo(cp)
		for i := 0; i < cp.ResourceLogs().Len(); i++ {
			for j := 0; j < cp.ResourceLogs().At(i).ScopeLogs().Len(); j++ {
				lrs := cp.ResourceLogs().At(i).ScopeLogs().At(j).LogRecords()
				for k := 0; k < lrs.Len(); k++ {
					lrs.At(k).SetEventName("")
				}
			}
		}
		alt, _ := (&plog.ProtoMarshaler{}).MarshalLogs(cp)
		if bytes.Equal(alt, c) {
			alt = nil
		}
		return vPayload{c, pb, js, func(e *vExp) error { return e.logs.ConsumeLogs(ctx, ld) }, alt, "sets LogRecord.event_name; "}
	default:
		pd := vGenProfiles(r, n)
		if vBlobBytes > 0 {
			vAddBlob(r, pd.ResourceProfiles().At(r.Intn(pd.ResourceProfiles().Len())).Resource().Attributes(), vBlobBytes)
		}
		if pd.SampleCount() != n {
			panic("generator: sample count")
		}
		c, _ := (&pprofile.ProtoMarshaler{}).MarshalProfiles(pd)
		req := pprofileotlp.NewExportRequestFromProfiles(pd)
		pb, _ := req.MarshalProto()
		var js []byte
		if !vSkipJSON {
			js, _ = req.MarshalJSON()
		}
		return vPayload{c, pb, js, func(e *vExp) error { return e.profiles.ConsumeProfiles(ctx, pd) }, nil, ""}
	}
}

func vUnmarshalFails(signal int, ct int, b []byte) bool {
	var err error
	switch signal {
	case 0:
		q := ptraceotlp.NewExportRequest()
		if ct == 0 {
			err = q.UnmarshalProto(b)
		} else {
			err = q.UnmarshalJSON(b)
		}
	case 1:
		q := pmetricotlp.NewExportRequest()
		if ct == 0 {
			err = q.UnmarshalProto(b)
		} else {
			err = q.UnmarshalJSON(b)
		}
	case 2:
		q := plogotlp.NewExportRequest()
		if ct == 0 {
			err = q.UnmarshalProto(b)
		} else {
			err = q.UnmarshalJSON(b)
		}
	default:
		q := pprofileotlp.NewExportRequest()
		if ct == 0 {
			err = q.UnmarshalProto(b)
		} else {
			err = q.UnmarshalJSON(b)
		}
	}
	return err != nil
}

// vBadFlavour selects the kind of malformed body: 0 random, 1 bytes that fail before anything is decoded,
// 2 a VALID request with >= 1 item followed by a corrupted tail (decoders fill the request incrementally, so
// part of the data is already decoded when the error is found: truncated upload, corrupted tail)
var vBadFlavour int

func vBadBody(r *vRand, signal, ct int) []byte {
	fl := vBadFlavour
	if fl == 0 {
		fl = 1 + r.Intn(2)
	}
	if fl == 2 {
		saved := vSkipJSON
		vSkipJSON = false
		p := vMkPayload(r, signal, 1+r.Intn(5))
		vSkipJSON = saved
		var cands [][]byte
		if ct == 0 {
			cands = [][]byte{
				append(append([]byte{}, p.pb...), 0x0a, 0x7f, 0x01),       // a truncated length-delimited field 1
				append(append([]byte{}, p.pb...), 0xff, 0xff, 0xff),       // an unterminated varint tag
				append(append([]byte{}, p.pb...), p.pb[:len(p.pb)-1]...), // a second copy cut short
			}
		} else {
			cands = [][]byte{
				append([]byte{}, p.js[:len(p.js)-1]...),       // the closing brace is missing
				append(append([]byte{}, p.js[:len(p.js)-1]...), []byte(`,"x":[1,`)...),
				append(append([]byte{}, p.js...), []byte(`{`)...),
			}
		}
		k := r.Intn(len(cands))
		for i := 0; i < len(cands); i++ {
			b := cands[(k+i)%len(cands)]
			if vUnmarshalFails(signal, ct, b) {
				return b
			}
		}
	}
	pbBad := [][]byte{{0xff, 0xff, 0xff}, {0x0a, 0x7f, 0x01}, {0x0a}, []byte("this is not protobuf at all")}
	jsBad := [][]byte{[]byte("{"), []byte("not json"), []byte(`{"resourceSpans": 5`), []byte(`[1,2`), {0xff, 0xfe}}
	for i := 0; i < 50; i++ {
		var b []byte
		if ct == 0 {
			if r.Intn(3) == 0 {
				b = make([]byte, 1+r.Intn(12))
				for j := range b {
					b[j] = byte(r.Intn(256))
				}
			} else {
				b = pbBad[r.Intn(len(pbBad))]
			}
		} else {
			b = jsBad[r.Intn(len(jsBad))]
		}
		if vUnmarshalFails(signal, ct, b) {
			return b
		}
	}
	return []byte{0xff, 0xff, 0xff}
}

// ---- one hop through an exporter (kind 8) ---------------------------------------------------------------
func (v *vEnv) hop(r *vRand, transport, auth, items int, o vOutcome, signal int, comp string, compIdx int) {
	v.hopP(r, transport, auth, items, o, signal, comp, compIdx, nil)
}

// a payload of the signal whose protobuf body has at least minBytes bytes (several blocks / windows of every compressor)
func vMkLargePayload(r *vRand, signal, minBytes int) (vPayload, int) {
	vSkipJSON = true // the JSON request body is only needed by the raw HTTP requests
	vBlobBytes = minBytes
	defer func() { vSkipJSON, vBlobBytes = false, 0 }()
	n := 20 + r.Intn(200)
	return vMkPayload(r, signal, n), n
}

// vAddBlob makes the payload large: half incompressible bytes, half repetitive text, spread over a few attributes
func vAddBlob(r *vRand, m pcommon.Map, total int) {
	parts := 1 + r.Intn(3)
	for i := 0; i < parts; i++ {
		sz := total / parts
		if i%2 == 0 {
			b := make([]byte, sz/2+8)
			for k := 0; k+8 <= len(b); k += 8 {
				x := r.U64()
				for q := 0; q < 8; q++ {
					b[k+q] = byte(x >> (8 * q))
				}
			}
			m.PutEmptyBytes(fmt.Sprintf("blob%d", i)).FromRaw(b)
			m.PutStr(fmt.Sprintf("text%d", i), strings.Repeat("the quick brown fox "+vStr8(r), sz/2/24+1))
		} else {
			b := make([]byte, sz+8)
			for k := 0; k+8 <= len(b); k += 8 {
				x := r.U64()
				for q := 0; q < 8; q++ {
					b[k+q] = byte(x >> (8 * q))
				}
			}
			m.PutEmptyBytes(fmt.Sprintf("blob%d", i)).FromRaw(b)
		}
	}
}

var vBlobBytes int

var vSkipJSON bool

func (v *vEnv) hopP(r *vRand, transport, auth, items int, o vOutcome, signal int, comp string, compIdx int, given *vPayload) {
	var p vPayload
	if given != nil {
		p = *given
	} else {
		p = vMkPayload(r, signal, items)
	}
	_, level := vCompLevel(comp)
	kib := len(p.pb) / 1024
	rc := v.recv(auth)
	if v.ovRecv != nil {
		rc = v.ovRecv
	}
	rc.sink.set(o.err())
	e := v.exporter(transport, comp, auth, signal)
	if v.ovExp != nil {
		e = v.ovExp
	}
	err := p.send(e)
	verdict, delay := vClassify(err)
	code := vErrCode(err)
	got := rc.sink.got()
	called := len(got) > 0
	sinkEq := int64(1)
	for _, g := range got {
		if !bytes.Equal(g, p.canon) {
			sinkEq = 0
		}
	}
	lossy := int64(0)
	if p.alt != nil {
		lossy = 1
		v.out.Stat("hop_payload_sets_event_name_or_zero_threshold", 1)
		if transport == 2 {
			v.out.Stat("hop_json_payload_sets_event_name_or_zero_threshold", 1)
		}
	}
	in := append([]string{vZ(int64(transport)), vZ(int64(auth)), vZ(int64(items))}, o.terms()...)
	in = append(in, vZ(int64(signal)), vZ(int64(compIdx)), vZ(lossy), vZ(int64(level)), vZ(int64(kib)))
	switch {
	case kib >= 1024:
		v.out.Stat("hop_large_comp_"+comp, 1)
		v.out.Stat("hop_body_ge_1MiB", 1)
	case kib >= 128:
		v.out.Stat("hop_large_comp_"+comp, 1)
		v.out.Stat("hop_body_128KiB_to_1MiB", 1)
	default:
		v.out.Stat("hop_body_lt_128KiB", 1)
	}
	b2z := func(b bool) int64 {
		if b {
			return 1
		}
		return 0
	}
	obs := []string{vZ(b2z(called)), vZ(int64(verdict)), vZ(delay), vZ(code), vZ(int64(len(got))), vZ(sinkEq)}
	term := vPair("8", vPair(vList(in), vList(obs)))
	v.out.Case(true, term)
	v.out.Stat(fmt.Sprintf("hop_transport_%d", transport), 1)
	v.out.Stat(fmt.Sprintf("hop_okind_%d", o.okind), 1)
	v.out.Stat(fmt.Sprintf("hop_signal_%d", signal), 1)
	v.out.Stat(fmt.Sprintf("hop_signal_%d_transport_%d", signal, transport), 1)
	v.out.Stat(fmt.Sprintf("hop_comp_%d_%s", transport, comp), 1)
	v.out.Stat(fmt.Sprintf("hop_auth_%d", auth), 1)
	v.out.Stat(fmt.Sprintf("hop_verdict_%d", verdict), 1)
	if items == 0 {
		v.out.Stat("hop_items_0", 1)
	}
	desc := fmt.Sprintf("transport=%d auth=%d items=%d body=%dKiB signal=%d comp=%s outcome=%+v: called=%v verdict=%d delay=%d code=%d err=%v",
		transport, auth, items, kib, signal, comp, o, called, verdict, delay, code, err)
	// ---- direct oracle
	if sinkEq != 1 || len(got) > 1 {
		why := ""
		if p.alt != nil {
			why = p.why
			for _, g := range got {
				if bytes.Equal(g, p.alt) {
					why += "the sink holds the sent payload with exactly that field cleared; "
				}
			}
		}
		v.out.Oracle("sink-payload-differs", term, why+desc)
	}
	if auth == 2 {
		if called {
			v.out.Oracle("client-error-reached-consumer", term, "unauthenticated request reached the consumer: "+desc)
		}
		if verdict != 1 || code != int64(codes.Unauthenticated) {
			v.out.Oracle("unauthenticated-not-reported", term, desc)
		}
		return
	}
	if items == 0 {
		if called {
			v.out.Oracle("empty-request-reached-consumer", term, desc)
		}
		if verdict != 0 {
			v.out.Oracle("empty-request-not-acknowledged", term, desc)
		}
		return
	}
	if !called {
		v.out.Oracle("payload-not-delivered", term, desc)
	}
	want := o.expectedClass(transport)
	cls := verdict
	if cls == 3 {
		cls = 2
	}
	switch {
	case want == 3:
		if cls == 0 {
			v.out.Oracle("error-becomes-success", term, "custom error type with GRPCStatus().Code()==OK: sender sees success although the consumer refused; "+desc)
		}
	case want != cls:
		if (want == 0) != (cls == 0) {
			v.out.Oracle("success-iff-accepted", term, desc)
		} else {
			v.out.Oracle("failure-meaning-changed", term, fmt.Sprintf("want class %d; %s", want, desc))
		}
	}
	// explicit status: same code on the gRPC wire; throttling delay honoured
	if transport == 0 && (o.okind == 3 || (o.okind == 4 && o.code > 0)) && code != int64(o.code) {
		v.out.Oracle("status-code-not-preserved", term, desc)
	}
	if (o.okind == 3 || (o.okind == 4 && o.code > 0)) && o.riKind == 1 && want == 2 && cls == 2 {
		wantDelay := int64(o.d)
		if transport != 0 {
			wantDelay = int64(o.d/time.Second) * int64(time.Second) // Retry-After carries whole seconds
		}
		if transport == 0 && o.d == 0 {
			if verdict != 2 {
				v.out.Oracle("throttle-delay", term, desc)
			}
		} else if verdict != 3 || delay != wantDelay {
			v.out.Oracle("throttle-delay", term, fmt.Sprintf("want delay %d; %s", wantDelay, desc))
		}
	}
}

// ---- raw HTTP request (kind 7) ------------------------------------------------------------------------------
var vOtherCT = []string{"text/plain", "", "application/xml", "garbage;;;=", "application/x-protobuf-not", "multipart/form-data"}
var vNonPost = []string{"GET", "PUT", "DELETE", "PATCH", "HEAD", "OPTIONS"}

func vGzip(b []byte) []byte {
	var buf bytes.Buffer
	w := gzip.NewWriter(&buf)
	_, _ = w.Write(b)
	_ = w.Close()
	return buf.Bytes()
}

func vZlib(b []byte) []byte {
	var buf bytes.Buffer
	w := zlib.NewWriter(&buf)
	_, _ = w.Write(b)
	_ = w.Close()
	return buf.Bytes()
}

func (v *vEnv) rawHTTP(r *vRand, auth, enc int, post bool, ct int, bodyItems int, o vOutcome, signal int) {
	rc := v.recv(auth)
	rc.sink.set(o.err())
	var p vPayload
	var body []byte
	if bodyItems >= 0 {
		p = vMkPayload(r, signal, bodyItems)
		if ct == 1 {
			body = p.js
		} else {
			body = p.pb // also for "other" content types
		}
	} else {
		body = vBadBody(r, signal, ct%2)
	}
	hdrEnc := ""
	encName := "none"
	shortBy := 0 // > 0: Content-Length announces this many bytes more than are sent, then the sending side is closed
	switch enc {
	case 0:
		switch r.Intn(4) {
		case 0:
			hdrEnc, body, encName = "gzip", vGzip(body), "gzip"
		case 1:
			hdrEnc, body, encName = "zlib", vZlib(body), "zlib"
		case 2:
			hdrEnc, body, encName = "deflate", vZlib(body), "deflate"
		}
	case 1: // the decoder is created eagerly and rejects the header bytes
		hdrEnc = []string{"gzip", "zlib", "deflate"}[r.Intn(3)]
		encName = "bad-" + hdrEnc
		body = append([]byte{0x01, 0x02, 0x03, 0x04, 0x05, 0x06, 0x07, 0x08, 0x09, 0x0a, 0x0b, 0x0c}, body...)
	case 2: // the failure shows only while the handler reads the body
		switch r.Intn(4) {
		case 0:
			hdrEnc, encName = "snappy", "bad-snappy"
			body = append([]byte{0x01, 0x02, 0x03, 0x04, 0x05, 0x06, 0x07, 0x08, 0x09, 0x0a}, body...)
		case 1:
			hdrEnc, encName = "lz4", "bad-lz4"
			body = append([]byte{0x01, 0x02, 0x03, 0x04, 0x05, 0x06, 0x07, 0x08, 0x09, 0x0a}, body...)
		case 2:
			hdrEnc, encName = "zstd", "bad-zstd"
			body = append([]byte{0x01, 0x02, 0x03, 0x04, 0x05, 0x06, 0x07, 0x08, 0x09, 0x0a}, body...)
		default:
			hdrEnc, encName = "gzip", "truncated-gzip"
			z := vGzip(append(body, bytes.Repeat([]byte("x"), 64)...))
			body = z[:len(z)-9]
		}
	case 3:
		hdrEnc = []string{"br", "compress", "identity", "GZIP "}[r.Intn(4)]
		encName = "unsupported"
	case 4: // the body read ends with io.ErrUnexpectedEOF although every byte that arrived is fine: a compressed stream whose
		// trailer (checksum / length) is missing or cut, or fewer bytes than Content-Length announced (the sender was cut off).
		// The received prefix may well decode (always for a missing trailer) - it must be rejected all the same.
		switch r.Intn(5) {
		case 0:
			z := vGzip(body)
			hdrEnc, body, encName = "gzip", z[:len(z)-8], "gzip-without-trailer"
		case 1:
			z := vGzip(body)
			hdrEnc, body, encName = "gzip", z[:len(z)-1-r.Intn(7)], "gzip-partial-trailer"
		case 2:
			z := vZlib(body)
			hdrEnc, body, encName = []string{"zlib", "deflate"}[r.Intn(2)], z[:len(z)-4], "zlib-without-trailer"
		default:
			// a second complete request would follow (protobuf: the concatenation is the merged request; json: padding)
			encName = "short-of-content-length"
			if ct == 1 {
				shortBy = 1 + r.Intn(40)
			} else {
				saved := vSkipJSON
				vSkipJSON = true
				shortBy = len(vMkPayload(r, signal, 1+r.Intn(4)).pb)
				vSkipJSON = saved
			}
		}
	}
	method := "POST"
	if !post {
		method = vNonPost[r.Intn(len(vNonPost))]
	}
	req, err := http.NewRequest(method, "http://"+rc.httpAddr+vSignalPaths[signal], bytes.NewReader(body))
	if err != nil {
		v.t.Fatal(err)
	}
	ctHdr := ""
	switch ct {
	case 0:
		ctHdr = []string{"application/x-protobuf", "application/x-protobuf; charset=utf-8"}[r.Intn(2)]
	case 1:
		ctHdr = []string{"application/json", "application/json; charset=utf-8", "Application/JSON"}[r.Intn(3)]
	default:
		ctHdr = vOtherCT[r.Intn(len(vOtherCT))]
	}
	if ctHdr != "" {
		req.Header.Set("Content-Type", ctHdr)
	}
	if hdrEnc != "" {
		req.Header.Set("Content-Encoding", hdrEnc)
	}
	switch auth {
	case 1:
		req.Header.Set("Authorization", "good")
	case 2:
		if r.Bool() {
			req.Header.Set("Authorization", "bad")
		}
	}
	var resp *http.Response
	if shortBy > 0 {
		conn, derr := net.DialTimeout("tcp4", rc.httpAddr, 30*time.Second)
		if derr != nil {
			v.t.Fatalf("raw http request: %v", derr)
		}
		defer conn.Close()
		_ = conn.SetDeadline(time.Now().Add(120 * time.Second))
		var hb bytes.Buffer
		fmt.Fprintf(&hb, "%s %s HTTP/1.1\r\nHost: %s\r\n", method, vSignalPaths[signal], rc.httpAddr)
		for k, vs := range req.Header {
			for _, x := range vs {
				fmt.Fprintf(&hb, "%s: %s\r\n", k, x)
			}
		}
		fmt.Fprintf(&hb, "Content-Length: %d\r\nConnection: close\r\n\r\n", len(body)+shortBy)
		hb.Write(body)
		if _, werr := conn.Write(hb.Bytes()); werr != nil {
			v.t.Fatalf("raw http request: %v", werr)
		}
		_ = conn.(*net.TCPConn).CloseWrite()
		resp, err = http.ReadResponse(bufio.NewReader(conn), req)
	} else {
		resp, err = v.hc.Do(req)
	}
	if err != nil {
		v.t.Fatalf("raw http request failed: %v", err)
	}
	rb, _ := io.ReadAll(resp.Body)
	resp.Body.Close()
	raPresent, raSecs := int64(0), int64(0)
	if vals := resp.Header.Values("Retry-After"); len(vals) > 0 {
		raPresent = 1
		n, perr := strconv.ParseInt(vals[0], 10, 64)
		if perr != nil {
			raSecs = math.MinInt64
		} else {
			raSecs = n
		}
	}
	bodyCode := int64(-1)
	if resp.StatusCode >= 400 && method != "HEAD" {
		mt := strings.ToLower(strings.TrimSpace(strings.Split(resp.Header.Get("Content-Type"), ";")[0]))
		switch mt {
		case "application/x-protobuf":
			st := &spb.Status{}
			if proto.Unmarshal(rb, st) == nil {
				bodyCode = int64(st.Code)
			}
		case "application/json":
			var st struct {
				Code int64 `json:"code"`
			}
			if json.Unmarshal(rb, &st) == nil {
				bodyCode = st.Code
			}
		}
	}
	got := rc.sink.got()
	called := len(got) > 0
	b2z := func(b bool) int64 {
		if b {
			return 1
		}
		return 0
	}
	in := append([]string{vZ(int64(auth)), vZ(int64(enc)), vZ(b2z(post)), vZ(int64(ct)), vZ(int64(bodyItems))}, o.terms()...)
	obsBody := bodyCode
	if method == "HEAD" {
		obsBody = -3 // no body on HEAD: not compared
	}
	obs := []string{vZ(b2z(called)), vZ(int64(resp.StatusCode)), vZ(raPresent), vZ(raSecs), vZ(obsBody)}
	term := vPair("7", vPair(vList(in), vList(obs)))
	v.out.Case(true, term)
	v.out.Stat(fmt.Sprintf("raw_status_%d", resp.StatusCode), 1)
	v.out.Stat("raw_enc_"+encName, 1)
	v.out.Stat(fmt.Sprintf("raw_ct_%d", ct), 1)
	v.out.Stat(fmt.Sprintf("raw_auth_%d", auth), 1)
	v.out.Stat("raw_method_"+method, 1)
	desc := fmt.Sprintf("auth=%d enc=%s method=%s ct=%q body_items=%d signal=%d outcome=%+v: called=%v status=%d retry-after=%d/%d body_code=%d",
		auth, encName, method, ctHdr, bodyItems, signal, o, called, resp.StatusCode, raPresent, raSecs, bodyCode)
	// ---- direct oracle
	clientErr := auth == 2 || enc != 0 || !post || ct == 2 || bodyItems < 0
	if clientErr {
		if called {
			v.out.Oracle("client-error-reached-consumer", term, desc)
		}
		if resp.StatusCode < 400 || resp.StatusCode > 499 {
			v.out.Oracle("client-error-status", term, "a refused request must be answered 4xx; "+desc)
		} else {
			want := 0
			switch {
			case auth == 2:
				want = 401
			case !post && enc != 1 && enc != 3:
				want = 405
			case ct == 2 && enc != 1 && enc != 3:
				want = 415
			default:
				want = 400
			}
			if resp.StatusCode != want {
				v.out.Oracle("client-error-status", term, fmt.Sprintf("want %d; %s", want, desc))
			}
		}
		return
	}
	if bodyItems == 0 {
		if called || resp.StatusCode != 200 {
			v.out.Oracle("empty-request-not-acknowledged", term, desc)
		}
		return
	}
	if !called {
		v.out.Oracle("payload-not-delivered", term, desc)
	} else if !bytes.Equal(got[0], p.canon) || len(got) != 1 {
		why := ""
		if p.alt != nil {
			why = p.why
			if bytes.Equal(got[0], p.alt) {
				why += "the sink holds the sent payload with exactly that field cleared; "
			}
		}
		v.out.Oracle("sink-payload-differs", term, why+desc)
	}
	want := o.expectedClass(1)
	retryable := resp.StatusCode == 429 || resp.StatusCode == 502 || resp.StatusCode == 503 || resp.StatusCode == 504
	switch want {
	case 0:
		if resp.StatusCode != 200 {
			v.out.Oracle("success-iff-accepted", term, desc)
		}
	case 3:
		if resp.StatusCode == 200 {
			v.out.Oracle("error-becomes-success", term, "custom error type with GRPCStatus().Code()==OK: HTTP 200 although the consumer refused; "+desc)
		}
	case 1:
		if resp.StatusCode < 400 || retryable {
			v.out.Oracle("failure-meaning-changed", term, "permanent error answered with a retryable or success status; "+desc)
		}
	case 2:
		if !retryable {
			v.out.Oracle("failure-meaning-changed", term, "retryable error answered with a non-retryable status; "+desc)
		}
	}
}

// ---- raw gRPC frame (kind 9) ----------------------------------------------------------------------------------
type vRawCodec struct{}

func (vRawCodec) Marshal(v any) ([]byte, error) { return *(v.(*[]byte)), nil }
func (vRawCodec) Unmarshal(data []byte, v any) error {
	*(v.(*[]byte)) = append([]byte(nil), data...)
	return nil
}
func (vRawCodec) Name() string { return "proto" }

func (v *vEnv) conn(addr string) *grpc.ClientConn {
	if c, ok := v.conns[addr]; ok {
		return c
	}
	c, err := grpc.NewClient(addr, grpc.WithTransportCredentials(insecure.NewCredentials()))
	if err != nil {
		v.t.Fatal(err)
	}
	v.conns[addr] = c
	return c
}

func (v *vEnv) rawGRPC(r *vRand, auth int, bodyItems int, o vOutcome, signal int) {
	rc := v.recv(auth)
	rc.sink.set(o.err())
	var p vPayload
	var body []byte
	if bodyItems >= 0 {
		p = vMkPayload(r, signal, bodyItems)
		body = p.pb
	} else {
		body = vBadBody(r, signal, 0)
	}
	ctx, cancel := context.WithTimeout(context.Background(), 60*time.Second)
	defer cancel()
	switch auth {
	case 1:
		ctx = metadata.AppendToOutgoingContext(ctx, "authorization", "good")
	case 2:
		if r.Bool() {
			ctx = metadata.AppendToOutgoingContext(ctx, "authorization", "bad")
		}
	}
	var reply []byte
	err := v.conn(rc.grpcAddr).Invoke(ctx, vGrpcMethods[signal], &body, &reply, grpc.ForceCodec(vRawCodec{}))
	st := status.Convert(err)
	code := int64(st.Code())
	riPresent, riNanos := int64(0), int64(0)
	for _, d := range st.Details() {
		if ri, ok := d.(*errdetails.RetryInfo); ok {
			riPresent, riNanos = 1, int64(ri.GetRetryDelay().AsDuration())
		}
	}
	got := rc.sink.got()
	called := len(got) > 0
	b2z := func(b bool) int64 {
		if b {
			return 1
		}
		return 0
	}
	in := append([]string{vZ(int64(auth)), vZ(int64(bodyItems))}, o.terms()...)
	obs := []string{vZ(b2z(called)), vZ(code), vZ(riPresent), vZ(riNanos)}
	term := vPair("9", vPair(vList(in), vList(obs)))
	v.out.Case(true, term)
	v.out.Stat(fmt.Sprintf("rawgrpc_code_%d", code), 1)
	v.out.Stat(fmt.Sprintf("rawgrpc_auth_%d", auth), 1)
	desc := fmt.Sprintf("auth=%d body_items=%d signal=%d outcome=%+v: called=%v code=%d ri=%d/%d err=%v", auth, bodyItems, signal, o, called, code, riPresent, riNanos, err)
	// ---- direct oracle
	if auth == 2 || bodyItems < 0 {
		if called {
			v.out.Oracle("client-error-reached-consumer", term, desc)
		}
		switch {
		// grpc-go decodes the request before it runs the interceptors: a malformed request is answered as such
		// whatever the credentials
		case bodyItems < 0 && code != int64(codes.InvalidArgument):
			why := ""
			if code == int64(codes.Internal) {
				why = "known:grpc-malformed-request-answered-internal "
			}
			v.out.Oracle("client-error-status", term, why+desc)
		case bodyItems >= 0 && code != int64(codes.Unauthenticated):
			v.out.Oracle("client-error-status", term, "want Unauthenticated; "+desc)
		}
		return
	}
	if bodyItems == 0 {
		if called || code != 0 {
			v.out.Oracle("empty-request-not-acknowledged", term, desc)
		}
		return
	}
	if !called {
		v.out.Oracle("payload-not-delivered", term, desc)
	} else if !bytes.Equal(got[0], p.canon) || len(got) != 1 {
		v.out.Oracle("sink-payload-differs", term, desc)
	}
	switch o.okind {
	case 0:
		if code != 0 {
			v.out.Oracle("success-iff-accepted", term, desc)
		}
	case 1:
		if code != int64(codes.Unavailable) {
			v.out.Oracle("status-mapping", term, "want Unavailable; "+desc)
		}
	case 2:
		if code != int64(codes.Internal) {
			v.out.Oracle("status-mapping", term, "want Internal; "+desc)
		}
	case 3:
		if code != int64(o.code) || riPresent != int64(o.riKind) || (riPresent == 1 && riNanos != int64(o.d)) {
			v.out.Oracle("status-code-not-preserved", term, desc)
		}
	case 4:
		switch {
		case o.code == -1 || o.code == 0:
			want := int64(codes.Unavailable)
			if o.wrap == 1 {
				want = int64(codes.Internal)
			}
			if code != want {
				v.out.Oracle("status-mapping", term, desc)
			}
		default:
			if code != int64(o.code) {
				v.out.Oracle("status-code-not-preserved", term, desc)
			}
		}
	}
}


// ---- a hop that overlaps the receiver's Shutdown (kind 10) ---------------------------------------------------
// A dedicated receiver per scenario.  The export is started, the harness waits until the next consumer has been
// entered (it blocks there), starts Shutdown, polls until the listener that carries the request refuses new
// connections (= Shutdown has acted on that server), and only then lets the consumer answer.  Shutdown drains:
// the sender must see exactly what it would have seen without the shutdown.  Afterwards one more export is sent
// to the stopped receiver: it must not reach the consumer and must fail as retryable.
func (v *vEnv) shutdownScenario(r *vRand, transport int, o vOutcome, signal int) {
	const wait = 120 * time.Second
	rc, err := vStartReceiver(false, v.host)
	if err != nil {
		v.t.Fatalf("cannot start a receiver: %v", err)
	}
	stopped := false
	defer func() {
		if !stopped {
			rc.stop()
		}
	}()
	rc.sink.set(o.err())
	entered, release := make(chan struct{}, 8), make(chan struct{})
	rc.sink.mu.Lock()
	rc.sink.entered, rc.sink.release = entered, release
	rc.sink.mu.Unlock()
	released := false
	defer func() {
		if !released {
			close(release)
		}
	}()
	comp, _ := v.comp(r, transport)
	e, err := vNewExporter(transport, comp, 0, signal, rc, v.host)
	if err != nil {
		v.t.Fatalf("cannot create an exporter: %v", err)
	}
	defer func() { _ = e.comp.Shutdown(context.Background()) }()
	items := 1 + r.Intn(6)
	p := vMkPayload(r, signal, items)
	sent := make(chan error, 1)
	go func() { sent <- p.send(e) }()
	select {
	case <-entered:
	case err := <-sent:
		v.t.Fatalf("shutdown scenario: the export returned before it reached the consumer: %v", err)
	case <-time.After(wait):
		v.t.Fatalf("shutdown scenario: the export never reached the consumer")
	}
	shut := make(chan struct{})
	go func() { rc.stop(); close(shut) }()
	addr := rc.grpcAddr
	if transport != 0 {
		addr = rc.httpAddr
	}
	deadline := time.Now().Add(wait)
	for {
		c, derr := net.DialTimeout("tcp4", addr, 2*time.Second)
		if derr != nil {
			break
		}
		_ = c.Close()
		if time.Now().After(deadline) {
			v.t.Fatalf("shutdown scenario: the listener %s is still accepting %v after Shutdown was called", addr, wait)
		}
		time.Sleep(2 * time.Millisecond)
	}
	// a shutdown that does not drain needs a moment to cut the connection; on a draining one this only delays the test
	time.Sleep(60 * time.Millisecond)
	released = true
	close(release)
	var sendErr error
	select {
	case sendErr = <-sent:
	case <-time.After(wait):
		v.t.Fatalf("shutdown scenario: the in-flight export never returned")
	}
	select {
	case <-shut:
		stopped = true
	case <-time.After(wait):
		v.t.Fatalf("shutdown scenario: Shutdown never returned")
	}
	b2z := func(b bool) int64 {
		if b {
			return 1
		}
		return 0
	}
	report := func(phase int, items int, p vPayload, err error, got [][]byte) {
		verdict, delay := vClassify(err)
		code := vErrCode(err)
		called := len(got) > 0
		sinkEq := int64(1)
		for _, g := range got {
			if !bytes.Equal(g, p.canon) {
				sinkEq = 0
			}
		}
		in := append([]string{vZ(int64(transport)), vZ(int64(phase)), vZ(int64(items))}, o.terms()...)
		in = append(in, vZ(int64(signal)))
		obs := []string{vZ(b2z(called)), vZ(int64(verdict)), vZ(delay), vZ(code), vZ(int64(len(got))), vZ(sinkEq)}
		term := vPair("10", vPair(vList(in), vList(obs)))
		v.out.Case(true, term)
		v.out.Stat(fmt.Sprintf("shutdown_phase_%d_transport_%d", phase, transport), 1)
		v.out.Stat(fmt.Sprintf("shutdown_signal_%d_transport_%d", signal, transport), 1)
		v.out.Stat(fmt.Sprintf("shutdown_phase_%d_verdict_%d", phase, verdict), 1)
		desc := fmt.Sprintf("transport=%d phase=%d items=%d signal=%d comp=%s outcome=%+v: called=%v verdict=%d delay=%d code=%d err=%v",
			transport, phase, items, signal, comp, o, called, verdict, delay, code, err)
		cls := verdict
		if cls == 3 {
			cls = 2
		}
		if phase == 2 {
			if called {
				v.out.Oracle("request-after-shutdown-reached-consumer", term, desc)
			}
			if cls != 2 {
				v.out.Oracle("success-iff-accepted", term, "an export to a receiver that has shut down must fail as retryable (nothing was consumed); "+desc)
			}
			return
		}
		if !called || len(got) != 1 {
			v.out.Oracle("payload-not-delivered", term, desc)
		} else if sinkEq != 1 {
			v.out.Oracle("sink-payload-differs", term, desc)
		}
		want := o.expectedClass(transport)
		switch {
		case want == 3:
			if cls == 0 {
				v.out.Oracle("error-becomes-success", term, "custom error type with GRPCStatus().Code()==OK: sender sees success although the consumer refused; "+desc)
			}
		case want != cls:
			if (want == 0) != (cls == 0) {
				v.out.Oracle("success-iff-accepted", term, "the export was inside the consumer when the receiver's Shutdown started; "+desc)
			} else {
				v.out.Oracle("failure-meaning-changed", term, fmt.Sprintf("want class %d; the export was inside the consumer when the receiver's Shutdown started; %s", want, desc))
			}
		}
	}
	// the consumer was entered: wait until that call has returned before looking at the sink (a shutdown that
	// does not drain lets the sender return first)
	for dl := time.Now().Add(30 * time.Second); len(rc.sink.got()) == 0 && time.Now().Before(dl); {
		time.Sleep(2 * time.Millisecond)
	}
	report(1, items, p, sendErr, rc.sink.got())
	// phase 2: the receiver is gone
	rc.sink.set(nil)
	rc.sink.mu.Lock()
	rc.sink.entered, rc.sink.release = nil, nil
	rc.sink.mu.Unlock()
	items2 := 1 + r.Intn(4)
	p2 := vMkPayload(r, signal, items2)
	err2 := p2.send(e)
	o = vOutcome{}
	report(2, items2, p2, err2, rc.sink.got())
}


// ---- a slow consumer and the receiver's HTTP timeouts (kind 11) ---------------------------------------------------
// A dedicated receiver configured with read_timeout / write_timeout; the next consumer takes holdMs to answer.
// Within write_timeout the sender must see exactly what a fast consumer would have produced, whatever read_timeout is;
// beyond write_timeout the response cannot be written (model: connection lost, retryable; no oracle: inherent to the
// configuration).  The margins are seconds wide (request reading << read_timeout, consumer >> read_timeout resp.
// write_timeout); nothing is measured.  Reports failures of the scenario itself through the oracle channel (it runs
// in its own goroutine beside the rest of the harness).
func (v *vEnv) slowConsumerScenario(salt uint64, transport, readMs, writeMs, holdMs int, o vOutcome, signal int) {
	r := vNewRand(salt)
	fail := func(msg string) {
		v.out.Oracle("scenario-error", vZ(int64(salt)), "slow-consumer scenario: "+msg)
	}
	rc, err := vStartReceiver(false, v.host, func(cfg *otlpreceiver.Config) {
		cfg.HTTP.ServerConfig.ReadTimeout = time.Duration(readMs) * time.Millisecond
		cfg.HTTP.ServerConfig.WriteTimeout = time.Duration(writeMs) * time.Millisecond
	})
	if err != nil {
		fail(fmt.Sprintf("cannot start a receiver: %v", err))
		return
	}
	defer rc.stop()
	rc.sink.set(o.err())
	rc.sink.mu.Lock()
	rc.sink.hold = time.Duration(holdMs) * time.Millisecond
	rc.sink.mu.Unlock()
	comp, _ := v.comp(r, transport)
	e, err := vNewExporter(transport, comp, 0, signal, rc, v.host)
	if err != nil {
		fail(fmt.Sprintf("cannot create an exporter: %v", err))
		return
	}
	defer func() { _ = e.comp.Shutdown(context.Background()) }()
	items := 1 + r.Intn(6)
	p := vMkPayload(r, signal, items)
	sendErr := p.send(e)
	// the consumer call has been entered by now or never will be; wait for it to finish before looking at the sink
	for dl := time.Now().Add(time.Duration(holdMs)*time.Millisecond + 30*time.Second); len(rc.sink.got()) == 0 && time.Now().Before(dl); {
		time.Sleep(5 * time.Millisecond)
	}
	got := rc.sink.got()
	verdict, delay := vClassify(sendErr)
	code := vErrCode(sendErr)
	called := len(got) > 0
	sinkEq := int64(1)
	for _, g := range got {
		if !bytes.Equal(g, p.canon) {
			sinkEq = 0
		}
	}
	b2z := func(b bool) int64 {
		if b {
			return 1
		}
		return 0
	}
	in := append([]string{vZ(int64(transport)), vZ(int64(readMs)), vZ(int64(writeMs)), vZ(int64(holdMs)), vZ(int64(items))}, o.terms()...)
	in = append(in, vZ(int64(signal)))
	obs := []string{vZ(b2z(called)), vZ(int64(verdict)), vZ(delay), vZ(code), vZ(int64(len(got))), vZ(sinkEq)}
	term := vPair("11", vPair(vList(in), vList(obs)))
	v.out.Case(true, term)
	v.out.Stat(fmt.Sprintf("slow_consumer_transport_%d_verdict_%d", transport, verdict), 1)
	desc := fmt.Sprintf("transport=%d read_timeout=%dms write_timeout=%dms consumer=%dms items=%d signal=%d comp=%s outcome=%+v: called=%v verdict=%d delay=%d code=%d err=%v",
		transport, readMs, writeMs, holdMs, items, signal, comp, o, called, verdict, delay, code, sendErr)
	if !called || len(got) != 1 {
		v.out.Oracle("payload-not-delivered", term, desc)
	} else if sinkEq != 1 {
		v.out.Oracle("sink-payload-differs", term, desc)
	}
	if writeMs != 0 && holdMs >= writeMs {
		return // the response cannot be written by configuration: compared with the model only
	}
	want := o.expectedClass(transport)
	cls := verdict
	if cls == 3 {
		cls = 2
	}
	if want != 3 && want != cls {
		if (want == 0) != (cls == 0) {
			v.out.Oracle("success-iff-accepted", term, "the consumer answered within write_timeout; "+desc)
		} else {
			v.out.Oracle("failure-meaning-changed", term, fmt.Sprintf("want class %d; the consumer answered within write_timeout; %s", want, desc))
		}
	}
}


// ---- a history of sends against one receiver (kind 12) ---------------------------------------------------------------
func (v *vEnv) history(r *vRand, k int) {
	type sent struct {
		canon []byte
		used  bool
	}
	auth := r.Pick(3, 2) // one receiver per history: without / with an authenticator (then credentials vary per send)
	rc := v.recv(auth)
	rc.sink.set(nil)
	var in, verdicts []string
	var sents []sent
	var descs []string
	for i := 0; i < k; i++ {
		transport, signal := r.Intn(3), r.Intn(4)
		a := auth
		if auth != 0 {
			a = 1 + r.Pick(3, 1)
		}
		items := r.Pick(1, 5) * (1 + r.Intn(5))
		o := vRandOutcome(r)
		comp, _ := v.comp(r, transport)
		p := vMkPayload(r, signal, items)
		rc.sink.setErr(o.err())
		err := p.send(v.exporter(transport, comp, a, signal))
		verdict, delay := vClassify(err)
		in = append(in, vZ(int64(transport)), vZ(int64(a)), vZ(int64(items)))
		in = append(in, o.terms()...)
		verdicts = append(verdicts, vZ(int64(verdict)), vZ(delay))
		sents = append(sents, sent{canon: p.canon})
		descs = append(descs, fmt.Sprintf("#%d t=%d a=%d items=%d signal=%d %+v -> verdict %d", i, transport, a, items, signal, o, verdict))
		want := o.expectedClass(transport)
		cls := verdict
		if cls == 3 {
			cls = 2
		}
		if a != 2 && items > 0 && (want == 0) != (cls == 0) {
			v.out.Oracle("success-iff-accepted", vZ(int64(i)), "in a history of sends: "+strings.Join(descs, "; "))
		}
	}
	var idx []string
	ok := true
	for _, g := range rc.sink.got() {
		found := -1
		for i := range sents {
			if !sents[i].used && bytes.Equal(sents[i].canon, g) {
				found = i
				break
			}
		}
		if found < 0 {
			ok = false
			idx = append(idx, vZ(-1))
			continue
		}
		sents[found].used = true
		idx = append(idx, vZ(int64(found)))
	}
	obs := append(append(verdicts, vZ(-7)), idx...)
	term := vPair("12", vPair(vList(in), vList(obs)))
	v.out.Case(true, term)
	v.out.Stat("history_sends", k)
	v.out.Stat(fmt.Sprintf("history_auth_%d", auth), 1)
	if !ok {
		v.out.Oracle("sink-payload-differs", term, "the sink of a history holds a payload that was never sent: "+strings.Join(descs, "; "))
	}
}


// ---- receivers with an explicit compression_algorithms list x every exporter compression (kind 13) ------------------
var vCompCodes = map[string]int{"none": 0, "gzip": 1, "zstd": 2, "zlib": 3, "snappy": 4, "deflate": 5, "lz4": 6}
var vCodeNames = []string{"", "gzip", "zstd", "zlib", "snappy", "deflate", "lz4"}

func (v *vEnv) compressionLists(r *vRand, host component.Host) {
	lists := [][]int{
		{0, 1, 5},          // "deflate" without "zlib"
		{5, 3},             // "deflate" before "zlib", no uncompressed requests
		{0, 6, 4, 2},       // only the lazy decoders
		{0, 3},             // "zlib" without "deflate"
		{0, 1, 2, 3, 4, 5, 6}, // the default list written out
	}
	for k := 0; k < 2; k++ { // and two random lists (random subset, random order)
		var l []int
		for _, c := range []int{0, 1, 2, 3, 4, 5, 6} {
			if r.Bool() {
				l = append(l, c)
			}
		}
		for i := len(l) - 1; i > 0; i-- {
			j := r.Intn(i + 1)
			l[i], l[j] = l[j], l[i]
		}
		if len(l) == 0 {
			l = []int{5}
		}
		lists = append(lists, l)
	}
	for _, l := range lists {
		names := make([]string, len(l))
		var codes []string
		for i, c := range l {
			names[i] = vCodeNames[c]
			codes = append(codes, vZ(int64(c)))
		}
		rc, err := vStartReceiver(false, host, func(cfg *otlpreceiver.Config) { cfg.HTTP.ServerConfig.CompressionAlgorithms = names })
		if err != nil {
			v.t.Fatalf("cannot start a receiver with compression_algorithms %q: %v", names, err)
		}
		listed := func(c int) bool {
			for _, x := range l {
				if x == c {
					return true
				}
			}
			return false
		}
		for ci, comp := range vHTTPComps {
			transport := 1 + (ci+len(l))%2
			signal := (ci + l[0]) % 4
			o := vOutcome{}
			if ci%3 == 2 {
				o = vRandOutcome(r)
			}
			items := 1 + r.Intn(6)
			p := vMkPayload(r, signal, items)
			rc.sink.set(o.err())
			e, eerr := vNewExporter(transport, comp, 0, signal, rc, host)
			if eerr != nil {
				v.t.Fatalf("cannot create an exporter: %v", eerr)
			}
			sendErr := p.send(e)
			_ = e.comp.Shutdown(context.Background())
			verdict, delay := vClassify(sendErr)
			code := vErrCode(sendErr)
			got := rc.sink.got()
			called := len(got) > 0
			sinkEq := int64(1)
			for _, g := range got {
				if !bytes.Equal(g, p.canon) {
					sinkEq = 0
				}
			}
			b2z := func(b bool) int64 {
				if b {
					return 1
				}
				return 0
			}
			cc := vCompCodes[comp]
			in := append([]string{vZ(int64(transport)), vZ(int64(cc)), vZ(int64(items))}, o.terms()...)
			in = append(in, vZ(int64(signal)))
			in = append(in, codes...)
			obs := []string{vZ(b2z(called)), vZ(int64(verdict)), vZ(delay), vZ(code), vZ(int64(len(got))), vZ(sinkEq)}
			term := vPair("13", vPair(vList(in), vList(obs)))
			v.out.Case(true, term)
			v.out.Stat(fmt.Sprintf("complist_%v_listed_%v", comp, listed(cc)), 1)
			desc := fmt.Sprintf("receiver compression_algorithms=%q exporter compression=%s transport=%d items=%d signal=%d outcome=%+v: called=%v verdict=%d delay=%d code=%d err=%v",
				names, comp, transport, items, signal, o, called, verdict, delay, code, sendErr)
			if !listed(cc) {
				if called {
					v.out.Oracle("client-error-reached-consumer", term, "a Content-Encoding the receiver does not list reached the consumer; "+desc)
				}
				if verdict != 1 {
					v.out.Oracle("client-error-status", term, "a Content-Encoding the receiver does not list must be refused as a client error (permanent); "+desc)
				}
				continue
			}
			if !called || len(got) != 1 {
				v.out.Oracle("payload-not-delivered", term, "both sides offer this compression; "+desc)
			} else if sinkEq != 1 {
				v.out.Oracle("sink-payload-differs", term, desc)
			}
			want := o.expectedClass(transport)
			cls := verdict
			if cls == 3 {
				cls = 2
			}
			if want != cls {
				if (want == 0) != (cls == 0) {
					v.out.Oracle("success-iff-accepted", term, "both sides offer this compression; "+desc)
				} else {
					v.out.Oracle("failure-meaning-changed", term, fmt.Sprintf("want class %d; %s", want, desc))
				}
			}
		}
		rc.stop()
	}
}

// ---- generators ---------------------------------------------------------------------------------------------------
var vDelays = []time.Duration{0, 1, 999999999, time.Second, 1500 * time.Millisecond, 7 * time.Second, -1, -1500 * time.Millisecond, 3600 * time.Second, 2 * time.Second}

func vRandOutcome(r *vRand) vOutcome {
	switch r.Pick(3, 2, 2, 10, 2) {
	case 0:
		return vOutcome{}
	case 1:
		return vOutcome{okind: 1, wrap: []int{0, 2}[r.Intn(2)]}
	case 2:
		return vOutcome{okind: 2, wrap: []int{0, 2}[r.Intn(2)]}
	case 3:
		o := vOutcome{okind: 3, code: 1 + r.Intn(17), wrap: r.Pick(3, 1, 1)}
		if r.Bool() {
			o.riKind = 1
			o.d = vDelays[r.Intn(len(vDelays))]
		}
		return o
	default:
		o := vOutcome{okind: 4, code: r.Intn(18) - 1, wrap: r.Pick(3, 1, 1)}
		if o.code >= 0 && r.Bool() {
			o.riKind = 1
			o.d = vDelays[r.Intn(len(vDelays))]
		}
		return o
	}
}

func vSystematicOutcomes(r *vRand) []vOutcome {
	os := []vOutcome{{}, {okind: 1}, {okind: 1, wrap: 2}, {okind: 2}, {okind: 2, wrap: 2}}
	for code := 1; code <= 16; code++ {
		os = append(os, vOutcome{okind: 3, code: code})
		os = append(os, vOutcome{okind: 3, code: code, riKind: 1, d: vDelays[r.Intn(len(vDelays))]})
		os = append(os, vOutcome{okind: 3, code: code, riKind: r.Intn(2), d: 2 * time.Second, wrap: 1 + r.Intn(2)})
	}
	os = append(os, vOutcome{okind: 3, code: 17}, vOutcome{okind: 3, code: 8, riKind: 1, d: 0}, vOutcome{okind: 3, code: 14, riKind: 1, d: 0},
		vOutcome{okind: 4, code: -1}, vOutcome{okind: 4, code: -1, wrap: 1}, vOutcome{okind: 4, code: 0},
		vOutcome{okind: 4, code: 8, riKind: 1, d: 3 * time.Second}, vOutcome{okind: 4, code: 3, wrap: 2})
	return os
}

func (v *vEnv) comp(r *vRand, transport int) (string, int) {
	if transport == 0 {
		i := r.Intn(len(vGrpcComps))
		return vGrpcComps[i], i
	}
	i := r.Intn(len(vHTTPComps))
	return vHTTPComps[i], i
}

func TestVerifC15Hop(t *testing.T) {
	out := vOpen()
	defer out.Close()
	r := vNewRand(15)
	host := vHost{ext: map[component.ID]component.Component{vAuthID: vAuthExt{}}}
	plain, err := vStartReceiver(false, host)
	if err != nil {
		t.Fatalf("cannot start the receiver: %v", err)
	}
	authR, err := vStartReceiver(true, host)
	if err != nil {
		plain.stop()
		t.Fatalf("cannot start the receiver with an authenticator: %v", err)
	}
	tr := &http.Transport{MaxIdleConnsPerHost: 4, DisableCompression: true}
	v := &vEnv{t: t, out: out, host: host, plain: plain, auth: authR, exps: map[string]*vExp{},
		hc: &http.Client{Transport: tr, Timeout: 60 * time.Second}, conns: map[string]*grpc.ClientConn{}}
	defer func() {
		for _, e := range v.exps {
			_ = e.comp.Shutdown(context.Background())
		}
		for _, c := range v.conns {
			_ = c.Close()
		}
		tr.CloseIdleConnections()
		plain.stop()
		authR.stop()
		// the package's TestMain runs goleak after the tests: wait here until everything is gone
		deadline := time.Now().Add(30 * time.Second)
		for time.Now().Before(deadline) {
			if goleak.Find() == nil {
				break
			}
			time.Sleep(50 * time.Millisecond)
		}
	}()

	t0 := time.Now()
	lap := func(name string) { t.Logf("phase %s done at %v", name, time.Since(t0)) }
	// (0) slow consumers against the receiver's HTTP timeouts: they take seconds of waiting, so they run beside the rest
	var slow sync.WaitGroup
	for i, sc := range []struct {
		transport, readMs, writeMs, holdMs int
		o                                 vOutcome
	}{
		{1, 2500, 60000, 3800, vOutcome{}},                                            // slower than read_timeout, accepted
		{2, 2500, 60000, 3800, vOutcome{okind: 3, code: 8, riKind: 1, d: 2 * time.Second}}, // ... refused with a throttling status
		{1, 0, 0, 1500, vOutcome{okind: 2}},                                           // no timeouts at all
		{2, 0, 1200, 2600, vOutcome{}},                                                // slower than write_timeout: the response is lost
	} {
		slow.Add(1)
		go func() {
			defer slow.Done()
			v.slowConsumerScenario(uint64(1100+i), sc.transport, sc.readMs, sc.writeMs, sc.holdMs, sc.o, i%4)
		}()
	}
	defer slow.Wait()
	// (1) every outcome class x every transport, no authenticator, >= 1 item
	for _, o := range vSystematicOutcomes(r) {
		for transport := 0; transport < 3; transport++ {
			comp, ci := v.comp(r, transport)
			v.hop(r, transport, 0, 1+r.Intn(6), o, r.Intn(4), comp, ci)
		}
	}
	// (2) every compression x transport x signal, accepted
	for transport := 0; transport < 3; transport++ {
		comps := vHTTPComps
		if transport == 0 {
			comps = vGrpcComps
		}
		for ci, comp := range comps {
			for signal := 0; signal < 4; signal++ {
				v.hop(r, transport, 0, 1+r.Intn(12), vOutcome{}, signal, comp, ci)
			}
		}
	}
	lap("2")
	// (2b) every compression x LEVEL x transport with bodies of several compressor blocks / windows (160 KiB .. ~2.5 MiB):
	// "any supported compression" includes every compression_params.level the client accepts and bodies of real batch size
	for transport := 0; transport < 3; transport++ {
		variants := []string{"none", "gzip", "snappy", "zstd"}
		if transport != 0 {
			variants = []string{"none", "gzip", "gzip:1", "gzip:9", "gzip:-2", "zlib", "zlib:9", "deflate", "deflate:1", "snappy", "lz4",
				"zstd", "zstd:1", "zstd:3", "zstd:6", "zstd:9", "zstd:11"}
		}
		for k, cv := range variants {
			name, _ := vCompLevel(cv)
			ci := 0
			comps := vHTTPComps
			if transport == 0 {
				comps = vGrpcComps
			}
			for i, c := range comps {
				if c == name {
					ci = i
				}
			}
			signal := (k + transport) % 4
			minBytes := []int{160 << 10, 400 << 10, 1 << 20}[(k+2*transport)%3]
			if transport == 2 && minBytes > 400<<10 {
				minBytes = 400 << 10 // the JSON body is ~3x the protobuf one
			}
			p, n := vMkLargePayload(r, signal, minBytes)
			o := vOutcome{}
			if k%5 == 4 {
				o = vRandOutcome(r)
			}
			v.hopP(r, transport, 0, n, o, signal, cv, ci, &p)
		}
	}
	lap("2b")
	// random levels with ordinary payloads
	for i, n := 0, vBudget(30, 10); i < n; i++ {
		transport := 1 + r.Intn(2)
		name := []string{"gzip", "zlib", "deflate", "zstd"}[r.Intn(4)]
		lv := []int{1, 2, 3, 4, 5, 6, 7, 8, 9, -2}[r.Intn(10)]
		if name == "zstd" {
			lv = 1 + r.Intn(22)
		}
		ci := 0
		for j, c := range vHTTPComps {
			if c == name {
				ci = j
			}
		}
		v.hop(r, transport, 0, 1+r.Intn(40), vRandOutcome(r), r.Intn(4), fmt.Sprintf("%s:%d", name, lv), ci)
	}
	lap("2c")
	// (2d) rare but valid configurations: a receiver with custom URL paths, exporters with a base endpoint that ends in
	// "/", with per-signal endpoint overrides, gRPC endpoints written with a scheme; every signal on each
	{
		custom, cerr := vStartReceiver(false, host, func(cfg *otlpreceiver.Config) {
			cfg.HTTP.TracesURLPath = "/custom/t"
			cfg.HTTP.MetricsURLPath = "/m/x/y"
			cfg.HTTP.LogsURLPath = "/custom/logs"
		})
		if cerr != nil {
			t.Fatalf("cannot start the receiver with custom paths: %v", cerr)
		}
		type cfgCase struct {
			name      string
			recv      *vRecv
			transport int
			hook      func(g *otlpexporter.Config, h *otlphttpexporter.Config)
			signals   []int
		}
		var cases []cfgCase
		for _, tr := range []int{1, 2} {
			cases = append(cases,
				cfgCase{"base-endpoint-with-trailing-slash", plain, tr, func(_ *otlpexporter.Config, h *otlphttpexporter.Config) {
					h.ClientConfig.Endpoint = "http://" + plain.httpAddr + "/"
				}, []int{0, 1, 2, 3}},
				cfgCase{"per-signal-endpoints-to-custom-paths", custom, tr, func(_ *otlpexporter.Config, h *otlphttpexporter.Config) {
					h.ClientConfig.Endpoint = "http://127.0.0.1:1" // must not be used for the overridden signals
					h.TracesEndpoint = "http://" + custom.httpAddr + "/custom/t"
					h.MetricsEndpoint = "http://" + custom.httpAddr + "/m/x/y"
					h.LogsEndpoint = "http://" + custom.httpAddr + "/custom/logs"
				}, []int{0, 1, 2}},
				cfgCase{"base-endpoint-to-default-profiles-path-of-custom-receiver", custom, tr, func(_ *otlpexporter.Config, h *otlphttpexporter.Config) {
					h.ClientConfig.Endpoint = "http://" + custom.httpAddr
				}, []int{3}})
		}
		cases = append(cases,
			cfgCase{"grpc-endpoint-with-http-scheme", plain, 0, func(g *otlpexporter.Config, _ *otlphttpexporter.Config) {
				g.ClientConfig.Endpoint = "http://" + plain.grpcAddr
			}, []int{0, 1, 2, 3}},
			cfgCase{"grpc-endpoint-with-dns-scheme", custom, 0, func(g *otlpexporter.Config, _ *otlphttpexporter.Config) {
				g.ClientConfig.Endpoint = "dns:///" + custom.grpcAddr
			}, []int{0, 1, 2, 3}})
		for _, c := range cases {
			for _, signal := range c.signals {
				vExpCfgHook = c.hook
				e, eerr := vNewExporter(c.transport, "gzip", 0, signal, c.recv, host)
				vExpCfgHook = nil
				if eerr != nil {
					out.Oracle("scenario-error", vStr(c.name), fmt.Sprintf("valid configuration %s rejected: %v", c.name, eerr))
					continue
				}
				v.ovRecv, v.ovExp = c.recv, e
				for _, o := range []vOutcome{{}, vRandOutcome(r)} {
					v.hop(r, c.transport, 0, 1+r.Intn(5), o, signal, "gzip", 1)
				}
				v.ovRecv, v.ovExp = nil, nil
				out.Stat("config_"+c.name, 1)
				_ = e.comp.Shutdown(context.Background())
			}
		}
		custom.stop()
	}
	lap("2d")
	// (2e) receivers with an explicit compression_algorithms list x every exporter compression
	v.compressionLists(r, host)
	lap("2e")
	// (3) no items: acknowledged without the consumer; authenticator accepts / refuses
	for transport := 0; transport < 3; transport++ {
		for signal := 0; signal < 4; signal++ {
			comp, ci := v.comp(r, transport)
			v.hop(r, transport, 0, 0, vRandOutcome(r), signal, comp, ci)
			comp, ci = v.comp(r, transport)
			v.hop(r, transport, 1, 1+r.Intn(4), vRandOutcome(r), signal, comp, ci)
			comp, ci = v.comp(r, transport)
			v.hop(r, transport, 2, r.Intn(4), vRandOutcome(r), signal, comp, ci)
		}
	}
	// (4) random hops
	for i, n := 0, vBudget(250, 10); i < n; i++ {
		transport := r.Intn(3)
		comp, ci := v.comp(r, transport)
		items := r.Pick(1, 6) * (1 + r.Intn(8))
		v.hop(r, transport, r.Pick(4, 2, 1), items, vRandOutcome(r), r.Intn(4), comp, ci)
	}
	lap("4")
	// (5) raw HTTP requests: every (auth, enc, method, content type, body) class, then random
	for auth := 0; auth < 3; auth++ {
		for enc := 0; enc < 5; enc++ {
			for _, post := range []bool{true, false} {
				for ct := 0; ct < 3; ct++ {
					for _, body := range []int{-1, 0, 2} {
						v.rawHTTP(r, auth, enc, post, ct, body, vRandOutcome(r), r.Intn(4))
					}
				}
			}
		}
	}
	// bodies that end early although the received prefix decodes: every signal x encoding, twice (random flavour)
	for signal := 0; signal < 4; signal++ {
		for ct := 0; ct < 2; ct++ {
			v.rawHTTP(r, 0, 4, true, ct, 1+r.Intn(4), vOutcome{}, signal)
			v.rawHTTP(r, r.Intn(2), 4, true, ct, 1+r.Intn(4), vRandOutcome(r), signal)
		}
	}
	// malformed bodies: every signal x encoding x {fails at once, valid prefix + corrupted tail} x consumer {accepts, refuses}
	for signal := 0; signal < 4; signal++ {
		for ct := 0; ct < 2; ct++ {
			for fl := 1; fl <= 2; fl++ {
				vBadFlavour = fl
				v.rawHTTP(r, 0, 0, true, ct, -1, vOutcome{}, signal)
				v.rawHTTP(r, r.Intn(2), 2*r.Intn(2), true, ct, -1, vRandOutcome(r), signal)
				vBadFlavour = 0
			}
		}
	}
	for _, o := range vSystematicOutcomes(r) {
		v.rawHTTP(r, 0, 0, true, r.Intn(2), 1+r.Intn(4), o, r.Intn(4))
	}
	for i, n := 0, vBudget(220, 10); i < n; i++ {
		v.rawHTTP(r, r.Pick(3, 1, 1), r.Pick(5, 1, 1, 1, 2), r.Intn(8) != 0, r.Pick(3, 3, 1), r.Pick(1, 1, 4)-1+r.Intn(2), vRandOutcome(r), r.Intn(4))
	}
	lap("5")
	// (6) raw gRPC frames
	for auth := 0; auth < 3; auth++ {
		for _, body := range []int{-1, 0, 3} {
			for signal := 0; signal < 4; signal++ {
				v.rawGRPC(r, auth, body, vRandOutcome(r), signal)
			}
		}
	}
	for signal := 0; signal < 4; signal++ {
		for fl := 1; fl <= 2; fl++ {
			vBadFlavour = fl
			v.rawGRPC(r, 0, -1, vOutcome{}, signal)
			vBadFlavour = 0
		}
	}
	for _, o := range vSystematicOutcomes(r) {
		v.rawGRPC(r, 0, 1+r.Intn(4), o, r.Intn(4))
	}
	for i, n := 0, vBudget(40, 10); i < n; i++ {
		v.rawGRPC(r, r.Pick(3, 1, 1), r.Pick(1, 1, 5)-1+r.Intn(2), vRandOutcome(r), r.Intn(4))
	}
	lap("6")
	// (6b) histories: 3..8 sends in a row against one receiver, sink not reset
	for i, n := 0, vBudget(12, 10); i < n; i++ {
		v.history(r, 3+r.Intn(6))
	}
	// (7) exports that overlap the receiver's Shutdown: every transport x {accepted, refused as permanent, refused as
	// transient, explicit status with a throttling delay}, then random outcomes
	for transport := 0; transport < 3; transport++ {
		for k, o := range []vOutcome{{}, {okind: 2}, {okind: 1}, {okind: 3, code: 8, riKind: 1, d: 2 * time.Second}} {
			v.shutdownScenario(r, transport, o, (k+transport)%4) // every signal (incl. profiles) on every transport
		}
	}
	for i, n := 0, vBudget(6, 5); i < n; i++ {
		v.shutdownScenario(r, r.Intn(3), vRandOutcome(r), r.Intn(4))
	}
	lap("7")
}
