// C15: dumps the whole graph of statusutil.NewStatusFromMsgAndHTTPCode (HTTP status 0..999 -> gRPC
// code) by RUNNING the current code; props/C15/check.py writes it to coq/Generated/C15StatusUtil.v.
// (The function's `var c; switch …; return status.New(c, msg)` shape is outside translator T1's subset.)
// Also checks GetRetryInfo on the detail shapes the property uses.
package statusutil

import (
	"fmt"
	"testing"
	"time"

	"google.golang.org/genproto/googleapis/rpc/errdetails"
	"google.golang.org/grpc/codes"
	"google.golang.org/grpc/status"
	"google.golang.org/protobuf/types/known/durationpb"
)

func TestVerifC15Dump(t *testing.T) {
	out := vOpen()
	defer out.Close()
	for st := 0; st <= 999; st++ {
		s := NewStatusFromMsgAndHTTPCode("m", st)
		if s.Message() != "m" || len(s.Details()) != 0 {
			out.Oracle("statusutil-message", vZ(int64(st)), "message or details not preserved")
		}
		out.Case(true, vPair(vZ(int64(st)), vZ(int64(s.Code()))))
	}
	// GetRetryInfo: finds the RetryInfo among other details, nil otherwise
	for _, d := range []time.Duration{0, time.Second, 1500 * time.Millisecond, -time.Second} {
		st := status.New(codes.Unavailable, "x")
		st2, err := st.WithDetails(&errdetails.ErrorInfo{Reason: "r"}, &errdetails.RetryInfo{RetryDelay: durationpb.New(d)})
		if err != nil {
			t.Fatal(err)
		}
		ri := GetRetryInfo(st2)
		if ri == nil || ri.GetRetryDelay().AsDuration() != d {
			out.Oracle("statusutil-retryinfo", vZ(int64(d)), fmt.Sprintf("GetRetryInfo lost the delay: %v", ri))
		}
		st3, _ := st.WithDetails(&errdetails.ErrorInfo{Reason: "r"})
		if GetRetryInfo(st3) != nil || GetRetryInfo(st) != nil {
			out.Oracle("statusutil-retryinfo", vZ(int64(d)), "GetRetryInfo invented a RetryInfo")
		}
	}
}
