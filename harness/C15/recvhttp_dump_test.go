// C15: dumps the whole graphs of the OTLP/HTTP receiver's loop-free decision functions by RUNNING the
// current code (they are outside translator T1's subset: header writes, multi-value assignments, *status.Status
// values): writeStatusResponse (Retry-After decision and value), readContentType, errorHandler, writeError.
// props/C15/check.py writes the lines to coq/Generated/C15RecvHttpGraph.v; coq/C15/Obligations.v proves that
// the hand-written model functions agree with every line.
// Line (Coq): (kind, (input, observed)) : nat * (list Z * list Z)
//   kind 1 writeStatusResponse  [status; has_retry_info; delay_nanos]        -> [resp status; ra_present; ra_secs; body code]
//   kind 2 readContentType      [method_is_post; ct_class]                   -> [0 protobuf encoder | 1 json encoder | 405 | 415]
//   kind 3 errorHandler         [ct_class; status]                           -> [resp status; body code]
//   kind 4 writeError           [ct_class(0/1); err code (-1 = not a status); default status; has_ri; delay] -> [resp status; ra_present; ra_secs; body code]
package otlpreceiver

import (
	"encoding/json"
	"errors"
	"fmt"
	"net/http"
	"net/http/httptest"
	"strconv"
	"strings"
	"testing"
	"time"

	spb "google.golang.org/genproto/googleapis/rpc/status"
	"google.golang.org/genproto/googleapis/rpc/errdetails"
	"google.golang.org/grpc/codes"
	"google.golang.org/grpc/status"
	"google.golang.org/protobuf/proto"
	"google.golang.org/protobuf/types/known/durationpb"
)

func vDumpStatus(code int, hasRI bool, d time.Duration) *status.Status {
	st := status.New(codes.Code(code), "m")
	if hasRI {
		st2, err := st.WithDetails(&errdetails.RetryInfo{RetryDelay: durationpb.New(d)})
		if err != nil {
			panic(err)
		}
		return st2
	}
	return st
}

// what a recorded response shows: status, Retry-After, the code inside the rpc.Status body (-1: not a Status)
func vDumpObserve(rec *httptest.ResponseRecorder) []string {
	res := rec.Result()
	raP, raS := int64(0), int64(0)
	if vals := res.Header.Values("Retry-After"); len(vals) > 0 {
		raP = 1
		n, err := strconv.ParseInt(vals[0], 10, 64)
		if err != nil {
			n = -9223372036854775808
		}
		raS = n
	}
	body := rec.Body.Bytes()
	code := int64(-1)
	switch strings.TrimSpace(strings.Split(res.Header.Get("Content-Type"), ";")[0]) {
	case "application/x-protobuf":
		st := &spb.Status{}
		if proto.Unmarshal(body, st) == nil {
			code = int64(st.Code)
		}
	case "application/json":
		var st struct {
			Code int64 `json:"code"`
		}
		if json.Unmarshal(body, &st) == nil {
			code = st.Code
		}
	}
	return []string{vZ(int64(res.StatusCode)), vZ(raP), vZ(raS), vZ(code)}
}

var vDumpCT = [][]string{
	{"application/x-protobuf", "application/x-protobuf; charset=utf-8"},
	{"application/json", "application/json; charset=utf-8", "Application/JSON"},
	{"", "text/plain", "application/xml", "garbage;;;=", "application/x-protobuf-not", "multipart/form-data"},
}

func TestVerifC15RecvHTTPDump(t *testing.T) {
	out := vOpen()
	defer out.Close()
	b2z := func(b bool) int64 {
		if b {
			return 1
		}
		return 0
	}
	encs := []encoder{pbEncoder, jsEncoder}
	delays := []time.Duration{0, 1, 999999999, time.Second, 1500 * time.Millisecond, 7 * time.Second, -1, -1500 * time.Millisecond, 3600 * time.Second}
	// 1. writeStatusResponse on every status 100..599 x RetryInfo {absent, present}, every delay on 429 / 503 / 500
	for st := 100; st <= 599; st++ {
		for _, hasRI := range []bool{false, true} {
			ds := []time.Duration{7 * time.Second}
			if hasRI && (st == 429 || st == 503 || st == 500 || st == 502) {
				ds = delays
			}
			for _, d := range ds {
				rec := httptest.NewRecorder()
				code := 14
				if st%2 == 0 {
					code = 8
				}
				writeStatusResponse(rec, encs[st%2], st, vDumpStatus(code, hasRI, d))
				obs := vDumpObserve(rec)
				if obs[3] != vZ(int64(code)) {
					out.Oracle("recvhttp-dump", vZ(int64(st)), "writeStatusResponse: the body does not carry the status code")
				}
				dd := int64(0)
				if hasRI {
					dd = int64(d)
				}
				out.Case(true, vPair("1", vPair(vList([]string{vZ(int64(st)), vZ(b2z(hasRI)), vZ(dd)}), vList(obs[:3]))))
			}
		}
	}
	// 2. readContentType on every method x content-type spelling
	methods := []string{"GET", "HEAD", "POST", "PUT", "PATCH", "DELETE", "CONNECT", "OPTIONS", "TRACE", "post", "FOO"}
	for _, m := range methods {
		for cls, hs := range vDumpCT {
			for _, h := range hs {
				req := httptest.NewRequest(http.MethodPost, "http://x/v1/traces", nil)
				req.Method = m
				if h != "" {
					req.Header.Set("Content-Type", h)
				}
				rec := httptest.NewRecorder()
				enc, ok := readContentType(rec, req)
				var res int64
				switch {
				case ok && enc == pbEncoder:
					res = 0
				case ok && enc == jsEncoder:
					res = 1
				case ok:
					res = -1
				default:
					res = int64(rec.Result().StatusCode)
				}
				out.Case(true, vPair("2", vPair(vList([]string{vZ(b2z(m == "POST")), vZ(int64(cls))}), vList([]string{vZ(res)}))))
			}
		}
	}
	// 3. errorHandler on every content-type spelling x status 100..599
	for cls, hs := range vDumpCT {
		for st := 100; st <= 599; st++ {
			h := hs[st%len(hs)]
			req := httptest.NewRequest(http.MethodPost, "http://x/v1/traces", nil)
			if h != "" {
				req.Header.Set("Content-Type", h)
			}
			rec := httptest.NewRecorder()
			errorHandler(rec, req, "msg", st)
			obs := vDumpObserve(rec)
			out.Case(true, vPair("3", vPair(vList([]string{vZ(int64(cls)), vZ(int64(st))}), vList([]string{obs[0], obs[3]}))))
		}
	}
	// 4. writeError: gRPC status errors of every code (wrapped or not) and other errors, both default statuses
	for ct := 0; ct < 2; ct++ {
		for _, def := range []int{400, 500} {
			for code := -1; code <= 18; code++ {
				if code == 0 {
					continue // status.New(OK).Err() is nil
				}
				for _, hasRI := range []bool{false, true} {
					var err error
					if code == -1 {
						if hasRI {
							continue
						}
						err = errors.New("plain")
					} else {
						err = vDumpStatus(code, hasRI, 2500*time.Millisecond).Err()
						if code%3 == 0 {
							err = fmt.Errorf("wrapped: %w", err)
						}
					}
					rec := httptest.NewRecorder()
					writeError(rec, encs[ct], err, def)
					obs := vDumpObserve(rec)
					dd := int64(0)
					if hasRI {
						dd = int64(2500 * time.Millisecond)
					}
					out.Case(true, vPair("4", vPair(vList([]string{vZ(int64(ct)), vZ(int64(code)), vZ(int64(def)), vZ(b2z(hasRI)), vZ(dd)}), vList(obs))))
				}
			}
		}
	}
}
