// C18 correspondence harness for internal/memorylimiter/iruntime (injected by overlay; in-package).
// iruntime.TotalMemory() reads fixed system paths and cannot be given generated inputs without
// changing the source; the harness observes the SAME inputs through the functions TotalMemory
// itself calls (cgroups.IsCGroupV2, MemoryQuotaV2 / NewCGroupsForCurrentProcess + MemoryQuota,
// readMemInfo) and records one real case:   CTotal env obs.
// Direct oracle: the result is the defined, not-unlimited quota of the active cgroup version,
// otherwise the /proc/meminfo total.
package iruntime

import (
	"fmt"
	"strconv"
	"testing"

	"go.opentelemetry.io/collector/internal/memorylimiter/cgroups"
)

func vU(n uint64) string { return strconv.FormatUint(n, 10) + "%Z" }

func vQ(q int64, defined bool, err error) string {
	if err != nil {
		return "QErr"
	}
	return fmt.Sprintf("(QRes %s %s)", vZ(q), vBool(defined))
}

func TestVerifC18Total(t *testing.T) {
	out := vOpen()
	defer out.Close()
	for round := 0; round < 3; round++ { // the environment does not change; three readings must agree
		isV2, errV2 := cgroups.IsCGroupV2()
		isv2 := "None"
		if errV2 == nil {
			isv2 = "(Some " + vBool(isV2) + ")"
		}
		q2, d2, e2 := cgroups.MemoryQuotaV2()
		v1 := "None"
		var q1 int64
		var d1 bool
		var e1 error
		cg, errCG := cgroups.NewCGroupsForCurrentProcess()
		if errCG == nil {
			q1, d1, e1 = cg.MemoryQuota()
			v1 = "(Some " + vQ(q1, d1, e1) + ")"
		}
		mi, errMI := readMemInfo()
		mem := "None"
		if errMI == nil {
			mem = "(Some " + vU(mi) + ")"
		}
		total, err := TotalMemory()
		obs := "None"
		if err == nil {
			obs = "(Some " + vU(total) + ")"
		}
		term := fmt.Sprintf("(CTotal (mkEnv %s %s %s %s) %s)", isv2, vQ(q2, d2, e2), v1, mem, obs)
		out.Case(err == nil, term)
		out.Stat(fmt.Sprintf("total.cgroup_v2_%v", isV2), 1)
		// ---- direct oracle
		if errV2 == nil && err == nil {
			q, d, qe := q2, d2, e2
			if !isV2 {
				q, d, qe = q1, d1, e1
				if errCG != nil {
					qe = errCG
				}
			}
			switch {
			case qe != nil:
				out.Oracle("total-memory", term, "TotalMemory succeeded although the quota reader fails")
			case d && q != unlimitedMemorySize:
				out.Stat("total.from_cgroup_quota", 1)
				if total != uint64(q) {
					out.Oracle("total-memory", term, fmt.Sprintf("total=%d quota=%d", total, q))
				}
			default:
				out.Stat("total.from_meminfo", 1)
				if errMI != nil || total != mi {
					out.Oracle("total-memory", term, fmt.Sprintf("total=%d meminfo=%d err=%v", total, mi, errMI))
				}
			}
		}
	}
}
