// C18 correspondence harness for processor/memorylimiterprocessor (injected by overlay; in-package).
//
// Four processors (traces, metrics, logs, profiles) are created by ONE factory from ONE config
// object, so they share one memoryLimiterProcessor / MemoryLimiter (factory.getMemoryLimiter).
//   CGate cfg total ops obs   checks (limiter.CheckMemLimits with scripted readings, virtual clock
//                             as in the core harness) interleaved with Consume* calls through the
//                             real processorhelper wrappers into recording sinks whose answer is scripted
//   CLife ops obs             Start/Shutdown scripts over the four processors (the shared limiter's
//                             refCounter, closed channel and periodic checks are observed)
// The limiter's unexported fields (lastGCDone, runGCFn, refCounter, closed) live in another package
// and are reached with reflect + unsafe; readings come in through the exported ReadMemStatsFn.
//
// Direct oracle: refusing (computed from the scripted readings) => the call returns the data-refused
// error, not permanent, and no sink receives anything; not refusing => exactly the addressed sink
// receives a payload with byte-identical content and the caller gets the sink's own error object.
package memorylimiterprocessor

import (
	"context"
	"errors"
	"fmt"
	"io"
	"reflect"
	"runtime"
	"strconv"
	"strings"
	"sync"
	"sync/atomic"
	"testing"
	"time"
	"unsafe"

	"go.opentelemetry.io/collector/component"
	"go.opentelemetry.io/collector/component/componenttest"
	"go.opentelemetry.io/collector/consumer"
	"go.opentelemetry.io/collector/consumer/consumererror"
	"go.opentelemetry.io/collector/consumer/xconsumer"
	"go.opentelemetry.io/collector/internal/memorylimiter"
	"go.opentelemetry.io/collector/pdata/plog"
	"go.opentelemetry.io/collector/pdata/pmetric"
	"go.opentelemetry.io/collector/pdata/pprofile"
	"go.opentelemetry.io/collector/pdata/ptrace"
	"go.opentelemetry.io/collector/processor/memorylimiterprocessor/internal/metadata"
	"go.opentelemetry.io/collector/processor/processorhelper"
	"go.opentelemetry.io/collector/processor/processortest"
)

// ---- contexts of lifecycle calls ------------------------------------------------------------------------
// A context given to Start/Shutdown is only valid for the call.  Every Start/Shutdown of the harness
// gets, in rotation: context.Background(); a cancellable context cancelled right after the call
// returned; a context whose deadline passes right after the call; a context that is already
// cancelled.  The limiter must not tie the shared checker's life (or the effect of Shutdown) to it.
var vCtxCounter atomic.Int64

func vWithCtx(f func(context.Context) error) error {
	switch vCtxCounter.Add(1) % 4 {
	case 1:
		ctx, cancel := context.WithCancel(context.Background())
		e := f(ctx)
		cancel()
		return e
	case 2:
		ctx, cancel := context.WithTimeout(context.Background(), 200*time.Microsecond)
		e := f(ctx)
		<-ctx.Done()
		cancel()
		return e
	case 3:
		ctx, cancel := context.WithCancel(context.Background())
		cancel()
		return f(ctx)
	}
	return f(context.Background())
}

// ---- unexported fields of memorylimiter.MemoryLimiter ---------------------------------------------
func vField(ml *memorylimiter.MemoryLimiter, name string) reflect.Value {
	f := reflect.ValueOf(ml).Elem().FieldByName(name)
	if !f.IsValid() {
		panic("verif: memorylimiter.MemoryLimiter has no field " + name)
	}
	return reflect.NewAt(f.Type(), unsafe.Pointer(f.UnsafeAddr())).Elem()
}

func vLimits(ml *memorylimiter.MemoryLimiter) (limit, spike uint64) {
	uc := vField(ml, "usageChecker")
	return uc.FieldByName("memAllocLimit").Uint(), uc.FieldByName("memSpikeLimit").Uint()
}

func vU(n uint64) string { return strconv.FormatUint(n, 10) + "%Z" }

func vCfg(c *Config) string {
	return fmt.Sprintf("(mkConfig %s %s %s %s %s %s %s)", vZ(int64(c.CheckInterval)), vZ(int64(c.MinGCIntervalWhenSoftLimited)),
		vZ(int64(c.MinGCIntervalWhenHardLimited)), vU(uint64(c.MemoryLimitMiB)), vU(uint64(c.MemorySpikeLimitMiB)),
		vU(uint64(c.MemoryLimitPercentage)), vU(uint64(c.MemorySpikePercentage)))
}

const vMin = int64(time.Minute)

// ---- payloads: signal 0 traces, 1 metrics, 2 logs, 3 profiles; id is carried in a resource attribute
func vTraces(id int64, n int) ptrace.Traces {
	td := ptrace.NewTraces()
	rs := td.ResourceSpans().AppendEmpty()
	rs.Resource().Attributes().PutInt("verif.id", id)
	ss := rs.ScopeSpans().AppendEmpty()
	for i := 0; i < n; i++ {
		sp := ss.Spans().AppendEmpty()
		sp.SetName(fmt.Sprintf("span-%d-%d", id, i))
		sp.Attributes().PutStr("k", strings.Repeat("x", i))
	}
	return td
}

func vMetrics(id int64, n int) pmetric.Metrics {
	md := pmetric.NewMetrics()
	rm := md.ResourceMetrics().AppendEmpty()
	rm.Resource().Attributes().PutInt("verif.id", id)
	sm := rm.ScopeMetrics().AppendEmpty()
	for i := 0; i < n; i++ {
		m := sm.Metrics().AppendEmpty()
		m.SetName(fmt.Sprintf("metric-%d-%d", id, i))
		m.SetEmptyGauge().DataPoints().AppendEmpty().SetIntValue(id + int64(i))
	}
	return md
}

func vLogs(id int64, n int) plog.Logs {
	ld := plog.NewLogs()
	rl := ld.ResourceLogs().AppendEmpty()
	rl.Resource().Attributes().PutInt("verif.id", id)
	sl := rl.ScopeLogs().AppendEmpty()
	for i := 0; i < n; i++ {
		sl.LogRecords().AppendEmpty().Body().SetStr(fmt.Sprintf("log-%d-%d", id, i))
	}
	return ld
}

func vProfiles(id int64, n int) pprofile.Profiles {
	pd := pprofile.NewProfiles()
	rp := pd.ResourceProfiles().AppendEmpty()
	rp.Resource().Attributes().PutInt("verif.id", id)
	p := rp.ScopeProfiles().AppendEmpty().Profiles().AppendEmpty()
	for i := 0; i < n; i++ {
		p.Sample().AppendEmpty().SetLocationsStartIndex(int32(i))
	}
	return pd
}

type vRecv struct {
	signal int
	id     int64
	bytes  []byte
}

type vSinks struct {
	mu   sync.Mutex
	got  []vRecv
	next error // what the next consumer answers
}

func (s *vSinks) record(signal int, id int64, b []byte, err error) error {
	if err != nil {
		panic(err)
	}
	s.mu.Lock()
	defer s.mu.Unlock()
	s.got = append(s.got, vRecv{signal, id, b})
	return s.next
}

type vProcs struct {
	f      *factory
	cfg    *Config
	tr     consumer.Traces
	me     consumer.Metrics
	lo     consumer.Logs
	pr     xconsumer.Profiles
	comps  []component.Component
	ml     *memorylimiter.MemoryLimiter
	sinks  *vSinks
	r1, r2 uint64
	reads  int
	gcs    int
	cnt    atomic.Int64  // number of readMemStats calls (life cases; concurrent)
	alloc  atomic.Uint64 // reading returned in concurrent mode
	conc   bool
}

// vNewFactory builds the package's factory without naming the type of its cache (NewFactory hides the
// *factory behind closures; the map is made by reflection so that a change of its key type still builds).
func vNewFactory() *factory {
	f := &factory{}
	fv := reflect.ValueOf(f).Elem().FieldByName("memoryLimiters")
	reflect.NewAt(fv.Type(), unsafe.Pointer(fv.UnsafeAddr())).Elem().Set(reflect.MakeMap(fv.Type()))
	return f
}

// vNewProcs builds the four processors over one config; nil if the limiter cannot be built.
func vNewProcs(cfg *Config, totalOK bool, total uint64, concurrent bool) *vProcs {
	p := &vProcs{f: vNewFactory(), cfg: cfg, sinks: &vSinks{}, conc: concurrent}
	savedGet, savedRead := memorylimiter.GetMemoryFn, memorylimiter.ReadMemStatsFn
	defer func() { memorylimiter.GetMemoryFn, memorylimiter.ReadMemStatsFn = savedGet, savedRead }()
	memorylimiter.GetMemoryFn = func() (uint64, error) {
		if !totalOK {
			return 0, errors.New("verif: no total memory")
		}
		return total, nil
	}
	memorylimiter.ReadMemStatsFn = func(ms *runtime.MemStats) {
		if p.conc {
			p.cnt.Add(1)
			ms.Alloc = p.alloc.Load()
			return
		}
		if p.reads == 0 {
			ms.Alloc = p.r1
		} else {
			ms.Alloc = p.r2
		}
		p.reads++
	}
	ctx := context.Background()
	set := processortest.NewNopSettings(metadata.Type)
	tm, lm, mm, pm := &ptrace.ProtoMarshaler{}, &plog.ProtoMarshaler{}, &pmetric.ProtoMarshaler{}, &pprofile.ProtoMarshaler{}
	st, _ := consumer.NewTraces(func(_ context.Context, td ptrace.Traces) error {
		id, _ := td.ResourceSpans().At(0).Resource().Attributes().Get("verif.id")
		b, err := tm.MarshalTraces(td)
		return p.sinks.record(0, id.Int(), b, err)
	})
	sm, _ := consumer.NewMetrics(func(_ context.Context, md pmetric.Metrics) error {
		id, _ := md.ResourceMetrics().At(0).Resource().Attributes().Get("verif.id")
		b, err := mm.MarshalMetrics(md)
		return p.sinks.record(1, id.Int(), b, err)
	})
	sl, _ := consumer.NewLogs(func(_ context.Context, ld plog.Logs) error {
		id, _ := ld.ResourceLogs().At(0).Resource().Attributes().Get("verif.id")
		b, err := lm.MarshalLogs(ld)
		return p.sinks.record(2, id.Int(), b, err)
	})
	sp, _ := xconsumer.NewProfiles(func(_ context.Context, pd pprofile.Profiles) error {
		id, _ := pd.ResourceProfiles().At(0).Resource().Attributes().Get("verif.id")
		b, err := pm.MarshalProfiles(pd)
		return p.sinks.record(3, id.Int(), b, err)
	})
	t, err := p.f.createTraces(ctx, set, cfg, st)
	if err != nil {
		return nil
	}
	m, err1 := p.f.createMetrics(ctx, set, cfg, sm)
	l, err2 := p.f.createLogs(ctx, set, cfg, sl)
	pr, err3 := p.f.createProfiles(ctx, set, cfg, sp)
	if err1 != nil || err2 != nil || err3 != nil {
		panic(fmt.Sprint("verif: later create failed: ", err1, err2, err3))
	}
	p.tr, p.me, p.lo, p.pr = t, m, l, pr
	p.comps = []component.Component{t, m, l, pr}
	mlp, err := p.f.getMemoryLimiter(set, cfg) // a cache hit: the limiter the processors above were given
	if err != nil {
		panic(err)
	}
	p.ml = mlp.memlimiter
	vField(p.ml, "runGCFn").Set(reflect.ValueOf(func() { p.gcs++ }))
	return p
}

func (p *vProcs) stopTicker() {
	vField(p.ml, "ticker").Interface().(*time.Ticker).Stop()
}

// consume sends payload (signal, id) and returns the error, the marshalled original and what the sinks got.
func (p *vProcs) consume(signal int, id int64, n int) (error, []byte, []vRecv) {
	ctx := context.Background()
	if id%5 == 0 { // the gate does not depend on the caller's context either
		c, cancel := context.WithCancel(ctx)
		cancel()
		ctx = c
	}
	p.sinks.got = nil
	var err error
	var orig []byte
	switch signal {
	case 0:
		d := vTraces(id, n)
		orig, _ = (&ptrace.ProtoMarshaler{}).MarshalTraces(d)
		err = p.tr.ConsumeTraces(ctx, d)
	case 1:
		d := vMetrics(id, n)
		orig, _ = (&pmetric.ProtoMarshaler{}).MarshalMetrics(d)
		err = p.me.ConsumeMetrics(ctx, d)
	case 2:
		d := vLogs(id, n)
		orig, _ = (&plog.ProtoMarshaler{}).MarshalLogs(d)
		err = p.lo.ConsumeLogs(ctx, d)
	default:
		d := vProfiles(id, n)
		orig, _ = (&pprofile.ProtoMarshaler{}).MarshalProfiles(d)
		err = p.pr.ConsumeProfiles(ctx, d)
	}
	return err, orig, p.sinks.got
}

func vGenGateConfig(r *vRand) (*Config, bool, uint64) {
	c := &Config{CheckInterval: time.Hour}
	if r.Intn(8) == 0 {
		c.MinGCIntervalWhenSoftLimited = 10 * time.Second
	} else {
		h := []int64{-5, 0, 0, 0, 1, 2, 5}[r.Intn(7)]
		c.MinGCIntervalWhenHardLimited = time.Duration(h * vMin)
		c.MinGCIntervalWhenSoftLimited = time.Duration((h + []int64{0, 0, 1, 3, 10}[r.Intn(5)]) * vMin)
	}
	total := uint64(1) << (24 + uint(r.Intn(20)))
	if r.Intn(3) > 0 {
		lim := []uint32{1, 2, 5, 10, 100, 1000, 4095, uint32(1 + r.Intn(1<<16))}[r.Intn(8)]
		c.MemoryLimitMiB = lim
		if lim > 1 && r.Bool() {
			c.MemorySpikeLimitMiB = 1 + uint32(r.U64()%uint64(lim-1))
		}
		if r.Intn(12) == 0 { // not accepted by Validate: spike above limit, the soft limit wraps
			c.MemorySpikeLimitMiB = lim + 1 + uint32(r.Intn(5))
		}
	} else {
		c.MemoryLimitPercentage = uint32(1 + r.Intn(100))
		if c.MemoryLimitPercentage > 1 && r.Bool() {
			c.MemorySpikePercentage = uint32(1 + r.Intn(int(c.MemoryLimitPercentage-1)))
		}
	}
	return c, true, total
}

func vErrTerm(err error, downs []error) (string, string) {
	if err == nil {
		return "None", "nil"
	}
	for k, d := range downs { // identity first: downstream may itself answer with the refusal sentinel
		if err == d {
			return fmt.Sprintf("(Some (ErrDown %s))", vZ(int64(k))), "down"
		}
	}
	if errors.Is(err, memorylimiter.ErrDataRefused) {
		return "(Some ErrDataRefused)", "refused"
	}
	return "(Some (ErrDown (-1)%Z))", "other"
}

// what the next consumer may answer: plain, permanent, context errors (deadline AND cancellation, bare and
// wrapped), joined errors, the helper's own skip sentinel and the limiter's own sentinels coming from BELOW
func vDownErrors() []error {
	return []error{
		errors.New("down-0"),
		consumererror.NewPermanent(errors.New("down-1")),
		context.DeadlineExceeded,
		fmt.Errorf("down-3: %w", memorylimiter.ErrShutdownNotStarted),
		context.Canceled,
		fmt.Errorf("down-5: %w", context.Canceled),
		consumererror.NewPermanent(context.Canceled),
		errors.Join(errors.New("down-7a"), context.DeadlineExceeded),
		processorhelper.ErrSkipProcessingData,
		fmt.Errorf("down-9: %w", processorhelper.ErrSkipProcessingData),
		fmt.Errorf("down-10: %w", memorylimiter.ErrDataRefused), // a limiter further down refuses: still downstream's result
		io.EOF,
	}
}

func vGateCases(out *vOut, r *vRand, n int) {
	downs := vDownErrors()
	for i := 0; i < n; i++ {
		cfg, totalOK, total := vGenGateConfig(r)
		p := vNewProcs(cfg, totalOK, total, false)
		if p == nil {
			out.Stat("gate.no_limiter", 1)
			continue
		}
		p.stopTicker()
		limit, spike := vLimits(p.ml)
		soft := limit - spike
		noWrap := spike <= limit
		hi, si := int64(cfg.MinGCIntervalWhenHardLimited), int64(cfg.MinGCIntervalWhenSoftLimited)
		pool := []uint64{soft - 1, soft, soft + 1, limit - 1, limit, limit + 1, 0, ^uint64(0), soft / 2}
		nops := 6 + r.Intn(25)
		var ops, obs []string
		var lastGCv, elapsedMin int64
		expectRefuse := false // oracle's own view, from the readings
		nextID := int64(1)
		for k := 0; k < nops; k++ {
			if r.Intn(100) < 38 {
				p.r1, p.r2 = pool[r.Intn(len(pool))], pool[r.Intn(len(pool))]
				if r.Intn(4) == 0 {
					p.r1 = r.U64()
				}
				cands := []int64{elapsedMin, elapsedMin + 1, hi/vMin - 1, hi / vMin, si/vMin - 1, si / vMin, si/vMin + 5}
				t := cands[r.Intn(len(cands))]
				if t > elapsedMin {
					elapsedMin = t
				}
				elapsed := elapsedMin*vMin + int64(30*time.Second)
				now := lastGCv + elapsed
				vField(p.ml, "lastGCDone").Set(reflect.ValueOf(time.Now().Add(-time.Duration(elapsed))))
				p.reads, p.gcs = 0, 0
				p.ml.CheckMemLimits()
				refuse := p.ml.MustRefuse()
				ops = append(ops, fmt.Sprintf("GCheck (mkTick %s %s %s %s)", vZ(now), vZ(now), vU(p.r1), vU(p.r2)))
				obs = append(obs, fmt.Sprintf("OChecked %s %d", vBool(refuse), p.gcs))
				final := p.r1
				if p.gcs > 0 {
					final = p.r2
					lastGCv, elapsedMin = now, 0
				}
				expectRefuse = final >= soft
				if noWrap && refuse != expectRefuse {
					out.Oracle("refuse-iff-soft", fmt.Sprintf("(CGate %s (Some %s) %s %s)", vCfg(cfg), vU(total), vList(ops), vList(obs)),
						fmt.Sprintf("limit=%d spike=%d r1=%d r2=%d gcs=%d refuse=%v", limit, spike, p.r1, p.r2, p.gcs, refuse))
				}
				out.Stat(fmt.Sprintf("gate.check_refuse_%v", refuse), 1)
				continue
			}
			signal := r.Intn(4)
			id := nextID
			nextID++
			nitems := r.Intn(4)
			downK := -1
			p.sinks.next = nil
			if r.Intn(100) < 40 {
				downK = r.Intn(len(downs))
				p.sinks.next = downs[downK]
			}
			err, orig, got := p.consume(signal, id, nitems)
			et, eclass := vErrTerm(err, downs)
			fw := make([]string, len(got))
			for j, g := range got {
				fw[j] = vPair(strconv.Itoa(g.signal), vZ(g.id))
			}
			d := "None"
			if downK >= 0 {
				d = "(Some " + vZ(int64(downK)) + ")"
			}
			ops = append(ops, fmt.Sprintf("GConsume %d %s %s", signal, vZ(id), d))
			obs = append(obs, fmt.Sprintf("OConsumed %s %s", et, vList(fw)))
			out.Stat(fmt.Sprintf("gate.consume_signal_%d", signal), 1)
			out.Stat("gate.consume_result_"+eclass, 1)
			// ---- direct oracle
			cterm := fmt.Sprintf("(CGate %s (Some %s) %s %s)", vCfg(cfg), vU(total), vList(ops), vList(obs))
			detail := fmt.Sprintf("signal=%d id=%d refusing=%v err=%v forwarded=%d", signal, id, expectRefuse, err, len(got))
			if expectRefuse {
				if len(got) != 0 {
					out.Oracle("refused-but-forwarded", cterm, detail)
				}
				if !errors.Is(err, memorylimiter.ErrDataRefused) {
					out.Oracle("refused-without-refusal-error", cterm, detail)
				} else if consumererror.IsPermanent(err) {
					out.Oracle("refusal-error-permanent", cterm, detail)
				}
			} else {
				if len(got) != 1 || got[0].signal != signal || got[0].id != id {
					out.Oracle("accepted-not-forwarded-once", cterm, detail)
				} else if string(got[0].bytes) != string(orig) {
					out.Oracle("payload-modified", cterm, detail)
				}
				if err != p.sinks.next {
					out.Oracle("downstream-result-not-returned", cterm, detail)
				}
			}
		}
		out.Case(true, fmt.Sprintf("(CGate %s (Some %s) %s %s)", vCfg(cfg), vU(total), vList(ops), vList(obs)))
		out.Stat("gate.histories", 1)
	}
}

// ---- Start/Shutdown over the processors sharing the limiter ----------------------------------------
func vChecking(cnt *atomic.Int64, expectHint bool, afterRestart ...bool) bool {
	c0 := cnt.Load()
	window := 15 * time.Millisecond
	if expectHint {
		window = 5 * time.Second
		if len(afterRestart) > 0 && afterRestart[0] {
			// regression region of the repaired defect C18-RESTART: still >1000 ticker periods, but a
			// tree that reverts the fix does not cost 5 s per operation
			window = 1500 * time.Millisecond
		}
	}
	dl := time.Now().Add(window)
	for time.Now().Before(dl) {
		if cnt.Load() >= c0+2 {
			return true
		}
		time.Sleep(200 * time.Microsecond)
	}
	return cnt.Load() >= c0+2
}

func vProcLifeCases(out *vOut, r *vRand, n int) {
	host := componenttest.NewNopHost()
	for i := 0; i < n; i++ {
		cfg := &Config{CheckInterval: time.Millisecond, MemoryLimitMiB: 100, MemorySpikeLimitMiB: 10}
		p := vNewProcs(cfg, true, 1<<30, true)
		if p == nil {
			panic("verif: cannot build processors")
		}
		started := make([]int, 4)
		users, restarts := 0, 0
		everStopped := false
		nops := 2 + r.Intn(9)
		var ops, obs []string
		for k := 0; k < nops; k++ {
			which := r.Intn(4)
			start := r.Intn(100) < 55
			var e error
			if start {
				if users == 0 && everStopped {
					restarts++
				}
				e = vWithCtx(func(cx context.Context) error { return p.comps[which].Start(cx, host) })
				started[which]++
				users++
				if e != nil {
					out.Oracle("start-returns-error", "proc", e.Error())
				}
			} else {
				e = vWithCtx(func(cx context.Context) error { return p.comps[which].Shutdown(cx) })
				if (e != nil) != (users == 0) || (e != nil && !errors.Is(e, memorylimiter.ErrShutdownNotStarted)) {
					out.Oracle("shutdown-error-iff-not-started", "proc", fmt.Sprintf("users=%d err=%v", users, e))
				}
				if e == nil {
					users--
					if users == 0 {
						everStopped = true
					}
				}
			}
			rc := vField(p.ml, "refCounter").Int()
			ch, _ := vField(p.ml, "closed").Interface().(chan struct{})
			gor := false
			if ch != nil {
				select {
				case <-ch:
				default:
					gor = true
				}
			}
			checking := vChecking(&p.cnt, users > 0, restarts > 0)
			ops = append(ops, vBool(start))
			obs = append(obs, fmt.Sprintf("(%s, %s, %s, %s)", vBool(e != nil), vZ(rc), vBool(gor), vBool(checking)))
			term := fmt.Sprintf("(CLife %s %s)", vList(ops), vList(obs))
			switch {
			case users == 0 && checking:
				out.Oracle("checker-runs-without-users", term, fmt.Sprintf("users=%d restarts=%d", users, restarts))
			case users > 0 && !checking && restarts == 0:
				out.Oracle("checker-stopped-with-users", term, fmt.Sprintf("users=%d restarts=%d", users, restarts))
			case users > 0 && !checking:
				out.Oracle("checker-dead-after-restart", term, fmt.Sprintf("users=%d restarts=%d checking=0", users, restarts))
				out.Stat("proclife.restart_regression_failures", 1)
			}
			if int(rc) != users {
				out.Oracle("refcount", term, fmt.Sprintf("users=%d refCounter=%d (processors must share one limiter)", users, rc))
			}
		}
		for k := 0; k < 64 && vWithCtx(func(cx context.Context) error { return p.ml.Shutdown(cx) }) == nil; k++ {
		}
		p.stopTicker()
		out.Case(users > 0 || everStopped, fmt.Sprintf("(CLife %s %s)", vList(ops), vList(obs)))
		out.Stat("proclife.sequences", 1)
		if restarts > 0 {
			out.Stat("proclife.sequences_with_restart", 1)
		}
	}
}

// ---- factory.getMemoryLimiter: one limiter per config OBJECT ----------------------------------------
//   CShare calls obs    calls = (config object index, limiter constructible at this call),
//                       obs = identity (first-seen index) of the limiter the created processor uses
func vShareCases(out *vOut, r *vRand, n int) {
	ctx := context.Background()
	set := processortest.NewNopSettings(metadata.Type)
	savedGet := memorylimiter.GetMemoryFn
	defer func() { memorylimiter.GetMemoryFn = savedGet }()
	for i := 0; i < n; i++ {
		f := vNewFactory()
		ncfg := 1 + r.Intn(4)
		cfgs := make([]*Config, ncfg)
		for k := range cfgs {
			// equal CONTENT on purpose: sharing is by object identity, not by value
			cfgs[k] = &Config{CheckInterval: time.Hour, MemoryLimitMiB: 100}
			if r.Intn(3) == 0 { // percentage mode: construction needs the total memory
				cfgs[k] = &Config{CheckInterval: time.Hour, MemoryLimitPercentage: 50}
			}
		}
		seen := map[*memoryLimiterProcessor]int{}
		all := map[*memoryLimiterProcessor]bool{}
		byCfg := map[int]*memoryLimiterProcessor{}
		ncalls := 2 + r.Intn(9)
		var calls, obs []string
		for c := 0; c < ncalls; c++ {
			k := r.Intn(ncfg)
			memAvail := r.Intn(100) < 75
			memorylimiter.GetMemoryFn = func() (uint64, error) {
				if !memAvail {
					return 0, errors.New("verif: no total memory")
				}
				return 1 << 32, nil
			}
			ok := memAvail || cfgs[k].MemoryLimitMiB != 0
			var err error
			switch r.Intn(4) {
			case 0:
				st, _ := consumer.NewTraces(func(context.Context, ptrace.Traces) error { return nil })
				_, err = f.createTraces(ctx, set, cfgs[k], st)
			case 1:
				sm, _ := consumer.NewMetrics(func(context.Context, pmetric.Metrics) error { return nil })
				_, err = f.createMetrics(ctx, set, cfgs[k], sm)
			case 2:
				sl, _ := consumer.NewLogs(func(context.Context, plog.Logs) error { return nil })
				_, err = f.createLogs(ctx, set, cfgs[k], sl)
			default:
				sp, _ := xconsumer.NewProfiles(func(context.Context, pprofile.Profiles) error { return nil })
				_, err = f.createProfiles(ctx, set, cfgs[k], sp)
			}
			calls = append(calls, vPair(strconv.Itoa(k), vBool(ok)))
			if err != nil {
				obs = append(obs, "None")
				out.Stat("share.create_failed", 1)
				if _, cached := byCfg[k]; cached || ok {
					out.Oracle("limiter-sharing", vList(calls), fmt.Sprintf("create failed: cached=%v constructible=%v", cached, ok))
				}
				continue
			}
			mlp, lerr := f.getMemoryLimiter(set, cfgs[k]) // cache hit: the limiter just handed out for this config
			if lerr != nil {
				panic(lerr)
			}
			all[mlp] = true
			if _, have := seen[mlp]; !have {
				seen[mlp] = len(seen)
				out.Stat("share.limiter_created", 1)
			} else {
				out.Stat("share.limiter_reused", 1)
			}
			obs = append(obs, fmt.Sprintf("(Some %d)", seen[mlp]))
			// direct oracle: same config object <=> same limiter
			if prev, have := byCfg[k]; have && prev != mlp {
				out.Oracle("limiter-sharing", vList(calls), fmt.Sprintf("config object %d got a second limiter", k))
			}
			for k2, other := range byCfg {
				if k2 != k && other == mlp {
					out.Oracle("limiter-sharing", vList(calls), fmt.Sprintf("config objects %d and %d share a limiter", k, k2))
				}
			}
			byCfg[k] = mlp
		}
		for mlp := range all {
			vField(mlp.memlimiter, "ticker").Interface().(*time.Ticker).Stop()
		}
		out.Case(len(seen) > 0, fmt.Sprintf("(CShare %s %s)", vList(calls), vList(obs)))
		out.Stat("share.sequences", 1)
	}
}

// ---- concurrent: the ticker-driven checker flips the mode while eight producers consume ------------
// Oracle only (the linearisation is not observable): every call is either refused with the
// data-refused error and its payload never reaches a sink, or it returns nil and its payload is in
// the addressed sink exactly once; nothing else ever reaches a sink.
func vGateConcurrent(out *vOut, r *vRand) {
	host := componenttest.NewNopHost()
	for round := 0; round < vBudget(2, 5); round++ {
		cfg := &Config{CheckInterval: time.Millisecond, MemoryLimitMiB: 100, MemorySpikeLimitMiB: 10}
		p := vNewProcs(cfg, true, 1<<30, true)
		limit, spike := vLimits(p.ml)
		soft := limit - spike
		for _, c := range p.comps {
			if err := vWithCtx(func(cx context.Context) error { return c.Start(cx, host) }); err != nil {
				out.Oracle("start-returns-error", "concurrent", err.Error())
			}
		}
		stop := make(chan struct{})
		var wg sync.WaitGroup
		wg.Add(1)
		go func() { // memory usage oscillates around the soft limit
			defer wg.Done()
			hi := false
			for {
				select {
				case <-stop:
					return
				case <-time.After(3 * time.Millisecond):
				}
				hi = !hi
				if hi {
					p.alloc.Store(soft)
				} else {
					p.alloc.Store(soft - 1)
				}
			}
		}()
		type res struct {
			signal  int
			id      int64
			refused bool
			other   error
		}
		results := make([][]res, 8)
		var nextID atomic.Int64
		deadline := time.Now().Add(250 * time.Millisecond)
		for w := 0; w < 8; w++ {
			wg.Add(1)
			go func(w int) {
				defer wg.Done()
				ctx := context.Background()
				for time.Now().Before(deadline) {
					id := nextID.Add(1)
					signal := int(id) % 4
					var err error
					switch signal {
					case 0:
						err = p.tr.ConsumeTraces(ctx, vTraces(id, 1))
					case 1:
						err = p.me.ConsumeMetrics(ctx, vMetrics(id, 1))
					case 2:
						err = p.lo.ConsumeLogs(ctx, vLogs(id, 1))
					default:
						err = p.pr.ConsumeProfiles(ctx, vProfiles(id, 1))
					}
					rr := res{signal: signal, id: id}
					if errors.Is(err, memorylimiter.ErrDataRefused) {
						rr.refused = true
					} else if err != nil {
						rr.other = err
					}
					results[w] = append(results[w], rr)
					time.Sleep(50 * time.Microsecond)
				}
			}(w)
		}
		time.Sleep(260 * time.Millisecond)
		close(stop)
		wg.Wait()
		inSink := map[[2]int64]int{}
		p.sinks.mu.Lock()
		for _, g := range p.sinks.got {
			inSink[[2]int64{int64(g.signal), g.id}]++
		}
		p.sinks.mu.Unlock()
		nref, nacc := 0, 0
		for _, rs := range results {
			for _, x := range rs {
				k := [2]int64{int64(x.signal), x.id}
				switch {
				case x.other != nil:
					out.Oracle("downstream-result-not-returned", "concurrent", fmt.Sprintf("id=%d unexpected error %v", x.id, x.other))
				case x.refused:
					nref++
					if inSink[k] != 0 {
						out.Oracle("refused-but-forwarded", "concurrent", fmt.Sprintf("signal=%d id=%d", x.signal, x.id))
					}
				default:
					nacc++
					if inSink[k] != 1 {
						out.Oracle("accepted-not-forwarded-once", "concurrent", fmt.Sprintf("signal=%d id=%d times=%d", x.signal, x.id, inSink[k]))
					}
				}
				delete(inSink, k)
			}
		}
		if len(inSink) != 0 {
			out.Oracle("accepted-not-forwarded-once", "concurrent", fmt.Sprintf("%d payloads in the sinks that no call sent", len(inSink)))
		}
		out.Stat("gateconc.refused", nref)
		out.Stat("gateconc.accepted", nacc)
		for _, c := range p.comps {
			if err := vWithCtx(func(cx context.Context) error { return c.Shutdown(cx) }); err != nil {
				out.Oracle("shutdown-error-iff-not-started", "concurrent", err.Error())
			}
		}
		if vChecking(&p.cnt, false) {
			out.Oracle("checker-runs-without-users", "concurrent", "after the fourth processor's Shutdown")
		}
		p.stopTicker()
	}
}

func TestVerifC18Proc(t *testing.T) {
	out := vOpen()
	defer out.Close()
	vGateCases(out, vNewRand(1811), vBudget(250, 20))
	vProcLifeCases(out, vNewRand(1812), vBudget(40, 10))
	vShareCases(out, vNewRand(1813), vBudget(150, 20))
	vGateConcurrent(out, vNewRand(1814))
}
