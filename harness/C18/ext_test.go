// C18 correspondence harness for extension/memorylimiterextension (injected by overlay; in-package).
//
// The extension built by the real factory function (create -> newMemoryLimiter) wraps one
// MemoryLimiter; its "check" is MustRefuse().
//   CGate cfg total ops obs   checks (scripted readings, virtual clock as in the core harness)
//                             interleaved with the extension's MustRefuse()  (GExtMustRefuse / OExt)
//   CLife ops obs             EVERY Start/Shutdown sequence up to length 4 through the extension
// Direct oracle: MustRefuse() == (most recent measurement >= limit - spike), from the scripted readings.
package memorylimiterextension

import (
	"context"
	"errors"
	"fmt"
	"reflect"
	"runtime"
	"strconv"
	"sync/atomic"
	"testing"
	"time"
	"unsafe"

	"go.opentelemetry.io/collector/component/componenttest"
	"go.opentelemetry.io/collector/extension/extensiontest"
	"go.opentelemetry.io/collector/extension/memorylimiterextension/internal/metadata"
	"go.opentelemetry.io/collector/internal/memorylimiter"
)

// ---- contexts of lifecycle calls ------------------------------------------------------------------------
// A context given to Start/Shutdown is only valid for the call.  Every Start/Shutdown of the harness
// gets, in rotation: context.Background(); a cancellable context cancelled right after the call
// returned; a context whose deadline passes right after the call; a context that is already
// cancelled.  The limiter must not tie the shared checker's life (or the effect of Shutdown) to it.
var vCtxCounter atomic.Int64

func vWithCtx(f func(context.Context) error) error {
	switch vCtxCounter.Add(1) % 4 {
	case 1:
		ctx, cancel := context.WithCancel(context.Background())
		e := f(ctx)
		cancel()
		return e
	case 2:
		ctx, cancel := context.WithTimeout(context.Background(), 200*time.Microsecond)
		e := f(ctx)
		<-ctx.Done()
		cancel()
		return e
	case 3:
		ctx, cancel := context.WithCancel(context.Background())
		cancel()
		return f(ctx)
	}
	return f(context.Background())
}

func vField(ml *memorylimiter.MemoryLimiter, name string) reflect.Value {
	f := reflect.ValueOf(ml).Elem().FieldByName(name)
	if !f.IsValid() {
		panic("verif: memorylimiter.MemoryLimiter has no field " + name)
	}
	return reflect.NewAt(f.Type(), unsafe.Pointer(f.UnsafeAddr())).Elem()
}

func vU(n uint64) string { return strconv.FormatUint(n, 10) + "%Z" }

func vCfg(c *Config) string {
	return fmt.Sprintf("(mkConfig %s %s %s %s %s %s %s)", vZ(int64(c.CheckInterval)), vZ(int64(c.MinGCIntervalWhenSoftLimited)),
		vZ(int64(c.MinGCIntervalWhenHardLimited)), vU(uint64(c.MemoryLimitMiB)), vU(uint64(c.MemorySpikeLimitMiB)),
		vU(uint64(c.MemoryLimitPercentage)), vU(uint64(c.MemorySpikePercentage)))
}

const vMin = int64(time.Minute)

type vExt struct {
	ext    *memoryLimiterExtension
	ml     *memorylimiter.MemoryLimiter
	r1, r2 uint64
	reads  int
	gcs    int
	cnt    atomic.Int64
	conc   bool
}

func vNewExt(cfg *Config, total uint64, concurrent bool) *vExt {
	x := &vExt{conc: concurrent}
	savedGet, savedRead := memorylimiter.GetMemoryFn, memorylimiter.ReadMemStatsFn
	defer func() { memorylimiter.GetMemoryFn, memorylimiter.ReadMemStatsFn = savedGet, savedRead }()
	memorylimiter.GetMemoryFn = func() (uint64, error) { return total, nil }
	memorylimiter.ReadMemStatsFn = func(ms *runtime.MemStats) {
		if x.conc {
			x.cnt.Add(1)
			ms.Alloc = 0
			return
		}
		if x.reads == 0 {
			ms.Alloc = x.r1
		} else {
			ms.Alloc = x.r2
		}
		x.reads++
	}
	e, err := create(context.Background(), extensiontest.NewNopSettings(metadata.Type), cfg)
	if err != nil {
		panic(err)
	}
	x.ext = e.(*memoryLimiterExtension)
	x.ml = x.ext.memLimiter
	vField(x.ml, "runGCFn").Set(reflect.ValueOf(func() { x.gcs++ }))
	return x
}

func (x *vExt) stopTicker() { vField(x.ml, "ticker").Interface().(*time.Ticker).Stop() }

func vExtGate(out *vOut, r *vRand, n int) {
	for i := 0; i < n; i++ {
		cfg := &Config{CheckInterval: time.Hour}
		h := []int64{0, 0, 1, 2}[r.Intn(4)]
		cfg.MinGCIntervalWhenHardLimited = time.Duration(h * vMin)
		cfg.MinGCIntervalWhenSoftLimited = time.Duration((h + []int64{0, 1, 10}[r.Intn(3)]) * vMin)
		total := uint64(1) << (24 + uint(r.Intn(20)))
		if r.Bool() {
			cfg.MemoryLimitMiB = uint32(2 + r.Intn(4000))
			if r.Bool() {
				cfg.MemorySpikeLimitMiB = 1 + uint32(r.Intn(int(cfg.MemoryLimitMiB-1)))
			}
		} else {
			cfg.MemoryLimitPercentage = uint32(2 + r.Intn(99))
			if r.Bool() {
				cfg.MemorySpikePercentage = uint32(1 + r.Intn(int(cfg.MemoryLimitPercentage-1)))
			}
		}
		x := vNewExt(cfg, total, false)
		x.stopTicker()
		uc := vField(x.ml, "usageChecker")
		limit, spike := uc.FieldByName("memAllocLimit").Uint(), uc.FieldByName("memSpikeLimit").Uint()
		soft := limit - spike
		hi, si := int64(cfg.MinGCIntervalWhenHardLimited), int64(cfg.MinGCIntervalWhenSoftLimited)
		pool := []uint64{soft - 1, soft, soft + 1, limit - 1, limit, limit + 1, 0, ^uint64(0), soft / 2}
		var ops, obs []string
		var lastGCv, elapsedMin int64
		expect := false
		nops := 4 + r.Intn(16)
		for k := 0; k < nops; k++ {
			if r.Bool() {
				x.r1, x.r2 = pool[r.Intn(len(pool))], pool[r.Intn(len(pool))]
				cands := []int64{elapsedMin, elapsedMin + 1, hi/vMin - 1, hi / vMin, si/vMin - 1, si / vMin, si/vMin + 5}
				if t := cands[r.Intn(len(cands))]; t > elapsedMin {
					elapsedMin = t
				}
				elapsed := elapsedMin*vMin + int64(30*time.Second)
				now := lastGCv + elapsed
				vField(x.ml, "lastGCDone").Set(reflect.ValueOf(time.Now().Add(-time.Duration(elapsed))))
				x.reads, x.gcs = 0, 0
				x.ml.CheckMemLimits()
				ops = append(ops, fmt.Sprintf("GCheck (mkTick %s %s %s %s)", vZ(now), vZ(now), vU(x.r1), vU(x.r2)))
				obs = append(obs, fmt.Sprintf("OChecked %s %d", vBool(x.ml.MustRefuse()), x.gcs))
				final := x.r1
				if x.gcs > 0 {
					final = x.r2
					lastGCv, elapsedMin = now, 0
				}
				expect = final >= soft
				out.Stat("extgate.checks", 1)
			} else {
				got := x.ext.MustRefuse()
				ops = append(ops, "GExtMustRefuse")
				obs = append(obs, "OExt "+vBool(got))
				out.Stat(fmt.Sprintf("extgate.must_refuse_%v", got), 1)
				if got != expect {
					out.Oracle("extension-mustrefuse-iff-soft", fmt.Sprintf("(CGate %s (Some %s) %s %s)", vCfg(cfg), vU(total), vList(ops), vList(obs)),
						fmt.Sprintf("limit=%d spike=%d expected=%v got=%v", limit, spike, expect, got))
				}
			}
		}
		out.Case(true, fmt.Sprintf("(CGate %s (Some %s) %s %s)", vCfg(cfg), vU(total), vList(ops), vList(obs)))
	}
}

func vChecking(cnt *atomic.Int64, expectHint bool, afterRestart ...bool) bool {
	c0 := cnt.Load()
	window := 15 * time.Millisecond
	if expectHint {
		window = 5 * time.Second
		if len(afterRestart) > 0 && afterRestart[0] {
			// regression region of the repaired defect C18-RESTART: still >1000 ticker periods, but a
			// tree that reverts the fix does not cost 5 s per operation
			window = 1500 * time.Millisecond
		}
	}
	dl := time.Now().Add(window)
	for time.Now().Before(dl) {
		if cnt.Load() >= c0+2 {
			return true
		}
		time.Sleep(200 * time.Microsecond)
	}
	return cnt.Load() >= c0+2
}

func vExtLife(out *vOut) {
	host := componenttest.NewNopHost()
	for l := 1; l <= 4; l++ {
		for m := 0; m < 1<<uint(l); m++ {
			cfg := &Config{CheckInterval: time.Millisecond, MemoryLimitMiB: 100, MemorySpikeLimitMiB: 10}
			x := vNewExt(cfg, 1<<30, true)
			users, restarts := 0, 0
			everStopped := false
			var ops, obs []string
			for k := 0; k < l; k++ {
				start := m&(1<<uint(k)) != 0
				var e error
				if start {
					if users == 0 && everStopped {
						restarts++
					}
					e = vWithCtx(func(cx context.Context) error { return x.ext.Start(cx, host) })
					users++
				} else {
					e = vWithCtx(func(cx context.Context) error { return x.ext.Shutdown(cx) })
					if (e != nil) != (users == 0) || (e != nil && !errors.Is(e, memorylimiter.ErrShutdownNotStarted)) {
						out.Oracle("shutdown-error-iff-not-started", "ext", fmt.Sprintf("users=%d err=%v", users, e))
					}
					if e == nil {
						users--
						if users == 0 {
							everStopped = true
						}
					}
				}
				rc := vField(x.ml, "refCounter").Int()
				ch, _ := vField(x.ml, "closed").Interface().(chan struct{})
				gor := false
				if ch != nil {
					select {
					case <-ch:
					default:
						gor = true
					}
				}
				checking := vChecking(&x.cnt, users > 0, restarts > 0)
				ops = append(ops, vBool(start))
				obs = append(obs, fmt.Sprintf("(%s, %s, %s, %s)", vBool(e != nil), vZ(rc), vBool(gor), vBool(checking)))
				term := fmt.Sprintf("(CLife %s %s)", vList(ops), vList(obs))
				switch {
				case users == 0 && checking:
					out.Oracle("checker-runs-without-users", term, fmt.Sprintf("users=%d restarts=%d", users, restarts))
				case users > 0 && !checking && restarts == 0:
					out.Oracle("checker-stopped-with-users", term, fmt.Sprintf("users=%d restarts=%d", users, restarts))
				case users > 0 && !checking:
					out.Oracle("checker-dead-after-restart", term, fmt.Sprintf("users=%d restarts=%d checking=0", users, restarts))
				}
			}
			for k := 0; k < 64 && vWithCtx(func(cx context.Context) error { return x.ml.Shutdown(cx) }) == nil; k++ {
			}
			x.stopTicker()
			out.Case(users > 0 || everStopped, fmt.Sprintf("(CLife %s %s)", vList(ops), vList(obs)))
			out.Stat("extlife.sequences", 1)
		}
	}
}

func TestVerifC18Ext(t *testing.T) {
	out := vOpen()
	defer out.Close()
	vExtGate(out, vNewRand(1821), vBudget(100, 20))
	vExtLife(out)
}
