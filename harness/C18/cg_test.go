// C18 correspondence harness for internal/memorylimiter/cgroups (injected by overlay; in-package).
// The two readers behind iruntime.TotalMemory (percentage mode), on generated cgroup files:
//   CQuotaV2 f obs            memoryQuotaV2(mountpoint, "memory.max") — f = what the file looks like
//   CQuotaV1 exists read obs  CGroups.MemoryQuota() — is there a "memory" subsystem, what readInt gives
// obs = QErr (error returned) | QRes quota defined.
// Direct oracle: a quota reported as defined is the integer in the file; "max"/missing => undefined.
package cgroups

import (
	"fmt"
	"os"
	"path/filepath"
	"strconv"
	"strings"
	"testing"
)

func vQ(q int64, defined bool, err error) string {
	if err != nil {
		return "QErr"
	}
	return fmt.Sprintf("(QRes %s %s)", vZ(q), vBool(defined))
}

func vFirstLine(content string) string {
	if i := strings.IndexByte(content, '\n'); i >= 0 {
		content = content[:i]
	}
	return strings.TrimSuffix(content, "\r")
}

func vGenContent(r *vRand) string {
	switch r.Pick(12, 8, 40, 12, 10, 8, 10) {
	case 0:
		return "max\n"
	case 1:
		return []string{" max ", "max", "max\nmore", "\tmax\n"}[r.Intn(4)]
	case 2:
		n := []int64{0, 1, -1, 4096, 2147483648, 1 << 40, 184467440737095516, 184467440737095517, 9223372036854771712, 9223372036854775807, -9223372036854775808, int64(r.U64() >> 1), -int64(r.U64() >> 40)}[r.Intn(13)]
		return strconv.FormatInt(n, 10) + []string{"\n", "", "\n\n", "\nignored\n"}[r.Intn(4)]
	case 3:
		return []string{"9223372036854775808\n", "12abc\n", "max1\n", "0x10\n", "1.5\n", "+-3\n", "１２\n"}[r.Intn(7)]
	case 4:
		return ""
	case 5:
		return []string{"\n", "\n123\n", "  \n"}[r.Intn(3)]
	}
	return " " + strconv.FormatInt(int64(r.Intn(1<<30)), 10) + " \n" // surrounding blanks: v2 trims, v1 does not
}

func TestVerifC18CG(t *testing.T) {
	out := vOpen()
	defer out.Close()
	r := vNewRand(1831)
	n := vBudget(120, 10)
	for i := 0; i < n; i++ {
		dir := t.TempDir()
		// ---- v2
		kind := r.Pick(12, 8, 80) // missing, open error, file
		var term string
		var class string
		mount := dir
		content := ""
		switch kind {
		case 0:
			class = "V2Missing"
		case 1:
			class = "V2OpenErr" // the mount point is a regular file: ENOTDIR, not IsNotExist
			mount = filepath.Join(dir, "plainfile")
			if err := os.WriteFile(mount, []byte("x"), 0o600); err != nil {
				t.Fatal(err)
			}
		default:
			content = vGenContent(r)
			if err := os.WriteFile(filepath.Join(dir, "memory.max"), []byte(content), 0o600); err != nil {
				t.Fatal(err)
			}
			line := strings.TrimSpace(vFirstLine(content))
			switch {
			case content == "":
				class = "V2Empty"
			case line == "max":
				class = "V2Max"
			default:
				if v, err := strconv.ParseInt(line, 10, 64); err == nil {
					class = "(V2Int " + vZ(v) + ")"
				} else {
					class = "V2Garbage"
				}
			}
		}
		q, defined, err := memoryQuotaV2(mount, "memory.max")
		term = fmt.Sprintf("(CQuotaV2 %s %s)", class, vQ(q, defined, err))
		out.Case(strings.HasPrefix(class, "(V2Int"), term)
		out.Stat("cg.v2_"+strings.Fields(strings.Trim(class, "()"))[0], 1)
		if err == nil && defined {
			if v, perr := strconv.ParseInt(strings.TrimSpace(vFirstLine(content)), 10, 64); perr != nil || v != q {
				out.Oracle("quota-not-from-file", term, fmt.Sprintf("content=%q quota=%d", content, q))
			}
		}
		if err == nil && !defined && kind == 2 && strings.TrimSpace(vFirstLine(content)) != "max" {
			out.Oracle("quota-undefined-for-a-number", term, fmt.Sprintf("content=%q", content))
		}
		// ---- v1
		dir1 := t.TempDir()
		exists := r.Intn(100) < 85
		cg := CGroups{}
		read := "None"
		c1 := ""
		if exists {
			cg[_cgroupSubsysMemory] = NewCGroup(dir1)
			if r.Intn(100) < 90 {
				c1 = vGenContent(r)
				if err := os.WriteFile(filepath.Join(dir1, _cgroupMemoryLimitBytes), []byte(c1), 0o600); err != nil {
					t.Fatal(err)
				}
				if c1 != "" { // readInt: first line, NOT trimmed
					if v, err := strconv.ParseInt(vFirstLine(c1), 10, 64); err == nil {
						read = "(Some " + vZ(v) + ")"
					}
				}
			}
		} else if r.Bool() {
			cg["cpu"] = NewCGroup(dir1)
		}
		q1, d1, e1 := cg.MemoryQuota()
		term1 := fmt.Sprintf("(CQuotaV1 %s %s %s)", vBool(exists), read, vQ(q1, d1, e1))
		out.Case(e1 == nil && d1, term1)
		switch {
		case e1 != nil:
			out.Stat("cg.v1_error", 1)
		case d1:
			out.Stat("cg.v1_defined", 1)
			if q1 <= 0 {
				out.Oracle("v1-defined-nonpositive-quota", term1, fmt.Sprintf("content=%q quota=%d", c1, q1))
			}
		default:
			out.Stat("cg.v1_undefined", 1)
		}
	}
}
