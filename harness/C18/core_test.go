// C18 correspondence harness for internal/memorylimiter (injected by overlay; package-internal).
//
// Case terms (Coq type vcase, see coq/C18/Harness.v):
//   CConfig cfg total verr outcome chk    Validate() class, outcome of NewMemoryLimiter, usage checker
//   CRun    cfg total ticks obs           scripted CheckMemLimits history on a REAL MemoryLimiter:
//                                         tick = (virtual now, first reading, reading after a GC);
//                                         obs  = (MustRefuse, #runGCFn calls, lastGCDone rewritten,
//                                                 GC marker 0 + log lines >= Info in order)
//   CLife   ops obs                       Start(true)/Shutdown(false) script; obs = (error, refCounter,
//                                         monitoring goroutine exists, periodic checks observed)
// The clock: lastGCDone is rewritten before every check to time.Now() - elapsed, elapsed = k min + 30 s,
// all intervals are whole minutes (or the default 10 s), so the implementation's time.Since comparison
// has a margin of >= 20 s in both directions.
//
// Direct oracle (independent of the Coq model): the property's iff on the scripted readings, GC only
// when due / always when due / at most once, lastGCDone updated exactly on GC, well-formed limits for
// validated configurations, reference counting and checker lifetime.
package memorylimiter

import (
	"context"
	"errors"
	"fmt"
	"math/big"
	"os"
	"runtime"
	"strconv"
	"strings"
	"sync"
	"sync/atomic"
	"testing"
	"time"

	"go.uber.org/zap"
	"go.uber.org/zap/zapcore"
)

// ---- a zap core that records the limiter's log lines (>= Info) as event codes ------------------
type vLogCore struct {
	mu *sync.Mutex
	ev *[]int
}

func (c vLogCore) Enabled(l zapcore.Level) bool       { return l >= zapcore.InfoLevel }
func (c vLogCore) With([]zapcore.Field) zapcore.Core { return c }
func (c vLogCore) Check(e zapcore.Entry, ce *zapcore.CheckedEntry) *zapcore.CheckedEntry {
	if c.Enabled(e.Level) {
		return ce.AddCore(e, c)
	}
	return ce
}
func (c vLogCore) Sync() error { return nil }
func (c vLogCore) Write(e zapcore.Entry, _ []zapcore.Field) error {
	code := 9
	switch e.Message {
	case "Memory usage back within limits. Resuming normal operation.":
		code = 1
	case "Memory usage is above hard limit. Forcing a GC.":
		code = 2
	case "Memory usage is above soft limit. Forcing a GC.":
		code = 3
	case "Memory usage after GC.":
		code = 4
	case "Memory usage is above soft limit. Refusing data.":
		code = 5
	}
	// the level is part of the observable: Warn for 2 and 5, Info for the others
	wantWarn := code == 2 || code == 5
	if code != 9 && (e.Level == zapcore.WarnLevel) != wantWarn {
		code += 10
	}
	c.mu.Lock()
	*c.ev = append(*c.ev, code)
	c.mu.Unlock()
	return nil
}

// ---- contexts of lifecycle calls ------------------------------------------------------------------------
// A context given to Start/Shutdown is only valid for the call.  Every Start/Shutdown of the harness
// gets, in rotation: context.Background(); a cancellable context cancelled right after the call
// returned; a context whose deadline passes right after the call; a context that is already
// cancelled.  The limiter must not tie the shared checker's life (or the effect of Shutdown) to it.
var vCtxCounter atomic.Int64

func vWithCtx(f func(context.Context) error) error {
	switch vCtxCounter.Add(1) % 4 {
	case 1:
		ctx, cancel := context.WithCancel(context.Background())
		e := f(ctx)
		cancel()
		return e
	case 2:
		ctx, cancel := context.WithTimeout(context.Background(), 200*time.Microsecond)
		e := f(ctx)
		<-ctx.Done()
		cancel()
		return e
	case 3:
		ctx, cancel := context.WithCancel(context.Background())
		cancel()
		return f(ctx)
	}
	return f(context.Background())
}

// ---- Coq printers --------------------------------------------------------------------------------
func vU(n uint64) string { return strconv.FormatUint(n, 10) + "%Z" }

func vCfg(c *Config) string {
	return fmt.Sprintf("(mkConfig %s %s %s %s %s %s %s)", vZ(int64(c.CheckInterval)), vZ(int64(c.MinGCIntervalWhenSoftLimited)),
		vZ(int64(c.MinGCIntervalWhenHardLimited)), vU(uint64(c.MemoryLimitMiB)), vU(uint64(c.MemorySpikeLimitMiB)),
		vU(uint64(c.MemoryLimitPercentage)), vU(uint64(c.MemorySpikePercentage)))
}

type vTotal struct {
	ok bool
	v  uint64
}

func (t vTotal) String() string {
	if !t.ok {
		return "None"
	}
	return "(Some " + vU(t.v) + ")"
}

func vBoolList(xs []bool) string {
	it := make([]string, len(xs))
	for i, x := range xs {
		it[i] = vBool(x)
	}
	return vList(it)
}

func vInts(xs []int) string {
	it := make([]string, len(xs))
	for i, x := range xs {
		it[i] = strconv.Itoa(x)
	}
	return "[" + strings.Join(it, "; ") + "]"
}

// ---- generators ----------------------------------------------------------------------------------
const vMin = int64(time.Minute)

func vGenTotal(r *vRand) vTotal {
	switch r.Pick(4, 10, 40, 16, 10) {
	case 0:
		return vTotal{false, 0}
	case 1:
		return vTotal{true, []uint64{0, 1, 99, 100, 101, 1000, 4096}[r.Intn(7)]}
	case 2:
		return vTotal{true, (uint64(1) << (20 + uint(r.Intn(28)))) + uint64(r.Intn(3))*uint64(r.Intn(1<<20))}
	case 3:
		edge := ^uint64(0) / 100 // largest t with 100*t < 2^64
		return vTotal{true, []uint64{edge - 1, edge, edge + 1, edge + 2, 1 << 57, (1 << 57) - 1, 1 << 62, 1 << 63, ^uint64(0), ^uint64(0) / 3}[r.Intn(10)]}
	}
	return vTotal{true, r.U64()}
}

func vGenIntervals(r *vRand, c *Config) {
	if r.Intn(8) == 0 { // the documented defaults
		c.MinGCIntervalWhenSoftLimited = 10 * time.Second
		c.MinGCIntervalWhenHardLimited = 0
		return
	}
	h := []int64{-5, 0, 0, 0, 1, 2, 5}[r.Intn(7)]
	s := h + []int64{0, 0, 1, 3, 10}[r.Intn(5)]
	c.MinGCIntervalWhenHardLimited = time.Duration(h * vMin)
	c.MinGCIntervalWhenSoftLimited = time.Duration(s * vMin)
}

// vGenConfig: a configuration accepted by Validate (by construction); with valid = false one
// corruption is applied, aimed at one of the six errors of Validate (the class is observed, not assumed).
func vGenConfig(r *vRand, valid bool) *Config {
	c := &Config{CheckInterval: time.Hour}
	vGenIntervals(r, c)
	mode := r.Pick(50, 35, 15) // fixed, percentage, both
	if mode == 0 || mode == 2 {
		lim := []uint32{1, 2, 5, 6, 10, 100, 1000, 4095, 1 << 31, ^uint32(0), uint32(1 + r.Intn(1<<16))}[r.Intn(11)]
		c.MemoryLimitMiB = lim
		switch r.Pick(30, 55, 15) {
		case 1:
			if lim > 1 {
				c.MemorySpikeLimitMiB = 1 + uint32(r.U64()%uint64(lim-1))
			}
		case 2:
			c.MemorySpikeLimitMiB = lim - 1
		}
	}
	if mode == 1 || mode == 2 {
		lp := uint32(1 + r.Intn(100))
		if r.Intn(6) == 0 {
			lp = 100
		}
		c.MemoryLimitPercentage = lp
		switch r.Pick(30, 55, 15) {
		case 1:
			if lp > 1 {
				c.MemorySpikePercentage = 1 + uint32(r.Intn(int(lp-1)))
			}
		case 2:
			c.MemorySpikePercentage = lp - 1
		}
	}
	if mode == 1 && r.Intn(3) == 0 {
		// limit_mib unset: spike_limit_mib is not looked at by Validate nor by the percentage checker
		c.MemorySpikeLimitMiB = []uint32{1, 5, 100, 4096, ^uint32(0)}[r.Intn(5)]
	}
	if valid {
		return c
	}
	switch r.Intn(8) {
	case 0:
		c.CheckInterval = []time.Duration{0, -1, -time.Hour}[r.Intn(3)]
	case 1:
		c.MinGCIntervalWhenSoftLimited = c.MinGCIntervalWhenHardLimited - time.Duration((1+int64(r.Intn(3)))*vMin)
	case 2:
		c.MemoryLimitMiB, c.MemoryLimitPercentage = 0, 0
		if r.Bool() {
			c.MemorySpikeLimitMiB, c.MemorySpikePercentage = uint32(r.Intn(5)), uint32(r.Intn(5))
		}
	case 3:
		if r.Bool() {
			c.MemoryLimitPercentage = 101 + uint32(r.Intn(200))
		} else {
			c.MemorySpikePercentage = 101 + uint32(r.Intn(200))
		}
	case 4, 5: // spike_limit_mib >= limit_mib (uint32 wrap at 2^32-1 possible: then it may stay valid)
		if c.MemoryLimitMiB == 0 {
			c.MemoryLimitMiB = uint32(1 + r.Intn(1000))
		}
		c.MemorySpikeLimitMiB = c.MemoryLimitMiB + uint32(r.Intn(3))
		if r.Intn(4) == 0 {
			c.MemorySpikeLimitMiB = ^uint32(0)
		}
	default: // spike percentage >= limit percentage
		if c.MemoryLimitPercentage == 0 {
			c.MemoryLimitPercentage = uint32(1 + r.Intn(99))
		}
		c.MemorySpikePercentage = c.MemoryLimitPercentage + uint32(r.Intn(3))
		if c.MemorySpikePercentage > 100 {
			c.MemorySpikePercentage = c.MemoryLimitPercentage
		}
	}
	return c
}

func vValidateClass(err error) int {
	switch {
	case err == nil:
		return 0
	case errors.Is(err, errCheckIntervalOutOfRange):
		return 1
	case errors.Is(err, errInconsistentGCMinInterval):
		return 2
	case errors.Is(err, errLimitOutOfRange):
		return 3
	case errors.Is(err, errLimitPercentageOutOfRange):
		return 4
	case errors.Is(err, errSpikeLimitOutOfRange):
		return 5
	case errors.Is(err, errSpikeLimitPercentageOutOfRange):
		return 6
	}
	return 99
}

// vNew calls NewMemoryLimiter under recover: outcome 0 = error, 1 = panic, 2 = ok.
func vNew(c *Config, total vTotal, logger *zap.Logger) (ml *MemoryLimiter, outcome int) {
	saved := GetMemoryFn
	defer func() { GetMemoryFn = saved }()
	GetMemoryFn = func() (uint64, error) {
		if !total.ok {
			return 0, errors.New("verif: no total memory")
		}
		return total.v, nil
	}
	defer func() {
		if recover() != nil {
			ml, outcome = nil, 1
		}
	}()
	m, err := NewMemoryLimiter(c, logger)
	if err != nil {
		return nil, 0
	}
	return m, 2
}

// ---- CConfig ---------------------------------------------------------------------------------------
func vConfigCases(out *vOut, r *vRand, n int) {
	for i := 0; i < n; i++ {
		valid := r.Intn(100) < 62
		c := vGenConfig(r, valid)
		total := vGenTotal(r)
		vOneConfigCase(out, c, total)
	}
}

func vOneConfigCase(out *vOut, c *Config, total vTotal) {
	two64 := new(big.Int).Lsh(big.NewInt(1), 64)
	class := vValidateClass(c.Validate())
	ml, outcome := vNew(c, total, zap.NewNop())
	chk := "None"
	if ml != nil {
		ml.ticker.Stop()
		chk = "(Some " + vPair(vU(ml.usageChecker.memAllocLimit), vU(ml.usageChecker.memSpikeLimit)) + ")"
	}
	term := fmt.Sprintf("(CConfig %s %s %d %d %s)", vCfg(c), total, class, outcome, chk)
	out.Case(outcome == 2, term)
	out.Stat(fmt.Sprintf("config.validate_class_%d", class), 1)
	out.Stat(fmt.Sprintf("config.new_outcome_%d", outcome), 1)
	if c.MemoryLimitMiB != 0 {
		out.Stat("config.mode_fixed", 1)
	} else {
		out.Stat("config.mode_percentage", 1)
	}
	// direct oracle: a validated configuration (percentage mode: 100*total < 2^64) gives
	// spike <= limit, limit/spike equal to the unbounded-integer values, default spike = limit/5
	{
		okDoc := c.CheckInterval > 0 && c.MinGCIntervalWhenSoftLimited >= c.MinGCIntervalWhenHardLimited &&
			(c.MemoryLimitMiB > 0 || c.MemoryLimitPercentage > 0) &&
			c.MemoryLimitPercentage <= 100 && c.MemorySpikePercentage <= 100 &&
			(c.MemoryLimitMiB == 0 || c.MemorySpikeLimitMiB < c.MemoryLimitMiB) &&
			(c.MemoryLimitPercentage == 0 || c.MemorySpikePercentage < c.MemoryLimitPercentage)
		if class != 0 && okDoc {
			out.Oracle("validate-rejects-good-config", term, fmt.Sprintf("Validate() class %d for a configuration that obeys every documented rule", class))
		}
	}
	if class == 0 {
		// the documented rules, restated independently of Validate
		okDoc := c.CheckInterval > 0 && c.MinGCIntervalWhenSoftLimited >= c.MinGCIntervalWhenHardLimited &&
			(c.MemoryLimitMiB > 0 || c.MemoryLimitPercentage > 0) &&
			c.MemoryLimitPercentage <= 100 && c.MemorySpikePercentage <= 100 &&
			(c.MemoryLimitMiB == 0 || c.MemorySpikeLimitMiB < c.MemoryLimitMiB) &&
			(c.MemoryLimitPercentage == 0 || c.MemorySpikePercentage < c.MemoryLimitPercentage)
		if !okDoc {
			out.Oracle("validate-accepts-bad-config", term, "Validate() = nil for a configuration that breaks a documented rule")
		}
		if outcome == 1 {
			out.Oracle("validated-config-panics", term, "NewMemoryLimiter panicked on a validated configuration")
		}
		if outcome == 0 && (c.MemoryLimitMiB != 0 || total.ok) {
			out.Oracle("validated-config-rejected", term, "NewMemoryLimiter failed although total memory is known")
		}
	}
	if class == 0 && ml != nil {
		lim, spike := new(big.Int), new(big.Int)
		inScope := true
		if c.MemoryLimitMiB != 0 {
			lim.Mul(big.NewInt(int64(c.MemoryLimitMiB)), big.NewInt(1<<20))
			spike.Mul(big.NewInt(int64(c.MemorySpikeLimitMiB)), big.NewInt(1<<20))
		} else {
			t := new(big.Int).SetUint64(total.v)
			if new(big.Int).Mul(t, big.NewInt(100)).Cmp(two64) >= 0 {
				inScope = false
				out.Stat("config.percentage_total_beyond_2^64/100", 1)
			}
			lim.Div(new(big.Int).Mul(t, big.NewInt(int64(c.MemoryLimitPercentage))), big.NewInt(100))
			spike.Div(new(big.Int).Mul(t, big.NewInt(int64(c.MemorySpikePercentage))), big.NewInt(100))
		}
		if spike.Sign() == 0 {
			spike.Div(lim, big.NewInt(5))
			out.Stat("config.default_spike", 1)
		}
		if inScope {
			gl, gs := new(big.Int).SetUint64(ml.usageChecker.memAllocLimit), new(big.Int).SetUint64(ml.usageChecker.memSpikeLimit)
			if gl.Cmp(lim) != 0 || gs.Cmp(spike) != 0 || gs.Cmp(gl) > 0 {
				out.Oracle("limits-wellformed", term, fmt.Sprintf("limit=%s spike=%s expected limit=%s spike=%s", gl, gs, lim, spike))
			}
		}
	}
}

// ---- CRun ------------------------------------------------------------------------------------------
func vReadingPool(r *vRand, limit, spike uint64) []uint64 {
	soft := limit - spike
	p := []uint64{soft - 1, soft, soft + 1, limit - 1, limit, limit + 1, 0, ^uint64(0), soft / 2, r.U64()}
	if soft < limit {
		p = append(p, soft+r.U64()%(limit-soft), soft+(limit-soft)/2)
	}
	if soft > 0 {
		p = append(p, r.U64()%soft, r.U64()%soft)
	}
	return p
}

// vRunner drives one real MemoryLimiter (not started; its ticker is stopped) check by check.
type vRunner struct {
	out          *vOut
	c            *Config
	total        vTotal
	ml           *MemoryLimiter
	mu           sync.Mutex
	ev           []int
	r1, r2       uint64
	reads, gcs   int
	lastGCv      int64 // virtual clock (ns); construction at 0
	ticks, obs   []string
	limit, spike uint64
}

func vNewRunner(out *vOut, c *Config, total vTotal) *vRunner {
	x := &vRunner{out: out, c: c, total: total}
	ml, outcome := vNew(c, total, zap.New(vLogCore{&x.mu, &x.ev}))
	if outcome != 2 {
		return nil
	}
	ml.ticker.Stop()
	x.ml = ml
	x.limit, x.spike = ml.usageChecker.memAllocLimit, ml.usageChecker.memSpikeLimit
	ml.readMemStatsFn = func(ms *runtime.MemStats) {
		if x.reads == 0 {
			ms.Alloc = x.r1
		} else {
			ms.Alloc = x.r2
		}
		x.reads++
	}
	ml.runGCFn = func() {
		x.gcs++
		x.mu.Lock()
		x.ev = append(x.ev, 0)
		x.mu.Unlock()
	}
	return x
}

func (x *vRunner) term() string {
	return fmt.Sprintf("(CRun %s %s %s %s)", vCfg(x.c), x.total, vList(x.ticks), vList(x.obs))
}

// step: one CheckMemLimits with first reading r1, post-GC reading r2, `elapsed` ns after the last forced GC.
// Returns whether a GC was forced.
func (x *vRunner) step(r1, r2 uint64, elapsed int64) bool {
	out, ml := x.out, x.ml
	hi, si := int64(x.c.MinGCIntervalWhenHardLimited), int64(x.c.MinGCIntervalWhenSoftLimited)
	x.r1, x.r2 = r1, r2
	now := x.lastGCv + elapsed
	set := time.Now().Add(-time.Duration(elapsed))
	ml.lastGCDone = set
	x.reads, x.gcs = 0, 0
	x.mu.Lock()
	x.ev = x.ev[:0]
	x.mu.Unlock()
	before := ml.MustRefuse()
	ml.CheckMemLimits()
	refuse := ml.MustRefuse()
	rewritten := !ml.lastGCDone.Equal(set)
	x.mu.Lock()
	evs := append([]int(nil), x.ev...)
	x.mu.Unlock()
	gcs := x.gcs
	for _, e := range evs {
		out.Stat(fmt.Sprintf("run.event_%d", e), 1)
	}
	x.ticks = append(x.ticks, fmt.Sprintf("(%s, %s, %s)", vZ(now), vU(r1), vU(r2)))
	x.obs = append(x.obs, fmt.Sprintf("(%s, %d, %s, %s)", vBool(refuse), gcs, vBool(rewritten), vInts(evs)))
	// ---- direct oracle
	limit, spike := x.limit, x.spike
	soft := limit - spike
	sev := "below"
	due := false
	if r1 >= soft {
		sev = "soft"
		due = elapsed > si
		if r1 >= limit {
			sev = "hard"
			due = elapsed > hi
		}
	}
	out.Stat("run.first_reading_"+sev, 1)
	out.Stat(fmt.Sprintf("run.gc_calls_%d", gcs), 1)
	if r1 >= soft && !due {
		out.Stat("run.gc_throttled_"+sev, 1)
	}
	if before != refuse {
		out.Stat(fmt.Sprintf("run.mode_switch_to_%v", refuse), 1)
	}
	detail := fmt.Sprintf("limit=%d spike=%d r1=%d r2=%d elapsed=%d soft_int=%d hard_int=%d gcs=%d refuse=%v", limit, spike, r1, r2, elapsed, si, hi, gcs, refuse)
	if spike <= limit {
		final := r1
		if gcs > 0 {
			final = r2
		}
		if refuse != (final >= soft) {
			out.Oracle("refuse-iff-soft", x.term(), detail)
		}
		if gcs > 0 && !due {
			out.Oracle("gc-when-not-due", x.term(), detail)
		}
		if gcs == 0 && due {
			out.Oracle("gc-missing-when-due", x.term(), detail)
		}
	} else {
		out.Stat("run.wrapped_soft_limit_checks", 1)
	}
	if gcs > 1 {
		out.Oracle("gc-more-than-once", x.term(), detail)
	}
	if rewritten != (gcs > 0) {
		out.Oracle("lastgc-update", x.term(), detail+fmt.Sprintf(" rewritten=%v", rewritten))
	}
	if elapsed < 0 {
		out.Stat("run.clock_before_last_gc", 1)
	}
	if gcs > 0 {
		x.lastGCv = now
	}
	return gcs > 0
}

func vRunCases(out *vOut, r *vRand, n int) {
	for i := 0; i < n; i++ {
		valid := r.Intn(100) < 85
		c := vGenConfig(r, valid)
		c.CheckInterval = time.Hour // never ticks; the limiter is not started either
		total := vGenTotal(r)
		if r.Intn(4) != 0 && total.ok && total.v > ^uint64(0)/100 {
			total.v = uint64(1) << (24 + uint(r.Intn(20)))
		}
		x := vNewRunner(out, c, total)
		if x == nil {
			out.Stat("run.no_limiter", 1)
			continue
		}
		hi, si := int64(c.MinGCIntervalWhenHardLimited), int64(c.MinGCIntervalWhenSoftLimited)
		nticks := 1 + r.Intn(20)
		var elapsedMin int64
		for k := 0; k < nticks; k++ {
			pool := vReadingPool(r, x.limit, x.spike)
			r1, r2 := pool[r.Intn(len(pool))], pool[r.Intn(len(pool))]
			if r.Intn(3) == 0 && r2 > r1 { // a GC usually frees memory
				r1, r2 = r2, r1
			}
			cands := []int64{elapsedMin, elapsedMin, elapsedMin + 1, hi/vMin - 1, hi / vMin, hi/vMin + 1, si/vMin - 1, si / vMin, si/vMin + 1, si/vMin + 5}
			t := cands[r.Intn(len(cands))]
			if t < elapsedMin && r.Intn(10) != 0 { // mostly a monotone clock; sometimes it jumps back (even before the last GC)
				t = elapsedMin
			}
			elapsedMin = t
			if x.step(r1, r2, elapsedMin*vMin+int64(30*time.Second)) {
				elapsedMin = 0
			}
		}
		out.Case(true, x.term())
		out.Stat("run.histories", 1)
		out.Stat("run.checks", nticks)
	}
}

// vRunGrid: EVERY combination of previous mode x first reading x post-GC reading x elapsed class,
// as two-check histories (a priming check sets the mode, no GC is due in it).
func vRunGrid(out *vOut) {
	cfgs := []*Config{
		{CheckInterval: time.Hour, MemoryLimitMiB: 100, MemorySpikeLimitMiB: 20, MinGCIntervalWhenHardLimited: time.Minute, MinGCIntervalWhenSoftLimited: 3 * time.Minute},
		{CheckInterval: time.Hour, MemoryLimitPercentage: 75, MemorySpikePercentage: 25, MinGCIntervalWhenHardLimited: time.Minute, MinGCIntervalWhenSoftLimited: 3 * time.Minute},
		{CheckInterval: time.Hour, MemoryLimitMiB: 5, MinGCIntervalWhenHardLimited: time.Minute, MinGCIntervalWhenSoftLimited: 3 * time.Minute},
	}
	full := vTier() != "quick"
	if !full {
		cfgs = cfgs[:1]
	}
	for _, c := range cfgs {
		probe := vNewRunner(out, c, vTotal{true, 1 << 34})
		limit, spike := probe.limit, probe.spike
		soft := limit - spike
		pool := []uint64{0, soft - 1, soft, soft + 1, soft + (limit-soft)/2, limit - 1, limit, limit + 1, ^uint64(0)}
		r2s := pool
		if !full {
			r2s = []uint64{soft - 1, soft, limit}
		}
		for _, prev := range []bool{false, true} {
			for _, r1 := range pool {
				for _, r2 := range r2s {
					for _, em := range []int64{0, 1, 3} { // 30 s < hard; hard < 1.5 min < soft; 3.5 min > both
						x := vNewRunner(out, c, vTotal{true, 1 << 34})
						prime := uint64(0)
						if prev {
							prime = soft
						}
						x.step(prime, prime, int64(30*time.Second))
						x.step(r1, r2, em*vMin+int64(30*time.Second))
						out.Case(true, x.term())
						out.Stat("run.grid_histories", 1)
					}
				}
			}
		}
	}
}

// ---- CLife -----------------------------------------------------------------------------------------
type vLifeRes struct {
	term    string
	oracles [][3]string
	stats   map[string]int
}

func vClosed(ch chan struct{}) bool {
	select {
	case <-ch:
		return true
	default:
		return false
	}
}

// vChecking: do periodic checks happen right now?  Positive answers are polled for (generous
// deadline), a negative answer is "at most one check in the window".
func vChecking(cnt *atomic.Int64, expectHint bool, afterRestart ...bool) bool {
	c0 := cnt.Load()
	window := 15 * time.Millisecond
	if expectHint {
		window = 5 * time.Second
		if len(afterRestart) > 0 && afterRestart[0] {
			// regression region of the repaired defect C18-RESTART: still >1000 ticker periods, but a
			// tree that reverts the fix does not cost 5 s per operation
			window = 1500 * time.Millisecond
		}
	}
	dl := time.Now().Add(window)
	for time.Now().Before(dl) {
		if cnt.Load() >= c0+2 {
			return true
		}
		time.Sleep(200 * time.Microsecond)
	}
	return cnt.Load() >= c0+2
}

func vLifeOne(ops []bool) vLifeRes {
	res := vLifeRes{stats: map[string]int{}}
	c := &Config{CheckInterval: time.Millisecond, MemoryLimitMiB: 100, MemorySpikeLimitMiB: 10}
	ml, err := NewMemoryLimiter(c, zap.NewNop())
	if err != nil {
		panic(err)
	}
	var cnt atomic.Int64
	ml.readMemStatsFn = func(ms *runtime.MemStats) { cnt.Add(1); ms.Alloc = 0 }
	ml.runGCFn = func() {}
	users, restarts := 0, 0
	everStopped := false
	var opsT, obsT []string
	for _, start := range ops {
		var e error
		if start {
			if users == 0 && everStopped {
				restarts++
			}
			e = vWithCtx(func(cx context.Context) error { return ml.Start(cx, nil) })
			users++
			if e != nil {
				res.oracles = append(res.oracles, [3]string{"start-returns-error", "", e.Error()})
			}
		} else {
			e = vWithCtx(func(cx context.Context) error { return ml.Shutdown(cx) })
			if (e != nil) != (users == 0) || (e != nil && !errors.Is(e, ErrShutdownNotStarted)) {
				res.oracles = append(res.oracles, [3]string{"shutdown-error-iff-not-started", "", fmt.Sprintf("users=%d err=%v", users, e)})
			}
			if e == nil {
				users--
				if users == 0 {
					everStopped = true
				}
			}
		}
		ml.refCounterLock.Lock()
		rc := ml.refCounter
		gor := ml.closed != nil && !vClosed(ml.closed)
		ml.refCounterLock.Unlock()
		// hint = what the specification expects, used only to choose the polling window
		checking := vChecking(&cnt, users > 0, restarts > 0)
		opsT = append(opsT, vBool(start))
		obsT = append(obsT, fmt.Sprintf("(%s, %s, %s, %s)", vBool(e != nil), vZ(int64(rc)), vBool(gor), vBool(checking)))
		switch {
		case users == 0 && checking:
			res.oracles = append(res.oracles, [3]string{"checker-runs-without-users", "", fmt.Sprintf("users=%d restarts=%d", users, restarts)})
		case users > 0 && !checking && restarts == 0:
			res.oracles = append(res.oracles, [3]string{"checker-stopped-with-users", "", fmt.Sprintf("users=%d restarts=%d", users, restarts)})
		case users > 0 && !checking:
			res.oracles = append(res.oracles, [3]string{"checker-dead-after-restart", "", fmt.Sprintf("users=%d restarts=%d checking=0", users, restarts)})
			res.stats["life.restart_regression_failures"]++
		}
		if rc != users {
			res.oracles = append(res.oracles, [3]string{"refcount", "", fmt.Sprintf("users=%d refCounter=%d", users, rc)})
		}
		if start {
			res.stats["life.start"]++
		} else if e != nil {
			res.stats["life.shutdown_not_started"]++
		} else {
			res.stats["life.shutdown"]++
		}
	}
	for k := 0; k < 64 && vWithCtx(func(cx context.Context) error { return ml.Shutdown(cx) }) == nil; k++ { // clean up whatever is still running
	}
	ml.ticker.Stop()
	res.term = fmt.Sprintf("(CLife %s %s)", vList(opsT), vList(obsT))
	for i := range res.oracles {
		res.oracles[i][1] = res.term
	}
	if restarts > 0 {
		res.stats["life.sequences_with_restart"]++
	}
	res.stats["life.sequences"]++
	return res
}

func vLifeCases(out *vOut, r *vRand) {
	maxLen := 6
	switch vTier() {
	case "thorough", "search":
		maxLen = 8
	}
	var seqs [][]bool
	for l := 1; l <= maxLen; l++ {
		for m := 0; m < 1<<uint(l); m++ {
			s := make([]bool, l)
			for k := range s {
				s[k] = m&(1<<uint(k)) != 0
			}
			seqs = append(seqs, s)
		}
	}
	// a few longer random scripts, biased towards keeping users (no full shutdown)
	for i := 0; i < vBudget(12, 8); i++ {
		l := 9 + r.Intn(12)
		s := make([]bool, l)
		for k := range s {
			s[k] = r.Intn(100) < 58
		}
		s[0] = true
		seqs = append(seqs, s)
	}
	results := make([]vLifeRes, len(seqs))
	var wg sync.WaitGroup
	sem := make(chan struct{}, 8)
	for i := range seqs {
		wg.Add(1)
		sem <- struct{}{}
		go func(i int) {
			defer wg.Done()
			defer func() { <-sem }()
			defer func() {
				if e := recover(); e != nil {
					results[i] = vLifeRes{term: fmt.Sprintf("(CLife %s [])", vBoolList(seqs[i])), stats: map[string]int{"life.panics": 1},
						oracles: [][3]string{{"implementation-panics", fmt.Sprintf("(CLife %s [])", vBoolList(seqs[i])), fmt.Sprint(e)}}}
				}
			}()
			results[i] = vLifeOne(seqs[i])
		}(i)
	}
	wg.Wait()
	for i, res := range results {
		nt := false
		for _, b := range seqs[i] {
			nt = nt || b
		}
		out.Case(nt, res.term)
		for _, o := range res.oracles {
			out.Oracle(o[0], o[1], o[2])
		}
		for k, v := range res.stats {
			out.Stat(k, v)
		}
	}
}

// ---- concurrent Start/Shutdown + the ticker-driven check really toggles MustRefuse ---------------
func vLifeConcurrent(out *vOut, r *vRand) {
	rounds := vBudget(6, 10)
	for i := 0; i < rounds; i++ {
		c := &Config{CheckInterval: time.Millisecond, MemoryLimitMiB: 100, MemorySpikeLimitMiB: 10}
		ml, err := NewMemoryLimiter(c, zap.NewNop())
		if err != nil {
			panic(err)
		}
		var cnt atomic.Int64
		var alloc atomic.Uint64
		ml.readMemStatsFn = func(ms *runtime.MemStats) { cnt.Add(1); ms.Alloc = alloc.Load() }
		ml.runGCFn = func() {}
		nusers := 2 + r.Intn(7)
		// one keeper holds the limiter running while the others come and go concurrently
		if e := vWithCtx(func(cx context.Context) error { return ml.Start(cx, nil) }); e != nil {
			out.Oracle("start-returns-error", "concurrent", e.Error())
		}
		var wg sync.WaitGroup
		var nerr atomic.Int64
		for u := 0; u < nusers; u++ {
			wg.Add(1)
			go func() {
				defer wg.Done()
				if vWithCtx(func(cx context.Context) error { return ml.Start(cx, nil) }) != nil {
					nerr.Add(1)
				}
				runtime.Gosched()
				if vWithCtx(func(cx context.Context) error { return ml.Shutdown(cx) }) != nil {
					nerr.Add(1)
				}
			}()
		}
		wg.Wait()
		detail := fmt.Sprintf("concurrent users=%d errors=%d refCounter=%d", nusers, nerr.Load(), ml.refCounter)
		if nerr.Load() != 0 || ml.refCounter != 1 {
			out.Oracle("refcount", "concurrent", detail)
		}
		if !vChecking(&cnt, true) {
			out.Oracle("checker-stopped-with-users", "concurrent", detail)
		}
		// the periodic check itself: usage at the soft limit => refusing; below => accepting
		soft := ml.usageChecker.memAllocLimit - ml.usageChecker.memSpikeLimit
		for _, want := range []bool{true, false, true} {
			if want {
				alloc.Store(soft)
			} else {
				alloc.Store(soft - 1)
			}
			dl := time.Now().Add(10 * time.Second)
			for ml.MustRefuse() != want && time.Now().Before(dl) {
				time.Sleep(200 * time.Microsecond)
			}
			if ml.MustRefuse() != want {
				out.Oracle("ticker-check-updates-refuse", "concurrent", fmt.Sprintf("want refuse=%v after 10s", want))
			}
		}
		if e := vWithCtx(func(cx context.Context) error { return ml.Shutdown(cx) }); e != nil {
			out.Oracle("shutdown-error-iff-not-started", "concurrent", "keeper: "+e.Error())
		}
		if vChecking(&cnt, false) {
			out.Oracle("checker-runs-without-users", "concurrent", detail)
		}
		if e := vWithCtx(func(cx context.Context) error { return ml.Shutdown(cx) }); !errors.Is(e, ErrShutdownNotStarted) {
			out.Oracle("shutdown-error-iff-not-started", "concurrent", fmt.Sprintf("extra shutdown: %v", e))
		}
		out.Stat("life.concurrent_rounds", 1)
	}
}

// ---- CSys: the limiter as a whole, driven by its REAL ticker ------------------------------------------
//   ops: SStart | SShutdown | STick (mkTick 0 0 r r) = "usage becomes r, then wait for a periodic
//   check that has seen it" | SQuery = MustRefuse().  Minimum GC intervals are one hour, so no GC is
//   ever due and repeated checks with the same reading are idempotent.  A tick is observed as
//   delivered when two further readMemStats calls happened (then one complete check has read r).
type vSysRes struct {
	term    string
	nt      bool
	oracles [][3]string
	stats   map[string]int
}

func vSysOne(seed uint64, avoidRestart bool) vSysRes {
	r := vNewRand(seed)
	res := vSysRes{stats: map[string]int{}}
	c := &Config{CheckInterval: time.Millisecond, MinGCIntervalWhenSoftLimited: time.Hour, MinGCIntervalWhenHardLimited: time.Hour}
	c.MemoryLimitMiB = uint32(2 + r.Intn(2000))
	if r.Bool() {
		c.MemorySpikeLimitMiB = 1 + uint32(r.Intn(int(c.MemoryLimitMiB-1)))
	}
	ml, err := NewMemoryLimiter(c, zap.NewNop())
	if err != nil {
		panic(err)
	}
	var cnt, gcs atomic.Int64
	var alloc atomic.Uint64
	ml.readMemStatsFn = func(ms *runtime.MemStats) { cnt.Add(1); ms.Alloc = alloc.Load() }
	ml.runGCFn = func() { gcs.Add(1) }
	limit, spike := ml.usageChecker.memAllocLimit, ml.usageChecker.memSpikeLimit
	soft := limit - spike
	pool := []uint64{soft - 1, soft, soft + 1, limit - 1, limit, limit + 1, 0, ^uint64(0), soft / 2}
	users, restarts := 0, 0
	everStopped := false
	var ops, obs []string
	nops := 4 + r.Intn(11)
	for k := 0; k < nops; k++ {
		kind := r.Pick(25, 20, 40, 15)
		if avoidRestart && kind == 1 && users == 1 && r.Bool() { // some scripts keep their users longer
			kind = 2
		}
		if users == 0 && !everStopped && r.Intn(100) < 50 {
			kind = 0
		}
		switch kind {
		case 0, 1:
			var e error
			if kind == 0 {
				if users == 0 && everStopped {
					restarts++
				}
				e = vWithCtx(func(cx context.Context) error { return ml.Start(cx, nil) })
				users++
				ops = append(ops, "SStart")
			} else {
				e = vWithCtx(func(cx context.Context) error { return ml.Shutdown(cx) })
				if (e != nil) != (users == 0) {
					res.oracles = append(res.oracles, [3]string{"shutdown-error-iff-not-started", "", fmt.Sprintf("users=%d err=%v", users, e)})
				}
				if e == nil {
					users--
					if users == 0 {
						everStopped = true
					}
				}
				ops = append(ops, "SShutdown")
			}
			obs = append(obs, "SLifeRes "+vBool(e != nil))
		case 2:
			rd := pool[r.Intn(len(pool))]
			before := ml.MustRefuse()
			prev := alloc.Load()
			alloc.Store(rd)
			g0 := gcs.Load()
			ticked := vChecking(&cnt, users > 0, restarts > 0)
			if !ticked {
				// an undelivered tick must leave no trace: a checker started LATER would otherwise read this
				// value on its own (the model's STick is a no-op without a running checker)
				alloc.Store(prev)
			}
			refuse := ml.MustRefuse()
			ops = append(ops, fmt.Sprintf("STick (mkTick 0%%Z 0%%Z %s %s)", vU(rd), vU(rd)))
			if ticked {
				obs = append(obs, fmt.Sprintf("STicked %s %d", vBool(refuse), gcs.Load()-g0))
				res.nt = true
				res.stats["sys.tick_delivered"]++
			} else {
				obs = append(obs, "SNoTick")
				res.stats["sys.tick_not_delivered"]++
			}
			detail := fmt.Sprintf("users=%d restarts=%d reading=%d soft=%d ticked=%v refuse=%v", users, restarts, rd, soft, ticked, refuse)
			switch {
			case users > 0 && restarts == 0 && !ticked:
				res.oracles = append(res.oracles, [3]string{"checker-stopped-with-users", "", detail})
			case users > 0 && ticked && refuse != (rd >= soft):
				res.oracles = append(res.oracles, [3]string{"refuse-iff-soft", "", detail})
			case users == 0 && ticked:
				res.oracles = append(res.oracles, [3]string{"checker-runs-without-users", "", detail})
			case users == 0 && refuse != before:
				res.oracles = append(res.oracles, [3]string{"mode-changed-without-users", "", detail})
			case users > 0 && restarts > 0 && !ticked:
				res.oracles = append(res.oracles, [3]string{"checker-dead-after-restart", "", fmt.Sprintf("users=%d restarts=%d checking=0", users, restarts)})
				res.stats["sys.restart_regression_failures"]++
			}
		default:
			ops = append(ops, "SQuery")
			obs = append(obs, "SQueried "+vBool(ml.MustRefuse()))
		}
	}
	for k := 0; k < 64 && vWithCtx(func(cx context.Context) error { return ml.Shutdown(cx) }) == nil; k++ {
	}
	ml.ticker.Stop()
	res.term = fmt.Sprintf("(CSys %s None %s %s)", vCfg(c), vList(ops), vList(obs))
	for i := range res.oracles {
		res.oracles[i][1] = res.term
	}
	res.stats["sys.scripts"]++
	if restarts > 0 {
		res.stats["sys.scripts_with_restart"]++
	}
	return res
}

func vSysCases(out *vOut, r *vRand, n int) {
	seeds := make([]uint64, n)
	avoid := make([]bool, n)
	for i := range seeds {
		seeds[i] = r.U64()
		avoid[i] = r.Intn(100) < 40
	}
	results := make([]vSysRes, n)
	var wg sync.WaitGroup
	sem := make(chan struct{}, 8)
	for i := range seeds {
		wg.Add(1)
		sem <- struct{}{}
		go func(i int) {
			defer wg.Done()
			defer func() { <-sem }()
			defer func() {
				if e := recover(); e != nil {
					results[i] = vSysRes{term: "(CSys (mkConfig 0%Z 0%Z 0%Z 0%Z 0%Z 0%Z 0%Z) None [] [SNoTick])", stats: map[string]int{"sys.panics": 1},
						oracles: [][3]string{{"implementation-panics", fmt.Sprintf("(CSys script seed %d)", seeds[i]), fmt.Sprint(e)}}}
				}
			}()
			results[i] = vSysOne(seeds[i], avoid[i])
		}(i)
	}
	wg.Wait()
	for _, res := range results {
		out.Case(res.nt, res.term)
		for _, o := range res.oracles {
			out.Oracle(o[0], o[1], o[2])
		}
		for k, v := range res.stats {
			out.Stat(k, v)
		}
	}
}

// ---- CFine: checks that take time ---------------------------------------------------------------------
// The limiter runs on its real 1 ms ticker.  readMemStatsFn is a gate: normally a check passes
// through with the reading of the last completed check (idempotent: minimum GC intervals are one
// hour), but the harness can HOLD the next check inside CheckMemLimits (FBegin r), do Start /
// Shutdown / MustRefuse while it is in flight, and release it with reading r (FEnd).  The LAST
// Shutdown must wait for a check in flight: the harness calls it on a goroutine, requires that it
// has NOT returned after 30 ms while the check is held, releases the check and requires that the
// check's result is stored when Shutdown returns and that nothing changes afterwards.
type vGate struct {
	mu        sync.Mutex
	hold      bool
	cur       uint64 // reading of pass-through checks (= the last completed held check's)
	pending   uint64 // reading of the check to be held
	inGC      bool   // variant "slow forced GC": hold the check inside runGCFn (if it forces one) instead of the first reading
	soft      uint64
	holdGC    bool
	skipCount bool
	heldCh    chan struct{}
	release   chan uint64
	entries   atomic.Int64 // checks begun (first readings)
	inside    atomic.Int64 // goroutines currently inside readMemStatsFn / runGCFn
	overlap   atomic.Int64 // times a second goroutine was seen inside at the same moment
}

func (g *vGate) enter() {
	if g.inside.Add(1) > 1 {
		g.overlap.Add(1)
	}
}
func (g *vGate) leave() { g.inside.Add(-1) }

func (g *vGate) read(ms *runtime.MemStats) {
	g.enter()
	defer g.leave()
	g.mu.Lock()
	if g.skipCount { // the re-reading after the held GC: same check
		g.skipCount = false
		cur := g.cur
		g.mu.Unlock()
		ms.Alloc = cur
		return
	}
	h := g.hold
	g.hold = false
	cur, pending := g.cur, g.pending
	viaGC := h && g.inGC && pending >= g.soft
	if viaGC {
		g.holdGC = true
	}
	g.mu.Unlock()
	g.entries.Add(1)
	switch {
	case viaGC:
		ms.Alloc = pending // at/above the soft limit with zero intervals: a GC is forced, the check is held there
	case h:
		g.heldCh <- struct{}{}
		ms.Alloc = <-g.release
	default:
		ms.Alloc = cur
	}
}

func (g *vGate) gc() {
	g.enter()
	defer g.leave()
	g.mu.Lock()
	h := g.holdGC
	g.holdGC = false
	g.mu.Unlock()
	if h {
		g.heldCh <- struct{}{}
		<-g.release
		g.mu.Lock()
		g.skipCount = true
		g.mu.Unlock()
	}
}

type vFineRes struct {
	term    string
	nt      bool
	oracles [][3]string
	stats   map[string]int
}

func vFineOne(seed uint64) vFineRes {
	r := vNewRand(seed)
	res := vFineRes{stats: map[string]int{}}
	c := &Config{CheckInterval: time.Millisecond, MinGCIntervalWhenSoftLimited: time.Hour, MinGCIntervalWhenHardLimited: time.Hour}
	inGC := r.Intn(3) == 0
	if inGC { // no minimum interval: every check at/above the soft limit forces a GC; the check is held inside it
		c.MinGCIntervalWhenSoftLimited, c.MinGCIntervalWhenHardLimited = 0, 0
		res.stats["fine.scripts_holding_in_gc"]++
	}
	c.MemoryLimitMiB = uint32(2 + r.Intn(2000))
	if r.Bool() {
		c.MemorySpikeLimitMiB = 1 + uint32(r.Intn(int(c.MemoryLimitMiB-1)))
	}
	ml, err := NewMemoryLimiter(c, zap.NewNop())
	if err != nil {
		panic(err)
	}
	limit, spike := ml.usageChecker.memAllocLimit, ml.usageChecker.memSpikeLimit
	soft := limit - spike
	g := &vGate{heldCh: make(chan struct{}, 1), release: make(chan uint64, 1), inGC: inGC, soft: soft}
	ml.readMemStatsFn = g.read
	ml.runGCFn = g.gc
	pool := []uint64{soft - 1, soft, soft + 1, limit, 0, ^uint64(0)}
	users := 0
	held := false
	var heldR uint64
	var ops, obs []string
	bad := func(kind, detail string) { res.oracles = append(res.oracles, [3]string{kind, "", detail}) }
	nops := 5 + r.Intn(12)
	for k := 0; k < nops; k++ {
		kind := r.Pick(22, 26, 26, 16, 10) // Start, Shutdown, Begin, End, Query
		if users == 0 && r.Intn(100) < 60 {
			kind = 0
		}
		if kind == 2 && held {
			kind = 1 // a check is in flight: rather shut down / start / end around it
		}
		if kind == 3 && !held && r.Intn(4) != 0 {
			kind = 2
		}
		switch kind {
		case 0:
			e := vWithCtx(func(cx context.Context) error { return ml.Start(cx, nil) })
			users++
			ops = append(ops, "FStart")
			obs = append(obs, fmt.Sprintf("FLifeRes %s None", vBool(e != nil)))
		case 1:
			last := users == 1
			completed := "None"
			var e error
			if last && held {
				res.stats["fine.last_shutdown_with_check_in_flight"]++
				before := ml.MustRefuse()
				done := make(chan error, 1)
				go func() { done <- vWithCtx(func(cx context.Context) error { return ml.Shutdown(cx) }) }()
				early := false
				select {
				case e = <-done:
					early = true
					bad("last-shutdown-returned-while-check-in-flight", fmt.Sprintf("users=%d held_reading=%d soft=%d", users, heldR, soft))
				case <-time.After(30 * time.Millisecond):
				}
				g.mu.Lock()
				g.cur = heldR
				g.mu.Unlock()
				g.release <- heldR
				if !early {
					select {
					case e = <-done:
					case <-time.After(10 * time.Second):
						panic("verif: last Shutdown did not return after the check in flight was released")
					}
				}
				atReturn := ml.MustRefuse()
				time.Sleep(5 * time.Millisecond)
				after := ml.MustRefuse()
				if early && after != before || atReturn != after {
					bad("state-changed-after-last-shutdown", fmt.Sprintf("before=%v at_return=%v later=%v held_reading=%d soft=%d", before, atReturn, after, heldR, soft))
				}
				if after != (heldR >= soft) {
					bad("check-in-flight-result-lost", fmt.Sprintf("refuse=%v held_reading=%d soft=%d", after, heldR, soft))
				}
				completed = "(Some " + vBool(atReturn) + ")"
				held = false
				res.nt = true
			} else {
				e = vWithCtx(func(cx context.Context) error { return ml.Shutdown(cx) })
			}
			if (e != nil) != (users == 0) {
				bad("shutdown-error-iff-not-started", fmt.Sprintf("users=%d err=%v", users, e))
			}
			if e == nil {
				users--
			}
			if users == 0 && e == nil { // stopped: no further memory reading may begin
				e0 := g.entries.Load()
				time.Sleep(4 * time.Millisecond)
				if g.entries.Load() != e0 {
					bad("checker-runs-without-users", fmt.Sprintf("users=0 restarts=0 reads_after_last_shutdown=%d", g.entries.Load()-e0))
				}
			}
			ops = append(ops, "FShutdown")
			obs = append(obs, fmt.Sprintf("FLifeRes %s %s", vBool(e != nil), completed))
		case 2: // FBegin: hold the next check (not generated while one is held)
			rd := pool[r.Intn(len(pool))]
			g.mu.Lock()
			g.hold = true
			g.pending = rd
			g.mu.Unlock()
			window := 15 * time.Millisecond
			if users > 0 {
				window = 5 * time.Second
			}
			begun := false
			select {
			case <-g.heldCh:
				begun = true
			case <-time.After(window):
				g.mu.Lock()
				g.hold = false
				g.holdGC = false
				g.mu.Unlock()
				select { // it may have slipped in just now
				case <-g.heldCh:
					begun = true
				default:
				}
			}
			ops = append(ops, fmt.Sprintf("FBegin (mkTick 0%%Z 0%%Z %s %s)", vU(rd), vU(rd)))
			if begun {
				held, heldR = true, rd
				obs = append(obs, "FBegun")
				res.stats["fine.check_held"]++
			} else {
				obs = append(obs, "FNotBegun")
				res.stats["fine.check_not_begun"]++
			}
			if begun != (users > 0) {
				bad(map[bool]string{true: "checker-runs-without-users", false: "checker-stopped-with-users"}[begun], fmt.Sprintf("users=%d restarts=0 begun=%v", users, begun))
			}
		case 3: // FEnd
			ops = append(ops, "FEnd")
			if !held {
				obs = append(obs, "FNoEnd")
				break
			}
			g.mu.Lock()
			g.cur = heldR
			g.mu.Unlock()
			e0 := g.entries.Load()
			g.release <- heldR
			dl := time.Now().Add(5 * time.Second) // the next check begins => the released one is complete
			for g.entries.Load() == e0 && time.Now().Before(dl) {
				time.Sleep(100 * time.Microsecond)
			}
			refuse := ml.MustRefuse()
			if g.entries.Load() == e0 {
				bad("checker-stopped-with-users", fmt.Sprintf("users=%d restarts=0 no check after a released one", users))
			} else if refuse != (heldR >= soft) {
				bad("refuse-iff-soft", fmt.Sprintf("limit=%d spike=%d r1=%d refuse=%v (released check)", limit, spike, heldR, refuse))
			}
			obs = append(obs, "FEnded "+vBool(refuse))
			held = false
			res.nt = true
		default:
			ops = append(ops, "FQuery")
			obs = append(obs, "FQueried "+vBool(ml.MustRefuse()))
		}
	}
	if held { // let the goroutine go before cleaning up
		g.mu.Lock()
		g.cur = heldR
		g.mu.Unlock()
		g.release <- heldR
	}
	for k := 0; k < 64 && vWithCtx(func(cx context.Context) error { return ml.Shutdown(cx) }) == nil; k++ {
	}
	ml.ticker.Stop()
	res.term = fmt.Sprintf("(CFine %s None %s %s)", vCfg(c), vList(ops), vList(obs))
	if n := g.overlap.Load(); n > 0 { // single checker goroutine: CheckMemLimits never runs concurrently with itself
		bad("concurrent-checks", fmt.Sprintf("%d overlapping entries into readMemStatsFn/runGCFn", n))
	}
	for i := range res.oracles {
		res.oracles[i][1] = res.term
	}
	res.stats["fine.scripts"]++
	return res
}

func vFineCases(out *vOut, r *vRand, n int) {
	seeds := make([]uint64, n)
	for i := range seeds {
		seeds[i] = r.U64()
	}
	results := make([]vFineRes, n)
	var wg sync.WaitGroup
	sem := make(chan struct{}, 8)
	for i := range seeds {
		wg.Add(1)
		sem <- struct{}{}
		go func(i int) {
			defer wg.Done()
			defer func() { <-sem }()
			defer func() {
				if e := recover(); e != nil {
					results[i] = vFineRes{term: "(CFine (mkConfig 0%Z 0%Z 0%Z 0%Z 0%Z 0%Z 0%Z) None [] [FNoEnd])", stats: map[string]int{"fine.panics": 1},
						oracles: [][3]string{{"implementation-panics", fmt.Sprintf("(CFine script seed %d)", seeds[i]), fmt.Sprint(e)}}}
				}
			}()
			results[i] = vFineOne(seeds[i])
		}(i)
	}
	wg.Wait()
	for _, res := range results {
		out.Case(res.nt, res.term)
		for _, o := range res.oracles {
			out.Oracle(o[0], o[1], o[2])
		}
		for k, v := range res.stats {
			out.Stat(k, v)
		}
	}
}

// ---- CCtxLife: Start with a context that ends LATER (while other users are still running) -----------
//   ops: CStart i (a fresh cancellable context i, alternately with a deadline) | CShutdown | CCtxEnd i
//   (cancel context i / wait for its deadline); observation per op as in CLife.
func vCtxLifeOne(seed uint64) vLifeRes {
	r := vNewRand(seed)
	res := vLifeRes{stats: map[string]int{}}
	c := &Config{CheckInterval: time.Millisecond, MemoryLimitMiB: 100, MemorySpikeLimitMiB: 10}
	ml, err := NewMemoryLimiter(c, zap.NewNop())
	if err != nil {
		panic(err)
	}
	var cnt atomic.Int64
	ml.readMemStatsFn = func(ms *runtime.MemStats) { cnt.Add(1); ms.Alloc = 0 }
	ml.runGCFn = func() {}
	type cctx struct {
		ctx    context.Context
		cancel func()
		ended  bool
	}
	var ctxs []*cctx
	users, restarts := 0, 0
	everStopped := false
	var opsT, obsT []string
	nops := 3 + r.Intn(10)
	for k := 0; k < nops; k++ {
		kind := r.Pick(35, 25, 40)
		if users == 0 && r.Bool() {
			kind = 0
		}
		live := -1
		for i, x := range ctxs {
			if !x.ended && (live < 0 || r.Bool()) {
				live = i
			}
		}
		if kind == 2 && live < 0 {
			kind = 0
		}
		var e error
		switch kind {
		case 0:
			x := &cctx{}
			if len(ctxs)%2 == 0 {
				x.ctx, x.cancel = context.WithCancel(context.Background())
			} else {
				x.ctx, x.cancel = context.WithTimeout(context.Background(), time.Hour)
			}
			ctxs = append(ctxs, x)
			if users == 0 && everStopped {
				restarts++
			}
			e = ml.Start(x.ctx, nil)
			users++
			opsT = append(opsT, fmt.Sprintf("CStart %d", len(ctxs)-1))
			res.stats["ctxlife.start"]++
		case 1:
			e = vWithCtx(func(cx context.Context) error { return ml.Shutdown(cx) })
			if (e != nil) != (users == 0) {
				res.oracles = append(res.oracles, [3]string{"shutdown-error-iff-not-started", "", fmt.Sprintf("users=%d err=%v", users, e)})
			}
			if e == nil {
				users--
				if users == 0 {
					everStopped = true
				}
			}
			opsT = append(opsT, "CShutdown")
		default:
			ctxs[live].cancel()
			<-ctxs[live].ctx.Done()
			ctxs[live].ended = true
			opsT = append(opsT, fmt.Sprintf("CCtxEnd %d", live))
			res.stats["ctxlife.context_ended_with_users_"+strconv.FormatBool(users > 0)]++
		}
		ml.refCounterLock.Lock()
		rc := ml.refCounter
		gor := ml.closed != nil && !vClosed(ml.closed)
		ml.refCounterLock.Unlock()
		checking := vChecking(&cnt, users > 0, restarts > 0)
		obsT = append(obsT, fmt.Sprintf("(%s, %s, %s, %s)", vBool(e != nil), vZ(int64(rc)), vBool(gor), vBool(checking)))
		switch {
		case users == 0 && checking:
			res.oracles = append(res.oracles, [3]string{"checker-runs-without-users", "", fmt.Sprintf("users=%d restarts=%d", users, restarts)})
		case users > 0 && !checking:
			res.oracles = append(res.oracles, [3]string{"checker-stopped-with-users", "", fmt.Sprintf("users=%d restarts=%d after %s", users, restarts, opsT[len(opsT)-1])})
		}
	}
	for k := 0; k < 64 && ml.Shutdown(context.Background()) == nil; k++ {
	}
	ml.ticker.Stop()
	for _, x := range ctxs {
		x.cancel()
	}
	res.term = fmt.Sprintf("(CCtxLife %s %s)", vList(opsT), vList(obsT))
	for i := range res.oracles {
		res.oracles[i][1] = res.term
	}
	res.stats["ctxlife.scripts"]++
	return res
}

func vCtxLifeCases(out *vOut, r *vRand, n int) {
	seeds := make([]uint64, n)
	for i := range seeds {
		seeds[i] = r.U64()
	}
	results := make([]vLifeRes, n)
	var wg sync.WaitGroup
	sem := make(chan struct{}, 8)
	for i := range seeds {
		wg.Add(1)
		sem <- struct{}{}
		go func(i int) {
			defer wg.Done()
			defer func() { <-sem }()
			defer func() {
				if e := recover(); e != nil {
					results[i] = vLifeRes{term: "(CCtxLife [] [])", stats: map[string]int{"ctxlife.panics": 1},
						oracles: [][3]string{{"implementation-panics", fmt.Sprintf("(CCtxLife script seed %d)", seeds[i]), fmt.Sprint(e)}}}
				}
			}()
			results[i] = vCtxLifeOne(seeds[i])
		}(i)
	}
	wg.Wait()
	for _, res := range results {
		out.Case(true, res.term)
		for _, o := range res.oracles {
			out.Oracle(o[0], o[1], o[2])
		}
		for k, v := range res.stats {
			out.Stat(k, v)
		}
	}
}

// vWitnessReplay replays the recorded Coq witnesses on the implementation: limits_wellformed_refuted
// (Proofs.v wrap_cfg / wrap_total: 2 % / 1 % of 2^63 bytes) — the limit wraps to 0, the spike does
// not, and a terabyte of usage is not refused.  (The restart sequence [Start; Shutdown; Start] of the
// repaired defect C18-RESTART is part of the exhaustive CLife enumeration: a regression input.)
func vDefaultConfigCase(out *vOut) {
	d := NewDefaultConfig()
	out.Case(true, fmt.Sprintf("(CDefault %s)", vCfg(d)))
	if d.Validate() == nil {
		out.Oracle("validate-accepts-bad-config", fmt.Sprintf("(CDefault %s)", vCfg(d)), "the default configuration (no limit, no check interval) is accepted")
	}
}

func vWitnessReplay(out *vOut) {
	c := &Config{CheckInterval: time.Second, MemoryLimitPercentage: 2, MemorySpikePercentage: 1}
	total := vTotal{true, 1 << 63}
	class := vValidateClass(c.Validate())
	ml, outcome := vNew(c, total, zap.NewNop())
	if ml == nil {
		out.Oracle("witness-replay", "limits_wellformed_refuted", "limiter not built")
		return
	}
	ml.ticker.Stop()
	out.Case(true, fmt.Sprintf("(CConfig %s %s %d %d (Some %s))", vCfg(c), total, class, outcome,
		vPair(vU(ml.usageChecker.memAllocLimit), vU(ml.usageChecker.memSpikeLimit))))
	ml.readMemStatsFn = func(ms *runtime.MemStats) { ms.Alloc = 1000000000000 }
	gcs := 0
	ml.runGCFn = func() { gcs++ }
	set := time.Now().Add(-30 * time.Second)
	ml.lastGCDone = set
	ml.CheckMemLimits()
	out.Case(true, fmt.Sprintf("(CRun %s %s [(30000000000%%Z, 1000000000000%%Z, 1000000000000%%Z)] [(%s, %d, %s, [])])",
		vCfg(c), total, vBool(ml.MustRefuse()), gcs, vBool(!ml.lastGCDone.Equal(set))))
	if class == 0 && ml.usageChecker.memAllocLimit == 0 && ml.usageChecker.memSpikeLimit == 92233720368547758 && !ml.MustRefuse() {
		out.Stat("witness.limits_wellformed_refuted_reproduced", 1)
	} else {
		out.Stat("witness.limits_wellformed_refuted_not_reproduced", 1)
	}
}

// vFocus: the check driver found (coq/C18/Diff.v) an argument on which a function translated from the
// current source differs from its specification twin; run the implementation on a history that uses it.
//   VERIF_FOCUS = "soft:<limit MiB>,<spike MiB>,<reading>" | "cfg:<check>,<soft>,<hard>,<limit MiB>,<spike MiB>,<limit %>,<spike %>[,<total>]"
func vFocus(out *vOut, focus string) {
	kind, rest, _ := strings.Cut(focus, ":")
	var v []int64
	for _, f := range strings.Split(rest, ",") {
		n, err := strconv.ParseInt(strings.TrimSpace(f), 10, 64)
		if err != nil {
			panic("verif: bad VERIF_FOCUS " + focus)
		}
		v = append(v, n)
	}
	switch kind {
	case "soft":
		c := &Config{CheckInterval: time.Hour, MinGCIntervalWhenSoftLimited: time.Hour, MinGCIntervalWhenHardLimited: time.Hour,
			MemoryLimitMiB: uint32(v[0]), MemorySpikeLimitMiB: uint32(v[1])}
		x := vNewRunner(out, c, vTotal{false, 0})
		if x == nil {
			out.Oracle("focus", focus, "no limiter")
			return
		}
		x.step(uint64(v[2]), uint64(v[2]), int64(30*time.Second)) // oracle refuse-iff-soft inside
		out.Case(true, x.term())
	case "cfg":
		c := &Config{CheckInterval: time.Duration(v[0]), MinGCIntervalWhenSoftLimited: time.Duration(v[1]), MinGCIntervalWhenHardLimited: time.Duration(v[2]),
			MemoryLimitMiB: uint32(v[3]), MemorySpikeLimitMiB: uint32(v[4]), MemoryLimitPercentage: uint32(v[5]), MemorySpikePercentage: uint32(v[6])}
		total := vTotal{true, 1 << 34}
		if len(v) > 7 {
			total.v = uint64(v[7])
		}
		vOneConfigCase(out, c, total)
	default:
		panic("verif: bad VERIF_FOCUS " + focus)
	}
}

func TestVerifC18(t *testing.T) {
	out := vOpen()
	defer out.Close()
	if f := os.Getenv("VERIF_FOCUS"); f != "" {
		vFocus(out, f)
		return
	}
	vWitnessReplay(out)
	vDefaultConfigCase(out)
	vConfigCases(out, vNewRand(1801), vBudget(350, 20))
	vRunCases(out, vNewRand(1802), vBudget(350, 20))
	vRunGrid(out)
	vLifeCases(out, vNewRand(1803))
	vLifeConcurrent(out, vNewRand(1804))
	vSysCases(out, vNewRand(1805), vBudget(80, 15))
	vFineCases(out, vNewRand(1806), vBudget(80, 15))
	vCtxLifeCases(out, vNewRand(1807), vBudget(60, 15))
}

// TestVerifC18Race is run under the race detector (separate harness entry): the concurrent parts
// only — users starting/stopping concurrently, periodic checks on the real ticker with checks held
// in flight, and readers of MustRefuse running against the checker goroutine.  A data race in the
// implementation fails the test (reported as a broken harness run).
func TestVerifC18Race(t *testing.T) {
	out := vOpen()
	defer out.Close()
	vLifeConcurrent(out, vNewRand(1841))
	vFineCases(out, vNewRand(1842), vBudget(24, 10))
	// readers vs. the single writer
	c := &Config{CheckInterval: time.Millisecond, MemoryLimitMiB: 100, MemorySpikeLimitMiB: 10}
	ml, err := NewMemoryLimiter(c, zap.NewNop())
	if err != nil {
		t.Fatal(err)
	}
	var alloc atomic.Uint64
	ml.readMemStatsFn = func(ms *runtime.MemStats) { ms.Alloc = alloc.Load() }
	ml.runGCFn = func() {}
	soft := ml.usageChecker.memAllocLimit - ml.usageChecker.memSpikeLimit
	_ = vWithCtx(func(cx context.Context) error { return ml.Start(cx, nil) })
	var wg sync.WaitGroup
	stop := make(chan struct{})
	var seenTrue, seenFalse atomic.Int64
	for w := 0; w < 4; w++ {
		wg.Add(1)
		go func() {
			defer wg.Done()
			for {
				select {
				case <-stop:
					return
				default:
				}
				if ml.MustRefuse() {
					seenTrue.Add(1)
				} else {
					seenFalse.Add(1)
				}
				runtime.Gosched()
			}
		}()
	}
	for k := 0; k < 40; k++ {
		if k%2 == 0 {
			alloc.Store(soft + 1)
		} else {
			alloc.Store(0)
		}
		time.Sleep(3 * time.Millisecond)
	}
	close(stop)
	wg.Wait()
	_ = vWithCtx(func(cx context.Context) error { return ml.Shutdown(cx) })
	out.Stat("race.readers_saw_refusing", int(seenTrue.Load()))
	out.Stat("race.readers_saw_accepting", int(seenFalse.Load()))
}
