// C18 correspondence harness for internal/memorylimiter (injected by overlay; package-internal).
//
// Case terms (Coq type vcase, see coq/C18/Harness.v):
//   CConfig cfg total verr outcome chk    Validate() class, outcome of NewMemoryLimiter, usage checker
//   CRun    cfg total ticks obs           scripted CheckMemLimits history on a REAL MemoryLimiter:
//                                         tick = (virtual now, first reading, reading after a GC);
//                                         obs  = (MustRefuse, #runGCFn calls, lastGCDone rewritten,
//                                                 GC marker 0 + log lines >= Info in order)
//   CLife   ops obs                       Start(true)/Shutdown(false) script; obs = (error, refCounter,
//                                         monitoring goroutine exists, periodic checks observed)
// The clock: lastGCDone is rewritten before every check to time.Now() - elapsed, elapsed = k min + 30 s,
// all intervals are whole minutes (or the default 10 s), so the implementation's time.Since comparison
// has a margin of >= 20 s in both directions.
//
// Direct oracle (independent of the Coq model): the property's iff on the scripted readings, GC only
// when due / always when due / at most once, lastGCDone updated exactly on GC, well-formed limits for
// validated configurations, reference counting and checker lifetime.
package memorylimiter

import (
	"context"
	"errors"
	"fmt"
	"math/big"
	"runtime"
	"strconv"
	"strings"
	"sync"
	"sync/atomic"
	"testing"
	"time"

	"go.uber.org/zap"
	"go.uber.org/zap/zapcore"
)

// ---- a zap core that records the limiter's log lines (>= Info) as event codes ------------------
type vLogCore struct {
	mu *sync.Mutex
	ev *[]int
}

func (c vLogCore) Enabled(l zapcore.Level) bool       { return l >= zapcore.InfoLevel }
func (c vLogCore) With([]zapcore.Field) zapcore.Core { return c }
func (c vLogCore) Check(e zapcore.Entry, ce *zapcore.CheckedEntry) *zapcore.CheckedEntry {
	if c.Enabled(e.Level) {
		return ce.AddCore(e, c)
	}
	return ce
}
func (c vLogCore) Sync() error { return nil }
func (c vLogCore) Write(e zapcore.Entry, _ []zapcore.Field) error {
	code := 9
	switch e.Message {
	case "Memory usage back within limits. Resuming normal operation.":
		code = 1
	case "Memory usage is above hard limit. Forcing a GC.":
		code = 2
	case "Memory usage is above soft limit. Forcing a GC.":
		code = 3
	case "Memory usage after GC.":
		code = 4
	case "Memory usage is above soft limit. Refusing data.":
		code = 5
	}
	// the level is part of the observable: Warn for 2 and 5, Info for the others
	wantWarn := code == 2 || code == 5
	if code != 9 && (e.Level == zapcore.WarnLevel) != wantWarn {
		code += 10
	}
	c.mu.Lock()
	*c.ev = append(*c.ev, code)
	c.mu.Unlock()
	return nil
}

// ---- Coq printers --------------------------------------------------------------------------------
func vU(n uint64) string { return strconv.FormatUint(n, 10) + "%Z" }

func vCfg(c *Config) string {
	return fmt.Sprintf("(mkConfig %s %s %s %s %s %s %s)", vZ(int64(c.CheckInterval)), vZ(int64(c.MinGCIntervalWhenSoftLimited)),
		vZ(int64(c.MinGCIntervalWhenHardLimited)), vU(uint64(c.MemoryLimitMiB)), vU(uint64(c.MemorySpikeLimitMiB)),
		vU(uint64(c.MemoryLimitPercentage)), vU(uint64(c.MemorySpikePercentage)))
}

type vTotal struct {
	ok bool
	v  uint64
}

func (t vTotal) String() string {
	if !t.ok {
		return "None"
	}
	return "(Some " + vU(t.v) + ")"
}

func vInts(xs []int) string {
	it := make([]string, len(xs))
	for i, x := range xs {
		it[i] = strconv.Itoa(x)
	}
	return "[" + strings.Join(it, "; ") + "]"
}

// ---- generators ----------------------------------------------------------------------------------
const vMin = int64(time.Minute)

func vGenTotal(r *vRand) vTotal {
	switch r.Pick(4, 10, 40, 16, 10) {
	case 0:
		return vTotal{false, 0}
	case 1:
		return vTotal{true, []uint64{0, 1, 99, 100, 101, 1000, 4096}[r.Intn(7)]}
	case 2:
		return vTotal{true, (uint64(1) << (20 + uint(r.Intn(28)))) + uint64(r.Intn(3))*uint64(r.Intn(1<<20))}
	case 3:
		edge := ^uint64(0) / 100 // largest t with 100*t < 2^64
		return vTotal{true, []uint64{edge - 1, edge, edge + 1, edge + 2, 1 << 57, (1 << 57) - 1, 1 << 62, 1 << 63, ^uint64(0), ^uint64(0) / 3}[r.Intn(10)]}
	}
	return vTotal{true, r.U64()}
}

func vGenIntervals(r *vRand, c *Config, valid bool) {
	if r.Intn(8) == 0 { // the documented defaults
		c.MinGCIntervalWhenSoftLimited = 10 * time.Second
		c.MinGCIntervalWhenHardLimited = 0
	} else {
		h := []int64{-5, 0, 0, 0, 1, 2, 5}[r.Intn(7)]
		s := h + []int64{0, 0, 1, 3, 10}[r.Intn(5)]
		c.MinGCIntervalWhenHardLimited = time.Duration(h * vMin)
		c.MinGCIntervalWhenSoftLimited = time.Duration(s * vMin)
	}
	if !valid && r.Intn(5) == 0 {
		c.MinGCIntervalWhenSoftLimited = c.MinGCIntervalWhenHardLimited - time.Duration((1+int64(r.Intn(3)))*vMin)
	}
}

// vGenConfig: valid = aimed at being accepted by Validate (not guaranteed; the class is observed).
func vGenConfig(r *vRand, valid bool) *Config {
	c := &Config{CheckInterval: time.Hour}
	if !valid && r.Intn(4) == 0 {
		c.CheckInterval = []time.Duration{0, -1, -time.Hour}[r.Intn(3)]
	}
	vGenIntervals(r, c, valid)
	mode := r.Pick(50, 35, 15) // fixed, percentage, both
	if mode == 0 || mode == 2 {
		lim := []uint32{1, 2, 5, 6, 10, 100, 1000, 4095, 1 << 31, ^uint32(0), uint32(1 + r.Intn(1<<16))}[r.Intn(11)]
		c.MemoryLimitMiB = lim
		switch r.Pick(30, 50, 10, 10) {
		case 0:
			c.MemorySpikeLimitMiB = 0
		case 1:
			if lim > 1 {
				c.MemorySpikeLimitMiB = 1 + uint32(r.U64()%uint64(lim-1))
			}
		case 2:
			c.MemorySpikeLimitMiB = lim - 1
		case 3:
			if !valid {
				c.MemorySpikeLimitMiB = lim + uint32(r.Intn(3)) // == limit, or above (may wrap to 0/1 at 2^32-1)
				if c.MemorySpikeLimitMiB < lim && r.Bool() {
					c.MemorySpikeLimitMiB = ^uint32(0)
				}
			}
		}
	}
	if mode == 1 || mode == 2 {
		lp := uint32(1 + r.Intn(100))
		if r.Intn(6) == 0 {
			lp = 100
		}
		c.MemoryLimitPercentage = lp
		switch r.Pick(30, 50, 10, 10) {
		case 0:
			c.MemorySpikePercentage = 0
		case 1:
			if lp > 1 {
				c.MemorySpikePercentage = 1 + uint32(r.Intn(int(lp-1)))
			}
		case 2:
			c.MemorySpikePercentage = lp - 1
		case 3:
			if !valid {
				c.MemorySpikePercentage = lp + uint32(r.Intn(3))
			}
		}
		if !valid && r.Intn(5) == 0 {
			c.MemoryLimitPercentage = 101 + uint32(r.Intn(200))
		}
		if !valid && r.Intn(8) == 0 {
			c.MemorySpikePercentage = 101 + uint32(r.Intn(200))
		}
	}
	if !valid && r.Intn(6) == 0 {
		c.MemoryLimitMiB, c.MemoryLimitPercentage = 0, 0
	}
	return c
}

func vValidateClass(err error) int {
	switch {
	case err == nil:
		return 0
	case errors.Is(err, errCheckIntervalOutOfRange):
		return 1
	case errors.Is(err, errInconsistentGCMinInterval):
		return 2
	case errors.Is(err, errLimitOutOfRange):
		return 3
	case errors.Is(err, errLimitPercentageOutOfRange):
		return 4
	case errors.Is(err, errSpikeLimitOutOfRange):
		return 5
	case errors.Is(err, errSpikeLimitPercentageOutOfRange):
		return 6
	}
	return 99
}

// vNew calls NewMemoryLimiter under recover: outcome 0 = error, 1 = panic, 2 = ok.
func vNew(c *Config, total vTotal, logger *zap.Logger) (ml *MemoryLimiter, outcome int) {
	saved := GetMemoryFn
	defer func() { GetMemoryFn = saved }()
	GetMemoryFn = func() (uint64, error) {
		if !total.ok {
			return 0, errors.New("verif: no total memory")
		}
		return total.v, nil
	}
	defer func() {
		if recover() != nil {
			ml, outcome = nil, 1
		}
	}()
	m, err := NewMemoryLimiter(c, logger)
	if err != nil {
		return nil, 0
	}
	return m, 2
}

// ---- CConfig ---------------------------------------------------------------------------------------
func vConfigCases(out *vOut, r *vRand, n int) {
	two64 := new(big.Int).Lsh(big.NewInt(1), 64)
	for i := 0; i < n; i++ {
		valid := r.Intn(100) < 70
		c := vGenConfig(r, valid)
		total := vGenTotal(r)
		class := vValidateClass(c.Validate())
		ml, outcome := vNew(c, total, zap.NewNop())
		chk := "None"
		if ml != nil {
			ml.ticker.Stop()
			chk = "(Some " + vPair(vU(ml.usageChecker.memAllocLimit), vU(ml.usageChecker.memSpikeLimit)) + ")"
		}
		term := fmt.Sprintf("CConfig %s %s %d %d %s", vCfg(c), total, class, outcome, chk)
		out.Case(outcome == 2, term)
		out.Stat(fmt.Sprintf("config.validate_class_%d", class), 1)
		out.Stat(fmt.Sprintf("config.new_outcome_%d", outcome), 1)
		if c.MemoryLimitMiB != 0 {
			out.Stat("config.mode_fixed", 1)
		} else {
			out.Stat("config.mode_percentage", 1)
		}
		// direct oracle: a validated configuration (percentage mode: 100*total < 2^64) gives
		// spike <= limit, limit/spike equal to the unbounded-integer values, default spike = limit/5
		if class == 0 {
			if outcome == 1 {
				out.Oracle("validated-config-panics", term, "NewMemoryLimiter panicked on a validated configuration")
			}
			if outcome == 0 && (c.MemoryLimitMiB != 0 || total.ok) {
				out.Oracle("validated-config-rejected", term, "NewMemoryLimiter failed although total memory is known")
			}
		}
		if class == 0 && ml != nil {
			lim, spike := new(big.Int), new(big.Int)
			inScope := true
			if c.MemoryLimitMiB != 0 {
				lim.Mul(big.NewInt(int64(c.MemoryLimitMiB)), big.NewInt(1<<20))
				spike.Mul(big.NewInt(int64(c.MemorySpikeLimitMiB)), big.NewInt(1<<20))
			} else {
				t := new(big.Int).SetUint64(total.v)
				if new(big.Int).Mul(t, big.NewInt(100)).Cmp(two64) >= 0 {
					inScope = false
					out.Stat("config.percentage_total_beyond_2^64/100", 1)
				}
				lim.Div(new(big.Int).Mul(t, big.NewInt(int64(c.MemoryLimitPercentage))), big.NewInt(100))
				spike.Div(new(big.Int).Mul(t, big.NewInt(int64(c.MemorySpikePercentage))), big.NewInt(100))
			}
			if spike.Sign() == 0 {
				spike.Div(lim, big.NewInt(5))
				out.Stat("config.default_spike", 1)
			}
			if inScope {
				gl, gs := new(big.Int).SetUint64(ml.usageChecker.memAllocLimit), new(big.Int).SetUint64(ml.usageChecker.memSpikeLimit)
				if gl.Cmp(lim) != 0 || gs.Cmp(spike) != 0 || gs.Cmp(gl) > 0 {
					out.Oracle("limits-wellformed", term, fmt.Sprintf("limit=%s spike=%s expected limit=%s spike=%s", gl, gs, lim, spike))
				}
			}
		}
	}
}

// ---- CRun ------------------------------------------------------------------------------------------
func vReadingPool(r *vRand, limit, spike uint64) []uint64 {
	soft := limit - spike
	p := []uint64{soft - 1, soft, soft + 1, limit - 1, limit, limit + 1, 0, ^uint64(0), soft / 2, r.U64()}
	if soft < limit {
		p = append(p, soft+r.U64()%(limit-soft), soft+(limit-soft)/2)
	}
	if soft > 0 {
		p = append(p, r.U64()%soft, r.U64()%soft)
	}
	return p
}

func vRunCases(out *vOut, r *vRand, n int) {
	for i := 0; i < n; i++ {
		valid := r.Intn(100) < 85
		c := vGenConfig(r, valid)
		c.CheckInterval = time.Hour // never ticks; the limiter is not started either
		total := vGenTotal(r)
		if r.Intn(4) != 0 && total.ok && total.v > ^uint64(0)/100 {
			total.v = uint64(1) << (24 + uint(r.Intn(20)))
		}
		var mu sync.Mutex
		var ev []int
		logger := zap.New(vLogCore{&mu, &ev})
		ml, outcome := vNew(c, total, logger)
		if outcome != 2 {
			out.Stat("run.no_limiter", 1)
			continue
		}
		ml.ticker.Stop()
		limit, spike := ml.usageChecker.memAllocLimit, ml.usageChecker.memSpikeLimit
		noWrap := spike <= limit
		hi, si := int64(c.MinGCIntervalWhenHardLimited), int64(c.MinGCIntervalWhenSoftLimited)
		var r1, r2 uint64
		reads, gcs := 0, 0
		ml.readMemStatsFn = func(ms *runtime.MemStats) {
			if reads == 0 {
				ms.Alloc = r1
			} else {
				ms.Alloc = r2
			}
			reads++
		}
		ml.runGCFn = func() {
			gcs++
			mu.Lock()
			ev = append(ev, 0)
			mu.Unlock()
		}
		nticks := 1 + r.Intn(20)
		var ticks, obs []string
		var lastGCv, elapsedMin int64 // virtual clock: construction at 0
		for k := 0; k < nticks; k++ {
			pool := vReadingPool(r, limit, spike)
			r1, r2 = pool[r.Intn(len(pool))], pool[r.Intn(len(pool))]
			if r.Intn(3) == 0 && r2 > r1 { // a GC usually frees memory
				r1, r2 = r2, r1
			}
			cands := []int64{elapsedMin, elapsedMin, elapsedMin + 1, hi/vMin - 1, hi / vMin, hi/vMin + 1, si/vMin - 1, si / vMin, si/vMin + 1, si/vMin + 5}
			t := cands[r.Intn(len(cands))]
			if t < elapsedMin {
				t = elapsedMin
			}
			elapsedMin = t
			elapsed := elapsedMin*vMin + int64(30*time.Second)
			now := lastGCv + elapsed
			set := time.Now().Add(-time.Duration(elapsed))
			ml.lastGCDone = set
			reads, gcs = 0, 0
			mu.Lock()
			ev = ev[:0]
			mu.Unlock()
			before := ml.MustRefuse()
			ml.CheckMemLimits()
			refuse := ml.MustRefuse()
			rewritten := !ml.lastGCDone.Equal(set)
			mu.Lock()
			evs := append([]int(nil), ev...)
			mu.Unlock()
			ticks = append(ticks, fmt.Sprintf("(%s, %s, %s)", vZ(now), vU(r1), vU(r2)))
			obs = append(obs, fmt.Sprintf("(%s, %d, %s, %s)", vBool(refuse), gcs, vBool(rewritten), vInts(evs)))
			// ---- direct oracle
			soft := limit - spike
			sev := "below"
			due := false
			if r1 >= soft {
				sev = "soft"
				due = elapsed > si
				if r1 >= limit {
					sev = "hard"
					due = elapsed > hi
				}
			}
			out.Stat("run.first_reading_"+sev, 1)
			out.Stat(fmt.Sprintf("run.gc_calls_%d", gcs), 1)
			if before != refuse {
				out.Stat(fmt.Sprintf("run.mode_switch_to_%v", refuse), 1)
			}
			detail := fmt.Sprintf("limit=%d spike=%d r1=%d r2=%d elapsed=%d soft_int=%d hard_int=%d gcs=%d refuse=%v", limit, spike, r1, r2, elapsed, si, hi, gcs, refuse)
			cterm := fmt.Sprintf("CRun %s %s %s %s", vCfg(c), total, vList(ticks), vList(obs))
			if noWrap {
				final := r1
				if gcs > 0 {
					final = r2
				}
				if refuse != (final >= soft) {
					out.Oracle("refuse-iff-soft", cterm, detail)
				}
				if gcs > 0 && !due {
					out.Oracle("gc-when-not-due", cterm, detail)
				}
				if gcs == 0 && due {
					out.Oracle("gc-missing-when-due", cterm, detail)
				}
			} else {
				out.Stat("run.wrapped_soft_limit_checks", 1)
			}
			if gcs > 1 {
				out.Oracle("gc-more-than-once", cterm, detail)
			}
			if rewritten != (gcs > 0) {
				out.Oracle("lastgc-update", cterm, detail+fmt.Sprintf(" rewritten=%v", rewritten))
			}
			if gcs > 0 {
				lastGCv = now
				elapsedMin = 0
			}
		}
		out.Case(true, fmt.Sprintf("CRun %s %s %s %s", vCfg(c), total, vList(ticks), vList(obs)))
		out.Stat("run.histories", 1)
		out.Stat("run.checks", nticks)
	}
}

// ---- CLife -----------------------------------------------------------------------------------------
type vLifeRes struct {
	term    string
	oracles [][3]string
	stats   map[string]int
}

func vClosed(ch chan struct{}) bool {
	select {
	case <-ch:
		return true
	default:
		return false
	}
}

// vChecking: do periodic checks happen right now?  Positive answers are polled for (generous
// deadline), a negative answer is "at most one check in the window".
func vChecking(cnt *atomic.Int64, expectHint bool) bool {
	c0 := cnt.Load()
	window := 15 * time.Millisecond
	if expectHint {
		window = 5 * time.Second
	}
	dl := time.Now().Add(window)
	for time.Now().Before(dl) {
		if cnt.Load() >= c0+2 {
			return true
		}
		time.Sleep(200 * time.Microsecond)
	}
	return cnt.Load() >= c0+2
}

func vLifeOne(ops []bool) vLifeRes {
	res := vLifeRes{stats: map[string]int{}}
	c := &Config{CheckInterval: time.Millisecond, MemoryLimitMiB: 100, MemorySpikeLimitMiB: 10}
	ml, err := NewMemoryLimiter(c, zap.NewNop())
	if err != nil {
		panic(err)
	}
	var cnt atomic.Int64
	ml.readMemStatsFn = func(ms *runtime.MemStats) { cnt.Add(1); ms.Alloc = 0 }
	ml.runGCFn = func() {}
	users, restarts := 0, 0
	everStopped := false
	var opsT, obsT []string
	for _, start := range ops {
		var e error
		if start {
			if users == 0 && everStopped {
				restarts++
			}
			e = ml.Start(context.Background(), nil)
			users++
			if e != nil {
				res.oracles = append(res.oracles, [3]string{"start-returns-error", "", e.Error()})
			}
		} else {
			e = ml.Shutdown(context.Background())
			if (e != nil) != (users == 0) || (e != nil && !errors.Is(e, ErrShutdownNotStarted)) {
				res.oracles = append(res.oracles, [3]string{"shutdown-error-iff-not-started", "", fmt.Sprintf("users=%d err=%v", users, e)})
			}
			if e == nil {
				users--
				if users == 0 {
					everStopped = true
				}
			}
		}
		ml.refCounterLock.Lock()
		rc := ml.refCounter
		gor := ml.closed != nil && !vClosed(ml.closed)
		ml.refCounterLock.Unlock()
		// hint = what the specification expects, used only to choose the polling window
		checking := vChecking(&cnt, users > 0 && restarts == 0)
		opsT = append(opsT, vBool(start))
		obsT = append(obsT, fmt.Sprintf("(%s, %s, %s, %s)", vBool(e != nil), vZ(int64(rc)), vBool(gor), vBool(checking)))
		switch {
		case users == 0 && checking:
			res.oracles = append(res.oracles, [3]string{"checker-runs-without-users", "", fmt.Sprintf("users=%d restarts=%d", users, restarts)})
		case users > 0 && !checking && restarts == 0:
			res.oracles = append(res.oracles, [3]string{"checker-stopped-with-users", "", fmt.Sprintf("users=%d restarts=%d", users, restarts)})
		case users > 0 && !checking:
			res.oracles = append(res.oracles, [3]string{"checker-dead-after-restart", "", fmt.Sprintf("users=%d restarts=%d checking=0", users, restarts)})
			res.stats["life.known_region_restart_ops"]++
		}
		if rc != users {
			res.oracles = append(res.oracles, [3]string{"refcount", "", fmt.Sprintf("users=%d refCounter=%d", users, rc)})
		}
		if start {
			res.stats["life.start"]++
		} else if e != nil {
			res.stats["life.shutdown_not_started"]++
		} else {
			res.stats["life.shutdown"]++
		}
	}
	for ml.Shutdown(context.Background()) == nil { // clean up whatever is still running
	}
	ml.ticker.Stop()
	res.term = fmt.Sprintf("CLife %s %s", vList(opsT), vList(obsT))
	for i := range res.oracles {
		res.oracles[i][1] = res.term
	}
	if restarts > 0 {
		res.stats["life.sequences_with_restart"]++
	}
	res.stats["life.sequences"]++
	return res
}

func vLifeCases(out *vOut, r *vRand) {
	maxLen := 6
	switch vTier() {
	case "thorough", "search":
		maxLen = 8
	}
	var seqs [][]bool
	for l := 1; l <= maxLen; l++ {
		for m := 0; m < 1<<uint(l); m++ {
			s := make([]bool, l)
			for k := range s {
				s[k] = m&(1<<uint(k)) != 0
			}
			seqs = append(seqs, s)
		}
	}
	// a few longer random scripts, biased towards keeping users (no full shutdown)
	for i := 0; i < vBudget(12, 8); i++ {
		l := 9 + r.Intn(12)
		s := make([]bool, l)
		for k := range s {
			s[k] = r.Intn(100) < 58
		}
		s[0] = true
		seqs = append(seqs, s)
	}
	results := make([]vLifeRes, len(seqs))
	var wg sync.WaitGroup
	sem := make(chan struct{}, 8)
	for i := range seqs {
		wg.Add(1)
		sem <- struct{}{}
		go func(i int) {
			defer wg.Done()
			defer func() { <-sem }()
			results[i] = vLifeOne(seqs[i])
		}(i)
	}
	wg.Wait()
	for i, res := range results {
		nt := false
		for _, b := range seqs[i] {
			nt = nt || b
		}
		out.Case(nt, res.term)
		for _, o := range res.oracles {
			out.Oracle(o[0], o[1], o[2])
		}
		for k, v := range res.stats {
			out.Stat(k, v)
		}
	}
}

// ---- concurrent Start/Shutdown + the ticker-driven check really toggles MustRefuse ---------------
func vLifeConcurrent(out *vOut, r *vRand) {
	rounds := vBudget(6, 10)
	for i := 0; i < rounds; i++ {
		c := &Config{CheckInterval: time.Millisecond, MemoryLimitMiB: 100, MemorySpikeLimitMiB: 10}
		ml, err := NewMemoryLimiter(c, zap.NewNop())
		if err != nil {
			panic(err)
		}
		var cnt atomic.Int64
		var alloc atomic.Uint64
		ml.readMemStatsFn = func(ms *runtime.MemStats) { cnt.Add(1); ms.Alloc = alloc.Load() }
		ml.runGCFn = func() {}
		nusers := 2 + r.Intn(7)
		// one keeper holds the limiter running while the others come and go concurrently
		if e := ml.Start(context.Background(), nil); e != nil {
			out.Oracle("start-returns-error", "concurrent", e.Error())
		}
		var wg sync.WaitGroup
		var nerr atomic.Int64
		for u := 0; u < nusers; u++ {
			wg.Add(1)
			go func() {
				defer wg.Done()
				if ml.Start(context.Background(), nil) != nil {
					nerr.Add(1)
				}
				runtime.Gosched()
				if ml.Shutdown(context.Background()) != nil {
					nerr.Add(1)
				}
			}()
		}
		wg.Wait()
		detail := fmt.Sprintf("concurrent users=%d errors=%d refCounter=%d", nusers, nerr.Load(), ml.refCounter)
		if nerr.Load() != 0 || ml.refCounter != 1 {
			out.Oracle("refcount", "concurrent", detail)
		}
		if !vChecking(&cnt, true) {
			out.Oracle("checker-stopped-with-users", "concurrent", detail)
		}
		// the periodic check itself: usage at the soft limit => refusing; below => accepting
		soft := ml.usageChecker.memAllocLimit - ml.usageChecker.memSpikeLimit
		for _, want := range []bool{true, false, true} {
			if want {
				alloc.Store(soft)
			} else {
				alloc.Store(soft - 1)
			}
			dl := time.Now().Add(10 * time.Second)
			for ml.MustRefuse() != want && time.Now().Before(dl) {
				time.Sleep(200 * time.Microsecond)
			}
			if ml.MustRefuse() != want {
				out.Oracle("ticker-check-updates-refuse", "concurrent", fmt.Sprintf("want refuse=%v after 10s", want))
			}
		}
		if e := ml.Shutdown(context.Background()); e != nil {
			out.Oracle("shutdown-error-iff-not-started", "concurrent", "keeper: "+e.Error())
		}
		if vChecking(&cnt, false) {
			out.Oracle("checker-runs-without-users", "concurrent", detail)
		}
		if e := ml.Shutdown(context.Background()); !errors.Is(e, ErrShutdownNotStarted) {
			out.Oracle("shutdown-error-iff-not-started", "concurrent", fmt.Sprintf("extra shutdown: %v", e))
		}
		out.Stat("life.concurrent_rounds", 1)
	}
}

func TestVerifC18(t *testing.T) {
	out := vOpen()
	defer out.Close()
	vConfigCases(out, vNewRand(1801), vBudget(350, 20))
	vRunCases(out, vNewRand(1802), vBudget(350, 20))
	vLifeCases(out, vNewRand(1803))
	vLifeConcurrent(out, vNewRand(1804))
}
