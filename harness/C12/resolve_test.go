// C12 correspondence harness for confmap (injected by overlay; package-internal).
//
// Drives the REAL Resolver (NewResolver + Resolve) with map-backed providers and records, per case,
//
//	cfg  = (default scheme, registered schemes, provider table keyed by "scheme:opaque")
//	srcs = the source values (also reachable as provider entries "src:<i>")
//	obs  = error class | (unsanitised tree, ToStringMap(), Unmarshal of every top-level key into a
//	       string / int / []string / map[string]string field)
//
// as a Coq term of type C12.Harness.wcase.  Three generated families:
//
//	tok   well-formed token strings (Lit | Esc | Dollar | Ref) over reference-free providers: the DIRECT
//	      ORACLE is a token-level reference interpreter written here (independent of the Coq model);
//	wild  grammar soup: runs of $, nested / adjacent / repeated / escaped references, unterminated ${,
//	      stray }, bad schemes, $ in names, provider errors, typed values, provider values that contain
//	      references again, reference cycles (1 reference per cycle member: linear growth only);
//	merge 1-4 nested source maps with nils, lists, empty maps: DIRECT ORACLE = right-biased merge
//	      written here.
//
// Keys never contain the "::" delimiter (koanf flatten/unflatten is outside the model).
package confmap

import (
	"context"
	"errors"
	"fmt"
	"math"
	"os"
	"os/exec"
	"reflect"
	"regexp"
	"runtime"
	"sort"
	"strconv"
	"strings"
	"sync/atomic"
	"syscall"
	"testing"
	"time"
)

// ---- providers -----------------------------------------------------------------------------------
type vEntry struct {
	err    bool
	raw    any
	str    string
	hasStr bool
	// text: the provider's own text (the YAML bytes it was given), nil when the entry was built from a Go value;
	// the direct oracles use THIS, never the string representation read back from the Retrieved
	text *string
}

// the text of an entry as the oracles see it
func (e *vEntry) oracleText() (string, bool) {
	switch {
	case e.text != nil:
		return *e.text, true
	case e.hasStr:
		return e.str, true
	}
	s, ok := e.raw.(string)
	return s, ok
}

// violations of "a provider built from text keeps that text" found while building tables (reported by the test)
var vTextLost []string

type vCfg struct {
	def     string
	schemes []string
	tbl     map[string]*vEntry
	order   []string
	// re-resolve family only: the WatcherFunc handed to the last Retrieve of each uri
	watchers map[string]WatcherFunc
}

func (c *vCfg) put(key string, e *vEntry) {
	if _, ok := c.tbl[key]; !ok {
		c.order = append(c.order, key)
	}
	c.tbl[key] = e
}

// entry built the way real providers build it: NewRetrievedFromYAML; the resulting fields are read
// back (YAML parsing is modelled, not verified: the table records what the parser produced).
func vYAML(y string) *vEntry {
	r, err := NewRetrievedFromYAML([]byte(y))
	if err != nil {
		return &vEntry{err: true}
	}
	if got, err := r.AsString(); err != nil || got != y {
		vTextLost = append(vTextLost, fmt.Sprintf("NewRetrievedFromYAML(%q).AsString() = %q, %v", y, got, err))
	}
	if !vSupported(r.rawConf) {
		return &vEntry{raw: y, str: y, hasStr: true, text: &y}
	}
	return &vEntry{raw: r.rawConf, str: r.stringRepresentation, hasStr: r.isSetString, text: &y}
}

func vSupported(v any) bool {
	switch x := v.(type) {
	case nil, bool, int, float64, string:
		return true
	case []any:
		for _, e := range x {
			if !vSupported(e) {
				return false
			}
		}
		return true
	case map[string]any:
		for _, e := range x {
			if !vSupported(e) {
				return false
			}
		}
		return true
	}
	return false
}

type vProv struct {
	scheme string
	c      *vCfg
}

func (p *vProv) Retrieve(_ context.Context, uri string, w WatcherFunc) (*Retrieved, error) {
	e, ok := p.c.tbl[uri]
	if !ok || e.err {
		return nil, errors.New("verif-provider-error " + uri)
	}
	if p.c.watchers != nil {
		p.c.watchers[uri] = w
	}
	if e.hasStr {
		return NewRetrieved(vCopy(e.raw), withStringRepresentation(e.str))
	}
	return NewRetrieved(vCopy(e.raw))
}
func (p *vProv) Scheme() string                 { return p.scheme }
func (p *vProv) Shutdown(context.Context) error { return nil }

func vCopy(v any) any {
	switch x := v.(type) {
	case []any:
		o := make([]any, len(x))
		for i, e := range x {
			o[i] = vCopy(e)
		}
		return o
	case map[string]any:
		o := make(map[string]any, len(x))
		for k, e := range x {
			o[k] = vCopy(e)
		}
		return o
	}
	return v
}

// ---- Coq term printing -----------------------------------------------------------------------------
func vW(v any) string {
	switch x := v.(type) {
	case nil:
		return "WNil"
	case bool:
		return "(WBool " + vBool(x) + ")"
	case int:
		return "(WInt " + vZ(int64(x)) + ")"
	case float64:
		return "(WFloat " + strconv.FormatUint(math.Float64bits(x), 10) + "%Z)"
	case string:
		return "(WStr " + vStr(x) + ")"
	case []any:
		it := make([]string, len(x))
		for i, e := range x {
			it[i] = vW(e)
		}
		return "(WList " + vList(it) + ")"
	case map[string]any:
		ks := make([]string, 0, len(x))
		for k := range x {
			ks = append(ks, k)
		}
		sort.Strings(ks)
		it := make([]string, len(ks))
		for i, k := range ks {
			it[i] = vPair(vStr(k), vW(x[k]))
		}
		return "(WMap " + vList(it) + ")"
	case expandedValue:
		return "(WExp " + vW(x.Value) + " " + vStr(x.Original) + ")"
	}
	panic(fmt.Sprintf("verif: value of type %T outside the wire format", v))
}

func vOptStr(s *string) string {
	if s == nil {
		return "None"
	}
	return "(Some " + vStr(*s) + ")"
}

func vCfgTerm(c *vCfg) string {
	sch := make([]string, len(c.schemes))
	for i, s := range c.schemes {
		sch[i] = vStr(s)
	}
	ent := make([]string, len(c.order))
	for i, k := range c.order {
		e := c.tbl[k]
		if e.err {
			ent[i] = vPair(vStr(k), "WPErr")
		} else if e.hasStr {
			ent[i] = vPair(vStr(k), "(WPVal "+vW(e.raw)+" (Some "+vStr(e.str)+"))")
		} else {
			ent[i] = vPair(vStr(k), "(WPVal "+vW(e.raw)+" None)")
		}
	}
	return "(" + vStr(c.def) + ", " + vList(sch) + ", " + vList(ent) + ")"
}

// ---- running the real resolver -----------------------------------------------------------------------
func vErrClass(err error) int {
	m := err.Error()
	switch {
	case errors.Is(err, errTooManyRecursiveExpansions):
		return 5
	case strings.Contains(m, "verif-provider-error"):
		return 3
	case strings.Contains(m, "contains unsupported characters"):
		return 1
	case strings.Contains(m, "invalid uri"):
		return 0
	case strings.Contains(m, "is not supported for uri"):
		return 2
	case strings.Contains(m, "does not have unambiguous string representation"):
		return 4
	case strings.Contains(m, "cannot be used as a Conf"):
		return 6
	}
	return 99
}

type vResult struct {
	conf *Conf
	err  error
}

func vSrcURIs(nsrc int) []string {
	uris := make([]string, nsrc)
	for i := range uris {
		uris[i] = "src:" + strconv.Itoa(i)
	}
	return uris
}

func vNewResolverFor(c *vCfg, uris []string) *Resolver {
	var facs []ProviderFactory
	for _, s := range c.schemes {
		s := s
		facs = append(facs, NewProviderFactory(func(ProviderSettings) Provider { return &vProv{s, c} }))
	}
	r, err := NewResolver(ResolverSettings{URIs: uris, ProviderFactories: facs, DefaultScheme: c.def})
	if err != nil {
		panic("verif: NewResolver: " + err.Error())
	}
	return r
}

func vRunResolver(r *Resolver) (res vResult, finished bool) {
	ch := make(chan vResult, 1)
	go func() {
		conf, err := r.Resolve(context.Background())
		ch <- vResult{conf, err}
	}()
	select {
	case res = <-ch:
		return res, true
	case <-time.After(120 * time.Second):
		return vResult{}, false
	}
}

// decode one top-level key into a struct{F <typ> `mapstructure:"<key>"`} with the real Conf.Unmarshal
func vDecode(conf *Conf, key string, typ reflect.Type) (reflect.Value, bool) {
	st := reflect.StructOf([]reflect.StructField{{Name: "F", Type: typ, Tag: reflect.StructTag(`mapstructure:"` + key + `"`)}})
	p := reflect.New(st)
	if err := conf.Unmarshal(p.Interface(), WithIgnoreUnused()); err != nil {
		return reflect.Value{}, false
	}
	return p.Elem().Field(0), true
}

type vDec struct {
	s  *string
	l  []string // nil = decode error
	lo bool
	m  map[string]string
	mo bool
}

func vDecTerm(conf *Conf, key string) (string, vDec) {
	var d vDec
	sTerm := "None"
	if v, ok := vDecode(conf, key, reflect.TypeOf("")); ok {
		s := v.String()
		d.s = &s
		sTerm = "(Some " + vStr(s) + ")"
	}
	iTerm := "None"
	if v, ok := vDecode(conf, key, reflect.TypeOf(int(0))); ok {
		iTerm = "(Some " + vZ(v.Int()) + ")"
	}
	lTerm := "None"
	if v, ok := vDecode(conf, key, reflect.TypeOf([]string(nil))); ok {
		it := make([]string, v.Len())
		d.l, d.lo = make([]string, v.Len()), true
		for i := range it {
			d.l[i] = v.Index(i).String()
			it[i] = vStr(d.l[i])
		}
		lTerm = "(Some " + vList(it) + ")"
	}
	mTerm := "None"
	if v, ok := vDecode(conf, key, reflect.TypeOf(map[string]string(nil))); ok {
		ks := []string{}
		d.m, d.mo = map[string]string{}, true
		for _, k := range v.MapKeys() {
			ks = append(ks, k.String())
		}
		sort.Strings(ks)
		it := make([]string, len(ks))
		for i, k := range ks {
			d.m[k] = v.MapIndex(reflect.ValueOf(k)).String()
			it[i] = vPair(vStr(k), vStr(d.m[k]))
		}
		mTerm = "(Some " + vList(it) + ")"
	}
	return "(" + vStr(key) + ", " + sTerm + ", " + iTerm + ", " + lTerm + ", " + mTerm + ")", d
}

// ---- string / int fields behind a custom confmap.Unmarshaler -----------------------------------------------------
// The clause "its original text when assigned to a string field" does not depend on WHERE the field lives: a struct
// that implements confmap.Unmarshaler (nested, or the top-level result) must receive exactly what a plain struct
// receives.  Metamorphic oracle, independent of the model.
type vCustomS struct {
	X string `mapstructure:"x"`
}

func (c *vCustomS) Unmarshal(conf *Conf) error { return conf.Unmarshal(c, WithIgnoreUnused()) }

type vCustomI struct {
	X int `mapstructure:"x"`
}

func (c *vCustomI) Unmarshal(conf *Conf) error { return conf.Unmarshal(c, WithIgnoreUnused()) }

type vPlainS struct {
	X string `mapstructure:"x"`
}

// a DEFINED string type (kind string, type != string), like configopaque.String, and a defined int type
type vNamedStr string
type vNamedInt int
type vNamedS struct {
	X vNamedStr `mapstructure:"x"`
}
type vNamedI struct {
	X vNamedInt `mapstructure:"x"`
}
type vPlainI struct {
	X int `mapstructure:"x"`
}

var vPendingDiffs []string

// the public views of a resolved Conf (ToStringMap, Get) must hold the TYPED values, never the internal
// expandedValue{Value, Original} pair
var vPendingLeaks []string

func vFindWrapper(v any, path string) string {
	switch x := v.(type) {
	case expandedValue:
		return fmt.Sprintf("%s holds the internal wrapper confmap.expandedValue{Value:%#v, Original:%q}", path, x.Value, x.Original)
	case []any:
		for i, e := range x {
			if w := vFindWrapper(e, path+"["+strconv.Itoa(i)+"]"); w != "" {
				return w
			}
		}
	case map[string]any:
		ks := make([]string, 0, len(x))
		for k := range x {
			ks = append(ks, k)
		}
		sort.Strings(ks)
		for _, k := range ks {
			if w := vFindWrapper(x[k], path+"[\""+k+"\"]"); w != "" {
				return w
			}
		}
	}
	return ""
}

func vCustomCheck(conf *Conf, key string) {
	val := conf.unsanitizedGet(key)
	flat := NewFromStringMap(map[string]any{"x": val})
	nested := NewFromStringMap(map[string]any{"c": map[string]any{"x": val}})
	show := func(v any, err error) string {
		if err != nil {
			return "<decode error>"
		}
		return fmt.Sprintf("%#v", v)
	}
	var ps vPlainS
	var cs vCustomS
	var ns struct {
		C vCustomS `mapstructure:"c"`
	}
	wantS := show(func() (any, error) { err := flat.Unmarshal(&ps, WithIgnoreUnused()); return ps.X, err }())
	if got := show(func() (any, error) { err := flat.Unmarshal(&cs, WithIgnoreUnused()); return cs.X, err }()); got != wantS {
		vPendingDiffs = append(vPendingDiffs, fmt.Sprintf("key %s: a string field of a top-level struct with a custom Unmarshaler receives %s, of a plain struct %s", key, got, wantS))
	}
	if got := show(func() (any, error) { err := nested.Unmarshal(&ns, WithIgnoreUnused()); return ns.C.X, err }()); got != wantS {
		vPendingDiffs = append(vPendingDiffs, fmt.Sprintf("key %s: a string field of a NESTED struct with a custom Unmarshaler receives %s, of a plain struct %s", key, got, wantS))
	}
	var nsd vNamedS
	if got := show(func() (any, error) { err := flat.Unmarshal(&nsd, WithIgnoreUnused()); return string(nsd.X), err }()); got != wantS {
		vPendingDiffs = append(vPendingDiffs, fmt.Sprintf("key %s: a field of a DEFINED string type (type T string) receives %s, a plain string field %s", key, got, wantS))
	}
	var sq struct {
		vCustomS `mapstructure:",squash"`
	}
	if got := show(func() (any, error) { err := flat.Unmarshal(&sq, WithIgnoreUnused()); return sq.X, err }()); got != wantS {
		vPendingDiffs = append(vPendingDiffs, fmt.Sprintf("key %s: a string field of a SQUASHED embedded struct with a custom Unmarshaler receives %s, of a plain struct %s", key, got, wantS))
	}
	var pi vPlainI
	var ni struct {
		C vCustomI `mapstructure:"c"`
	}
	wantI := show(func() (any, error) { err := flat.Unmarshal(&pi, WithIgnoreUnused()); return pi.X, err }())
	var nid vNamedI
	if got := show(func() (any, error) { err := flat.Unmarshal(&nid, WithIgnoreUnused()); return int(nid.X), err }()); got != wantI {
		vPendingDiffs = append(vPendingDiffs, fmt.Sprintf("key %s: a field of a DEFINED int type receives %s, a plain int field %s", key, got, wantI))
	}
	if got := show(func() (any, error) { err := nested.Unmarshal(&ni, WithIgnoreUnused()); return ni.C.X, err }()); got != wantI {
		vPendingDiffs = append(vPendingDiffs, fmt.Sprintf("key %s: an int field of a NESTED struct with a custom Unmarshaler receives %s, of a plain struct %s", key, got, wantI))
	}
}

type vObs struct {
	term    string
	errCode int // -1 = ok
	tsm     map[string]any
	strs    map[string]*string
	decs    map[string]vDec
	hung    bool
}

func vObserve(c *vCfg, nsrc int) vObs { return vObserveOn(vNewResolverFor(c, vSrcURIs(nsrc))) }

// a source list given by indices into the "src:<i>" entries (the same URI may be listed more than once)
func vObserveIdx(c *vCfg, idx []int) vObs {
	uris := make([]string, len(idx))
	for i, j := range idx {
		uris[i] = "src:" + strconv.Itoa(j)
	}
	return vObserveOn(vNewResolverFor(c, uris))
}

func vObserveOn(r *Resolver) vObs {
	res, fin := vRunResolver(r)
	if !fin {
		return vObs{hung: true, errCode: 98, term: "(WObsErr 98)"}
	}
	if res.err != nil {
		code := vErrClass(res.err)
		return vObs{term: "(WObsErr " + strconv.Itoa(code) + ")", errCode: code}
	}
	tree := res.conf.toStringMapWithExpand()
	tsm := res.conf.ToStringMap()
	ks := make([]string, 0, len(tree))
	for k := range tree {
		ks = append(ks, k)
	}
	sort.Strings(ks)
	dec := make([]string, len(ks))
	strs := map[string]*string{}
	decs := map[string]vDec{}
	vPendingDiffs = nil
	vPendingLeaks = nil
	if where := vFindWrapper(tsm, "ToStringMap()"); where != "" {
		vPendingLeaks = append(vPendingLeaks, where)
	}
	for _, k := range ks {
		if where := vFindWrapper(res.conf.Get(k), "Get(\""+k+"\")"); where != "" {
			vPendingLeaks = append(vPendingLeaks, where)
			break
		}
	}
	for i, k := range ks {
		var d vDec
		dec[i], d = vDecTerm(res.conf, k)
		strs[k], decs[k] = d.s, d
		vCustomCheck(res.conf, k)
	}
	return vObs{term: "(WObsOk " + vW(tree) + " " + vW(tsm) + " " + vList(dec) + ")", errCode: -1, tsm: tsm, strs: strs, decs: decs}
}

func vCaseTerm(c *vCfg, srcs []any, o vObs) string {
	it := make([]string, len(srcs))
	for i, s := range srcs {
		it[i] = vW(s)
	}
	return "(" + vCfgTerm(c) + ", " + vList(it) + ", " + o.term + ")"
}

func vNewCfg(def string, schemes ...string) *vCfg {
	return &vCfg{def: def, schemes: append([]string{"src"}, schemes...), tbl: map[string]*vEntry{}}
}

func (c *vCfg) setSources(srcs []any) {
	for i, s := range srcs {
		c.put("src:"+strconv.Itoa(i), &vEntry{raw: s})
	}
}

// ---- family 1: token strings + reference interpreter (direct oracle) ------------------------------------
type vTok struct {
	kind int // 0 Lit, 1 Esc, 2 Dollar, 3 Ref
	text string
}

const vLitAlpha = "abcxyz019 :-._{}"

func vGenLit(r *vRand, n int, noBraceFirst bool) string {
	b := make([]byte, n)
	for i := range b {
		for {
			b[i] = vLitAlpha[r.Intn(len(vLitAlpha))]
			if i == 0 && noBraceFirst && b[i] == '{' {
				continue
			}
			break
		}
	}
	return string(b)
}

// reference-free, $-free provider values for the token family
func vTokTable(r *vRand, c *vCfg) []string {
	names := []string{"A", "B", "C", "N", "E"}
	c.put("env:A", &vEntry{raw: vGenLit(r, 1+r.Intn(4), false)})
	c.put("env:B", vYAML("v"+vGenLit(r, r.Intn(3), false)))
	c.put("env:C", &vEntry{raw: vGenLit(r, 1+r.Intn(3), false)})
	c.put("env:N", vYAML(strconv.Itoa(r.Intn(1000))))
	c.put("env:E", vYAML(""))
	if c.tbl["env:B"].err || strings.ContainsAny(c.tbl["env:B"].str, "$") {
		c.put("env:B", &vEntry{raw: "vb"})
	}
	if c.def != "" && c.def != "env" { // another default scheme: the same names, answered differently
		c.put(c.def+":A", &vEntry{raw: "D" + vGenLit(r, 1+r.Intn(3), false)})
		c.put(c.def+":B", vYAML("dvb"))
		c.put(c.def+":C", &vEntry{raw: "D" + vGenLit(r, r.Intn(3), false)})
		c.put(c.def+":N", vYAML(strconv.Itoa(5000+r.Intn(1000))))
		c.put(c.def+":E", vYAML(""))
	}
	return names
}

// the default scheme of a case: none, the collector's "env", or another registered provider
func vPickDef(r *vRand) string { return []string{"", "env", "env", "alt"}[r.Intn(4)] }

func vSchemesFor(def string, more ...string) []string {
	out := append([]string{"env"}, more...)
	if def != "" && def != "env" {
		out = append(out, def)
	}
	return out
}

func vGenTokens(r *vRand, c *vCfg, names []string) []vTok {
	n := 1 + r.Intn(7)
	var ts []vTok
	for len(ts) < n {
		prevDollar := len(ts) > 0 && ts[len(ts)-1].kind == 2
		if prevDollar { // a lone $ must be followed by a non-empty literal that does not start with {
			ts = append(ts, vTok{0, vGenLit(r, 1+r.Intn(3), true)})
			continue
		}
		switch r.Pick(26, 14, 8, 40, 12) {
		case 4: // an escaped reference: "$$" then the literal text "{name}"
			ts = append(ts, vTok{1, "$$"}, vTok{0, "{env:" + names[r.Intn(len(names))] + "}"})
		case 0:
			ts = append(ts, vTok{0, vGenLit(r, 1+r.Intn(5), false)})
		case 1:
			ts = append(ts, vTok{1, "$$"})
		case 2:
			ts = append(ts, vTok{2, "$"})
		case 3:
			nm := names[r.Intn(len(names))]
			if r.Intn(3) == 0 { // no scheme: a reference under a default scheme, plain text without one
				ts = append(ts, vTok{3, nm})
			} else {
				ts = append(ts, vTok{3, "env:" + nm})
			}
		}
	}
	return ts
}

func vTokString(ts []vTok) string {
	var sb strings.Builder
	for _, t := range ts {
		if t.kind == 3 {
			sb.WriteString("${" + t.text + "}")
		} else {
			sb.WriteString(t.text)
		}
	}
	return sb.String()
}

// the reference interpreter: Lit -> itself, Esc -> "$", Dollar -> "$", Ref -> the provider's string
func vTokSem(ts []vTok, c *vCfg) (string, bool) {
	var sb strings.Builder
	hasText := false
	heavyRefs := 0
	for _, t := range ts {
		switch t.kind {
		case 0:
			sb.WriteString(t.text)
			hasText = hasText || t.text != ""
		case 1, 2:
			sb.WriteString("$")
			hasText = true
		case 3:
			key := t.text
			if !strings.Contains(key, ":") {
				if c.def == "" { // not a reference at all
					sb.WriteString("${" + key + "}")
					hasText = true
					continue
				}
				key = c.def + ":" + key
			}
			e := c.tbl[key]
			v, _ := e.oracleText()
			sb.WriteString(v)
			if v != "" {
				heavyRefs++
			}
		}
	}
	// "anchored": the string can never shrink to ONE bare reference (which would make the value typed)
	return sb.String(), hasText || heavyRefs >= 2
}

// ---- family 2: wild strings -----------------------------------------------------------------------------
const vWildAlpha = "abxy01 :-._{}"

func vChunk(r *vRand, n int) string {
	b := make([]byte, n)
	for i := range b {
		b[i] = vWildAlpha[r.Intn(len(vWildAlpha))]
	}
	return string(b)
}

// names of provider entries by level (a value of level k only references lower levels)
var vLevelNames = [][]string{
	{"A", "B", "N", "F", "T", "NIL", "M", "M2", "L", "S", "Q", "DOL", "ESC", "OB", "CL", "P", "EMP", "W", "LW", "NUL", "ZERO", "A", "B", "N", "A", "B", "S", "EMP", "ESC", "ERR", "ZZ"},
	{"R1", "R1b", "MR"},
	{"R2"},
}

func vGenName(r *vRand, c *vCfg, level int, st map[string]int) string {
	var opaque string
	lv := r.Intn(level)
	opaque = vLevelNames[lv][r.Intn(len(vLevelNames[lv]))]
	switch r.Pick(88, 2, 4, 1, 3, 2) {
	case 1:
		opaque += "$"
		st["name-with-dollar"]++
	case 2:
		opaque = "${env:P}" // nested reference: P's value is a name
		st["nested-ref"]++
	case 3:
		opaque = ""
	case 4:
		if r.Bool() {
			opaque = "CY"
		} else {
			opaque = "CA"
		}
		st["cycle-ref"]++
	case 5:
		opaque = "a:b"
	}
	switch r.Pick(60, 28, 6, 2, 1, 1, 2) {
	case 0:
		return "env:" + opaque
	case 1:
		return opaque // default scheme (or not a reference when there is none)
	case 2:
		return "file:" + opaque
	case 3:
		st["scheme-unregistered"]++
		return "no:" + opaque
	case 4:
		st["scheme-invalid"]++
		return "x:" + opaque
	case 5:
		st["scheme-invalid"]++
		return "e_v:" + opaque
	}
	return ":" + opaque
}

func vGenWild(r *vRand, c *vCfg, level int, st map[string]int) string {
	var sb strings.Builder
	n := 1 + r.Intn(5)
	if r.Intn(5) == 0 {
		n = 1
	}
	for i := 0; i < n; i++ {
		switch r.Pick(22, 6, 8, 8, 30, 10, 4, 4, 3, 5) {
		case 0:
			sb.WriteString(vChunk(r, 1+r.Intn(4)))
		case 1:
			sb.WriteString("$")
		case 2:
			sb.WriteString("$$")
		case 3:
			sb.WriteString(strings.Repeat("$", 1+r.Intn(5)))
		case 4:
			sb.WriteString("${" + vGenName(r, c, level, st) + "}")
			st["piece-ref"]++
		case 5:
			sb.WriteString(strings.Repeat("$", 1+r.Intn(4)) + "${" + vGenName(r, c, level, st) + "}")
			st["piece-dollars-then-ref"]++
		case 6:
			sb.WriteString("${" + vGenName(r, c, level, st))
			st["piece-unterminated"]++
		case 7:
			sb.WriteString("}")
		case 8:
			sb.WriteString("${env:DOL}{env:A}") // a reference formed by an expanded "$"
			st["piece-formed-ref"]++
		case 9:
			sb.WriteString("${}")
		}
	}
	return sb.String()
}

func vLevel0Text(r *vRand) string {
	var sb strings.Builder
	for i, n := 0, 1+r.Intn(3); i < n; i++ {
		switch r.Pick(60, 10, 10, 10, 10) {
		case 0:
			sb.WriteString(vChunk(r, 1+r.Intn(3)))
		case 1:
			sb.WriteString("$")
		case 2:
			sb.WriteString("$$")
		case 3:
			sb.WriteString("{")
		case 4:
			sb.WriteString("}")
		}
	}
	return sb.String()
}

func vWildTable(r *vRand, c *vCfg, st map[string]int) {
	c.put("env:A", &vEntry{raw: vLevel0Text(r)})
	c.put("env:B", vYAML("vb"))
	c.put("env:N", vYAML(strconv.Itoa(r.Intn(100))))
	c.put("env:F", vYAML("1.5"))
	c.put("env:T", vYAML("true"))
	c.put("env:NIL", vYAML(""))
	c.put("env:M", vYAML("{a: 1, b: x$$y}"))
	c.put("env:M2", &vEntry{raw: map[string]any{"a": 1, "s": "p${env:B}q", "e": map[string]any{}}})
	c.put("env:L", vYAML("[1, x, ${env:B}]"))
	c.put("env:S", &vEntry{raw: "plain"})
	c.put("env:Q", vYAML("'0123'"))
	c.put("env:DOL", &vEntry{raw: "$"})
	c.put("env:ESC", &vEntry{raw: "a$$b"})
	c.put("env:OB", &vEntry{raw: "${"})
	c.put("env:CL", &vEntry{raw: "}"})
	c.put("env:P", &vEntry{raw: "A"})
	c.put("env:ERR", &vEntry{err: true})
	c.put("env:EMP", &vEntry{raw: ""})
	c.put("env:W", &vEntry{raw: 7, str: "7$$", hasStr: true})
	c.put("env:NUL", vYAML([]string{"null", "~", "Null", "NULL"}[r.Intn(4)])) // YAML null scalars: value nil, text kept
	c.put("env:ZERO", vYAML([]string{"0", "false", "0.0", "''", "[]", "{}"}[r.Intn(6)]))
	c.put("env:LW", vYAML("[a$$b, 2]"))
	c.put("env:A$", &vEntry{raw: "never"})
	c.put("file:A", &vEntry{raw: "fa"})
	c.put("file:N", vYAML("7"))
	c.put("env:R1", &vEntry{raw: vGenWild(r, c, 1, st)})
	c.put("env:R1b", vYAML("r${env:B}"))
	c.put("env:MR", &vEntry{raw: map[string]any{"k": vGenWild(r, c, 1, st), "l": []any{"${env:N}", "z$$"}}})
	c.put("env:R2", &vEntry{raw: vGenWild(r, c, 2, st)})
	// cycles of CONSTANT size (the model runs the 10 000 rounds of the work budget on them; growing cycles are
	// exercised by the Go-only stream "growing cycles" and by the guarded doubling probe)
	c.put("env:CY", &vEntry{raw: "${env:CY}"})
	c.put("env:CA", &vEntry{raw: "${env:CB}"})
	c.put("env:CB", &vEntry{raw: "${env:CA}"})
}

func vGenValue(r *vRand, c *vCfg, depth int, st map[string]int, strGen func() string) any {
	w := []int{50, 6, 6, 4, 4, 10, 12, 4}
	if depth >= 2 {
		w[5], w[6] = 0, 0
	}
	switch r.Pick(w...) {
	case 0:
		return strGen()
	case 1:
		return r.Intn(50)
	case 2:
		return r.Bool()
	case 3:
		return 0.5 + float64(r.Intn(4))
	case 4:
		return nil
	case 5:
		n := r.Intn(3)
		l := make([]any, n)
		for i := range l {
			l[i] = vGenValue(r, c, depth+1, st, strGen)
		}
		return l
	case 6:
		n := r.Intn(3)
		m := map[string]any{}
		for i := 0; i < n; i++ {
			m["m"+strconv.Itoa(r.Intn(3))] = vGenValue(r, c, depth+1, st, strGen)
		}
		return m
	}
	return map[string]any{}
}

// ---- family 4 helpers: deep values ------------------------------------------------------------------------
type vItem struct{ text, sem string }

type vDeep struct {
	c            *vCfg
	names        []string // level 0
	l1           map[string]vItem
	ylSem, ymSem string
	ylItems      []string
	ymItems      map[string]string
	ylOK, ymOK   bool
	yeOK         bool
	yeWant       any
}

// refName: "env:X", or "X" under the default scheme
func (d *vDeep) refName(n string) string {
	if d.c.def == "env" {
		return n
	}
	return "env:" + n
}

// a level-1 entry is registered under env and under the default scheme (scheme-less references reach the latter)
func (d *vDeep) putL1(n string, it vItem) {
	d.c.put("env:"+n, &vEntry{raw: it.text})
	d.l1["env:"+n] = it
	if d.c.def != "" && d.c.def != "env" {
		d.c.put(d.c.def+":"+n, &vEntry{raw: it.text})
		d.l1[d.c.def+":"+n] = it
	}
}

func (d *vDeep) semOf(ts []vTok) string {
	var sb strings.Builder
	for _, t := range ts {
		switch t.kind {
		case 0:
			sb.WriteString(t.text)
		case 1, 2:
			sb.WriteString("$")
		case 3:
			key := t.text
			if !strings.Contains(key, ":") {
				if d.c.def == "" {
					sb.WriteString("${" + key + "}")
					continue
				}
				key = d.c.def + ":" + key
			}
			if it, ok := d.l1[key]; ok {
				sb.WriteString(it.sem)
				continue
			}
			e := d.c.tbl[key]
			v, _ := e.oracleText()
			sb.WriteString(v)
		}
	}
	return sb.String()
}

// a member: a token string that starts with a letter (so it is anchored and YAML-quotable), over the given names
func (d *vDeep) itemOver(r *vRand, names []string, must string) vItem {
	ts := []vTok{{0, string("abcxyz"[r.Intn(6)])}}
	if must != "" {
		ts = append(ts, vTok{3, must})
	}
	ts = append(ts, vGenTokens(r, d.c, names)...)
	if len(ts) > 0 && ts[len(ts)-1].kind == 2 { // a lone $ at the very end would meet the closing quote: fine, but keep it simple
		ts = append(ts, vTok{0, "e"})
	}
	return vItem{vTokString(ts), d.semOf(ts)}
}

// a member that is exactly one reference to a level-0 entry with non-empty text
func (d *vDeep) bare(r *vRand) vItem {
	n := "env:" + []string{"A", "B", "C", "N"}[r.Intn(4)]
	return vItem{"${" + n + "}", d.semOf([]vTok{{3, n}})}
}

func (d *vDeep) item(r *vRand) vItem {
	all := append(append([]string{}, d.names...), "R1", "R2")
	return d.itemOver(r, all, "")
}

func vNewDeep(r *vRand, c *vCfg) *vDeep {
	d := &vDeep{c: c, l1: map[string]vItem{}}
	d.names = vTokTable(r, c)
	for _, n := range []string{"R1", "R2"} {
		it := d.itemOver(r, d.names, "env:"+d.names[r.Intn(3)])
		it.text, it.sem = "r"+it.text+"z", "r"+it.sem+"z"
		d.putL1(n, it)
	}
	all := append(append([]string{}, d.names...), "R1", "R2")
	// YAML flow list / map of double-quoted members; member j is forced to mention a distinct name
	n := 3 + r.Intn(3)
	perm := []string{"env:A", "env:B", "env:C", "env:N", "env:R1", "env:R2"}
	for j := len(perm) - 1; j > 0; j-- {
		k := r.Intn(j + 1)
		perm[j], perm[k] = perm[k], perm[j]
	}
	var yl, ym, sl, sm []string
	d.ymItems = map[string]string{}
	for j := 0; j < n; j++ {
		it := d.itemOver(r, all, perm[j])
		if r.Intn(4) == 0 { // a member that IS one reference (typed inside the list, text for a string target)
			it = vItem{"${" + perm[j] + "}", d.semOf([]vTok{{3, perm[j]}})}
		}
		yl = append(yl, "\""+it.text+"\"")
		sl = append(sl, "\""+it.sem+"\"")
		d.ylItems = append(d.ylItems, it.sem)
		it2 := d.itemOver(r, all, perm[(j+1)%len(perm)])
		key := "f" + strconv.Itoa(j)
		ym = append(ym, "\""+key+"\": \""+it2.text+"\"")
		sm = append(sm, "\""+key+"\": \""+it2.sem+"\"")
		d.ymItems[key] = it2.sem
	}
	ylText, ymText := "["+strings.Join(yl, ", ")+"]", "{"+strings.Join(ym, ", ")+"}"
	d.ylSem, d.ymSem = "["+strings.Join(sl, ", ")+"]", "{"+strings.Join(sm, ", ")+"}"
	el, em := vYAML(ylText), vYAML(ymText)
	_, d.ylOK = el.raw.([]any)
	_, d.ymOK = em.raw.(map[string]any)
	c.put("env:YL", el)
	c.put("env:YM", em)
	mi, li := d.itemOver(r, all, ""), d.itemOver(r, all, "")
	c.put("env:MP", &vEntry{raw: map[string]any{"a": 1, "s": mi.text}})
	ee := vYAML("[\"${env:MP}\", \"" + li.text + "\"]")
	_, d.yeOK = ee.raw.([]any)
	d.yeWant = []any{map[string]any{"a": 1, "s": mi.sem}, li.sem}
	c.put("env:YE", ee)
	return d
}

// ---- family 3: merges ---------------------------------------------------------------------------------------
func vMergeOracle(dst map[string]any, src map[string]any) {
	for k, v := range src {
		sm, sok := v.(map[string]any)
		dm, dok := dst[k].(map[string]any)
		if sok && dok {
			vMergeOracle(dm, sm)
		} else {
			dst[k] = vCopy(v)
		}
	}
}

func vPlain(r *vRand) string {
	s := vGenLit(r, 1+r.Intn(3), false)
	if r.Intn(4) == 0 {
		s += "," + vGenLit(r, r.Intn(3), false)
	}
	return s
}

func vHasDollar(v any) bool {
	switch x := v.(type) {
	case string:
		return strings.Contains(x, "$")
	case []any:
		for _, e := range x {
			if vHasDollar(e) {
				return true
			}
		}
	case map[string]any:
		for _, e := range x {
			if vHasDollar(e) {
				return true
			}
		}
	}
	return false
}

// structural equality up to nil-vs-empty slice
func vEq(a, b any) bool {
	switch x := a.(type) {
	case []any:
		y, ok := b.([]any)
		if !ok || len(x) != len(y) {
			return false
		}
		for i := range x {
			if !vEq(x[i], y[i]) {
				return false
			}
		}
		return true
	case map[string]any:
		y, ok := b.(map[string]any)
		if !ok || len(x) != len(y) {
			return false
		}
		for k, e := range x {
			f, ok := y[k]
			if !ok || !vEq(e, f) {
				return false
			}
		}
		return true
	}
	return reflect.DeepEqual(a, b)
}

// ---- guarded probe of a DOUBLING reference cycle (regression of finding C12-EXPCYCLE, repaired by 536781a48) -----------------------------------
// X = "${env:X}${env:X}": every round doubles the string, so the bound of 1000 rounds would be reached only after
// 2^1000 characters.  The probe runs in a CHILD process (this test binary re-executed) under three guards: a
// watchdog that exits as soon as the Go runtime holds more than 300 MiB, RLIMIT_AS = 2 GiB, and the parent's
// deadline.  It can therefore not take the machine down.  The child is skipped unless VERIF_C12_CHILD=1.
type vCycleProv struct {
	scheme string
	rounds *int64
}

func (p vCycleProv) Retrieve(_ context.Context, uri string, _ WatcherFunc) (*Retrieved, error) {
	if uri == "env:X" {
		atomic.AddInt64(p.rounds, 1)
		return NewRetrieved("${env:X}${env:X}")
	}
	return NewRetrieved(map[string]any{"k": "${env:X}"})
}
func (p vCycleProv) Scheme() string                 { return p.scheme }
func (p vCycleProv) Shutdown(context.Context) error { return nil }

func TestVerifC12ExpCycleChild(t *testing.T) {
	if os.Getenv("VERIF_C12_CHILD") != "1" {
		t.Skip("child of TestVerifC12 only")
	}
	lim := uint64(2 << 30)
	_ = syscall.Setrlimit(syscall.RLIMIT_AS, &syscall.Rlimit{Cur: lim, Max: lim})
	var n int64
	go func() {
		var ms runtime.MemStats
		for {
			runtime.ReadMemStats(&ms)
			if ms.Sys > 300<<20 {
				fmt.Printf("\nVERIF-MEMLIMIT rounds=%d sysMiB=%d\n", atomic.LoadInt64(&n), ms.Sys>>20)
				os.Exit(3)
			}
			time.Sleep(2 * time.Millisecond)
		}
	}()
	r, err := NewResolver(ResolverSettings{URIs: []string{"src:0"}, DefaultScheme: "env", ProviderFactories: []ProviderFactory{
		NewProviderFactory(func(ProviderSettings) Provider { return vCycleProv{"src", &n} }),
		NewProviderFactory(func(ProviderSettings) Provider { return vCycleProv{"env", &n} }),
	}})
	if err != nil {
		t.Fatal(err)
	}
	_, err = r.Resolve(context.Background())
	fmt.Printf("\nVERIF-RETURNED rounds=%d toomany=%v err=%v\n", atomic.LoadInt64(&n), errors.Is(err, errTooManyRecursiveExpansions), err != nil)
}

func vProbeDoublingCycle(out *vOut, st map[string]int) {
	ctx, cancel := context.WithTimeout(context.Background(), 180*time.Second)
	defer cancel()
	cmd := exec.CommandContext(ctx, os.Args[0], "-test.run=^TestVerifC12ExpCycleChild$", "-test.count=1")
	for _, e := range os.Environ() {
		if !strings.HasPrefix(e, "VERIF_OUT=") {
			cmd.Env = append(cmd.Env, e)
		}
	}
	cmd.Env = append(cmd.Env, "VERIF_C12_CHILD=1", "GOMAXPROCS=2")
	b, _ := cmd.CombinedOutput()
	txt := string(b)
	// the term names the configuration; the source value k = "${env:X}" is left out of the term on purpose: the
	// model needs 2^1000 characters too, nobody should evaluate it
	term := `(("env"%string, ["src"%string; "env"%string], [("env:X"%string, (WPVal (WStr "${env:X}${env:X}"%string) None))]), [(WMap [])], (WObsErr 97))`
	st["doubling-cycle-probe"]++
	if m := regexp.MustCompile(`VERIF-RETURNED rounds=(\d+) toomany=(true|false) err=(true|false)`).FindStringSubmatch(txt); m != nil {
		st["doubling-cycle-returned"]++
		if rounds, _ := strconv.Atoi(m[1]); m[2] == "true" && rounds > 64 {
			out.Oracle("cycle-not-refused-quickly", term, "doubling cycle X=\"${env:X}${env:X}\", k=\"${env:X}\": refused only after "+m[1]+" rounds (the text doubles every round)")
		}
		if m[2] != "true" {
			out.Oracle("cycle-not-reported", term, "doubling cycle X=\"${env:X}${env:X}\", k=\"${env:X}\": Resolve returned after "+m[1]+" rounds without 'too many recursive expansions'")
		}
		return
	}
	if m := regexp.MustCompile(`VERIF-MEMLIMIT rounds=(\d+) sysMiB=(\d+)`).FindStringSubmatch(txt); m != nil {
		out.Oracle("cycle-exhausts-memory", term, "doubling cycle X=\"${env:X}${env:X}\", k=\"${env:X}\": stopped by the memory guard after "+m[1]+" rounds holding "+m[2]+" MiB (the text doubles every round); no 'too many recursive expansions' is ever reported")
		return
	}
	if strings.Contains(txt, "out of memory") || strings.Contains(txt, "cannot allocate memory") {
		out.Oracle("cycle-exhausts-memory", term, "doubling cycle X=\"${env:X}${env:X}\", k=\"${env:X}\": stopped by the memory guard (RLIMIT_AS) after an unknown number of rounds; no 'too many recursive expansions' is ever reported")
		return
	}
	tail := txt
	if len(tail) > 300 {
		tail = tail[len(tail)-300:]
	}
	out.Oracle("resolve-does-not-terminate", term, "doubling cycle probe: the child neither returned nor hit the memory guard within 180 s: "+strings.ReplaceAll(tail, "\t", " "))
}

func vdAllNames() []string {
	out := []string{}
	prev := []string{""}
	for l := 1; l <= 3; l++ {
		var cur []string
		for _, p := range prev {
			for _, ch := range []string{"a", ":"} {
				cur = append(cur, p+ch)
			}
		}
		out = append(out, cur...)
		prev = cur
	}
	return out
}

// ---- the test -------------------------------------------------------------------------------------------------
func TestVerifC12(t *testing.T) {
	out := vOpen()
	defer out.Close()
	st := map[string]int{}
	defer func() {
		for k, v := range st {
			out.Stat(k, v)
		}
	}()
	seen := map[string]bool{}
	emit := func(nontrivial bool, term string) {
		for _, dmsg := range vPendingDiffs {
			out.Oracle("custom-unmarshaler-differs", term, dmsg)
		}
		vPendingDiffs = nil
		for _, lmsg := range vPendingLeaks {
			out.Oracle("internal-wrapper-leaked", term, lmsg)
			st["internal-wrapper-leaked"]++
		}
		vPendingLeaks = nil
		if seen[term] {
			st["duplicate-case-skipped"]++
			return
		}
		seen[term] = true
		out.Case(nontrivial, term)
	}
	hung := func(term string, o vObs) bool {
		if o.hung {
			out.Oracle("resolve-does-not-terminate", term, "Resolve did not return within 120 s")
		}
		return o.hung
	}

	// -- probe mode (props/C12/check.py, after a tie obligation broke): ONLY the values listed in the file, one
	// "<default scheme>\t<value>" per line, each resolved as the single key of a single source over a table that
	// answers every name over {a,:} up to length 3 (schemes env, aa); the clause checkers judge the outcome
	if pf := os.Getenv("VERIF_C12_PROBES"); pf != "" {
		b, err := os.ReadFile(pf)
		if err != nil {
			t.Fatal(err)
		}
		for _, line := range strings.Split(strings.TrimRight(string(b), "\n"), "\n") {
			parts := strings.SplitN(line, "\t", 2)
			if len(parts) != 2 {
				continue
			}
			c := vNewCfg(parts[0], "env", "aa")
			for _, sc := range []string{"env", "aa"} {
				for _, nm := range vdAllNames() {
					c.put(sc+":"+nm, &vEntry{raw: "v" + strings.ReplaceAll(nm, ":", ".")})
				}
			}
			c.put("env:a", &vEntry{raw: "X$"}) // the replacement used by the replaceUnescaped table
			srcs := []any{map[string]any{"k": parts[1]}}
			c.setSources(srcs)
			o := vObserve(c, 1)
			term := vCaseTerm(c, srcs, o)
			if hung(term, o) {
				return
			}
			emit(true, term)
			st["probe-cases"]++
		}
		return
	}

	// the work budget is PER VALUE: 120 values with 100 reference occurrences each (12 000 in total, more than
	// maxExpansions) resolve, and so does a second Resolve on the same Resolver
	var manyRes *Resolver
	var manyCfg *vCfg
	var manySrcs []any
	var manyWant map[string]any
	heavyManyValues := func(pass int) bool {
		if manyRes == nil {
			c := vNewCfg("env", "env")
			c.put("env:W", &vEntry{raw: "w"})
			c.put("env:V", &vEntry{raw: "v"})
			m := map[string]any{}
			want := map[string]any{}
			for k := 0; k < 120; k++ {
				key := fmt.Sprintf("v%03d", k)
				m[key] = "x" + strings.Repeat("${env:W}${V}", 50)
				want[key] = "x" + strings.Repeat("wv", 50)
			}
			srcs := []any{m}
			c.setSources(srcs)
			manyRes, manyCfg, manySrcs, manyWant = vNewResolverFor(c, vSrcURIs(1)), c, srcs, want
		}
		o := vObserveOn(manyRes)
		term := vCaseTerm(manyCfg, manySrcs, o)
		if hung(term, o) {
			return false
		}
		emit(true, term)
		st["corpus-many-values"]++
		if o.errCode != -1 || !vEq(manyWant, o.tsm) {
			out.Oracle("budget-not-per-value", term, fmt.Sprintf("120 values with 100 reference occurrences each, Resolve number %d on the Resolver: class %d (every value is far below the budget of one value)", pass, o.errCode))
		}
		return true
	}
	heavyManyRefs := func(ns ...int) bool {
		for _, n := range ns {
			if vTier() == "quick" && n == 999 {
				continue
			}
			c := vNewCfg("env", "env")
			var sb strings.Builder
			for i := 0; i < n; i++ {
				const al = "abcdefghijklmnopqrstuvwxyzABCDEF"
				nm := string([]byte{al[i%32], al[i/32]}) // two letters, default scheme: 5 characters per reference
				c.put("env:"+nm, &vEntry{raw: "w"})
				sb.WriteString("${" + nm + "}")
			}
			srcs := []any{map[string]any{"k": "x" + sb.String()}}
			c.setSources(srcs)
			o := vObserve(c, 1)
			term := vCaseTerm(c, srcs, o)
			if hung(term, o) {
				return false
			}
			emit(true, term)
			st["corpus-many-refs"]++
			want := "x" + strings.Repeat("w", n)
			if got, _ := o.tsm["k"].(string); o.errCode != -1 || got != want {
				out.Oracle("expansion-limit", term, fmt.Sprintf("%d distinct references in one value (all resolvable, no cycle): Resolve returned class %d instead of the expanded text", n, o.errCode))
			}
		}
		return true
	}
	_ = heavyManyRefs
	// -- fixed corpus: the strings of the reading-time probe, the two repaired defects, limits
	{
		corpus := []struct{ in, want string }{
			{"${env:A} $${env:A}", "va ${env:A}"}, {"$${env:A} ${env:B}", "${env:A} vb"}, {"${env:A}-$$-${env:B}", "va-$-vb"},
			{"$$${env:A}", "$va"}, {"$$$${env:A}", "$${env:A}"}, {"${env:N}", "\x00"}, {"x${env:N}", "x42"}, {"${env:R}", "va"},
			{"${env:E}", "$x"}, {"${env:E}${env:A}", "$xva"}, {"${A}", "\x00"}, {"$A", "$A"}, {"${env:${env:A}}", "\x00"},
			{"${env:D}{env:A}", "\x00"}, {"$", "$"}, {"$$", "$"}, {"$$$", "$$"}, {"${env:A", "${env:A"}, {"}${env:A}", "}va"},
			{"${env:EMP}${env:N}", "\x00"}, {"$${env:A}$${env:A}${env:A}$$${env:A}", "${env:A}${env:A}va$va"},
			{"a}$${env:B}}${env:B}", "a}${env:B}}vb"},
		}
		for _, def := range []string{"env", ""} {
			for _, cs := range corpus {
				c := vNewCfg(def, "env")
				c.put("env:A", &vEntry{raw: "va"})
				c.put("env:B", &vEntry{raw: "vb"})
				c.put("env:N", vYAML("42"))
				c.put("env:R", &vEntry{raw: "${env:A}"})
				c.put("env:E", &vEntry{raw: "$$x"})
				c.put("env:D", &vEntry{raw: "a$b"})
				c.put("env:EMP", &vEntry{raw: ""})
				srcs := []any{map[string]any{"k": cs.in}}
				c.setSources(srcs)
				o := vObserve(c, 1)
				term := vCaseTerm(c, srcs, o)
				if hung(term, o) {
					return
				}
				emit(true, term)
				st["corpus"]++
				if cs.want != "\x00" {
					if got, ok := o.tsm["k"].(string); o.errCode != -1 || !ok || got != cs.want {
						out.Oracle("token-interpreter", term, fmt.Sprintf("corpus %q: resolved %#v (class %d), reference interpreter %q", cs.in, o.tsm["k"], o.errCode, cs.want))
					}
				}
			}
		}
		// regression of finding C12-WRAPPERLEAK (43b4ee065): receivers: ${file:r}, the file holds references again
		for _, def := range []string{"env", ""} {
			c := vNewCfg(def, "env", "file")
			c.put("env:PORT", vYAML("4317"))
			c.put("file:r", vYAML("{otlp: {port: \"${env:PORT}\", tags: [a, \"${env:PORT}\"], sub: {deep: \"${env:PORT}\"}}}"))
			srcs := []any{map[string]any{"receivers": "${file:r}", "plain": "${env:PORT}"}}
			c.setSources(srcs)
			o := vObserve(c, 1)
			term := vCaseTerm(c, srcs, o)
			if hung(term, o) {
				return
			}
			emit(true, term)
			st["corpus-wrapper-regression"]++
			wantV := map[string]any{"plain": 4317, "receivers": map[string]any{"otlp": map[string]any{"port": 4317, "tags": []any{"a", 4317}, "sub": map[string]any{"deep": 4317}}}}
			if o.errCode != -1 || !vEq(wantV, o.tsm) {
				out.Oracle("internal-wrapper-leaked", term, fmt.Sprintf("ToStringMap() = %#v, the typed values are %#v (class %d)", o.tsm, wantV, o.errCode))
			}
		}
		// (the heavy corpus cases — many values, 1000 references — are emitted BETWEEN the families so that they land
		// in different Coq shards: see heavyManyValues / heavyManyRefs below)
		// 150 / 999 / 1000 distinct references in one value all resolve (regression of finding C12-MANYREFS: the former
		// bound of 1000 rounds refused the 1000)
	}

	if !heavyManyRefs(150) {
		return
	}

	// -- guarded probe: a reference cycle that doubles per round (1 case, child process)
	vProbeDoublingCycle(out, st)

	// -- growing cycles (Go only: no case line, the model would need 10 000 rounds over a growing text): cycles of
	// length 1-3 whose members carry text around ONE reference; every one must be refused with the cycle error
	for i, n := 0, vBudget(12, 4); i < n; i++ {
		r := vNewRand(uint64(8000003 + i))
		c := vNewCfg([]string{"", "env"}[r.Intn(2)], "env")
		k := 1 + r.Intn(3)
		for j := 0; j < k; j++ {
			next := "env:G" + strconv.Itoa((j+1)%k)
			c.put("env:G"+strconv.Itoa(j), &vEntry{raw: vGenLit(r, r.Intn(3), false) + "${" + next + "}" + vGenLit(r, r.Intn(3), false)})
		}
		c.put("env:A", &vEntry{raw: "va"})
		val := []string{"${env:G0}", "p${env:G0}q", "${env:A}${env:G0}"}[r.Intn(3)]
		srcs := []any{map[string]any{"k": val}}
		c.setSources(srcs)
		t0 := time.Now()
		o := vObserve(c, 1)
		term := vCaseTerm(c, srcs, o)
		if hung(term, o) {
			return
		}
		st["growing-cycle-checks"]++
		if o.errCode != 5 {
			out.Oracle("cycle-not-reported", term, fmt.Sprintf("a reference cycle of length %d with text around the references: class %d instead of 'too many recursive expansions'", k, o.errCode))
		} else if d := time.Since(t0); d > 60*time.Second {
			out.Oracle("cycle-not-refused-quickly", term, fmt.Sprintf("a growing reference cycle of length %d was refused only after %v", k, d))
		}
	}

	// -- family 1: token strings
	nTok := vBudget(450, 12)
	for i := 0; i < nTok; i++ {
		r := vNewRand(uint64(1000003 + i))
		def := vPickDef(r)
		c := vNewCfg(def, vSchemesFor(def)...)
		st["tok-default-scheme-"+def]++
		names := vTokTable(r, c)
		m := map[string]any{}
		want := map[string]string{}
		nk := 1 + r.Intn(3)
		for k := 0; k < nk; k++ {
			ts := vGenTokens(r, c, names)
			s := vTokString(ts)
			sem, hasText := vTokSem(ts, c)
			key := "k" + strconv.Itoa(k)
			m[key] = s
			if hasText {
				want[key] = sem
			} else {
				st["tok-not-anchored(oracle skipped)"]++
			}
			nref := 0
			for _, tk := range ts {
				if tk.kind == 3 {
					nref++
				}
			}
			st[fmt.Sprintf("tok-refs-%d", min(nref, 4))]++
			st[fmt.Sprintf("tok-len-%d", len(ts))]++
		}
		srcs := []any{m}
		c.setSources(srcs)
		o := vObserve(c, 1)
		term := vCaseTerm(c, srcs, o)
		if hung(term, o) {
			return
		}
		emit(true, term)
		st["tok-cases"]++
		if o.errCode != -1 {
			out.Oracle("token-interpreter", term, fmt.Sprintf("well-formed token strings, resolvable references: Resolve failed with class %d", o.errCode))
			continue
		}
		for k, w := range want {
			got, isStr := o.tsm[k].(string)
			if !isStr || got != w {
				out.Oracle("token-interpreter", term, fmt.Sprintf("key %s input %q: resolved %#v, reference interpreter %q", k, m[k], o.tsm[k], w))
			}
			if sp := o.strs[k]; sp == nil || *sp != w {
				out.Oracle("token-interpreter", term, fmt.Sprintf("key %s input %q: string field decode differs from reference interpreter %q", k, m[k], w))
			}
		}
	}

	if !heavyManyRefs(1000) {
		return
	}

	// -- family 2: wild strings
	nWild := vBudget(550, 12)
	for i := 0; i < nWild; i++ {
		r := vNewRand(uint64(2000003 + i))
		def := ""
		if r.Bool() {
			def = "env"
		}
		c := vNewCfg(def, "env", "file")
		vWildTable(r, c, st)
		m := map[string]any{}
		typed := map[string]*vEntry{}
		nk := 1 + r.Intn(3)
		for k := 0; k < nk; k++ {
			key := "k" + strconv.Itoa(k)
			switch r.Pick(25, 55, 20) {
			case 0:
				m[key] = vGenValue(r, c, 0, st, func() string { return vGenWild(r, c, 3, st) })
			case 1:
				m[key] = vGenWild(r, c, 3, st)
			case 2: // the whole value is one reference (typed value + original text)
				all := c.order
				nm := all[r.Intn(len(all))]
				if r.Bool() { // half of them: entries with a typed scalar value and a text
					nm = []string{"env:N", "env:F", "env:T", "env:NIL", "env:W", "file:N", "env:NUL", "env:NUL", "env:ZERO"}[r.Intn(9)]
				}
				if strings.HasPrefix(nm, "env:") && def != "" && r.Bool() {
					nm = nm[4:]
				}
				m[key] = "${" + nm + "}"
				st["whole-value-ref"]++
				full := nm
				if !strings.Contains(full, ":") {
					full = def + ":" + full
				}
				if e := c.tbl[full]; e != nil && !e.err && (e.hasStr || e.text != nil) && !strings.Contains(e.str, "${") && !strings.HasPrefix(full, "src:") {
					switch e.raw.(type) {
					case nil, bool, int, float64:
						typed[key] = e
					}
				}
			}
		}
		srcs := []any{m}
		c.setSources(srcs)
		o := vObserve(c, 1)
		term := vCaseTerm(c, srcs, o)
		if hung(term, o) {
			return
		}
		emit(true, term)
		st["wild-cases"]++
		st[fmt.Sprintf("wild-result-class-%d", o.errCode)]++
		// direct oracle: a value that IS one reference to a typed scalar: typed in ToStringMap, its original
		// text (with $$ un-escaped) in a string field
		if o.errCode == -1 {
			for k, e := range typed {
				st["wild-typed-oracle"]++
				txt, _ := e.oracleText()
				wantS := strings.ReplaceAll(txt, "$$", "$")
				if !reflect.DeepEqual(o.tsm[k], e.raw) {
					out.Oracle("whole-value-typed", term, fmt.Sprintf("key %s = %q: ToStringMap gives %#v, the provider's typed value is %#v", k, m[k], o.tsm[k], e.raw))
				}
				if sp := o.strs[k]; sp == nil || *sp != wantS {
					got := "<decode error>"
					if sp != nil {
						got = *sp
					}
					out.Oracle("whole-value-typed", term, fmt.Sprintf("key %s = %q: a string field receives %q, the provider's text is %q", k, m[k], got, wantS))
				}
			}
		}
		// weak direct oracle: a string without "$" is never changed
		if o.errCode == -1 {
			for k, v := range m {
				if s, ok := v.(string); ok && !strings.Contains(s, "$") {
					st["wild-dollar-free-leaf"]++
					if got, _ := o.tsm[k].(string); got != s {
						out.Oracle("plain-text-changed", term, fmt.Sprintf("key %s: %q resolved to %#v", k, s, o.tsm[k]))
					}
				}
			}
		}
	}

	if !heavyManyValues(1) {
		return
	}

	// -- family 4: deep values.  Lists and maps (in the source, and as YAML provider values reached through ONE
	// whole-value or embedded reference) whose members are token strings needing DIFFERENT numbers of rounds
	// (references to level-0 entries and to level-1 entries that contain references again), consumed through
	// their text: string / []string / map[string]string targets.  Direct oracle = the token interpreter
	// applied member by member (and to the provider's original YAML text).
	nDeep := vBudget(220, 12)
	for i := 0; i < nDeep; i++ {
		r := vNewRand(uint64(4000003 + i))
		def := vPickDef(r)
		c := vNewCfg(def, vSchemesFor(def, "tt")...)
		st["deep-default-scheme-"+def]++
		d := vNewDeep(r, c)
		m := map[string]any{}
		wantS := map[string]string{}
		wantL := map[string][]string{}
		wantM := map[string]map[string]string{}
		wantT := map[string]any{}
		for k, nk := 0, 1+r.Intn(3); k < nk; k++ {
			key := "k" + strconv.Itoa(k)
			switch r.Pick(26, 13, 13, 8, 12, 12, 9, 7) {
			case 7: // a YAML list one of whose members IS a reference to a value WITHOUT text (a map from a custom
				// provider): the typed value resolves, the original text cannot be expanded and is dropped
				m[key] = "${" + d.refName("YE") + "}"
				if d.yeOK {
					wantT[key] = d.yeWant
				}
				st["deep-original-text-unexpandable"]++
			case 6: // maps inside a list in the source (expandValue's map case), members with different round counts
				n := 1 + r.Intn(3)
				l := make([]any, n)
				w := make([]any, n)
				for j := range l {
					if r.Intn(3) == 0 {
						it := d.item(r)
						l[j], w[j] = it.text, it.sem
						continue
					}
					mm, wm := map[string]any{}, map[string]any{}
					for q, nq := 0, 1+r.Intn(3); q < nq; q++ {
						it := d.item(r)
						mm["g"+strconv.Itoa(q)], wm["g"+strconv.Itoa(q)] = it.text, it.sem
					}
					if r.Intn(3) == 0 {
						it := d.item(r)
						mm["h"], wm["h"] = []any{it.text, "plain"}, []any{it.sem, "plain"}
					}
					if r.Intn(3) == 0 { // a typed whole-value reference inside a map inside a list
						mm["t"], wm["t"] = "${env:N}", d.c.tbl["env:N"].raw
					}
					l[j], w[j] = mm, wm
				}
				m[key], wantT[key] = l, w
				st["deep-source-list-of-maps"]++
			case 0: // the whole value is one reference to a YAML list with >= 3 distinct references
				m[key] = "${" + d.refName("YL") + "}"
				if d.ylOK {
					wantS[key], wantL[key] = d.ylSem, d.ylItems
				}
				st["deep-whole-yaml-list"]++
			case 1:
				m[key] = "${" + d.refName("YM") + "}"
				if d.ymOK {
					wantS[key], wantM[key] = d.ymSem, d.ymItems
				}
				st["deep-whole-yaml-map"]++
			case 2: // the YAML text embedded in a longer string
				pre, post := vGenLit(r, 1+r.Intn(3), false), vGenLit(r, r.Intn(3), false)
				which, sem := "YL", d.ylSem
				if r.Bool() {
					which, sem = "YM", d.ymSem
				}
				m[key] = pre + "${" + d.refName(which) + "}" + post
				wantS[key] = pre + sem + post
				st["deep-embedded-yaml"]++
			case 3: // a list inside a list provider value, reached through a level-1 reference
				m[key] = []any{"${" + d.refName("YL") + "}", d.item(r).text}
				st["deep-nested-list"]++
			case 4: // a list in the source whose members need different numbers of rounds
				n := 2 + r.Intn(4)
				l := make([]any, n)
				w := make([]string, n)
				for j := range l {
					it := d.item(r)
					if r.Intn(4) == 0 { // a member that IS one reference (typed value, its text for a string target)
						it = d.bare(r)
					}
					l[j], w[j] = it.text, it.sem
				}
				m[key], wantL[key] = l, w
				st["deep-source-list"]++
			case 5:
				mm := map[string]any{}
				w := map[string]string{}
				for j, n := 0, 2+r.Intn(3); j < n; j++ {
					it := d.item(r)
					if r.Intn(4) == 0 {
						it = d.bare(r)
					}
					mm["f"+strconv.Itoa(j)], w["f"+strconv.Itoa(j)] = it.text, it.sem
				}
				m[key], wantM[key] = mm, w
				st["deep-source-map"]++
			}
		}
		srcs := []any{m}
		c.setSources(srcs)
		o := vObserve(c, 1)
		term := vCaseTerm(c, srcs, o)
		if hung(term, o) {
			return
		}
		emit(true, term)
		st["deep-cases"]++
		if o.errCode != -1 {
			out.Oracle("deep-text", term, fmt.Sprintf("every reference is resolvable: Resolve failed with class %d", o.errCode))
			continue
		}
		for k, w := range wantS {
			if sp := o.strs[k]; sp == nil || *sp != w {
				got := "<decode error>"
				if sp != nil {
					got = *sp
				}
				out.Oracle("deep-text", term, fmt.Sprintf("key %s = %q: a string field receives %q, the reference interpreter gives %q", k, m[k], got, w))
			}
		}
		for k, w := range wantL {
			if dd := o.decs[k]; !dd.lo || !reflect.DeepEqual(append([]string{}, dd.l...), append([]string{}, w...)) {
				out.Oracle("deep-text", term, fmt.Sprintf("key %s = %v: a []string field receives %q (ok=%v), the reference interpreter gives %q", k, m[k], dd.l, dd.lo, w))
			}
		}
		for k, w := range wantT {
			if !vEq(w, o.tsm[k]) {
				out.Oracle("deep-text", term, fmt.Sprintf("key %s = %v: ToStringMap gives %v, the reference interpreter gives %v", k, m[k], o.tsm[k], w))
			}
		}
		for k, w := range wantM {
			if dd := o.decs[k]; !dd.mo || !reflect.DeepEqual(dd.m, w) {
				out.Oracle("deep-text", term, fmt.Sprintf("key %s = %v: a map[string]string field receives %v (ok=%v), the reference interpreter gives %v", k, m[k], dd.m, dd.mo, w))
			}
		}
	}

	if !heavyManyValues(2) {
		return
	}
	if vTier() != "quick" && !heavyManyRefs(999) {
		return
	}

	// -- family 5: '$' in reference names.  One key per case (the error is attributable); the providers HAVE an
	// entry for every such name, so an implementation that lets the name through succeeds.  Direct oracle: a
	// reference whose name contains '$' (single, paired, anywhere) must be refused with the '$' error.
	nDol := vBudget(130, 12)
	for i := 0; i < nDol; i++ {
		r := vNewRand(uint64(5000003 + i))
		def := []string{"", "tt", "env", "tt"}[r.Intn(4)]
		c := vNewCfg(def, "env", "tt")
		c.put("env:A", &vEntry{raw: "va"})
		c.put("tt:A", &vEntry{raw: "ta"})
		base := []string{"NAME", "N", "ab", "x1"}[r.Intn(4)]
		var name string
		pos := r.Intn(len(base) + 1)
		ins := []string{"$", "$$", "$$$", "$$$$", "$x$", "$$y$$"}[r.Pick(25, 40, 10, 10, 7, 8)]
		name = base[:pos] + ins + base[pos:]
		if r.Intn(6) == 0 { // a second group elsewhere
			name += []string{"$", "$$"}[r.Intn(2)]
		}
		st["dollar-name-ins-"+ins]++
		scheme := []string{"tt", "env"}[r.Pick(70, 30)]
		ref := "${" + scheme + ":" + name + "}"
		isRef := true
		if def != "" && r.Intn(3) == 0 {
			ref, scheme = "${"+name+"}", def
			st["dollar-name-default-scheme"]++
		} else if def == "" && r.Intn(8) == 0 {
			ref, isRef = "${"+name+"}", false // no default scheme: not a reference at all
			st["dollar-name-not-a-reference"]++
		}
		for _, sc := range []string{"tt", "env"} {
			c.put(sc+":"+name, &vEntry{raw: "leak"})
			c.put(sc+":"+strings.ReplaceAll(name, "$$", "$"), &vEntry{raw: "leak1"})
			c.put(sc+":"+strings.ReplaceAll(name, "$", ""), &vEntry{raw: "leak0"})
		}
		c.put("tt:P", &vEntry{raw: name})
		c.put("tt:R", &vEntry{raw: "x" + ref + "y"})
		c.put("tt:YL", vYAML("[\"a\", \""+ref+"\"]"))
		c.put("tt:YM", vYAML("{\"a\": \"x\", \"b\": \""+ref+"\"}"))
		var val any
		escaped := false
		switch r.Pick(20, 20, 9, 7, 9, 7, 7, 10, 6, 5) {
		case 8:
			val = "${tt:YM}"
			st["dollar-name-in-provider-map"]++
		case 9:
			val = []any{"p", map[string]any{"u": "x", "v": ref}}
			st["dollar-name-in-map-in-list"]++
		case 0:
			val = ref
			st["dollar-name-whole"]++
		case 1:
			val = vGenLit(r, 1+r.Intn(3), false) + ref + vGenLit(r, r.Intn(3), false)
			st["dollar-name-embedded"]++
		case 2:
			val = []any{"p", ref}
			st["dollar-name-in-list"]++
		case 3:
			val = map[string]any{"q": map[string]any{"r": "z" + ref}}
			st["dollar-name-in-map"]++
		case 4:
			val = "${tt:R}" // inside a provider's text
			st["dollar-name-in-provider-text"]++
		case 5:
			val = "${tt:YL}"
			st["dollar-name-in-provider-list"]++
		case 6:
			val = "${" + scheme + ":${tt:P}}" // the name arrives through a nested reference
			isRef = true
			st["dollar-name-nested"]++
		case 7:
			val = "a$" + ref // escaped: kept as text
			escaped = true
			st["dollar-name-escaped"]++
		}
		srcs := []any{map[string]any{"k": val}}
		c.setSources(srcs)
		o := vObserve(c, 1)
		term := vCaseTerm(c, srcs, o)
		if hung(term, o) {
			return
		}
		emit(true, term)
		st["dollar-name-cases"]++
		st[fmt.Sprintf("dollar-name-class-%d", o.errCode)]++
		switch {
		case escaped || !isRef:
			if o.errCode != -1 {
				out.Oracle("dollar-in-name", term, fmt.Sprintf("%q is not an active reference (escaped / no scheme) and must resolve; class %d", val, o.errCode))
			}
		case o.errCode != 1:
			out.Oracle("dollar-in-name", term, fmt.Sprintf("value %v holds the reference %s whose name contains '$': it must be refused with the '$' error; class %d, result %v", val, ref, o.errCode, o.tsm["k"]))
		}
	}

	// -- family 6: the same Resolver used again (the documented Resolve / Watch / Resolve cycle).  After the first
	// Resolve the values behind references and sources change, a provider signals the change through its
	// WatcherFunc, and Resolve is called again on the SAME Resolver (up to 3 times).  Each Resolve is a
	// correspondence case against the table as it is at that moment; direct oracle: the result equals that of
	// a FRESH Resolver on the current table (what the provider returns NOW).
	nRe := vBudget(90, 12)
	for i := 0; i < nRe; i++ {
		r := vNewRand(uint64(6000003 + i))
		def := ""
		if r.Bool() {
			def = "env"
		}
		c := vNewCfg(def, "env", "tt")
		c.watchers = map[string]WatcherFunc{}
		d := vNewDeep(r, c)
		genSrc := func() map[string]any {
			m := map[string]any{}
			for k, nk := 0, 2+r.Intn(3); k < nk; k++ {
				key := "k" + strconv.Itoa(k)
				switch r.Pick(25, 20, 15, 15, 15, 10) {
				case 0:
					m[key] = d.item(r).text
				case 1:
					m[key] = "${" + d.refName([]string{"A", "B", "N", "E", "R1", "R2"}[r.Intn(6)]) + "}"
				case 2:
					m[key] = "${" + d.refName([]string{"YL", "YM"}[r.Intn(2)]) + "}"
				case 3:
					m[key] = []any{d.item(r).text, "${" + d.refName("N") + "}"}
				case 4:
					m[key] = map[string]any{"in": d.item(r).text, "n": "${" + d.refName("R1") + "}"}
				case 5:
					m[key] = "${env:${env:PTR}}"
				}
			}
			return m
		}
		c.put("env:PTR", &vEntry{raw: "A"})
		srcs := []any{genSrc(), map[string]any{"over": d.item(r).text}}
		c.setSources(srcs)
		res := vNewResolverFor(c, vSrcURIs(2))
		steps := 2 + r.Intn(2)
		for step := 0; step < steps; step++ {
			if step > 0 {
				// the world changes ...
				for _, n := range []string{"A", "B", "C"} {
					if r.Intn(3) > 0 {
						c.put("env:"+n, &vEntry{raw: vGenLit(r, 1+r.Intn(4), false) + strconv.Itoa(step)})
					}
				}
				if r.Bool() {
					c.put("env:N", vYAML(strconv.Itoa(1000+r.Intn(1000))))
				}
				if r.Bool() {
					c.put("env:PTR", &vEntry{raw: []string{"A", "B", "C"}[r.Intn(3)]})
				}
				if r.Intn(3) == 0 {
					nd := vNewDeep(r, c) // new R1 / R2 / YL / YM texts as well
					d = nd
				}
				if r.Intn(3) == 0 {
					srcs = []any{genSrc(), srcs[1]}
					c.setSources(srcs)
					st["re-resolve-source-changed"]++
				}
				// ... and one provider says so (Resolver.Watch fires)
				var ws []string
				for u := range c.watchers {
					ws = append(ws, u)
				}
				sort.Strings(ws)
				if len(ws) > 0 && r.Intn(4) > 0 {
					c.watchers[ws[r.Intn(len(ws))]](&ChangeEvent{})
					select {
					case <-res.Watch():
						st["re-resolve-watch-fired"]++
					case <-time.After(60 * time.Second):
						out.Oracle("watch-not-delivered", vCaseTerm(c, srcs, vObs{term: "(WObsErr 96)"}), "a provider called its WatcherFunc, Resolver.Watch() did not fire within 60 s")
					}
				}
				c.watchers = map[string]WatcherFunc{}
			}
			o := vObserveOn(res)
			term := vCaseTerm(c, srcs, o)
			if hung(term, o) {
				return
			}
			emit(true, term)
			st[fmt.Sprintf("re-resolve-step-%d", step)]++
			saved := c.watchers
			c.watchers = nil
			fresh := vObserve(c, 2)
			c.watchers = saved
			if o.errCode != fresh.errCode || (o.errCode == -1 && !vEq(fresh.tsm, o.tsm)) || o.term != fresh.term {
				out.Oracle("re-resolve-stale", term, fmt.Sprintf("Resolve number %d on the same Resolver: class %d result %v; a fresh Resolver on the providers' CURRENT values: class %d result %v", step+1, o.errCode, o.tsm, fresh.errCode, fresh.tsm))
			}
		}
		st["re-resolve-cases"]++
	}

	// -- family 7: the shape of a scheme.  Written from the documentation of schemePattern ("beginning with a letter
	// and followed by any combination of letters, digits, plus, period, or hyphen", at least two characters), NOT
	// from the regular expression: "${<scheme>:A}" as a whole or embedded value must give "invalid uri" for an
	// ill-formed scheme, "not supported" for a well-formed unregistered one, and resolve for a registered one.
	nSch := vBudget(70, 12)
	for i := 0; i < nSch; i++ {
		r := vNewRand(uint64(7000003 + i))
		c := vNewCfg([]string{"", "env"}[r.Intn(2)], "env", "tt", "a+b.c-d", "Z9")
		for _, sc := range []string{"env", "tt", "a+b.c-d", "Z9"} {
			c.put(sc+":A", &vEntry{raw: "v-" + sc})
		}
		var scheme string
		switch r.Pick(30, 70) {
		case 0:
			scheme = []string{"env", "tt", "a+b.c-d", "Z9", "zz", "x.y", "h2"}[r.Intn(7)]
		case 1:
			const al = "aZ19+.-_~/ @#"
			n := 1 + r.Intn(4)
			b := make([]byte, n)
			for j := range b {
				b[j] = al[r.Intn(len(al))]
			}
			scheme = string(b)
		}
		isLetter := func(ch byte) bool { return (ch >= 'a' && ch <= 'z') || (ch >= 'A' && ch <= 'Z') }
		wellFormed := len(scheme) >= 2 && isLetter(scheme[0])
		for j := 1; j < len(scheme) && wellFormed; j++ {
			ch := scheme[j]
			wellFormed = isLetter(ch) || (ch >= '0' && ch <= '9') || ch == '+' || ch == '.' || ch == '-'
		}
		registered := scheme == "env" || scheme == "tt" || scheme == "a+b.c-d" || scheme == "Z9"
		val := "${" + scheme + ":A}"
		if r.Bool() {
			val = "p" + val + "q"
		}
		srcs := []any{map[string]any{"k": val}}
		c.setSources(srcs)
		o := vObserve(c, 1)
		term := vCaseTerm(c, srcs, o)
		if hung(term, o) {
			return
		}
		emit(true, term)
		st["scheme-shape-cases"]++
		want := 0
		switch {
		case wellFormed && registered:
			want = -1
		case wellFormed:
			want = 2
		}
		st[fmt.Sprintf("scheme-shape-want-%d", want)]++
		if o.errCode != want {
			out.Oracle("scheme-shape", term, fmt.Sprintf("reference %s: scheme %q is wellFormed=%v registered=%v by the documented rule; expected class %d, got %d", val, scheme, wellFormed, registered, want, o.errCode))
		}
	}

	// -- family 3: merges
	nMerge := vBudget(300, 12)
	for i := 0; i < nMerge; i++ {
		r := vNewRand(uint64(3000003 + i))
		c := vNewCfg("env", "env")
		c.put("env:A", &vEntry{raw: "va"})
		c.put("env:N", vYAML("42"))
		withRefs := r.Intn(4) == 0
		strGen := func() string { return vPlain(r) }
		if withRefs {
			strGen = func() string {
				switch r.Intn(4) {
				case 0:
					return "${env:A}"
				case 1:
					return "${env:N}"
				case 2:
					return "p${env:A}$$"
				}
				return vPlain(r)
			}
		}
		ns := 1 + r.Intn(4)
		srcs := make([]any, ns)
		for j := range srcs {
			switch r.Pick(80, 8, 8, 2) {
			case 0:
				m := map[string]any{}
				for k, n := 0, 1+r.Intn(4); k < n; k++ {
					m["k"+strconv.Itoa(r.Intn(4))] = vGenValue(r, c, 0, st, strGen)
				}
				srcs[j] = m
			case 1:
				srcs[j] = nil
			case 2:
				srcs[j] = map[string]any{}
			case 3:
				srcs[j] = "not-a-map"
				st["merge-source-not-a-map"]++
			}
		}
		c.setSources(srcs)
		// the list of source URIs: usually each source once; sometimes the same URI is listed again, adjacent or
		// with other (conflicting) sources in between — every listed occurrence is merged, in order
		idx := make([]int, ns)
		for j := range idx {
			idx[j] = j
		}
		if r.Intn(3) == 0 {
			switch r.Intn(4) {
			case 0: // [.., A, .., A]: the first source again at the end
				idx = append(idx, r.Intn(ns))
			case 1: // a random sequence over the sources
				n := ns + 1 + r.Intn(3)
				idx = make([]int, n)
				for j := range idx {
					idx[j] = r.Intn(ns)
				}
			case 2: // adjacent duplicate
				j := r.Intn(ns)
				idx = append(idx[:j+1], idx[j:]...)
			case 3: // palindrome A B .. B A
				for j := ns - 2; j >= 0; j-- {
					idx = append(idx, j)
				}
			}
			st["merge-uri-listed-again"]++
		}
		seq := make([]any, len(idx))
		for j, k := range idx {
			seq[j] = srcs[k]
		}
		srcs = seq
		o := vObserveIdx(c, idx)
		term := vCaseTerm(c, srcs, o)
		if hung(term, o) {
			return
		}
		emit(len(idx) > 1, term)
		st["merge-cases"]++
		st[fmt.Sprintf("merge-sources-%d", ns)]++
		if withRefs {
			st["merge-with-refs"]++
		}
		// direct oracle: right-biased recursive merge (reference-free sources only)
		bad := false
		want := map[string]any{}
		for _, s := range srcs {
			switch x := s.(type) {
			case nil:
			case map[string]any:
				vMergeOracle(want, vCopy(x).(map[string]any))
			default:
				bad = true
			}
			if bad {
				break
			}
		}
		if bad {
			if o.errCode != 6 {
				out.Oracle("merge", term, fmt.Sprintf("a source that is not a map must be refused; class %d", o.errCode))
			}
			continue
		}
		if vHasDollar(want) {
			continue
		}
		if o.errCode != -1 {
			out.Oracle("merge", term, fmt.Sprintf("reference-free sources: Resolve failed with class %d", o.errCode))
		} else if !vEq(want, o.tsm) {
			out.Oracle("merge", term, fmt.Sprintf("resolved %v, right-biased merge %v", o.tsm, want))
		}
	}
	seenLost := map[string]bool{}
	for _, l := range vTextLost {
		if !seenLost[l] {
			seenLost[l] = true
			out.Oracle("provider-text-lost", "(((\"\"%string, [], []), [], (WObsErr 95)))", "a provider value built from text must keep that text for embedding and string fields: "+l)
		}
	}
	_ = os.Getenv
}
