// C14 correspondence harness C, injected into confmap/internal/e2e (module with the env and file
// providers and configopaque).  The secret reaches an opaque field the way it does in production:
// a YAML configuration file that refers to it through a provider expansion (${env:X}, ${file:P}),
// resolved by confmap.Resolver, then Conf.Unmarshal.  The texts are chosen by what YAML makes of
// them (integer, octal, float, bool, null, ~, comment, flow / block collections, timestamp, quoted,
// leading / trailing blanks, multi-line, invalid YAML, the marker itself, format directives, unicode):
// whatever the text looks like, the field must hold exactly that text.
//
//	case term:  CUnm ctx text stored            (stored a string)
//	            CUnmX (UExpPtr cls) text obs    (pointer target: stored / nil / decode error)
//
// Direct oracle: stored == text, no error, and an error text never echoes the secret.
package e2etest

import (
	"context"
	"fmt"
	"os"
	"path/filepath"
	"strings"
	"testing"

	yaml3 "sigs.k8s.io/yaml/goyaml.v3"

	"go.opentelemetry.io/collector/config/configopaque"
	"go.opentelemetry.io/collector/confmap"
	"go.opentelemetry.io/collector/confmap/provider/envprovider"
	"go.opentelemetry.io/collector/confmap/provider/fileprovider"
)

type vOpaque = configopaque.String

type vExpCfg struct {
	Tok  configopaque.String            `mapstructure:"tok"`
	Ftok configopaque.String            `mapstructure:"ftok"`
	Hdr  map[string]configopaque.String `mapstructure:"hdr"`
	List []configopaque.String          `mapstructure:"list"`
	Inl  configopaque.String            `mapstructure:"inl"`
	Sub  struct {
		Tok configopaque.String `mapstructure:"tok"`
	} `mapstructure:"sub"`
}

type vExpPtrCfg struct {
	Ptr *configopaque.String `mapstructure:"ptr"`
}

func vYamlTexts() []string {
	return []string{
		"plain-secret", "hunter2-s3cr3t-A", "987654321", "0123456", "0o17", "0x1F", "1e3", "3.14", "-7", "+12", "1_000",
		"true", "false", "True", "yes", "on", "null", "Null", "~", "#comment-like-secret", "",
		"[REDACTED]", "[1, 2]", "{a: b}", "a: b", "- x", "-", "2024-01-02", "2001-12-14t21:59:43.10-05:00", ".inf", ".nan",
		"'quoted'", "\"dq\"", " leading", "trailing ", "multi\nline\n", "tab\there", "%s%d%!v(EXTRA)", "pässwörd-ключ-鍵",
		"|", ">", "!!str x", "!!int 5", "*alias", "&anchor x", "x # y", "a,b,c", "@at", "`tick`", "{unclosed", "[unclosed", "k: [v", "? q",
	}
}

func vYamlClass(text string) string {
	var x any
	if err := yaml3.Unmarshal([]byte(text), &x); err != nil {
		return "YStr" // not valid YAML: the provider uses the text verbatim
	}
	switch x.(type) {
	case nil:
		return "YNull"
	case string:
		return "YStr"
	}
	return "YOther"
}

func vResolve(t *testing.T, cfgFile string) (*confmap.Conf, error) {
	r, err := confmap.NewResolver(confmap.ResolverSettings{
		URIs:              []string{cfgFile},
		ProviderFactories: []confmap.ProviderFactory{fileprovider.NewFactory(), envprovider.NewFactory()},
		DefaultScheme:     "env",
	})
	if err != nil {
		t.Fatalf("NewResolver: %v", err)
	}
	return r.Resolve(context.Background())
}

// vSubCfg: the component's section, taken with Conf.Sub (once, and through two levels) before Unmarshal
type vSubCfg struct {
	Tok  configopaque.String            `mapstructure:"tok"`
	Hdr  map[string]configopaque.String `mapstructure:"hdr"`
	List []configopaque.String          `mapstructure:"list"`
	Inl  configopaque.String            `mapstructure:"inl"`
}

func vExpCase(out *vOut, ctx, text, stored string) {
	term := "CUnm " + ctx + " " + vEnc(text) + " " + vEnc(stored)
	out.Case(true, term)
	out.Stat("expand_"+strings.NewReplacer("(", "", ")", "", " ", "_").Replace(ctx), 1)
	want := text
	if strings.Contains(ctx, "UExpInline") {
		want = "pre-" + text + "-post"
	}
	if stored != want {
		out.Oracle("unmarshal-changes-secret", term, fmt.Sprintf("context=%s: text %q (yaml class %s) was stored as %q; cause=unexplained", ctx, text, vYamlClass(text), stored))
	}
}

func TestVerifC14Resolve(t *testing.T) {
	out := vOpen()
	defer out.Close()
	dir := t.TempDir()
	secFile := filepath.Join(dir, "secret.txt")
	cfgFile := filepath.Join(dir, "config.yaml")
	ptrFile := filepath.Join(dir, "ptr.yaml")
	if err := os.WriteFile(cfgFile, []byte("tok: ${env:VERIF_C14_SECRET}\nftok: ${file:"+secFile+"}\nhdr:\n  a: ${env:VERIF_C14_SECRET}\n"+
		"list:\n  - ${env:VERIF_C14_SECRET}\ninl: pre-${env:VERIF_C14_SECRET}-post\nsub:\n  tok: ${VERIF_C14_SECRET}\n"), 0o600); err != nil {
		t.Fatal(err)
	}
	subFile := filepath.Join(dir, "sub.yaml")
	if err := os.WriteFile(subFile, []byte("exporters:\n  otlp:\n    tok: ${env:VERIF_C14_SECRET}\n    hdr:\n      a: ${env:VERIF_C14_SECRET}\n"+
		"    list:\n      - ${env:VERIF_C14_SECRET}\n    inl: pre-${env:VERIF_C14_SECRET}-post\n"), 0o600); err != nil {
		t.Fatal(err)
	}
	if err := os.WriteFile(ptrFile, []byte("ptr: ${env:VERIF_C14_SECRET}\n"), 0o600); err != nil {
		t.Fatal(err)
	}
	for _, text := range vYamlTexts() {
		cls := vYamlClass(text)
		out.Stat("yaml_class_"+cls, 1)
		if strings.Contains(text, "$") {
			continue // (expansion inside expanded text is C12's business)
		}
		t.Setenv("VERIF_C14_SECRET", text)
		if err := os.WriteFile(secFile, []byte(text), 0o600); err != nil {
			t.Fatal(err)
		}
		// ---- string-kind targets
		conf, err := vResolve(t, cfgFile)
		var d vExpCfg
		if err == nil {
			err = conf.Unmarshal(&d)
		}
		if err != nil {
			how := "does not echo the text"
			if len(text) >= 4 && strings.Contains(err.Error(), text) {
				how = "ECHOES the text"
			}
			term := "CUnmX UExpScalar " + vEnc(text) + " OErr"
			out.Case(true, term)
			out.Oracle("unmarshal-changes-secret", term, fmt.Sprintf("context=UExpScalar/UExpMapVal/UExpSliceElem/UExpInline: text %q (yaml class %s): resolve+unmarshal FAILS and %s: %q; cause=unexplained", text, cls, how, err.Error()))
		} else {
			vExpCase(out, "UExpScalar", text, string(d.Tok))
			vExpCase(out, "UExpScalar", text, string(d.Ftok))
			vExpCase(out, "UExpScalar", text, string(d.Sub.Tok))
			vExpCase(out, "UExpMapVal", text, string(d.Hdr["a"]))
			if len(d.List) == 1 {
				vExpCase(out, "UExpSliceElem", text, string(d.List[0]))
			} else {
				vExpCase(out, "UExpSliceElem", text, fmt.Sprintf("<%d elements>", len(d.List)))
			}
			vExpCase(out, "UExpInline", text, string(d.Inl))
		}
		// ---- the same through Conf.Sub (what the collector does for every component's section)
		if conf, err := vResolve(t, subFile); err != nil {
			t.Fatalf("resolve sub file: %v", err)
		} else {
			for _, path := range [][]string{{"exporters", "otlp"}, {"exporters"}} {
				sub, serr := conf, error(nil)
				for _, k := range path {
					if sub, serr = sub.Sub(k); serr != nil {
						break
					}
				}
				var ds vSubCfg
				wrap := func(c string) string {
					return strings.Repeat("(UViaSub ", len(path)) + c + strings.Repeat(")", len(path))
				}
				if serr == nil && len(path) == 1 {
					var outer struct {
						Otlp vSubCfg `mapstructure:"otlp"`
					}
					serr = sub.Unmarshal(&outer)
					ds = outer.Otlp
				} else if serr == nil {
					serr = sub.Unmarshal(&ds)
				}
				if serr != nil {
					how := "does not echo the text"
					if len(text) >= 4 && strings.Contains(serr.Error(), text) {
						how = "ECHOES the text"
					}
					term := "CUnmX " + wrap("UExpScalar") + " " + vEnc(text) + " OErr"
					out.Case(true, term)
					out.Oracle("unmarshal-changes-secret", term, fmt.Sprintf("context=Conf.Sub(%v) then Unmarshal: text %q (yaml class %s): FAILS and %s: %q; cause=unexplained", path, text, cls, how, serr.Error()))
					continue
				}
				vExpCase(out, wrap("UExpScalar"), text, string(ds.Tok))
				vExpCase(out, wrap("UExpMapVal"), text, string(ds.Hdr["a"]))
				if len(ds.List) == 1 {
					vExpCase(out, wrap("UExpSliceElem"), text, string(ds.List[0]))
				} else {
					vExpCase(out, wrap("UExpSliceElem"), text, fmt.Sprintf("<%d elements>", len(ds.List)))
				}
				vExpCase(out, wrap("UExpInline"), text, string(ds.Inl))
			}
		}
		// ---- pointer target
		conf, err = vResolve(t, ptrFile)
		var p vExpPtrCfg
		if err == nil {
			err = conf.Unmarshal(&p)
		}
		obs, detail := "", ""
		switch {
		case err != nil:
			obs = "OErr"
			detail = "resolve+unmarshal fails"
			if len(text) >= 4 && strings.Contains(err.Error(), text) {
				detail += " and the error echoes the text"
			}
		case p.Ptr == nil:
			obs, detail = "ONil", "the pointer stays nil (secret dropped)"
		default:
			obs = "(OStored " + vEnc(string(*p.Ptr)) + ")"
			if string(*p.Ptr) != text {
				detail = fmt.Sprintf("stored as %q", string(*p.Ptr))
			}
		}
		term := "CUnmX (UExpPtr " + cls + ") " + vEnc(text) + " " + obs
		out.Case(true, term)
		out.Stat("expand_UExpPtr_"+cls, 1)
		if detail != "" {
			cause := "unexplained"
			if cls != "YStr" {
				cause = "expanded-value-into-pointer-field-is-yaml-parsed"
			}
			out.Oracle("unmarshal-changes-secret", term, fmt.Sprintf("context=UExpPtr yaml class %s: text %q: %s; cause=%s", cls, text, detail, cause))
		}
	}
}
