// C14 correspondence harness A, injected into config/configopaque (in-package).
// Renders the REAL configopaque.String, alone and inside container shapes, through fmt (every
// verb x flag set x width/precision), Sprint/Sprintln/Errorf, encoding/json, goyaml.v3, the four
// methods and the explicit conversion; plus decoding through json and yaml.
//
//	case term:  CRender shape secret [(path, observed output, address printed); ...]
//	            CUnm ctx text stored
//
// Direct oracle (independent of the Coq model): for each path and shape the output is the same
// for ten adversarial secrets and contains none of them (raw, hex, base64, quoted, json-escaped).
// Oracle-only paths (no model): sigs.k8s.io/yaml (JSON based), encoding/gob, Sprintf with extra
// operands / indexed operands / star width.
package configopaque

import (
	"bytes"
	"encoding/gob"
	"encoding/json"
	"encoding/xml"
	"fmt"
	"log"
	"log/slog"
	"strings"
	"testing"
	"text/template"

	sigsyaml "sigs.k8s.io/yaml"
	yaml3 "sigs.k8s.io/yaml/goyaml.v3"
)

type vOpaque = String

func vCauseFmtV(sh *vShape) string {
	if sh.hasUnexported() {
		return "fmt-unexported-field"
	}
	return "unexplained"
}

func vCauseJSON(sh *vShape) string {
	if sh.hasMapKey() {
		return "json-map-key"
	}
	return "unexplained"
}

func vCauseNone(*vShape) string { return "unexplained" }

// slog's text handler prints non-TextMarshaler values with fmt's %+v
func vCauseSlogText(sh *vShape) string {
	if sh.hasUnexported() {
		return "fmt-unexported-field"
	}
	return "unexplained"
}

func vDropTime(_ []string, a slog.Attr) slog.Attr {
	if a.Key == slog.TimeKey {
		return slog.Attr{}
	}
	return a
}

func vErrStr(b []byte, err error) string {
	if err != nil {
		return "ERR " + err.Error()
	}
	return string(b)
}

func vOtherPaths() []*vPath {
	return []*vPath{
		{coq: "PSprint", label: "fmt.Sprint", render: func(v any) string { return fmt.Sprint(v) }, cause: vCauseFmtV},
		{coq: "PSprintln", label: "fmt.Sprintln", render: func(v any) string { return fmt.Sprintln(v) }, cause: vCauseFmtV},
		// Errorf formats with Sprintf's printer: compared with the PFmt model
		{coq: "(pf \"v\" 0 0 0)", label: "fmt.Errorf(%v).Error()", render: func(v any) string { return fmt.Errorf("%v", v).Error() }, cause: vCauseFmtV},
		{coq: "(pf \"v\" 1 0 0)", label: "fmt.Errorf(%+v).Error()", render: func(v any) string { return fmt.Errorf("%+v", v).Error() }, cause: vCauseFmtV},
		{coq: "(pf \"q\" 0 0 0)", label: "fmt.Sprintf(\"%q\") as Errorf(%w) of Errorf(%q): errors wrapped twice", render: func(v any) string {
			inner := fmt.Errorf("%q", v)
			return strings.TrimPrefix(fmt.Errorf("outer: %w", inner).Error(), "outer: ")
		}, cause: func(sh *vShape) string {
			if sh.hasUnexported() {
				return "fmt-unexported-field"
			}
			if sh.hasDeepPtr() {
				return "fmt-inner-pointer-verb"
			}
			return "unexplained"
		}},
		{coq: "PErrorfW", label: "fmt.Errorf(%w)", render: func(v any) string { return fmt.Errorf("%w", v).Error() },
			cause: func(*vShape) string { return "fmt-verb-not-stringer" }},
		{coq: "PJson", label: "json.Marshal", render: func(v any) string { return vErrStr(json.Marshal(v)) }, cause: vCauseJSON},
		{coq: "PYaml", label: "goyaml.v3 Marshal", render: func(v any) string {
			b, err := yaml3.Marshal(v)
			if err != nil {
				return "ERR " + err.Error()
			}
			var x any
			if err := yaml3.Unmarshal(b, &x); err != nil {
				return "ERR decode " + err.Error()
			}
			return vCanon(x)
		}, cause: vCauseNone,
			// two keys that marshal to the same text: the YAML text has a duplicate key and cannot be decoded back
			skipModel: func(sh *vShape) bool { return sh.hasKey2() }},
		// ---- oracle only
		{label: "goyaml.v3 Marshal (text)", render: func(v any) string { return vErrStr(yaml3.Marshal(v)) }, cause: vCauseNone},
		{label: "sigs.k8s.io/yaml Marshal", render: func(v any) string { return vErrStr(sigsyaml.Marshal(v)) }, cause: vCauseJSON},
		{label: "json.MarshalIndent", render: func(v any) string { return vErrStr(json.MarshalIndent(v, "", " ")) }, cause: vCauseJSON},
		{label: "gob", render: func(v any) string {
			var buf bytes.Buffer
			if err := gob.NewEncoder(&buf).Encode(v); err != nil {
				return "ERR " + err.Error()
			}
			return buf.String()
		}, cause: vCauseNone, emptyOmitted: true, mapOrderRandom: true},
		{label: "text/template {{.}} and {{printf \"%v\" .}}", render: func(v any) string {
			var b bytes.Buffer
			if err := template.Must(template.New("t").Parse("{{.}}|{{printf \"%v\" .}}|{{print .}}")).Execute(&b, v); err != nil {
				return "ERR " + err.Error()
			}
			return b.String()
		}, cause: vCauseFmtV},
		{label: "encoding/xml", render: func(v any) string {
			b, err := xml.Marshal(v)
			if err != nil {
				return "ERR" // (maps are unsupported; the message does not contain values)
			}
			return string(b)
		}, cause: vCauseNone},
		{label: "log.Printf(%v)", render: func(v any) string {
			var b bytes.Buffer
			log.New(&b, "", 0).Printf("cfg=%v", v)
			return b.String()
		}, cause: vCauseFmtV},
		{label: "slog text handler", render: func(v any) string {
			var b bytes.Buffer
			slog.New(slog.NewTextHandler(&b, &slog.HandlerOptions{ReplaceAttr: vDropTime})).Info("m", "k", v)
			return b.String()
		}, cause: vCauseSlogText},
		{label: "slog json handler", render: func(v any) string {
			var b bytes.Buffer
			slog.New(slog.NewJSONHandler(&b, &slog.HandlerOptions{ReplaceAttr: vDropTime})).Info("m", "k", v)
			return b.String()
		}, cause: vCauseJSON},
		{label: "fmt.Sprintf(\"x\", v) extra operand", render: func(v any) string { return fmt.Sprintf("x", v) }, cause: vCauseFmtV},
		{label: "fmt.Sprintf(\"%[1]v %[1]q\")", render: func(v any) string { return fmt.Sprintf("%[1]v %[1]q", v) }, cause: func(sh *vShape) string {
			if sh.hasUnexported() {
				return "fmt-unexported-field"
			}
			if sh.hasDeepPtr() {
				return "fmt-inner-pointer-verb"
			}
			return "unexplained"
		}},
		{label: "fmt.Sprintf(\"%*v\", 20, v)", render: func(v any) string { return fmt.Sprintf("%*v", 20, v) }, cause: vCauseFmtV},
		{label: "fmt.Sprint(\"a\", v, v)", render: func(v any) string { return fmt.Sprint("a", v, v) }, cause: vCauseFmtV},
		{label: "fmt.Fprintf(%v)+Sprintf(%s) of the result", render: func(v any) string {
			var b bytes.Buffer
			fmt.Fprintf(&b, "%v|%+v|", v, v)
			return fmt.Sprintf("%s", b.String()) // (the operand of %s is a plain string here)
		}, cause: vCauseFmtV},
	}
}

var vGoodVerbs = []string{"v", "s", "q", "x", "X"}

// every other printable ASCII rune that can follow the flags as a verb
func vBadVerbs() []string {
	var l []string
	for c := byte(33); c < 127; c++ {
		if strings.ContainsRune("vsqxX%#+-0123456789.*[ ]\"", rune(c)) {
			continue
		}
		l = append(l, string(c))
	}
	return l
}

var vWP = [][2]int{{0, 0}, {15, 0}, {0, 4}, {15, 4}, {0, 1}, {4, 0}, {15, 1}}

func TestVerifC14(t *testing.T) {
	out := vOpen()
	defer out.Close()
	rng := vNewRand(14)
	tier := vTier()
	thorough := tier == "thorough" // the "search" tier re-runs the quick enumeration (the oracle is exhaustive there)
	r := vNewRunner(out)
	other := vOtherPaths()
	bad := vBadVerbs()
	out.Stat("bad_verbs", len(bad))
	shapes := vShapes(thorough)
	out.Stat("shapes", len(shapes))
	for shi, sh := range shapes {
		var paths []*vPath
		// (1) good verbs: all 32 flag sets; width/precision variants exhaustively on the basic
		// shapes (thorough: on all), sampled 1:4 elsewhere
		for _, verb := range vGoodVerbs {
			for bits := 0; bits < 32; bits++ {
				for wi, wp := range vWP {
					if wi > 0 && !thorough && !(shi < 8 && rng.Intn(4) == 0) && rng.Intn(24) != 0 {
						continue
					}
					paths = append(paths, vFmtPath(verb, bits, wp[0], wp[1]))
					out.Stat("fmt_good_verb_specs", 1)
				}
			}
		}
		// (2) every other verb: plain, and with a random flag set / width / precision (thorough: all 32
		// flag sets for d t c p w T e U b o z !, three random ones for the rest)
		for _, verb := range bad {
			if !thorough && shi >= 8 && !strings.Contains("dtcpwTeUboz!", verb) && rng.Intn(8) != 0 {
				// quick tier, composite shapes: the 12 representative verbs always, the others 1:8
				continue
			}
			paths = append(paths, vFmtPath(verb, 0, 0, 0))
			if thorough && strings.Contains("dtcpwTeUboz!", verb) {
				for bits := 1; bits < 32; bits++ {
					wp := vWP[rng.Intn(len(vWP))]
					paths = append(paths, vFmtPath(verb, bits, wp[0], wp[1]))
				}
			} else if thorough {
				for k := 0; k < 3; k++ {
					wp := vWP[rng.Intn(len(vWP))]
					paths = append(paths, vFmtPath(verb, 1+rng.Intn(31), wp[0], wp[1]))
				}
			} else if shi < 8 || rng.Intn(3) == 0 {
				wp := vWP[rng.Intn(len(vWP))]
				paths = append(paths, vFmtPath(verb, 1+rng.Intn(31), wp[0], wp[1]))
			}
			out.Stat("fmt_other_verb_specs", 1)
		}
		paths = append(paths, other...)
		if sh.k == 'B' {
			paths = append(paths,
				&vPath{coq: "PString", label: "String()", render: func(v any) string { return v.(String).String() }, cause: vCauseNone},
				&vPath{coq: "PGoString", label: "GoString()", render: func(v any) string { return v.(String).GoString() }, cause: vCauseNone},
				&vPath{coq: "PMarshalText", label: "MarshalText()", render: func(v any) string { return vErrStr(v.(String).MarshalText()) }, cause: vCauseNone},
				&vPath{coq: "PMarshalBinary", label: "MarshalBinary()", render: func(v any) string { return vErrStr(v.(String).MarshalBinary()) }, cause: vCauseNone},
				&vPath{coq: "PCast", label: "string(v)", render: func(v any) string { return string(v.(String)) }, cause: vCauseNone, noOracle: true},
			)
		}
		r.run(sh, paths, 40)
	}

	// (3) decoding: json and yaml into struct { F String } store the text unchanged
	for _, sec := range r.secrets {
		if len(sec) > 100 {
			continue
		}
		var d struct{ F String }
		jb, _ := json.Marshal(map[string]string{"F": sec})
		if err := json.Unmarshal(jb, &d); err != nil {
			t.Fatal(err)
		}
		want := sec
		if !vValidUTF8(sec) {
			// json replaces invalid UTF-8 on the ENCODING side already; compare with what was sent
			var m map[string]string
			_ = json.Unmarshal(jb, &m)
			want = m["F"]
		}
		out.Case(true, "CUnm UJson "+vEnc(want)+" "+vEnc(string(d.F)))
		if string(d.F) != want {
			out.Oracle("unmarshal-changes-secret", "CUnm UJson "+vEnc(want)+" "+vEnc(string(d.F)), "json cause=unexplained")
		}
		if vValidUTF8(sec) {
			var y struct{ F String }
			yb, err := yaml3.Marshal(map[string]string{"f": sec})
			if err != nil {
				t.Fatal(err)
			}
			if err := yaml3.Unmarshal(yb, &y); err != nil {
				t.Fatal(err)
			}
			out.Case(true, "CUnm UYaml "+vEnc(sec)+" "+vEnc(string(y.F)))
			if string(y.F) != sec {
				out.Oracle("unmarshal-changes-secret", "CUnm UYaml "+vEnc(sec)+" "+vEnc(string(y.F)), "yaml cause=unexplained")
			}
		}
		out.Stat("unmarshal_cases", 2)
	}
	vMarkerIsFixed(out)
}

// vMarkerIsFixed: the byte slices handed out by MarshalText / MarshalBinary must be the caller's own —
// scribbling over one result must not change any later rendering ("the FIXED redaction marker").
// Run last: if the implementation shares one buffer, everything rendered afterwards is garbage.
func vMarkerIsFixed(out *vOut) {
	s := String("hunter2-s3cr3t-A")
	for _, m := range []struct {
		name, coq string
		f         func() ([]byte, error)
	}{{"MarshalText", "PMarshalText", s.MarshalText}, {"MarshalBinary", "PMarshalBinary", s.MarshalBinary}} {
		b, _ := m.f()
		for i := range b {
			b[i] = 'X'
		}
		b = append(b[:0], "overwritten-by-the-caller"...)
		_ = b
		again, _ := m.f()
		js, _ := json.Marshal(s)
		term := vCaseRender(vBare, string(s), []vRendering{{m.coq, string(again), false}, {"PJson", string(js), false}, {"PSprint", fmt.Sprint(s), false}})
		out.Case(true, term)
		out.Stat("marker_fixed_after_caller_mutation", 1)
		if string(again) != s.String() || !strings.Contains(string(js), s.String()) {
			out.Oracle("marker-not-fixed", term, fmt.Sprintf("after the caller overwrote the slice returned by %s, %s returns %q and json.Marshal %q; cause=unexplained", m.name, m.name, again, js))
		}
	}
}

func vValidUTF8(s string) bool {
	for _, r := range s {
		if r == 0xFFFD {
			return false
		}
	}
	return true
}
