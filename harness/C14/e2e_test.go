// C14 correspondence harness B, injected into internal/e2e (a module that depends on
// configopaque, confmap, confighttp, configgrpc, configtls and zap).
// Paths: confmap.Conf.Marshal + ToStringMap of every container shape, zap.Any / zap.Reflect /
// zap.Stringer through zap's JSON encoder, confmap Unmarshal into opaque fields in four struct
// contexts (plain, nested Unmarshaler, squashed plain, squashed Unmarshaler).
// Oracle-only: sugared-logger calls, console encoder, and the REAL config structs
// confighttp.ClientConfig / ServerConfig, configgrpc.ClientConfig, configtls.Config with secret
// headers / PEMs rendered through fmt, json, confmap and zap.
package e2e

import (
	"bytes"
	"encoding/json"
	"fmt"
	"strings"
	"testing"

	"go.uber.org/zap"
	"go.uber.org/zap/zapcore"

	"go.opentelemetry.io/collector/config/configgrpc"
	"go.opentelemetry.io/collector/config/confighttp"
	"go.opentelemetry.io/collector/config/configopaque"
	"go.opentelemetry.io/collector/config/configtls"
	"go.opentelemetry.io/collector/confmap"
)

type vOpaque = configopaque.String

func vCauseNone(*vShape) string { return "unexplained" }

func vCauseJSON(sh *vShape) string {
	if sh.hasMapKey() {
		return "json-map-key"
	}
	return "unexplained"
}

func vCauseFmtV(sh *vShape) string {
	if sh.hasUnexported() {
		return "fmt-unexported-field"
	}
	return "unexplained"
}

func vConfMarshal(v any) string {
	conf := confmap.New()
	if err := conf.Marshal(v); err != nil {
		return "ERR " + err.Error()
	}
	return vCanon(conf.ToStringMap())
}

func vZapLine(enc zapcore.Encoder, f zapcore.Field) string {
	buf, err := enc.Clone().EncodeEntry(zapcore.Entry{}, []zapcore.Field{f})
	if err != nil {
		return "ERR " + err.Error()
	}
	return strings.TrimRight(buf.String(), "\n")
}

type vSyncBuf struct{ bytes.Buffer }

func (*vSyncBuf) Sync() error { return nil }

func vSugar(console bool, f func(l *zap.SugaredLogger)) string {
	var b vSyncBuf
	cfg := zapcore.EncoderConfig{MessageKey: "msg"}
	var enc zapcore.Encoder
	if console {
		enc = zapcore.NewConsoleEncoder(cfg)
	} else {
		enc = zapcore.NewJSONEncoder(cfg)
	}
	l := zap.New(zapcore.NewCore(enc, &b, zapcore.DebugLevel)).Sugar()
	f(l)
	return b.String()
}

func vE2EPaths(sh *vShape) []*vPath {
	jenc := zapcore.NewJSONEncoder(zapcore.EncoderConfig{})
	cenc := zapcore.NewConsoleEncoder(zapcore.EncoderConfig{})
	ps := []*vPath{
		{coq: "PConfmap", label: "confmap.Marshal+ToStringMap", render: vConfMarshal, cause: vCauseNone},
		{coq: "PZapAny", label: "zap.Any (json encoder)", render: func(v any) string { return vZapLine(jenc, zap.Any("k", v)) }, cause: vCauseJSON},
		{coq: "PZapReflect", label: "zap.Reflect (json encoder)", render: func(v any) string { return vZapLine(jenc, zap.Reflect("k", v)) }, cause: vCauseJSON},
		// ---- oracle only
		{label: "zap.Any (console encoder)", render: func(v any) string { return vZapLine(cenc, zap.Any("k", v)) }, cause: vCauseJSON},
		{label: "sugar.Infof(%v)", render: func(v any) string { return vSugar(false, func(l *zap.SugaredLogger) { l.Infof("cfg=%v", v) }) }, cause: vCauseFmtV},
		{label: "sugar.Info(v)", render: func(v any) string { return vSugar(true, func(l *zap.SugaredLogger) { l.Info("cfg ", v) }) }, cause: vCauseFmtV},
		{label: "sugar.Infow(k, v)", render: func(v any) string { return vSugar(false, func(l *zap.SugaredLogger) { l.Infow("m", "k", v) }) }, cause: vCauseJSON},
		{label: "sugar.With(k, v).Error", render: func(v any) string { return vSugar(true, func(l *zap.SugaredLogger) { l.With("k", v).Error("m") }) }, cause: vCauseJSON},
		{label: "confmap.Marshal then json of ToStringMap", render: func(v any) string {
			conf := confmap.New()
			if err := conf.Marshal(v); err != nil {
				return "ERR " + err.Error()
			}
			b, err := json.Marshal(conf.ToStringMap())
			if err != nil {
				return "ERR " + err.Error()
			}
			return string(b)
		}, cause: vCauseNone},
		{label: "confmap.Marshal then fmt %v of ToStringMap", render: func(v any) string {
			conf := confmap.New()
			if err := conf.Marshal(v); err != nil {
				return "ERR " + err.Error()
			}
			return fmt.Sprintf("%v", conf.ToStringMap())
		}, cause: vCauseNone},
	}
	if sh.k == 'B' || (sh.k == 'P' && sh.in.k == 'B') {
		ps = append(ps, &vPath{coq: "PZapStringer", label: "zap.Stringer", render: func(v any) string {
			return vZapLine(jenc, zap.Stringer("k", v.(fmt.Stringer)))
		}, cause: vCauseNone})
	}
	return ps
}

// ---- decoding contexts ---------------------------------------------------------------------------
type vIn struct {
	Tok configopaque.String `mapstructure:"tok"`
	X   int                 `mapstructure:"x"`
}

type vInU struct {
	Tok configopaque.String `mapstructure:"tok"`
	X   int                 `mapstructure:"x"`
}

func (q *vInU) Unmarshal(c *confmap.Conf) error { return c.Unmarshal(q, confmap.WithIgnoreUnused()) }

type vPlain struct {
	Tok  configopaque.String            `mapstructure:"tok"`
	Hdr  map[string]configopaque.String `mapstructure:"hdr"`
	List []configopaque.String          `mapstructure:"list"`
	Ptr  *configopaque.String           `mapstructure:"ptr"`
}

type vNestedU struct {
	In   vInU   `mapstructure:"in"`
	More string `mapstructure:"more"`
}

type vSquashPlain struct {
	In   vIn    `mapstructure:",squash"`
	More string `mapstructure:"more"`
}

type vSquashU struct {
	In   vInU   `mapstructure:",squash"`
	More string `mapstructure:"more"`
}

func vUnmCase(out *vOut, ctx, sec, stored, cause string) {
	term := "CUnm " + ctx + " " + vEnc(sec) + " " + vEnc(stored)
	out.Case(true, term)
	out.Stat("unmarshal_"+ctx, 1)
	if stored != sec {
		out.Oracle("unmarshal-changes-secret", term, fmt.Sprintf("context=%s: text %q was stored as %q; cause=%s", ctx, sec, stored, cause))
	}
}

func TestVerifC14E2E(t *testing.T) {
	out := vOpen()
	defer out.Close()
	tier := vTier()
	thorough := tier == "thorough"
	r := vNewRunner(out)
	shapes := vShapes(thorough)
	out.Stat("shapes", len(shapes))
	for _, sh := range shapes {
		r.run(sh, vE2EPaths(sh), 40)
	}

	// ---- decoding through confmap
	for _, sec := range r.secrets {
		if len(sec) > 100 {
			continue
		}
		{
			var d vPlain
			in := confmap.NewFromStringMap(map[string]any{"tok": sec, "hdr": map[string]any{"a": sec}, "list": []any{sec}, "ptr": sec})
			if err := in.Unmarshal(&d); err != nil {
				t.Fatalf("plain: %v", err)
			}
			vUnmCase(out, "UConfPlain", sec, string(d.Tok), "unexplained")
			vUnmCase(out, "UConfPlain", sec, string(d.Hdr["a"]), "unexplained")
			if len(d.List) == 1 {
				vUnmCase(out, "UConfPlain", sec, string(d.List[0]), "unexplained")
			} else {
				out.Stat("unmarshal_list_split_by_comma", 1)
			}
			if d.Ptr != nil {
				vUnmCase(out, "UConfPlain", sec, string(*d.Ptr), "unexplained")
			}
		}
		{
			var d vNestedU
			in := confmap.NewFromStringMap(map[string]any{"in": map[string]any{"tok": sec, "x": 3}, "more": "m"})
			if err := in.Unmarshal(&d); err != nil {
				t.Fatalf("nested: %v", err)
			}
			vUnmCase(out, "UConfNestedUnmarshaler", sec, string(d.In.Tok), "unexplained")
		}
		{
			var d vSquashPlain
			in := confmap.NewFromStringMap(map[string]any{"tok": sec, "x": 3, "more": "m"})
			if err := in.Unmarshal(&d); err != nil {
				t.Fatalf("squash plain: %v", err)
			}
			vUnmCase(out, "UConfSquashPlain", sec, string(d.In.Tok), "unexplained")
		}
		{
			var d vSquashU
			in := confmap.NewFromStringMap(map[string]any{"tok": sec, "x": 3, "more": "m"})
			if err := in.Unmarshal(&d); err != nil {
				t.Fatalf("squash unmarshaler: %v", err)
			}
			vUnmCase(out, "UConfSquashUnmarshaler", sec, string(d.In.Tok), "confmap-squash-unmarshaler-remarshal")
		}
	}

	// ---- the real configuration structs (oracle only)
	type real struct {
		name    string
		mk      func(s string) any
		deepPtr bool // the secret sits behind a pointer field: %s / %q print it via fmtPointer's bad-verb report
	}
	reals := []real{
		{"confighttp.ClientConfig", func(s string) any {
			c := confighttp.NewDefaultClientConfig()
			c.Headers = map[string]configopaque.String{"Authorization": configopaque.String(s), "X-Tok": configopaque.String(s)}
			c.TLSSetting.KeyPem = configopaque.String(s)
			return c
		}, false},
		{"*confighttp.ServerConfig", func(s string) any {
			c := confighttp.NewDefaultServerConfig()
			c.ResponseHeaders = map[string]configopaque.String{"X-Tok": configopaque.String(s)}
			return &c
		}, false},
		{"confighttp.ServerConfig with *configtls.ServerConfig", func(s string) any {
			c := confighttp.NewDefaultServerConfig()
			c.TLSSetting = &configtls.ServerConfig{Config: configtls.Config{KeyPem: configopaque.String(s), CertPem: configopaque.String(s)}}
			return c
		}, true},
		{"configgrpc.ClientConfig", func(s string) any {
			c := configgrpc.NewDefaultClientConfig()
			c.Headers = map[string]configopaque.String{"authorization": configopaque.String(s)}
			return *c
		}, false},
		{"configtls.Config", func(s string) any {
			return configtls.Config{CAPem: configopaque.String(s), CertPem: configopaque.String(s), KeyPem: configopaque.String(s)}
		}, false},
	}
	jenc := zapcore.NewJSONEncoder(zapcore.EncoderConfig{})
	renders := []struct {
		name string
		f    func(v any) string
	}{
		{"fmt %v", func(v any) string { return fmt.Sprintf("%v", v) }},
		{"fmt %+v", func(v any) string { return fmt.Sprintf("%+v", v) }},
		{"fmt %#v", func(v any) string { return fmt.Sprintf("%#v", v) }},
		{"fmt %s", func(v any) string { return fmt.Sprintf("%s", v) }},
		{"fmt %q", func(v any) string { return fmt.Sprintf("%q", v) }},
		{"fmt %x", func(v any) string { return fmt.Sprintf("%x", v) }},
		{"json", func(v any) string { b, _ := json.Marshal(v); return string(b) }},
		{"confmap", vConfMarshal},
		{"zap.Any", func(v any) string { return vZapLine(jenc, zap.Any("cfg", v)) }},
	}
	for _, rc := range reals {
		for _, rd := range renders {
			var first string
			for si, sec := range r.secrets {
				o := rd.f(rc.mk(sec))
				bad := ""
				if si == 0 {
					first = o
				} else if o != first && !strings.Contains(rd.name, "fmt") && sec != "" {
					// (an empty secret is omitted: omitempty)
					// fmt output of these structs may contain addresses of freshly allocated parts
					bad = fmt.Sprintf("output differs between secret #0 and secret #%d", si)
				}
				if how := vReveals(o, sec); how != "" {
					bad = fmt.Sprintf("secret #%d occurs in the output (%s)", si, how)
				}
				out.Stat("real_config_renderings", 1)
				if bad != "" {
					if len(o) > 300 {
						o = o[:300] + "..."
					}
					cause := "unexplained"
					if rc.deepPtr && (rd.name == "fmt %s" || rd.name == "fmt %q") {
						cause = "fmt-inner-pointer-verb"
					}
					out.Stat("leak_real_config_"+cause, 1)
					out.Oracle("secret-revealed", "CRender SBare "+vEnc(sec)+" []", fmt.Sprintf("path=real config %s rendered with %s: %s: %q; cause=%s", rc.name, rd.name, bad, o, cause))
					break
				}
			}
		}
	}
}
