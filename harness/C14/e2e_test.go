// C14 correspondence harness B, injected into internal/e2e (a module that depends on
// configopaque, confmap, confighttp, configgrpc, configtls and zap).
// Paths: confmap.Conf.Marshal + ToStringMap of every container shape, zap.Any / zap.Reflect /
// zap.Stringer through zap's JSON encoder, confmap Unmarshal into opaque fields in four struct
// contexts (plain, nested Unmarshaler, squashed plain, squashed Unmarshaler).
// Oracle-only: sugared-logger calls, console encoder, and the REAL config structs
// confighttp.ClientConfig / ServerConfig, configgrpc.ClientConfig, configtls.Config with secret
// headers / PEMs rendered through fmt, json, confmap and zap.
package e2e

import (
	"bytes"
	"context"
	"crypto/ecdsa"
	"crypto/elliptic"
	"crypto/rand"
	"crypto/tls"
	"crypto/x509"
	"crypto/x509/pkix"
	"encoding/base64"
	"encoding/json"
	"encoding/pem"
	"errors"
	"fmt"
	"math/big"
	"net"
	"net/http"
	"net/http/httptest"
	"os"
	"reflect"
	"regexp"
	"sort"
	"strconv"
	"strings"
	"sync"
	"testing"
	"time"

	"go.uber.org/zap"
	"go.uber.org/zap/zapcore"
	"go.uber.org/zap/zaptest/observer"
	"google.golang.org/grpc"
	"google.golang.org/grpc/codes"
	"google.golang.org/grpc/metadata"
	"google.golang.org/grpc/status"
	"google.golang.org/protobuf/types/known/emptypb"

	"go.opentelemetry.io/collector/component/componenttest"

	"go.opentelemetry.io/collector/config/configgrpc"
	"go.opentelemetry.io/collector/config/confighttp"
	"go.opentelemetry.io/collector/config/configopaque"
	"go.opentelemetry.io/collector/config/configtls"
	"go.opentelemetry.io/collector/confmap"
)

type vOpaque = configopaque.String

// vMarsh implements confmap.Marshaler the way hand-written Marshal methods do: it hands its content to the
// Conf as it is (typed values); redacting them is the generic encoder's job, which has to run over the
// hook's result.
type vMarsh struct{ V any }

func (m vMarsh) Marshal(conf *confmap.Conf) error {
	return conf.Merge(confmap.NewFromStringMap(map[string]any{"v": m.V}))
}

func init() {
	vMarshType = reflect.TypeOf(vMarsh{})
	vMakeMarsh = func(inner any) any { return vMarsh{V: inner} }
}

// vMarshShapes: nested (and top-level) Marshalers around the basic contents
func vMarshShapes(thorough bool) []*vShape {
	l := []*vShape{
		vNM(vBare), vF(vNM(vBare)), vF(vNM(vM(vBare))), vF(vNM(vS(vBare))), vF(vP(vNM(vBare))), vM(vNM(vBare)), vS(vNM(vF(vBare))),
		vF(vI(vNM(vP(vBare)))), vF(vNM(vKey)), vF(vNM(vA(vBare))), vF(vNM(vNM(vBare))), vP(vNM(vM(vBare))), vF(vNM(vKey2)),
	}
	if thorough {
		l = append(l, vF(vNM(vF(vM(vBare)))), vF(vNM(vU(vBare))), vS(vP(vNM(vBare))), vM(vNM(vS(vF(vBare)))), vF(vNM(vI(vBare))), vNM(vKey2), vF(vNM(vP(vF(vBare)))))
	}
	return l
}

// vRawDump prints what is REACHABLE in a marshalled configuration map, looking through typed values: a
// configuration map is supposed to hold plain, already redacted data.
func vRawDump(v reflect.Value, b *strings.Builder, depth int) {
	if !v.IsValid() || depth > 12 {
		b.WriteString("nil")
		return
	}
	switch v.Kind() {
	case reflect.Interface, reflect.Pointer:
		if v.IsNil() {
			b.WriteString("nil")
			return
		}
		vRawDump(v.Elem(), b, depth+1)
	case reflect.String:
		fmt.Fprintf(b, "%q", v.String())
	case reflect.Map:
		keys := v.MapKeys()
		ss := make([]string, len(keys))
		for i, k := range keys {
			var kb, vb strings.Builder
			vRawDump(k, &kb, depth+1)
			vRawDump(v.MapIndex(k), &vb, depth+1)
			ss[i] = kb.String() + ":" + vb.String()
		}
		sort.Strings(ss)
		b.WriteString("{" + strings.Join(ss, ",") + "}")
	case reflect.Slice, reflect.Array:
		b.WriteString("[")
		for i := 0; i < v.Len(); i++ {
			if i > 0 {
				b.WriteString(",")
			}
			vRawDump(v.Index(i), b, depth+1)
		}
		b.WriteString("]")
	case reflect.Struct:
		b.WriteString(v.Type().String() + "{")
		for i := 0; i < v.NumField(); i++ {
			if i > 0 {
				b.WriteString(",")
			}
			vRawDump(v.Field(i), b, depth+1)
		}
		b.WriteString("}")
	default:
		b.WriteString("<" + v.Kind().String() + ">")
	}
}

func vCauseNone(*vShape) string { return "unexplained" }

func vCauseJSON(sh *vShape) string {
	if sh.hasMapKey() {
		return "json-map-key"
	}
	return "unexplained"
}

func vCauseFmtV(sh *vShape) string {
	if sh.hasUnexported() {
		return "fmt-unexported-field"
	}
	return "unexplained"
}

func vConfMarshal(v any) string {
	conf := confmap.New()
	if err := conf.Marshal(v); err != nil {
		return "ERR " + err.Error()
	}
	return vCanon(conf.ToStringMap())
}

func vZapLine(enc zapcore.Encoder, f zapcore.Field) string {
	buf, err := enc.Clone().EncodeEntry(zapcore.Entry{}, []zapcore.Field{f})
	if err != nil {
		return "ERR " + err.Error()
	}
	return strings.TrimRight(buf.String(), "\n")
}

type vSyncBuf struct{ bytes.Buffer }

func (*vSyncBuf) Sync() error { return nil }

func vSugar(console bool, f func(l *zap.SugaredLogger)) string {
	var b vSyncBuf
	cfg := zapcore.EncoderConfig{MessageKey: "msg"}
	var enc zapcore.Encoder
	if console {
		enc = zapcore.NewConsoleEncoder(cfg)
	} else {
		enc = zapcore.NewJSONEncoder(cfg)
	}
	l := zap.New(zapcore.NewCore(enc, &b, zapcore.DebugLevel)).Sugar()
	f(l)
	return b.String()
}

func vE2EPaths(sh *vShape) []*vPath {
	jenc := zapcore.NewJSONEncoder(zapcore.EncoderConfig{})
	cenc := zapcore.NewConsoleEncoder(zapcore.EncoderConfig{})
	ps := []*vPath{
		{coq: "PConfmap", label: "confmap.Marshal+ToStringMap", render: vConfMarshal, cause: vCauseNone},
		{coq: "PZapAny", label: "zap.Any (json encoder)", render: func(v any) string { return vZapLine(jenc, zap.Any("k", v)) }, cause: vCauseJSON},
		{coq: "PZapReflect", label: "zap.Reflect (json encoder)", render: func(v any) string { return vZapLine(jenc, zap.Reflect("k", v)) }, cause: vCauseJSON},
		// ---- oracle only
		{label: "zap.Any (console encoder)", render: func(v any) string { return vZapLine(cenc, zap.Any("k", v)) }, cause: vCauseJSON},
		{label: "sugar.Infof(%v)", render: func(v any) string { return vSugar(false, func(l *zap.SugaredLogger) { l.Infof("cfg=%v", v) }) }, cause: vCauseFmtV},
		{label: "sugar.Info(v)", render: func(v any) string { return vSugar(true, func(l *zap.SugaredLogger) { l.Info("cfg ", v) }) }, cause: vCauseFmtV},
		{label: "sugar.Infow(k, v)", render: func(v any) string { return vSugar(false, func(l *zap.SugaredLogger) { l.Infow("m", "k", v) }) }, cause: vCauseJSON},
		{label: "sugar.With(k, v).Error", render: func(v any) string { return vSugar(true, func(l *zap.SugaredLogger) { l.With("k", v).Error("m") }) }, cause: vCauseJSON},
		{label: "confmap.Marshal: everything reachable in ToStringMap (typed values looked through)", render: func(v any) string {
			conf := confmap.New()
			if err := conf.Marshal(v); err != nil {
				return "ERR " + err.Error()
			}
			var b strings.Builder
			vRawDump(reflect.ValueOf(conf.ToStringMap()), &b, 0)
			return b.String()
		}, cause: func(sh *vShape) string {
			return "unexplained" // (arrays were left typed before repair b32d82269: the old failing inputs stay in the generator)
		}},
		{label: "confmap.Marshal: conf.Get of every leaf, fmt %s of string(kind)", render: func(v any) string {
			conf := confmap.New()
			if err := conf.Marshal(v); err != nil {
				return "ERR " + err.Error()
			}
			var b strings.Builder
			for _, k := range conf.AllKeys() {
				x := reflect.ValueOf(conf.Get(k))
				if x.IsValid() && x.Kind() == reflect.String {
					b.WriteString(k + "=" + x.String() + ";") // what a kind-based consumer (cast, koanf String()) sees
				}
			}
			return b.String()
		}, cause: vCauseNone},
		{label: "confmap.Marshal then json of ToStringMap", render: func(v any) string {
			conf := confmap.New()
			if err := conf.Marshal(v); err != nil {
				return "ERR " + err.Error()
			}
			b, err := json.Marshal(conf.ToStringMap())
			if err != nil {
				return "ERR " + err.Error()
			}
			return string(b)
		}, cause: vCauseNone},
		{label: "confmap.Marshal then fmt %v of ToStringMap", render: func(v any) string {
			conf := confmap.New()
			if err := conf.Marshal(v); err != nil {
				return "ERR " + err.Error()
			}
			return fmt.Sprintf("%v", conf.ToStringMap())
		}, cause: vCauseNone},
	}
	for _, f := range []struct {
		verb string
		bits int
	}{{"v", 0}, {"v", 1}, {"v", 4}, {"s", 0}, {"q", 0}, {"x", 0}, {"d", 0}} {
		ps = append(ps, vFmtPath(f.verb, f.bits, 0, 0))
	}
	if sh.k == 'B' || (sh.k == 'P' && sh.in.k == 'B') {
		ps = append(ps, &vPath{coq: "PZapStringer", label: "zap.Stringer", render: func(v any) string {
			return vZapLine(jenc, zap.Stringer("k", v.(fmt.Stringer)))
		}, cause: vCauseNone})
	}
	return ps
}

// ---- decoding contexts ---------------------------------------------------------------------------
type vIn struct {
	Tok configopaque.String `mapstructure:"tok"`
	X   int                 `mapstructure:"x"`
}

type vInU struct {
	Tok configopaque.String `mapstructure:"tok"`
	X   int                 `mapstructure:"x"`
}

func (q *vInU) Unmarshal(c *confmap.Conf) error { return c.Unmarshal(q, confmap.WithIgnoreUnused()) }

type vPlain struct {
	Tok  configopaque.String            `mapstructure:"tok"`
	Hdr  map[string]configopaque.String `mapstructure:"hdr"`
	List []configopaque.String          `mapstructure:"list"`
	Ptr  *configopaque.String           `mapstructure:"ptr"`
}

type vNestedU struct {
	In   vInU   `mapstructure:"in"`
	More string `mapstructure:"more"`
}

type vSquashPlain struct {
	In   vIn    `mapstructure:",squash"`
	More string `mapstructure:"more"`
}

type vSquashU struct {
	In   vInU   `mapstructure:",squash"`
	More string `mapstructure:"more"`
}

func vUnmCase(out *vOut, ctx, sec, stored, cause string) {
	term := "CUnm " + ctx + " " + vEnc(sec) + " " + vEnc(stored)
	out.Case(true, term)
	out.Stat("unmarshal_"+ctx, 1)
	if stored != sec {
		out.Oracle("unmarshal-changes-secret", term, fmt.Sprintf("context=%s: text %q was stored as %q; cause=%s", ctx, sec, stored, cause))
	}
}

// ---- use: what the consumers of an opaque value actually send --------------------------------------
func vUseCase(out *vOut, consumer, key, sec, got string) {
	term := "CUse " + consumer + " " + vEnc(sec) + " " + vEnc(got)
	out.Case(true, term)
	out.Stat("use_"+strings.Fields(strings.Trim(consumer, "()"))[0], 1)
	if got != sec {
		out.Oracle("use-does-not-yield-secret", term, fmt.Sprintf("consumer=%s key=%q: configured %q, the consumer sent %q; cause=unexplained", consumer, key, sec, got))
	}
}

func vEncPairs(l [][2]string) string {
	it := make([]string, len(l))
	for i, p := range l {
		it[i] = "(" + vEnc(p[0]) + ", " + vEnc(p[1]) + ")"
	}
	return vList(it)
}

type vKVs struct {
	k  string
	vs []string
}

func vEncMulti(l []vKVs) string {
	it := make([]string, len(l))
	for i, p := range l {
		vs := make([]string, len(p.vs))
		for j, v := range p.vs {
			vs[j] = vEnc(v)
		}
		it[i] = "(" + vEnc(p.k) + ", " + vList(vs) + ")"
	}
	return vList(it)
}

// vHeaderOracle: every configured (key, secret) must have arrived as exactly that secret (the direct oracle of
// the "use" clause on the header maps; independent of the Coq model)
func vHeaderOracle(out *vOut, what, term string, cfg [][2]string, skip func(k string) bool, got func(k string) []string) {
	for _, kv := range cfg {
		if skip != nil && skip(kv[0]) {
			continue
		}
		g := got(kv[0])
		if len(g) != 1 || g[0] != kv[1] {
			out.Oracle("use-does-not-yield-secret", term, fmt.Sprintf("consumer=%s key=%q: configured %q, the consumer sent %q; cause=unexplained", what, kv[0], kv[1], g))
			return
		}
	}
}

func vHeaderSafe(s string) bool {
	if s == "" || s != strings.TrimSpace(s) {
		return false
	}
	for i := 0; i < len(s); i++ {
		if s[i] < 0x20 || s[i] > 0x7e {
			return false
		}
	}
	return true
}

// vHTTPValueSafe: what net/http accepts as a header value — any byte except control characters (obs-text, i.e. bytes
// >= 0x80, included); surrounding blanks are trimmed by the transport
func vHTTPValueSafe(s string) bool {
	if s == "" || s != strings.TrimSpace(s) {
		return false
	}
	for i := 0; i < len(s); i++ {
		if (s[i] < 0x20 && s[i] != '\t') || s[i] == 0x7f {
			return false
		}
	}
	return true
}

func vHostSafe(s string) bool {
	for i := 0; i < len(s); i++ {
		c := s[i]
		if !(c >= 'a' && c <= 'z' || c >= 'A' && c <= 'Z' || c >= '0' && c <= '9' || c == '-' || c == '.' || c == '_') {
			return false
		}
	}
	return s != ""
}

func textprotoCanon(k string) string { return http.CanonicalHeaderKey(k) }

func vUseHTTP(t *testing.T, out *vOut, secrets []string) {
	ctx := context.Background()
	var mu sync.Mutex
	var gotHdr http.Header
	var gotHost string
	srv := httptest.NewServer(http.HandlerFunc(func(w http.ResponseWriter, r *http.Request) {
		mu.Lock()
		gotHdr, gotHost = r.Header.Clone(), r.Host
		mu.Unlock()
	}))
	defer srv.Close()
	keys := []string{"Authorization", "X-Api-Key", "X-Signature-Bin", "x-tenant-bin"}
	// ---- the whole map at once: distinct secrets per key, key forms of every case, a header the caller had set
	var safe, hostSafe []string
	for _, sec := range secrets {
		if vHeaderSafe(sec) && len(sec) < 200 {
			safe = append(safe, sec)
			if vHostSafe(sec) {
				hostSafe = append(hostSafe, sec)
			}
		}
	}
	safe = append(safe, "tok-"+strings.Repeat("Zx9-", 40)) // a long token (164 bytes)
	// header values are BYTES: non-ASCII secrets (UTF-8, Latin-1 bytes, a tab inside) must arrive as configured
	for _, sec := range append(append([]string{}, secrets...), "l\xe4tin1-\xfc\xdf-s3cr3t", "tab\tinside-s3cr3t", "emoji-\U0001F511-key") {
		if !vHeaderSafe(sec) && vHTTPValueSafe(sec) && len(sec) < 200 {
			safe = append(safe, sec)
		}
	}
	hostSafe = append(hostSafe, "long-"+strings.Repeat("h0st.", 14)+"example")
	mkeys := []string{"Authorization", "authorization-2", "X-Api-Key", "X-Signature-Bin", "x-tenant-bin", "X-UPPER-BIN", "x_under_score", "X-Mixed-cASE-bin", "x-bin", "bin"}
	for r := 0; r < len(safe); r++ {
		var cfg [][2]string
		for j, k := range mkeys {
			cfg = append(cfg, [2]string{k, safe[(r+j)%len(safe)]})
		}
		hostCfg := ""
		switch r % 3 {
		case 0:
			hostCfg = hostSafe[r%len(hostSafe)]
			cfg = append(cfg, [2]string{"Host", hostCfg})
		case 1:
			cfg = append(cfg, [2]string{"Host", ""}) // present but empty: the request's own host stays
		}
		hm := map[string]configopaque.String{}
		for _, kv := range cfg {
			hm[kv[0]] = configopaque.String(kv[1])
		}
		cc := confighttp.NewDefaultClientConfig()
		cc.Endpoint = srv.URL
		cc.Headers = hm
		cl, err := cc.ToClient(ctx, componenttest.NewNopHost(), componenttest.NewNopTelemetrySettings())
		if err != nil {
			t.Fatalf("ToClient: %v", err)
		}
		req, _ := http.NewRequestWithContext(ctx, http.MethodGet, srv.URL, nil)
		pre := [][2]string{{"X-Api-Key", "set-by-the-caller"}, {"X-Untouched", "keep-me"}}
		for _, p := range pre {
			req.Header.Set(p[0], p[1])
		}
		reqHost := req.URL.Host
		if resp, err := cl.Do(req); err != nil {
			t.Fatalf("http client: %v", err)
		} else {
			resp.Body.Close()
		}
		mu.Lock()
		first := gotHdr.Clone()
		mu.Unlock()
		// a second request through the same client must carry the same secrets (no state kept between requests)
		req2, _ := http.NewRequestWithContext(ctx, http.MethodPost, srv.URL, strings.NewReader("x"))
		for _, p := range pre {
			req2.Header.Set(p[0], p[1])
		}
		if resp, err := cl.Do(req2); err != nil {
			t.Fatalf("http client (2nd request): %v", err)
		} else {
			resp.Body.Close()
		}
		mu.Lock()
		for _, k := range mkeys {
			if a, b := first.Values(k), gotHdr.Values(k); fmt.Sprint(a) != fmt.Sprint(b) {
				out.Oracle("use-does-not-yield-secret", "CHttpClient "+vEncPairs(cfg)+" [] (A \"\") (A \"\") []", fmt.Sprintf("consumer=headerRoundTripper.RoundTrip key=%q: the first request carried %q, the second one through the same client %q; cause=unexplained", k, a, b))
			}
		}
		// no configured value may travel under a key it was not configured for
		for hk, hv := range gotHdr {
			for _, kv := range cfg {
				if kv[1] != "" && vDistinctive(kv[1]) && textprotoCanon(hk) != textprotoCanon(kv[0]) && strings.Contains(strings.Join(hv, "\n"), kv[1]) {
					own := false
					for _, kv2 := range cfg {
						if textprotoCanon(kv2[0]) == textprotoCanon(hk) && kv2[1] == kv[1] {
							own = true
						}
					}
					if !own {
						out.Oracle("secret-revealed", "CHttpClient "+vEncPairs(cfg)+" [] (A \"\") (A \"\") []", fmt.Sprintf("path=http request headers: the value configured for %q also travels under %q: %q; cause=unexplained", kv[0], hk, hv))
					}
				}
			}
		}
		var obs []vKVs
		for _, k := range append(append([]string{}, mkeys...), "X-Untouched", "x-absent") {
			obs = append(obs, vKVs{k, gotHdr.Values(k)})
		}
		term := "CHttpClient " + vEncPairs(cfg) + " " + vEncPairs(pre) + " " + vEnc(reqHost) + " " + vEnc(gotHost) + " " + vEncMulti(obs)
		out.Case(true, term)
		out.Stat("use_map_http_client", 1)
		hdr := gotHdr
		vHeaderOracle(out, "headerRoundTripper.RoundTrip", term, cfg, func(k string) bool { return k == "Host" }, func(k string) []string { return hdr.Values(k) })
		wantHost := reqHost
		if hostCfg != "" {
			wantHost = hostCfg
		}
		if gotHost != wantHost {
			out.Oracle("use-does-not-yield-secret", term, fmt.Sprintf("consumer=headerRoundTripper.RoundTrip key=\"Host\": configured %q, the server saw Host %q; cause=unexplained", hostCfg, gotHost))
		}
		mu.Unlock()
		// -- server response headers
		sc := confighttp.NewDefaultServerConfig()
		sc.Endpoint = "127.0.0.1:0"
		sc.TLSSetting = nil
		sc.ResponseHeaders = map[string]configopaque.String{}
		var scfg [][2]string
		for _, kv := range cfg {
			if kv[0] != "Host" {
				scfg = append(scfg, kv)
				sc.ResponseHeaders[kv[0]] = configopaque.String(kv[1])
			}
		}
		lis, err := sc.ToListener(ctx)
		if err != nil {
			t.Fatalf("ToListener: %v", err)
		}
		hs, err := sc.ToServer(ctx, componenttest.NewNopHost(), componenttest.NewNopTelemetrySettings(), http.HandlerFunc(func(w http.ResponseWriter, _ *http.Request) { w.WriteHeader(204) }))
		if err != nil {
			t.Fatalf("ToServer: %v", err)
		}
		go func() { _ = hs.Serve(lis) }()
		rctx, cancel := context.WithTimeout(ctx, 30*time.Second)
		rreq, _ := http.NewRequestWithContext(rctx, http.MethodGet, "http://"+lis.Addr().String()+"/", nil)
		resp, err := http.DefaultClient.Do(rreq)
		if err != nil {
			cancel()
			t.Fatalf("http server: %v", err)
		}
		var sobs []vKVs
		for _, k := range append(append([]string{}, mkeys...), "x-absent") {
			sobs = append(sobs, vKVs{k, resp.Header.Values(k)})
		}
		sterm := "CHttpServer " + vEncPairs(scfg) + " " + vEncMulti(sobs)
		out.Case(true, sterm)
		out.Stat("use_map_http_server", 1)
		rh := resp.Header
		vHeaderOracle(out, "responseHeadersHandler", sterm, scfg, nil, func(k string) []string { return rh.Values(k) })
		resp.Body.Close()
		cancel()
		_ = hs.Close()
	}
	for _, sec := range append(append([]string{}, secrets...), "l\xe4tin1-\xfc\xdf-s3cr3t", "tab\tinside-s3cr3t") {
		if !vHTTPValueSafe(sec) {
			continue
		}
		// -- client headers and Host
		cc := confighttp.NewDefaultClientConfig()
		cc.Endpoint = srv.URL
		cc.Headers = map[string]configopaque.String{"Host": configopaque.String(sec)}
		for _, k := range keys {
			cc.Headers[k] = configopaque.String(sec)
		}
		cl, err := cc.ToClient(ctx, componenttest.NewNopHost(), componenttest.NewNopTelemetrySettings())
		if err != nil {
			t.Fatalf("ToClient: %v", err)
		}
		req, _ := http.NewRequestWithContext(ctx, http.MethodGet, srv.URL, nil)
		if resp, err := cl.Do(req); err != nil {
			t.Fatalf("http client: %v", err)
		} else {
			resp.Body.Close()
		}
		mu.Lock()
		for _, k := range keys {
			vUseCase(out, "UseHttpClientHeader", k, sec, gotHdr.Get(k))
		}
		if vHostSafe(sec) { // net/http itself cleans a Host value that is not a valid host
			vUseCase(out, "UseHttpClientHost", "Host", sec, gotHost)
		}
		mu.Unlock()
		// -- server response headers
		sc := confighttp.NewDefaultServerConfig()
		sc.Endpoint = "127.0.0.1:0"
		sc.TLSSetting = nil
		sc.ResponseHeaders = map[string]configopaque.String{}
		for _, k := range keys {
			sc.ResponseHeaders[k] = configopaque.String(sec)
		}
		lis, err := sc.ToListener(ctx)
		if err != nil {
			t.Fatalf("ToListener: %v", err)
		}
		hs, err := sc.ToServer(ctx, componenttest.NewNopHost(), componenttest.NewNopTelemetrySettings(), http.HandlerFunc(func(w http.ResponseWriter, _ *http.Request) { w.WriteHeader(204) }))
		if err != nil {
			t.Fatalf("ToServer: %v", err)
		}
		go func() { _ = hs.Serve(lis) }()
		rctx, cancel := context.WithTimeout(ctx, 30*time.Second)
		rreq, _ := http.NewRequestWithContext(rctx, http.MethodGet, "http://"+lis.Addr().String()+"/", nil)
		resp, err := http.DefaultClient.Do(rreq)
		if err != nil {
			cancel()
			t.Fatalf("http server: %v", err)
		}
		if resp.StatusCode != 204 {
			var bb bytes.Buffer
			_, _ = bb.ReadFrom(resp.Body)
			t.Fatalf("http server: status %d, headers %v body %q proto %s", resp.StatusCode, resp.Header, bb.String(), resp.Proto)
		}
		for _, k := range keys {
			vUseCase(out, "UseHttpServerResponseHeader", k, sec, resp.Header.Get(k))
		}
		resp.Body.Close()
		cancel()
		_ = hs.Close()
	}
}

func vUseGRPC(t *testing.T, out *vOut, secrets []string) {
	var mu sync.Mutex
	got := map[string]metadata.MD{}
	srv := grpc.NewServer(grpc.UnknownServiceHandler(func(_ any, ss grpc.ServerStream) error {
		m, _ := grpc.Method(ss.Context())
		md, _ := metadata.FromIncomingContext(ss.Context())
		mu.Lock()
		got[m] = md.Copy()
		mu.Unlock()
		return nil
	}))
	lis, err := net.Listen("tcp", "127.0.0.1:0")
	if err != nil {
		t.Fatal(err)
	}
	go func() { _ = srv.Serve(lis) }()
	defer srv.Stop()
	// one header per (secret, key style): plain keys need printable ASCII values, "-bin" keys take any bytes
	type hk struct {
		key string
		sec string
		bin bool
	}
	var hks []hk
	hdr := map[string]configopaque.String{}
	for i, sec := range append(append([]string{}, secrets...), "tok-"+strings.Repeat("Zx9-", 40)) {
		if len(sec) > 200 {
			continue
		}
		for j, suffix := range []string{"-bin", "-Bin", "-BIN"} {
			k := fmt.Sprintf("x-s%d-%d%s", i, j, suffix)
			hks = append(hks, hk{k, sec, true})
			hdr[k] = configopaque.String(sec)
		}
		if vHeaderSafe(sec) {
			for _, k := range []string{fmt.Sprintf("x-s%d", i), fmt.Sprintf("X-Auth-S%d", i), fmt.Sprintf("x-s%d-binx", i)} {
				hks = append(hks, hk{k, sec, false})
				hdr[k] = configopaque.String(sec)
			}
		}
	}
	cc := configgrpc.NewDefaultClientConfig()
	cc.Endpoint = lis.Addr().String()
	cc.TLSSetting = configtls.ClientConfig{Insecure: true}
	cc.Headers = hdr
	ctx, cancel := context.WithTimeout(context.Background(), 60*time.Second)
	defer cancel()
	conn, err := cc.ToClientConn(ctx, componenttest.NewNopHost(), componenttest.NewNopTelemetrySettings())
	if err != nil {
		t.Fatalf("ToClientConn: %v", err)
	}
	defer conn.Close()
	// the handler answers nothing: the calls end with an error AFTER the server has seen the metadata
	_ = conn.Invoke(ctx, "/verif.S/Unary", &emptypb.Empty{}, &emptypb.Empty{})
	if st, err := conn.NewStream(ctx, &grpc.StreamDesc{StreamName: "Stream", ClientStreams: true, ServerStreams: true}, "/verif.S/Stream"); err == nil {
		_ = st.CloseSend()
		_ = st.RecvMsg(&emptypb.Empty{})
	} else {
		t.Fatalf("NewStream: %v", err)
	}
	// ---- the whole map at once, with outgoing metadata the caller had already set
	existing := []vKVs{{"x-pre-set", []string{"set-by-the-caller"}}, {"x-other-bin", []string{"o\x00ther"}}}
	var cfg [][2]string
	for _, h := range hks {
		cfg = append(cfg, [2]string{h.key, h.sec})
	}
	cfg = append(cfg, [2]string{"X-Pre-Set", "hunter2-s3cr3t-A"}) // the caller's value must win ("IfAbsent")
	cc2 := configgrpc.NewDefaultClientConfig()
	cc2.Endpoint = lis.Addr().String()
	cc2.TLSSetting = configtls.ClientConfig{Insecure: true}
	cc2.Headers = map[string]configopaque.String{}
	for _, kv := range cfg {
		cc2.Headers[kv[0]] = configopaque.String(kv[1])
	}
	conn2, err := cc2.ToClientConn(ctx, componenttest.NewNopHost(), componenttest.NewNopTelemetrySettings())
	if err != nil {
		t.Fatalf("ToClientConn: %v", err)
	}
	defer conn2.Close()
	octx := ctx
	for _, e := range existing {
		for _, v := range e.vs {
			octx = metadata.AppendToOutgoingContext(octx, e.k, v)
		}
	}
	_ = conn2.Invoke(octx, "/verif.M/Unary", &emptypb.Empty{}, &emptypb.Empty{})
	if st, err := conn2.NewStream(octx, &grpc.StreamDesc{StreamName: "Stream", ClientStreams: true, ServerStreams: true}, "/verif.M/Stream"); err == nil {
		_ = st.CloseSend()
		_ = st.RecvMsg(&emptypb.Empty{})
	} else {
		t.Fatalf("NewStream: %v", err)
	}
	mu.Lock()
	defer mu.Unlock()
	for _, method := range []string{"/verif.M/Unary", "/verif.M/Stream"} {
		md, ok := got[method]
		if !ok {
			t.Fatalf("the server never saw %s", method)
		}
		var obs []vKVs
		for _, kv := range cfg {
			obs = append(obs, vKVs{kv[0], md.Get(kv[0])})
		}
		obs = append(obs, vKVs{"x-other-bin", md.Get("x-other-bin")}, vKVs{"x-absent", md.Get("x-absent")})
		term := "CGrpc " + vEncPairs(cfg) + " " + vEncMulti(existing) + " " + vEncMulti(obs)
		out.Case(true, term)
		out.Stat("use_map_grpc", 1)
		vHeaderOracle(out, "addHeadersIfAbsent "+method, term, cfg, func(k string) bool { return k == "X-Pre-Set" }, func(k string) []string { return md.Get(k) })
		for mk, mv := range md { // no configured value under a key it was not configured for (user-agent, authority, ...)
			for _, kv := range cfg {
				if vDistinctive(kv[1]) && strings.ToLower(kv[0]) != mk && strings.Contains(strings.Join(mv, "\n"), kv[1]) {
					own := false
					for _, kv2 := range cfg {
						if strings.ToLower(kv2[0]) == mk && kv2[1] == kv[1] {
							own = true
						}
					}
					if !own {
						out.Oracle("secret-revealed", term, fmt.Sprintf("path=grpc metadata %s: the value configured for %q also travels under %q; cause=unexplained", method, kv[0], mk))
					}
				}
			}
		}
		if g := md.Get("x-pre-set"); len(g) != 1 || g[0] != "set-by-the-caller" {
			out.Oracle("use-does-not-yield-secret", term, fmt.Sprintf("consumer=addHeadersIfAbsent %s key=\"x-pre-set\": the caller's value was not kept: %q; cause=unexplained", method, g))
		}
	}
	for _, c := range []struct{ method, cons string }{{"/verif.S/Unary", "UseGrpcUnary"}, {"/verif.S/Stream", "UseGrpcStream"}} {
		md, ok := got[c.method]
		if !ok {
			t.Fatalf("the server never saw %s", c.method)
		}
		for _, h := range hks {
			v := md.Get(h.key)
			g := "<absent>"
			if len(v) == 1 {
				g = v[0]
			} else if len(v) > 1 {
				g = fmt.Sprintf("<%d values>", len(v))
			}
			vUseCase(out, "("+c.cons+" "+vBool(h.bin)+")", h.key, h.sec, g)
		}
	}
}

func vUseTLS(t *testing.T, out *vOut) {
	for i := 0; i < 2; i++ {
		key, err := ecdsa.GenerateKey(elliptic.P256(), rand.Reader)
		if err != nil {
			t.Fatal(err)
		}
		tmpl := &x509.Certificate{SerialNumber: big.NewInt(int64(i + 1)), Subject: pkix.Name{CommonName: "verif"}, NotBefore: time.Now().Add(-time.Hour), NotAfter: time.Now().Add(time.Hour)}
		der, err := x509.CreateCertificate(rand.Reader, tmpl, tmpl, &key.PublicKey, key)
		if err != nil {
			t.Fatal(err)
		}
		kder, _ := x509.MarshalECPrivateKey(key)
		certPem := string(pem.EncodeToMemory(&pem.Block{Type: "CERTIFICATE", Bytes: der}))
		keyPem := string(pem.EncodeToMemory(&pem.Block{Type: "EC PRIVATE KEY", Bytes: kder}))
		cfg := configtls.ClientConfig{Config: configtls.Config{CertPem: configopaque.String(certPem), KeyPem: configopaque.String(keyPem)}}
		gotKey, gotCert := "<none>", "<none>"
		if tc, err := cfg.LoadTLSConfig(context.Background()); err != nil {
			gotKey = "ERR " + err.Error()
		} else if tc.GetClientCertificate != nil {
			if c, err := tc.GetClientCertificate(&tls.CertificateRequestInfo{}); err == nil && c != nil && len(c.Certificate) > 0 {
				gotCert = string(pem.EncodeToMemory(&pem.Block{Type: "CERTIFICATE", Bytes: c.Certificate[0]}))
				if k, ok := c.PrivateKey.(*ecdsa.PrivateKey); ok {
					b, _ := x509.MarshalECPrivateKey(k)
					gotKey = string(pem.EncodeToMemory(&pem.Block{Type: "EC PRIVATE KEY", Bytes: b}))
				}
			}
		}
		vUseCase(out, "UseTLSKeyPair", "key_pem", keyPem, gotKey)
		vUseCase(out, "UseTLSKeyPair", "cert_pem", certPem, gotCert)
	}
}

var vLocalPort = regexp.MustCompile(`127\.0\.0\.1:\d+->`)

func vNormErr(err error) string {
	if err == nil {
		return "<no error>"
	}
	return vLocalPort.ReplaceAllString(err.Error(), "127.0.0.1:L->")
}

// vFailOracle: nothing a consumer gives back or logs on a FAILING request may show a configured secret
func vFailOracle(out *vOut, what, term string, cfg [][2]string, texts ...string) {
	for _, kv := range cfg {
		for _, txt := range texts {
			if how := vReveals(txt, kv[1]); how != "" {
				if len(txt) > 400 {
					txt = txt[:400] + "..."
				}
				out.Oracle("secret-revealed", term, fmt.Sprintf("path=%s: the configured value of header %q occurs (%s) in %q; cause=unexplained", what, kv[0], how, txt))
				return
			}
		}
	}
}

// vUseFailures: requests that FAIL below the consumers (connection refused, protocol mismatch, timeout, the
// peer hanging up, an error status): the error that comes back, every rendering of it, and everything
// logged through the component's logger.  Baseline: a client without configured headers on the same endpoint.
func vUseFailures(t *testing.T, out *vOut, secrets []string) {
	ctx := context.Background()
	var safe []string
	for _, sec := range secrets {
		if vHeaderSafe(sec) && len(sec) < 200 && vDistinctive(sec) {
			safe = append(safe, sec)
		}
	}
	core, logs := observer.New(zapcore.DebugLevel)
	tel := componenttest.NewNopTelemetrySettings()
	tel.Logger = zap.New(core)
	// -- endpoints
	dead, err := net.Listen("tcp", "127.0.0.1:0")
	if err != nil {
		t.Fatal(err)
	}
	deadAddr := dead.Addr().String()
	dead.Close()
	release := make(chan struct{})
	slow := httptest.NewServer(http.HandlerFunc(func(http.ResponseWriter, *http.Request) { <-release }))
	defer slow.Close()
	defer close(release) // (runs before slow.Close, which waits for the handlers)
	plain := httptest.NewServer(http.HandlerFunc(func(w http.ResponseWriter, _ *http.Request) { w.WriteHeader(204) }))
	defer plain.Close()
	hang, err := net.Listen("tcp", "127.0.0.1:0")
	if err != nil {
		t.Fatal(err)
	}
	defer hang.Close()
	go func() {
		for {
			c, err := hang.Accept()
			if err != nil {
				return
			}
			go func() { // read the request head, then hang up without an answer
				buf := make([]byte, 65536)
				n := 0
				for n < len(buf) {
					m, err := c.Read(buf[n:])
					n += m
					if err != nil || bytes.Contains(buf[:n], []byte("\r\n\r\n")) {
						break
					}
				}
				c.Close()
			}()
		}
	}()
	type scen struct {
		name    string
		url     string
		timeout time.Duration
		model   bool // the error text is deterministic: compared with the model (baseline = next layer's error)
	}
	scens := []scen{
		{"connection-refused", "http://" + deadAddr + "/v1/x", 0, true},
		{"https-client-to-http-server", "https://" + strings.TrimPrefix(plain.URL, "http://") + "/", 0, true},
		{"client-timeout", slow.URL, 300 * time.Millisecond, false}, // (net/http words a timeout in two ways, depending on the race)
		{"peer-hangs-up", "http://" + hang.Addr().String() + "/", 0, false},
	}
	doReq := func(sc scen, cfg [][2]string, method string) error {
		cc := confighttp.NewDefaultClientConfig()
		cc.Endpoint = sc.url
		cc.Timeout = sc.timeout
		if strings.HasPrefix(sc.url, "https") {
			cc.TLSSetting = configtls.ClientConfig{InsecureSkipVerify: true}
		}
		if cfg != nil {
			cc.Headers = map[string]configopaque.String{}
			for _, kv := range cfg {
				cc.Headers[kv[0]] = configopaque.String(kv[1])
			}
		}
		cl, err := cc.ToClient(ctx, componenttest.NewNopHost(), tel)
		if err != nil {
			t.Fatalf("ToClient: %v", err)
		}
		defer cl.CloseIdleConnections()
		req, _ := http.NewRequestWithContext(ctx, method, sc.url, strings.NewReader("body"))
		resp, err := cl.Do(req)
		if err == nil {
			resp.Body.Close()
		}
		return err
	}
	for _, sc := range scens {
		for _, method := range []string{http.MethodGet, http.MethodPost} {
			base := doReq(sc, nil, method)
			if base == nil {
				t.Fatalf("scenario %s: the request did not fail", sc.name)
			}
			for r := 0; r < 2 && r < len(safe); r++ {
				cfg := [][2]string{{"Authorization", "Bearer " + safe[r]}, {"X-Api-Key", safe[(r+1)%len(safe)]}, {"x-signature-bin", safe[(r+2)%len(safe)]}}
				err := doReq(sc, cfg, method)
				term := "CFail false " + vEncPairs(cfg) + " " + vEnc(vNormErr(base)) + " " + vEnc(vNormErr(err))
				out.Stat("fail_http_"+sc.name, 1)
				if err == nil {
					out.Oracle("secret-revealed", term, "path=http client failure "+sc.name+": the request with configured headers did not fail; cause=unexplained")
					continue
				}
				if sc.model {
					out.Case(true, term)
				}
				vFailOracle(out, "error returned by http.Client.Do ("+sc.name+", "+method+")", term, cfg,
					err.Error(), fmt.Sprintf("%+v|%#v|%q|%s", err, err, err, errors.Unwrap(err)), fmt.Errorf("export failed: %w", err).Error())
			}
		}
	}
	// -- grpc: a dead endpoint and a server that answers with an error status
	gs := grpc.NewServer(grpc.UnknownServiceHandler(func(any, grpc.ServerStream) error {
		return status.Error(codes.PermissionDenied, "denied by the test server")
	}))
	glis, err := net.Listen("tcp", "127.0.0.1:0")
	if err != nil {
		t.Fatal(err)
	}
	go func() { _ = gs.Serve(glis) }()
	defer gs.Stop()
	doCall := func(addr string, cfg [][2]string, stream bool) error {
		cc := configgrpc.NewDefaultClientConfig()
		cc.Endpoint = addr
		cc.TLSSetting = configtls.ClientConfig{Insecure: true}
		if cfg != nil {
			cc.Headers = map[string]configopaque.String{}
			for _, kv := range cfg {
				cc.Headers[kv[0]] = configopaque.String(kv[1])
			}
		}
		cctx, cancel := context.WithTimeout(ctx, 30*time.Second)
		defer cancel()
		conn, err := cc.ToClientConn(cctx, componenttest.NewNopHost(), tel)
		if err != nil {
			return err
		}
		defer conn.Close()
		if !stream {
			return conn.Invoke(cctx, "/verif.F/Unary", &emptypb.Empty{}, &emptypb.Empty{})
		}
		st, err := conn.NewStream(cctx, &grpc.StreamDesc{StreamName: "Stream", ClientStreams: true, ServerStreams: true}, "/verif.F/Stream")
		if err != nil {
			return err
		}
		_ = st.CloseSend()
		return st.RecvMsg(&emptypb.Empty{})
	}
	for _, g := range []struct{ name, addr string }{{"connection-refused", deadAddr}, {"error-status", glis.Addr().String()}} {
		for _, stream := range []bool{false, true} {
			base := doCall(g.addr, nil, stream)
			if base == nil {
				t.Fatalf("grpc scenario %s: the call did not fail", g.name)
			}
			for r := 0; r < 2 && r < len(safe); r++ {
				cfg := [][2]string{{"authorization", "Bearer " + safe[r]}, {"x-api-key", safe[(r+1)%len(safe)]}, {"x-signature-bin", safe[(r+2)%len(safe)]}}
				err := doCall(g.addr, cfg, stream)
				term := "CFail true " + vEncPairs(cfg) + " " + vEnc(vNormErr(base)) + " " + vEnc(vNormErr(err))
				out.Stat("fail_grpc_"+g.name, 1)
				if err == nil {
					out.Oracle("secret-revealed", term, "path=grpc client failure "+g.name+": the call with configured headers did not fail; cause=unexplained")
					continue
				}
				out.Case(true, term)
				vFailOracle(out, fmt.Sprintf("error returned by the grpc call (%s, stream=%v)", g.name, stream), term, cfg,
					err.Error(), fmt.Sprintf("%+v|%#v|%q", err, err, err), status.Convert(err).Message(), fmt.Errorf("export failed: %w", err).Error())
			}
		}
	}
	// -- everything the consumers logged through the component's logger on the way
	var lb strings.Builder
	enc := zapcore.NewJSONEncoder(zapcore.EncoderConfig{MessageKey: "msg"})
	for _, e := range logs.All() {
		if b, err := enc.EncodeEntry(e.Entry, e.Context); err == nil {
			lb.WriteString(b.String())
		}
	}
	out.Stat("fail_log_entries", logs.Len())
	all := [][2]string{}
	for _, sec := range safe {
		all = append(all, [2]string{"(any)", sec})
	}
	vFailOracle(out, "log entries written by the http / grpc clients while failing", "CFail false [] (A \"\") (A \"\")", all, lb.String())
}

// vTLSDecision: every combination of {absent, key pair A, key pair B} in CertFile / KeyFile and
// {absent, A, B, one garbage byte} in CertPem / KeyPem
func vTLSDecision(t *testing.T, out *vOut) {
	dir := t.TempDir()
	type pair struct {
		cert, key, certFile, keyFile string
		der                          []byte
	}
	var ps [3]pair
	for i := 1; i <= 2; i++ {
		key, err := ecdsa.GenerateKey(elliptic.P256(), rand.Reader)
		if err != nil {
			t.Fatal(err)
		}
		tmpl := &x509.Certificate{SerialNumber: big.NewInt(int64(100 + i)), Subject: pkix.Name{CommonName: fmt.Sprintf("verif-%d", i)}, NotBefore: time.Now().Add(-time.Hour), NotAfter: time.Now().Add(time.Hour)}
		der, err := x509.CreateCertificate(rand.Reader, tmpl, tmpl, &key.PublicKey, key)
		if err != nil {
			t.Fatal(err)
		}
		kder, _ := x509.MarshalECPrivateKey(key)
		p := pair{der: der}
		p.cert = string(pem.EncodeToMemory(&pem.Block{Type: "CERTIFICATE", Bytes: der}))
		p.key = string(pem.EncodeToMemory(&pem.Block{Type: "EC PRIVATE KEY", Bytes: kder}))
		p.certFile = fmt.Sprintf("%s/cert%d.pem", dir, i)
		p.keyFile = fmt.Sprintf("%s/key%d.pem", dir, i)
		if err := os.WriteFile(p.certFile, []byte(p.cert), 0o600); err != nil {
			t.Fatal(err)
		}
		if err := os.WriteFile(p.keyFile, []byte(p.key), 0o600); err != nil {
			t.Fatal(err)
		}
		ps[i] = p
	}
	pemOf := func(slot int, key bool) string {
		if slot == 3 {
			return "x" // one byte that is no key material: present, but cannot be loaded
		}
		if key {
			return ps[slot].key
		}
		return ps[slot].cert
	}
	for n := 0; n < 144; n++ {
		cf, cp, kf, kp := n%3, (n/3)%4, (n/12)%3, (n/36)%4
		cfg := configtls.ClientConfig{Config: configtls.Config{CertFile: ps[cf].certFile, CertPem: configopaque.String(pemOf(cp, false)), KeyFile: ps[kf].keyFile, KeyPem: configopaque.String(pemOf(kp, true))}}
		obs, detail := -1, ""
		tc, err := cfg.LoadTLSConfig(context.Background())
		var crt *tls.Certificate
		if err == nil && tc.GetClientCertificate != nil {
			crt, err = tc.GetClientCertificate(&tls.CertificateRequestInfo{})
		}
		switch {
		case err != nil && strings.Contains(err.Error(), "provide both certificate and key, or neither"):
			obs = 1
		case err != nil && strings.Contains(err.Error(), "either a certificate or the PEM"):
			obs = 2
		case err != nil && strings.Contains(err.Error(), "either a key or the PEM"):
			obs = 3
		case err != nil && strings.Contains(err.Error(), "failed to load TLS cert and key PEMs"):
			obs = 4
		case err != nil:
			obs, detail = 99, err.Error()
		case crt == nil || len(crt.Certificate) == 0:
			obs = 0
		case bytes.Equal(crt.Certificate[0], ps[1].der):
			obs = 11
		case bytes.Equal(crt.Certificate[0], ps[2].der):
			obs = 12
		default:
			obs, detail = 98, "a certificate that is neither A nor B"
		}
		term := fmt.Sprintf("CTls %d %d %d %d %d", cf, cp, kf, kp, obs)
		out.Case(true, term)
		// the text of the error: fixed messages; the loader's own error behind a fixed prefix
		etxt, lerr := "", ""
		if err != nil {
			etxt = strings.TrimPrefix(strings.TrimPrefix(err.Error(), "failed to load TLS config: "), "failed to load TLS cert and key: ")
			if i := strings.Index(etxt, "failed to load TLS cert and key PEMs: "); i == 0 {
				lerr = etxt[len("failed to load TLS cert and key PEMs: "):]
			}
			for _, sl := range []int{cp, kp} {
				if sl == 1 || sl == 2 {
					for _, body := range []string{ps[sl].key, ps[sl].cert} {
						lines := strings.Split(body, "\n")
						if len(lines) > 2 && strings.Contains(err.Error(), lines[1]) {
							out.Oracle("secret-revealed", term, fmt.Sprintf("path=configtls load error: the error text contains PEM material of pair %d: %q; cause=unexplained", sl, err.Error()))
						}
					}
				}
			}
		}
		if !strings.Contains(lerr, dir) { // (an unreadable-file error would name the temp dir; none here)
			out.Case(true, fmt.Sprintf("CTlsErr %d %d %d %d %s %s", cf, cp, kf, kp, vEnc(lerr), vEnc(etxt)))
			out.Stat("tls_error_text_cases", 1)
		}
		out.Stat("tls_decision_cases", 1)
		out.Stat(fmt.Sprintf("tls_outcome_%d", obs), 1)
		// direct oracle: PEM-only configurations load exactly the configured pair
		if cf == 0 && kf == 0 && cp != 0 && cp != 3 && cp == kp && obs != 10+cp {
			out.Oracle("use-does-not-yield-secret", term, fmt.Sprintf("consumer=configtls.loadCertificate: cert_pem and key_pem hold key pair %d, outcome %d %s; cause=unexplained", cp, obs, detail))
		}
	}
}

// vValidate: Validate() of the configuration structs that hold opaque values, with EVERY adversarial secret
// (unicode, control bytes, a token with a trailing newline, the 4 KiB one) in every opaque field; the error —
// printed and logged at collector start-up — and all its renderings must not show any of them.
func vValidate(t *testing.T, out *vOut, secrets []string) {
	secs := append(append([]string{}, secrets...), "hunter2-tok3n-read-from-a-file\n", "hunter2\ttab\x7fdel-s3cr3t", "bearer ünï-s3cr3t-Ünicode")
	render := func(err error) []string {
		if err == nil {
			return nil
		}
		return []string{err.Error(), fmt.Sprintf("%v|%+v|%q|%#v", err, err, err, err.Error()), fmt.Errorf("invalid configuration: %w", err).Error(),
			errors.Join(errors.New("first"), err).Error()}
	}
	for i, sec := range secs {
		// -- grpc client: headers of both kinds, valid and unknown balancer
		for _, bal := range []string{"", "round_robin", "no_such_balancer"} {
			cfg := [][2]string{{"authorization", sec}, {"x-api-key", secs[(i+1)%len(secs)]}, {"x-signature-bin", sec}}
			cc := configgrpc.NewDefaultClientConfig()
			cc.BalancerName = bal
			cc.Headers = map[string]configopaque.String{}
			for _, kv := range cfg {
				cc.Headers[kv[0]] = configopaque.String(kv[1])
			}
			err := cc.Validate()
			etxt := ""
			if err != nil {
				etxt = err.Error()
			}
			term := "CValidate 0 " + vEnc(bal) + " " + vBool(bal != "no_such_balancer") + " " + vEncPairs(cfg) + " " + vEnc(etxt)
			if len(sec) < 200 {
				out.Case(true, term)
			}
			out.Stat("validate_grpc_client", 1)
			vFailOracle(out, "error of configgrpc.ClientConfig.Validate", term, cfg, render(err)...)
		}
		// -- http client
		{
			cfg := [][2]string{{"Authorization", sec}, {"X-Api-Key", secs[(i+1)%len(secs)]}}
			hc := confighttp.NewDefaultClientConfig()
			hc.Headers = map[string]configopaque.String{}
			for _, kv := range cfg {
				hc.Headers[kv[0]] = configopaque.String(kv[1])
			}
			err := hc.Validate()
			etxt := ""
			if err != nil {
				etxt = err.Error()
			}
			term := "CValidate 1 (A \"\") false " + vEncPairs(cfg) + " " + vEnc(etxt)
			if len(sec) < 200 {
				out.Case(true, term)
			}
			out.Stat("validate_http_client", 1)
			vFailOracle(out, "error of confighttp.ClientConfig.Validate", term, cfg, render(err)...)
		}
		// -- tls: the PEM fields hold the secret text (a mis-pasted secret), with and without a CA file
		for _, caFile := range []string{"", "/nonexistent/ca.pem"} {
			cfg := [][2]string{{"ca_pem", sec}, {"cert_pem", secs[(i+1)%len(secs)]}, {"key_pem", sec}}
			tc := configtls.Config{CAFile: caFile, CAPem: configopaque.String(cfg[0][1]), CertPem: configopaque.String(cfg[1][1]), KeyPem: configopaque.String(cfg[2][1])}
			err := tc.Validate()
			etxt := ""
			if err != nil {
				etxt = err.Error()
			}
			term := "CValidate 2 (A \"\") " + vBool(caFile != "") + " " + vEncPairs(cfg) + " " + vEnc(etxt)
			if len(sec) < 200 {
				out.Case(true, term)
			}
			out.Stat("validate_tls", 1)
			vFailOracle(out, "error of configtls.Config.Validate", term, cfg, render(err)...)
		}
	}
}

// vAfterUse: STATE.  Every configuration struct that holds opaque values is rendered (fmt verbs on the value and on
// the pointer, Sprint, Errorf, json, confmap, zap) BEFORE and AFTER each consumer-building call is made on it —
// ToClient (+ a request through the client), ToListener/ToServer, ToClientConn (+ a call), grpc ToServer,
// LoadTLSConfig, Validate — cumulatively, on the same object.  A builder must not leave a plain copy of a secret
// anywhere a rendering of the configuration reaches: the renderings after use are the renderings before use.
func vAfterUse(t *testing.T, out *vOut, secrets []string) {
	ctx := context.Background()
	jenc := zapcore.NewJSONEncoder(zapcore.EncoderConfig{})
	renderAll := func(ptr any) []string {
		val := reflect.ValueOf(ptr).Elem().Interface()
		var rs []string
		rs = append(rs, fmt.Sprintf("%v", val), fmt.Sprintf("%v", ptr), fmt.Sprintf("%+v", val), fmt.Sprintf("%+v", ptr), fmt.Sprintf("%#v", val),
			fmt.Sprintf("%s", ptr), fmt.Sprint(val), fmt.Errorf("cannot start exporter with config %+v: %w", ptr, errors.New("boom")).Error(),
			fmt.Sprintf("%+v", []any{val}))
		jb, _ := json.Marshal(val)
		rs = append(rs, string(jb), vConfMarshal(val), vZapLine(jenc, zap.Any("cfg", val)), vZapLine(jenc, zap.Any("cfg", ptr)))
		return rs
	}
	srv := httptest.NewServer(http.HandlerFunc(func(w http.ResponseWriter, _ *http.Request) { w.WriteHeader(204) }))
	defer srv.Close()
	gsrv := grpc.NewServer(grpc.UnknownServiceHandler(func(any, grpc.ServerStream) error { return nil }))
	glis, err := net.Listen("tcp", "127.0.0.1:0")
	if err != nil {
		t.Fatal(err)
	}
	go func() { _ = gsrv.Serve(glis) }()
	defer gsrv.Stop()
	// a valid key pair: LoadTLSConfig succeeds, and the PEMs are the opaque values
	key, _ := ecdsa.GenerateKey(elliptic.P256(), rand.Reader)
	tmpl := &x509.Certificate{SerialNumber: big.NewInt(9), Subject: pkix.Name{CommonName: "verif-state"}, NotBefore: time.Now().Add(-time.Hour), NotAfter: time.Now().Add(time.Hour), IsCA: true, BasicConstraintsValid: true}
	der, _ := x509.CreateCertificate(rand.Reader, tmpl, tmpl, &key.PublicKey, key)
	kder, _ := x509.MarshalECPrivateKey(key)
	certPem := string(pem.EncodeToMemory(&pem.Block{Type: "CERTIFICATE", Bytes: der}))
	keyPem := string(pem.EncodeToMemory(&pem.Block{Type: "EC PRIVATE KEY", Bytes: kder}))
	tlsCfg := configtls.Config{CAPem: configopaque.String(certPem), CertPem: configopaque.String(certPem), KeyPem: configopaque.String(keyPem)}
	pemLine := func(p string) string {
		if l := strings.Split(p, "\n"); len(l) > 2 {
			return l[1]
		}
		return p
	}
	tlsPairs := [][2]string{{"ca_pem", pemLine(certPem)}, {"cert_pem", pemLine(certPem)}, {"key_pem", pemLine(keyPem)}}

	type step struct {
		code int
		name string
		do   func() error
	}
	type subject struct {
		name  string
		ptr   any
		cfg   [][2]string
		get   func() [][2]string // the opaque values as the struct holds them NOW, in the order of cfg
		steps []step
	}
	fromMap := func(keys [][2]string, m func() map[string]configopaque.String) func() [][2]string {
		return func() [][2]string {
			var l [][2]string
			for _, kv := range keys {
				if v, ok := m()[kv[0]]; ok {
					l = append(l, [2]string{kv[0], string(v)})
				}
			}
			for k, v := range m() {
				known := false
				for _, kv := range keys {
					known = known || kv[0] == k
				}
				if !known {
					l = append(l, [2]string{k, string(v)})
				}
			}
			return l
		}
	}
	fromTLS := func(c func() configtls.Config) func() [][2]string {
		return func() [][2]string {
			// (one body line of each PEM stands for it: 64 bytes of key material are searched for, not the whole block)
			return [][2]string{{"ca_pem", pemLine(string(c().CAPem))}, {"cert_pem", pemLine(string(c().CertPem))}, {"key_pem", pemLine(string(c().KeyPem))}}
		}
	}
	var safe []string
	for _, sec := range secrets {
		if vHeaderSafe(sec) && vDistinctive(sec) && len(sec) < 200 {
			safe = append(safe, sec)
		}
	}
	rounds := 1
	if vTier() == "thorough" {
		rounds = 3
	}
	for r := 0; r < rounds && r+1 < len(safe); r++ {
		hdr := [][2]string{{"Authorization", "Bearer " + safe[r]}, {"X-Api-Key", safe[r+1]}, {"x-signature-bin", safe[r]}}
		mkHdr := func() map[string]configopaque.String {
			m := map[string]configopaque.String{}
			for _, kv := range hdr {
				m[kv[0]] = configopaque.String(kv[1])
			}
			return m
		}
		var subjects []subject
		{ // confighttp.ClientConfig
			cc := confighttp.NewDefaultClientConfig()
			cc.Endpoint = srv.URL
			cc.Headers = mkHdr()
			var cl *http.Client
			subjects = append(subjects, subject{"confighttp.ClientConfig", &cc, hdr, fromMap(hdr, func() map[string]configopaque.String { return cc.Headers }), []step{
				{8, "Validate", func() error { return cc.Validate() }},
				{0, "ToClient", func() (err error) {
					cl, err = cc.ToClient(ctx, componenttest.NewNopHost(), componenttest.NewNopTelemetrySettings())
					return err
				}},
				{1, "request through the client", func() error {
					req, _ := http.NewRequestWithContext(ctx, http.MethodGet, srv.URL, nil)
					resp, err := cl.Do(req)
					if err == nil {
						resp.Body.Close()
					}
					return err
				}},
				{0, "ToClient again", func() error {
					_, err := cc.ToClient(ctx, componenttest.NewNopHost(), componenttest.NewNopTelemetrySettings())
					return err
				}},
			}})
		}
		{ // confighttp.ServerConfig with response headers and TLS PEMs
			sc := confighttp.NewDefaultServerConfig()
			sc.Endpoint = "127.0.0.1:0"
			sc.ResponseHeaders = mkHdr()
			sc.TLSSetting = &configtls.ServerConfig{Config: tlsCfg}
			subjects = append(subjects, subject{"confighttp.ServerConfig", &sc, append(append([][2]string{}, hdr...), tlsPairs...), func() [][2]string {
				return append(fromMap(hdr, func() map[string]configopaque.String { return sc.ResponseHeaders })(), fromTLS(func() configtls.Config { return sc.TLSSetting.Config })()...)
			}, []step{
				{2, "ToListener", func() error {
					l, err := sc.ToListener(ctx)
					if err == nil {
						l.Close()
					}
					return err
				}},
				{2, "ToServer", func() error {
					_, err := sc.ToServer(ctx, componenttest.NewNopHost(), componenttest.NewNopTelemetrySettings(), http.NotFoundHandler())
					return err
				}},
			}})
		}
		{ // configgrpc.ClientConfig
			gc := configgrpc.NewDefaultClientConfig()
			gc.Endpoint = glis.Addr().String()
			gc.TLSSetting = configtls.ClientConfig{Insecure: true}
			gc.Headers = mkHdr()
			var conn *grpc.ClientConn
			subjects = append(subjects, subject{"configgrpc.ClientConfig", gc, hdr, fromMap(hdr, func() map[string]configopaque.String { return gc.Headers }), []step{
				{8, "Validate", func() error { return gc.Validate() }},
				{3, "ToClientConn", func() (err error) {
					conn, err = gc.ToClientConn(ctx, componenttest.NewNopHost(), componenttest.NewNopTelemetrySettings())
					return err
				}},
				{4, "unary call and stream", func() error {
					cctx, cancel := context.WithTimeout(ctx, 30*time.Second)
					defer cancel()
					_ = conn.Invoke(cctx, "/verif.A/Unary", &emptypb.Empty{}, &emptypb.Empty{})
					if st, err := conn.NewStream(cctx, &grpc.StreamDesc{StreamName: "S", ClientStreams: true, ServerStreams: true}, "/verif.A/S"); err == nil {
						_ = st.CloseSend()
						_ = st.RecvMsg(&emptypb.Empty{})
					}
					return conn.Close()
				}},
			}})
		}
		{ // configgrpc.ServerConfig with TLS PEMs
			gs := configgrpc.NewDefaultServerConfig()
			gs.NetAddr.Endpoint = "127.0.0.1:0"
			gs.TLSSetting = &configtls.ServerConfig{Config: tlsCfg}
			subjects = append(subjects, subject{"configgrpc.ServerConfig", gs, tlsPairs, fromTLS(func() configtls.Config { return gs.TLSSetting.Config }), []step{
				{8, "Validate", func() error { return gs.Validate() }},
				{5, "ToServer", func() error {
					s, err := gs.ToServer(ctx, componenttest.NewNopHost(), componenttest.NewNopTelemetrySettings())
					if err == nil {
						s.Stop()
					}
					return err
				}},
			}})
		}
		{ // configtls client and server
			tc := configtls.ClientConfig{Config: tlsCfg}
			ts := configtls.ServerConfig{Config: tlsCfg, ClientCAFile: ""}
			subjects = append(subjects,
				subject{"configtls.ClientConfig", &tc, tlsPairs, fromTLS(func() configtls.Config { return tc.Config }), []step{
					{8, "Validate", func() error { return tc.Validate() }},
					{6, "LoadTLSConfig", func() error {
						c, err := tc.LoadTLSConfig(ctx)
						if err == nil && c != nil && c.GetClientCertificate != nil {
							_, err = c.GetClientCertificate(&tls.CertificateRequestInfo{})
						}
						return err
					}},
				}},
				subject{"configtls.ServerConfig", &ts, tlsPairs, fromTLS(func() configtls.Config { return ts.Config }), []step{
					{7, "LoadTLSConfig", func() error {
						c, err := ts.LoadTLSConfig(ctx)
						if err == nil && c != nil && c.GetCertificate != nil {
							_, err = c.GetCertificate(&tls.ClientHelloInfo{})
						}
						return err
					}},
				}})
		}
		for _, sb := range subjects {
			before := renderAll(sb.ptr)
			var done []string
			for _, st := range sb.steps {
				if err := st.do(); err != nil {
					t.Fatalf("%s: %s: %v", sb.name, st.name, err)
				}
				done = append(done, strconv.Itoa(st.code))
				after := renderAll(sb.ptr)
				be, ae := make([]string, len(before)), make([]string, len(after))
				for i := range before {
					be[i], ae[i] = vEnc(before[i]), vEnc(after[i])
				}
				now := sb.get()
				term := "CAfterUse [" + strings.Join(done, "; ") + "] " + vEncPairs(sb.cfg) + " " + vEncPairs(now) + " " + vList(be) + " " + vList(ae)
				out.Case(true, term)
				out.Stat("after_use_"+strings.ReplaceAll(sb.name, ".", "_"), 1)
				if fmt.Sprint(now) != fmt.Sprint(sb.cfg) {
					out.Oracle("use-does-not-yield-secret", term, fmt.Sprintf("consumer=%s after %s: the opaque values held by the configuration changed; cause=unexplained", sb.name, st.name))
				}
				// a value that a rendering shows after use although the same rendering did not show it before use
				// (what a rendering shows independently of use is the business of the rendering oracles above)
				for i := range after {
					for _, kv := range sb.cfg {
						if vReveals(after[i], kv[1]) != "" && vReveals(before[i], kv[1]) == "" {
							vFailOracle(out, fmt.Sprintf("rendering #%d of %s after %s", i, sb.name, st.name), term, [][2]string{kv}, after[i])
						}
					}
				}
			}
		}
	}
}

// vMarshalInsideUnmarshal: a component's Unmarshal(conf) that MARSHALS into the Conf it was handed by the decoding hook
// (merging a struct of defaults, opaque values included) before decoding: what Marshal puts into that Conf must be
// redacted like anywhere else.
type vUnmMarsh struct {
	Tok  configopaque.String            `mapstructure:"tok"`
	Hdr  map[string]configopaque.String `mapstructure:"hdr"`
	seen *[]string
	def  *vUnmDefaults
}

type vUnmDefaults struct {
	Tok configopaque.String            `mapstructure:"tok"`
	Hdr map[string]configopaque.String `mapstructure:"hdr"`
}

func (u *vUnmMarsh) Unmarshal(conf *confmap.Conf) error {
	if u.def != nil {
		if err := conf.Marshal(*u.def); err != nil {
			return err
		}
		var b strings.Builder
		vRawDump(reflect.ValueOf(conf.ToStringMap()), &b, 0)
		*u.seen = append(*u.seen, vCanon(conf.ToStringMap()), b.String(), fmt.Sprintf("%v", conf.ToStringMap()))
	}
	return conf.Unmarshal(u, confmap.WithIgnoreUnused())
}

func vMarshalInsideUnmarshal(t *testing.T, out *vOut, secrets []string) {
	for i, sec := range secrets {
		if len(sec) > 200 {
			continue
		}
		other := secrets[(i+1)%len(secrets)]
		if len(other) > 200 {
			other = secrets[0]
		}
		var seen []string
		type outerT struct {
			Comp vUnmMarsh `mapstructure:"comp"`
			More string    `mapstructure:"more"`
		}
		o := outerT{Comp: vUnmMarsh{seen: &seen, def: &vUnmDefaults{Tok: configopaque.String(sec), Hdr: map[string]configopaque.String{"k": configopaque.String(other)}}}}
		in := confmap.NewFromStringMap(map[string]any{"comp": map[string]any{}, "more": "m"})
		if err := in.Unmarshal(&o); err != nil {
			t.Fatalf("marshal inside unmarshal: %v", err)
		}
		out.Stat("marshal_inside_unmarshal", 1)
		if len(seen) < 3 {
			out.Oracle("secret-revealed", "CRender SBare "+vEnc(sec)+" []", "path=confmap.Marshal inside Unmarshal(conf): the nested Unmarshal was not called by the decoding hook; cause=unexplained")
			continue
		}
		// the Conf after Marshal, as a case for the config-map model: {hdr:{k:"[REDACTED]"},tok:"[REDACTED]"} = struct{F map..}, struct{F String}
		term := vCaseRender(vF(vBare), sec, []vRendering{{"PConfmap", strings.Replace(strings.Replace(seen[0], "hdr:{k:\"[REDACTED]\"},", "", 1), "tok:", "f:", 1), false}})
		out.Case(true, term)
		cfg := [][2]string{{"tok", sec}, {"hdr.k", other}}
		vFailOracle(out, "confmap.Marshal into the Conf handed to Unmarshal(conf) by the decoding hook", term, cfg, seen...)
		// (decoding afterwards stores the marker, by design: Marshal redacts, so a marshalled Conf is not a source of secrets)
		if string(o.Comp.Tok) != "[REDACTED]" {
			out.Stat("marshal_inside_unmarshal_not_marker", 1)
		}
	}
}

// vTLSCA: the CA pool from ca_file / ca_pem: valid certificate, a PEM block that is no certificate, plain garbage
func vTLSCA(t *testing.T, out *vOut) {
	dir := t.TempDir()
	key, err := ecdsa.GenerateKey(elliptic.P256(), rand.Reader)
	if err != nil {
		t.Fatal(err)
	}
	tmpl := &x509.Certificate{SerialNumber: big.NewInt(7), Subject: pkix.Name{CommonName: "verif-ca"}, NotBefore: time.Now().Add(-time.Hour), NotAfter: time.Now().Add(time.Hour), IsCA: true, BasicConstraintsValid: true, KeyUsage: x509.KeyUsageCertSign}
	der, err := x509.CreateCertificate(rand.Reader, tmpl, tmpl, &key.PublicKey, key)
	if err != nil {
		t.Fatal(err)
	}
	leaf, _ := x509.ParseCertificate(der)
	valid := string(pem.EncodeToMemory(&pem.Block{Type: "CERTIFICATE", Bytes: der}))
	notCert := string(pem.EncodeToMemory(&pem.Block{Type: "CERTIFICATE", Bytes: []byte("hunter2-s3cr3t-A-is-not-a-certificate-but-a-secret-pasted-into-ca_pem")}))
	garbage := "hunter2-s3cr3t-B pasted into ca_pem by mistake"
	pems := []string{"", valid, notCert, garbage}
	files := []string{"", dir + "/ca_valid.pem", dir + "/ca_notcert.pem"}
	_ = os.WriteFile(files[1], []byte(valid), 0o600)
	_ = os.WriteFile(files[2], []byte(notCert), 0o600)
	for fi, file := range files {
		for pi, p := range pems {
			cfg := configtls.ClientConfig{Config: configtls.Config{CAFile: file, CAPem: configopaque.String(p)}}
			tc, err := cfg.LoadTLSConfig(context.Background())
			etxt := ""
			if err != nil {
				etxt = strings.TrimPrefix(err.Error(), "failed to load TLS config: ")
			}
			parseOK := (fi == 1 && pi == 0) || (fi == 0 && pi == 1) || (fi == 0 && pi == 0)
			term := fmt.Sprintf("CTlsCA %d %d %s %s", fi, pi, vBool(parseOK), vEnc(etxt))
			out.Case(true, term)
			out.Stat("tls_ca_cases", 1)
			for _, bad := range []string{"hunter2-s3cr3t-A", "hunter2-s3cr3t-B", base64.StdEncoding.EncodeToString([]byte("hunter2-s3cr3t-A-is-not"))[:24]} {
				if strings.Contains(etxt, bad) {
					out.Oracle("secret-revealed", term, fmt.Sprintf("path=configtls CA load error: the error text contains the ca_pem contents: %q; cause=unexplained", etxt))
					break
				}
			}
			if fi == 0 && pi == 1 { // use: the configured CA is the pool
				ok := err == nil && tc != nil && tc.RootCAs != nil
				if ok {
					_, verr := leaf.Verify(x509.VerifyOptions{Roots: tc.RootCAs})
					ok = verr == nil
				}
				if !ok {
					out.Oracle("use-does-not-yield-secret", term, "consumer=configtls.loadCACertPool: the certificate configured in ca_pem is not in the loaded pool; cause=unexplained")
				}
			}
		}
	}
}

func TestVerifC14E2E(t *testing.T) {
	out := vOpen()
	defer out.Close()
	tier := vTier()
	thorough := tier == "thorough"
	r := vNewRunner(out)
	shapes := vShapes(thorough)
	out.Stat("shapes", len(shapes))
	shapes = append(shapes, vMarshShapes(thorough)...)
	out.Stat("shapes_with_marshaler", len(vMarshShapes(thorough)))
	for _, sh := range shapes {
		r.run(sh, vE2EPaths(sh), 40)
	}

	// ---- use: what arrives on the wire / in the TLS stack
	vUseHTTP(t, out, r.secrets)
	vUseGRPC(t, out, r.secrets)
	vUseTLS(t, out)
	vTLSDecision(t, out)
	vTLSCA(t, out)
	vValidate(t, out, r.secrets)
	vAfterUse(t, out, r.secrets)
	vMarshalInsideUnmarshal(t, out, r.secrets)
	vUseFailures(t, out, r.secrets)

	// ---- decoding through confmap
	for _, sec := range r.secrets {
		if len(sec) > 100 {
			continue
		}
		{
			var d vPlain
			in := confmap.NewFromStringMap(map[string]any{"tok": sec, "hdr": map[string]any{"a": sec}, "list": []any{sec}, "ptr": sec})
			if err := in.Unmarshal(&d); err != nil {
				t.Fatalf("plain: %v", err)
			}
			vUnmCase(out, "UConfPlain", sec, string(d.Tok), "unexplained")
			vUnmCase(out, "UConfPlain", sec, string(d.Hdr["a"]), "unexplained")
			if len(d.List) == 1 {
				vUnmCase(out, "UConfPlain", sec, string(d.List[0]), "unexplained")
			} else {
				out.Stat("unmarshal_list_split_by_comma", 1)
			}
			if d.Ptr != nil {
				vUnmCase(out, "UConfPlain", sec, string(*d.Ptr), "unexplained")
			}
		}
		{
			var d vNestedU
			in := confmap.NewFromStringMap(map[string]any{"in": map[string]any{"tok": sec, "x": 3}, "more": "m"})
			if err := in.Unmarshal(&d); err != nil {
				t.Fatalf("nested: %v", err)
			}
			vUnmCase(out, "UConfNestedUnmarshaler", sec, string(d.In.Tok), "unexplained")
		}
		{
			var d vSquashPlain
			in := confmap.NewFromStringMap(map[string]any{"tok": sec, "x": 3, "more": "m"})
			if err := in.Unmarshal(&d); err != nil {
				t.Fatalf("squash plain: %v", err)
			}
			vUnmCase(out, "UConfSquashPlain", sec, string(d.In.Tok), "unexplained")
		}
		{
			var d vSquashU
			in := confmap.NewFromStringMap(map[string]any{"tok": sec, "x": 3, "more": "m"})
			if err := in.Unmarshal(&d); err != nil {
				t.Fatalf("squash unmarshaler: %v", err)
			}
			vUnmCase(out, "UConfSquashUnmarshaler", sec, string(d.In.Tok), "unexplained") // (stored "[REDACTED]" before repair 02a3505c0)
		}
	}

	// ---- the real configuration structs (oracle only)
	type real struct {
		name    string
		mk      func(s string) any
		deepPtr bool // the secret sits behind a pointer field: %s / %q print it via fmtPointer's bad-verb report
	}
	reals := []real{
		{"confighttp.ClientConfig", func(s string) any {
			c := confighttp.NewDefaultClientConfig()
			c.Headers = map[string]configopaque.String{"Authorization": configopaque.String(s), "X-Tok": configopaque.String(s)}
			c.TLSSetting.KeyPem = configopaque.String(s)
			return c
		}, false},
		{"*confighttp.ServerConfig", func(s string) any {
			c := confighttp.NewDefaultServerConfig()
			c.ResponseHeaders = map[string]configopaque.String{"X-Tok": configopaque.String(s)}
			return &c
		}, false},
		{"confighttp.ServerConfig with *configtls.ServerConfig", func(s string) any {
			c := confighttp.NewDefaultServerConfig()
			c.TLSSetting = &configtls.ServerConfig{Config: configtls.Config{KeyPem: configopaque.String(s), CertPem: configopaque.String(s)}}
			return c
		}, true},
		{"configgrpc.ClientConfig", func(s string) any {
			c := configgrpc.NewDefaultClientConfig()
			c.Headers = map[string]configopaque.String{"authorization": configopaque.String(s)}
			return *c
		}, false},
		{"configtls.Config", func(s string) any {
			return configtls.Config{CAPem: configopaque.String(s), CertPem: configopaque.String(s), KeyPem: configopaque.String(s)}
		}, false},
	}
	jenc := zapcore.NewJSONEncoder(zapcore.EncoderConfig{})
	renders := []struct {
		name string
		f    func(v any) string
	}{
		{"fmt %v", func(v any) string { return fmt.Sprintf("%v", v) }},
		{"fmt %+v", func(v any) string { return fmt.Sprintf("%+v", v) }},
		{"fmt %#v", func(v any) string { return fmt.Sprintf("%#v", v) }},
		{"fmt %s", func(v any) string { return fmt.Sprintf("%s", v) }},
		{"fmt %q", func(v any) string { return fmt.Sprintf("%q", v) }},
		{"fmt %x", func(v any) string { return fmt.Sprintf("%x", v) }},
		{"json", func(v any) string { b, _ := json.Marshal(v); return string(b) }},
		{"confmap", vConfMarshal},
		{"zap.Any", func(v any) string { return vZapLine(jenc, zap.Any("cfg", v)) }},
	}
	for _, rc := range reals {
		for _, rd := range renders {
			var first string
			for si, sec := range r.secrets {
				o := rd.f(rc.mk(sec))
				bad := ""
				if si == 0 {
					first = o
				} else if o != first && !strings.Contains(rd.name, "fmt") && sec != "" {
					// (an empty secret is omitted: omitempty)
					// fmt output of these structs may contain addresses of freshly allocated parts
					bad = fmt.Sprintf("output differs between secret #0 and secret #%d", si)
				}
				if how := vReveals(o, sec); how != "" {
					bad = fmt.Sprintf("secret #%d occurs in the output (%s)", si, how)
				}
				out.Stat("real_config_renderings", 1)
				if bad != "" {
					if len(o) > 300 {
						o = o[:300] + "..."
					}
					cause := "unexplained"
					if rc.deepPtr && (rd.name == "fmt %s" || rd.name == "fmt %q") {
						cause = "fmt-inner-pointer-verb"
					}
					out.Stat("leak_real_config_"+cause, 1)
					out.Oracle("secret-revealed", "CRender SBare "+vEnc(sec)+" []", fmt.Sprintf("path=real config %s rendered with %s: %s: %q; cause=%s", rc.name, rd.name, bad, o, cause))
					break
				}
			}
		}
	}
}
