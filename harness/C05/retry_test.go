// C05 correspondence harness (injected by `go test -overlay` into exporter/exporterhelper; in-package).
//
// Drives the REAL sender chain built by internal.NewBaseExporter (obsReportSender -> retrySender ->
// timeoutSender -> exporter function) with the real logs/traces/metrics requests over a scripted
// exporter function, and records what the property talks about: the sequence and payload of the
// calls of the exporter function, the context deadline each call sees, the back-off delays chosen by
// retrySender (read from its log line), and the class of the error returned by Send.
//
// Case term (Coq, type C05.Harness.wire_case): see the header of coq/C05/Harness.v.
//
// Two families of retry scenarios:
//   F1 "timed"  : RandomizationFactor = 0, so the whole run is a deterministic function of the
//                 scenario.  A reference simulation (vSim, Go) computes the ideal schedule; scenarios are
//                 rejected unless every comparison of instants made by the code (elapsed budget,
//                 deadline, per-attempt timeout, stop / cancel against the end of a wait or an attempt)
//                 is at least vMargin away from equality, and every wait is at least vMinDelay
//                 (ties of a timer with the stop channel are the business of family F3).
//                 The exporter function sleeps until the ABSOLUTE ideal end of its attempt, so the
//                 scheduling jitter does not accumulate.  A run whose timers woke up later than
//                 vJitter is repeated (up to vRetries times) and otherwise skipped (STAT timing_skipped).
//   F2 "random" : RandomizationFactor > 0; no limit is near; shutdown / cancellation are triggered
//                 from inside attempt k (event driven); the model is run with the draws that
//                 reproduce the logged delays and the instants are reconstructed from them.
//   F3 "S4 regression": initial_interval = 0 and Shutdown completed inside attempt 0 (formerly finding S4,
//                 repaired in /repo by fix 9628cae8b): the timer of the zero-length wait and the closed stop
//                 channel are ready together; whichever branch the select takes, NO attempt may start after
//                 Shutdown has returned (oracle attempt-after-shutdown, no exemption) and Send must return the
//                 shutdown-classified error.  Compared exactly with the model like every other case.
// Plus kind-1 cases: BackOffConfig.Validate on generated configurations (tie of the hand translator).
//
// Direct oracle (independent of the Coq model), on the real call log: see vOracle.
package exporterhelper

import (
	"context"
	"errors"
	"fmt"
	"math"
	"reflect"
	"strconv"
	"strings"
	"sync"
	"sync/atomic"
	"testing"
	"time"

	"go.uber.org/multierr"
	"go.uber.org/zap"
	"go.uber.org/zap/zaptest/observer"

	"go.opentelemetry.io/collector/config/configretry"
	"go.opentelemetry.io/collector/consumer/consumererror"
	"go.opentelemetry.io/collector/exporter/exporterhelper/internal"
	"go.opentelemetry.io/collector/exporter/exporterhelper/internal/experr"
	"go.opentelemetry.io/collector/exporter/exportertest"
	"go.opentelemetry.io/collector/pdata/plog"
	"go.opentelemetry.io/collector/pdata/pmetric"
	"go.opentelemetry.io/collector/pdata/ptrace"
	"go.opentelemetry.io/collector/pipeline"
)

const (
	vMs       = int64(time.Millisecond)
	vMargin   = 60 * vMs // distance from equality of every inequality the code evaluates (F1)
	vJitter   = 25 * vMs // a timer that wakes up later than this invalidates the run (repeated)
	vMinDelay = 15 * vMs // every wait of a generated scenario is at least this long (F1 stays away from timer ties)
	vRetries  = 4
	vMaxTotal = 1600 * vMs
)

// ---- scenario ----------------------------------------------------------------------------------------
type vLayer struct {
	code int   // 0 permanent, 1 throttle, 2 partial, 3 shutdown error, 4 fmt wrap
	d    int64 // throttle delay
	sig  int   // partial: signal of the carried data
	rem  []int64
}

type vAttempt struct {
	dur    int64
	ok     bool
	layers []vLayer // outermost first: the primary chain the generator starts from
	tree   *vErr    // the error actually returned (the chain, possibly combined with other errors)
	// the exporter call does not abort when its context ends (a slow client that ignores cancellation): its answer
	// still arrives after dur, however late
	ignoreCtx bool
}

type vScenario struct {
	family                 int
	enabled                bool
	init, maxint, maxel    int64
	rfN, rfD, mN, mD       int64
	timeout                int64
	sig                    int
	payload                []int64
	deadline, cancel, stop int64 // -1 = none
	script                 []vAttempt
	evStop, evCancel       int // F2: Shutdown / cancel called from inside attempt k (-1 = never)
	ideal                  *vIdeal // F4 requests with a near deadline: the reference schedule
}

// vErr is an error TREE: a wrapper (codes 0..4, one wrapped error), a combination of several errors
// (code 5: errors.Join / fmt.Errorf with several %w / multierr.Combine) or the base error (code 6).
type vErr struct {
	code int
	d    int64
	sig  int
	rem  []int64
	sub  *vErr
	kids []*vErr
	jk   int // kind of combination: 0 errors.Join, 1 fmt.Errorf("%w | %w"), 2 multierr.Combine
	// code 7: an error type with its OWN As (and Is) method wrapping sub: what its As method answers true to
	cPerm, cShut, cThr bool
	cSig               int // partial data of that signal (rem), -1 = none
	isAny              bool
}

func vChain(ls []vLayer) *vErr {
	e := &vErr{code: 6}
	for i := len(ls) - 1; i >= 0; i-- {
		e = &vErr{code: ls[i].code, d: ls[i].d, sig: ls[i].sig, rem: ls[i].rem, sub: e}
	}
	return e
}

// vFind walks the tree depth first, a node before what it wraps, members left to right (the harness's own
// statement of what "the error is / carries X" means; deliberately not written with errors.As).
func vFind(e *vErr, pred func(*vErr) bool) *vErr {
	if e == nil {
		return nil
	}
	if pred(e) {
		return e
	}
	if e.sub != nil {
		return vFind(e.sub, pred)
	}
	for _, k := range e.kids {
		if f := vFind(k, pred); f != nil {
			return f
		}
	}
	return nil
}

func vWalk(e *vErr, f func(*vErr, int), depth int) {
	if e == nil {
		return
	}
	f(e, depth)
	if e.sub != nil {
		vWalk(e.sub, f, depth)
	}
	for _, k := range e.kids {
		vWalk(k, f, depth+1)
	}
}

func vIsPerm(e *vErr) bool {
	return vFind(e, func(x *vErr) bool { return x.code == 0 || (x.code == 7 && x.cPerm) }) != nil
}

func vIsShutdownClassified(e *vErr) bool {
	return vFind(e, func(x *vErr) bool { return x.code == 3 || (x.code == 7 && x.cShut) }) != nil
}

func vThrottle(e *vErr) (int64, bool) {
	if f := vFind(e, func(x *vErr) bool { return x.code == 1 || (x.code == 7 && x.cThr) }); f != nil {
		return f.d, true // a custom As method cannot fill the unexported fields of throttleRetry: delay 0
	}
	return 0, false
}

func vPartial(sig int, e *vErr) ([]int64, bool) {
	if f := vFind(e, func(x *vErr) bool { return (x.code == 2 && x.sig == sig) || (x.code == 7 && x.cSig == sig) }); f != nil {
		return f.rem, true
	}
	return nil, false
}

func vIncrement(sc *vScenario, cur int64) int64 {
	if cur*sc.mN >= sc.maxint*sc.mD {
		return sc.maxint
	}
	return cur * sc.mN / sc.mD
}

// ---- reference simulation for F1 (generator aid: ideal schedule + margins) ------------------------------
type vIdeal struct {
	start, end []int64
	verdict    int
	total      int64
	margin     int64 // smallest distance from equality met
	minDelay   int64
	waits      int
}

func vAbs(x int64) int64 {
	if x < 0 {
		return -x
	}
	return x
}

func vOptMin(a, b int64) int64 { // -1 = none
	if a < 0 {
		return b
	}
	if b < 0 {
		return a
	}
	return min(a, b)
}

func vSim(sc *vScenario) *vIdeal {
	id := &vIdeal{verdict: 7, margin: math.MaxInt64, minDelay: math.MaxInt64}
	m := func(a, b int64) {
		if d := vAbs(a - b); d < id.margin {
			id.margin = d
		}
	}
	now, cur := int64(0), int64(0)
	for _, a := range sc.script {
		s := now
		tdl := int64(-1)
		if sc.timeout != 0 {
			tdl = s + sc.timeout
			if sc.deadline >= 0 {
				m(sc.deadline, tdl)
			}
		}
		done := vOptMin(vOptMin(sc.deadline, tdl), sc.cancel)
		e, ok, layers := s+a.dur, a.ok, a.tree
		if done >= 0 && !a.ignoreCtx {
			if !(done == 0 && s == 0) {
				m(done, e)
				if sc.deadline >= 0 && sc.deadline <= s+vMargin {
					id.margin = 0 // a caller deadline that ends before/at the start of an attempt
				}
			}
			if done < e {
				e, ok, layers = max(done, s), false, nil
			}
		}
		id.start, id.end = append(id.start, s), append(id.end, e)
		id.total = e
		if ok {
			id.verdict = 0
			return id
		}
		if !sc.enabled {
			id.verdict = 6
			return id
		}
		if vIsPerm(layers) {
			id.verdict = 1
			return id
		}
		if cur == 0 {
			cur = sc.init
		}
		delay := cur
		cur = vIncrement(sc, cur)
		if d, has := vThrottle(layers); has {
			delay = max(delay, d)
		}
		id.minDelay = min(id.minDelay, delay)
		nrt := e + delay
		if sc.maxel > 0 {
			m(sc.maxel, nrt)
			if sc.maxel < nrt {
				id.verdict = 2
				return id
			}
		}
		if sc.deadline >= 0 {
			m(sc.deadline, nrt)
			if sc.deadline < nrt {
				id.verdict = 3
				return id
			}
		}
		rc, rs := vOptMin(sc.deadline, sc.cancel), sc.stop
		if rc >= 0 {
			rc = max(rc, e)
			m(rc, nrt)
		}
		if rs >= 0 {
			rs = max(rs, e)
			m(rs, nrt)
		}
		if rc >= 0 && rs >= 0 && (rc < nrt || rs < nrt) {
			m(rc, rs)
		}
		id.waits++
		if rc >= 0 && rc < nrt && (rs < 0 || rc < rs) {
			id.verdict, id.total = 4, rc
			return id
		}
		if rs >= 0 && rs < nrt {
			id.verdict, id.total = 5, rs
			return id
		}
		now, id.total = nrt, nrt
	}
	return id
}

// ---- generator ---------------------------------------------------------------------------------------
func vPickMs(r *vRand, vals ...int64) int64 { return vals[r.Intn(len(vals))] * vMs }

func vGenPayload(r *vRand) []int64 {
	n := 1 + r.Intn(6)
	p := make([]int64, n)
	for i := range p {
		p[i] = int64(1 + r.Intn(9)) // duplicates allowed: payloads are multisets
	}
	return p
}

func vSubset(r *vRand, p []int64) []int64 {
	var q []int64
	for _, x := range p {
		if r.Intn(3) != 0 {
			q = append(q, x)
		}
	}
	// an EMPTY remainder is a legitimate answer ("nothing left to resend"): the request is then replaced by an
	// empty one; keep it possible (about one subset in eight), otherwise prefer a non-empty remainder
	if len(q) == 0 && len(p) > 0 && r.Intn(3) != 0 {
		q = append(q, p[0])
	}
	if r.Intn(12) == 0 {
		q = nil
	}
	return q
}

// vGenScript generates a script; cur tracks the payload a well-behaved backend would be answering about.
// vClaim wraps e into an error type with its own As / Is methods and random claims
func vClaim(r *vRand, sc *vScenario, cur []int64, e *vErr, allowPerm bool) *vErr {
	n := &vErr{code: 7, sub: e, cSig: -1, isAny: r.Bool()}
	switch r.Intn(6) {
	case 0:
		n.cPerm = allowPerm
	case 1:
		n.cShut = true
	case 2:
		n.cThr = true
	case 3:
		n.cSig, n.rem = sc.sig, vSubset(r, cur)
	case 4:
		n.cSig, n.rem = (sc.sig+1)%3, []int64{9}
		n.cShut = r.Bool()
	} // case 5: claims nothing (transparent)
	return n
}

// vMember generates one further member of a combined error (what another destination of a fanning-out
// exporter reported).  mild: only members that do not change the kind of the outcome.
func vMember(r *vRand, sc *vScenario, cur []int64, thr []int64, mild bool) *vErr {
	if mild {
		switch r.Intn(3) {
		case 0:
			return vChain(nil)
		case 1:
			return vChain([]vLayer{{code: 4}})
		}
		return vChain([]vLayer{{code: 2, sig: sc.sig, rem: vSubset(r, cur)}})
	}
	switch r.Pick(4, 2, 1, 2, 3, 1, 1, 2, 1) {
	case 0:
		return vChain(nil)
	case 1:
		return vChain([]vLayer{{code: 0}})
	case 2:
		return vChain([]vLayer{{code: 4}, {code: 0}})
	case 3:
		return vChain([]vLayer{{code: 1, d: vPickMs(r, thr...)}})
	case 4:
		return vChain([]vLayer{{code: 2, sig: sc.sig, rem: vSubset(r, cur)}})
	case 5:
		return vChain([]vLayer{{code: 3}})
	case 6: // a nested combination with a permanent member
		return &vErr{code: 5, jk: r.Intn(3), kids: []*vErr{vChain(nil), vChain([]vLayer{{code: 0}})}}
	case 7:
		return vClaim(r, sc, cur, vChain(nil), true)
	}
	return &vErr{code: 5, jk: r.Intn(3), kids: []*vErr{vChain([]vLayer{{code: 1, d: vPickMs(r, thr...)}}), vChain([]vLayer{{code: 4}})}}
}

// vCombine turns the primary chain into the returned error: in one case out of four it is combined with
// one or two further errors (errors.Join / several %w / multierr), at a random position, possibly wrapped again.
func vCombine(r *vRand, sc *vScenario, base []vLayer, cur []int64, thr []int64, mild bool) *vErr {
	t := vChain(base)
	if r.Intn(4) != 0 {
		return t
	}
	members := []*vErr{t}
	for i, n := 0, 1+r.Intn(2); i < n; i++ {
		m := vMember(r, sc, cur, thr, mild)
		pos := r.Intn(len(members) + 1)
		members = append(members[:pos], append([]*vErr{m}, members[pos:]...)...)
	}
	j := &vErr{code: 5, jk: r.Intn(3), kids: members}
	switch r.Intn(8) {
	case 0, 1:
		j = &vErr{code: 4, sub: j}
	case 2:
		if !mild {
			j = &vErr{code: 1, d: vPickMs(r, thr...), sub: j}
		}
	}
	return j
}

func vGenScript(r *vRand, sc *vScenario, durs []int64, maxLen int, thr []int64) {
	n := 1 + r.Intn(maxLen)
	cur := sc.payload
	for i := 0; i < n; i++ {
		a := vAttempt{dur: durs[r.Intn(len(durs))]}
		switch r.Pick(12, 40, 8, 14, 18, 4, 4) {
		case 0:
			a.ok = true
		case 1: // plain transient
		case 2:
			a.layers = []vLayer{{code: 0}}
		case 3:
			a.layers = []vLayer{{code: 1, d: vPickMs(r, thr...)}}
		case 4:
			rem := vSubset(r, cur)
			sig := sc.sig
			switch r.Intn(8) {
			case 0:
				sig = (sc.sig + 1) % 3 // data of another signal: must NOT narrow the request
			case 1:
				rem = []int64{int64(20 + r.Intn(5))} // a backend that names something it was never sent
			}
			a.layers = []vLayer{{code: 2, sig: sig, rem: rem}}
			if sig == sc.sig {
				cur = rem
			}
		case 5:
			a.layers = []vLayer{{code: 3}} // an exporter that itself reports a shutdown-classified error
		case 6: // throttle around partial, or partial around throttle
			rem := vSubset(r, cur)
			l1, l2 := vLayer{code: 1, d: vPickMs(r, thr...)}, vLayer{code: 2, sig: sc.sig, rem: rem}
			if r.Bool() {
				l1, l2 = l2, l1
			}
			a.layers = []vLayer{l1, l2}
			cur = rem
		}
		if !a.ok {
			// decorate: fmt wraps, a second (shadowed) throttle / partial, a permanent deep inside
			if r.Intn(4) == 0 {
				a.layers = append([]vLayer{{code: 4}}, a.layers...)
			}
			if r.Intn(5) == 0 {
				a.layers = append(a.layers, vLayer{code: 4})
			}
			if r.Intn(12) == 0 {
				a.layers = append(a.layers, vLayer{code: 1, d: vPickMs(r, thr...)})
			}
			if r.Intn(12) == 0 {
				a.layers = append(a.layers, vLayer{code: 2, sig: sc.sig, rem: []int64{7}})
			}
			if r.Intn(25) == 0 {
				a.layers = append(a.layers, vLayer{code: 0})
			}
			a.tree = vCombine(r, sc, a.layers, cur, thr, false)
			if r.Intn(9) == 0 { // ... wrapped by an error type with its own As / Is methods
				a.tree = vClaim(r, sc, cur, a.tree, true)
			}
			if rem, has := vPartial(sc.sig, a.tree); has { // what a well-behaved backend answers about next
				cur = rem
			}
		}
		// some exporter calls ignore cancellation; more often those that outlast the per-attempt timeout, so that
		// answers (also successes and permanent errors) arriving AFTER the timeout are part of the space
		if r.Intn(5) == 0 || (sc.timeout != 0 && a.dur > sc.timeout && r.Bool()) {
			a.ignoreCtx = true
		}
		sc.script = append(sc.script, a)
	}
	// the run always terminates inside the script: three short successes at the end
	for i := 0; i < 3; i++ {
		sc.script = append(sc.script, vAttempt{dur: 5 * vMs, ok: true})
	}
}

var vMults = [][2]int64{{1, 1}, {3, 2}, {2, 1}, {1, 2}, {0, 1}, {5, 4}, {3, 1}, {3, 2}, {2, 1}}

func vGenF1(r *vRand) (*vScenario, *vIdeal) {
	for try := 0; ; try++ {
		sc := &vScenario{family: 1, enabled: r.Intn(10) != 0, rfN: 0, rfD: 1, deadline: -1, cancel: -1, stop: -1, evStop: -1, evCancel: -1}
		sc.init = vPickMs(r, 20, 30, 40, 60, 80, 100, 150)
		mu := vMults[r.Intn(len(vMults))]
		sc.mN, sc.mD = mu[0], mu[1]
		sc.maxint = vPickMs(r, 15, 40, 90, 150, 200, 300, 400)
		if r.Intn(2) == 0 {
			sc.maxel = max(sc.init, sc.maxint) + vPickMs(r, 0, 35, 115, 265, 385, 545, 825)
		}
		if r.Intn(2) == 0 {
			sc.timeout = vPickMs(r, 70, 95, 125, 1000)
		}
		sc.sig = r.Intn(3)
		sc.payload = vGenPayload(r)
		if r.Intn(5) < 2 {
			sc.deadline = vPickMs(r, 75, 135, 215, 335, 455, 615, 885, 1205)
		}
		switch r.Intn(20) {
		case 0:
			sc.cancel = 0 // already cancelled when Send is called
		case 1, 2, 3:
			sc.cancel = int64(25+r.Intn(700)) * vMs
		}
		if r.Intn(10) < 3 {
			sc.stop = int64(r.Intn(700)) * vMs
		}
		vGenScript(r, sc, []int64{5 * vMs, 10 * vMs, 20 * vMs, 40 * vMs, 10 * vMs, 160 * vMs, 230 * vMs}, 6, []int64{10, 30, 90, 150, 260, 120, 200, 20, 400})
		// with some context end configured (per-attempt timeout, caller deadline, cancellation): sometimes make one of
		// the first attempts a slow call that ignores cancellation and whose answer — a success, a permanent error or
		// whatever was scripted — therefore arrives AFTER that context end
		if (sc.timeout != 0 || sc.deadline >= 0 || sc.cancel >= 0) && r.Intn(4) == 0 {
			a := &sc.script[r.Intn(min(3, len(sc.script)))]
			a.ignoreCtx, a.dur = true, vPickMs(r, 160, 230, 300)
			switch r.Intn(4) {
			case 0, 1:
				a.ok, a.layers, a.tree = true, nil, nil
			case 2:
				a.ok, a.layers = false, []vLayer{{code: 4}, {code: 0}}
				a.tree = vChain(a.layers)
			}
		}
		id := vSim(sc)
		if id.verdict == 7 || id.margin < vMargin || id.total > vMaxTotal || (id.waits > 0 && id.minDelay < vMinDelay) {
			continue
		}
		return sc, id
	}
}

func vGenF2(r *vRand) *vScenario {
	sc := &vScenario{family: 2, enabled: true, deadline: -1, cancel: -1, stop: -1, evStop: -1, evCancel: -1}
	// every delay stays >= 8 ms (initial >= 16 ms, factor <= 1/2, multiplier >= 1 or 0): a wait whose stop
	// channel is already closed must not have a timer that can expire during a scheduling hiccup
	sc.init = vPickMs(r, 16, 24, 32)
	rf := [][2]int64{{1, 2}, {1, 4}, {3, 8}, {1, 8}, {1, 2}}[r.Intn(5)]
	sc.rfN, sc.rfD = rf[0], rf[1]
	mu := [][2]int64{{1, 1}, {3, 2}, {2, 1}, {0, 1}, {5, 4}, {3, 1}}[r.Intn(6)]
	sc.mN, sc.mD = mu[0], mu[1]
	sc.maxint = vPickMs(r, 16, 20, 40, 60)
	if r.Intn(3) == 0 {
		sc.maxel = int64(time.Hour)
	}
	if r.Intn(3) == 0 {
		sc.timeout = int64(10 * time.Second)
	}
	if r.Intn(4) == 0 {
		sc.deadline = int64(time.Hour)
	}
	sc.sig = r.Intn(3)
	sc.payload = vGenPayload(r)
	vGenScript(r, sc, []int64{1 * vMs, 2 * vMs, 3 * vMs}, 7, []int64{2, 12, 35, 70})
	switch r.Intn(6) {
	case 0, 1:
		sc.evStop = r.Intn(4)
	case 2:
		sc.evCancel = r.Intn(4)
	}
	return sc
}

// F3: regression stream for the repaired S4 (initial_interval 0, shutdown completed inside attempt 0)
func vGenF3(r *vRand) *vScenario {
	sc := &vScenario{family: 3, enabled: true, deadline: -1, cancel: -1, stop: -1, evStop: 0, evCancel: -1}
	rf := [][2]int64{{0, 1}, {1, 2}, {1, 1}}[r.Intn(3)]
	sc.rfN, sc.rfD = rf[0], rf[1]
	mu := vMults[r.Intn(len(vMults))]
	sc.mN, sc.mD = mu[0], mu[1]
	sc.maxint = vPickMs(r, 0, 20, 30000)
	sc.sig = r.Intn(3)
	sc.payload = vGenPayload(r)
	cur := sc.payload
	for i, n := 0, 1+r.Intn(6); i < n; i++ {
		a := vAttempt{dur: 1 * vMs}
		switch r.Intn(4) {
		case 0:
			cur = vSubset(r, cur)
			a.layers = []vLayer{{code: 2, sig: sc.sig, rem: cur}}
		case 1:
			a.layers = []vLayer{{code: 4}}
		}
		a.tree = vCombine(r, sc, a.layers, cur, nil, true)
		if rem, has := vPartial(sc.sig, a.tree); has {
			cur = rem
		}
		sc.script = append(sc.script, a)
	}
	sc.script = append(sc.script, vAttempt{dur: 1 * vMs, ok: true})
	return sc
}

// ---- running a scenario on the real implementation -------------------------------------------------------
type vCall struct {
	start, end int64 // ns since t0
	payload    []int64
	dlClass    int
	dlSeen     int64 // ns since t0, -1 none
	ret        error
	e          *vErr // what the script made it return (nil for success / context error)
	ok         bool
	ctxErr     bool
	offSched   bool
	lateWake   int64
	afterStop  bool // Shutdown had already RETURNED when this call started
	lateAnswer bool // the scripted answer was returned although the call's context had already ended
}

type vObs struct {
	calls      []vCall
	delays     []int64
	err        error
	verdict    int
	isShutdown bool
	isPerm     bool
	ret        int64 // instant Send returned
	stopReal   int64 // instant Shutdown was called (-1 never)
	cancelReal int64
	unstable   bool
	base       error // the base error of this request's exporter errors (nil = vBaseErr)
}

func vIDsOf(req Request) []int64 {
	var out []int64
	switch r := req.(type) {
	case *logsRequest:
		rls := r.ld.ResourceLogs()
		for i := 0; i < rls.Len(); i++ {
			for j := 0; j < rls.At(i).ScopeLogs().Len(); j++ {
				lrs := rls.At(i).ScopeLogs().At(j).LogRecords()
				for k := 0; k < lrs.Len(); k++ {
					out = append(out, lrs.At(k).Body().Int())
				}
			}
		}
	case *tracesRequest:
		rss := r.td.ResourceSpans()
		for i := 0; i < rss.Len(); i++ {
			for j := 0; j < rss.At(i).ScopeSpans().Len(); j++ {
				ss := rss.At(i).ScopeSpans().At(j).Spans()
				for k := 0; k < ss.Len(); k++ {
					n, _ := strconv.ParseInt(ss.At(k).Name(), 10, 64)
					out = append(out, n)
				}
			}
		}
	case *metricsRequest:
		rms := r.md.ResourceMetrics()
		for i := 0; i < rms.Len(); i++ {
			for j := 0; j < rms.At(i).ScopeMetrics().Len(); j++ {
				ms := rms.At(i).ScopeMetrics().At(j).Metrics()
				for k := 0; k < ms.Len(); k++ {
					n, _ := strconv.ParseInt(ms.At(k).Name(), 10, 64)
					out = append(out, n)
				}
			}
		}
	default:
		out = append(out, -999)
	}
	return out
}

func vLogs(ids []int64) plog.Logs {
	ld := plog.NewLogs()
	lrs := ld.ResourceLogs().AppendEmpty().ScopeLogs().AppendEmpty().LogRecords()
	for _, id := range ids {
		lrs.AppendEmpty().Body().SetInt(id)
	}
	return ld
}

func vTraces(ids []int64) ptrace.Traces {
	td := ptrace.NewTraces()
	ss := td.ResourceSpans().AppendEmpty().ScopeSpans().AppendEmpty().Spans()
	for _, id := range ids {
		ss.AppendEmpty().SetName(strconv.FormatInt(id, 10))
	}
	return td
}

func vMetrics(ids []int64) pmetric.Metrics {
	md := pmetric.NewMetrics()
	ms := md.ResourceMetrics().AppendEmpty().ScopeMetrics().AppendEmpty().Metrics()
	for _, id := range ids {
		m := ms.AppendEmpty()
		m.SetName(strconv.FormatInt(id, 10))
		m.SetEmptyGauge().DataPoints().AppendEmpty().SetIntValue(id)
	}
	return md
}

func vRequest(sig int, ids []int64) Request {
	switch sig {
	case 0:
		return newLogsRequest(vLogs(ids))
	case 1:
		return newTracesRequest(vTraces(ids))
	}
	return newMetricsRequest(vMetrics(ids))
}

var vBaseErr = errors.New("backend unavailable")

// vClaimErr is an error type with its own As and Is methods (see the Go documentation of errors.As / errors.Is):
// As answers true for the target types it claims; the unexported targets of other packages are recognised by
// reflection and left at their zero value, the exported consumererror.Logs/Traces/Metrics are filled in.
type vClaimErr struct {
	inner error
	n     *vErr
}

func (e vClaimErr) Error() string { return "custom: " + e.inner.Error() }
func (e vClaimErr) Unwrap() error { return e.inner }
func (e vClaimErr) Is(error) bool { return e.n.isAny }
func (e vClaimErr) As(target any) bool {
	switch t := target.(type) {
	case *consumererror.Logs:
		if e.n.cSig == 0 {
			if v, ok := consumererror.NewLogs(e.inner, vLogs(e.n.rem)).(consumererror.Logs); ok {
				*t = v
				return true
			}
		}
		return false
	case *consumererror.Traces:
		if e.n.cSig == 1 {
			if v, ok := consumererror.NewTraces(e.inner, vTraces(e.n.rem)).(consumererror.Traces); ok {
				*t = v
				return true
			}
		}
		return false
	case *consumererror.Metrics:
		if e.n.cSig == 2 {
			if v, ok := consumererror.NewMetrics(e.inner, vMetrics(e.n.rem)).(consumererror.Metrics); ok {
				*t = v
				return true
			}
		}
		return false
	}
	rt := reflect.TypeOf(target)
	if rt == nil || rt.Kind() != reflect.Ptr {
		return false
	}
	el := rt.Elem()
	switch {
	case el.Name() == "permanent" && strings.HasSuffix(el.PkgPath(), "consumer/consumererror"):
		return e.n.cPerm
	case el.Name() == "shutdownErr" && strings.HasSuffix(el.PkgPath(), "internal/experr"):
		return e.n.cShut
	case el.Name() == "throttleRetry" && strings.HasSuffix(el.PkgPath(), "exporterhelper/internal"):
		return e.n.cThr
	}
	return false
}

func vBuildErr(e *vErr, base error) error {
	switch e.code {
	case 6:
		return base
	case 5:
		kids := make([]error, len(e.kids))
		for i, k := range e.kids {
			kids[i] = vBuildErr(k, base)
		}
		switch e.jk {
		case 1:
			args := make([]any, len(kids))
			for i := range kids {
				args[i] = kids[i]
			}
			return fmt.Errorf("several destinations failed: %w"+strings.Repeat(" | %w", len(kids)-1), args...)
		case 2:
			return multierr.Combine(kids...)
		}
		return errors.Join(kids...)
	}
	in := vBuildErr(e.sub, base)
	switch e.code {
	case 7:
		return vClaimErr{inner: in, n: e}
	case 0:
		return consumererror.NewPermanent(in)
	case 1:
		return internal.NewThrottleRetry(in, time.Duration(e.d))
	case 2:
		switch e.sig {
		case 0:
			return consumererror.NewLogs(in, vLogs(e.rem))
		case 1:
			return consumererror.NewTraces(in, vTraces(e.rem))
		}
		return consumererror.NewMetrics(in, vMetrics(e.rem))
	case 3:
		return experr.NewShutdownErr(in)
	}
	return fmt.Errorf("export failed: %w", in)
}

func vClassify(err error) int {
	if err == nil {
		return 0
	}
	s := err.Error()
	switch {
	case strings.HasPrefix(s, "not retryable error: "):
		return 1
	case strings.HasPrefix(s, "no more retries left: "):
		return 2
	case strings.HasPrefix(s, "request will be cancelled before next retry: "):
		return 3
	case strings.HasPrefix(s, "request is cancelled or timed out: "):
		return 4
	case strings.HasPrefix(s, "interrupted due to shutdown: "):
		return 5
	}
	return 6
}

const vRetryMsg = "Exporting failed. Will retry the request after interval."

func vRunOnce(sc *vScenario, id *vIdeal) (*vObs, error) {
	obs := &vObs{stopReal: -1, cancelReal: -1}
	core, logs := observer.New(zap.InfoLevel)
	set := exportertest.NewNopSettings(exportertest.NopType)
	set.Logger = zap.New(core)

	var t0 time.Time
	var be *internal.BaseExporter
	var stopOnce sync.Once
	var mu sync.Mutex
	var stopDone atomic.Bool
	doStop := func() {
		stopOnce.Do(func() {
			mu.Lock()
			obs.stopReal = int64(time.Since(t0))
			mu.Unlock()
			_ = be.Shutdown(context.Background())
			stopDone.Store(true)
		})
	}
	var cancel context.CancelFunc
	doCancel := func() {
		mu.Lock()
		if obs.cancelReal < 0 {
			obs.cancelReal = int64(time.Since(t0))
		}
		mu.Unlock()
		cancel()
	}

	pusher := func(ctx context.Context, req Request) error {
		k := len(obs.calls)
		c := vCall{start: int64(time.Since(t0)), payload: vIDsOf(req), dlSeen: -1, afterStop: stopDone.Load()}
		if dl, has := ctx.Deadline(); has {
			c.dlSeen = int64(dl.Sub(t0))
			c.dlClass = 2
			if sc.deadline >= 0 && dl.Equal(t0.Add(time.Duration(sc.deadline))) {
				c.dlClass = 1
			}
		}
		if k >= len(sc.script) { // more attempts than scripted: succeed at once (the case will disagree)
			c.end, c.ok = c.start, true
			obs.calls = append(obs.calls, c)
			return nil
		}
		a := sc.script[k]
		if sc.evStop == k {
			doStop()
		}
		if sc.evCancel == k {
			doCancel()
		}
		wait := time.Duration(a.dur)
		target := c.start + a.dur
		if sc.family == 1 && id != nil && k < len(id.start) && vAbs(c.start-id.start[k]) <= vJitter {
			target = id.start[k] + a.dur // absolute schedule: jitter does not accumulate
			wait = time.Until(t0.Add(time.Duration(target)))
		} else if sc.family == 1 {
			c.offSched = true
		}
		tm := time.NewTimer(wait)
		var err error
		ctxDone := ctx.Done()
		if a.ignoreCtx {
			ctxDone = nil // never ready: the call runs to its end
		}
		select {
		case <-tm.C:
			c.lateWake = int64(time.Since(t0)) - target
			c.lateAnswer = ctx.Err() != nil
			if a.ok {
				c.ok = true
			} else {
				c.e = a.tree
				err = vBuildErr(a.tree, vBaseErr)
			}
		case <-ctxDone:
			tm.Stop()
			c.ctxErr = true
			err = ctx.Err()
		}
		c.end = int64(time.Since(t0))
		c.ret = err
		obs.calls = append(obs.calls, c)
		return err
	}

	cfg := configretry.BackOffConfig{
		Enabled:             sc.enabled,
		InitialInterval:     time.Duration(sc.init),
		RandomizationFactor: float64(sc.rfN) / float64(sc.rfD),
		Multiplier:          float64(sc.mN) / float64(sc.mD),
		MaxInterval:         time.Duration(sc.maxint),
		MaxElapsedTime:      time.Duration(sc.maxel),
	}
	sig := []pipeline.Signal{pipeline.SignalLogs, pipeline.SignalTraces, pipeline.SignalMetrics}[sc.sig]
	var err error
	be, err = internal.NewBaseExporter(set, sig, pusher, internal.WithRetry(cfg),
		internal.WithTimeout(internal.TimeoutConfig{Timeout: time.Duration(sc.timeout)}))
	if err != nil {
		return nil, err
	}
	req := vRequest(sc.sig, sc.payload)

	t0 = time.Now()
	ctx := context.Background()
	var cancelDl context.CancelFunc = func() {}
	if sc.deadline >= 0 {
		ctx, cancelDl = context.WithDeadline(ctx, t0.Add(time.Duration(sc.deadline)))
	}
	ctx, cancel = context.WithCancel(ctx)
	var timers []*time.Timer
	if sc.family == 1 {
		if sc.cancel == 0 {
			doCancel()
		} else if sc.cancel > 0 {
			timers = append(timers, time.AfterFunc(time.Until(t0.Add(time.Duration(sc.cancel))), doCancel))
		}
		if sc.stop >= 0 {
			timers = append(timers, time.AfterFunc(time.Until(t0.Add(time.Duration(sc.stop))), doStop))
		}
	}
	done := make(chan error, 1)
	go func() { done <- be.Send(ctx, req) }()
	select {
	case obs.err = <-done:
	case <-time.After(20 * time.Second):
		return nil, errors.New("Send did not return within 20 s")
	}
	obs.ret = int64(time.Since(t0))
	for _, tm := range timers {
		tm.Stop()
	}
	mu.Lock()
	stopReal, cancelReal := obs.stopReal, obs.cancelReal
	mu.Unlock()
	cancel()
	cancelDl()
	if stopReal < 0 {
		stopOnce.Do(func() { _ = be.Shutdown(context.Background()) })
	}
	obs.stopReal, obs.cancelReal = stopReal, cancelReal

	for _, e := range logs.FilterMessage(vRetryMsg).All() {
		s, _ := e.ContextMap()["interval"].(string)
		d, perr := time.ParseDuration(s)
		if perr != nil {
			return nil, fmt.Errorf("cannot parse logged interval %q", s)
		}
		obs.delays = append(obs.delays, int64(d))
	}
	obs.verdict = vClassify(obs.err)
	if !sc.enabled && obs.err != nil {
		obs.verdict = 6 // no retrySender in the chain: the exporter's error is returned as is
	}
	obs.isShutdown = experr.IsShutdownErr(obs.err)
	obs.isPerm = consumererror.IsPermanent(obs.err)

	// timing sanity of THIS run (harness timers only; independent of whether the delays are right)
	vLatencyGate(obs)
	for k, c := range obs.calls {
		if c.lateWake > vJitter {
			obs.unstable = true
		}
		if k+1 < len(obs.calls) && k < len(obs.delays) {
			if gap := obs.calls[k+1].start - c.end; gap-obs.delays[k] > vJitter {
				obs.unstable = true
			}
		}
	}
	if sc.family == 1 {
		if sc.stop >= 0 && stopReal >= 0 && stopReal-sc.stop > vJitter {
			obs.unstable = true
		}
		if sc.cancel > 0 && cancelReal >= 0 && cancelReal-sc.cancel > vJitter {
			obs.unstable = true
		}
	}
	return obs, nil
}

// vLatencyGate marks a run in which the process stalled where the harness' timers cannot see it: between the
// instant t0 and the first call of the exporter function (Send itself started late, so its clock origin is not t0),
// or between the return of the last attempt (plus the entered wait, if any) and the return of Send.
func vLatencyGate(obs *vObs) {
	n := len(obs.calls)
	if n == 0 {
		return
	}
	if obs.calls[0].start > vJitter {
		obs.unstable = true
	}
	last := obs.calls[n-1]
	tail := obs.ret - last.end
	if len(obs.delays) == n { // the run ended inside (or at the end of) a wait that was entered
		tail -= obs.delays[n-1]
	}
	if tail > vJitter {
		obs.unstable = true
	}
}

// ---- direct oracle on the real call log ---------------------------------------------------------------------
func vSameIDs(a, b []int64) bool {
	if len(a) != len(b) {
		return false
	}
	for i := range a {
		if a[i] != b[i] {
			return false
		}
	}
	return true
}

// envelope of the n-th back-off delay, computed independently (documented formula:
// interval_0 = initial, interval_{n+1} = min(interval_n * multiplier, max_interval), +-rf)
func vEnvelope(sc *vScenario, n int) (lo, hi float64) {
	cur := float64(sc.init)
	mult := float64(sc.mN) / float64(sc.mD)
	for i := 0; i < n; i++ {
		cur = math.Floor(math.Min(cur*mult, float64(sc.maxint)))
		if cur == 0 {
			cur = float64(sc.init)
		}
	}
	rf := float64(sc.rfN) / float64(sc.rfD)
	return cur*(1-rf) - 1, cur*(1+rf) + 1
}

func vOracle(out *vOut, term string, sc *vScenario, obs *vObs) {
	fail := func(kind, detail string) { out.Oracle(kind, term, detail) }
	slack := vMargin / 2
	n := len(obs.calls)
	if n == 0 {
		fail("no-attempt", "Send returned without calling the exporter function")
		return
	}
	for k, c := range obs.calls {
		last := k == n-1
		perm := !c.ok && !c.ctxErr && vIsPerm(c.e)
		if !last && (c.ok || perm) {
			fail("attempt-after-verdict", fmt.Sprintf("attempt %d returned ok=%v permanent=%v and was followed by another attempt", k, c.ok, perm))
		}
		if !last && !sc.enabled {
			fail("attempt-while-retry-disabled", fmt.Sprintf("%d attempts with retry disabled", n))
		}
		if !last {
			want := c.payload
			if rem, has := vPartial(sc.sig, c.e); has && !c.ctxErr {
				want = rem
			}
			if got := obs.calls[k+1].payload; !vSameIDs(got, want) {
				fail("resent-not-remainder", fmt.Sprintf("attempt %d resent %v, expected %v", k+1, got, want))
			}
			gap := obs.calls[k+1].start - c.end
			if d, has := vThrottle(c.e); has && !c.ctxErr && gap < d-vMs {
				fail("wait-shorter-than-throttle", fmt.Sprintf("attempt %d: waited %d ns, backend asked for %d ns", k, gap, d))
			}
			if k < len(obs.delays) && gap < obs.delays[k]-vMs {
				fail("wait-shorter-than-delay", fmt.Sprintf("attempt %d: waited %d ns, chosen delay %d ns", k, gap, obs.delays[k]))
			}
		}
		if k < len(obs.delays) {
			lo, hi := vEnvelope(sc, k)
			d := float64(obs.delays[k])
			th, has := vThrottle(c.e)
			has = has && !c.ctxErr
			if has && d < float64(th) {
				fail("wait-shorter-than-throttle", fmt.Sprintf("attempt %d: chosen delay %v below throttle %d", k, d, th))
			}
			if d < lo || (d > hi && !(has && d == float64(th))) {
				fail("delay-outside-envelope", fmt.Sprintf("attempt %d: chosen delay %v outside [%v, %v]", k, d, lo, hi))
			}
		}
		if k > 0 {
			if sc.maxel > 0 && sc.enabled && c.start > sc.maxel+slack {
				fail("retry-beyond-elapsed-budget", fmt.Sprintf("attempt %d started at %d ns, budget %d ns", k, c.start, sc.maxel))
			}
			if sc.deadline >= 0 && c.start > sc.deadline+slack {
				fail("retry-beyond-deadline", fmt.Sprintf("attempt %d started at %d ns, deadline %d ns", k, c.start, sc.deadline))
			}
			if c.afterStop {
				db := int64(-1)
				if k-1 < len(obs.delays) {
					db = obs.delays[k-1]
				}
				fail("attempt-after-shutdown", fmt.Sprintf("attempt %d started after Shutdown had returned (Shutdown at %d ns, attempt at %d ns) initial_interval=%dns delay_before_attempt=%dns",
					k, obs.stopReal, c.start, sc.init, db))
			}
			if obs.cancelReal >= 0 && c.start > obs.cancelReal+slack {
				fail("attempt-after-cancel", fmt.Sprintf("attempt %d started at %d ns, cancel at %d ns", k, c.start, obs.cancelReal))
			}
		}
		// per-attempt timeout
		switch {
		case sc.timeout == 0 && sc.deadline < 0 && c.dlSeen >= 0:
			fail("timeout-per-attempt", fmt.Sprintf("attempt %d sees a deadline although none is configured", k))
		case sc.timeout == 0 && sc.deadline >= 0 && c.dlClass != 1:
			fail("timeout-per-attempt", fmt.Sprintf("attempt %d does not see the caller's deadline", k))
		case sc.timeout != 0 && (c.dlSeen < 0 || c.dlSeen > c.start+sc.timeout+vMs):
			fail("timeout-per-attempt", fmt.Sprintf("attempt %d: deadline %d ns later than start %d + timeout %d", k, c.dlSeen, c.start, sc.timeout))
		case sc.timeout != 0 && sc.deadline >= 0 && c.dlSeen > sc.deadline:
			fail("timeout-per-attempt", fmt.Sprintf("attempt %d: deadline %d ns later than the caller's %d", k, c.dlSeen, sc.deadline))
		case sc.timeout != 0 && c.dlClass == 2 && k > 0 && c.dlSeen < obs.calls[k-1].end+sc.timeout:
			fail("timeout-per-attempt", fmt.Sprintf("attempt %d: deadline %d ns earlier than a fresh timeout", k, c.dlSeen))
		}
	}
	lastc := obs.calls[n-1]
	inWait := len(obs.delays) == n // the last attempt was followed by a wait that never led to another attempt
	switch {
	case lastc.ok && obs.err != nil:
		fail("error-after-success", obs.err.Error())
	case !lastc.ok && obs.err == nil:
		fail("success-without-delivery", "Send returned nil although the last attempt failed")
	}
	base := obs.base
	if base == nil {
		base = vBaseErr
	}
	if obs.err != nil && lastc.ret != nil && !errors.Is(obs.err, lastc.ret) && !errors.Is(obs.err, base) {
		fail("final-error-does-not-wrap-last", obs.err.Error())
	}
	// classification of the returned error: errors.As semantics over the whole tree of the last exporter error
	if obs.err != nil {
		wantSd := obs.verdict == 5 || vIsShutdownClassified(lastc.e)
		if wantSd != obs.isShutdown {
			fail("shutdown-classification-wrong", fmt.Sprintf("IsShutdownErr=%v, expected %v for %q", obs.isShutdown, wantSd, obs.err.Error()))
		}
		if wantPm := vIsPerm(lastc.e) && !lastc.ctxErr; wantPm != obs.isPerm {
			fail("permanent-classification-wrong", fmt.Sprintf("IsPermanent=%v, expected %v for %q", obs.isPerm, wantPm, obs.err.Error()))
		}
	}
	if obs.verdict == 5 && (obs.stopReal < 0 || !obs.isShutdown) {
		fail("shutdown-error-without-shutdown", fmt.Sprintf("stopReal=%d IsShutdownErr=%v", obs.stopReal, obs.isShutdown))
	}
	if inWait && obs.stopReal >= 0 && obs.cancelReal < 0 && obs.err != nil && !obs.isShutdown &&
		obs.stopReal+slack < lastc.end+obs.delays[n-1] {
		fail("non-shutdown-error-during-shutdown", fmt.Sprintf("Shutdown at %d ns inside the wait [%d, %d] but Send returned %q",
			obs.stopReal, lastc.end, lastc.end+obs.delays[n-1], obs.err.Error()))
	}
	if obs.verdict == 2 && sc.maxel == 0 {
		fail("gave-up-without-budget", "no more retries left although max_elapsed_time is 0")
	}
	if obs.verdict == 2 && sc.maxel > 0 {
		_, hi := vEnvelope(sc, n-1)
		if th, has := vThrottle(lastc.e); has && !lastc.ctxErr {
			hi = math.Max(hi, float64(th))
		}
		if float64(lastc.end)+hi < float64(sc.maxel-slack) {
			fail("gave-up-too-early", fmt.Sprintf("last attempt ended at %d ns, largest delay %v, budget %d ns", lastc.end, hi, sc.maxel))
		}
	}
	if obs.verdict == 3 && sc.deadline < 0 {
		fail("gave-up-too-early", "deadline verdict without a deadline")
	}
	// a transient failure inside every limit, with nobody stopping: the retry must happen
	if !lastc.ok && !lastc.ctxErr && sc.enabled && !vIsPerm(lastc.e) && obs.stopReal < 0 && obs.cancelReal < 0 &&
		sc.deadline < 0 && sc.maxel == 0 {
		fail("no-retry-although-allowed", fmt.Sprintf("verdict %d after a transient failure without any limit", obs.verdict))
	}
}

// ---- printing ------------------------------------------------------------------------------------------------
func vZs(xs []int64) string {
	it := make([]string, len(xs))
	for i, x := range xs {
		it[i] = vZ(x)
	}
	return vList(it)
}

func vB(b bool) int64 {
	if b {
		return 1
	}
	return 0
}

// vTokens prints an error tree in prefix form (see coq/C05/Harness.v parse_err)
func vTokens(e *vErr, out []string) []string {
	switch e.code {
	case 6:
		return append(out, vPair(vZ(6), "[]"))
	case 5:
		out = append(out, vPair(vZ(5), vZs([]int64{int64(len(e.kids))})))
		for _, k := range e.kids {
			out = vTokens(k, out)
		}
		return out
	case 1:
		out = append(out, vPair(vZ(1), vZs([]int64{e.d})))
	case 2:
		out = append(out, vPair(vZ(2), vZs(append([]int64{int64(e.sig)}, e.rem...))))
	case 7:
		args := []int64{vB(e.isAny), vB(e.cPerm), vB(e.cShut), vB(e.cThr), int64(e.cSig)}
		if e.cSig >= 0 {
			args = append(args, e.rem...)
		}
		out = append(out, vPair(vZ(7), vZs(args)))
	default:
		out = append(out, vPair(vZ(int64(e.code)), "[]"))
	}
	return vTokens(e.sub, out)
}

func vScriptTerm(sc *vScenario) string {
	it := make([]string, len(sc.script))
	for i, a := range sc.script {
		ls := []string{vPair(vZ(9), "[]")}
		if !a.ok {
			ls = vTokens(a.tree, nil)
		}
		if a.ignoreCtx {
			ls = append([]string{vPair(vZ(8), "[]")}, ls...)
		}
		it[i] = vPair(vZ(a.dur), vList(ls))
	}
	return vList(it)
}

func vCaseTerm(sc *vScenario, obs *vObs, cancelAt, stopAt int64) string {
	tie := int64(0)
	hdr := []int64{0, vB(sc.enabled), sc.init, sc.rfN, sc.rfD, sc.mN, sc.mD, sc.maxint, sc.maxel, sc.timeout,
		int64(sc.sig), sc.deadline, cancelAt, stopAt, tie}
	atts := make([]string, len(obs.calls))
	for i, c := range obs.calls {
		atts[i] = vPair(vZs(c.payload), vZ(int64(c.dlClass)))
	}
	final := []int64{int64(obs.verdict), vB(obs.isShutdown), vB(obs.isPerm)}
	return vPair(vZs(hdr), vPair(vZs(sc.payload), vPair(vScriptTerm(sc), vPair(vList(atts), vPair(vZs(obs.delays), vZs(final))))))
}

// F2: the instants of the event-driven stop / cancel, reconstructed from the logged delays
func vEventInstants(sc *vScenario, obs *vObs) (cancelAt, stopAt int64) {
	cancelAt, stopAt = -1, -1
	startOf := func(k int) int64 { // an instant inside attempt k
		if k >= len(obs.calls) {
			return -1
		}
		t := int64(0)
		for i := 0; i < k; i++ {
			d := sc.script[i].dur
			if i < len(obs.delays) {
				d += obs.delays[i]
			}
			t += d
		}
		return t + sc.script[k].dur/2 // strictly inside attempt k
	}
	if sc.evStop >= 0 {
		stopAt = startOf(sc.evStop)
	}
	if sc.evCancel >= 0 {
		cancelAt = startOf(sc.evCancel)
	}
	return
}

// ---- family 4: several requests through ONE exporter (the same retrySender) --------------------------------------
// Every Send is an independent run of the model (fresh back-off state; the stop channel is the only thing shared
// and it stays closed for every request, current and future).  Each request of a group is emitted as its own case.
//   mode 0: the requests are sent one after another      (state left behind by an earlier request)
//   mode 1: the requests are sent concurrently           (state shared between concurrent requests)
//   mode 2: concurrently, and Shutdown is called while role-0 requests wait in their first back-off and role-1
//           requests have their first attempt in progress; role-2 requests are sent after Shutdown returned;
//           role-3 requests succeeded before.  Every request that fails (non-permanently) from then on must end
//           with the shutdown-classified error and must not be attempted again.
type vGroup struct {
	mode  int
	reqs  []*vScenario
	roles []int
}

type vReqKey struct{}

func vGenFailures(r *vRand, sc *vScenario, n int, dur0 int64, first int) {
	cur := sc.payload
	thr := []int64{5, 12, 30}
	for i := 0; i < n; i++ {
		a := vAttempt{dur: int64(1+r.Intn(3)) * vMs}
		if i == 0 {
			a.dur = dur0
		}
		switch {
		case i == 0 && first == 1:
			a.ok = true
		case i == 0 && first == 2:
			a.layers = []vLayer{{code: 4}, {code: 0}}
		default:
			switch r.Intn(5) {
			case 1:
				a.layers = []vLayer{{code: 4}}
			case 2:
				a.layers = []vLayer{{code: 2, sig: sc.sig, rem: vSubset(r, cur)}}
			case 3:
				a.layers = []vLayer{{code: 1, d: vPickMs(r, thr...)}}
			}
		}
		a.ignoreCtx = r.Intn(5) == 0
		if !a.ok {
			a.tree = vCombine(r, sc, a.layers, cur, thr, !(i == 0 && first == 2))
			if rem, has := vPartial(sc.sig, a.tree); has {
				cur = rem
			}
		}
		sc.script = append(sc.script, a)
	}
	for i := 0; i < 2; i++ {
		sc.script = append(sc.script, vAttempt{dur: 1 * vMs, ok: true})
	}
}

// vWorstTotal bounds the duration of a request's run from above (largest delays of the envelope)
func vWorstTotal(sc *vScenario) int64 {
	t := int64(0)
	for k, a := range sc.script {
		t += a.dur + 5*vMs
		if a.ok || vIsPerm(a.tree) {
			break
		}
		_, hi := vEnvelope(sc, k)
		d := int64(hi)
		if th, has := vThrottle(a.tree); has {
			d = max(d, th)
		}
		t += d
	}
	return t
}

func vGenGroup(r *vRand, mode int) *vGroup {
	g := &vGroup{mode: mode}
	tmpl := vScenario{family: 4, enabled: true, deadline: -1, cancel: -1, stop: -1, evStop: -1, evCancel: -1}
	rf := [][2]int64{{0, 1}, {0, 1}, {1, 4}, {1, 2}}[r.Intn(4)]
	mu := [][2]int64{{2, 1}, {3, 2}, {3, 1}, {2, 1}}[r.Intn(4)]
	tmpl.mN, tmpl.mD = mu[0], mu[1]
	if mode == 2 {
		tmpl.init, tmpl.maxint = vPickMs(r, 90, 120), 400*vMs
		rf = [][2]int64{{0, 1}, {1, 4}}[r.Intn(2)]
	} else {
		tmpl.init, tmpl.maxint = vPickMs(r, 8, 12, 16), vPickMs(r, 48, 200)
	}
	tmpl.rfN, tmpl.rfD = rf[0], rf[1]
	add := func(role, nfail int, dur0 int64, first int) {
		sc := tmpl
		sc.sig = r.Intn(3)
		sc.payload = vGenPayload(r)
		vGenFailures(r, &sc, nfail, dur0, first)
		// the request's own context: a far deadline, a deadline that cuts the run (randomization 0 only, every
		// comparison >= vMargin from equality), or a cancellation from inside one of its attempts
		switch c := r.Intn(5); {
		case c == 0:
			sc.deadline = int64(time.Hour)
		case c == 1 && mode != 2 && sc.rfN == 0:
			cands := []int64{45, 70, 95, 130, 170, 230}
			for t, off := 0, r.Intn(len(cands)); t < len(cands); t++ {
				sc.deadline = cands[(t+off)%len(cands)] * vMs
				if id := vSim(&sc); id.verdict != 7 && id.margin >= vMargin {
					sc.ideal = id
					break
				}
				sc.deadline = -1
			}
		case c == 2 && mode != 2:
			sc.evCancel = r.Intn(nfail)
		}
		g.reqs = append(g.reqs, &sc)
		g.roles = append(g.roles, role)
	}
	if mode != 2 {
		budget := mode == 0 && r.Bool()
		add(0, 2+r.Intn(3), 2*vMs, 0) // the first request escalates the interval
		for i, n := 0, 1+r.Intn(3); i < n || (budget && i < 5); i++ {
			if budget {
				add(0, 2+r.Intn(2), 2*vMs, 0)
			} else {
				add(0, 1+r.Intn(3), 2*vMs, 0)
			}
		}
		// an elapsed budget that every request meets comfortably when it is counted from ITS OWN Send
		// (but that a later request of the group would miss if it were counted from anything earlier)
		worst := int64(0)
		for _, sc := range g.reqs {
			worst = max(worst, vWorstTotal(sc))
		}
		if budget {
			for _, sc := range g.reqs {
				sc.maxel = worst + 2*vMargin
			}
		}
		return g
	}
	for i, n := 0, 2+r.Intn(2); i < n; i++ { // at least two requests waiting in back-off
		add(0, 1+r.Intn(2), int64(1+r.Intn(3))*vMs, 0)
	}
	for i, n := 0, r.Intn(3); i < n; i++ {
		switch role := 1 + r.Intn(3); role {
		case 1:
			add(1, 1+r.Intn(2), 90*vMs, r.Pick(7, 2, 1))
		case 2:
			add(2, 1+r.Intn(2), 2*vMs, r.Pick(7, 2, 1))
		default:
			add(3, 1, 2*vMs, 1)
		}
	}
	return g
}

func vRunGroup(g *vGroup) (all []*vObs, stopAt []int64, unstable bool, rerr error) {
	n := len(g.reqs)
	core, logs := observer.New(zap.InfoLevel)
	set := exportertest.NewNopSettings(exportertest.NopType)
	set.Logger = zap.New(core)
	all, stopAt = make([]*vObs, n), make([]int64, n)
	t0 := make([]time.Time, n)
	cancels := make([]context.CancelFunc, n)
	var stopDone atomic.Bool
	var waiters, running sync.WaitGroup
	for i := range g.reqs {
		all[i] = &vObs{stopReal: -1, cancelReal: -1, base: fmt.Errorf("backend unavailable #r%d#", i)}
		stopAt[i] = -1
		if g.mode == 2 && g.roles[i] == 0 {
			waiters.Add(1)
		}
		if g.mode == 2 && g.roles[i] == 1 {
			running.Add(1)
		}
	}
	pusher := func(ctx context.Context, req Request) error {
		i, _ := ctx.Value(vReqKey{}).(int)
		sc, obs := g.reqs[i], all[i]
		k := len(obs.calls)
		c := vCall{start: int64(time.Since(t0[i])), payload: vIDsOf(req), dlSeen: -1, afterStop: stopDone.Load()}
		if dl, has := ctx.Deadline(); has {
			c.dlSeen, c.dlClass = int64(dl.Sub(t0[i])), 2
			if sc.deadline >= 0 && dl.Equal(t0[i].Add(time.Duration(sc.deadline))) {
				c.dlClass = 1
			}
		}
		if g.mode == 2 && g.roles[i] == 1 && k == 0 {
			running.Done()
		}
		if sc.evCancel == k {
			obs.cancelReal = int64(time.Since(t0[i]))
			cancels[i]()
		}
		var err error
		if k >= len(sc.script) {
			c.end, c.ok = c.start, true
		} else {
			a := sc.script[k]
			tm := time.NewTimer(time.Duration(a.dur))
			ctxDone := ctx.Done()
			if a.ignoreCtx {
				ctxDone = nil
			}
			select {
			case <-tm.C:
				c.lateWake = int64(time.Since(t0[i])) - (c.start + a.dur)
				c.lateAnswer = ctx.Err() != nil
				if a.ok {
					c.ok = true
				} else {
					c.e = a.tree
					err = vBuildErr(a.tree, obs.base)
				}
			case <-ctxDone:
				tm.Stop()
				c.ctxErr = true
				err = fmt.Errorf("%w #r%d#", ctx.Err(), i) // marked, so that the logged delay can be attributed
			}
			c.end = int64(time.Since(t0[i]))
		}
		c.ret = err
		obs.calls = append(obs.calls, c)
		if g.mode == 2 && g.roles[i] == 0 && k == 0 {
			waiters.Done()
		}
		return err
	}
	tmpl := g.reqs[0]
	cfg := configretry.BackOffConfig{Enabled: true, InitialInterval: time.Duration(tmpl.init),
		RandomizationFactor: float64(tmpl.rfN) / float64(tmpl.rfD), Multiplier: float64(tmpl.mN) / float64(tmpl.mD),
		MaxInterval: time.Duration(tmpl.maxint), MaxElapsedTime: time.Duration(tmpl.maxel)}
	// one exporter for all signals: the signal only selects the obsreport counters
	be, err := internal.NewBaseExporter(set, pipeline.SignalLogs, pusher, internal.WithRetry(cfg),
		internal.WithTimeout(internal.TimeoutConfig{}))
	if err != nil {
		return nil, nil, false, err
	}
	send := func(i int) {
		sc := g.reqs[i]
		req := vRequest(sc.sig, sc.payload)
		t0[i] = time.Now()
		ctx := context.WithValue(context.Background(), vReqKey{}, i)
		if sc.deadline >= 0 {
			var cdl context.CancelFunc
			ctx, cdl = context.WithDeadline(ctx, t0[i].Add(time.Duration(sc.deadline)))
			defer cdl()
		}
		ctx, cancels[i] = context.WithCancel(ctx)
		defer cancels[i]()
		all[i].err = be.Send(ctx, req)
		all[i].ret = int64(time.Since(t0[i]))
	}
	var wg sync.WaitGroup
	goSend := func(i int) {
		wg.Add(1)
		go func() { defer wg.Done(); send(i) }()
	}
	var shutAbs time.Time
	finished := make(chan struct{})
	go func() {
		defer close(finished)
		switch g.mode {
		case 0:
			for i := range g.reqs {
				send(i)
			}
		case 1:
			for i := range g.reqs {
				goSend(i)
			}
		default:
			for i, role := range g.roles {
				if role == 3 {
					send(i)
				}
			}
			for i, role := range g.roles {
				if role == 0 || role == 1 {
					goSend(i)
				}
			}
			waiters.Wait()
			running.Wait()
			time.Sleep(8 * time.Millisecond) // let the waiters reach their select
			shutAbs = time.Now()
			_ = be.Shutdown(context.Background())
			stopDone.Store(true)
			for i, role := range g.roles {
				if role == 2 {
					goSend(i)
				}
			}
		}
		wg.Wait()
	}()
	select {
	case <-finished:
	case <-time.After(30 * time.Second):
		return nil, nil, false, errors.New("a group of Sends did not return within 30 s")
	}
	if g.mode != 2 {
		_ = be.Shutdown(context.Background())
	}
	// the logged delays, attributed to their request by the marker in the logged error text
	for _, e := range logs.FilterMessage(vRetryMsg).All() {
		cm := e.ContextMap()
		es, _ := cm["error"].(string)
		is, _ := cm["interval"].(string)
		d, perr := time.ParseDuration(is)
		idx := -1
		for i := range g.reqs {
			if strings.Contains(es, fmt.Sprintf("#r%d#", i)) {
				idx = i
			}
		}
		if perr != nil || idx < 0 {
			return nil, nil, false, fmt.Errorf("cannot attribute the log entry interval=%q error=%q", is, es)
		}
		all[idx].delays = append(all[idx].delays, int64(d))
	}
	for i, obs := range all {
		vLatencyGate(obs)
		if obs.unstable {
			unstable = true
		}
		obs.verdict = vClassify(obs.err)
		obs.isShutdown = experr.IsShutdownErr(obs.err)
		obs.isPerm = consumererror.IsPermanent(obs.err)
		for k, c := range obs.calls {
			if c.lateWake > vJitter {
				unstable = true
			}
			if k+1 < len(obs.calls) && k < len(obs.delays) && obs.calls[k+1].start-c.end-obs.delays[k] > vJitter {
				unstable = true
			}
		}
		if id := g.reqs[i].ideal; id != nil { // a near deadline: the run must have followed the reference schedule
			for k, c := range obs.calls {
				if k < len(id.end) && vAbs(c.end-id.end[k]) > vJitter {
					unstable = true
				}
			}
		}
		if g.mode != 2 || g.roles[i] == 3 || len(obs.calls) == 0 {
			continue
		}
		sd := int64(shutAbs.Sub(t0[i]))
		obs.stopReal = max(sd, 0)
		c0 := obs.calls[0]
		switch g.roles[i] {
		case 0: // must have been inside its first wait, well before the timer
			stopAt[i] = c0.end + vMs
			if len(obs.delays) > 0 {
				stopAt[i] = g.reqs[i].script[0].dur + obs.delays[0]/4
				if sd+15*vMs > c0.end+obs.delays[0] {
					unstable = true
				}
			}
			if sd <= c0.end {
				unstable = true
			}
		case 1: // its first attempt must still have been running
			stopAt[i] = g.reqs[i].script[0].dur / 2
			if sd+5*vMs > c0.end || sd <= c0.start {
				unstable = true
			}
		case 2:
			stopAt[i] = 0
		}
	}
	return all, stopAt, unstable, nil
}

type vGJob struct {
	g        *vGroup
	obs      []*vObs
	stopAt   []int64
	unstable bool
	err      error
	rer      int
}

// vEmit writes the case of one request, runs the direct oracle on it and updates the histograms.
func vEmit(out *vOut, sc *vScenario, obs *vObs, cancelAt, stopAt int64) {
	term := vCaseTerm(sc, obs, cancelAt, stopAt)
	out.Case(len(obs.calls) > 1 || obs.verdict != 0, term)
	vOracle(out, term, sc, obs)
	out.Stat(fmt.Sprintf("family_%d", sc.family), 1)
	out.Stat(fmt.Sprintf("verdict_%d", obs.verdict), 1)
	out.Stat(fmt.Sprintf("attempts_%d", min(len(obs.calls), 6)), 1)
	out.Stat("waits", len(obs.delays))
	for _, c := range obs.calls {
		switch {
		case c.ok:
			out.Stat("outcome_ok", 1)
		case c.ctxErr:
			out.Stat("outcome_ctx_expired", 1)
		default:
			if c.e.code == 6 {
				out.Stat("outcome_plain_transient", 1)
			}
			vWalk(c.e, func(x *vErr, depth int) {
				switch {
				case x.code == 5:
					out.Stat(fmt.Sprintf("outcome_combination_kind_%d", x.jk), 1)
				case x.code == 7:
					out.Stat("outcome_custom_as_is", 1)
					for _, f := range []struct {
						on bool
						n  string
					}{{x.cPerm, "permanent"}, {x.cShut, "shutdown"}, {x.cThr, "throttle"}, {x.cSig >= 0, "partial"}, {x.isAny, "is_anything"}} {
						if f.on {
							out.Stat("outcome_custom_claims_"+f.n, 1)
						}
					}
				case x.code < 5 && depth == 0:
					out.Stat(fmt.Sprintf("outcome_layer_%d", x.code), 1)
				case x.code < 5:
					out.Stat(fmt.Sprintf("outcome_layer_%d_inside_combination", x.code), 1)
				}
			}, 0)
		}
		out.Stat(fmt.Sprintf("deadline_class_%d", c.dlClass), 1)
		if c.lateAnswer {
			out.Stat("answers_after_the_attempt_context_ended", 1)
			if c.ok || vIsPerm(c.e) {
				out.Stat("verdicts_after_the_attempt_context_ended", 1)
			}
		}
	}
	if !sc.enabled {
		out.Stat("retry_disabled", 1)
	}
	if obs.stopReal >= 0 {
		out.Stat("with_shutdown", 1)
	}
	if obs.cancelReal >= 0 {
		out.Stat("with_cancel", 1)
	}
}

// ---- the test --------------------------------------------------------------------------------------------------
type vJob struct {
	sc  *vScenario
	id  *vIdeal
	obs *vObs
	err error
	rer int
}

func TestVerifC05(t *testing.T) {
	out := vOpen()
	defer out.Close()
	rng := vNewRand(5)

	nF1, nF2, nF3, nVal := vBudget(480, 8), vBudget(160, 8), vBudget(60, 8), vBudget(300, 8)
	jobs := make([]*vJob, 0, nF1+nF2+nF3)
	for i := 0; i < nF1; i++ {
		sc, id := vGenF1(rng)
		jobs = append(jobs, &vJob{sc: sc, id: id})
	}
	for i := 0; i < nF2; i++ {
		jobs = append(jobs, &vJob{sc: vGenF2(rng)})
	}
	for i := 0; i < nF3; i++ {
		jobs = append(jobs, &vJob{sc: vGenF3(rng)})
	}
	var gjobs []*vGJob
	for i, nG := 0, vBudget(90, 8); i < nG; i++ {
		gjobs = append(gjobs, &vGJob{g: vGenGroup(rng, []int{0, 1, 2, 2}[i%4])})
	}
	// run 16-wide; results are emitted in generation order
	var wg sync.WaitGroup
	ch := make(chan *vJob)
	for w := 0; w < 16; w++ {
		wg.Add(1)
		go func() {
			defer wg.Done()
			for j := range ch {
				for try := 0; try < vRetries; try++ {
					j.obs, j.err = vRunOnce(j.sc, j.id)
					if j.err != nil || !j.obs.unstable {
						break
					}
					j.rer++
				}
			}
		}()
	}
	gch := make(chan *vGJob)
	for w := 0; w < 8; w++ {
		wg.Add(1)
		go func() {
			defer wg.Done()
			for j := range gch {
				for try := 0; try < vRetries; try++ {
					j.obs, j.stopAt, j.unstable, j.err = vRunGroup(j.g)
					if j.err != nil || !j.unstable {
						break
					}
					j.rer++
				}
			}
		}()
	}
	for _, j := range jobs {
		ch <- j
	}
	close(ch)
	for _, j := range gjobs {
		gch <- j
	}
	close(gch)
	wg.Wait()

	skipped := 0
	for _, j := range jobs {
		sc, obs := j.sc, j.obs
		if j.err != nil {
			out.Oracle("harness-run-failed", "([], ([], ([], ([], ([], [])))))", j.err.Error())
			continue
		}
		out.Stat("reruns_for_timer_jitter", j.rer)
		if obs.unstable {
			skipped++
			out.Stat("timing_skipped", 1)
			continue
		}
		cancelAt, stopAt := sc.cancel, sc.stop
		if sc.family != 1 {
			cancelAt, stopAt = vEventInstants(sc, obs)
		}
		vEmit(out, sc, obs, cancelAt, stopAt)
	}
	// family 4: several requests through ONE exporter (one retrySender)
	for _, j := range gjobs {
		if j.err != nil {
			out.Oracle("harness-run-failed", "([], ([], ([], ([], ([], [])))))", j.err.Error())
			continue
		}
		out.Stat("reruns_for_timer_jitter", j.rer)
		if j.unstable {
			out.Stat("timing_skipped_groups", 1)
			continue
		}
		out.Stat(fmt.Sprintf("group_mode_%d", j.g.mode), 1)
		for i, sc := range j.g.reqs {
			cancelAt, _ := vEventInstants(sc, j.obs[i])
			vEmit(out, sc, j.obs[i], cancelAt, j.stopAt[i])
			if sc.ideal != nil {
				out.Stat("group_request_near_deadline", 1)
			} else if sc.deadline >= 0 {
				out.Stat("group_request_far_deadline", 1)
			}
			if sc.evCancel >= 0 {
				out.Stat("group_request_cancelled", 1)
			}
			if j.g.mode == 2 {
				out.Stat(fmt.Sprintf("group_role_%d", j.g.roles[i]), 1)
			}
		}
	}
	out.Stat("margin_ms", int(vMargin/vMs))
	out.Stat("min_delay_ms", int(vMinDelay/vMs))
	if skipped*2 > len(jobs) {
		out.Oracle("waits-do-not-follow-schedule", "([], ([], ([], ([], ([], [])))))",
			fmt.Sprintf("%d of %d runs had timers waking more than %d ms late in %d consecutive repetitions", skipped, len(jobs), vJitter/vMs, vRetries))
	}

	// kind 2: TimeoutConfig.Validate (tie of the translated function and of the model's timeout domain)
	for _, tv := range []int64{-5 * int64(time.Second), -1, 0, 1, 70 * vMs, 5 * int64(time.Second), -int64(rng.Intn(1000) + 1), int64(rng.Intn(1000))} {
		tc := internal.TimeoutConfig{Timeout: time.Duration(tv)}
		verr := tc.Validate()
		term := vPair(vZs([]int64{2, tv, vB(verr == nil)}), "([], ([], ([], ([], []))))")
		out.Case(verr != nil, term)
		out.Stat("timeout_validate_cases", 1)
		if (verr == nil) != (tv >= 0) {
			out.Oracle("timeout-validate-wrong", term, fmt.Sprintf("TimeoutConfig{Timeout: %d}.Validate() = %v", tv, verr))
		}
	}

	// kind 1: BackOffConfig.Validate
	for i := 0; i < nVal; i++ {
		pick := func() int64 { return []int64{-5, -1, 0, 0, 1, 5, 20, 100, 100, 3000}[rng.Intn(10)] * vMs }
		rfs := [][2]int64{{0, 1}, {1, 2}, {1, 1}, {-1, 4}, {5, 4}, {3, 4}, {2, 1}, {0, 1}, {1, 4}}
		mus := [][2]int64{{0, 1}, {3, 2}, {2, 1}, {-1, 2}, {1, 1}, {3, 2}, {-3, 1}, {1, 2}}
		rf, mu := rfs[rng.Intn(len(rfs))], mus[rng.Intn(len(mus))]
		en := rng.Intn(8) != 0
		cfg := configretry.BackOffConfig{Enabled: en, InitialInterval: time.Duration(pick()),
			RandomizationFactor: float64(rf[0]) / float64(rf[1]), Multiplier: float64(mu[0]) / float64(mu[1]),
			MaxInterval: time.Duration(pick()), MaxElapsedTime: time.Duration(pick())}
		verr := cfg.Validate()
		msg := ""
		if verr != nil {
			msg = verr.Error()
		}
		hdr := []int64{1, vB(en), int64(cfg.InitialInterval), rf[0], rf[1], mu[0], mu[1], int64(cfg.MaxInterval), int64(cfg.MaxElapsedTime), vB(verr == nil)}
		bs := make([]int64, len(msg))
		for k := range msg {
			bs[k] = int64(msg[k])
		}
		term := vPair(vZs(hdr), vPair(vZs(bs), "([], ([], ([], [])))"))
		out.Case(verr != nil, term)
		if verr == nil {
			out.Stat("validate_ok", 1)
		} else {
			out.Stat("validate_rejected", 1)
		}
		// direct oracle: an enabled configuration is accepted iff it has the documented shape
		docBad := cfg.InitialInterval < 0 || cfg.MaxInterval < 0 || cfg.MaxElapsedTime < 0 ||
			cfg.RandomizationFactor < 0 || cfg.RandomizationFactor > 1 || cfg.Multiplier < 0 ||
			(cfg.MaxElapsedTime > 0 && (cfg.MaxElapsedTime < cfg.InitialInterval || cfg.MaxElapsedTime < cfg.MaxInterval))
		if verr == nil && en && docBad {
			out.Oracle("validate-accepts-bad-config", term, fmt.Sprintf("%+v", cfg))
		}
		if verr != nil && (!en || !docBad) {
			out.Oracle("validate-rejects-good-config", term, fmt.Sprintf("%+v: %v", cfg, verr))
		}
	}
}
