// C13 correspondence harness, part 3b: faithfulness stream (see decode_test.go).  For every built-in
// component: write a random subset of its plain leaves (bool / integer / float / string / duration
// under struct nesting, squash flattening and non-nil pointers) with random valid values, load the
// configuration with the full loader, and read the values back from the typed struct by reflection
// along the mapstructure keys and from the effective configuration (conf.Marshal).
package main

import (
	"fmt"
	"reflect"
	"sort"
	"strconv"
	"strings"
	"testing"
	"time"

	"go.opentelemetry.io/collector/component"
	"go.opentelemetry.io/collector/confmap"
	"go.opentelemetry.io/collector/otelcol"
)

// typed value tree restricted to plain leaves
type fNode struct {
	leaf   bool
	val    string
	kind   string // leaf flavour
	opaque bool
	keys   []string
	kids   map[string]*fNode
}

func fExtract(v reflect.Value, d *sDesc) *fNode {
	switch d.Kind {
	case "ptr":
		if v.IsNil() {
			return nil
		}
		return fExtract(v.Elem(), d.Elem)
	case "struct":
		n := &fNode{kids: map[string]*fNode{}}
		fFill(n, v, d)
		return n
	case "leaf":
		switch d.Leaf {
		case "bool":
			return &fNode{leaf: true, kind: "bool", val: strconv.FormatBool(v.Bool())}
		case "int", "duration":
			return &fNode{leaf: true, kind: d.Leaf, val: strconv.FormatInt(v.Int(), 10)}
		case "uint":
			return &fNode{leaf: true, kind: "uint", val: strconv.FormatUint(v.Uint(), 10)}
		case "float":
			return &fNode{leaf: true, kind: "float", val: strconv.FormatFloat(v.Float(), 'g', -1, 64)}
		case "string":
			s := v.String()
			for _, c := range s {
				if c < 32 || c > 126 || c == '"' {
					return nil
				}
			}
			return &fNode{leaf: true, kind: "string", val: s, opaque: strings.Contains(d.Type, "configopaque")}
		}
	}
	return nil
}

func fFill(n *fNode, v reflect.Value, d *sDesc) {
	for _, f := range d.Fields {
		fv := v.Field(f.Index)
		if f.Squash {
			if f.T.Kind == "struct" {
				fFill(n, fv, f.T)
			}
			continue
		}
		if c := fExtract(fv, f.T); c != nil {
			if _, dup := n.kids[f.Key]; !dup {
				n.keys = append(n.keys, f.Key)
			}
			n.kids[f.Key] = c
		}
	}
}

func (n *fNode) coq() string {
	if n.leaf {
		return "VSc " + vStr(n.val)
	}
	it := make([]string, len(n.keys))
	for i, k := range n.keys {
		it[i] = "(" + vStr(k) + ", " + n.kids[k].coq() + ")"
	}
	return "VRec " + vList(it)
}

type fLeaf struct {
	path []string
	n    *fNode
}

func (n *fNode) leaves(path []string, out *[]fLeaf) {
	if n.leaf {
		*out = append(*out, fLeaf{append([]string(nil), path...), n})
		return
	}
	for _, k := range n.keys {
		n.kids[k].leaves(append(path, k), out)
	}
}

func (n *fNode) get(path []string) *fNode {
	for _, k := range path {
		if n == nil || n.leaf {
			return nil
		}
		n = n.kids[k]
	}
	return n
}

func fSet(m map[string]any, path []string, v any) {
	for _, k := range path[:len(path)-1] {
		c, ok := m[k].(map[string]any)
		if !ok {
			c = map[string]any{}
			m[k] = c
		}
		m = c
	}
	m[path[len(path)-1]] = v
}

func fGetAny(m any, path []string) (any, bool) {
	for _, k := range path {
		mm, ok := m.(map[string]any)
		if !ok {
			return nil, false
		}
		m, ok = mm[k]
		if !ok {
			return nil, false
		}
	}
	return m, true
}

func fSection(cfg *otelcol.Config, kind string) map[component.ID]component.Config {
	switch kind {
	case "receivers":
		return cfg.Receivers
	case "processors":
		return cfg.Processors
	case "exporters":
		return cfg.Exporters
	case "connectors":
		return cfg.Connectors
	case "extensions":
		return cfg.Extensions
	}
	return nil
}

func fExcluded(path []string) bool {
	last := path[len(path)-1]
	if strings.HasSuffix(last, "_url_path") { // sanitised by otlpreceiver.Config.Unmarshal (not modelled)
		return true
	}
	for _, k := range path {
		if k == "batcher" { // otlpexporter.Config.Unmarshal switches the defaults (not modelled)
			return true
		}
	}
	return false
}

func dFaithful(t *testing.T, out *vOut, r *vRand, all []dEntryPts) {
	var comps []dEntryPts
	for _, ep := range all {
		if ep.e.Def != nil {
			comps = append(comps, ep)
		}
	}
	total := vBudget(150, 10)
	for i := 0; i < total; i++ {
		ep := comps[i%len(comps)]
		e := ep.e
		def := fExtract(reflect.ValueOf(e.Def), &sDesc{Kind: "ptr", Elem: e.D})
		if def == nil {
			continue
		}
		var lv []fLeaf
		def.leaves(nil, &lv)
		var cand []fLeaf
		for _, l := range lv {
			if !fExcluded(l.path) {
				cand = append(cand, l)
			}
		}
		// write a random subset
		doc := map[string]any{}   // what goes into the YAML
		canon := map[string]any{} // canonical values, the model's input
		type wr struct {
			path  []string
			canon string
			orig  string
			n     *fNode
		}
		var written []wr
		p := []int{15, 35, 70}[r.Intn(3)]
		// the both-written-with-different-values case of the repaired finding C13-BLOCKING-OVERRIDES
		// (Coq: Witness.new_rule_keeps_written_sibling): the first otlp exporter case writes both keys
		witness := i < len(comps) && e.Name == "exporters/otlp"
		for _, l := range cand {
			last := l.path[len(l.path)-1]
			isW := witness && len(l.path) == 2 && l.path[0] == "sending_queue" && (last == "blocking" || last == "block_on_overflow")
			if r.Intn(100) >= p && !isW {
				continue
			}
			var yv any
			var cs string
			switch l.n.kind {
			case "bool":
				b := r.Bool()
				if isW {
					b = last == "block_on_overflow"
				}
				yv, cs = b, strconv.FormatBool(b)
			case "int", "uint":
				n := 1 + r.Intn(100)
				yv, cs = n, strconv.Itoa(n)
			case "float":
				f := []float64{0.25, 0.5, 1.5, 2.5}[r.Intn(4)]
				yv, cs = f, strconv.FormatFloat(f, 'g', -1, 64)
			case "duration":
				n := 1 + r.Intn(500)
				yv, cs = strconv.Itoa(n)+"s", strconv.FormatInt(int64(time.Duration(n)*time.Second), 10)
			case "string":
				s := "s" + strconv.Itoa(r.Intn(1000))
				yv, cs = s, s
			}
			fSet(doc, l.path, yv)
			fSet(canon, l.path, cs)
			written = append(written, wr{l.path, cs, fmt.Sprint(yv), l.n})
		}
		if e.Name == "receivers/otlp" && r.Intn(3) == 0 { // a protocol section written empty
			k := []string{"grpc", "http"}[r.Intn(2)]
			if _, ok := fGetAny(doc, []string{"protocols", k}); !ok {
				fSet(doc, []string{"protocols", k}, map[string]any{})
				fSet(canon, []string{"protocols", k}, map[string]any{})
			}
		}
		cfg, err := dLoad(dDoc(e, doc))
		term := "(CFaith " + vStr(e.Name) + " (" + def.coq() + ") (" + fCv(canon) + ") "
		if err != nil {
			out.Oracle("valid-setting-rejected", term+"(VRec []))", "load failed: "+err.Error())
			continue
		}
		id := component.MustNewID(e.Type)
		got := fSection(cfg, e.Kind)[id]
		if got == nil {
			out.Oracle("component-missing", term+"(VRec []))", "component not in the loaded configuration")
			continue
		}
		obs := fExtract(reflect.ValueOf(got), &sDesc{Kind: "ptr", Elem: e.D})
		// effective configuration, as handed to ConfigWatcher extensions
		eff := confmap.New()
		if err := eff.Marshal(cfg); err != nil {
			out.Oracle("effective-config", term+"(VRec []))", "conf.Marshal failed: "+err.Error())
			continue
		}
		effMap := eff.ToStringMap()
		// ---- direct oracle
		isW := map[string]bool{}
		blocking := false
		blockingVal := ""
		for _, w := range written {
			if w.path[len(w.path)-1] == "blocking" {
				blocking = true
				blockingVal = w.canon
			}
		}
		for _, w := range written {
			isW[strings.Join(w.path, "::")] = true
			o := obs.get(w.path)
			if o == nil || !o.leaf || o.val != w.canon {
				if w.path[len(w.path)-1] == "block_on_overflow" && blocking && o != nil && o.val == blockingVal {
					// queuebatch.Config.Unmarshal before fix a5b2af88a: the deprecated alias won over the
					// written sibling (former known finding C13-BLOCKING-OVERRIDES; now a violation)
					out.Oracle("written-sibling-overridden", term+"(VRec []))", fmt.Sprintf("%s written %s but the deprecated sending_queue::blocking=%s overrides it", strings.Join(w.path, "::"), w.canon, blockingVal))
					out.Stat("faithful.blocking-override", 1)
					continue
				}
				out.Oracle("written-key-not-reflected", term+"(VRec []))", fmt.Sprintf("%s written %s, typed config has %v", strings.Join(w.path, "::"), w.canon, o))
			}
			ev, ok := fGetAny(effMap, append([]string{e.Kind, id.String()}, w.path...))
			es := fmt.Sprint(ev)
			switch {
			case !ok:
				// omitempty fields with a zero value are legitimately absent
				if !(w.canon == "false" || w.canon == "0" || w.canon == "") {
					out.Oracle("effective-config-missing", term+"(VRec []))", strings.Join(w.path, "::")+" absent from the effective configuration")
				}
			case w.n.opaque:
				if es != "[REDACTED]" {
					out.Oracle("effective-config-secret", term+"(VRec []))", strings.Join(w.path, "::")+" not redacted: "+es)
				}
			default:
				if es != w.canon && es != w.orig && !fSameDuration(es, w.canon) {
					out.Oracle("effective-config-differs", term+"(VRec []))", fmt.Sprintf("%s written %s, effective configuration has %s", strings.Join(w.path, "::"), w.orig, es))
				}
			}
		}
		var ol []fLeaf
		obs.leaves(nil, &ol)
		for _, l := range ol {
			key := strings.Join(l.path, "::")
			if isW[key] {
				continue
			}
			dn := def.get(l.path)
			if dn == nil || !dn.leaf {
				continue
			}
			if dn.val != l.n.val {
				if l.path[len(l.path)-1] == "block_on_overflow" && blocking {
					continue
				}
				out.Oracle("sibling-changed", term+"(VRec []))", fmt.Sprintf("%s was not written but changed from %s to %s", key, dn.val, l.n.val))
			}
		}
		out.Case(len(written) > 0, term+"("+obs.coq()+"))")
		out.Stat("faithful.cases", 1)
		out.Stat("faithful.entry."+e.Name, 1)
		out.Stat("faithful.written", len(written))
		out.Stat("faithful.leaves", len(cand))
	}
}

func fSameDuration(es, canon string) bool {
	d, err := time.ParseDuration(es)
	if err != nil {
		return false
	}
	return strconv.FormatInt(int64(d), 10) == canon
}

func fCv(v any) string {
	switch x := v.(type) {
	case map[string]any:
		var ks []string
		for k := range x {
			ks = append(ks, k)
		}
		sort.Strings(ks)
		it := make([]string, len(ks))
		for i, k := range ks {
			it[i] = "(" + vStr(k) + ", " + fCv(x[k]) + ")"
		}
		return "CMap " + vList(it)
	case string:
		return "CScalar " + vStr(x)
	}
	return "CNull"
}
