// C13 correspondence harness, part 3b: faithfulness stream (see decode_test.go).  For every built-in
// component: write a random subset of its plain leaves (bool / integer / float / string / duration
// under struct nesting, squash flattening and non-nil pointers) with random valid values, load the
// configuration with the full loader, and read the values back from the typed struct by reflection
// along the mapstructure keys and from the effective configuration (conf.Marshal).
package main

import (
	"encoding/json"
	"fmt"
	"reflect"
	"regexp"
	"sort"
	"strconv"
	"strings"
	"testing"
	"time"

	"go.opentelemetry.io/collector/component"
	"go.opentelemetry.io/collector/confmap"
	"go.opentelemetry.io/collector/otelcol"
)

// typed value tree restricted to plain leaves
type fNode struct {
	leaf   bool
	val    string
	kind   string // leaf flavour
	opaque bool
	omit   bool // the field carries omitempty
	zero   bool // reflect IsZero of the leaf
	keys   []string
	kids   map[string]*fNode
	nils   map[string]bool // struct-pointer fields that are nil: key -> omitempty
}

func fExtract(v reflect.Value, d *sDesc) *fNode {
	switch d.Kind {
	case "ptr":
		if v.IsNil() {
			return nil
		}
		return fExtract(v.Elem(), d.Elem)
	case "struct":
		n := &fNode{kids: map[string]*fNode{}}
		fFill(n, v, d)
		return n
	case "leaf":
		switch d.Leaf {
		case "bool":
			return &fNode{leaf: true, kind: "bool", val: strconv.FormatBool(v.Bool())}
		case "int", "duration":
			return &fNode{leaf: true, kind: d.Leaf, val: strconv.FormatInt(v.Int(), 10)}
		case "uint":
			return &fNode{leaf: true, kind: "uint", val: strconv.FormatUint(v.Uint(), 10)}
		case "float":
			return &fNode{leaf: true, kind: "float", val: strconv.FormatFloat(v.Float(), 'g', -1, 64)}
		case "string":
			s := v.String()
			for _, c := range s {
				if c < 32 || c > 126 || c == '"' {
					return nil
				}
			}
			return &fNode{leaf: true, kind: "string", val: s, opaque: strings.Contains(d.Type, "configopaque")}
		}
	}
	return nil
}

func fFill(n *fNode, v reflect.Value, d *sDesc) {
	for _, f := range d.Fields {
		fv := v.Field(f.Index)
		if f.Squash {
			if f.T.Kind == "struct" {
				fFill(n, fv, f.T)
			}
			continue
		}
		if c := fExtract(fv, f.T); c != nil {
			c.omit = f.Omit
			if f.T.Kind == "ptr" {
				c.omit = false // a non-nil pointer is never IsZero, so omitempty never drops it
			}
			if c.leaf {
				c.zero = fv.IsZero()
			}
			if _, dup := n.kids[f.Key]; !dup {
				n.keys = append(n.keys, f.Key)
			}
			n.kids[f.Key] = c
		} else if f.T.Kind == "ptr" && f.T.Elem.Kind == "struct" && !f.T.Elem.Foreign && fv.IsNil() {
			if n.nils == nil {
				n.nils = map[string]bool{}
			}
			n.nils[f.Key] = f.Omit
		}
	}
}

func (n *fNode) coq() string {
	if n.leaf {
		return "VSc " + vStr(n.val)
	}
	it := make([]string, len(n.keys))
	for i, k := range n.keys {
		it[i] = "(" + vStr(k) + ", " + n.kids[k].coq() + ")"
	}
	return "VRec " + vList(it)
}

// settable maps / slices of string kind (headers, key lists ...), found below the non-nil struct
// nesting of the default configuration
type fComplexPos struct {
	path   []string
	kind   string // strmap | strslice
	opaque bool
}

func fComplex(v reflect.Value, d *sDesc, path []string, out *[]fComplexPos) {
	switch d.Kind {
	case "ptr":
		if !v.IsNil() {
			fComplex(v.Elem(), d.Elem, path, out)
		}
	case "struct":
		if d.Foreign {
			return
		}
		for _, f := range d.Fields {
			fv := v.Field(f.Index)
			if f.Squash {
				fComplex(fv, f.T, path, out)
				continue
			}
			fComplex(fv, f.T, append(append([]string(nil), path...), f.Key), out)
		}
	case "map":
		if d.Elem.Kind == "leaf" && d.Elem.Leaf == "string" && d.rt.Key().Kind() == reflect.String {
			*out = append(*out, fComplexPos{path, "strmap", strings.Contains(d.Elem.Type, "configopaque")})
		}
	case "slice":
		if d.Elem.Kind == "leaf" && d.Elem.Leaf == "string" && d.rt.Kind() == reflect.Slice {
			*out = append(*out, fComplexPos{path, "strslice", strings.Contains(d.Elem.Type, "configopaque")})
		}
	}
}

// fTypedAt navigates the typed configuration along mapstructure keys (through squash and pointers)
func fTypedAt(v reflect.Value, d *sDesc, path []string) (reflect.Value, bool) {
	for d.Kind == "ptr" {
		if v.IsNil() {
			return v, false
		}
		v, d = v.Elem(), d.Elem
	}
	if len(path) == 0 {
		return v, true
	}
	if d.Kind != "struct" {
		return v, false
	}
	for _, f := range d.Fields {
		if f.Squash {
			if r, ok := fTypedAt(v.Field(f.Index), f.T, path); ok {
				return r, true
			}
			continue
		}
		if f.Key == path[0] {
			return fTypedAt(v.Field(f.Index), f.T, path[1:])
		}
	}
	return v, false
}

// coqO prints the node as an otv term (Part 7); opaque leaves are printed as their text, the marker
func (n *fNode) coqO(encoded bool) string {
	if n.leaf {
		v := n.val
		if n.opaque && encoded {
			v = "[REDACTED]"
		}
		return "OSc " + vBool(n.omit) + " " + vBool(n.zero) + " " + vStr(v)
	}
	it := make([]string, len(n.keys))
	for i, k := range n.keys {
		it[i] = "(" + vStr(k) + ", " + n.kids[k].coqO(encoded) + ")"
	}
	var nk []string
	for k := range n.nils {
		nk = append(nk, k)
	}
	sort.Strings(nk)
	for _, k := range nk {
		it = append(it, "("+vStr(k)+", ONil "+vBool(n.nils[k])+")")
	}
	return "ORec " + vBool(n.omit) + " " + vList(it)
}

type fLeaf struct {
	path []string
	n    *fNode
}

func (n *fNode) leaves(path []string, out *[]fLeaf) {
	if n.leaf {
		*out = append(*out, fLeaf{append([]string(nil), path...), n})
		return
	}
	for _, k := range n.keys {
		n.kids[k].leaves(append(path, k), out)
	}
}

func (n *fNode) get(path []string) *fNode {
	for _, k := range path {
		if n == nil || n.leaf {
			return nil
		}
		n = n.kids[k]
	}
	return n
}

func fSet(m map[string]any, path []string, v any) {
	for _, k := range path[:len(path)-1] {
		c, ok := m[k].(map[string]any)
		if !ok {
			c = map[string]any{}
			m[k] = c
		}
		m = c
	}
	m[path[len(path)-1]] = v
}

func fGetAny(m any, path []string) (any, bool) {
	for _, k := range path {
		mm, ok := m.(map[string]any)
		if !ok {
			return nil, false
		}
		m, ok = mm[k]
		if !ok {
			return nil, false
		}
	}
	return m, true
}

func fSection(cfg *otelcol.Config, kind string) map[component.ID]component.Config {
	switch kind {
	case "receivers":
		return cfg.Receivers
	case "processors":
		return cfg.Processors
	case "exporters":
		return cfg.Exporters
	case "connectors":
		return cfg.Connectors
	case "extensions":
		return cfg.Extensions
	}
	return nil
}

func fExcluded(path []string) bool {
	last := path[len(path)-1]
	if strings.HasSuffix(last, "_url_path") { // sanitised by otlpreceiver.Config.Unmarshal (not modelled)
		return true
	}
	for _, k := range path {
		if k == "batcher" { // otlpexporter.Config.Unmarshal switches the defaults (not modelled)
			return true
		}
	}
	return false
}

func dFaithful(t *testing.T, out *vOut, r *vRand, all []dEntryPts) {
	var comps []dEntryPts
	for _, ep := range all {
		if ep.e.Def != nil {
			comps = append(comps, ep)
		}
	}
	total := vBudget(110, 10)
	for i := 0; i < total; i++ {
		ep := comps[i%len(comps)]
		e := ep.e
		def := fExtract(reflect.ValueOf(e.Def), &sDesc{Kind: "ptr", Elem: e.D})
		if def == nil {
			continue
		}
		var lv []fLeaf
		def.leaves(nil, &lv)
		var cand []fLeaf
		for _, l := range lv {
			if !fExcluded(l.path) {
				cand = append(cand, l)
			}
		}
		// write a random subset
		doc := map[string]any{}   // what goes into the YAML
		canon := map[string]any{} // canonical values, the model's input
		type wr struct {
			path  []string
			canon string
			orig  string
			n     *fNode
		}
		var written []wr
		p := []int{15, 35, 70}[r.Intn(3)]
		// the both-written-with-different-values case of the repaired finding C13-BLOCKING-OVERRIDES
		// (Coq: Witness.new_rule_keeps_written_sibling): the first otlp exporter case writes both keys
		witness := i < len(comps) && e.Name == "exporters/otlp"
		// replay of C13-NIL-SECTION-RENDERED-NULL: the first OTLP receiver case writes nothing below
		// protocols::http, so that protocol stays nil
		witnessNil := i < len(comps) && e.Name == "receivers/otlp"
		for _, l := range cand {
			if witnessNil && len(l.path) > 1 && l.path[1] == "http" {
				continue
			}
			last := l.path[len(l.path)-1]
			isW := witness && len(l.path) == 2 && l.path[0] == "sending_queue" && (last == "blocking" || last == "block_on_overflow")
			if r.Intn(100) >= p && !isW {
				continue
			}
			var yv any
			var cs string
			// an omitempty field whose default is not zero, written with the zero value: the
			// omitempty-zero ambiguity of the round trip (Coq: encode_decode_refuted)
			zeroIt := l.n.omit && !l.n.zero && r.Intn(2) == 0
			if l.n.omit && !l.n.zero {
				out.Stat("faithful.omitempty-nonzero-default", 1)
			}
			if zeroIt {
				switch l.n.kind {
				case "bool":
					yv, cs = false, "false"
				case "int", "uint":
					yv, cs = 0, "0"
				case "float":
					yv, cs = 0.0, "0"
				case "duration":
					yv, cs = "0s", "0"
				case "string":
					yv, cs = "", ""
				}
				fSet(doc, l.path, yv)
				fSet(canon, l.path, cs)
				written = append(written, wr{l.path, cs, fmt.Sprint(yv), l.n})
				continue
			}
			switch l.n.kind {
			case "bool":
				b := r.Bool()
				if isW {
					b = last == "block_on_overflow"
				}
				yv, cs = b, strconv.FormatBool(b)
			case "int", "uint":
				n := 1 + r.Intn(100)
				yv, cs = n, strconv.Itoa(n)
			case "float":
				f := []float64{0.25, 0.5, 1.5, 2.5}[r.Intn(4)]
				yv, cs = f, strconv.FormatFloat(f, 'g', -1, 64)
			case "duration":
				n := 1 + r.Intn(500)
				yv, cs = strconv.Itoa(n)+"s", strconv.FormatInt(int64(time.Duration(n)*time.Second), 10)
			case "string":
				s := "s" + strconv.Itoa(r.Intn(1000))
				if l.n.opaque {
					s = "SECRET-" + strconv.Itoa(100000+r.Intn(900000))
				}
				yv, cs = s, s
			}
			fSet(doc, l.path, yv)
			fSet(canon, l.path, cs)
			written = append(written, wr{l.path, cs, fmt.Sprint(yv), l.n})
		}
		// maps and slices of strings (headers and the like), secrets carry a unique marker
		type cw struct {
			pos  fComplexPos
			keys []string
			vals []string
		}
		var cws []cw
		var cpos []fComplexPos
		fComplex(reflect.ValueOf(e.Def), &sDesc{Kind: "ptr", Elem: e.D}, nil, &cpos)
		out.Stat("faithful.complex.positions", len(cpos))
		for _, cp := range cpos {
			if fExcluded(cp.path) || r.Intn(100) >= p+15 || witnessNil && len(cp.path) > 1 && cp.path[1] == "http" {
				continue
			}
			w := cw{pos: cp}
			n := 1 + r.Intn(3)
			for k := 0; k < n; k++ {
				v := "v" + strconv.Itoa(r.Intn(1000))
				if cp.opaque {
					v = "SECRET-" + strconv.Itoa(100000+r.Intn(900000))
				}
				w.keys = append(w.keys, []string{"Authorization", "X-Key", "x-other"}[k])
				w.vals = append(w.vals, v)
			}
			if cp.kind == "strmap" {
				m := map[string]any{}
				for k := range w.keys {
					m[w.keys[k]] = w.vals[k]
				}
				fSet(doc, cp.path, m)
			} else {
				var l []any
				for _, v := range w.vals {
					l = append(l, v)
				}
				fSet(doc, cp.path, l)
			}
			fSet(canon, cp.path, nil) // the model sees that the key is set (its value is outside the tv projection)
			cws = append(cws, w)
			out.Stat("faithful.complex."+cp.kind+map[bool]string{true: ".opaque", false: ""}[cp.opaque], 1)
		}
		if e.Name == "receivers/otlp" && !witnessNil && r.Intn(3) == 0 { // a protocol section written empty
			k := []string{"grpc", "http"}[r.Intn(2)]
			if _, ok := fGetAny(doc, []string{"protocols", k}); !ok {
				fSet(doc, []string{"protocols", k}, map[string]any{})
				fSet(canon, []string{"protocols", k}, map[string]any{})
			}
		}
		// the instance under test is unnamed or named; a sibling instance of the same type (the decoy)
		// is configured next to it with its own, different, settings
		instID, decoyID := dInstIDs(r, e.Type)
		decoyDoc, decoyCanon := map[string]any{}, map[string]any{}
		type dw struct {
			path  []string
			canon string
		}
		var decoyW []dw
		for _, l := range cand {
			if r.Intn(100) >= 25 || l.path[len(l.path)-1] == "blocking" || l.path[len(l.path)-1] == "block_on_overflow" {
				continue
			}
			var yv any
			var cs string
			switch l.n.kind {
			case "bool":
				b := r.Bool()
				yv, cs = b, strconv.FormatBool(b)
			case "int", "uint":
				n := 101 + r.Intn(100)
				yv, cs = n, strconv.Itoa(n)
			case "float":
				yv, cs = 0.75, "0.75"
			case "duration":
				n := 501 + r.Intn(100)
				yv, cs = strconv.Itoa(n)+"s", strconv.FormatInt(int64(time.Duration(n)*time.Second), 10)
			case "string":
				sv := "decoy" + strconv.Itoa(r.Intn(1000))
				yv, cs = sv, sv
			}
			fSet(decoyDoc, l.path, yv)
			fSet(decoyCanon, l.path, cs)
			decoyW = append(decoyW, dw{l.path, cs})
		}
		out.Stat("faithful.instance."+map[bool]string{true: "named", false: "unnamed"}[strings.Contains(instID, "/")], 1)
		cfg, err := dLoad(dDocInst(e, instID, doc, map[string]any{decoyID: decoyDoc}))
		term := "(CFaith " + vStr(e.Name) + " (" + def.coq() + ") (" + fCv(canon) + ") "
		if err != nil {
			out.Oracle("valid-setting-rejected", term+"(VRec []))", "load failed: "+err.Error())
			continue
		}
		id := fID(instID)
		got := fSection(cfg, e.Kind)[id]
		if got == nil {
			out.Oracle("component-missing", term+"(VRec []))", "component "+instID+" not in the loaded configuration")
			continue
		}
		obs := fExtract(reflect.ValueOf(got), &sDesc{Kind: "ptr", Elem: e.D})
		// the decoy got exactly its own settings too; both instances as one CSec case
		if dgot := fSection(cfg, e.Kind)[fID(decoyID)]; dgot == nil {
			out.Oracle("component-missing", term+"(VRec []))", "component "+decoyID+" not in the loaded configuration")
		} else {
			dobs := fExtract(reflect.ValueOf(dgot), &sDesc{Kind: "ptr", Elem: e.D})
			for _, w := range decoyW {
				o := dobs.get(w.path)
				if o == nil || !o.leaf || o.val != w.canon {
					out.Oracle("written-key-not-reflected", term+"(VRec []))", fmt.Sprintf("instance %s: %s written %s, typed config has %v", decoyID, strings.Join(w.path, "::"), w.canon, o))
				}
			}
			if len(fSection(cfg, e.Kind)) != 2 {
				out.Oracle("component-missing", term+"(VRec []))", fmt.Sprintf("section has %d instances, 2 were written", len(fSection(cfg, e.Kind))))
			}
			out.Case(len(written)+len(decoyW) > 0, "(CSec "+vStr(e.Name)+" ("+def.coq()+") "+
				vList([]string{vPair(vStr(instID), fCv(canon)), vPair(vStr(decoyID), fCv(decoyCanon))})+" "+
				vList([]string{vPair(vStr(instID), obs.coq()), vPair(vStr(decoyID), dobs.coq())})+")")
			out.Stat("faithful.csec", 1)
		}
		// effective configuration, as handed to ConfigWatcher extensions
		eff := confmap.New()
		if err := eff.Marshal(cfg); err != nil {
			out.Oracle("effective-config", term+"(VRec []))", "conf.Marshal failed: "+err.Error())
			continue
		}
		effMap := eff.ToStringMap()
		// ---- direct oracle
		isW := map[string]bool{}
		blocking := false
		blockingVal := ""
		for _, w := range written {
			if w.path[len(w.path)-1] == "blocking" {
				blocking = true
				blockingVal = w.canon
			}
		}
		for _, w := range written {
			isW[strings.Join(w.path, "::")] = true
			o := obs.get(w.path)
			if o == nil || !o.leaf || o.val != w.canon {
				if w.path[len(w.path)-1] == "block_on_overflow" && blocking && o != nil && o.val == blockingVal {
					// queuebatch.Config.Unmarshal before fix a5b2af88a: the deprecated alias won over the
					// written sibling (former known finding C13-BLOCKING-OVERRIDES; now a violation)
					out.Oracle("written-sibling-overridden", term+"(VRec []))", fmt.Sprintf("%s written %s but the deprecated sending_queue::blocking=%s overrides it", strings.Join(w.path, "::"), w.canon, blockingVal))
					out.Stat("faithful.blocking-override", 1)
					continue
				}
				out.Oracle("written-key-not-reflected", term+"(VRec []))", fmt.Sprintf("%s written %s, typed config has %v", strings.Join(w.path, "::"), w.canon, o))
			}
			ev, ok := fGetAny(effMap, append([]string{e.Kind, id.String()}, w.path...))
			es := fmt.Sprint(ev)
			switch {
			case !ok:
				// an omitempty field with a zero value is left out by the encoder; harmless when the
				// default is that zero too, a misleading absence otherwise
				if w.canon == "false" || w.canon == "0" || w.canon == "" {
					if dn := def.get(w.path); w.n.omit && dn != nil && dn.val != w.canon {
						out.Oracle("effective-config-omits-written-zero", term+"(VRec []))", fmt.Sprintf("%s written with the zero value %s on an omitempty field (default %s) is absent from the effective configuration", strings.Join(w.path, "::"), w.canon, dn.val))
						out.Stat("faithful.omitempty-hides-zero", 1)
					} else if !w.n.omit {
						out.Oracle("effective-config-missing", term+"(VRec []))", strings.Join(w.path, "::")+" (no omitempty) absent from the effective configuration")
					}
				} else {
					out.Oracle("effective-config-missing", term+"(VRec []))", strings.Join(w.path, "::")+" absent from the effective configuration")
				}
			case w.n.opaque:
				if es != "[REDACTED]" {
					out.Oracle("effective-config-secret", term+"(VRec []))", strings.Join(w.path, "::")+" not redacted: "+es)
				}
			default:
				if es != w.canon && es != w.orig && !fSameDuration(es, w.canon) {
					out.Oracle("effective-config-differs", term+"(VRec []))", fmt.Sprintf("%s written %s, effective configuration has %s", strings.Join(w.path, "::"), w.orig, es))
				}
			}
		}
		// maps / slices: typed read-back, effective configuration entry by entry
		for _, w := range cws {
			key := strings.Join(w.pos.path, "::")
			tv, ok := fTypedAt(reflect.ValueOf(got), &sDesc{Kind: "ptr", Elem: e.D}, w.pos.path)
			if !ok || tv.Len() != len(w.vals) {
				out.Oracle("written-key-not-reflected", term+"(VRec []))", fmt.Sprintf("%s written with %d entries, typed config has %v", key, len(w.vals), tv))
				continue
			}
			ev, eok := fGetAny(effMap, append([]string{e.Kind, id.String()}, w.pos.path...))
			for k := range w.vals {
				var typed string
				var eff any
				var effOK bool
				if w.pos.kind == "strmap" {
					mv := tv.MapIndex(reflect.ValueOf(w.keys[k]).Convert(tv.Type().Key()))
					if mv.IsValid() {
						typed = mv.String()
					}
					if em, ok := ev.(map[string]any); ok {
						eff, effOK = em[w.keys[k]]
					}
				} else {
					typed = tv.Index(k).String()
					if el, ok := ev.([]any); ok && k < len(el) {
						eff, effOK = el[k], true
					}
				}
				if typed != w.vals[k] {
					out.Oracle("written-key-not-reflected", term+"(VRec []))", fmt.Sprintf("%s[%s] written %s, typed config has %q", key, w.keys[k], w.vals[k], typed))
				}
				want := w.vals[k]
				if w.pos.opaque {
					want = "[REDACTED]"
				}
				if !eok || !effOK {
					out.Oracle("effective-config-missing", term+"(VRec []))", fmt.Sprintf("%s[%s] absent from the effective configuration", key, w.keys[k]))
				} else if fmt.Sprint(eff) != want {
					kind := "effective-config-differs"
					if w.pos.opaque {
						kind = "effective-config-secret"
					}
					out.Oracle(kind, term+"(VRec []))", fmt.Sprintf("%s[%s] written %s, effective configuration has %v (expected %s)", key, w.keys[k], w.vals[k], eff, want))
				}
			}
		}
		// no secret anywhere in the effective configuration, whatever the shape it sits in
		if js, err := json.Marshal(effMap); err == nil {
			for _, m := range fSecretRe.FindAllString(fmt.Sprint(doc), -1) {
				if strings.Contains(string(js), m) || strings.Contains(fmt.Sprint(effMap), m) {
					out.Oracle("effective-config-secret", term+"(VRec []))", "the secret "+m+" written in the configuration appears in the effective configuration")
				}
			}
		} else {
			out.Oracle("effective-config", term+"(VRec []))", "effective configuration is not serialisable: "+err.Error())
		}
		// CEff case: the written settings as typed values (opaque flags from the types) vs the same key
		// paths of the effective configuration.  Zero scalars are left out (omitempty may drop them).
		{
			ev, ob := &eNode{}, &eNode{}
			effAt := func(path []string) (any, bool) {
				return fGetAny(effMap, append([]string{e.Kind, id.String()}, path...))
			}
			for _, w := range written {
				if w.canon == "false" || w.canon == "0" || w.canon == "" {
					continue
				}
				if w.path[len(w.path)-1] == "block_on_overflow" || w.path[len(w.path)-1] == "blocking" {
					continue // the alias rule may legitimately change the typed value (Part 4)
				}
				if w.n.opaque {
					ev.put(w.path, "EOpaque "+vStr(w.canon))
				} else {
					ev.put(w.path, "EPlain "+vStr(w.canon))
				}
				x, ok := effAt(w.path)
				ob.put(w.path, eScalar(x, ok, w.canon))
			}
			for _, w := range cws {
				x, _ := effAt(w.pos.path)
				if w.pos.kind == "strmap" {
					idx := make([]int, len(w.keys))
					for k := range idx {
						idx[k] = k
					}
					sort.Slice(idx, func(a, b int) bool { return w.keys[idx[a]] < w.keys[idx[b]] })
					var kv, okv []string
					xm, _ := x.(map[string]any)
					for _, k := range idx {
						kv = append(kv, "("+vStr(w.keys[k])+", "+vStr(w.vals[k])+")")
						y, ok := xm[w.keys[k]]
						okv = append(okv, "("+vStr(w.keys[k])+", "+eScalar(y, ok, "")+")")
					}
					if len(xm) != len(w.keys) {
						okv = append(okv, "("+vStr("<extra entries>")+", CNull)")
					}
					ev.put(w.pos.path, "EStrMap "+vBool(w.pos.opaque)+" "+vList(kv))
					ob.put(w.pos.path, "CMap "+vList(okv))
				} else {
					var l, ol []string
					xl, _ := x.([]any)
					for k := range w.vals {
						l = append(l, vStr(w.vals[k]))
						if k < len(xl) {
							ol = append(ol, eScalar(xl[k], true, ""))
						}
					}
					for k := len(w.vals); k < len(xl); k++ {
						ol = append(ol, "CNull")
					}
					ev.put(w.pos.path, "EStrList "+vBool(w.pos.opaque)+" "+vList(l))
					ob.put(w.pos.path, "CList "+vList(ol))
				}
			}
			if len(ev.kids) > 0 {
				out.Case(true, "(CEff ("+ev.coq("ERec")+") ("+ob.coq("CMap")+"))")
				out.Stat("faithful.ceff", 1)
			}
		}
		// CRound case: reload the component's section of the effective configuration; the typed
		// configuration must come back (Part 7: encode_o, then overlay onto the factory defaults)
		if sec, ok := fGetAny(effMap, []string{e.Kind, id.String()}); ok {
			rterm := "(CRound " + vStr(e.Name) + " (" + def.coqO(false) + ") (" + obs.coqO(true) + ") "
			cfg2, err2 := dLoad(dDocInst(e, instID, sec, nil))
			if err2 != nil {
				out.Oracle("effective-config-not-reloadable", rterm+"(VRec []))", "the effective configuration of the component does not load: "+err2.Error())
			} else if got2 := fSection(cfg2, e.Kind)[id]; got2 != nil {
				obs2 := fExtract(reflect.ValueOf(got2), &sDesc{Kind: "ptr", Elem: e.D})
				// direct oracle: every plain leaf comes back, unless it was left out as omitempty-zero
				// while the default differs (the documented ambiguity) or it is a secret (marker)
				var l1 []fLeaf
				obs.leaves(nil, &l1)
				for _, l := range l1 {
					o2 := obs2.get(l.path)
					switch {
					case l.n.opaque:
					case o2 == nil || !o2.leaf:
						out.Oracle("round-trip-lost", rterm+"(VRec []))", strings.Join(l.path, "::")+" disappears when the effective configuration is loaded again")
					case o2.val != l.n.val:
						dn := def.get(l.path)
						if l.n.omit && l.n.zero && dn != nil && dn.val == o2.val {
							out.Stat("round.omitempty-ambiguity", 1)
						} else {
							out.Oracle("round-trip-differs", rterm+"(VRec []))", fmt.Sprintf("%s is %s, after reloading the effective configuration %s", strings.Join(l.path, "::"), l.n.val, o2.val))
						}
					}
				}
				// a section that is nil in the typed configuration but comes back (with its defaults) when
				// the effective configuration is loaded: the effective configuration wrote `key: null`, which
				// in the collector's configuration language means "present with defaults"
				if fShape(obs2) != fShape(obs) {
					var l2 []fLeaf
					obs2.leaves(nil, &l2)
					for _, l := range l2 {
						if obs.get(l.path) == nil {
							sec := strings.Join(l.path[:len(l.path)-1], "::")
							ev, present := fGetAny(effMap, append([]string{e.Kind, id.String()}, l.path[:len(l.path)-1]...))
							out.Oracle("effective-config-resurrects-nil-section", rterm+"(VRec []))", fmt.Sprintf("%s is nil in the typed configuration, the effective configuration has it as %v (present=%v), and loading the effective configuration enables it with defaults", sec, ev, present))
							out.Stat("round.nil-section-resurrected", 1)
							break
						}
					}
				}
				out.Case(true, rterm+"("+obs2.coq()+"))")
				out.Stat("round.cases", 1)
			}
		}
		// every nested validation rule of the loaded configuration is evaluated
		dCompareValidate(out, term+"(VRec []))", cfg)
		var ol []fLeaf
		obs.leaves(nil, &ol)
		for _, l := range ol {
			key := strings.Join(l.path, "::")
			if isW[key] {
				continue
			}
			dn := def.get(l.path)
			if dn == nil || !dn.leaf {
				continue
			}
			if dn.val != l.n.val {
				if l.path[len(l.path)-1] == "block_on_overflow" && blocking {
					continue
				}
				out.Oracle("sibling-changed", term+"(VRec []))", fmt.Sprintf("%s was not written but changed from %s to %s", key, dn.val, l.n.val))
			}
		}
		out.Case(len(written) > 0, term+"("+obs.coq()+"))")
		out.Stat("faithful.cases", 1)
		out.Stat("faithful.entry."+e.Name, 1)
		out.Stat("faithful.written", len(written))
		out.Stat("faithful.leaves", len(cand))
	}
}

var fSecretRe = regexp.MustCompile(`SECRET-[0-9]+`)

func componentID(typ string) component.ID { return component.MustNewID(typ) }

func fID(s string) component.ID {
	var id component.ID
	if err := id.UnmarshalText([]byte(s)); err != nil {
		panic(err)
	}
	return id
}

func fSameDuration(es, canon string) bool {
	d, err := time.ParseDuration(es)
	if err != nil {
		return false
	}
	return strconv.FormatInt(int64(d), 10) == canon
}

func fCv(v any) string {
	switch x := v.(type) {
	case map[string]any:
		var ks []string
		for k := range x {
			ks = append(ks, k)
		}
		sort.Strings(ks)
		it := make([]string, len(ks))
		for i, k := range ks {
			it[i] = "(" + vStr(k) + ", " + fCv(x[k]) + ")"
		}
		return "CMap " + vList(it)
	case string:
		return "CScalar " + vStr(x)
	}
	return "CNull"
}

// small ordered tree used to print the ev / cv terms of a CEff case
type eNode struct {
	term string
	kids map[string]*eNode
}

func (n *eNode) put(path []string, term string) {
	for _, k := range path {
		if n.kids == nil {
			n.kids = map[string]*eNode{}
		}
		c := n.kids[k]
		if c == nil {
			c = &eNode{}
			n.kids[k] = c
		}
		n = c
	}
	n.term = term
}

func (n *eNode) coq(rec string) string {
	if n.kids == nil {
		return n.term
	}
	var ks []string
	for k := range n.kids {
		ks = append(ks, k)
	}
	sort.Strings(ks)
	it := make([]string, len(ks))
	for i, k := range ks {
		it[i] = "(" + vStr(k) + ", " + n.kids[k].coq(rec) + ")"
	}
	return rec + " " + vList(it)
}

// eScalar renders a value found in the effective configuration canonically (durations in ns)
func eScalar(x any, ok bool, canon string) string {
	if !ok {
		return "CNull"
	}
	switch y := x.(type) {
	case time.Duration:
		return "CScalar " + vStr(strconv.FormatInt(int64(y), 10))
	case float64:
		return "CScalar " + vStr(strconv.FormatFloat(y, 'g', -1, 64))
	case float32:
		return "CScalar " + vStr(strconv.FormatFloat(float64(y), 'g', -1, 64))
	case string:
		if canon != "" && y != canon && fSameDuration(y, canon) {
			return "CScalar " + vStr(canon)
		}
		for _, c := range y {
			if c < 32 || c > 126 || c == '"' {
				return "CScalar " + vStr("<unprintable>")
			}
		}
		return "CScalar " + vStr(y)
	}
	return "CScalar " + vStr(fmt.Sprint(x))
}

// fShape lists the struct nodes of a typed tree
func fShape(n *fNode) string {
	if n == nil || n.leaf {
		return ""
	}
	var b strings.Builder
	for _, k := range n.keys {
		if !n.kids[k].leaf {
			b.WriteString(k + "{" + fShape(n.kids[k]) + "}")
		}
	}
	return b.String()
}
