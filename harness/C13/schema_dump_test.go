// C13 translator T3, dump entry point (run by props/C13/check.py translate).
package main

import (
	"os"
	"testing"
)

func TestVerifC13Schema(t *testing.T) {
	es, err := sSchema()
	if err != nil {
		t.Fatal(err)
	}
	out := os.Getenv("VERIF_C13_SCHEMA_V")
	if out == "" {
		t.Fatal("VERIF_C13_SCHEMA_V not set")
	}
	if err := os.WriteFile(out, []byte(sCoqFile(es)), 0o644); err != nil {
		t.Fatal(err)
	}
}
