// C13 correspondence harness, part 3: the full loader (otelcol.ConfigProvider with every built-in
// factory of cmd/otelcorecol components()) on generated configurations:
//   - the exhaustive unknown-key insertion stream: one unknown key at every struct level of every
//     built-in component, of the service section and of the top level (skeleton config holding just
//     the path to that level), plus random multi-insertions;
//   - the faithfulness stream: random subsets of settable leaves written with random valid values,
//     read back from the typed struct (reflection along the mapstructure keys) and from the
//     effective configuration (conf.Marshal, what ConfigWatcher extensions receive).
// Injected into /repo/cmd/otelcorecol by `go test -overlay`; never written into /repo.
package main

import (
	"context"
	"encoding/json"
	"fmt"
	"reflect"
	"regexp"
	"sort"
	"strconv"
	"strings"
	"testing"
	"time"

	"go.opentelemetry.io/collector/confmap"
	"go.opentelemetry.io/collector/confmap/provider/yamlprovider"
	"go.opentelemetry.io/collector/otelcol"
)

func dLoad(doc any) (cfg *otelcol.Config, err error) {
	defer func() {
		if r := recover(); r != nil {
			cfg, err = nil, fmt.Errorf("PANIC in the loader: %v", r)
		}
	}()
	return dLoad1(doc)
}

func dLoad1(doc any) (*otelcol.Config, error) {
	f, err := components()
	if err != nil {
		return nil, err
	}
	js, err := json.Marshal(doc)
	if err != nil {
		return nil, err
	}
	cp, err := otelcol.NewConfigProvider(otelcol.ConfigProviderSettings{ResolverSettings: confmap.ResolverSettings{
		URIs:              []string{"yaml:" + string(js)},
		ProviderFactories: []confmap.ProviderFactory{yamlprovider.NewFactory()},
		DefaultScheme:     "yaml",
	}})
	if err != nil {
		return nil, err
	}
	ctx, cancel := context.WithTimeout(context.Background(), 60*time.Second)
	defer cancel()
	return cp.Get(ctx, f)
}

// ---- insertion points ---------------------------------------------------------------------------
type dStep struct {
	kind string // field | idx | key
	name string
}

type dPoint struct {
	steps   []dStep
	foreign bool
	d       *sDesc
}

func dKeyFor(d *sDesc) string {
	if d.rt != nil && d.rt.Kind() == reflect.Map && strings.Contains(d.rt.Key().String(), "pipeline.ID") {
		return "traces"
	}
	return "k1"
}

func dPoints(d *sDesc, steps []dStep, foreign bool, depth int, emit bool, out *[]dPoint) {
	if depth > 9 {
		return
	}
	cp := func(s dStep) []dStep { return append(append([]dStep(nil), steps...), s) }
	switch d.Kind {
	case "ptr":
		dPoints(d.Elem, steps, foreign, depth, true, out)
	case "slice":
		dPoints(d.Elem, cp(dStep{"idx", "0"}), foreign, depth+1, true, out)
	case "map":
		dPoints(d.Elem, cp(dStep{"key", dKeyFor(d)}), foreign, depth+1, true, out)
	case "struct":
		foreign = foreign || d.Foreign
		if emit { // also at a level with a `,remain` field: there the oracle expects the key to be REJECTED
			// by the property (the model says accepted), so a new catch-all shows up as a violation
			*out = append(*out, dPoint{steps: append([]dStep(nil), steps...), foreign: foreign, d: d})
		}
		for _, f := range d.Fields {
			if f.Squash {
				dPoints(f.T, steps, foreign, depth, false, out) // same level: no new point
			} else {
				dPoints(f.T, cp(dStep{"field", f.Key}), foreign, depth+1, true, out)
			}
		}
	}
}

func dBuild(steps []dStep, leaf any) any {
	if len(steps) == 0 {
		return leaf
	}
	s := steps[0]
	if s.kind == "idx" {
		return []any{dBuild(steps[1:], leaf)}
	}
	return map[string]any{s.name: dBuild(steps[1:], leaf)}
}

// dMerge merges b into a (maps recursively, lists element-wise on index 0, otherwise b wins)
func dMerge(a, b any) any {
	am, ok1 := a.(map[string]any)
	bm, ok2 := b.(map[string]any)
	if ok1 && ok2 {
		for k, v := range bm {
			if old, ok := am[k]; ok {
				am[k] = dMerge(old, v)
			} else {
				am[k] = v
			}
		}
		return am
	}
	al, ok1 := a.([]any)
	bl, ok2 := b.([]any)
	if ok1 && ok2 && len(al) == 1 && len(bl) == 1 {
		return []any{dMerge(al[0], bl[0])}
	}
	return b
}

func dCv(v any) string {
	switch x := v.(type) {
	case nil:
		return "CNull"
	case map[string]any:
		var ks []string
		for k := range x {
			ks = append(ks, k)
		}
		sort.Strings(ks)
		it := make([]string, len(ks))
		for i, k := range ks {
			it[i] = "(" + vStr(k) + ", " + dCv(x[k]) + ")"
		}
		return "CMap " + vList(it)
	case []any:
		it := make([]string, len(x))
		for i, e := range x {
			it[i] = dCv(e)
		}
		return "CList " + vList(it)
	}
	return "CScalar " + vStr(fmt.Sprint(v))
}

func dSegs(steps []dStep) []string {
	s := make([]string, len(steps))
	for i, st := range steps {
		s[i] = st.name
	}
	return s
}

func dStrs(ss []string) string {
	it := make([]string, len(ss))
	for i, s := range ss {
		it[i] = vStr(s)
	}
	return vList(it)
}

// wrap the value of one schema entry into a whole configuration document
// dDocInst: like dDoc, but the component instance is called [id] ("type" or "type/name") and the
// section also holds the sibling instances [sib] (id -> body) of the same kind
func dDocInst(e sEntry, id string, val any, sib map[string]any) any {
	switch e.Kind {
	case "top", "service":
		return dDoc(e, val)
	}
	sec := map[string]any{id: val}
	for k, v := range sib {
		sec[k] = v
	}
	return map[string]any{e.Kind: sec}
}

// dInstIDs picks the id of the instance under test and of one sibling of the same type: unnamed
// vs named, or two different names
func dInstIDs(r *vRand, typ string) (string, string) {
	names := []string{typ, typ + "/n1", typ + "/second", typ + "/" + typ}
	a := r.Intn(len(names))
	b := (a + 1 + r.Intn(len(names)-1)) % len(names)
	return names[a], names[b]
}

func dDoc(e sEntry, val any) any {
	switch e.Kind {
	case "top":
		return val
	case "service":
		return map[string]any{"service": val}
	}
	return map[string]any{e.Kind: map[string]any{e.Type: val}}
}

var (
	dFrameRe = regexp.MustCompile(`error decoding '([^']*)'|'([^']*)' has invalid keys: ([^\n]*)`)
	dSegRe   = regexp.MustCompile(`[^.\[\]]+`)
)

type dReport struct {
	path []string
	keys []string
}

// dParse extracts the "has invalid keys" reports of a load error; paths are absolute (the names of
// the enclosing "error decoding" frames are prepended), valid when the error has a single chain
func dParse(err error) []dReport {
	var frames []string
	var reps []dReport
	for _, m := range dFrameRe.FindAllStringSubmatch(err.Error(), -1) {
		if m[3] == "" && !strings.Contains(m[0], "has invalid keys") {
			frames = append(frames, dSegRe.FindAllString(m[1], -1)...)
			continue
		}
		p := append(append([]string(nil), frames...), dSegRe.FindAllString(m[2], -1)...)
		var ks []string
		for _, k := range strings.Split(m[3], ",") {
			ks = append(ks, strings.TrimSpace(k))
		}
		reps = append(reps, dReport{p, ks})
	}
	return reps
}

func dStrip(e sEntry, p []string) ([]string, bool) {
	var pre []string
	switch e.Kind {
	case "top":
	case "service":
		pre = []string{"service"}
	default:
		pre = []string{e.Kind}
	}
	if len(p) < len(pre) {
		return nil, false
	}
	for i := range pre {
		if p[i] != pre[i] {
			return nil, false
		}
	}
	return p[len(pre):], true
}

func TestVerifC13Decode(t *testing.T) {
	out := vOpen()
	defer out.Close()
	r := vNewRand(0xC13C)
	es, err := sSchema()
	if err != nil {
		t.Fatal(err)
	}
	// sanity: the empty skeleton of every entry loads
	var all []dEntryPts
	for _, e := range es {
		var pts []dPoint
		dPoints(e.D, nil, false, 0, true, &pts)
		all = append(all, dEntryPts{e, pts})
		out.Stat("decode.points."+e.Name, len(pts))
	}

	// ---- stream 1: exhaustive single insertion ------------------------------------------------
	const unk = "zzz_unknown"
	for _, ep := range all {
		for _, pt := range ep.pts {
			val := dBuild(pt.steps, map[string]any{unk: 1})
			// the instance under test is unnamed or named and has a sibling instance of the same type
			// with a valid (empty) body: the unknown key must be charged to the right instance
			inst, sibID := "", ""
			var doc any
			if ep.e.Def != nil {
				inst, sibID = dInstIDs(r, ep.e.Type)
				doc = dDocInst(ep.e, inst, val, map[string]any{sibID: map[string]any{}})
				out.Stat("decode.single.instance."+map[bool]string{true: "named", false: "unnamed"}[strings.Contains(inst, "/")], 1)
			} else {
				doc = dDoc(ep.e, val)
			}
			_, err := dLoad(doc)
			js, _ := json.Marshal(doc)
			if err != nil && inst != "" && !strings.HasPrefix(err.Error(), "PANIC") {
				if !strings.Contains(err.Error(), "for "+strconv.Quote(inst)+":") {
					out.Oracle("unknown-key-wrong-instance", "(CDec true "+vStr(ep.e.Name)+" ("+dCv(val)+") [])", "the error does not name the instance "+inst+": "+string(js)+" => "+err.Error())
				}
				if strings.Contains(err.Error(), "for "+strconv.Quote(sibID)+":") {
					out.Oracle("unknown-key-wrong-instance", "(CDec true "+vStr(ep.e.Name)+" ("+dCv(val)+") [])", "the sibling instance "+sibID+" is blamed: "+string(js)+" => "+err.Error())
				}
			}
			term := "(CDec true " + vStr(ep.e.Name) + " (" + dCv(val) + ") "
			if err == nil {
				out.Oracle("unknown-key-accepted", term+"[])", "loaded although an unknown key was written: "+string(js))
				if !pt.foreign {
					out.Case(true, term+"[])")
				}
				continue
			}
			if strings.HasPrefix(err.Error(), "PANIC") {
				out.Oracle("unknown-key-panics", term+"[])", "the loader panics instead of rejecting: "+string(js)+" => "+err.Error())
				out.Stat("decode.single.panic", 1)
				continue
			}
			reps := dParse(err)
			named := false
			var obs []string
			okPaths := true
			for _, rp := range reps {
				rel, ok := dStrip(ep.e, rp.path)
				if !ok {
					okPaths = false
				}
				for _, k := range rp.keys {
					if k == unk {
						named = true
					}
					obs = append(obs, vPair(dStrs(rel), vStr(k)))
				}
			}
			if !named {
				out.Oracle("unknown-key-not-named", term+"[])", "load failed without naming the unknown key: "+string(js)+" => "+err.Error())
			}
			out.Stat("decode.single", 1)
			if pt.foreign {
				out.Stat("decode.single.foreign", 1)
				if pt.d.RemGuard && len(reps) > 0 {
					// a level guarded by remainNotMapHookFunc: compared with its own descriptor (regression
					// stream of the repaired C13-TELEMETRY-REMAIN-PANIC)
					var ob []string
					for _, k := range reps[len(reps)-1].keys {
						ob = append(ob, vPair("[]", vStr(k)))
					}
					out.Case(true, "(CDec true "+vStr("remain-level/"+pt.d.Type)+" (CMap [("+vStr(unk)+", CScalar "+vStr("1")+")]) "+vList(ob)+")")
					out.Stat("decode.single.remain-level", 1)
				}
				continue
			}
			if !okPaths {
				out.Oracle("unknown-key-path", term+"[])", "cannot relate the reported path to the component: "+err.Error())
				continue
			}
			// direct oracle on the path: the reported level is the level where the key was inserted
			want := strings.Join(dSegs(pt.steps), "/")
			hit := false
			for _, rp := range reps {
				rel, _ := dStrip(ep.e, rp.path)
				if strings.Join(rel, "/") == want {
					hit = true
				}
			}
			if !hit {
				out.Oracle("unknown-key-wrong-path", term+"[])", fmt.Sprintf("inserted at %q, error: %v", want, err))
			}
			out.Case(true, term+vList(obs)+")")
			out.Stat("decode.single.depth."+strconv.Itoa(dMin(len(pt.steps), 6)), 1)
		}
	}

	// ---- stream 1b: a key that differs from a field's key only by letter case is unknown too ---------
	for _, ep := range all {
		for _, pt := range ep.pts {
			if pt.foreign || len(pt.d.Fields) == 0 {
				continue
			}
			var keys []string
			var collect func(d *sDesc)
			collect = func(d *sDesc) {
				for _, f := range d.Fields {
					if f.Squash {
						if f.T.Kind == "struct" {
							collect(f.T)
						}
					} else {
						keys = append(keys, f.Key)
					}
				}
			}
			collect(pt.d)
			var variant string
			for _, k := range keys {
				if u := strings.ToUpper(k[:1]) + k[1:]; u != k {
					variant = u
					break
				}
			}
			if variant == "" || r.Intn(2) == 0 {
				continue
			}
			val := dBuild(pt.steps, map[string]any{variant: nil})
			doc := dDoc(ep.e, val)
			_, err := dLoad(doc)
			js, _ := json.Marshal(doc)
			term := "(CDec true " + vStr(ep.e.Name) + " (" + dCv(val) + ") "
			if err == nil {
				out.Oracle("unknown-key-accepted", term+"[])", "a key differing only by letter case from a real key is accepted: "+string(js))
				out.Case(true, term+"[])")
				continue
			}
			if strings.HasPrefix(err.Error(), "PANIC") {
				continue
			}
			var obs []string
			okp := true
			for _, rp := range dParse(err) {
				rel, ok := dStrip(ep.e, rp.path)
				okp = okp && ok
				for _, k := range rp.keys {
					obs = append(obs, vPair(dStrs(rel), vStr(k)))
				}
			}
			if okp {
				out.Case(true, term+vList(obs)+")")
				out.Stat("decode.casevariant", 1)
			}
		}
	}

	// ---- stream 2: random multi-insertion (keys only) -----------------------------------------------
	for i, total := 0, vBudget(60, 10); i < total; i++ {
		ep := all[r.Intn(len(all))]
		var cand []dPoint
		for _, p := range ep.pts {
			if !p.foreign {
				cand = append(cand, p)
			}
		}
		if len(cand) == 0 {
			continue
		}
		n := 1 + r.Intn(3)
		var val any = map[string]any{}
		var keys []string
		for k := 0; k < n; k++ {
			pt := cand[r.Intn(len(cand))]
			key := "zz" + strconv.Itoa(k)
			keys = append(keys, key)
			val = dMerge(val, dBuild(pt.steps, map[string]any{key: k}))
		}
		// also a few known keys with null values (accepted, must not be reported)
		doc := dDoc(ep.e, val)
		_, err := dLoad(doc)
		term := "(CDec false " + vStr(ep.e.Name) + " (" + dCv(val) + ") "
		js, _ := json.Marshal(doc)
		if err == nil {
			out.Oracle("unknown-key-accepted", term+"[])", "loaded although unknown keys were written: "+string(js))
			out.Case(true, term+"[])")
			continue
		}
		var obs []string
		got := map[string]bool{}
		for _, rp := range dParse(err) {
			for _, k := range rp.keys {
				got[k] = true
				obs = append(obs, vPair("[]", vStr(k)))
			}
		}
		for _, k := range keys {
			if !got[k] {
				out.Oracle("unknown-key-not-named", term+"[])", "unknown key "+k+" not named: "+string(js)+" => "+err.Error())
			}
		}
		out.Case(true, term+vList(obs)+")")
		out.Stat("decode.multi."+strconv.Itoa(n), 1)
	}

	// ---- stream 3: accepted skeletons (no unknown key): every struct level written as an empty map ----
	for _, ep := range all {
		for _, pt := range ep.pts {
			if pt.foreign || r.Intn(3) != 0 {
				continue
			}
			val := dBuild(pt.steps, map[string]any{})
			_, err := dLoad(dDoc(ep.e, val))
			if err != nil && strings.Contains(err.Error(), "has invalid keys") {
				out.Oracle("known-key-rejected", "(CDec true "+vStr(ep.e.Name)+" ("+dCv(val)+") [])", err.Error())
			}
			if err == nil || !strings.Contains(err.Error(), "has invalid keys") {
				out.Case(false, "(CDec true "+vStr(ep.e.Name)+" ("+dCv(val)+") [])")
				out.Stat("decode.accepted", 1)
			}
		}
	}

	dValidateStream(out, r, all)
	dMismatch(out, r, all)
	dWhole(out, r)
	dFaithful(t, out, r, all)
}

func dMin(a, b int) int {
	if a < b {
		return a
	}
	return b
}

type dEntryPts struct {
	e   sEntry
	pts []dPoint
}
