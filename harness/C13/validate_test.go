// C13 correspondence harness, part 3c: every validation rule of every nested value of the REAL
// built-in configuration types is evaluated.  An independent reference walker (written from the
// specification: every value reachable through exported fields — named or embedded —, pointers,
// interfaces, slice/array elements, map keys and map values is asked for its Validate verdict)
// is run on loaded configurations and compared, line by line, with xconfmap.Validate.  A stream
// plants an invalid value for every validator type at every position where it occurs.
package main

import (
	"encoding/json"
	"fmt"
	"reflect"
	"sort"
	"strconv"
	"strings"

	"go.opentelemetry.io/collector/confmap/xconfmap"
	"go.opentelemetry.io/collector/otelcol"
)

type rValidator interface{ Validate() error }

var rValidatorT = reflect.TypeOf((*rValidator)(nil)).Elem()

func rVerdict(v reflect.Value) error {
	t := v.Type()
	if t.Implements(rValidatorT) {
		return v.Interface().(rValidator).Validate()
	}
	if reflect.PointerTo(t).Implements(rValidatorT) {
		p := reflect.New(t)
		p.Elem().Set(v)
		if v.CanAddr() {
			p = v.Addr()
		}
		return p.Interface().(rValidator).Validate()
	}
	return nil
}

func rSeg(f reflect.StructField) string {
	if tag, ok := f.Tag.Lookup("mapstructure"); ok {
		if n := strings.Split(tag, ",")[0]; n != "" {
			return n
		}
	}
	return strings.ToLower(f.Name)
}

func rKey(k reflect.Value) string {
	if s, ok := k.Interface().(string); ok {
		return s
	}
	if s, ok := k.Interface().(fmt.Stringer); ok {
		return s.String()
	}
	switch k.Kind() {
	case reflect.Ptr, reflect.Interface, reflect.Struct, reflect.Slice, reflect.Array, reflect.Map:
		return fmt.Sprintf("[%T key]", k.Interface())
	}
	return fmt.Sprintf("%v", k.Interface())
}

func rEmit(path []string, err error, out *[]string) {
	if err == nil {
		return
	}
	msg := err.Error()
	if len(path) > 0 {
		msg = strings.Join(path, "::") + ": " + msg
	}
	*out = append(*out, strings.Split(msg, "\n")...)
}

func rWalk(v reflect.Value, path []string, out *[]string) {
	ext := func(s string) []string { return append(append([]string(nil), path...), s) }
	switch v.Kind() {
	case reflect.Invalid:
		return
	case reflect.Ptr, reflect.Interface:
		if v.IsNil() {
			return
		}
		rWalk(v.Elem(), path, out)
	case reflect.Struct:
		rEmit(path, rVerdict(v), out)
		for i := 0; i < v.NumField(); i++ {
			f := v.Type().Field(i)
			if f.PkgPath != "" { // unexported
				continue
			}
			rWalk(v.Field(i), ext(rSeg(f)), out)
		}
	case reflect.Slice, reflect.Array:
		rEmit(path, rVerdict(v), out)
		for i := 0; i < v.Len(); i++ {
			rWalk(v.Index(i), ext(strconv.Itoa(i)), out)
		}
	case reflect.Map:
		rEmit(path, rVerdict(v), out)
		for _, k := range v.MapKeys() {
			rWalk(k, ext(rKey(k)), out)
			rWalk(v.MapIndex(k), ext(rKey(k)), out)
		}
	default:
		rEmit(path, rVerdict(v), out)
	}
}

// dCompareValidate runs xconfmap.Validate on a loaded configuration and compares with the reference
// walker (multisets of rendered lines).  Returns the reference lines.
func dCompareValidate(out *vOut, term string, cfg *otelcol.Config) []string {
	var ref []string
	rWalk(reflect.ValueOf(cfg), nil, &ref)
	var got []string
	if err := xconfmap.Validate(cfg); err != nil {
		got = strings.Split(err.Error(), "\n")
	}
	cnt := map[string]int{}
	for _, l := range ref {
		cnt[l]++
	}
	for _, l := range got {
		cnt[l]--
	}
	var ks []string
	for k := range cnt {
		ks = append(ks, k)
	}
	sort.Strings(ks)
	for _, k := range ks {
		if cnt[k] > 0 {
			out.Oracle("validator-not-evaluated", term, "a reachable nested Validate fails but xconfmap.Validate does not report it: "+k)
		} else if cnt[k] < 0 {
			out.Oracle("validator-spurious", term, "xconfmap.Validate reports an error no reachable Validate returns: "+k)
		}
	}
	out.Stat("validate.compared", 1)
	out.Stat("validate.errors."+strconv.Itoa(dMin(len(ref), 5)), 1)
	return ref
}

// The per-validator table of invalid settings: for every type of the built-in components that has a
// Validate method, one sample per rule (error branch) of that method, keyed by reflect type name and
// written at every position where the type occurs.  `want` is a fragment of the message the rule
// gives; the sample must be REJECTED (at decode time or by a new validation error containing it).
type dSample struct {
	set    map[string]any
	want   string
	nobase bool // write the sample alone (rules about what is missing)
}

var dInvalid = map[string][]dSample{
	"configretry.BackOffConfig": {
		{set: map[string]any{"initial_interval": "-1s"}, want: "initial_interval"},
		{set: map[string]any{"randomization_factor": 7.5}, want: "randomization_factor"},
		{set: map[string]any{"randomization_factor": -0.5}, want: "randomization_factor"},
		{set: map[string]any{"multiplier": -1.5}, want: "multiplier"},
		{set: map[string]any{"max_interval": "-1s"}, want: "max_interval"},
		{set: map[string]any{"max_elapsed_time": "-1s"}, want: "max_elapsed_time"},
		{set: map[string]any{"initial_interval": "9s", "max_interval": "9s", "max_elapsed_time": "2s"}, want: "max_elapsed_time"},
		{set: map[string]any{"initial_interval": "1s", "max_interval": "50s", "max_elapsed_time": "20s"}, want: "max_elapsed_time"},
	},
	"configtls.Config":        dTLSSamples,
	"configtls.ClientConfig":  dTLSSamples,
	"configtls.ServerConfig":  dTLSSamples,
	"confignet.AddrConfig":    {{set: map[string]any{"transport": "bogus"}, want: "transport"}},
	"configgrpc.ServerConfig": {
		{set: map[string]any{"read_buffer_size": -1}, want: "read_buffer_size"},
		{set: map[string]any{"write_buffer_size": -7}, want: "write_buffer_size"},
		{set: map[string]any{"max_recv_msg_size_mib": 8796093022208}, want: "max_recv_msg_size_mib"},
	},
	"configgrpc.ClientConfig": {{set: map[string]any{"balancer_name": "no_such_balancer"}, want: "balancer_name"}},
	"confighttp.ClientConfig": {{set: map[string]any{"compression": "gzip", "compression_params": map[string]any{"level": 99}}, want: ""}},
	"internal.BatcherConfig": {
		{set: map[string]any{"enabled": true, "flush_timeout": "0s"}, want: "flush_timeout"},
		{set: map[string]any{"enabled": true, "min_size": -3}, want: "min_size"},
		{set: map[string]any{"enabled": true, "max_size": -1}, want: "max_size"},
		{set: map[string]any{"enabled": true, "min_size": 10, "max_size": 5}, want: "max_size"},
	},
	"internal.TimeoutConfig": {{set: map[string]any{"timeout": "-1s"}, want: "timeout"}},
	"queuebatch.Config": {
		{set: map[string]any{"enabled": true, "num_consumers": 0}, want: "num_consumers"},
		{set: map[string]any{"enabled": true, "num_consumers": -2}, want: "num_consumers"},
		{set: map[string]any{"enabled": true, "queue_size": 0}, want: "queue_size"},
		{set: map[string]any{"enabled": true, "queue_size": -1}, want: "queue_size"},
		{set: map[string]any{"enabled": true, "storage": "file_storage", "wait_for_result": true}, want: "wait_for_result"},
		{set: map[string]any{"enabled": true, "storage": "file_storage", "sizer": "items"}, want: "sizer"},
		{set: map[string]any{"enabled": true, "sizer": "requests", "batch": map[string]any{"flush_timeout": "1s"}}, want: "sizer"},
	},
	"queuebatch.BatchConfig": {
		{set: map[string]any{"flush_timeout": "0s"}, want: "flush_timeout"},
		{set: map[string]any{"flush_timeout": "1s", "min_size": -1}, want: "min_size"},
		{set: map[string]any{"flush_timeout": "1s", "max_size": -1}, want: "max_size"},
		{set: map[string]any{"flush_timeout": "1s", "min_size": 10, "max_size": 5}, want: "max_size"},
	},
	"batchprocessor.Config": {
		{set: map[string]any{"send_batch_size": 10, "send_batch_max_size": 5}, want: "send_batch_max_size"},
		{set: map[string]any{"metadata_keys": []any{"a", "A"}}, want: "metadata_keys"},
		{set: map[string]any{"timeout": "-1s"}, want: "timeout"},
	},
	"memorylimiter.Config": {
		{set: map[string]any{"check_interval": "0s"}, want: "check_interval"},
		{set: map[string]any{"min_gc_interval_when_soft_limited": "1s", "min_gc_interval_when_hard_limited": "5s"}, want: "min_gc_interval"},
		{set: map[string]any{"limit_mib": 0}, want: "limit"},
		{set: map[string]any{"limit_mib": 0, "limit_percentage": 150}, want: "percentage"},
		{set: map[string]any{"limit_mib": 100, "spike_limit_mib": 100}, want: "spike"},
		{set: map[string]any{"limit_mib": 0, "limit_percentage": 50, "spike_limit_percentage": 50}, want: "spike"},
	},
	"debugexporter.Config":    {{set: map[string]any{"verbosity": "none"}, want: "verbosity"}},
	"otlpexporter.Config":     {{set: map[string]any{"endpoint": ""}, want: "endpoint"}, {set: map[string]any{"endpoint": "host-without-port"}, want: ""}, {set: map[string]any{"endpoint": "host:notaport"}, want: "port"}},
	"otlphttpexporter.Config": {{set: map[string]any{"endpoint": ""}, want: "endpoint"}},
	"otlpreceiver.Config":     {{set: map[string]any{}, want: "protocol", nobase: true}},
	"zpagesextension.Config":  {{set: map[string]any{"endpoint": ""}, want: "endpoint"}},
}

var dTLSSamples = []dSample{
	{set: map[string]any{"ca_file": "a.pem", "ca_pem": "PEM"}, want: "CA"},
	{set: map[string]any{"min_version": "9.9"}, want: "min_version"},
	{set: map[string]any{"max_version": "0.1"}, want: "max_version"},
	{set: map[string]any{"min_version": "1.3", "max_version": "1.2"}, want: "min_version cannot be greater"},
	{set: map[string]any{"max_version": "1.1"}, want: "min_version cannot be greater"}, // below the default minimum
	{set: map[string]any{"max_version": "1.0"}, want: "min_version cannot be greater"},
}

// settings that make the component valid on its own, so that a planted rule violation is the only
// new error
var dValidBase = map[string]map[string]any{
	"exporters/otlp":             {"endpoint": "localhost:4317"},
	"exporters/otlphttp":         {"endpoint": "http://localhost:4318"},
	"extensions/memory_limiter":  {"check_interval": "1s", "limit_mib": 100},
	"processors/memory_limiter":  {"check_interval": "1s", "limit_mib": 100},
	"receivers/otlp":             {"protocols": map[string]any{"grpc": map[string]any{}, "http": map[string]any{}}},
}

func dCopy(v any) any {
	if m, ok := v.(map[string]any); ok {
		c := map[string]any{}
		for k, x := range m {
			c[k] = dCopy(x)
		}
		return c
	}
	return v
}

type dValPos struct {
	steps []dStep
	d     *sDesc
}

// positions of validator-carrying struct types; a squashed member contributes its keys at the level
// of its parent (same steps)
func dValPositions(d *sDesc, steps []dStep, depth int, out *[]dValPos) {
	if depth > 9 || d.Foreign {
		return
	}
	cp := func(s dStep) []dStep { return append(append([]dStep(nil), steps...), s) }
	switch d.Kind {
	case "ptr":
		dValPositions(d.Elem, steps, depth, out)
	case "slice":
		dValPositions(d.Elem, cp(dStep{"idx", "0"}), depth+1, out)
	case "map":
		dValPositions(d.Elem, cp(dStep{"key", dKeyFor(d)}), depth+1, out)
	case "struct":
		if d.HasVal {
			*out = append(*out, dValPos{append([]dStep(nil), steps...), d})
		}
		for _, f := range d.Fields {
			if f.Squash {
				dValPositions(f.T, steps, depth, out)
			} else {
				dValPositions(f.T, cp(dStep{"field", f.Key}), depth+1, out)
			}
		}
	}
}

func dValidateStream(out *vOut, r *vRand, all []dEntryPts) {
	for _, ep := range all {
		if ep.e.Def == nil {
			continue
		}
		var pos []dValPos
		dValPositions(ep.e.D, nil, 0, &pos)
		out.Stat("validate.positions."+ep.e.Name, len(pos))
		base := map[string]bool{}
		validBase := dValidBase[ep.e.Name]
		if validBase == nil {
			validBase = map[string]any{}
		}
		if cfg0, err := dLoad(dDoc(ep.e, dCopy(validBase))); err == nil {
			var ref0 []string
			rWalk(reflect.ValueOf(cfg0), nil, &ref0)
			for _, l := range ref0 {
				base[l] = true
			}
		}
		for _, vp := range pos {
			samples, ok := dInvalid[vp.d.Type]
			if !ok {
				// a validator type nobody wrote an invalid sample for: visible in the histogram and a
				// broken correspondence (the table must follow the code)
				out.Oracle("validator-without-sample", "(CDec true "+vStr(ep.e.Name)+" CNull [])", "no invalid sample for validator type "+vp.d.Type)
				continue
			}
			for _, smp := range samples {
				val := dBuild(vp.steps, dCopy(smp.set))
				if !smp.nobase {
					val = dMerge(dCopy(validBase), val)
				}
				doc := dDoc(ep.e, val)
				cfg, err := dLoad(doc)
				term := "(CDec true " + vStr(ep.e.Name) + " (" + dCv(val) + ") [])"
				if err != nil {
					out.Stat("validate.planted.loadfail", 1) // rejected at decode time: rejected all the same
					continue
				}
				ref := dCompareValidate(out, term, cfg)
				// did the planted value make a validator at (or above) that position fail?
				// (a line that the component's default configuration does not already produce)
				prefix := ep.e.Kind + "::" + ep.e.Type
				hit := false
				for _, l := range ref {
					if strings.HasPrefix(l, prefix) && (!base[l] || smp.nobase) && strings.Contains(l, smp.want) {
						hit = true
					}
				}
				if !hit {
					js, _ := json.Marshal(doc)
					out.Oracle("validation-rule-not-enforced", term, fmt.Sprintf("invalid setting of %s accepted (expected an error mentioning %q): %s => %v", vp.d.Type, smp.want, js, ref))
				}
				if hit {
					out.Stat("validate.planted.failing", 1)
					out.Stat("validate.planted.failing."+vp.d.Type, 1)
				} else {
					out.Stat("validate.planted.passing."+vp.d.Type, 1)
				}
				out.Case(hit, term)
			}
		}
	}
}
