// C13 correspondence harness, part 3c: every validation rule of every nested value of the REAL
// built-in configuration types is evaluated.  An independent reference walker (written from the
// specification: every value reachable through exported fields — named or embedded —, pointers,
// interfaces, slice/array elements, map keys and map values is asked for its Validate verdict)
// is run on loaded configurations and compared, line by line, with xconfmap.Validate.  A stream
// plants an invalid value for every validator type at every position where it occurs.
package main

import (
	"fmt"
	"reflect"
	"sort"
	"strconv"
	"strings"

	"go.opentelemetry.io/collector/confmap/xconfmap"
	"go.opentelemetry.io/collector/otelcol"
)

type rValidator interface{ Validate() error }

var rValidatorT = reflect.TypeOf((*rValidator)(nil)).Elem()

func rVerdict(v reflect.Value) error {
	t := v.Type()
	if t.Implements(rValidatorT) {
		return v.Interface().(rValidator).Validate()
	}
	if reflect.PointerTo(t).Implements(rValidatorT) {
		p := reflect.New(t)
		p.Elem().Set(v)
		if v.CanAddr() {
			p = v.Addr()
		}
		return p.Interface().(rValidator).Validate()
	}
	return nil
}

func rSeg(f reflect.StructField) string {
	if tag, ok := f.Tag.Lookup("mapstructure"); ok {
		if n := strings.Split(tag, ",")[0]; n != "" {
			return n
		}
	}
	return strings.ToLower(f.Name)
}

func rKey(k reflect.Value) string {
	if s, ok := k.Interface().(string); ok {
		return s
	}
	if s, ok := k.Interface().(fmt.Stringer); ok {
		return s.String()
	}
	switch k.Kind() {
	case reflect.Ptr, reflect.Interface, reflect.Struct, reflect.Slice, reflect.Array, reflect.Map:
		return fmt.Sprintf("[%T key]", k.Interface())
	}
	return fmt.Sprintf("%v", k.Interface())
}

func rEmit(path []string, err error, out *[]string) {
	if err == nil {
		return
	}
	msg := err.Error()
	if len(path) > 0 {
		msg = strings.Join(path, "::") + ": " + msg
	}
	*out = append(*out, strings.Split(msg, "\n")...)
}

func rWalk(v reflect.Value, path []string, out *[]string) {
	ext := func(s string) []string { return append(append([]string(nil), path...), s) }
	switch v.Kind() {
	case reflect.Invalid:
		return
	case reflect.Ptr, reflect.Interface:
		if v.IsNil() {
			return
		}
		rWalk(v.Elem(), path, out)
	case reflect.Struct:
		rEmit(path, rVerdict(v), out)
		for i := 0; i < v.NumField(); i++ {
			f := v.Type().Field(i)
			if f.PkgPath != "" { // unexported
				continue
			}
			rWalk(v.Field(i), ext(rSeg(f)), out)
		}
	case reflect.Slice, reflect.Array:
		rEmit(path, rVerdict(v), out)
		for i := 0; i < v.Len(); i++ {
			rWalk(v.Index(i), ext(strconv.Itoa(i)), out)
		}
	case reflect.Map:
		rEmit(path, rVerdict(v), out)
		for _, k := range v.MapKeys() {
			rWalk(k, ext(rKey(k)), out)
			rWalk(v.MapIndex(k), ext(rKey(k)), out)
		}
	default:
		rEmit(path, rVerdict(v), out)
	}
}

// dCompareValidate runs xconfmap.Validate on a loaded configuration and compares with the reference
// walker (multisets of rendered lines).  Returns the reference lines.
func dCompareValidate(out *vOut, term string, cfg *otelcol.Config) []string {
	var ref []string
	rWalk(reflect.ValueOf(cfg), nil, &ref)
	var got []string
	if err := xconfmap.Validate(cfg); err != nil {
		got = strings.Split(err.Error(), "\n")
	}
	cnt := map[string]int{}
	for _, l := range ref {
		cnt[l]++
	}
	for _, l := range got {
		cnt[l]--
	}
	var ks []string
	for k := range cnt {
		ks = append(ks, k)
	}
	sort.Strings(ks)
	for _, k := range ks {
		if cnt[k] > 0 {
			out.Oracle("validator-not-evaluated", term, "a reachable nested Validate fails but xconfmap.Validate does not report it: "+k)
		} else if cnt[k] < 0 {
			out.Oracle("validator-spurious", term, "xconfmap.Validate reports an error no reachable Validate returns: "+k)
		}
	}
	out.Stat("validate.compared", 1)
	out.Stat("validate.errors."+strconv.Itoa(dMin(len(ref), 5)), 1)
	return ref
}

// an invalid setting for every type of the built-in components that has a Validate method, keyed by
// reflect type name; written at every position where that type occurs
var dInvalid = map[string][]map[string]any{
	"configretry.BackOffConfig": {{"multiplier": -1.5}, {"randomization_factor": 7.5}},
	"configtls.Config":          {{"min_version": "9.9"}},
	"configtls.ClientConfig":    {{"min_version": "9.9"}},
	"configtls.ServerConfig":    {{"max_version": "0.1"}},
	"confignet.AddrConfig":      {{"transport": "bogus"}},
	"configgrpc.ServerConfig":   {{"read_buffer_size": -1}, {"write_buffer_size": -7}},
	"configgrpc.ClientConfig":   {{"balancer_name": "no_such_balancer"}},
	"confighttp.ClientConfig":   {{"compression": "gzip", "compression_params": map[string]any{"level": 99}}},
	"internal.BatcherConfig":    {{"enabled": true, "min_size": -3}},
	"internal.TimeoutConfig":    {{"timeout": "-1s"}},
	"queuebatch.Config":         {{"enabled": true, "queue_size": -1}},
	"queuebatch.BatchConfig":    {{"min_size": -1}, {"flush_timeout": "-1s"}},
	"batchprocessor.Config":     {{"send_batch_size": 10, "send_batch_max_size": 5}},
	"memorylimiter.Config":      {{"check_interval": "0s"}},
	"debugexporter.Config":      {{"verbosity": "none"}},
	"otlpexporter.Config":       {{"endpoint": ""}},
	"otlphttpexporter.Config":   {{"endpoint": ""}},
	"otlpreceiver.Config":       {{}},
	"zpagesextension.Config":    {{"endpoint": ""}},
}

type dValPos struct {
	steps []dStep
	d     *sDesc
}

// positions of validator-carrying struct types; a squashed member contributes its keys at the level
// of its parent (same steps)
func dValPositions(d *sDesc, steps []dStep, depth int, out *[]dValPos) {
	if depth > 9 || d.Foreign {
		return
	}
	cp := func(s dStep) []dStep { return append(append([]dStep(nil), steps...), s) }
	switch d.Kind {
	case "ptr":
		dValPositions(d.Elem, steps, depth, out)
	case "slice":
		dValPositions(d.Elem, cp(dStep{"idx", "0"}), depth+1, out)
	case "map":
		dValPositions(d.Elem, cp(dStep{"key", dKeyFor(d)}), depth+1, out)
	case "struct":
		if d.HasVal {
			*out = append(*out, dValPos{append([]dStep(nil), steps...), d})
		}
		for _, f := range d.Fields {
			if f.Squash {
				dValPositions(f.T, steps, depth, out)
			} else {
				dValPositions(f.T, cp(dStep{"field", f.Key}), depth+1, out)
			}
		}
	}
}

func dValidateStream(out *vOut, r *vRand, all []dEntryPts) {
	for _, ep := range all {
		if ep.e.Def == nil {
			continue
		}
		var pos []dValPos
		dValPositions(ep.e.D, nil, 0, &pos)
		out.Stat("validate.positions."+ep.e.Name, len(pos))
		base := map[string]bool{}
		if cfg0, err := dLoad(dDoc(ep.e, map[string]any{})); err == nil {
			var ref0 []string
			rWalk(reflect.ValueOf(cfg0), nil, &ref0)
			for _, l := range ref0 {
				base[l] = true
			}
		}
		for _, vp := range pos {
			samples, ok := dInvalid[vp.d.Type]
			if !ok {
				// a validator type nobody wrote an invalid sample for: visible in the histogram and a
				// broken correspondence (the table must follow the code)
				out.Oracle("validator-without-sample", "(CDec true "+vStr(ep.e.Name)+" CNull [])", "no invalid sample for validator type "+vp.d.Type)
				continue
			}
			for _, smp := range samples {
				leaf := map[string]any{}
				for k, v := range smp {
					leaf[k] = v
				}
				val := dBuild(vp.steps, leaf)
				doc := dDoc(ep.e, val)
				cfg, err := dLoad(doc)
				term := "(CDec true " + vStr(ep.e.Name) + " (" + dCv(val) + ") [])"
				if err != nil {
					out.Stat("validate.planted.loadfail", 1)
					continue
				}
				ref := dCompareValidate(out, term, cfg)
				// did the planted value make a validator at (or above) that position fail?
				// (a line that the component's default configuration does not already produce)
				prefix := ep.e.Kind + "::" + ep.e.Type
				hit := false
				for _, l := range ref {
					if strings.HasPrefix(l, prefix) && !base[l] {
						hit = true
					}
				}
				if hit {
					out.Stat("validate.planted.failing", 1)
					out.Stat("validate.planted.failing."+vp.d.Type, 1)
				} else {
					out.Stat("validate.planted.passing."+vp.d.Type, 1)
				}
				out.Case(hit, term)
			}
		}
	}
}
