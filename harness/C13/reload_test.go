// C13 correspondence harness, part 6: a real otelcol.Collector (nop components plus an extension
// implementing extensioncapabilities.ConfigWatcher) is started on a generated configuration and
// then made to RELOAD further generated configurations (SIGHUP) from which keys, map entries and
// whole component instances come and go.  What the watcher extension is handed after every
// (re)load must be the effective configuration of the configuration loaded LAST.
// Injected into /repo/otelcol by `go test -overlay`; never written into /repo.
package otelcol

import (
	"context"
	"fmt"
	"reflect"
	"sort"
	"strconv"
	"strings"
	"sync"
	"syscall"
	"testing"
	"time"

	"go.opentelemetry.io/collector/component"
	"go.opentelemetry.io/collector/confmap"
	"go.opentelemetry.io/collector/extension"
)

type rSub struct {
	Mode string `mapstructure:"mode"`
}

type rExtCfg struct {
	Endpoint string            `mapstructure:"endpoint"`
	Headers  map[string]string `mapstructure:"headers"`
	Tags     []string          `mapstructure:"tags"`
	Sub      *rSub             `mapstructure:"sub,omitempty"`
}

var (
	rMu   sync.Mutex
	rSeen []map[string]any
)

type rExt struct{}

func (rExt) Start(context.Context, component.Host) error { return nil }
func (rExt) Shutdown(context.Context) error              { return nil }
func (rExt) NotifyConfig(_ context.Context, conf *confmap.Conf) error {
	rMu.Lock()
	defer rMu.Unlock()
	rSeen = append(rSeen, conf.ToStringMap())
	return nil
}

func rSeenLen() int {
	rMu.Lock()
	defer rMu.Unlock()
	return len(rSeen)
}

var rExtType = component.MustNewType("cw")

func rFactories() (Factories, error) {
	f, err := nopFactories()
	if err != nil {
		return f, err
	}
	f.Extensions[rExtType] = extension.NewFactory(rExtType,
		func() component.Config { return &rExtCfg{Endpoint: "default:1"} },
		func(context.Context, extension.Settings, component.Config) (extension.Extension, error) { return rExt{}, nil },
		component.StabilityLevelStable)
	f.ExtensionModules[rExtType] = "verif/cw v0.0.0"
	return f, nil
}

// a provider whose content the test replaces between loads
type rProvider struct{}

var (
	rDocMu sync.Mutex
	rDoc   map[string]any
)

func (rProvider) Retrieve(context.Context, string, confmap.WatcherFunc) (*confmap.Retrieved, error) {
	rDocMu.Lock()
	defer rDocMu.Unlock()
	return confmap.NewRetrieved(rCopy(rDoc))
}
func (rProvider) Scheme() string                 { return "mem" }
func (rProvider) Shutdown(context.Context) error { return nil }

func rCopy(v any) any {
	switch x := v.(type) {
	case map[string]any:
		c := map[string]any{}
		for k, e := range x {
			c[k] = rCopy(e)
		}
		return c
	case []any:
		c := make([]any, len(x))
		for i, e := range x {
			c[i] = rCopy(e)
		}
		return c
	}
	return v
}

func rSettings() ConfigProviderSettings {
	return ConfigProviderSettings{ResolverSettings: confmap.ResolverSettings{
		URIs:              []string{"mem:x"},
		ProviderFactories: []confmap.ProviderFactory{confmap.NewProviderFactory(func(confmap.ProviderSettings) confmap.Provider { return rProvider{} })},
	}}
}

func rGenDoc(r *vRand) map[string]any {
	pick := func(pool []string, must string) []string {
		var l []string
		if must != "" {
			l = append(l, must)
		}
		for _, s := range pool {
			if r.Bool() {
				l = append(l, s)
			}
		}
		return l
	}
	anyl := func(l []string) []any {
		a := make([]any, len(l))
		for i := range l {
			a[i] = l[i]
		}
		return a
	}
	sec := func(ids []string) map[string]any {
		m := map[string]any{}
		for _, id := range ids {
			m[id] = nil
		}
		return m
	}
	exps := pick([]string{"nop/extra", "nop/b"}, "nop")
	recs := pick([]string{"nop/r2"}, "nop")
	procs := pick([]string{"nop", "nop/p2"}, "")
	ext := map[string]any{}
	if r.Bool() {
		ext["endpoint"] = "e" + strconv.Itoa(r.Intn(5)) + ":1"
	}
	if hs := pick([]string{"h1", "h2", "h3"}, ""); len(hs) > 0 {
		h := map[string]any{}
		for _, k := range hs {
			h[k] = "v" + strconv.Itoa(r.Intn(3))
		}
		ext["headers"] = h
	}
	if ts := pick([]string{"t1", "t2"}, ""); len(ts) > 0 {
		ext["tags"] = anyl(ts)
	}
	if r.Bool() {
		ext["sub"] = map[string]any{"mode": "m" + strconv.Itoa(r.Intn(3))}
	}
	exts := map[string]any{"cw": ext}
	svcExt := []string{"cw"}
	if r.Bool() {
		exts["nop"] = nil
		svcExt = append(svcExt, "nop")
	}
	doc := map[string]any{
		"receivers":  sec(recs),
		"exporters":  sec(exps),
		"extensions": exts,
		"service": map[string]any{
			"telemetry":  map[string]any{"metrics": map[string]any{"level": "none"}, "logs": map[string]any{"level": "error"}},
			"extensions": anyl(svcExt),
			"pipelines": map[string]any{"traces": map[string]any{
				"receivers": anyl(recs), "processors": anyl(procs), "exporters": anyl(exps)}},
		},
	}
	if len(procs) > 0 {
		doc["processors"] = sec(procs)
	}
	return doc
}

// rBreak plants one mistake that only VALIDATION finds (the document still decodes): a dangling or
// duplicated reference, an empty exporter list, an undefined service extension
func rBreak(r *vRand, doc map[string]any) string {
	svc := doc["service"].(map[string]any)
	tr := svc["pipelines"].(map[string]any)["traces"].(map[string]any)
	switch r.Intn(4) {
	case 0:
		tr["exporters"] = append(tr["exporters"].([]any), "nop/undefined")
		return "dangling exporter"
	case 1:
		tr["processors"] = []any{"nop", "nop"}
		doc["processors"] = map[string]any{"nop": nil}
		return "duplicate processor"
	case 2:
		tr["exporters"] = []any{}
		return "no exporters"
	}
	svc["extensions"] = append(svc["extensions"].([]any), "nop/ghost")
	return "undefined extension"
}

func rCv(v any) string {
	if v == nil {
		return "CNull"
	}
	rv := reflect.ValueOf(v)
	switch rv.Kind() {
	case reflect.Map:
		if rv.Type().Key().Kind() != reflect.String {
			return "CScalar " + vStr("<map>")
		}
		var ks []string
		for _, k := range rv.MapKeys() {
			ks = append(ks, k.String())
		}
		sort.Strings(ks)
		it := make([]string, len(ks))
		for i, k := range ks {
			it[i] = "(" + vStr(k) + ", " + rCv(rv.MapIndex(reflect.ValueOf(k).Convert(rv.Type().Key())).Interface()) + ")"
		}
		return "CMap " + vList(it)
	case reflect.Slice, reflect.Array:
		it := make([]string, rv.Len())
		for i := range it {
			it[i] = rCv(rv.Index(i).Interface())
		}
		return "CList " + vList(it)
	case reflect.Ptr, reflect.Interface:
		if rv.IsNil() {
			return "CNull"
		}
		return rCv(rv.Elem().Interface())
	}
	s := fmt.Sprint(v)
	for _, c := range s {
		if c < 32 || c > 126 || c == '"' {
			return "CScalar " + vStr("<unprintable>")
		}
	}
	return "CScalar " + vStr(s)
}

// rExpected: the effective configuration of the document the provider holds now, computed without
// any collector: typed configuration from a fresh provider, marshalled into a fresh Conf
func rExpected(f Factories) (map[string]any, error) {
	cp, err := NewConfigProvider(rSettings())
	if err != nil {
		return nil, err
	}
	cfg, err := cp.Get(context.Background(), f)
	if err != nil {
		return nil, err
	}
	c := confmap.New()
	if err := c.Marshal(cfg); err != nil {
		return nil, err
	}
	return c.ToStringMap(), nil
}

func rDryRun(col *Collector) (err error) {
	defer func() {
		if rec := recover(); rec != nil {
			err = fmt.Errorf("PANIC in DryRun: %v", rec)
		}
	}()
	return col.DryRun(context.Background())
}

func rWait(cond func() bool) bool {
	deadline := time.Now().Add(60 * time.Second)
	for time.Now().Before(deadline) {
		if cond() {
			return true
		}
		time.Sleep(5 * time.Millisecond)
	}
	return cond()
}

func rFlatKeys(m any, pre string, out map[string]bool) {
	if mm, ok := m.(map[string]any); ok {
		for k, v := range mm {
			out[pre+k] = true
			rFlatKeys(v, pre+k+"::", out)
		}
	}
}

func TestVerifC13Reload(t *testing.T) {
	out := vOpen()
	defer out.Close()
	r := vNewRand(0xC13F)
	f, err := rFactories()
	if err != nil {
		t.Fatal(err)
	}
	for i, total := 0, vBudget(10, 6); i < total; i++ {
		loads := 2 + r.Intn(3)
		badAt := -1 // the load (never the first) that gets a configuration which does not validate
		if r.Intn(2) == 0 {
			badAt = 1 + r.Intn(loads-1)
		}
		runErr := make(chan error, 1)
		rMu.Lock()
		rSeen = nil
		rMu.Unlock()
		var want, encAll []map[string]any
		var valid []bool
		ended := false
		var col *Collector
		var wg sync.WaitGroup
		ok := true
		for k := 0; k < loads && ok; k++ {
			rDocMu.Lock()
			rDoc = rGenDoc(r)
			why := ""
			if k == badAt {
				why = rBreak(r, rDoc)
			}
			rDocMu.Unlock()
			exp, err := rExpected(f)
			if err != nil {
				t.Fatalf("generated configuration does not load: %v", err)
			}
			// `otelcol validate` (Collector.DryRun) on the same document: accepts iff nothing is wrong
			if dcol, derr := NewCollector(CollectorSettings{BuildInfo: component.NewDefaultBuildInfo(),
				Factories: func() (Factories, error) { return f, nil }, ConfigProviderSettings: rSettings()}); derr == nil {
				verr := rDryRun(dcol)
				if (verr != nil) != (why != "") || verr != nil && strings.HasPrefix(verr.Error(), "PANIC") {
					out.Oracle("dryrun-verdict", "(CReload [] [])", fmt.Sprintf("DryRun returned %v for a configuration with mistake %q", verr, why))
				}
				out.Stat("reload.dryrun."+map[bool]string{true: "rejects", false: "accepts"}[verr != nil], 1)
			}
			valid = append(valid, why == "")
			encAll = append(encAll, exp)
			if why != "" {
				// a reload to a configuration that does not validate must be refused: the watcher is not
				// notified again and Run returns the error
				before := rSeenLen()
				col.signalsChannel <- syscall.SIGHUP
				var rerr error
				select {
				case rerr = <-runErr:
				case <-time.After(60 * time.Second):
				}
				if rerr == nil || rSeenLen() != before || !strings.Contains(rerr.Error(), "invalid configuration") {
					out.Oracle("invalid-reload-accepted", "(CReload [] [])", fmt.Sprintf("reload %d to a configuration with %s: Run error %v, watcher notified %d more time(s)", k, why, rerr, rSeenLen()-before))
				}
				out.Stat("reload.invalid", 1)
				ended = true
				break
			}
			want = append(want, exp)
			if k == 0 {
				col, err = NewCollector(CollectorSettings{BuildInfo: component.NewDefaultBuildInfo(),
					Factories: func() (Factories, error) { return f, nil }, ConfigProviderSettings: rSettings()})
				if err != nil {
					t.Fatal(err)
				}
				wg.Add(1)
				go func() {
					defer wg.Done()
					defer func() {
						if rec := recover(); rec != nil {
							runErr <- fmt.Errorf("PANIC in the collector: %v", rec)
						}
					}()
					runErr <- col.Run(context.Background())
				}()
			} else {
				col.signalsChannel <- syscall.SIGHUP
			}
			if !rWait(func() bool { return rSeenLen() >= k+1 && col.GetState() == StateRunning }) {
				out.Oracle("reload-timeout", "(CReload [] [])", fmt.Sprintf("load %d: the watcher was not notified within 60 s (state %v)", k, col.GetState()))
				ok = false
			}
		}
		if col != nil {
			col.Shutdown()
			wg.Wait()
			if !ended {
				if err := <-runErr; err != nil {
					out.Oracle("collector-run-error", "(CReload [] [])", err.Error())
				}
			}
		}
		if !ok {
			continue
		}
		rMu.Lock()
		seen := append([]map[string]any(nil), rSeen...)
		rMu.Unlock()
		var encs, obs []string
		for k := range encAll {
			encs = append(encs, vPair(vBool(valid[k]), rCv(encAll[k])))
		}
		for k := range seen {
			obs = append(obs, rCv(seen[k]))
		}
		term := "(CReload " + vList(encs) + " " + vList(obs) + ")"
		if len(seen) != len(want) {
			out.Oracle("reload-count", term, fmt.Sprintf("%d loads, the watcher was notified %d times", len(want), len(seen)))
		}
		for k := 0; k < len(want) && k < len(seen); k++ {
			if rCv(seen[k]) != rCv(want[k]) {
				// name what is stale / missing
				wk, sk := map[string]bool{}, map[string]bool{}
				rFlatKeys(want[k], "", wk)
				rFlatKeys(seen[k], "", sk)
				var stale, missing []string
				for key := range sk {
					if !wk[key] {
						stale = append(stale, key)
					}
				}
				for key := range wk {
					if !sk[key] {
						missing = append(missing, key)
					}
				}
				sort.Strings(stale)
				sort.Strings(missing)
				out.Oracle("effective-config-not-current", term, fmt.Sprintf("after load %d of %d the watcher's effective configuration is not that of the configuration loaded last: keys no longer configured %v, keys missing %v", k+1, len(want), strings.Join(stale, ","), strings.Join(missing, ",")))
			}
		}
		out.Case(len(want) > 1, term)
		out.Stat("reload.cases", 1)
		out.Stat("reload.loads", len(want))
	}
}
