// C13 correspondence harness, part 4: the effective configuration as HANDED to the extensions.
// Extensions.NotifyConfig is run on generated effective configurations with several extensions,
// some implementing extensioncapabilities.ConfigWatcher, each of which changes (Merge) the Conf it
// was handed — it owns it.  Every watcher must have been handed exactly the effective
// configuration, and the collector's own Conf must be intact afterwards.
// Injected into /repo/service/extensions by `go test -overlay`; never written into /repo.
package extensions

import (
	"context"
	"fmt"
	"reflect"
	"sort"
	"strconv"
	"testing"

	"go.opentelemetry.io/collector/component"
	"go.opentelemetry.io/collector/confmap"
	"go.opentelemetry.io/collector/extension"
)

type nMut struct {
	path []string
	val  string
}

type nPlain struct{}

func (nPlain) Start(context.Context, component.Host) error { return nil }
func (nPlain) Shutdown(context.Context) error              { return nil }

type nWatcher struct {
	nPlain
	muts []nMut
	got  map[string]any
	conf *confmap.Conf
	err  error
}

func (w *nWatcher) NotifyConfig(_ context.Context, conf *confmap.Conf) error {
	w.conf = conf
	w.got = conf.ToStringMap()
	for _, m := range w.muts {
		var v any = m.val
		for i := len(m.path) - 1; i >= 0; i-- {
			v = map[string]any{m.path[i]: v}
		}
		if err := conf.Merge(confmap.NewFromStringMap(v.(map[string]any))); err != nil {
			w.err = err
		}
	}
	return nil
}

var _ extension.Extension = (*nWatcher)(nil)

var nKeys = []string{"receivers", "exporters", "service", "otlp", "endpoint", "headers", "timeout", "k1"}

func nGen(r *vRand, depth int) map[string]any {
	m := map[string]any{}
	for i, n := 0, 1+r.Intn(3); i < n; i++ {
		k := nKeys[r.Intn(len(nKeys))]
		if depth > 0 && r.Intn(2) == 0 {
			m[k] = nGen(r, depth-1)
		} else {
			m[k] = "v" + strconv.Itoa(r.Intn(100))
		}
	}
	return m
}

func nPaths(m map[string]any, pre []string, out *[][]string) {
	for k, v := range m {
		p := append(append([]string(nil), pre...), k)
		*out = append(*out, p)
		if mm, ok := v.(map[string]any); ok {
			nPaths(mm, p, out)
		}
	}
}

func nCv(v any) string {
	switch x := v.(type) {
	case nil:
		return "CNull"
	case map[string]any:
		var ks []string
		for k := range x {
			ks = append(ks, k)
		}
		sort.Strings(ks)
		it := make([]string, len(ks))
		for i, k := range ks {
			it[i] = "(" + vStr(k) + ", " + nCv(x[k]) + ")"
		}
		return "CMap " + vList(it)
	case []any:
		it := make([]string, len(x))
		for i, e := range x {
			it[i] = nCv(e)
		}
		return "CList " + vList(it)
	}
	return "CScalar " + vStr(fmt.Sprint(v))
}

func nPath(p []string) string {
	it := make([]string, len(p))
	for i, s := range p {
		it[i] = vStr(s)
	}
	return vList(it)
}

func TestVerifC13Notify(t *testing.T) {
	out := vOpen()
	defer out.Close()
	r := vNewRand(0xC13D)
	for i, total := 0, vBudget(120, 10); i < total; i++ {
		eff := nGen(r, 2)
		conf := confmap.NewFromStringMap(eff)
		want := conf.ToStringMap()
		var paths [][]string
		nPaths(want, nil, &paths)
		sort.Slice(paths, func(a, b int) bool { return fmt.Sprint(paths[a]) < fmt.Sprint(paths[b]) })
		n := 1 + r.Intn(4)
		bes := &Extensions{extMap: map[component.ID]extension.Extension{}, reporter: &nopReporter{}}
		var ws []*nWatcher
		var exts []string
		for k := 0; k < n; k++ {
			id := component.MustNewIDWithName("w", "i"+strconv.Itoa(k))
			bes.extensionIDs = append(bes.extensionIDs, id)
			if r.Intn(4) == 0 {
				bes.extMap[id] = nPlain{}
				exts = append(exts, "None")
				continue
			}
			w := &nWatcher{}
			var ms []string
			for j, c := 0, r.Intn(4); j < c; j++ {
				var p []string
				if len(paths) > 0 && r.Intn(3) != 0 {
					p = append([]string(nil), paths[r.Intn(len(paths))]...) // overwrite something that is there
					if r.Intn(3) == 0 {
						p = append(p, "added")
					}
				} else {
					p = []string{"annotation" + strconv.Itoa(r.Intn(3))}
				}
				m := nMut{p, "changed-by-" + strconv.Itoa(k)}
				w.muts = append(w.muts, m)
				ms = append(ms, vPair(nPath(m.path), "CScalar "+vStr(m.val)))
			}
			bes.extMap[id] = w
			ws = append(ws, w)
			exts = append(exts, "(Some "+vList(ms)+")")
		}
		err := bes.NotifyConfig(context.Background(), conf)
		term := "(CNotify (" + nCv(want) + ") " + vList(exts) + " "
		if err != nil {
			out.Oracle("notify-error", term+"[] CNull)", err.Error())
			continue
		}
		var obs []string
		for k, w := range ws {
			if w.err != nil {
				out.Oracle("notify-error", term+"[] CNull)", w.err.Error())
			}
			if !reflect.DeepEqual(w.got, want) {
				out.Oracle("watcher-handed-foreign-changes", term+"[] CNull)", fmt.Sprintf("watcher %d of %d was handed %v, the effective configuration is %v", k, len(ws), w.got, want))
			}
			if w.conf == conf {
				out.Oracle("watchers-share-conf", term+"[] CNull)", fmt.Sprintf("watcher %d was handed the collector's own Conf", k))
			}
			for k2 := 0; k2 < k; k2++ {
				if ws[k2].conf == w.conf {
					out.Oracle("watchers-share-conf", term+"[] CNull)", fmt.Sprintf("watchers %d and %d were handed the same Conf object", k2, k))
				}
			}
			obs = append(obs, vPair(nCv(w.got), nCv(w.conf.ToStringMap())))
		}
		after := conf.ToStringMap()
		if !reflect.DeepEqual(after, want) {
			out.Oracle("collector-conf-changed", term+"[] CNull)", fmt.Sprintf("the collector's Conf is %v after NotifyConfig, was %v", after, want))
		}
		out.Case(len(ws) > 1, term+vList(obs)+" ("+nCv(after)+"))")
		out.Stat("notify.cases", 1)
		out.Stat("notify.watchers."+strconv.Itoa(len(ws)), 1)
	}
}
