// C13 translator T3b (validate grids): every built-in Validate rule over numeric / boolean / enumerated
// settings is RUN on a finite grid of those settings (through the real loader, so the values are decoded
// exactly as a user's would be) and the verdicts are written to coq/Generated/C13ValidateGrid.v, where
// coq/C13/ValidateRules.v states each rule by hand and proves (named obligation, vm_compute) that it
// gives the dumped verdict at every grid point.  Run by props/C13/check.py translate.
package main

import (
	"context"
	"encoding/json"
	"fmt"
	"os"
	"reflect"
	"strings"
	"testing"
	"time"

	"go.opentelemetry.io/collector/confmap"
	"go.opentelemetry.io/collector/confmap/provider/yamlprovider"
	"go.opentelemetry.io/collector/otelcol"
)

type gAbsentT struct{}

var gAbsent = gAbsentT{}

type gAxis struct {
	key  []string // key path below the struct position
	vals []any    // written value (gAbsent = key not written)
	enc  []int64  // the coordinate in the Coq table
}

type gSpec struct {
	name  string   // Coq identifier suffix
	kind  string   // section
	typ   string   // component type
	steps []string // key path of the struct position inside the component
	rtyp  string   // reflect type name of the struct whose Validate is called
	base  map[string]any
	axes  []gAxis
}

func gSecs(l ...int64) ([]any, []int64) {
	v := make([]any, len(l))
	for i, s := range l {
		v[i] = fmt.Sprintf("%ds", s)
	}
	return v, l
}
func gInts(l ...int64) ([]any, []int64) {
	v := make([]any, len(l))
	for i, s := range l {
		v[i] = s
	}
	return v, l
}
func gBools() ([]any, []int64) { return []any{false, true}, []int64{0, 1} }
func gMilli(l ...int64) ([]any, []int64) {
	v := make([]any, len(l))
	for i, s := range l {
		v[i] = float64(s) / 1000
	}
	return v, l
}
func ax(key string, v []any, e []int64) gAxis { return gAxis{strings.Split(key, "::"), v, e} }

func gSpecs() []gSpec {
	var s []gSpec
	a := func(key string) func([]any, []int64) gAxis {
		return func(v []any, e []int64) gAxis { return ax(key, v, e) }
	}
	otlp := map[string]any{"endpoint": "localhost:4317"}
	s = append(s, gSpec{"backoff", "exporters", "otlp", []string{"retry_on_failure"}, "configretry.BackOffConfig", otlp, []gAxis{
		a("enabled")(gBools()), a("initial_interval")(gSecs(-1, 0, 5)), a("randomization_factor")(gMilli(-500, 0, 500, 1000, 1500)),
		a("multiplier")(gMilli(-1000, 0, 1500)), a("max_interval")(gSecs(-1, 0, 30)), a("max_elapsed_time")(gSecs(-1, 0, 3, 20, 300))}})
	s = append(s, gSpec{"timeout", "exporters", "otlp", nil, "internal.TimeoutConfig", otlp, []gAxis{a("timeout")(gSecs(-1, 0, 5))}})
	s = append(s, gSpec{"queue", "exporters", "otlp", []string{"sending_queue"}, "queuebatch.Config", otlp, []gAxis{
		a("enabled")(gBools()), a("num_consumers")(gInts(-1, 0, 10)), a("queue_size")(gInts(-1, 0, 100)),
		ax("storage", []any{gAbsent, "file_storage"}, []int64{0, 1}), a("wait_for_result")(gBools()),
		ax("sizer", []any{"requests", "items", "bytes"}, []int64{0, 1, 2}),
		ax("batch", []any{gAbsent, map[string]any{"flush_timeout": "1s"}}, []int64{0, 1})}})
	s = append(s, gSpec{"batchcfg", "exporters", "otlp", []string{"sending_queue", "batch"}, "queuebatch.BatchConfig",
		map[string]any{"endpoint": "localhost:4317", "sending_queue": map[string]any{"sizer": "items"}}, []gAxis{
			a("flush_timeout")(gSecs(-1, 0, 1)), a("min_size")(gInts(-1, 0, 10)), a("max_size")(gInts(-1, 0, 5, 10, 20))}})
	s = append(s, gSpec{"batcher", "exporters", "otlp", []string{"batcher"}, "internal.BatcherConfig", otlp, []gAxis{
		a("enabled")(gBools()), a("flush_timeout")(gSecs(-1, 0, 1)), a("min_size")(gInts(-3, 0, 10)), a("max_size")(gInts(-1, 0, 5, 20))}})
	s = append(s, gSpec{"grpcserver", "receivers", "otlp", []string{"protocols", "grpc"}, "configgrpc.ServerConfig", nil, []gAxis{
		a("max_recv_msg_size_mib")(gInts(0, 4, 8796093022208)), a("read_buffer_size")(gInts(-1, 0, 1)), a("write_buffer_size")(gInts(-1, 0, 1))}})
	s = append(s, gSpec{"batchproc", "processors", "batch", nil, "batchprocessor.Config", nil, []gAxis{
		a("send_batch_size")(gInts(0, 10)), a("send_batch_max_size")(gInts(0, 5, 10, 20)), a("timeout")(gSecs(-1, 0, 1)),
		ax("metadata_keys", []any{gAbsent, []any{"a"}, []any{"a", "A"}}, []int64{0, 1, 2})}})
	ver := []any{gAbsent, "1.0", "1.1", "1.2", "1.3", "9.9"}
	verE := []int64{0, 10, 11, 12, 13, 99}
	s = append(s, gSpec{"tls", "exporters", "otlp", []string{"tls"}, "configtls.Config", otlp, []gAxis{
		ax("min_version", ver, verE), ax("max_version", ver, verE),
		ax("ca_file", []any{gAbsent, "ca.pem"}, []int64{0, 1}), ax("ca_pem", []any{gAbsent, "PEM"}, []int64{0, 1})}})
	return s
}

func gLoad(doc any) (cfg *otelcol.Config, err error) {
	defer func() {
		if r := recover(); r != nil {
			cfg, err = nil, fmt.Errorf("PANIC: %v", r)
		}
	}()
	f, err := components()
	if err != nil {
		return nil, err
	}
	js, _ := json.Marshal(doc)
	cp, err := otelcol.NewConfigProvider(otelcol.ConfigProviderSettings{ResolverSettings: confmap.ResolverSettings{
		URIs: []string{"yaml:" + string(js)}, ProviderFactories: []confmap.ProviderFactory{yamlprovider.NewFactory()}, DefaultScheme: "yaml"}})
	if err != nil {
		return nil, err
	}
	ctx, cancel := context.WithTimeout(context.Background(), 60*time.Second)
	defer cancel()
	return cp.Get(ctx, f)
}

func gSetPath(m map[string]any, path []string, v any) {
	for _, k := range path[:len(path)-1] {
		c, ok := m[k].(map[string]any)
		if !ok {
			c = map[string]any{}
			m[k] = c
		}
		m = c
	}
	m[path[len(path)-1]] = v
}

func gCopy(v any) any {
	if m, ok := v.(map[string]any); ok {
		c := map[string]any{}
		for k, x := range m {
			c[k] = gCopy(x)
		}
		return c
	}
	return v
}

// gFind returns the first value of the named struct type inside v (fields, pointers, interfaces)
func gFind(v reflect.Value, typ string, depth int) (reflect.Value, bool) {
	if depth > 8 {
		return v, false
	}
	switch v.Kind() {
	case reflect.Ptr, reflect.Interface:
		if v.IsNil() {
			return v, false
		}
		return gFind(v.Elem(), typ, depth+1)
	case reflect.Struct:
		if v.Type().String() == typ && v.CanAddr() {
			return v, true
		}
		for i := 0; i < v.NumField(); i++ {
			if v.Type().Field(i).PkgPath != "" {
				continue
			}
			if r, ok := gFind(v.Field(i), typ, depth+1); ok {
				return r, true
			}
		}
	}
	return v, false
}

type gValidator interface{ Validate() error }

func TestVerifC13Grid(t *testing.T) {
	outp := os.Getenv("VERIF_C13_GRID_V")
	if outp == "" {
		t.Fatal("VERIF_C13_GRID_V not set")
	}
	var b strings.Builder
	b.WriteString("(* GENERATED by translator T3b (harness/C13/grid_dump_test.go, run against the current /repo tree by\n")
	b.WriteString("   props/C13/check.py translate) — do not edit.  For each built-in Validate rule: the verdict of the real\n")
	b.WriteString("   method at every point of a finite grid of its settings: 1 = accepted, 0 = Validate error, 2 = rejected\n")
	b.WriteString("   when decoding. *)\nFrom Coq Require Import ZArith List.\nImport ListNotations.\nLocal Open Scope Z_scope.\n\n")
	for _, sp := range gSpecs() {
		idx := make([]int, len(sp.axes))
		var rows []string
		for {
			body := map[string]any{}
			if sp.base != nil {
				body = gCopy(sp.base).(map[string]any)
			}
			pos := map[string]any{}
			if len(sp.steps) > 0 {
				if ex, ok := body[sp.steps[0]]; ok && len(sp.steps) == 1 {
					pos = ex.(map[string]any)
				}
			}
			var coord []string
			for i, axx := range sp.axes {
				v := axx.vals[idx[i]]
				coord = append(coord, fmt.Sprintf("(%d)", axx.enc[idx[i]]))
				if v == gAbsent {
					continue
				}
				gSetPath(body, append(append([]string(nil), sp.steps...), axx.key...), gCopy(v))
			}
			_ = pos
			doc := map[string]any{sp.kind: map[string]any{sp.typ: body}}
			verdict := 2
			if cfg, err := gLoad(doc); err == nil {
				var sec map[any]any
				_ = sec
				var comp any
				switch sp.kind {
				case "exporters":
					for _, c := range cfg.Exporters {
						comp = c
					}
				case "receivers":
					for _, c := range cfg.Receivers {
						comp = c
					}
				case "processors":
					for _, c := range cfg.Processors {
						comp = c
					}
				}
				v, ok := gFind(reflect.ValueOf(comp), sp.rtyp, 0)
				if !ok {
					t.Fatalf("%s: no value of type %s in the loaded configuration (%v)", sp.name, sp.rtyp, doc)
				}
				val, isV := v.Addr().Interface().(gValidator)
				if !isV {
					t.Fatalf("%s: %s has no Validate", sp.name, sp.rtyp)
				}
				if val.Validate() == nil {
					verdict = 1
				} else {
					verdict = 0
				}
			}
			rows = append(rows, fmt.Sprintf("([%s], %d)", strings.Join(coord, "; "), verdict))
			// next index
			k := len(idx) - 1
			for k >= 0 {
				idx[k]++
				if idx[k] < len(sp.axes[k].vals) {
					break
				}
				idx[k] = 0
				k--
			}
			if k < 0 {
				break
			}
		}
		var keys []string
		for _, axx := range sp.axes {
			keys = append(keys, strings.Join(axx.key, "::"))
		}
		fmt.Fprintf(&b, "(* %s.Validate at %s::%s %s; coordinates: %s *)\n", sp.rtyp, sp.kind, sp.typ, strings.Join(sp.steps, "::"), strings.Join(keys, ", "))
		fmt.Fprintf(&b, "Definition grid_%s : list (list Z * Z) := [\n  %s\n].\n\n", sp.name, strings.Join(rows, ";\n  "))
	}
	if err := os.WriteFile(outp, []byte(b.String()), 0o644); err != nil {
		t.Fatal(err)
	}
}
