// C13 correspondence harness, part 3e: whole configuration documents through the full loader and
// xconfmap.Validate — pipeline reference lists written in every way YAML allows (omitted, null,
// explicit empty list, populated; resolving references of every kind before and after a mistake).
package main

import (
	"encoding/json"
	"fmt"
	"regexp"
	"sort"
	"strconv"
	"strings"

	"go.opentelemetry.io/collector/confmap/xconfmap"
)

var hSeen = map[string]bool{}

var hTypeRe = regexp.MustCompile(`unknown type: "[^"]*" for id: "([^"]*)"`)

var hDupRe = regexp.MustCompile(`^references processor "([A-Za-z0-9_/]*)" multiple times$`)

func hStrs(ss []string) string {
	it := make([]string, len(ss))
	for i, s := range ss {
		it[i] = vStr(s)
	}
	return vList(it)
}

func dWhole(out *vOut, r *vRand) {
	recvDef := []string{"nop", "nop/2", "otlp"}
	expDef := []string{"nop", "debug", "debug/b"}
	connDef := []string{"forward", "forward/x"}
	procDef := []string{"batch", "batch/big"}
	undef := []string{"nop/missing", "otlp/zz", "forward/none", "batch/none", "debug/none"}
	for i, total := 0, vBudget(120, 10); i < total; i++ {
		doc := map[string]any{
			"receivers":  map[string]any{"nop": map[string]any{}, "nop/2": nil, "otlp": map[string]any{"protocols": map[string]any{"grpc": nil}}},
			"exporters":  map[string]any{"nop": nil, "debug": map[string]any{}, "debug/b": map[string]any{"verbosity": "detailed"}},
			"connectors": map[string]any{"forward": nil, "forward/x": map[string]any{}},
			"processors": map[string]any{"batch": nil, "batch/big": map[string]any{"send_batch_size": 100}},
		}
		pipes := map[string]any{}
		type pd struct {
			id         string
			rs, ps, es []string
		}
		var pds []pd
		mistakes := 0
		pids := []string{"traces", "metrics/a", "logs"}
		for k, n := 0, 1+r.Intn(3); k < n; k++ {
			p := pd{id: pids[k]}
			body := map[string]any{}
			gen := func(key string, defs []string, conns []string, allowEmpty bool) []string {
				form := r.Pick(1, 1, 1, 9) // omitted, null, [], populated
				if !allowEmpty && form < 3 && r.Intn(3) != 0 {
					form = 3
				}
				switch form {
				case 0:
					out.Stat("whole."+key+".omitted", 1)
					return nil
				case 1:
					body[key] = nil
					out.Stat("whole."+key+".null", 1)
					return nil
				case 2:
					body[key] = []any{}
					out.Stat("whole."+key+".emptylist", 1)
					return nil
				}
				var l []string
				for j, m := 0, 1+r.Pick(3, 4, 2, 1); j < m; j++ {
					switch r.Pick(5, 4, 2) {
					case 0:
						l = append(l, defs[r.Intn(len(defs))])
					case 1:
						if len(conns) > 0 {
							l = append(l, conns[r.Intn(len(conns))])
						} else {
							l = append(l, defs[r.Intn(len(defs))])
						}
					default:
						if r.Intn(3) == 0 {
							l = append(l, undef[r.Intn(len(undef))])
						} else {
							l = append(l, defs[r.Intn(len(defs))])
						}
					}
				}
				al := make([]any, len(l))
				for j := range l {
					al[j] = l[j]
				}
				body[key] = al
				return l
			}
			p.rs = gen("receivers", recvDef, connDef, false)
			p.ps = gen("processors", procDef, nil, true)
			p.es = gen("exporters", expDef, connDef, false)
			pipes[p.id] = body
			pds = append(pds, p)
		}
		doc["service"] = map[string]any{"pipelines": pipes}
		// a component of a type that does not exist (a misspelt type), in a random section
		badID := ""
		if r.Intn(4) == 0 {
			kind := []string{"receivers", "exporters", "connectors", "processors", "extensions"}[r.Intn(5)]
			badID = []string{"nopp", "otlpp/x", "batchh", "forwardd/a", "zpagess"}[r.Intn(5)]
			if kind == "extensions" {
				doc[kind] = map[string]any{badID: nil}
			} else {
				doc[kind].(map[string]any)[badID] = map[string]any{}
			}
			js2, _ := json.Marshal(doc)
			_, lerr := dLoad(doc)
			obsT := "None"
			if lerr == nil {
				out.Oracle("unknown-type-accepted", "(CTypes [] [] None)", "a component of a type that does not exist is silently accepted: "+string(js2))
			} else if m := hTypeRe.FindStringSubmatch(lerr.Error()); m != nil {
				obsT = "(Some " + vStr(m[1]) + ")"
				if m[1] != badID {
					out.Oracle("unknown-type-wrong-entry", "(CTypes [] [] None)", "the error names "+m[1]+" instead of "+badID+": "+lerr.Error())
				}
			} else {
				out.Oracle("unknown-type-not-named", "(CTypes [] [] None)", "load failed without naming the unknown type: "+lerr.Error())
			}
			known := map[string][]string{"receivers": {"nop", "otlp"}, "exporters": {"debug", "nop", "otlp", "otlphttp"}, "connectors": {"forward"},
				"processors": {"batch", "memory_limiter"}, "extensions": {"memory_limiter", "zpages"}}[kind]
			var ids []string
			for id := range doc[kind].(map[string]any) {
				ids = append(ids, id)
			}
			sort.Strings(ids)
			out.Case(true, "(CTypes "+hStrs(known)+" "+hStrs(ids)+" "+obsT+")")
			out.Stat("whole.unknown-type."+kind, 1)
			continue
		}
		js, _ := json.Marshal(doc)
		// ---- independent expectation
		in := func(s string, l ...[]string) bool {
			for _, ll := range l {
				for _, x := range ll {
					if x == s {
						return true
					}
				}
			}
			return false
		}
		var why []string
		for _, p := range pds {
			if len(p.rs) == 0 {
				why = append(why, p.id+": no receivers")
			}
			if len(p.es) == 0 {
				why = append(why, p.id+": no exporters")
			}
			for _, s := range p.rs {
				if !in(s, recvDef, connDef) {
					why = append(why, p.id+": dangling receiver "+s)
				}
			}
			for _, s := range p.es {
				if !in(s, expDef, connDef) {
					why = append(why, p.id+": dangling exporter "+s)
				}
			}
			seen := map[string]bool{}
			for _, s := range p.ps {
				if !in(s, procDef) {
					why = append(why, p.id+": dangling processor "+s)
				}
				if seen[s] {
					why = append(why, p.id+": duplicate processor "+s)
				}
				seen[s] = true
			}
		}
		mistakes = len(why)
		cfg, err := dLoad(doc)
		term := "(CPipe (mkPipe " + vStr("x") + " " + vStr("traces") + " [] [] []) None)"
		if err != nil {
			out.Oracle("valid-setting-rejected", term, "whole configuration does not load: "+string(js)+" => "+err.Error())
			continue
		}
		verr := xconfmap.Validate(cfg)
		switch {
		case mistakes > 0 && verr == nil:
			out.Oracle("mistake-ignored", term, fmt.Sprintf("configuration accepted although %v: %s", why, js))
		case mistakes == 0 && verr != nil:
			out.Oracle("false-rejection", term, fmt.Sprintf("well-formed configuration rejected: %s => %v", js, verr))
		}
		if verr != nil {
			// the shape mistake of EVERY pipeline is reported under its id (first of: no receivers, no
			// exporters, duplicate processor); Config.Validate stops at its first dangling reference, so
			// at least one dangling entry is named when there is any
			dangling := false
			for _, w := range why {
				if strings.Contains(w, "dangling") {
					dangling = true
				}
			}
			if dangling && !strings.Contains(verr.Error(), "which is not configured") {
				out.Oracle("wrong-entry-named", term, fmt.Sprintf("no dangling reference named although %v: %v", why, verr))
			}
			for _, p := range pds {
				pre := "service::pipelines::" + p.id + ": "
				want := ""
				switch {
				case len(p.rs) == 0:
					want = pre + "must have at least one receiver"
				case len(p.es) == 0:
					want = pre + "must have at least one exporter"
				default:
					seen := map[string]bool{}
					for _, s := range p.ps {
						if seen[s] {
							want = pre + "references processor " + strconv.Quote(s) + " multiple times"
							break
						}
						seen[s] = true
					}
				}
				if want != "" && !strings.Contains(verr.Error(), want) {
					out.Oracle("nested-not-reported", term, fmt.Sprintf("%q missing from: %v", want, verr))
				}
			}
		}
		// the loaded pipelines as CPipe cases
		for _, p := range pds {
			for id, pc := range cfg.Service.Pipelines {
				if id.String() != p.id {
					continue
				}
				o := "None"
				if e := pc.Validate(); e != nil {
					switch {
					case e.Error() == "must have at least one receiver":
						o = "(Some EPipeNoRecv)"
					case e.Error() == "must have at least one exporter":
						o = "(Some EPipeNoExp)"
					case hDupRe.MatchString(e.Error()):
						o = "(Some (EDupProc " + vStr(hDupRe.FindStringSubmatch(e.Error())[1]) + "))"
					default:
						out.Oracle("cfg-unclassified", term, e.Error())
						continue
					}
				}
				if ct := "(CPipe (mkPipe " + vStr(p.id) + " " + vStr(id.Signal().String()) + " " + hStrs(p.rs) + " " + hStrs(p.ps) + " " + hStrs(p.es) + ") " + o + ")"; hSeen[ct] {
					continue
				} else {
					hSeen[ct] = true
				}
				out.Case(o != "None", "(CPipe (mkPipe "+vStr(p.id)+" "+vStr(id.Signal().String())+" "+hStrs(p.rs)+" "+hStrs(p.ps)+" "+hStrs(p.es)+") "+o+")")
			}
		}
		out.Stat("whole.cases", 1)
		out.Stat("whole.mistakes."+strconv.Itoa(dMin(mistakes, 3)), 1)
	}
}
