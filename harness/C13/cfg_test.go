// C13 correspondence harness, part 2: otelcol.Config.Validate, pipelines.Config.Validate,
// PipelineConfig.Validate, telemetry.Config.Validate and the complete xconfmap.Validate(cfg) on
// generated otelcol.Config values (dangling / duplicated references, ambiguous ids, empty
// pipelines, unknown signals, nil component configs, failing nested component validators).
// Injected into /repo/otelcol by `go test -overlay`; never written into /repo.
package otelcol

import (
	"errors"
	"fmt"
	"regexp"
	"sort"
	"strconv"
	"strings"
	"testing"

	config "go.opentelemetry.io/contrib/otelconf/v0.3.0"

	"go.opentelemetry.io/collector/component"
	"go.opentelemetry.io/collector/config/configtelemetry"
	"go.opentelemetry.io/collector/confmap/xconfmap"
	"go.opentelemetry.io/collector/featuregate"
	"go.opentelemetry.io/collector/pipeline"
	"go.opentelemetry.io/collector/service"
	"go.opentelemetry.io/collector/service/pipelines"
	"go.opentelemetry.io/collector/service/telemetry"
)

// ---- fake component configs -------------------------------------------------------------------
type cInner struct {
	Bad string `mapstructure:"bad"`
}

func (c *cInner) Validate() error {
	if c.Bad != "" {
		return errors.New(c.Bad)
	}
	return nil
}

type cCfg struct {
	Bad    string   `mapstructure:"bad"`
	Inner  cInner   `mapstructure:"inner"`
	Ptr    *cInner  `mapstructure:"ptr"`
	List   []cInner `mapstructure:"list"`
	hidden cInner
}

func (c *cCfg) Validate() error {
	if c.Bad != "" {
		return errors.New(c.Bad)
	}
	return nil
}

type cNoVal struct{}

// ---- generator ------------------------------------------------------------------------------------
type cProblem struct {
	path string // rendered path prefix ("" = root)
	msg  string // exact message expected at that path ("" = any message naming `names`)
}

type cGen struct {
	r    *vRand
	n    int
	user []cProblem // failing nested validators planted: path -> message (all must be reported)
}

func (g *cGen) umsg() string { g.n++; return "u" + strconv.Itoa(g.n) }

func cUser(m string) string {
	if m == "" {
		return "None"
	}
	return "(Some (EUser " + vStr(m) + "))"
}

func (g *cGen) inner(live bool, path string, pbad int) (cInner, string) {
	m := ""
	if g.r.Intn(100) < pbad {
		m = g.umsg()
		if live {
			g.user = append(g.user, cProblem{path, m})
		}
	}
	return cInner{Bad: m}, "VStruct " + cUser(m) + " [(true, " + vStr("bad") + ", VLeaf None)]"
}

// component returns a component.Config and the Coq term `option (vtree verr)`
func (g *cGen) component(path string, pbad int) (component.Config, string) {
	switch g.r.Pick(2, 2, 8) {
	case 0:
		return nil, "None"
	case 1:
		return &cNoVal{}, "(Some (VStruct None []))"
	}
	c := &cCfg{}
	m := ""
	if g.r.Intn(100) < pbad {
		m = g.umsg()
		c.Bad = m
		g.user = append(g.user, cProblem{path, m})
	}
	var ti, tp, th string
	c.Inner, ti = g.inner(true, path+"::inner", pbad)
	tp = "VPtr VInvalid"
	if g.r.Bool() {
		v, t := g.inner(true, path+"::ptr", pbad)
		c.Ptr = &v
		tp = "VPtr (" + t + ")"
	}
	var tl []string
	for i, k := 0, g.r.Pick(3, 2, 1); i < k; i++ {
		v, t := g.inner(true, path+"::list::"+strconv.Itoa(i), pbad)
		c.List = append(c.List, v)
		tl = append(tl, t)
	}
	c.hidden, th = g.inner(false, path+"::hidden", 50)
	return c, "(Some (VStruct " + cUser(m) + " [(true, " + vStr("bad") + ", VLeaf None); (true, " + vStr("inner") + ", " + ti +
		"); (true, " + vStr("ptr") + ", " + tp + "); (true, " + vStr("list") + ", VSeq None " + vList(tl) + "); (false, " + vStr("hidden") + ", " + th + ")]))"
}

var cIDPool = []string{"ta", "ta/1", "tb", "tb/1", "tc", "td/x"}

func cID(s string) component.ID {
	var id component.ID
	if err := id.UnmarshalText([]byte(s)); err != nil {
		panic(err)
	}
	return id
}

func (g *cGen) section(name string, density int, pbad int) (map[component.ID]component.Config, string, map[string]bool) {
	var m map[component.ID]component.Config
	var ts []string
	have := map[string]bool{} // id -> non-nil?
	for _, s := range cIDPool {
		if g.r.Intn(100) >= density {
			continue
		}
		if m == nil {
			m = map[component.ID]component.Config{}
		}
		c, t := g.component(name+"::"+s, pbad)
		m[cID(s)] = c
		have[s] = c != nil
		ts = append(ts, "("+vStr(s)+", "+t+")")
	}
	if m == nil && g.r.Bool() {
		m = map[component.ID]component.Config{} // the section key written with an empty body
	}
	return m, vList(ts), have
}

// prefer: ids (e.g. the connectors) chosen with extra weight, so that every kind of resolving
// reference occurs before and after every kind of mistake
var cPrefer []string

// ids of the section a reference list refers to whose configuration is nil
var cNilIDs []string

func (g *cGen) refs(defined []string, n int, pDangling int, pDup int) ([]component.ID, []string) {
	var ids []component.ID
	var ss []string
	if n == 0 && g.r.Bool() {
		// written as an explicit empty list: empty but not nil (what confmap's zero-slice hook yields)
		ids = []component.ID{}
	}
	for i := 0; i < n; i++ {
		var s string
		switch {
		case len(ss) > 0 && g.r.Intn(100) < pDup:
			s = ss[g.r.Intn(len(ss))]
		case len(defined) == 0 || g.r.Intn(100) < pDangling:
			s = cIDPool[g.r.Intn(len(cIDPool))]
		case len(cNilIDs) > 0 && g.r.Intn(100) < 45:
			s = cNilIDs[g.r.Intn(len(cNilIDs))] // defined, but with a nil configuration
		case len(cPrefer) > 0 && g.r.Intn(100) < 40:
			s = cPrefer[g.r.Intn(len(cPrefer))]
		default:
			s = defined[g.r.Intn(len(defined))]
		}
		ss = append(ss, s)
	}
	// one mistake planted at a random position of an otherwise generated list
	if pDangling > 0 && len(ss) >= 2 && g.r.Intn(100) < 25 {
		isDef := map[string]bool{}
		for _, d := range defined {
			isDef[d] = true
		}
		var undef []string
		for _, c := range cIDPool {
			if !isDef[c] {
				undef = append(undef, c)
			}
		}
		if len(undef) > 0 {
			ss[g.r.Intn(len(ss))] = undef[g.r.Intn(len(undef))]
		}
	}
	for _, s := range ss {
		ids = append(ids, cID(s))
	}
	return ids, ss
}

func cStrs(ss []string) string {
	it := make([]string, len(ss))
	for i, s := range ss {
		it[i] = vStr(s)
	}
	return vList(it)
}

func cKeys(m map[string]bool) []string {
	var k []string
	for s := range m {
		k = append(k, s)
	}
	sort.Strings(k)
	return k
}

// ---- classification of error messages into the model's verr -----------------------------------
type cPat struct {
	re *regexp.Regexp
	f  func(m []string) string
}

const cIDre = `([A-Za-z0-9_/]*)`

var cPats = []cPat{
	{regexp.MustCompile(`^empty configuration file$`), func([]string) string { return "EEmpty" }},
	{regexp.MustCompile(`^no receiver configuration specified in config$`), func([]string) string { return "ENoReceivers" }},
	{regexp.MustCompile(`^no exporter configuration specified in config$`), func([]string) string { return "ENoExporters" }},
	{regexp.MustCompile(`^connectors::` + cIDre + `: ambiguous ID: Found both "` + cIDre + `" exporter and "` + cIDre + `" connector\. Change one of the components' IDs to eliminate ambiguity \(e\.g\. rename "` + cIDre + `" connector to "` + cIDre + `/connector"\)$`),
		func(m []string) string {
			if m[1] != m[2] || m[1] != m[3] || m[1] != m[4] || m[1] != m[5] {
				return ""
			}
			return "(EAmbigExp " + vStr(m[1]) + ")"
		}},
	{regexp.MustCompile(`^connectors::` + cIDre + `: ambiguous ID: Found both "` + cIDre + `" receiver and "` + cIDre + `" connector\. Change one of the components' IDs to eliminate ambiguity \(e\.g\. rename "` + cIDre + `" connector to "` + cIDre + `/connector"\)$`),
		func(m []string) string {
			if m[1] != m[2] || m[1] != m[3] || m[1] != m[4] || m[1] != m[5] {
				return ""
			}
			return "(EAmbigRecv " + vStr(m[1]) + ")"
		}},
	{regexp.MustCompile(`^service::extensions: references extension "` + cIDre + `" which is not configured$`), func(m []string) string { return "(EExtRef " + vStr(m[1]) + ")" }},
	{regexp.MustCompile(`^service::pipelines::` + cIDre + `: references receiver "` + cIDre + `" which is not configured$`), func(m []string) string { return "(ERecvRef " + vStr(m[1]) + " " + vStr(m[2]) + ")" }},
	{regexp.MustCompile(`^service::pipelines::` + cIDre + `: references processor "` + cIDre + `" which is not configured$`), func(m []string) string { return "(EProcRef " + vStr(m[1]) + " " + vStr(m[2]) + ")" }},
	{regexp.MustCompile(`^service::pipelines::` + cIDre + `: references exporter "` + cIDre + `" which is not configured$`), func(m []string) string { return "(EExpRef " + vStr(m[1]) + " " + vStr(m[2]) + ")" }},
	{regexp.MustCompile(`^service must have at least one pipeline$`), func([]string) string { return "ENoPipelines" }},
	{regexp.MustCompile(`^pipeline "` + cIDre + `": profiling signal support is at alpha level, gated under the "service\.profilesSupport" feature gate$`), func(m []string) string { return "(EProfilesGate " + vStr(m[1]) + ")" }},
	{regexp.MustCompile(`^pipeline "` + cIDre + `": unknown signal "([a-z]*)"$`), func(m []string) string { return "(EUnknownSignal " + vStr(m[1]) + " " + vStr(m[2]) + ")" }},
	{regexp.MustCompile(`^must have at least one receiver$`), func([]string) string { return "EPipeNoRecv" }},
	{regexp.MustCompile(`^must have at least one exporter$`), func([]string) string { return "EPipeNoExp" }},
	{regexp.MustCompile(`^references processor "` + cIDre + `" multiple times$`), func(m []string) string { return "(EDupProc " + vStr(m[1]) + ")" }},
	{regexp.MustCompile(`^collector telemetry metrics reader should exist when metric level is not none$`), func([]string) string { return "ETelNoReaders" }},
	{regexp.MustCompile(`^service::telemetry::metrics::views can only be set when service::telemetry::metrics::level is detailed$`), func([]string) string { return "ETelViews" }},
	{regexp.MustCompile(`^(u[0-9]+)$`), func(m []string) string { return "(EUser " + vStr(m[1]) + ")" }},
}

func cClassify(msg string) string {
	for _, p := range cPats {
		if m := p.re.FindStringSubmatch(msg); m != nil {
			return p.f(m)
		}
	}
	return ""
}

func cOptErr(err error) (string, bool) {
	if err == nil {
		return "None", true
	}
	c := cClassify(err.Error())
	if c == "" {
		return "", false
	}
	return "(Some " + c + ")", true
}

// cSplit splits one rendered pathError line into (path, verr term)
func cSplit(line string) (string, string, bool) {
	if c := cClassify(line); c != "" {
		return "", c, true
	}
	i := strings.Index(line, ": ")
	if i < 0 {
		return "", "", false
	}
	c := cClassify(line[i+2:])
	if c == "" {
		return "", "", false
	}
	return line[:i], c, true
}

func cPathTerm(p string) string {
	if p == "" {
		return "[]"
	}
	return cStrs(strings.Split(p, "::"))
}

func cSetGate(t *testing.T, id string, v bool) {
	if err := featuregate.GlobalRegistry().Set(id, v); err != nil {
		t.Fatal(err)
	}
}

func TestVerifC13Cfg(t *testing.T) {
	out := vOpen()
	defer out.Close()
	r := vNewRand(0xC13B)
	defer cSetGate(t, "service.AllowNoPipelines", false)
	defer cSetGate(t, "service.profilesSupport", false)

	// PipelineConfig.Validate alone: all short reference lists
	for i, total := 0, vBudget(60, 8); i < total; i++ {
		g := &cGen{r: r}
		pc := &pipelines.PipelineConfig{}
		var rs, ps, es []string
		pc.Receivers, rs = g.refs(nil, r.Pick(1, 3, 2), 100, 20)
		pc.Processors, ps = g.refs(nil, r.Pick(2, 2, 3, 3, 2), 100, 35)
		pc.Exporters, es = g.refs(nil, r.Pick(1, 3, 2), 100, 20)
		err := pc.Validate()
		o, ok := cOptErr(err)
		term := "mkPipe " + vStr("traces") + " " + vStr("traces") + " " + cStrs(rs) + " " + cStrs(ps) + " " + cStrs(es)
		if !ok {
			out.Oracle("cfg-unclassified", term, "PipelineConfig.Validate: "+err.Error())
			continue
		}
		// direct oracle
		dup := ""
		seen := map[string]bool{}
		for _, p := range ps {
			if seen[p] && dup == "" {
				dup = p
			}
			seen[p] = true
		}
		wantErr := len(rs) == 0 || len(es) == 0 || dup != ""
		if wantErr != (err != nil) {
			out.Oracle("pipe-shape", term, fmt.Sprintf("receivers=%v processors=%v exporters=%v but Validate()=%v", rs, ps, es, err))
		}
		if len(rs) > 0 && len(es) > 0 && dup != "" && !strings.Contains(err.Error(), strconv.Quote(dup)) {
			out.Oracle("pipe-shape-name", term, fmt.Sprintf("duplicate processor %q not named in %v", dup, err))
		}
		out.Case(err != nil, "(CPipe ("+term+") "+o+")")
		out.Stat("pipe.cases", 1)
		out.Stat("pipe.result."+strings.SplitN(strings.Trim(o, "()"), " ", 3)[0], 1)
	}

	for i, total := 0, vBudget(300, 12); i < total; i++ {
		g := &cGen{r: r}
		// profile of this case: mostly valid, with mistakes planted at a chosen rate
		profile := r.Pick(3, 4, 2, 1)
		// the first 16 cases enumerate the WHOLE domain of telemetry.Config.Validate (4 levels x
		// readers present/absent x views set/unset) on otherwise mistake-free configurations: a change
		// of that (translated) function is then met by a concrete configuration on which it shows
		telExhaustive := i < 16
		if telExhaustive {
			profile = 0
		}
		pDang, pDup, pBad, pAmb := 0, 0, 0, 0
		switch profile {
		case 1:
			pDang, pDup, pBad, pAmb = 6, 6, 4, 10
		case 2:
			pDang, pDup, pBad, pAmb = 25, 20, 15, 30
		case 3:
			pDang, pDup, pBad, pAmb = 50, 30, 30, 50
		}
		gNoPipe := r.Intn(5) == 0
		gProf := r.Intn(3) == 0
		cSetGate(t, "service.AllowNoPipelines", gNoPipe)
		cSetGate(t, "service.profilesSupport", gProf)

		cfg := &Config{}
		dens := 55
		if r.Intn(12) == 0 {
			dens = 0
		}
		var tr, te, tp, tc, tx string
		var hr, he, hp, hc, hx map[string]bool
		cfg.Receivers, tr, hr = g.section("receivers", dens, pBad)
		cfg.Exporters, te, he = g.section("exporters", dens, pBad)
		cfg.Processors, tp, hp = g.section("processors", dens, pBad)
		// connectors: avoid ids used by receivers/exporters unless ambiguity is wanted
		{
			var ts []string
			hc = map[string]bool{}
			for _, s := range cIDPool {
				if r.Intn(100) >= 30 || dens == 0 && r.Intn(4) != 0 {
					continue
				}
				_, inR := hr[s]
				_, inE := he[s]
				if (inR || inE) && r.Intn(100) >= pAmb {
					continue
				}
				if cfg.Connectors == nil {
					cfg.Connectors = map[component.ID]component.Config{}
				}
				c, tt := g.component("connectors::"+s, pBad)
				cfg.Connectors[cID(s)] = c
				hc[s] = c != nil
				ts = append(ts, "("+vStr(s)+", "+tt+")")
			}
			tc = vList(ts)
		}
		cfg.Extensions, tx, hx = g.section("extensions", dens*2/3, pBad)

		nonnil := func(m map[string]bool) []string {
			var k []string
			for _, s := range cKeys(m) {
				if m[s] {
					k = append(k, s)
				}
			}
			return k
		}
		recvLike := append(cKeys(hr), cKeys(hc)...)
		expLike := append(cKeys(he), cKeys(hc)...)

		var se []string
		nilOf := func(m map[string]bool) []string {
			var k []string
			for _, s := range cKeys(m) {
				if !m[s] {
					k = append(k, s)
				}
			}
			return k
		}
		cNilIDs = nilOf(hx)
		cfg.Service.Extensions, se = g.refs(nonnil(hx), r.Pick(2, 3, 2), pDang, pDup)
		cNilIDs = nil

		// pipelines
		var tpipes []string
		type pdesc struct {
			id, sig    string
			rs, ps, es []string
		}
		var pds []pdesc
		np := r.Pick(1, 4, 3, 1)
		pidPool := []string{"traces", "metrics", "logs", "traces/2", "logs/b", "profiles", "profiles/x", "foo", "bar/z"}
		used := map[string]bool{}
		for k := 0; k < np; k++ {
			var pid string
			if r.Intn(100) < 12+pDang/2 {
				pid = pidPool[5+r.Intn(4)]
			} else {
				pid = pidPool[r.Intn(5)]
			}
			if used[pid] {
				continue
			}
			used[pid] = true
			var id pipeline.ID
			if err := id.UnmarshalText([]byte(pid)); err != nil {
				t.Fatal(err)
			}
			pc := &pipelines.PipelineConfig{}
			d := pdesc{id: pid, sig: id.Signal().String()}
			nr, ne := 1+r.Pick(4, 4, 2, 1), 1+r.Pick(4, 4, 2, 1)
			cPrefer = cKeys(hc)
			if r.Intn(100) < pDang/2 {
				nr = 0
			}
			if r.Intn(100) < pDang/2 {
				ne = 0
			}
			pc.Receivers, d.rs = g.refs(recvLike, nr, pDang, pDup)
			cNilIDs = nilOf(hp)
			pc.Processors, d.ps = g.refs(nonnil(hp), r.Pick(3, 3, 2, 1), pDang, pDup)
			cNilIDs = nil
			pc.Exporters, d.es = g.refs(expLike, ne, pDang, pDup)
			cPrefer = nil
			if pc.Receivers != nil && len(pc.Receivers) == 0 || pc.Exporters != nil && len(pc.Exporters) == 0 {
				out.Stat("cfg.pipeline.empty-nonnil-list", 1)
			}
			for k, s := range d.rs {
				if _, isConn := hc[s]; isConn && k+1 < len(d.rs) {
					out.Stat("cfg.pipeline.ref-after-connector", 1)
				}
			}
			if cfg.Service.Pipelines == nil {
				cfg.Service.Pipelines = pipelines.Config{}
			}
			cfg.Service.Pipelines[id] = pc
			pds = append(pds, d)
			tpipes = append(tpipes, "mkPipe "+vStr(pid)+" "+vStr(d.sig)+" "+cStrs(d.rs)+" "+cStrs(d.ps)+" "+cStrs(d.es))
		}

		// telemetry
		lvl := []configtelemetry.Level{configtelemetry.LevelNone, configtelemetry.LevelBasic, configtelemetry.LevelNormal, configtelemetry.LevelDetailed}[r.Intn(4)]
		nread := 1
		if r.Intn(100) < 8+pDang/2 {
			nread = 0
		}
		views := r.Intn(100) < 8+pDang/2
		if telExhaustive {
			lvl = []configtelemetry.Level{configtelemetry.LevelNone, configtelemetry.LevelBasic, configtelemetry.LevelNormal, configtelemetry.LevelDetailed}[i%4]
			nread = (i / 4) % 2
			views = i/8 == 1
			out.Stat("cfg.telemetry.exhaustive", 1)
		}
		cfg.Service.Telemetry = telemetry.Config{Metrics: telemetry.MetricsConfig{Level: lvl,
			MeterProvider: config.MeterProvider{Readers: make([]config.MetricReader, nread)}}}
		if views {
			cfg.Service.Telemetry.Metrics.Views = []config.View{}
		}
		_ = service.Config{}

		term := "(mkGates " + vBool(gNoPipe) + " " + vBool(gProf) + ") (mkCfg " + tr + " " + te + " " + tp + " " + tc + " " + tx + " " +
			cStrs(se) + " " + vList(tpipes) + " " + vZ(int64(lvl)) + " " + vNat(nread) + " " + vBool(views) + ")"

		// ---- run the implementation
		errCfg := cfg.Validate()
		errPipes := cfg.Service.Pipelines.Validate()
		errAll := xconfmap.Validate(cfg)
		oc, ok1 := cOptErr(errCfg)
		op, ok2 := cOptErr(errPipes)
		if !ok1 || !ok2 {
			out.Oracle("cfg-unclassified", term, fmt.Sprintf("Config.Validate=%v pipelines.Validate=%v", errCfg, errPipes))
			continue
		}
		var lines []string
		if errAll != nil {
			lines = strings.Split(errAll.Error(), "\n")
		}
		var obs []string
		okAll := true
		got := map[string]int{}
		rootErrs := 0
		for _, ln := range lines {
			p, c, ok := cSplit(ln)
			if !ok {
				okAll = false
				out.Oracle("cfg-unclassified", term, "xconfmap.Validate line: "+ln)
				break
			}
			if p == "" {
				rootErrs++
			}
			obs = append(obs, vPair(cPathTerm(p), c))
			got[ln]++
		}
		if !okAll {
			continue
		}

		// ---- direct oracle (independent of the Coq model): which mistakes does this config contain?
		var problems []string
		empty := len(hr)+len(he)+len(hp)+len(hc)+len(hx) == 0
		if empty {
			problems = append(problems, "empty")
		}
		if !gNoPipe && (len(hr) == 0 || len(he) == 0) {
			problems = append(problems, "no-receivers-or-exporters")
		}
		var refProblems []string // entries a root error may legitimately name
		for _, s := range cKeys(hc) {
			if _, ok := he[s]; ok {
				refProblems = append(refProblems, "connectors::"+s+": ambiguous")
			} else if _, ok := hr[s]; ok {
				refProblems = append(refProblems, "connectors::"+s+": ambiguous")
			}
		}
		for _, s := range se {
			if !hx[s] {
				refProblems = append(refProblems, "references extension "+strconv.Quote(s))
			}
		}
		for _, d := range pds {
			for _, s := range d.rs {
				_, a := hr[s]
				_, b := hc[s]
				if !a && !b {
					refProblems = append(refProblems, "service::pipelines::"+d.id+": references receiver "+strconv.Quote(s))
				}
			}
			for _, s := range d.ps {
				if !hp[s] {
					refProblems = append(refProblems, "service::pipelines::"+d.id+": references processor "+strconv.Quote(s))
				}
			}
			for _, s := range d.es {
				_, a := he[s]
				_, b := hc[s]
				if !a && !b {
					refProblems = append(refProblems, "service::pipelines::"+d.id+": references exporter "+strconv.Quote(s))
				}
			}
		}
		// nested problems that must ALL be reported with their path
		must := map[string]int{}
		for _, u := range g.user {
			must[u.path+": "+u.msg]++
		}
		for _, d := range pds {
			pp := "service::pipelines::" + d.id
			switch {
			case len(d.rs) == 0:
				must[pp+": must have at least one receiver"]++
			case len(d.es) == 0:
				must[pp+": must have at least one exporter"]++
			default:
				seen := map[string]bool{}
				for _, s := range d.ps {
					if seen[s] {
						must[pp+": references processor "+strconv.Quote(s)+" multiple times"]++
						break
					}
					seen[s] = true
				}
			}
		}
		sigProblem := !gNoPipe && len(pds) == 0
		for _, d := range pds {
			switch d.sig {
			case "traces", "metrics", "logs":
			case "profiles":
				if !gProf {
					sigProblem = true
				}
			default:
				sigProblem = true
			}
		}
		telProblem := (lvl != configtelemetry.LevelNone && nread == 0) || (views && lvl != configtelemetry.LevelDetailed)

		telSeen := errAll != nil && strings.Contains(errAll.Error(), "service::telemetry: ")
		if telSeen != telProblem {
			out.Oracle("telemetry-rule", term, fmt.Sprintf("level=%d readers=%d views=%v: telemetry error reported=%v, expected=%v", lvl, nread, views, telSeen, telProblem))
		}
		anyProblem := len(problems) > 0 || len(refProblems) > 0 || len(must) > 0 || sigProblem || telProblem
		if anyProblem && errAll == nil {
			out.Oracle("mistake-ignored", term, fmt.Sprintf("validation passed although: %v %v %v sig=%v tel=%v", problems, refProblems, must, sigProblem, telProblem))
		}
		if !anyProblem && errAll != nil {
			out.Oracle("false-rejection", term, "well-formed configuration rejected: "+errAll.Error())
		}
		var mk []string
		for k := range must {
			mk = append(mk, k)
		}
		sort.Strings(mk)
		for _, k := range mk {
			if got[k] < must[k] {
				out.Oracle("nested-not-reported", term, "invalid nested setting not reported: "+k)
			}
		}
		if (len(problems) > 0 || len(refProblems) > 0) && errCfg == nil {
			out.Oracle("reference-ignored", term, fmt.Sprintf("Config.Validate()=nil although %v %v", problems, refProblems))
		}
		if errCfg != nil && len(problems) == 0 {
			named := false
			for _, p := range refProblems {
				if strings.HasPrefix(errCfg.Error(), p) || strings.Contains(errCfg.Error(), p) {
					named = true
				}
			}
			if !named {
				out.Oracle("wrong-entry-named", term, "Config.Validate error names no offending entry: "+errCfg.Error())
			}
		}
		if (errPipes != nil) != sigProblem {
			out.Oracle("pipelines-signal", term, fmt.Sprintf("pipelines.Config.Validate()=%v, signal problem expected=%v", errPipes, sigProblem))
		}

		out.Case(errAll != nil, "(CCfg "+term+" "+oc+" "+op+" "+vList(obs)+")")
		out.Stat("cfg.cases", 1)
		out.Stat("cfg.profile."+strconv.Itoa(profile), 1)
		out.Stat("cfg.rootkind."+cKind(oc), 1)
		out.Stat("cfg.pipeskind."+cKind(op), 1)
		out.Stat(fmt.Sprintf("cfg.errors.%d", cMin(len(lines), 6)), 1)
		for _, ln := range lines {
			_, c, _ := cSplit(ln)
			out.Stat("cfg.errkind."+cKind("(Some "+c+")"), 1)
		}
	}
}

func cKind(o string) string {
	if o == "None" {
		return "None"
	}
	s := strings.TrimPrefix(o, "(Some ")
	s = strings.Trim(s, "()")
	return strings.SplitN(s, " ", 2)[0]
}

func cMin(a, b int) int {
	if a < b {
		return a
	}
	return b
}
