// C13 correspondence harness, part 5: the encoder (confmap/internal/mapstructure/encoder.go with
// confmap.encoderConfig's hooks, i.e. what Conf.Marshal runs) on synthetic values that exercise every
// shape: nil / non-nil pointers, interfaces, slices (nil, empty, populated), arrays, maps with
// string / TextMarshaler / non-string keys, opaque and plain TextMarshalers, omitempty on every
// kind, "-" and untagged fields, nested structs.
// Injected into /repo/confmap by `go test -overlay`; never written into /repo.
package confmap

import (
	"fmt"
	"reflect"
	"sort"
	"strconv"
	"strings"
	"testing"

	encoder "go.opentelemetry.io/collector/confmap/internal/mapstructure"
)

type eOpaque string // configopaque-like

func (eOpaque) MarshalText() ([]byte, error) { return []byte("[REDACTED]"), nil }

// like configopaque.String: every rendering of the value itself is the marker.  This matters for
// ARRAY elements, which the encoder does not pass through its hooks (they keep their Go type).
func (eOpaque) String() string { return "[REDACTED]" }

type eText struct{ V string } // a struct that is a TextMarshaler: the hook turns it into its text

func (t eText) MarshalText() ([]byte, error) { return []byte("T:" + t.V), nil }

type eKey struct{ K string }

func (k eKey) MarshalText() ([]byte, error) { return []byte(k.K), nil }

type eInner struct {
	A string  `mapstructure:"a"`
	O eOpaque `mapstructure:"o,omitempty"`
	N int     `mapstructure:"n,omitempty"`
}

type eCfg struct {
	S        string             `mapstructure:"s"`
	SO       string             `mapstructure:"so,omitempty"`
	B        bool               `mapstructure:"b,omitempty"`
	I        int                `mapstructure:"i"`
	Op       eOpaque            `mapstructure:"op"`
	OpO      eOpaque            `mapstructure:"opo,omitempty"`
	T        eText              `mapstructure:"t"`
	P        *eInner            `mapstructure:"p"`
	PO       *eInner            `mapstructure:"po,omitempty"`
	In       eInner             `mapstructure:"in,omitempty"`
	If       any                `mapstructure:"if"`
	L        []eInner           `mapstructure:"l"`
	LO       []string           `mapstructure:"lo,omitempty"`
	LOp      []eOpaque          `mapstructure:"lop"`
	Ar       [2]string          `mapstructure:"ar"`
	ArO      [2]eOpaque         `mapstructure:"aro,omitempty"`
	M        map[string]eOpaque `mapstructure:"m"`
	MI       map[string]*eInner `mapstructure:"mi,omitempty"`
	MK       map[eKey]int       `mapstructure:"mk,omitempty"`
	MB       map[int]string     `mapstructure:"mb,omitempty"`
	Skip     string             `mapstructure:"-"`
	Untagged string
}

type eGen struct {
	r *vRand
	n int
}

func (g *eGen) str() string { g.n++; return "x" + strconv.Itoa(g.n) }
func (g *eGen) sec() string { g.n++; return "SECRET-" + strconv.Itoa(g.n) }

func eLeaf(zero bool, s string) string { return "XLeaf " + vBool(zero) + " " + vStr(s) }
func eOpq(zero bool, s string) string  { return "XOpaque " + vBool(zero) + " " + vStr(s) }
func eFld(name string, omit bool, t string) string {
	return "(" + vStr(name) + ", " + vBool(omit) + ", " + t + ")"
}

func (g *eGen) maybe(s string) string {
	if g.r.Intn(3) == 0 {
		return ""
	}
	return s
}

func (g *eGen) inner() (eInner, string) {
	v := eInner{A: g.maybe(g.str()), O: eOpaque(g.maybe(g.sec()))}
	if g.r.Bool() {
		v.N = 1 + g.r.Intn(9)
	}
	return v, "XStruct " + vList([]string{eFld("a", false, eLeaf(v.A == "", v.A)), eFld("o", true, eOpq(v.O == "", string(v.O))),
		eFld("n", true, eLeaf(v.N == 0, strconv.Itoa(v.N)))})
}

func (g *eGen) cfg() (*eCfg, string) {
	c := &eCfg{}
	var fs []string
	c.S = g.maybe(g.str())
	fs = append(fs, eFld("s", false, eLeaf(c.S == "", c.S)))
	c.SO = g.maybe(g.str())
	fs = append(fs, eFld("so", true, eLeaf(c.SO == "", c.SO)))
	c.B = g.r.Bool()
	fs = append(fs, eFld("b", true, eLeaf(!c.B, strconv.FormatBool(c.B))))
	c.I = g.r.Intn(3)
	fs = append(fs, eFld("i", false, eLeaf(c.I == 0, strconv.Itoa(c.I))))
	c.Op = eOpaque(g.maybe(g.sec()))
	fs = append(fs, eFld("op", false, eOpq(c.Op == "", string(c.Op))))
	c.OpO = eOpaque(g.maybe(g.sec()))
	fs = append(fs, eFld("opo", true, eOpq(c.OpO == "", string(c.OpO))))
	c.T = eText{g.maybe(g.str())}
	fs = append(fs, eFld("t", false, eLeaf(c.T.V == "", "T:"+c.T.V)))
	ptr := func(name string, omit bool) *eInner {
		if g.r.Bool() {
			fs = append(fs, eFld(name, omit, "XNil"))
			return nil
		}
		v, t := g.inner()
		if g.r.Intn(3) == 0 { // a non-nil pointer to an all-zero struct: not IsZero, so not omitted
			v, t = eInner{}, "XStruct "+vList([]string{eFld("a", false, eLeaf(true, "")), eFld("o", true, eOpq(true, "")), eFld("n", true, eLeaf(true, "0"))})
		}
		fs = append(fs, eFld(name, omit, "XPtr ("+t+")"))
		return &v
	}
	c.P = ptr("p", false)
	c.PO = ptr("po", true)
	{
		var t string
		c.In, t = g.inner()
		if g.r.Intn(3) == 0 {
			c.In = eInner{}
			t = "XStruct " + vList([]string{eFld("a", false, eLeaf(true, "")), eFld("o", true, eOpq(true, "")), eFld("n", true, eLeaf(true, "0"))})
		}
		fs = append(fs, eFld("in", true, t))
	}
	switch g.r.Intn(5) {
	case 0:
		fs = append(fs, eFld("if", false, "XNil"))
	case 1:
		v, t := g.inner()
		c.If = v
		fs = append(fs, eFld("if", false, "XPtr ("+t+")"))
	case 2:
		v, t := g.inner()
		c.If = &v
		fs = append(fs, eFld("if", false, "XPtr (XPtr ("+t+"))"))
	case 3:
		s := g.str()
		c.If = s
		fs = append(fs, eFld("if", false, "XPtr ("+eLeaf(false, s)+")"))
	case 4:
		s := g.sec()
		c.If = eOpaque(s)
		fs = append(fs, eFld("if", false, "XPtr ("+eOpq(false, s)+")"))
	}
	{
		var ts []string
		k := g.r.Pick(2, 1, 2, 1) // nil, empty, 1, 2
		if k == 1 {
			c.L = []eInner{}
		}
		for i := 0; i < k-1; i++ {
			v, t := g.inner()
			c.L = append(c.L, v)
			ts = append(ts, t)
		}
		fs = append(fs, eFld("l", false, "XList "+vBool(k == 0)+" "+vList(ts)))
	}
	{
		var ts []string
		k := g.r.Pick(2, 1, 2)
		if k == 1 {
			c.LO = []string{}
		}
		if k == 2 {
			s := g.str()
			c.LO = []string{s, ""}
			ts = []string{eLeaf(false, s), eLeaf(true, "")}
		}
		fs = append(fs, eFld("lo", true, "XList "+vBool(k == 0)+" "+vList(ts)))
	}
	{
		var ts []string
		for i, k := 0, g.r.Intn(3); i < k; i++ {
			s := g.sec()
			c.LOp = append(c.LOp, eOpaque(s))
			ts = append(ts, eOpq(false, s))
		}
		fs = append(fs, eFld("lop", false, "XList "+vBool(c.LOp == nil)+" "+vList(ts)))
	}
	arr := func(opaque bool) (string, string, string) {
		a, b := g.maybe(g.str()), g.maybe(g.str())
		if opaque {
			a, b = g.maybe(g.sec()), g.maybe(g.sec())
		}
		e := func(s string) string { return "(" + vBool(opaque) + ", " + vBool(s == "") + ", " + vStr(s) + ")" }
		return a, b, "XArray " + vList([]string{e(a), e(b)})
	}
	{
		a, b, t := arr(false)
		c.Ar = [2]string{a, b}
		fs = append(fs, eFld("ar", false, t))
		a, b, t = arr(true)
		if g.r.Bool() {
			a, b = "", ""
			t = "XArray " + vList([]string{"(true, true, " + vStr("") + ")", "(true, true, " + vStr("") + ")"})
		}
		c.ArO = [2]eOpaque{eOpaque(a), eOpaque(b)}
		fs = append(fs, eFld("aro", true, t))
	}
	{
		var ts []string
		k := g.r.Pick(2, 1, 2, 2)
		if k >= 1 {
			c.M = map[string]eOpaque{}
		}
		for i := 0; i < k-1; i++ {
			s := g.sec()
			key := "h" + strconv.Itoa(i)
			c.M[key] = eOpaque(s)
			ts = append(ts, "(KStr "+vStr(key)+", "+eOpq(false, s)+")")
		}
		fs = append(fs, eFld("m", false, "XMap "+vBool(k == 0)+" "+vList(ts)))
	}
	{
		var ts []string
		k := g.r.Pick(3, 2, 1)
		if k >= 1 {
			c.MI = map[string]*eInner{}
		}
		if k == 1 {
			v, t := g.inner()
			c.MI["one"] = &v
			ts = append(ts, "(KStr "+vStr("one")+", XPtr ("+t+"))")
		}
		if k == 2 {
			c.MI["nilentry"] = nil
			ts = append(ts, "(KStr "+vStr("nilentry")+", XNil)")
		}
		fs = append(fs, eFld("mi", true, "XMap "+vBool(k == 0)+" "+vList(ts)))
	}
	{
		var ts []string
		if g.r.Intn(3) == 0 {
			c.MK = map[eKey]int{{K: "tk"}: 5}
			ts = append(ts, "(KText "+vStr("tk")+", "+eLeaf(false, "5")+")")
		}
		fs = append(fs, eFld("mk", true, "XMap "+vBool(c.MK == nil)+" "+vList(ts)))
	}
	{
		var ts []string
		switch g.r.Intn(6) {
		case 0:
			c.MB = map[int]string{7: "seven"} // a non-string key: Marshal fails
			ts = append(ts, "(KBad, "+eLeaf(false, "seven")+")")
		case 1:
			c.MB = map[int]string{} // empty but not nil: not omitted, nothing to encode
		}
		fs = append(fs, eFld("mb", true, "XMap "+vBool(c.MB == nil)+" "+vList(ts)))
	}
	c.Skip = g.str()
	fs = append(fs, eFld("-", false, eLeaf(false, c.Skip)))
	c.Untagged = g.maybe(g.str())
	fs = append(fs, eFld("untagged", false, eLeaf(c.Untagged == "", c.Untagged)))
	return c, "XStruct " + vList(fs)
}

// eRender prints what the encoder returned as a cv term; values that are not maps / slices / nil are
// rendered as a consumer would see them (%v: an opaque element of an array renders as the marker)
func eRender(v any) string {
	if v == nil {
		return "CNull"
	}
	rv := reflect.ValueOf(v)
	switch rv.Kind() {
	case reflect.Map:
		m, ok := v.(map[string]any)
		if !ok {
			return "CScalar " + vStr("<foreign map>")
		}
		var ks []string
		for k := range m {
			ks = append(ks, k)
		}
		sort.Strings(ks)
		it := make([]string, len(ks))
		for i, k := range ks {
			it[i] = "(" + vStr(k) + ", " + eRender(m[k]) + ")"
		}
		return "CMap " + vList(it)
	case reflect.Slice, reflect.Array:
		it := make([]string, rv.Len())
		for i := range it {
			it[i] = eRender(rv.Index(i).Interface())
		}
		return "CList " + vList(it)
	}
	if tm, ok := v.(interface{ MarshalText() ([]byte, error) }); ok {
		b, _ := tm.MarshalText()
		return "CScalar " + vStr(string(b))
	}
	return "CScalar " + vStr(fmt.Sprint(v))
}

func TestVerifC13Enc(t *testing.T) {
	out := vOpen()
	defer out.Close()
	r := vNewRand(0xC13E)
	for i, total := 0, vBudget(120, 10); i < total; i++ {
		g := &eGen{r: r}
		c, term := g.cfg()
		res, err := encoder.New(encoderConfig(c)).Encode(c)
		obs := "None"
		if err == nil {
			obs = "(Some (" + eRender(res) + "))"
			// direct oracle: no secret anywhere in what Marshal hands on, whatever the shape
			conf := New()
			if merr := conf.Marshal(c); merr != nil {
				out.Oracle("effective-config", "(CEnc ("+term+") None)", "Encode succeeds but Marshal fails: "+merr.Error())
			} else if s := fmt.Sprint(conf.ToStringMap()); strings.Contains(s, "SECRET-") {
				out.Oracle("effective-config-secret", "(CEnc ("+term+") "+obs+")", "a secret is visible in the effective configuration: "+s)
			}
			if s := fmt.Sprint(res); strings.Contains(s, "SECRET-") {
				out.Oracle("effective-config-secret", "(CEnc ("+term+") "+obs+")", "a secret is visible in the encoder output: "+s)
			}
			out.Stat("enc.ok", 1)
		} else {
			if c.MB == nil || len(c.MB) == 0 {
				out.Oracle("effective-config", "(CEnc ("+term+") None)", "Encode fails without a non-string key: "+err.Error())
			}
			out.Stat("enc.error", 1)
		}
		out.Case(true, "(CEnc ("+term+") "+obs+")")
		out.Stat("enc.cases", 1)
	}
}
