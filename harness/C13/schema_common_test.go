// C13 translator T3 (cfgschema), shared part: reflect over the configuration types of the built-in
// components (what the *compiler* says about the current source) and describe, per type, which
// keys a struct level accepts: mapstructure tag, squash / remain / "-", kind, element type, custom
// Unmarshal presence.  Used both by the dump (TestVerifC13Schema, run from check.py's translate
// step, writes coq/Generated/C13CfgSchema.v) and by the correspondence harness.
// Injected into /repo/cmd/otelcorecol (package main: it owns components()).
package main

import (
	"encoding"
	"fmt"
	"reflect"
	"sort"
	"strings"

	"go.opentelemetry.io/collector/component"
	"go.opentelemetry.io/collector/confmap"
	"go.opentelemetry.io/collector/otelcol"
)

type sDesc struct {
	Kind    string // leaf | ptr | slice | map | struct
	Leaf    string // leaf flavour: bool int uint float string duration text iface foreign rec other
	Elem    *sDesc
	Rem     bool
	Fields  []sField
	Type    string
	Custom  bool
	Foreign bool // emitted as TLeaf in Coq (custom Unmarshal with a fall-back schema); harness still descends
	HasVal  bool // T or *T has a Validate() error method
	RemGuard bool // has a `,remain` field that is NOT a map: confmap's remainNotMapHookFunc rejects unknown keys
	rt      reflect.Type
}

type sField struct {
	Key    string
	Squash bool
	Omit   bool // omitempty
	GoName string
	Index  int
	T      *sDesc
}

var (
	sTextUnm   = reflect.TypeOf((*encoding.TextUnmarshaler)(nil)).Elem()
	sConfUnm   = reflect.TypeOf((*confmap.Unmarshaler)(nil)).Elem()
	sDuration  = "time.Duration"
	sCustomSet = map[string]bool{}
	sArrays    = map[string]bool{}
	sRemLevels = map[string]*sDesc{}
)

// types whose custom Unmarshal retries with an older schema when the strict decode fails: their
// key acceptance is "v0.3 or v0.2"; the Coq descriptor treats them as opaque (strictness below them
// is checked by the direct oracle only)
func sIsForeign(t reflect.Type) bool {
	return strings.HasSuffix(t.PkgPath(), "service/telemetry/internal/migration")
}

func sDescribe(t reflect.Type, stack []reflect.Type) *sDesc {
	for _, s := range stack {
		if s == t {
			return &sDesc{Kind: "leaf", Leaf: "rec", Type: t.String(), rt: t}
		}
	}
	if t.Kind() != reflect.Ptr && (t.Implements(sTextUnm) || reflect.PointerTo(t).Implements(sTextUnm)) {
		return &sDesc{Kind: "leaf", Leaf: "text", Type: t.String(), rt: t}
	}
	if t.String() == sDuration {
		return &sDesc{Kind: "leaf", Leaf: "duration", Type: t.String(), rt: t}
	}
	switch t.Kind() {
	case reflect.Bool:
		return &sDesc{Kind: "leaf", Leaf: "bool", Type: t.String(), rt: t}
	case reflect.Int, reflect.Int8, reflect.Int16, reflect.Int32, reflect.Int64:
		return &sDesc{Kind: "leaf", Leaf: "int", Type: t.String(), rt: t}
	case reflect.Uint, reflect.Uint8, reflect.Uint16, reflect.Uint32, reflect.Uint64:
		return &sDesc{Kind: "leaf", Leaf: "uint", Type: t.String(), rt: t}
	case reflect.Float32, reflect.Float64:
		return &sDesc{Kind: "leaf", Leaf: "float", Type: t.String(), rt: t}
	case reflect.String:
		return &sDesc{Kind: "leaf", Leaf: "string", Type: t.String(), rt: t}
	case reflect.Interface:
		return &sDesc{Kind: "leaf", Leaf: "iface", Type: t.String(), rt: t}
	case reflect.Ptr:
		return &sDesc{Kind: "ptr", Elem: sDescribe(t.Elem(), stack), Type: t.String(), rt: t}
	case reflect.Slice, reflect.Array:
		if t.Kind() == reflect.Array {
			sArrays[t.String()] = true // the encoder does not encode array elements (no hooks on them)
		}
		if t.Elem().Kind() == reflect.Uint8 {
			return &sDesc{Kind: "leaf", Leaf: "other", Type: t.String(), rt: t}
		}
		return &sDesc{Kind: "slice", Elem: sDescribe(t.Elem(), stack), Type: t.String(), rt: t}
	case reflect.Map:
		return &sDesc{Kind: "map", Elem: sDescribe(t.Elem(), stack), Type: t.String(), rt: t}
	case reflect.Struct:
		d := &sDesc{Kind: "struct", Type: t.String(), rt: t}
		if _, ok := reflect.PointerTo(t).MethodByName("Validate"); ok {
			d.HasVal = true
		}
		if reflect.PointerTo(t).Implements(sConfUnm) {
			d.Custom = true
			sCustomSet[t.String()] = true
		}
		d.Foreign = sIsForeign(t)
		st := append(append([]reflect.Type(nil), stack...), t)
		for i := 0; i < t.NumField(); i++ {
			f := t.Field(i)
			if !f.IsExported() {
				continue
			}
			tag := f.Tag.Get("mapstructure")
			parts := strings.Split(tag, ",")
			key := parts[0]
			if key == "-" {
				continue
			}
			squash, remain, omit := false, false, false
			for _, p := range parts[1:] {
				if p == "omitempty" {
					omit = true
				}
				if p == "squash" {
					squash = true
				}
				if p == "remain" {
					remain = true
				}
			}
			if remain {
				if f.Type.Kind() == reflect.Map {
					d.Rem = true
				} else {
					d.RemGuard = true // guarded by confmap (fix 2d582bf11): behaves as a level without remain
				}
				continue
			}
			if key == "" {
				key = f.Name
			}
			d.Fields = append(d.Fields, sField{Key: key, Squash: squash, Omit: omit, GoName: f.Name, Index: i, T: sDescribe(f.Type, st)})
		}
		if d.RemGuard {
			for _, f := range d.Fields {
				if f.Squash {
					d.RemGuard = false // the guard leaves structs with squashed members to mapstructure
				}
			}
			if d.RemGuard {
				sRemLevels[t.String()] = d
			}
		}
		return d
	}
	return &sDesc{Kind: "leaf", Leaf: "other", Type: t.String(), rt: t}
}

func sCoqStr(s string) string { return "\"" + strings.ReplaceAll(s, "\"", "\"\"") + "\"" }

func (d *sDesc) coq() string {
	switch d.Kind {
	case "ptr":
		return "TPtr (" + d.Elem.coq() + ")"
	case "slice":
		return "TSlice (" + d.Elem.coq() + ")"
	case "map":
		return "TMap (" + d.Elem.coq() + ")"
	case "struct":
		if d.Foreign {
			return "TLeaf"
		}
		var fs []string
		for _, f := range d.Fields {
			sq := "false"
			if f.Squash {
				sq = "true"
			}
			fs = append(fs, "("+sCoqStr(f.Key)+", "+sq+", "+f.T.coq()+")")
		}
		rem := "false"
		if d.Rem {
			rem = "true"
		}
		return "TStruct " + rem + " [" + strings.Join(fs, "; ") + "]"
	}
	return "TLeaf"
}

type sEntry struct {
	Name string // e.g. "receivers/otlp", "service", "top"
	Kind string // receivers | ... | service | top
	Type string // component type
	D    *sDesc
	Def  any // default config (pointer) for components
}

func sSchema() ([]sEntry, error) {
	f, err := components()
	if err != nil {
		return nil, err
	}
	var es []sEntry
	add := func(kind string, typ component.Type, cfg component.Config) {
		t := reflect.TypeOf(cfg)
		for t.Kind() == reflect.Ptr {
			t = t.Elem()
		}
		es = append(es, sEntry{Name: kind + "/" + typ.String(), Kind: kind, Type: typ.String(), D: sDescribe(t, nil), Def: cfg})
	}
	for ty, fa := range f.Receivers {
		add("receivers", ty, fa.CreateDefaultConfig())
	}
	for ty, fa := range f.Processors {
		add("processors", ty, fa.CreateDefaultConfig())
	}
	for ty, fa := range f.Exporters {
		add("exporters", ty, fa.CreateDefaultConfig())
	}
	for ty, fa := range f.Connectors {
		add("connectors", ty, fa.CreateDefaultConfig())
	}
	for ty, fa := range f.Extensions {
		add("extensions", ty, fa.CreateDefaultConfig())
	}
	sort.Slice(es, func(i, j int) bool { return es[i].Name < es[j].Name })
	// service.Config, reached through otelcol.Config (no direct import: `go test -mod=mod` would
	// otherwise rewrite cmd/otelcorecol/go.mod)
	svcField, _ := reflect.TypeOf(otelcol.Config{}).FieldByName("Service")
	es = append(es, sEntry{Name: "service", Kind: "service", D: sDescribe(svcField.Type, nil)})
	// the top level: the keys of otelcol.Config; the sections themselves are opaque here (they are
	// the entries above)
	top := &sDesc{Kind: "struct", Type: "otelcol.Config"}
	tt := reflect.TypeOf(otelcol.Config{})
	for i := 0; i < tt.NumField(); i++ {
		key := strings.Split(tt.Field(i).Tag.Get("mapstructure"), ",")[0]
		top.Fields = append(top.Fields, sField{Key: key, GoName: tt.Field(i).Name, Index: i, T: &sDesc{Kind: "leaf", Leaf: "other"}})
	}
	es = append(es, sEntry{Name: "top", Kind: "top", D: top})
	return es, nil
}

func sCoqFile(es []sEntry) string {
	var b strings.Builder
	b.WriteString("(* GENERATED by translator T3 (harness/C13/schema_*_test.go, run against the current /repo tree by\n")
	b.WriteString("   props/C13/check.py translate) — do not edit.  One descriptor per built-in component config type,\n")
	b.WriteString("   one for service.Config and one for the top level of otelcol.Config. *)\n")
	b.WriteString("From Verif Require Import Common.Base C13.Model.\nFrom Coq Require Import String.\nOpen Scope string_scope.\n\n")
	b.WriteString("Definition schema : list (string * tdesc) := [\n")
	for i, e := range es {
		if i > 0 {
			b.WriteString(";\n")
		}
		fmt.Fprintf(&b, "  (%s, %s)", sCoqStr(e.Name), e.D.coq())
	}
	b.WriteString("\n].\n\n")
	var cs []string
	for c := range sCustomSet {
		cs = append(cs, c)
	}
	sort.Strings(cs)
	b.WriteString("(* every struct type below the descriptors that has a custom Unmarshal(confmap.Unmarshaler) *)\n")
	b.WriteString("Definition custom_types : list string := [")
	for i, c := range cs {
		if i > 0 {
			b.WriteString("; ")
		}
		b.WriteString(sCoqStr(c))
	}
	b.WriteString("].\n")
	var as []string
	for a := range sArrays {
		as = append(as, a)
	}
	sort.Strings(as)
	var rl []string
	for k := range sRemLevels {
		rl = append(rl, k)
	}
	sort.Strings(rl)
	b.WriteString("\n(* struct levels (anywhere below the descriptors, the telemetry subtree included) whose `,remain` field is\n   not a map: confmap's remainNotMapHookFunc makes them reject unknown keys; own keys only, children opaque *)\n")
	b.WriteString("Definition remain_levels : list (string * tdesc) := [")
	for i, k := range rl {
		if i > 0 {
			b.WriteString(";")
		}
		var fs []string
		for _, f := range sRemLevels[k].Fields {
			fs = append(fs, "("+sCoqStr(f.Key)+", false, TLeaf)")
		}
		b.WriteString("\n  (" + sCoqStr("remain-level/"+k) + ", TStruct false [" + strings.Join(fs, "; ") + "])")
	}
	b.WriteString("\n].\n")
	b.WriteString("\n(* array types below the descriptors (the encoder passes arrays through without encoding their elements) *)\n")
	b.WriteString("Definition array_types : list string := [")
	for i, a := range as {
		if i > 0 {
			b.WriteString("; ")
		}
		b.WriteString(sCoqStr(a))
	}
	b.WriteString("].\n")
	return b.String()
}
