// C13 correspondence harness, part 1: xconfmap.Validate's reflective walk on synthetic values
// that exercise every reflect.Kind branch of validate(): struct (value / pointer receiver
// Validate, exported / unexported fields, every tag shape), pointer (nil / non-nil), interface
// (nil / holding values and pointers), slice, array, map (string, Stringer, int and struct
// keys; keys with validators; non-addressable values), leaves with and without Validate.
// Injected into /repo/confmap/xconfmap by `go test -overlay`; never written into /repo.
package xconfmap

import (
	"errors"
	"fmt"
	"sort"
	"strconv"
	"strings"
	"testing"
)

// ---- synthetic types ---------------------------------------------------------------------

type wLeafV int // value-receiver Validate

func (l wLeafV) Validate() error {
	if l < 0 {
		return fmt.Errorf("leafv%d", -int(l))
	}
	return nil
}

type wLeafP string // pointer-receiver Validate

func (l *wLeafP) Validate() error {
	if *l != "" {
		return errors.New(string(*l))
	}
	return nil
}

type wKey struct{ K, Bad string } // Stringer key with a (value receiver) Validate

func (k wKey) String() string { return "K" + k.K }
func (k wKey) Validate() error {
	if k.Bad != "" {
		return errors.New(k.Bad)
	}
	return nil
}

type wSKey struct{ N int } // struct key, no Stringer: "[xconfmap.wSKey key]"

type wSliceV []wLeafV // slice type with Validate: fails when longer than 2

func (s wSliceV) Validate() error {
	if len(s) > 2 {
		return fmt.Errorf("slicev%d", len(s))
	}
	return nil
}

type wMapV map[string]wLeafV // map type with pointer-receiver Validate: fails when it has key "bad"

func (m *wMapV) Validate() error {
	if _, ok := (*m)["bad"]; ok {
		return errors.New("mapv-bad")
	}
	return nil
}

type wNodeV struct { // struct with value-receiver Validate
	Err string `mapstructure:"err"`
	Kid *wNode `mapstructure:"kid,omitempty"`
}

func (n wNodeV) Validate() error {
	if n.Err != "" {
		return errors.New(n.Err)
	}
	return nil
}

// ---- embedded (anonymous) fields: exported type names, so the anonymous field is exported ----
type WEmbV struct { // embedded by value; value-receiver Validate (promoted to a parent without its own)
	EErr string `mapstructure:"eerr"`
}

func (e WEmbV) Validate() error {
	if e.EErr != "" {
		return errors.New(e.EErr)
	}
	return nil
}

type WEmbP struct { // embedded through a pointer; pointer-receiver Validate
	PErr string `mapstructure:"perr"`
	Deep wLeafV `mapstructure:"deep"`
}

func (e *WEmbP) Validate() error {
	if e.PErr != "" {
		return errors.New(e.PErr)
	}
	return nil
}

type WEmbLeaf int // embedded non-struct type with a validator

func (l WEmbLeaf) Validate() error {
	if l < 0 {
		return fmt.Errorf("embleaf%d", -int(l))
	}
	return nil
}

// wPromo has no Validate of its own: WEmbV.Validate is PROMOTED, so callValidateIfPossible on the
// parent runs the embedded validator (reported at the parent's path) and the walk then reports it
// once more at the embedded field's own path.
type wPromo struct {
	WEmbV `mapstructure:",squash"`
	X     wLeafV `mapstructure:"x"`
}

type wPlain struct { // struct without Validate
	A wLeafV `mapstructure:"a"`
	b wLeafV //nolint:unused
	C *wNode
}

type wNode struct { // struct with pointer-receiver Validate
	Err    string            `mapstructure:"err"`
	Kids   []wNode           `mapstructure:"kids"`
	PKids  []*wNode          `mapstructure:"pkids,omitempty"`
	M      map[string]*wNode `mapstructure:"m"`
	MV     map[wKey]wNodeV   `mapstructure:"mv"`
	MI     map[int]wLeafP    `mapstructure:"mi"`
	MS     map[wSKey]wLeafV
	Any    any     `mapstructure:"any"`
	Arr    [2]wLeafV `mapstructure:"arr"`
	Sq     wNodeV  `mapstructure:",squash"`
	Dash   wLeafP  `mapstructure:"-"`
	hidden *wNode
	SV     wSliceV `mapstructure:"sv"`
	MVal   wMapV   `mapstructure:"mval"`
	PL     *wLeafV `mapstructure:"pl"`
	Plain  wPlain  `mapstructure:"plain,omitempty"`
	F      float64 `mapstructure:"f"`
	// anonymous fields: the node's own Validate shadows the promoted ones; each embedded value is
	// still a field of its own and must be walked
	WEmbV    `mapstructure:",squash"` // squash tag: empty name => path segment "wembv"
	*WEmbP   `mapstructure:"embp"`    // embedded pointer with a named tag
	WEmbLeaf                          // no tag at all => "wembleaf"
	Promo    wPromo `mapstructure:"promo"`
}

func (n *wNode) Validate() error {
	if n.Err != "" {
		return errors.New(n.Err)
	}
	return nil
}

// ---- generator: Go value + vtree term + expected errors (direct oracle) ---------------------

type wExp struct {
	path []string
	msg  string
}

type wGen struct {
	r       *vRand
	n       int  // message counter
	multi   bool // a map with >= 2 entries was generated
	exp     []wExp
	budget  int
	fail    int // percentage of failing validators
	reached map[string]int
}

func (g *wGen) msg() string { g.n++; return "e" + strconv.Itoa(g.n) }
func (g *wGen) bad() bool   { return g.r.Intn(100) < g.fail }
func (g *wGen) expect(live bool, path []string, msg string) {
	if live {
		g.exp = append(g.exp, wExp{append([]string(nil), path...), msg})
	}
}
func sub(path []string, seg string) []string { return append(append([]string(nil), path...), seg) }

func wOpt(msg string) string {
	if msg == "" {
		return "None"
	}
	return "(Some " + vStr(msg) + ")"
}
func wField(ex bool, name, t string) string {
	return "(" + vBool(ex) + ", " + vStr(name) + ", " + t + ")"
}

func (g *wGen) leafV(live bool, path []string) (wLeafV, string) {
	if g.bad() {
		n := 1 + g.r.Intn(50)
		m := "leafv" + strconv.Itoa(n)
		g.expect(live, path, m)
		g.reached["leafV.fail"]++
		return wLeafV(-n), "VLeaf " + wOpt(m)
	}
	return wLeafV(g.r.Intn(5)), "VLeaf None"
}

func (g *wGen) leafP(live bool, path []string) (wLeafP, string) {
	if g.bad() {
		m := g.msg()
		g.expect(live, path, m)
		g.reached["leafP.fail"]++
		return wLeafP(m), "VLeaf " + wOpt(m)
	}
	return "", "VLeaf None"
}

func (g *wGen) nodeV(live bool, path []string, depth int) (wNodeV, string) {
	var v wNodeV
	m := ""
	if g.bad() {
		m = g.msg()
		v.Err = m
		g.expect(live, path, m)
		g.reached["nodeV.fail"]++
	}
	kid := "VPtr VInvalid"
	if depth > 0 && g.budget > 0 && g.r.Intn(4) == 0 {
		k, t := g.node(live, sub(path, "kid"), depth-1)
		v.Kid = k
		kid = "VPtr (" + t + ")"
	}
	return v, "VStruct " + wOpt(m) + " [" + wField(true, "err", "VLeaf None") + "; " + wField(true, "kid", kid) + "]"
}

func (g *wGen) plain(live bool, path []string, depth int) (wPlain, string) {
	var p wPlain
	var ta, tb string
	p.A, ta = g.leafV(live, sub(path, "a"))
	p.b, tb = g.leafV(false, sub(path, "b"))
	tc := "VPtr VInvalid"
	if depth > 0 && g.budget > 0 && g.r.Intn(5) == 0 {
		k, t := g.node(live, sub(path, "c"), depth-1)
		p.C = k
		tc = "VPtr (" + t + ")"
	}
	return p, "VStruct None [" + wField(true, "a", ta) + "; " + wField(false, "b", tb) + "; " + wField(true, "c", tc) + "]"
}

func (g *wGen) cnt(depth int, max int) int {
	if depth <= 0 || g.budget <= 0 {
		return 0
	}
	switch g.r.Pick(5, 3, 1, 1) {
	case 0:
		return 0
	case 1:
		return 1
	case 2:
		if max >= 2 {
			return 2
		}
		return 1
	}
	if max >= 3 {
		return 3
	}
	return 1
}

func (g *wGen) node(live bool, path []string, depth int) (*wNode, string) {
	g.budget--
	n := &wNode{}
	m := ""
	if g.bad() {
		m = g.msg()
		n.Err = m
		g.expect(live, path, m)
		g.reached["node.fail"]++
	}
	fs := []string{wField(true, "err", "VLeaf None")}
	// kids: slice of struct values
	{
		k := g.cnt(depth, 3)
		var ts []string
		for i := 0; i < k; i++ {
			c, t := g.node(live, sub(sub(path, "kids"), strconv.Itoa(i)), depth-1)
			n.Kids = append(n.Kids, *c)
			ts = append(ts, t)
		}
		fs = append(fs, wField(true, "kids", "VSeq None "+vList(ts)))
		g.reached["kids."+strconv.Itoa(k)]++
	}
	// pkids: slice of pointers, nil allowed
	{
		k := g.cnt(depth, 3)
		var ts []string
		for i := 0; i < k; i++ {
			if g.r.Intn(4) == 0 {
				n.PKids = append(n.PKids, nil)
				ts = append(ts, "VPtr VInvalid")
				g.reached["pkids.nil"]++
				continue
			}
			c, t := g.node(live, sub(sub(path, "pkids"), strconv.Itoa(i)), depth-1)
			n.PKids = append(n.PKids, c)
			ts = append(ts, "VPtr ("+t+")")
		}
		fs = append(fs, wField(true, "pkids", "VSeq None "+vList(ts)))
	}
	// m: map[string]*wNode
	{
		k := g.cnt(depth, 2)
		if k >= 2 {
			g.multi = true
		}
		var ts []string
		if k > 0 {
			n.M = map[string]*wNode{}
		}
		for i := 0; i < k; i++ {
			key := "k" + strconv.Itoa(i)
			if g.r.Intn(5) == 0 {
				n.M[key] = nil
				ts = append(ts, "("+vStr(key)+", VLeaf None, VPtr VInvalid)")
				continue
			}
			c, t := g.node(live, sub(sub(path, "m"), key), depth-1)
			n.M[key] = c
			ts = append(ts, "("+vStr(key)+", VLeaf None, VPtr ("+t+"))")
		}
		fs = append(fs, wField(true, "m", "VMap None "+vList(ts)))
		g.reached["m."+strconv.Itoa(k)]++
	}
	// mv: map[wKey]wNodeV — Stringer keys carrying a validator, non-addressable struct values
	{
		k := g.cnt(depth+1, 2)
		if k >= 2 {
			g.multi = true
		}
		var ts []string
		if k > 0 {
			n.MV = map[wKey]wNodeV{}
		}
		for i := 0; i < k; i++ {
			key := wKey{K: strconv.Itoa(i)}
			seg := "K" + key.K
			km := ""
			if g.bad() {
				km = g.msg()
				key.Bad = km
				g.expect(live, sub(sub(path, "mv"), seg), km)
				g.reached["mapkey.fail"]++
			}
			v, t := g.nodeV(live, sub(sub(path, "mv"), seg), depth-1)
			n.MV[key] = v
			kt := "VStruct " + wOpt(km) + " [" + wField(true, "k", "VLeaf None") + "; " + wField(true, "bad", "VLeaf None") + "]"
			ts = append(ts, "("+vStr(seg)+", "+kt+", "+t+")")
		}
		fs = append(fs, wField(true, "mv", "VMap None "+vList(ts)))
		g.reached["mv."+strconv.Itoa(k)]++
	}
	// mi: map[int]wLeafP — int keys printed with %v, pointer-receiver leaf that is not addressable
	{
		k := g.cnt(depth+1, 2)
		if k >= 2 {
			g.multi = true
		}
		var ts []string
		if k > 0 {
			n.MI = map[int]wLeafP{}
		}
		for i := 0; i < k; i++ {
			key := 7 + 10*i
			seg := strconv.Itoa(key)
			v, t := g.leafP(live, sub(sub(path, "mi"), seg))
			n.MI[key] = v
			ts = append(ts, "("+vStr(seg)+", VLeaf None, "+t+")")
		}
		fs = append(fs, wField(true, "mi", "VMap None "+vList(ts)))
	}
	// MS (no tag: lower-cased field name): struct key without Stringer
	{
		var ts []string
		if g.r.Intn(6) == 0 {
			seg := "[xconfmap.wSKey key]"
			v, t := g.leafV(live, sub(sub(path, "ms"), seg))
			n.MS = map[wSKey]wLeafV{{N: 1}: v}
			ts = append(ts, "("+vStr(seg)+", VStruct None ["+wField(true, "n", "VLeaf None")+"], "+t+")")
			g.reached["ms.structkey"]++
		}
		fs = append(fs, wField(true, "ms", "VMap None "+vList(ts)))
	}
	// any: interface
	{
		t := "VPtr VInvalid"
		p := sub(path, "any")
		switch g.r.Pick(6, 2, 2, 2, 2, 1) {
		case 0:
		case 1:
			if depth > 0 && g.budget > 0 {
				c, ct := g.node(live, p, depth-1)
				n.Any = c
				t = "VPtr (VPtr (" + ct + "))"
				g.reached["any.ptr"]++
			}
		case 2:
			v, vt := g.nodeV(live, p, depth-1)
			n.Any = v
			t = "VPtr (" + vt + ")"
			g.reached["any.structval"]++
		case 3:
			v, vt := g.leafV(live, p)
			n.Any = v
			t = "VPtr (" + vt + ")"
			g.reached["any.leaf"]++
		case 4:
			v, vt := g.leafP(live, p)
			n.Any = v // a non-pointer value of a type whose *T has Validate: copied and validated
			t = "VPtr (" + vt + ")"
			g.reached["any.leafP-nonaddr"]++
		case 5:
			var np *wNode
			n.Any = np // typed nil pointer inside an interface
			t = "VPtr (VPtr VInvalid)"
			g.reached["any.typednil"]++
		}
		fs = append(fs, wField(true, "any", t))
	}
	// arr
	{
		var ts []string
		for i := 0; i < 2; i++ {
			v, t := g.leafV(live, sub(sub(path, "arr"), strconv.Itoa(i)))
			n.Arr[i] = v
			ts = append(ts, t)
		}
		fs = append(fs, wField(true, "arr", "VSeq None "+vList(ts)))
	}
	// squash-tagged field: empty tag name => lower-cased field name "sq"
	{
		v, t := g.nodeV(live, sub(path, "sq"), depth-1)
		n.Sq = v
		fs = append(fs, wField(true, "sq", t))
	}
	// "-" tag: validate uses "-" as the path segment (no skipping in validate)
	{
		v, t := g.leafP(live, sub(path, "-"))
		n.Dash = v
		fs = append(fs, wField(true, "-", t))
	}
	// hidden: unexported, never walked, whatever it holds
	{
		t := "VPtr VInvalid"
		if depth > 0 && g.budget > 0 && g.r.Intn(4) == 0 {
			saved := g.fail
			g.fail = 70
			c, ct := g.node(false, sub(path, "hidden"), 0)
			g.fail = saved
			n.hidden = c
			t = "VPtr (" + ct + ")"
			g.reached["hidden.set"]++
		}
		fs = append(fs, wField(false, "hidden", t))
	}
	// sv: slice type with its own Validate
	{
		k := g.r.Pick(4, 2, 2, 1)
		var ts []string
		for i := 0; i < k; i++ {
			v, t := g.leafV(live, sub(sub(path, "sv"), strconv.Itoa(i)))
			n.SV = append(n.SV, v)
			ts = append(ts, t)
		}
		m := ""
		if k > 2 {
			m = "slicev" + strconv.Itoa(k)
			// the slice's own error comes before its elements' errors: insert at the right place
			g.reached["slicev.fail"]++
		}
		if m != "" {
			g.expect(live, sub(path, "sv"), m)
		}
		fs = append(fs, wField(true, "sv", "VSeq "+wOpt(m)+" "+vList(ts)))
	}
	// mval: map type with pointer-receiver Validate (field of an addressable or copied struct)
	{
		var ts []string
		m := ""
		switch g.r.Pick(5, 2, 2) {
		case 1:
			v, t := g.leafV(live, sub(sub(path, "mval"), "ok"))
			n.MVal = wMapV{"ok": v}
			ts = append(ts, "("+vStr("ok")+", VLeaf None, "+t+")")
		case 2:
			m = "mapv-bad"
			g.expect(live, sub(path, "mval"), m)
			v, t := g.leafV(live, sub(sub(path, "mval"), "bad"))
			n.MVal = wMapV{"bad": v}
			ts = append(ts, "("+vStr("bad")+", VLeaf None, "+t+")")
			g.reached["mapv.fail"]++
		}
		fs = append(fs, wField(true, "mval", "VMap "+wOpt(m)+" "+vList(ts)))
	}
	// pl: pointer to a leaf with value-receiver Validate
	{
		t := "VPtr VInvalid"
		if g.r.Intn(3) == 0 {
			v, vt := g.leafV(live, sub(path, "pl"))
			n.PL = &v
			t = "VPtr (" + vt + ")"
		}
		fs = append(fs, wField(true, "pl", t))
	}
	// plain
	{
		v, t := g.plain(live, sub(path, "plain"), depth-1)
		n.Plain = v
		fs = append(fs, wField(true, "plain", t))
	}
	fs = append(fs, wField(true, "f", "VLeaf None"))
	// embedded WEmbV (by value, squash tag)
	{
		em := ""
		if g.bad() {
			em = g.msg()
			n.WEmbV.EErr = em
			g.expect(live, sub(path, "wembv"), em)
			g.reached["embedded.value.fail"]++
		}
		fs = append(fs, wField(true, "wembv", "VStruct "+wOpt(em)+" ["+wField(true, "eerr", "VLeaf None")+"]"))
	}
	// embedded *WEmbP (pointer, may be nil)
	{
		t := "VPtr VInvalid"
		if g.r.Intn(2) == 0 {
			e := &WEmbP{}
			em := ""
			if g.bad() {
				em = g.msg()
				e.PErr = em
				g.expect(live, sub(path, "embp"), em)
				g.reached["embedded.ptr.fail"]++
			}
			var td string
			e.Deep, td = g.leafV(live, sub(sub(path, "embp"), "deep"))
			n.WEmbP = e
			t = "VPtr (VStruct " + wOpt(em) + " [" + wField(true, "perr", "VLeaf None") + "; " + wField(true, "deep", td) + "])"
			g.reached["embedded.ptr.set"]++
		}
		fs = append(fs, wField(true, "embp", t))
	}
	// embedded WEmbLeaf (non-struct)
	{
		t := "VLeaf None"
		if g.bad() {
			k := 1 + g.r.Intn(50)
			m2 := "embleaf" + strconv.Itoa(k)
			n.WEmbLeaf = WEmbLeaf(-k)
			g.expect(live, sub(path, "wembleaf"), m2)
			t = "VLeaf " + wOpt(m2)
			g.reached["embedded.leaf.fail"]++
		}
		fs = append(fs, wField(true, "wembleaf", t))
	}
	// promo: parent without its own Validate, the embedded one is promoted
	{
		pp := sub(path, "promo")
		em := ""
		if g.bad() {
			em = g.msg()
			n.Promo.WEmbV.EErr = em
			g.expect(live, pp, em)               // promoted method, called on the parent
			g.expect(live, sub(pp, "wembv"), em) // and on the embedded field itself
			g.reached["embedded.promoted.fail"]++
		}
		var tx string
		n.Promo.X, tx = g.leafV(live, sub(pp, "x"))
		fs = append(fs, wField(true, "promo", "VStruct "+wOpt(em)+" ["+
			wField(true, "wembv", "VStruct "+wOpt(em)+" ["+wField(true, "eerr", "VLeaf None")+"]")+"; "+wField(true, "x", tx)+"]"))
	}
	return n, "VStruct " + wOpt(m) + " " + vList(fs)
}

// ---- observation ---------------------------------------------------------------------------

func wFlatten(err error, out *[]pathError) bool {
	if err == nil {
		return true
	}
	if j, ok := err.(interface{ Unwrap() []error }); ok {
		for _, e := range j.Unwrap() {
			if !wFlatten(e, out) {
				return false
			}
		}
		return true
	}
	pe, ok := err.(pathError)
	if !ok {
		return false
	}
	*out = append(*out, pe)
	return true
}

func wRev(p []string) []string {
	r := make([]string, len(p))
	for i := range p {
		r[len(p)-1-i] = p[i]
	}
	return r
}

func wPathTerm(p []string) string {
	it := make([]string, len(p))
	for i, s := range p {
		it[i] = vStr(s)
	}
	return vList(it)
}

func TestVerifC13Walk(t *testing.T) {
	out := vOpen()
	defer out.Close()
	r := vNewRand(0xC13A)
	total := vBudget(240, 12)
	reached := map[string]int{}
	for i := 0; i < total; i++ {
		g := &wGen{r: r, budget: 2 + r.Intn(10), fail: []int{0, 8, 20, 45}[r.Intn(4)], reached: reached}
		var root any
		var term string
		top := r.Pick(6, 1, 1, 1, 1)
		switch top {
		case 0: // pointer to struct (the usual way a config is passed)
			n, tt := g.node(true, nil, 3)
			root, term = n, "VPtr ("+tt+")"
		case 1: // struct value, not addressable: pointer-receiver Validate reached through a copy
			n, tt := g.node(true, nil, 2)
			root, term = *n, tt
			reached["root.structvalue"]++
		case 2: // nil
			root, term = nil, "VInvalid"
			reached["root.nil"]++
		case 3: // slice at the root
			n, tt := g.node(true, []string{"0"}, 2)
			root, term = []*wNode{n}, "VSeq None [VPtr ("+tt+")]"
			reached["root.slice"]++
		case 4: // leaf at the root
			v, tt := g.leafV(true, nil)
			root, term = v, tt
			reached["root.leaf"]++
		}
		err := Validate(root)
		var pes []pathError
		if !wFlatten(err, &pes) {
			out.Oracle("walk-shape", term, fmt.Sprintf("Validate returned an error that is not a join of pathErrors: %T %v", err, err))
			continue
		}
		obs := make([]string, len(pes))
		got := map[string]int{}
		for k, pe := range pes {
			p := wRev(pe.path)
			obs[k] = vPair(wPathTerm(p), vStr(pe.err.Error()))
			got[strings.Join(p, "::")+"|"+pe.err.Error()]++
			// rendering: "a::b: msg" (or "msg" at the root)
			want := pe.err.Error()
			if len(p) > 0 {
				want = strings.Join(p, "::") + ": " + want
			}
			if pe.Error() != want {
				out.Oracle("walk-render", term, fmt.Sprintf("pathError renders %q, expected %q", pe.Error(), want))
			}
		}
		// direct oracle: every failing validator reachable through exported fields is reported with
		// exactly its path (completeness), and nothing else is reported (soundness)
		want := map[string]int{}
		for _, e := range g.exp {
			want[strings.Join(e.path, "::")+"|"+e.msg]++
		}
		var keys []string
		for k := range want {
			keys = append(keys, k)
		}
		sort.Strings(keys)
		for _, k := range keys {
			if got[k] < want[k] {
				out.Oracle("walk-incomplete", term, "failing validator not reported: "+k)
			}
		}
		keys = keys[:0]
		for k := range got {
			keys = append(keys, k)
		}
		sort.Strings(keys)
		for _, k := range keys {
			if got[k] > want[k] {
				out.Oracle("walk-unsound", term, "reported error without a failing reachable validator: "+k)
			}
		}
		if (err == nil) != (len(g.exp) == 0) {
			out.Oracle("walk-nil", term, fmt.Sprintf("Validate nil=%v but %d failing validators", err == nil, len(g.exp)))
		}
		out.Case(len(pes) > 0, "(CWalk "+vBool(!g.multi)+" ("+term+") "+vList(obs)+")")
		out.Stat("walk.cases", 1)
		out.Stat(fmt.Sprintf("walk.errors.%d", wMin(len(pes), 6)), 1)
		if g.multi {
			out.Stat("walk.unordered", 1)
		}
	}
	for k, v := range reached {
		out.Stat("walk.reach."+k, v)
	}
}

func wMin(a, b int) int {
	if a < b {
		return a
	}
	return b
}
