// C13 correspondence harness, part 3d: kinds.  One setting of a built-in component is written with
// a value of a (mostly) wrong kind — string for int, bool for string, float for int, map for a
// scalar, scalar for a struct or a string list, ... — and the full loader is run: the load must
// fail with an error naming the key, or the decoded value must BE the written value.
package main

import (
	"fmt"
	"math"
	"reflect"
	"strconv"
	"strings"
)

type mTarget struct {
	path []string
	kind string // bool int uint float string duration strslice struct
}

var mSeen = map[string]bool{}

var mKindCoq = map[string]string{"bool": "KBool", "int": "KInt", "uint": "KUint", "float": "KFloat", "string": "KString",
	"duration": "KDuration", "strslice": "KStrSlice", "struct": "KStruct"}

type mWritten struct {
	yaml any
	coq  string
	fam  string // bool num str list map null
	f    float64
}

func mPool(r *vRand, kind string) mWritten {
	fl := func(f float64) mWritten {
		w := math.Trunc(f)
		return mWritten{f, "(WFloat " + vZ(int64(w)) + " " + vBool(w != f) + ")", "num", f}
	}
	in := func(n int) mWritten { return mWritten{n, "(WInt " + vZ(int64(n)) + ")", "num", float64(n)} }
	st := func(s string) mWritten { return mWritten{s, "(WStr " + vStr(s) + ")", "str", 0} }
	switch r.Intn(12) {
	case 0:
		return mWritten{true, "(WBool true)", "bool", 0}
	case 1:
		return mWritten{false, "(WBool false)", "bool", 0}
	case 2:
		return in(1 + r.Intn(50))
	case 3:
		return in(-1 - r.Intn(9))
	case 4:
		return fl(float64(1+r.Intn(20)) + []float64{0.25, 0.5, 0.75}[r.Intn(3)])
	case 5:
		return fl(-float64(1+r.Intn(9)) - 0.5)
	case 6:
		return fl(float64(2 + r.Intn(9))) // a float without fraction
	case 7:
		if kind == "duration" {
			return st(strconv.Itoa(1+r.Intn(90)) + "s")
		}
		return st("w" + strconv.Itoa(r.Intn(100)))
	case 8:
		if kind == "duration" {
			return st("3m")
		}
		return st([]string{"a,b", "x,,y", "", "7", "true"}[r.Intn(5)])
	case 9:
		return mWritten{[]any{"e1"}, "WList", "list", 0}
	case 10:
		return mWritten{map[string]any{}, "WMap", "map", 0}
	}
	return mWritten{nil, "WNull", "null", 0}
}

func mStrList(l []string) string {
	it := make([]string, len(l))
	for i, s := range l {
		it[i] = vStr(s)
	}
	return "(DList " + vList(it) + ")"
}

func mPrintable(s string) bool {
	for _, c := range s {
		if c < 32 || c > 126 || c == '"' {
			return false
		}
	}
	return true
}

func dMismatch(out *vOut, r *vRand, all []dEntryPts) {
	var comps []dEntryPts
	for _, ep := range all {
		if ep.e.Def != nil {
			comps = append(comps, ep)
		}
	}
	total := vBudget(140, 10)
	for i := 0; i < total; i++ {
		ep := comps[r.Intn(len(comps))]
		e := ep.e
		root := &sDesc{Kind: "ptr", Elem: e.D}
		def := fExtract(reflect.ValueOf(e.Def), root)
		var ts []mTarget
		if def != nil {
			var lv []fLeaf
			def.leaves(nil, &lv)
			for _, l := range lv {
				if !fExcluded(l.path) && l.path[len(l.path)-1] != "blocking" && l.path[len(l.path)-1] != "block_on_overflow" {
					ts = append(ts, mTarget{l.path, l.n.kind})
				}
			}
		}
		var cpos []fComplexPos
		fComplex(reflect.ValueOf(e.Def), root, nil, &cpos)
		for _, c := range cpos {
			if c.kind == "strslice" && !fExcluded(c.path) {
				ts = append(ts, mTarget{c.path, "strslice"})
			}
		}
		for _, pt := range ep.pts {
			ok := len(pt.steps) > 0 && !pt.foreign
			for _, s := range pt.steps {
				if s.kind != "field" || s.name == "batcher" {
					ok = false
				}
			}
			if ok {
				ts = append(ts, mTarget{dSegs(pt.steps), "struct"})
			}
		}
		if len(ts) == 0 {
			continue
		}
		// pick the kind first (uniformly over the kinds present), then a target of that kind
		byKind := map[string][]mTarget{}
		var kinds []string
		for _, t := range ts {
			if _, ok := byKind[t.kind]; !ok {
				kinds = append(kinds, t.kind)
			}
			byKind[t.kind] = append(byKind[t.kind], t)
		}
		kd := byKind[kinds[r.Intn(len(kinds))]]
		tg := kd[r.Intn(len(kd))]
		w := mPool(r, tg.kind)
		doc := map[string]any{}
		fSet(doc, tg.path, w.yaml)
		key := strings.Join(tg.path, "::")
		cfg, err := dLoad(dDoc(e, doc))
		pre := "(CMis " + mKindCoq[tg.kind] + " " + w.coq + " "
		// ---- what does the property expect, independently of the model?
		fits := map[string]map[string]bool{
			"bool": {"bool": true}, "string": {"str": true}, "int": {"num": true}, "uint": {"num": true}, "float": {"num": true},
			"duration": {"num": true, "str": true}, "strslice": {"str": true, "list": true}, "struct": {"map": true},
		}[tg.kind][w.fam] || w.fam == "null"
		// a number with a fractional part is a mistake for an integer-kind setting (it used to be
		// truncated silently: former finding C13-FLOAT-TRUNCATED, fixed by 91bc960c3)
		if w.fam == "num" && w.f != math.Trunc(w.f) && (tg.kind == "int" || tg.kind == "uint" || tg.kind == "duration") {
			fits = false
		}
		if err != nil {
			if strings.HasPrefix(err.Error(), "PANIC") {
				out.Oracle("mismatch-panics", pre+"DErr)", key+": "+err.Error())
				continue
			}
			if !strings.Contains(err.Error(), tg.path[len(tg.path)-1]) {
				out.Oracle("mismatch-key-not-named", pre+"DErr)", fmt.Sprintf("%s written %v: error does not name the key: %v", key, w.yaml, err))
			}
			if fits && !(tg.kind == "uint" && w.f < 0) && !(tg.kind == "duration" && w.fam == "str") {
				out.Oracle("valid-setting-rejected", pre+"DErr)", fmt.Sprintf("%s (%s) written %v rejected: %v", key, tg.kind, w.yaml, err))
			}
			if !mSeen[pre+"DErr"] {
				mSeen[pre+"DErr"] = true
				out.Case(true, pre+"DErr)")
			}
			out.Stat("mismatch.rejected."+tg.kind+"<-"+w.fam, 1)
			continue
		}
		got := fSection(cfg, e.Kind)[componentID(e.Type)]
		tv, ok := fTypedAt(reflect.ValueOf(got), root, tg.path)
		if !fits {
			out.Oracle("mismatch-coerced", pre+"DOther)", fmt.Sprintf("%s (%s) written %v of another kind was accepted; typed value %v", key, tg.kind, w.yaml, tv))
		}
		obs := "DOther"
		if w.fam == "null" {
			obs = "DKeep"
		} else if ok {
			switch {
			case w.fam == "null":
				obs = "DKeep"
			case tg.kind == "bool":
				obs = "(DBool " + vBool(tv.Bool()) + ")"
			case tg.kind == "int" || (tg.kind == "duration" && w.fam == "num"):
				obs = "(DNum " + vZ(tv.Int()) + " false)"
				if float64(tv.Int()) != w.f && fits {
					out.Oracle("mismatch-coerced", pre+obs+")", fmt.Sprintf("%v written for %s field %s, typed value %d", w.yaml, tg.kind, key, tv.Int()))
				}
			case tg.kind == "uint":
				obs = "(DNum " + vZ(int64(tv.Uint())) + " false)"
				if float64(tv.Uint()) != w.f && fits {
					out.Oracle("mismatch-coerced", pre+obs+")", fmt.Sprintf("%v written for %s field %s, typed value %d", w.yaml, tg.kind, key, tv.Uint()))
				}
			case tg.kind == "float":
				f := tv.Float()
				obs = "(DNum " + vZ(int64(math.Trunc(f))) + " " + vBool(math.Trunc(f) != f) + ")"
				if f != w.f && fits {
					out.Oracle("mismatch-coerced", pre+obs+")", fmt.Sprintf("%s written %v, typed value %v", key, w.yaml, f))
				}
			case tg.kind == "string":
				if mPrintable(tv.String()) {
					obs = "(DStr " + vStr(tv.String()) + ")"
				}
				if fits && tv.String() != w.yaml.(string) {
					out.Oracle("mismatch-coerced", pre+obs+")", fmt.Sprintf("%s written %q, typed value %q", key, w.yaml, tv.String()))
				}
			case tg.kind == "strslice" && w.fam == "str":
				var l []string
				for k := 0; k < tv.Len(); k++ {
					l = append(l, tv.Index(k).String())
				}
				obs = mStrList(l)
				want := strings.Split(w.yaml.(string), ",")
				if w.yaml.(string) == "" {
					want = nil
				}
				if strings.Join(l, "\x00") != strings.Join(want, "\x00") {
					out.Oracle("mismatch-coerced", pre+obs+")", fmt.Sprintf("%s written %q, typed list %q", key, w.yaml, l))
				}
			}
		}
		if !mSeen[pre+obs] {
			mSeen[pre+obs] = true
			out.Case(w.fam != "null", pre+obs+")")
		}
		out.Stat("mismatch.accepted."+tg.kind+"<-"+w.fam, 1)
	}
}
