package pprofileotlp

import "reflect"

func (r *vRun) jsonChecks(sg *vSignal, m *vMsg, v reflect.Value, pb []byte)                       {}
func (r *vRun) jsonResponseChecks(sg *vSignal, m *vMsg, v reflect.Value, api vRespAPI, pb []byte) {}
