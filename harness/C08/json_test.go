// C08 harness, part 4: the JSON half, as a direct oracle on the implementation (real
// jsonpb-based marshalers, real hand-written jsoniter decoders):
//
//	json-roundtrip   UnmarshalJSON(MarshalJSON(v)) = v, field by field (NaN payloads are canonicalised
//	                 first: JSON has one NaN)
//	json-proto-agree Marshal(UnmarshalJSON(MarshalJSON(v))) = Marshal(v)
//	json-forms       the same document with 64-bit integers written as numbers / as strings, enums
//	                 written as names, keys in snake_case decodes to the same payload
//	wrapper-agree    ExportRequest / ExportResponse JSON = the payload's JSON, both directions
//	json-fixpoint / panic / hang   mutated and random JSON texts: no panic, returns, and whatever
//	                 decodes re-encodes to a fixed point
package pprofileotlp

import (
	"bytes"
	stdjson "encoding/json"
	"fmt"
	"math"
	"reflect"
	"sort"
	"strconv"
	"strings"
	"unicode/utf8"
)

// canonicalise NaN payloads in place (JSON can only say "NaN"); returns how many were changed
func vCanonNaN(v reflect.Value) int {
	n := 0
	switch v.Kind() {
	case reflect.Float64:
		f := v.Float()
		if f != f && math.Float64bits(f) != math.Float64bits(math.NaN()) {
			v.SetFloat(math.NaN())
			n++
		}
	case reflect.Ptr, reflect.Interface:
		if !v.IsNil() {
			n += vCanonNaN(v.Elem())
		}
	case reflect.Struct:
		for i := 0; i < v.NumField(); i++ {
			n += vCanonNaN(v.Field(i))
		}
	case reflect.Slice:
		if v.Type().Elem().Kind() == reflect.Uint8 {
			return 0
		}
		for i := 0; i < v.Len(); i++ {
			n += vCanonNaN(v.Index(i))
		}
	}
	return n
}

type vFieldDiff struct {
	msg, field string
	what       string
	got        string
}

// all leaf-level differences between two trees of message m (a = expected, b = got)
func (s *vSchema) diffAll(m *vMsg, a, b *vT, out *[]vFieldDiff) {
	short := func(t *vT) string {
		x := t.String()
		if len(x) > 80 {
			x = x[:80] + "…"
		}
		return x
	}
	for i, f := range m.fields {
		x, y := a.kids[i], b.kids[i]
		add := func() {
			*out = append(*out, vFieldDiff{m.name, f.name, fmt.Sprintf("expected %s got %s", short(x), short(y)), y.String()})
		}
		one := func(x, y *vT) bool { // true = equal
			if f.ty == vtMsg && x.k == 'm' && y.k == 'm' {
				s.diffAll(f.msg, x, y, out)
				return true
			}
			return x.String() == y.String()
		}
		switch f.card {
		case vcOpt:
			if !one(x, y) {
				add()
			}
		case vcOneof:
			if x.k != y.k {
				add()
			} else if x.k == 's' {
				if x.kids[0].k != y.kids[0].k || !one(x.kids[0], y.kids[0]) {
					add()
				}
			}
		case vcRep, vcPacked:
			if len(x.kids) != len(y.kids) {
				add()
				continue
			}
			for j := range x.kids {
				if !one(x.kids[j], y.kids[j]) {
					add()
					break
				}
			}
		}
	}
}

func (r *vRun) reportDiffs(kind, label, term string, diffs []vFieldDiff) {
	seen := map[string]bool{}
	for _, d := range diffs {
		k := d.msg + "." + d.field
		if seen[k] {
			continue
		}
		seen[k] = true
		r.hist["jsondiff_"+k]++
		r.out.Oracle(kind, term, fmt.Sprintf("field-lost %s: %s: %s", k, label, d.what))
	}
}

// ---- rewriting a JSON document along the schema -------------------------------------------------
type vJSONForm struct {
	int64AsNumber bool // 64-bit integers: "123" -> 123
	intsAsString  bool // every integer (32 and 64 bit): 123 -> "123"
	enumAsName    bool // enum numbers -> their names (when the number has one)
	snakeKeys     bool // lowerCamelCase keys -> the original snake_case names
}

func vIs64(f *vField) bool {
	switch f.skind {
	case "SU64", "SI64", "SFix64", "SSFix64":
		return true
	}
	return false
}

func vIsInt(f *vField) bool {
	switch f.skind {
	case "SU64", "SI64", "SFix64", "SSFix64", "SU32", "SI32", "SFix32", "SZig32":
		return true
	}
	return false
}

func (r *vRun) rewriteScalar(f *vField, x interface{}, form vJSONForm) interface{} {
	switch {
	case f.skind == "SEnum" && form.enumAsName:
		if n, ok := x.(stdjson.Number); ok {
			if i, err := strconv.ParseInt(string(n), 10, 32); err == nil {
				if name, ok := f.enumName[int32(i)]; ok {
					r.hist["form_enum_as_name"]++
					return name
				}
			}
		}
	case vIs64(f) && form.int64AsNumber:
		if s, ok := x.(string); ok {
			r.hist["form_int64_as_number"]++
			return stdjson.Number(s)
		}
	case vIsInt(f) && form.intsAsString:
		if n, ok := x.(stdjson.Number); ok {
			r.hist["form_int_as_string"]++
			return string(n)
		}
	}
	return x
}

func (r *vRun) rewriteJSON(m *vMsg, node interface{}, form vJSONForm) interface{} {
	obj, ok := node.(map[string]interface{})
	if !ok {
		return node
	}
	res := map[string]interface{}{}
	for k, v := range obj {
		var f *vField
		for _, g := range m.fields {
			if g.jsonName == k {
				f = g
				break
			}
		}
		if f == nil {
			res[k] = v
			continue
		}
		one := func(x interface{}) interface{} {
			switch f.ty {
			case vtMsg:
				return r.rewriteJSON(f.msg, x, form)
			case vtScalar:
				return r.rewriteScalar(f, x, form)
			}
			return x
		}
		var nv interface{}
		if f.card == vcRep || f.card == vcPacked {
			if arr, ok := v.([]interface{}); ok {
				na := make([]interface{}, len(arr))
				for i := range arr {
					na[i] = one(arr[i])
				}
				nv = na
			} else {
				nv = v
			}
		} else {
			nv = one(v)
		}
		key := k
		if form.snakeKeys && f.name != k {
			key = f.name
			r.hist["form_snake_key"]++
		}
		res[key] = nv
	}
	return res
}

func vParseJSON(j []byte) (interface{}, error) {
	dec := stdjson.NewDecoder(bytes.NewReader(j))
	dec.UseNumber()
	var x interface{}
	err := dec.Decode(&x)
	return x, err
}

func vEncodeJSON(x interface{}) ([]byte, error) {
	var buf bytes.Buffer
	enc := stdjson.NewEncoder(&buf)
	enc.SetEscapeHTML(false)
	err := enc.Encode(x)
	return buf.Bytes(), err
}

var vForms = []struct {
	name string
	form vJSONForm
}{
	{"int64-as-number", vJSONForm{int64AsNumber: true}},
	{"ints-as-string", vJSONForm{intsAsString: true}}, // 32-bit integers as strings: not demanded by the property, statistics only
	{"enum-as-name", vJSONForm{enumAsName: true}},
	{"snake-case-keys", vJSONForm{snakeKeys: true}},
	{"all-alternate-forms", vJSONForm{int64AsNumber: true, enumAsName: true, snakeKeys: true}},
}

// v is a generated request value of signal sg, pb its protobuf encoding
func (r *vRun) jsonChecks(sg *vSignal, m *vMsg, v reflect.Value, pb []byte) {
	if c := vCanonNaN(v); c > 0 {
		r.hist["json_nan_payload_canonicalised"] += c
		var err error
		if pb, err = sg.marshalPB(v.Addr().Interface()); err != nil {
			return
		}
	}
	req := v.Addr().Interface()
	t0 := r.s.tree(m, v)
	term := vCaseTerm(0, m.id, t0.String(), pb, len(pb))
	vCur.term = term
	var j []byte
	var err error
	if !vGuard(r.out, sg.name+" MarshalJSON", term, func() { j, err = sg.marshalJSON(req) }) {
		return
	}
	if err != nil {
		r.out.Oracle("json-marshal", term, fmt.Sprintf("%s: MarshalJSON fails: %v", sg.name, err))
		return
	}
	r.hist[fmt.Sprintf("json_bytes_%05d", len(j)/1024*1024)]++
	r.jpool = append(r.jpool, vJSONDoc{sg, m, j})
	var x interface{}
	if !vGuard(r.out, sg.name+" UnmarshalJSON", term, func() { x, err = sg.unmarshalJSON(j) }) {
		return
	}
	if err != nil {
		r.out.Oracle("json-roundtrip", term, fmt.Sprintf("%s: UnmarshalJSON(MarshalJSON(v)) fails: %v", sg.name, err))
		return
	}
	xv := reflect.ValueOf(x).Elem()
	t1 := r.s.tree(m, xv)
	exp := t0.clone()
	var info vNormInfo
	r.s.normJSON(m, exp, &info)
	var diffs []vFieldDiff
	r.s.diffAll(m, exp, t1, &diffs)
	if info.nilinner > 0 {
		r.hist["json_nil_bytes_in_oneof"]++
	}
	if info.negzero > 0 {
		r.out.Oracle("json-roundtrip", term, fmt.Sprintf("known:negative-zero %s: -0.0 in a singular double field is not written by MarshalJSON (jsonpb omits proto3 zero values, -0.0 == 0) and comes back as +0.0 (%d field(s))", sg.name, info.negzero))
	}
	pb2, err2 := sg.marshalPB(x)
	if len(diffs) > 0 {
		r.reportDiffs("json-roundtrip", sg.name+" UnmarshalJSON(MarshalJSON(v))", term, diffs)
	} else if err2 != nil || !bytes.Equal(pb2, pb) {
		// nil []byte inside a oneof: JSON gives []byte{} back, which protobuf then DOES emit
		if info.nilinner > 0 {
			r.out.Oracle("json-proto-agree", term, fmt.Sprintf("%s: JSON turns a Bytes value holding nil into an empty one, protobuf drops it — the public API must never build one", sg.name))
		} else {
			r.out.Oracle("json-proto-agree", term, fmt.Sprintf("%s: Marshal(UnmarshalJSON(MarshalJSON(v))) != Marshal(v) although the values agree field by field (err=%v)", sg.name, err2))
		}
	}
	// the export-request wrapper: same JSON, same decoding
	j2, err := sg.reqMarshalJSON(req)
	if err != nil || !bytes.Equal(j, j2) {
		r.out.Oracle("wrapper-agree", term, fmt.Sprintf("%s: ExportRequest.MarshalJSON differs from JSONMarshaler (err=%v)", sg.name, err))
	}
	if y, err := sg.reqUnmarshalJSON(j); err != nil {
		r.out.Oracle("wrapper-agree", term, fmt.Sprintf("%s: ExportRequest.UnmarshalJSON fails: %v", sg.name, err))
	} else if pb3, err := sg.marshalPB(y); err != nil || !bytes.Equal(pb3, pb2) {
		r.out.Oracle("wrapper-agree", term, fmt.Sprintf("%s: ExportRequest.UnmarshalJSON and JSONUnmarshaler decode the same document differently (err=%v)", sg.name, err))
	}
	// alternate spellings of the same document
	doc, err := vParseJSON(j)
	if err != nil {
		r.out.Oracle("json-marshal", term, fmt.Sprintf("%s: MarshalJSON output is not JSON: %v", sg.name, err))
		return
	}
	// correspondence with the JSON tree model: value -> tree (kind 4), tree -> value (kind 5)
	{
		backObs := "VNone"
		if t1.String() != t0.String() {
			backObs = "VSome (" + t1.String() + ")"
		}
		same := err2 == nil && bytes.Equal(pb2, pb)
		r.emit(true, vCaseTermO(4, m.id, t0.String(), pb, 0, r.s.jvTerm(m, doc), backObs, pb2, same))
	}
	r.emit(true, vCaseTermJ(5, m.id, "VSome ("+t1.String()+")", r.s.jvTerm(m, doc)))
	r.hist["json_model_cases"] += 2
	for _, fm := range vForms {
		altDoc := r.rewriteJSON(m, doc, fm.form)
		alt, err := vEncodeJSON(altDoc)
		if err != nil {
			continue
		}
		var y interface{}
		if !vGuard(r.out, sg.name+" UnmarshalJSON("+fm.name+")", term, func() { y, err = sg.unmarshalJSON(alt) }) {
			continue
		}
		if fm.name == "all-alternate-forms" {
			if err != nil {
				r.emit(false, vCaseTermJ(5, m.id, "VNone", r.s.jvTerm(m, altDoc)))
			} else {
				r.emit(true, vCaseTermJ(5, m.id, "VSome ("+r.s.tree(m, reflect.ValueOf(y).Elem()).String()+")", r.s.jvTerm(m, altDoc)))
			}
			r.hist["json_model_cases"]++
		}
		if fm.form.intsAsString {
			if err != nil {
				r.hist["form32_as_string_rejected"]++
			} else {
				r.hist["form32_as_string_accepted"]++
			}
			continue
		}
		if err != nil {
			r.out.Oracle("json-forms", term, fmt.Sprintf("%s: form %s is rejected: %v", sg.name, fm.name, err))
			continue
		}
		pb4, err := sg.marshalPB(y)
		if err != nil || !bytes.Equal(pb4, pb2) {
			var d2 []vFieldDiff
			r.s.diffAll(m, t1, r.s.tree(m, reflect.ValueOf(y).Elem()), &d2)
			if len(d2) == 0 {
				r.out.Oracle("json-forms", term, fmt.Sprintf("%s: form %s decodes to a different payload (err=%v)", sg.name, fm.name, err))
			}
			seen := map[string]bool{}
			for _, d := range d2 {
				k := d.msg + "." + d.field
				if !seen[k] {
					seen[k] = true
					r.hist["jsonform_"+fm.name+"_"+k]++
					r.out.Oracle("json-forms", term, fmt.Sprintf("form %s %s: %s: %s", fm.name, k, sg.name, d.what))
				}
			}
		}
	}
}

// what the JSON round trip is known to normalise in a tree: a oneof member holding a nil []byte
// comes back holding an empty one
func (s *vSchema) normJSON(m *vMsg, t *vT, info *vNormInfo) {
	for i, f := range m.fields {
		c := t.kids[i]
		switch f.card {
		case vcOpt:
			if f.ty == vtScalar && f.skind == "SDouble" && c.n == 1<<63 {
				c.n = 0 // jsonpb omits a singular double that compares equal to 0: -0.0 comes back as +0.0
				info.negzero++
			}
			if f.ty == vtMsg {
				s.normJSON(f.msg, c, info)
			}
		case vcOneof:
			if c.k == 's' {
				if c.kids[0].k == 'n' && f.ty == vtBytes {
					c.kids[0] = vtBytes_(nil)
					info.nilinner++
				} else if f.ty == vtMsg && c.kids[0].k == 'm' {
					s.normJSON(f.msg, c.kids[0], info)
				}
			}
		case vcRep:
			if f.ty == vtMsg {
				for _, e := range c.kids {
					s.normJSON(f.msg, e, info)
				}
			}
		}
	}
}

// export responses
func (r *vRun) jsonResponseChecks(sg *vSignal, m *vMsg, v reflect.Value, api vRespAPI, pb []byte) {
	term := vCaseTerm(0, m.id, r.s.tree(m, v).String(), pb, len(pb))
	var j []byte
	var err error
	if !vGuard(r.out, sg.name+" response MarshalJSON", term, func() { j, err = api.MarshalJSON() }) {
		return
	}
	if err != nil {
		r.out.Oracle("json-marshal", term, fmt.Sprintf("%s response: MarshalJSON fails: %v", sg.name, err))
		return
	}
	rej, msg := sg.respGet(api)
	try := func(doc []byte, what string) {
		kind := "json-roundtrip"
		if what != "as marshalled" {
			kind = "json-forms"
		}
		a2 := sg.newResp(0, "")
		var err error
		if !vGuard(r.out, sg.name+" response UnmarshalJSON", term, func() { err = a2.UnmarshalJSON(doc) }) {
			return
		}
		if err != nil {
			r.out.Oracle(kind, term, fmt.Sprintf("%s response (%s): UnmarshalJSON fails: %v", sg.name, what, err))
			return
		}
		n2, m2 := sg.respGet(a2)
		if parsed, perr := vParseOrdered(doc); perr == nil && (what == "as marshalled" || what == "all-alternate-forms") {
			w := reflect.New(m.typ).Elem()
			w.Field(0).Field(0).SetInt(n2)
			w.Field(0).Field(1).SetString(m2)
			r.caseOut(true, vCaseTermJ(5, m.id, "VSome ("+r.s.tree(m, w).String()+")", r.s.jvTerm(m, parsed)))
		}
		if n2 != rej || m2 != msg {
			r.out.Oracle(kind, term, fmt.Sprintf("%s response (%s): (%d,%q) comes back as (%d,%q)", sg.name, what, rej, msg, n2, m2))
			return
		}
		pb2, err := a2.MarshalProto()
		if err != nil || !bytes.Equal(pb2, pb) {
			r.out.Oracle("json-proto-agree", term, fmt.Sprintf("%s response (%s): Marshal(UnmarshalJSON(MarshalJSON(v))) != Marshal(v) (err=%v)", sg.name, what, err))
		}
	}
	try(j, "as marshalled")
	if doc, err := vParseJSON(j); err == nil {
		for _, fm := range vForms {
			if alt, err := vEncodeJSON(r.rewriteJSON(m, doc, fm.form)); err == nil && !fm.form.intsAsString {
				try(alt, fm.name)
			}
		}
	}
	r.hist["json_response"]++
}

// ---- arbitrary text offered to the JSON unmarshalers -----------------------------------------
type vJSONDoc struct {
	sg *vSignal
	m  *vMsg
	j  []byte
}

var vJSONJunk = []string{`null`, `{}`, `[]`, `""`, `0`, `{"resourceLogs":null}`, `{"resourceSpans":[null]}`, `{"resourceMetrics":[{}]}`,
	`{"resourceLogs":[{"scopeLogs":[{"logRecords":[{"timeUnixNano":-1}]}]}]}`,
	`{"resourceLogs":[{"scopeLogs":[{"logRecords":[{"timeUnixNano":"18446744073709551616"}]}]}]}`,
	`{"resourceLogs":[{"scopeLogs":[{"logRecords":[{"severityNumber":"NOPE"}]}]}]}`,
	`{"resourceLogs":[{"scopeLogs":[{"logRecords":[{"traceId":"zz"}]}]}]}`,
	`{"resourceLogs":[{"scopeLogs":[{"logRecords":[{"body":{"bytesValue":"***"}}]}]}]}`,
	`{"resourceSpans":[{"scopeSpans":[{"spans":[{"kind":99,"status":{"code":"STATUS_CODE_ERROR"}}]}]}]}`,
	`{"resourceMetrics":[{"scopeMetrics":[{"metrics":[{"sum":{"dataPoints":[{"asInt":1.5}]}}]}]}]}`,
	`{"resourceMetrics":[{"scopeMetrics":[{"metrics":[{"gauge":{"dataPoints":[{"asDouble":"NaN"},{"asDouble":"-Infinity"},{"asDouble":1e999}]}}]}]}]}`,
	`{"resourceProfiles":[{"scopeProfiles":[{"profiles":[{"profileId":"00"}]}]}]}`,
	`{"a":{"b":[1,2,{"c":null}]},"resourceLogs":[]}`,
	"{\"resourceLogs\":[{\"resource\":{\"attributes\":[{\"key\":\"k\",\"value\":{\"arrayValue\":{\"values\":[{\"kvlistValue\":{\"values\":[{\"key\":\"x\",\"value\":{}}]}}]}}}]}}]}",
}

func (r *vRun) jsonByteCases() {
	n := vBudget(400, 30)
	rng := r.rng
	for i := 0; i < n && len(r.jpool) > 0; i++ {
		d := r.jpool[rng.Intn(len(r.jpool))]
		sg := d.sg
		if rng.Intn(8) == 0 {
			sg = r.sigs[rng.Intn(len(r.sigs))] // a document of another signal
		}
		c := append([]byte(nil), d.j...)
		what := ""
		switch op := rng.Intn(8); {
		case op == 0 && len(c) > 0:
			c = c[:rng.Intn(len(c))]
			what = "truncate"
		case op == 1 && len(c) > 0:
			c[rng.Intn(len(c))] = byte(rng.U64())
			what = "byte"
		case op == 2 && len(c) > 0:
			at := rng.Intn(len(c))
			junk := []string{`"`, `{`, `}`, `[`, `]`, `,`, `:`, `\`, `null`, `-`, `1e400`, `"\ud800"`, "\x00", `0x10`, `true`}
			c = append(append(append([]byte(nil), c[:at]...), junk[rng.Intn(len(junk))]...), c[at:]...)
			what = "insert"
		case op == 3 && len(c) > 0:
			// replace one value token by another kind of value
			idx := bytes.IndexByte(c[rng.Intn(len(c)):], ':')
			if idx >= 0 {
				at := idx + 1
				repl := []string{`null`, `{}`, `[]`, `"x"`, `-1`, `1.5`, `true`, `"9223372036854775808"`, `18446744073709551616`, `"0x1"`, `""`}
				c = append(append(append([]byte(nil), c[:at]...), repl[rng.Intn(len(repl))]...), c[at:]...)
			}
			what = "value"
		case op == 4:
			c = []byte(vJSONJunk[rng.Intn(len(vJSONJunk))])
			what = "handwritten"
		case op == 5:
			// deep nesting
			k := 50 + rng.Intn(3000)
			c = []byte(strings.Repeat(`{"a":`, k) + `1` + strings.Repeat(`}`, k))
			what = "deep"
		case op == 6:
			k := rng.Intn(40)
			c = make([]byte, k)
			for i := range c {
				c[i] = byte(rng.U64())
			}
			what = "random"
		default:
			what = "identity"
		}
		r.jsonDecodeCase(sg, c, what)
	}
}

func (r *vRun) jsonDecodeCase(sg *vSignal, c []byte, what string) {
	m := r.s.byType[sg.req]
	short := c
	if len(short) > 1500 {
		short = short[:1500]
	}
	term := vCaseTerm(3, m.id, "VNone", short, 0) // kind 3: a JSON text (hex), oracle only
	var x interface{}
	var err error
	if !vGuard(r.out, sg.name+" UnmarshalJSON("+what+")", term, func() { x, err = sg.unmarshalJSON(c) }) {
		return
	}
	if err != nil {
		r.hist["jsondecode_rejected_"+what]++
		return
	}
	r.hist["jsondecode_accepted_"+what]++
	if !utf8.Valid(c) {
		r.out.Oracle("json-utf8", term, fmt.Sprintf("%s: a document that is not valid UTF-8 is accepted (every JSONUnmarshaler must call json.ValidateUTF8 first)", what))
	}
	var j1, j2 []byte
	var e1, e2, e3, e4 error
	var y, z interface{}
	if !vGuard(r.out, sg.name+" re-encode JSON("+what+")", term, func() {
		j1, e1 = sg.marshalJSON(x)
		_, e4 = sg.marshalPB(x)
		if e1 == nil {
			y, e2 = sg.unmarshalJSON(j1)
			if e2 == nil {
				j2, e3 = sg.marshalJSON(y)
				if e3 == nil && !bytes.Equal(j1, j2) {
					z, _ = sg.unmarshalJSON(j2)
				}
			}
		}
	}) {
		return
	}
	switch {
	case e1 != nil || e4 != nil:
		r.out.Oracle("json-fixpoint", term, fmt.Sprintf("%s: a decoded value cannot be marshalled: %v %v", what, e1, e4))
	case e2 != nil:
		r.out.Oracle("json-fixpoint", term, fmt.Sprintf("%s: MarshalJSON(UnmarshalJSON(text)) does not decode: %v", what, e2))
	case e3 != nil || !bytes.Equal(j1, j2):
		// MarshalJSON(UnmarshalJSON(j1)) != j1 where j1 = MarshalJSON(UnmarshalJSON(text))
		var d []vFieldDiff
		if z != nil {
			r.s.diffAll(m, r.s.tree(m, reflect.ValueOf(y).Elem()), r.s.tree(m, reflect.ValueOf(z).Elem()), &d)
		}
		if len(d) == 0 {
			{
				r.out.Oracle("json-fixpoint", term, fmt.Sprintf("%s: re-encoding a decoded document is not a fixed point (err=%v): %s", what, e3, vFirstDiff(j1, j2)))
			}
		}
		r.reportDiffs("json-fixpoint", what+" re-encode", term, d)
	}
}

func vSortedKeys(m map[string]int) []string {
	var ks []string
	for k := range m {
		ks = append(ks, k)
	}
	sort.Strings(ks)
	return ks
}

func vFirstDiff(a, b []byte) string {
	i := 0
	for i < len(a) && i < len(b) && a[i] == b[i] {
		i++
	}
	lo := i - 30
	if lo < 0 {
		lo = 0
	}
	ha, hb := i+40, i+40
	if ha > len(a) {
		ha = len(a)
	}
	if hb > len(b) {
		hb = len(b)
	}
	return fmt.Sprintf("first difference at offset %d: %q vs %q", i, a[lo:ha], b[lo:hb])
}
