// C08 harness, part 10: regression streams of findings that were repaired in /repo.  No exemption is left
// for them: if the behaviour returns it is an ordinary violation with the input.
//
//	(a) C08-EMPTYBYTES: an EMPTY Bytes value built through every public path of pcommon must keep its type
//	    through protobuf and JSON (and JSON -> protobuf must agree);
//	(b) C08-JSON-INVALIDUTF8: a document that is not valid UTF-8 must be rejected by every JSONUnmarshaler and
//	    by every ExportRequest.UnmarshalJSON wrapper (two-sided against Json.unmarshal_json).
package pprofileotlp

import (
	"fmt"
	"reflect"
	"strings"

	"go.opentelemetry.io/collector/pdata/internal"
	otlpcollectorlog "go.opentelemetry.io/collector/pdata/internal/data/protogen/collector/logs/v1"
	otlpcommon "go.opentelemetry.io/collector/pdata/internal/data/protogen/common/v1"
	otlplogs "go.opentelemetry.io/collector/pdata/internal/data/protogen/logs/v1"
	"go.opentelemetry.io/collector/pdata/pcommon"
)

func vOrigOf(v pcommon.Value) otlpcommon.AnyValue { return *internal.GetOrigValue(internal.Value(v)) }

func (r *vRun) regressionStreams() {
	r.emptyBytesStream()
	r.invalidUTF8Stream()
}

func (r *vRun) emptyBytesStream() {
	type path struct {
		name string
		mk   func() otlpcommon.AnyValue
	}
	paths := []path{
		{"NewValueBytes", func() otlpcommon.AnyValue { return vOrigOf(pcommon.NewValueBytes()) }},
		{"SetEmptyBytes", func() otlpcommon.AnyValue { v := pcommon.NewValueEmpty(); v.SetEmptyBytes(); return vOrigOf(v) }},
		{"SetEmptyBytes.FromRaw(nil)", func() otlpcommon.AnyValue {
			v := pcommon.NewValueEmpty()
			v.SetEmptyBytes().FromRaw(nil)
			return vOrigOf(v)
		}},
		{"SetEmptyBytes.FromRaw(empty)", func() otlpcommon.AnyValue {
			v := pcommon.NewValueEmpty()
			v.SetEmptyBytes().FromRaw([]byte{})
			return vOrigOf(v)
		}},
		{"Value.FromRaw(empty)", func() otlpcommon.AnyValue { v := pcommon.NewValueEmpty(); _ = v.FromRaw([]byte{}); return vOrigOf(v) }},
		{"CopyTo", func() otlpcommon.AnyValue {
			v, w := pcommon.NewValueBytes(), pcommon.NewValueEmpty()
			v.CopyTo(w)
			return vOrigOf(w)
		}},
		{"ByteSlice.CopyTo", func() otlpcommon.AnyValue {
			v, w := pcommon.NewValueBytes(), pcommon.NewValueEmpty()
			v.Bytes().CopyTo(w.SetEmptyBytes())
			return vOrigOf(w)
		}},
		{"Map.PutEmptyBytes", func() otlpcommon.AnyValue {
			m := pcommon.NewMap()
			m.PutEmptyBytes("k")
			v, _ := m.Get("k")
			return vOrigOf(v)
		}},
		{"Slice.AppendEmpty.SetEmptyBytes", func() otlpcommon.AnyValue {
			s := pcommon.NewSlice()
			s.AppendEmpty().SetEmptyBytes()
			return vOrigOf(s.At(0))
		}},
		{"MoveTo-destination", func() otlpcommon.AnyValue {
			v, w := pcommon.NewValueBytes(), pcommon.NewValueEmpty()
			v.Bytes().MoveTo(w.SetEmptyBytes())
			return vOrigOf(w)
		}},
	}
	sg := r.sigs[0]
	m := r.s.byType[sg.req]
	for _, p := range paths {
		var any otlpcommon.AnyValue
		if !vGuard(r.out, "pcommon "+p.name, "mkcase 3 0 (VNone) \"\" 0", func() { any = p.mk() }) {
			continue
		}
		req := &otlpcollectorlog.ExportLogsServiceRequest{ResourceLogs: []*otlplogs.ResourceLogs{{ScopeLogs: []*otlplogs.ScopeLogs{{LogRecords: []*otlplogs.LogRecord{{Body: any,
			Attributes: []otlpcommon.KeyValue{{Key: "k", Value: any}}}}}}}}}
		v := reflect.ValueOf(req).Elem()
		r.hist["regress_emptybytes_"+p.name]++
		if bv, ok := any.Value.(*otlpcommon.AnyValue_BytesValue); !ok || bv.BytesValue == nil {
			// the consequences (type lost on the wire, JSON and protobuf disagree) are what C08-EMPTYBYTES was; one
			// line per construction path, and the value is not pushed through the oracles again
			b, _ := sg.marshalPB(req)
			r.out.Oracle("proto-roundtrip", vCaseTerm(0, m.id, r.s.tree(m, v).String(), b, len(b)), fmt.Sprintf("api-builds-nil-bytes %s: this public constructor builds an empty Bytes value whose oneof wrapper holds a nil slice (or no Bytes wrapper); the protobuf marshaler drops it, the value comes back with type Empty, and JSON and protobuf disagree", p.name))
			continue
		}
		b := r.protoValueCase(m, v,
			func() ([]byte, error) { return sg.marshalPB(req) },
			func() int { return sg.sizePB(req) },
			func(b []byte) (reflect.Value, error) {
				x, err := sg.unmarshalPB(b)
				if err != nil {
					return reflect.Value{}, err
				}
				return reflect.ValueOf(x).Elem(), nil
			}, "emptybytes:"+p.name)
		if b != nil {
			r.jsonChecks(sg, m, v, b)
		}
	}
	// the residual, stated exactly: ByteSlice.MoveTo leaves the SOURCE slice nil (generated_byteslice.go:
	// `*ms.getOrig() = nil`), so the moved-from Value is a Bytes wrapper holding nil and marshals as an empty
	// (unset) value.  A moved-from value is not a payload any more; this is counted, not judged.
	src, dst := pcommon.NewValueBytes(), pcommon.NewValueEmpty()
	src.Bytes().MoveTo(dst.SetEmptyBytes())
	o := vOrigOf(src)
	if bv, ok := o.Value.(*otlpcommon.AnyValue_BytesValue); ok && bv.BytesValue == nil {
		r.hist["regress_emptybytes_moved_from_source_is_nil"]++
	}
}

// {"k1":[{"k2": … leaf}]} as a Coq term of type jv, with the leaf given as a term
func vNestJV(path []vHop, leaf string) string {
	t := leaf
	for i := len(path) - 1; i >= 0; i-- {
		if path[i].arr {
			t = "JArr [" + t + "]"
		}
		t = "JObj [(" + vCoqStr(path[i].key) + ", " + t + ")]"
	}
	return t
}

func (r *vRun) invalidUTF8Stream() {
	paths, order := r.s.jsonPaths(r.sigs)
	bad := "a\xffb\xc3" // a lone 0xff and a truncated 2-byte sequence
	n := 0
	for _, m := range order {
		pr := paths[m]
		root := r.s.byType[pr.sg.req]
		var f *vField
		for _, g := range m.fields { // the first string field of the message
			if g.ty == vtStr && g.card == vcOpt {
				f = g
				break
			}
		}
		docs := [][2]string{}
		if f != nil {
			docs = append(docs, [2]string{vNest(pr.path, `{"`+f.jsonName+`":"`+bad+`"}`),
				vNestJV(pr.path, "JObj [("+vCoqStr(f.jsonName)+", JStr (hex "+vHex([]byte(bad))+"))]")})
		}
		// an unknown key that is not valid UTF-8 (skipped by the decoder, still an invalid document)
		docs = append(docs, [2]string{vNest(pr.path, `{"x`+bad+`":1}`), ""})
		for _, d := range docs {
			doc := []byte(d[0])
			n++
			for _, api := range []struct {
				name string
				f    func([]byte) (interface{}, error)
			}{{"JSONUnmarshaler", pr.sg.unmarshalJSON}, {"ExportRequest.UnmarshalJSON", pr.sg.reqUnmarshalJSON}} {
				term := vCaseTerm(3, root.id, "VNone", doc, 0)
				var x interface{}
				var err error
				if !vGuard(r.out, pr.sg.name+" "+api.name+"(invalid UTF-8)", term, func() { x, err = api.f(doc) }) {
					continue
				}
				r.hist["regress_invalid_utf8_"+pr.sg.name]++
				if err == nil {
					r.out.Oracle("json-utf8", term, fmt.Sprintf("%s %s accepts a document that is not valid UTF-8 (at %s; json.ValidateUTF8 must be called first)", pr.sg.name, api.name, m.name))
				}
				if api.name == "JSONUnmarshaler" && d[1] != "" && !strings.Contains(d[1], "\n") {
					val := "VNone"
					if err == nil {
						val = "VSome (" + r.s.tree(root, reflect.ValueOf(x).Elem()).String() + ")"
					}
					r.caseOut(true, vCaseTermJ(6, root.id, val, d[1]))
				}
			}
		}
	}
	r.hist["regress_invalid_utf8_docs"] = n
}
