// C08 harness, part 2: the four signals' public codec API, the correspondence cases and the
// direct oracle (protobuf part).  Case term (Coq, type  nat * (nat * (pv * (string * N))) ):
//
//	(0, (msg, (value, (hex of the real Marshal bytes, real Size))))     value -> bytes
//	(1, (msg, (VNone | VSome decoded, (hex of the input bytes, 0))))    bytes -> value (raw Unmarshal)
//	(2, (msg, (VNone | VSome decoded, (hex of the input bytes, 0))))    bytes -> value, decode path that migrates
package pprofileotlp

import (
	"bytes"
	"fmt"
	"os"
	"reflect"
	"testing"
	"time"

	"go.opentelemetry.io/collector/pdata/internal"
	otlpcollectorlog "go.opentelemetry.io/collector/pdata/internal/data/protogen/collector/logs/v1"
	otlpcollectormetrics "go.opentelemetry.io/collector/pdata/internal/data/protogen/collector/metrics/v1"
	otlpcollectorprofile "go.opentelemetry.io/collector/pdata/internal/data/protogen/collector/profiles/v1development"
	otlpcollectortrace "go.opentelemetry.io/collector/pdata/internal/data/protogen/collector/trace/v1"
	otlplogs "go.opentelemetry.io/collector/pdata/internal/data/protogen/logs/v1"
	otlpmetrics "go.opentelemetry.io/collector/pdata/internal/data/protogen/metrics/v1"
	otlpprofiles "go.opentelemetry.io/collector/pdata/internal/data/protogen/profiles/v1development"
	otlptrace "go.opentelemetry.io/collector/pdata/internal/data/protogen/trace/v1"
	"go.opentelemetry.io/collector/pdata/plog"
	"go.opentelemetry.io/collector/pdata/plog/plogotlp"
	"go.opentelemetry.io/collector/pdata/pmetric"
	"go.opentelemetry.io/collector/pdata/pmetric/pmetricotlp"
	"go.opentelemetry.io/collector/pdata/pprofile"
	"go.opentelemetry.io/collector/pdata/ptrace"
	"go.opentelemetry.io/collector/pdata/ptrace/ptraceotlp"
)

type vRespAPI interface {
	MarshalProto() ([]byte, error)
	UnmarshalProto([]byte) error
	MarshalJSON() ([]byte, error)
	UnmarshalJSON([]byte) error
}

type vSignal struct {
	name             string
	req, data, resp  reflect.Type
	marshalPB        func(req interface{}) ([]byte, error)
	sizePB           func(req interface{}) int
	unmarshalPB      func(b []byte) (interface{}, error)
	marshalJSON      func(req interface{}) ([]byte, error)
	unmarshalJSON    func(b []byte) (interface{}, error)
	reqMarshalPB     func(req interface{}) ([]byte, error)
	reqUnmarshalPB   func(b []byte) (interface{}, error)
	reqMarshalJSON   func(req interface{}) ([]byte, error)
	reqUnmarshalJSON func(b []byte) (interface{}, error)
	newResp          func(rejected int64, msg string) vRespAPI
	respGet          func(r vRespAPI) (int64, string)
}

func vSignals() []*vSignal {
	st := func() *internal.State { s := internal.StateMutable; return &s }
	logs := &vSignal{
		name: "logs", req: reflect.TypeOf(otlpcollectorlog.ExportLogsServiceRequest{}), data: reflect.TypeOf(otlplogs.LogsData{}),
		resp: reflect.TypeOf(otlpcollectorlog.ExportLogsServiceResponse{}),
		marshalPB: func(r interface{}) ([]byte, error) {
			return (&plog.ProtoMarshaler{}).MarshalLogs(plog.Logs(internal.NewLogs(r.(*otlpcollectorlog.ExportLogsServiceRequest), st())))
		},
		sizePB: func(r interface{}) int {
			return (&plog.ProtoMarshaler{}).LogsSize(plog.Logs(internal.NewLogs(r.(*otlpcollectorlog.ExportLogsServiceRequest), st())))
		},
		unmarshalPB: func(b []byte) (interface{}, error) {
			ld, err := (&plog.ProtoUnmarshaler{}).UnmarshalLogs(b)
			if err != nil {
				return nil, err
			}
			return internal.GetOrigLogs(internal.Logs(ld)), nil
		},
		marshalJSON: func(r interface{}) ([]byte, error) {
			return (&plog.JSONMarshaler{}).MarshalLogs(plog.Logs(internal.NewLogs(r.(*otlpcollectorlog.ExportLogsServiceRequest), st())))
		},
		unmarshalJSON: func(b []byte) (interface{}, error) {
			ld, err := (&plog.JSONUnmarshaler{}).UnmarshalLogs(b)
			if err != nil {
				return nil, err
			}
			return internal.GetOrigLogs(internal.Logs(ld)), nil
		},
		reqMarshalPB: func(r interface{}) ([]byte, error) {
			return plogotlp.NewExportRequestFromLogs(plog.Logs(internal.NewLogs(r.(*otlpcollectorlog.ExportLogsServiceRequest), st()))).MarshalProto()
		},
		reqUnmarshalPB: func(b []byte) (interface{}, error) {
			er := plogotlp.NewExportRequest()
			if err := er.UnmarshalProto(b); err != nil {
				return nil, err
			}
			return internal.GetOrigLogs(internal.Logs(er.Logs())), nil
		},
		reqMarshalJSON: func(r interface{}) ([]byte, error) {
			return plogotlp.NewExportRequestFromLogs(plog.Logs(internal.NewLogs(r.(*otlpcollectorlog.ExportLogsServiceRequest), st()))).MarshalJSON()
		},
		reqUnmarshalJSON: func(b []byte) (interface{}, error) {
			er := plogotlp.NewExportRequest()
			if err := er.UnmarshalJSON(b); err != nil {
				return nil, err
			}
			return internal.GetOrigLogs(internal.Logs(er.Logs())), nil
		},
		newResp: func(n int64, m string) vRespAPI {
			r := plogotlp.NewExportResponse()
			r.PartialSuccess().SetRejectedLogRecords(n)
			r.PartialSuccess().SetErrorMessage(m)
			return r
		},
		respGet: func(r vRespAPI) (int64, string) {
			x := r.(plogotlp.ExportResponse)
			return x.PartialSuccess().RejectedLogRecords(), x.PartialSuccess().ErrorMessage()
		},
	}
	metrics := &vSignal{
		name: "metrics", req: reflect.TypeOf(otlpcollectormetrics.ExportMetricsServiceRequest{}), data: reflect.TypeOf(otlpmetrics.MetricsData{}),
		resp: reflect.TypeOf(otlpcollectormetrics.ExportMetricsServiceResponse{}),
		marshalPB: func(r interface{}) ([]byte, error) {
			return (&pmetric.ProtoMarshaler{}).MarshalMetrics(pmetric.Metrics(internal.NewMetrics(r.(*otlpcollectormetrics.ExportMetricsServiceRequest), st())))
		},
		sizePB: func(r interface{}) int {
			return (&pmetric.ProtoMarshaler{}).MetricsSize(pmetric.Metrics(internal.NewMetrics(r.(*otlpcollectormetrics.ExportMetricsServiceRequest), st())))
		},
		unmarshalPB: func(b []byte) (interface{}, error) {
			ld, err := (&pmetric.ProtoUnmarshaler{}).UnmarshalMetrics(b)
			if err != nil {
				return nil, err
			}
			return internal.GetOrigMetrics(internal.Metrics(ld)), nil
		},
		marshalJSON: func(r interface{}) ([]byte, error) {
			return (&pmetric.JSONMarshaler{}).MarshalMetrics(pmetric.Metrics(internal.NewMetrics(r.(*otlpcollectormetrics.ExportMetricsServiceRequest), st())))
		},
		unmarshalJSON: func(b []byte) (interface{}, error) {
			ld, err := (&pmetric.JSONUnmarshaler{}).UnmarshalMetrics(b)
			if err != nil {
				return nil, err
			}
			return internal.GetOrigMetrics(internal.Metrics(ld)), nil
		},
		reqMarshalPB: func(r interface{}) ([]byte, error) {
			return pmetricotlp.NewExportRequestFromMetrics(pmetric.Metrics(internal.NewMetrics(r.(*otlpcollectormetrics.ExportMetricsServiceRequest), st()))).MarshalProto()
		},
		reqUnmarshalPB: func(b []byte) (interface{}, error) {
			er := pmetricotlp.NewExportRequest()
			if err := er.UnmarshalProto(b); err != nil {
				return nil, err
			}
			return internal.GetOrigMetrics(internal.Metrics(er.Metrics())), nil
		},
		reqMarshalJSON: func(r interface{}) ([]byte, error) {
			return pmetricotlp.NewExportRequestFromMetrics(pmetric.Metrics(internal.NewMetrics(r.(*otlpcollectormetrics.ExportMetricsServiceRequest), st()))).MarshalJSON()
		},
		reqUnmarshalJSON: func(b []byte) (interface{}, error) {
			er := pmetricotlp.NewExportRequest()
			if err := er.UnmarshalJSON(b); err != nil {
				return nil, err
			}
			return internal.GetOrigMetrics(internal.Metrics(er.Metrics())), nil
		},
		newResp: func(n int64, m string) vRespAPI {
			r := pmetricotlp.NewExportResponse()
			r.PartialSuccess().SetRejectedDataPoints(n)
			r.PartialSuccess().SetErrorMessage(m)
			return r
		},
		respGet: func(r vRespAPI) (int64, string) {
			x := r.(pmetricotlp.ExportResponse)
			return x.PartialSuccess().RejectedDataPoints(), x.PartialSuccess().ErrorMessage()
		},
	}
	traces := &vSignal{
		name: "traces", req: reflect.TypeOf(otlpcollectortrace.ExportTraceServiceRequest{}), data: reflect.TypeOf(otlptrace.TracesData{}),
		resp: reflect.TypeOf(otlpcollectortrace.ExportTraceServiceResponse{}),
		marshalPB: func(r interface{}) ([]byte, error) {
			return (&ptrace.ProtoMarshaler{}).MarshalTraces(ptrace.Traces(internal.NewTraces(r.(*otlpcollectortrace.ExportTraceServiceRequest), st())))
		},
		sizePB: func(r interface{}) int {
			return (&ptrace.ProtoMarshaler{}).TracesSize(ptrace.Traces(internal.NewTraces(r.(*otlpcollectortrace.ExportTraceServiceRequest), st())))
		},
		unmarshalPB: func(b []byte) (interface{}, error) {
			ld, err := (&ptrace.ProtoUnmarshaler{}).UnmarshalTraces(b)
			if err != nil {
				return nil, err
			}
			return internal.GetOrigTraces(internal.Traces(ld)), nil
		},
		marshalJSON: func(r interface{}) ([]byte, error) {
			return (&ptrace.JSONMarshaler{}).MarshalTraces(ptrace.Traces(internal.NewTraces(r.(*otlpcollectortrace.ExportTraceServiceRequest), st())))
		},
		unmarshalJSON: func(b []byte) (interface{}, error) {
			ld, err := (&ptrace.JSONUnmarshaler{}).UnmarshalTraces(b)
			if err != nil {
				return nil, err
			}
			return internal.GetOrigTraces(internal.Traces(ld)), nil
		},
		reqMarshalPB: func(r interface{}) ([]byte, error) {
			return ptraceotlp.NewExportRequestFromTraces(ptrace.Traces(internal.NewTraces(r.(*otlpcollectortrace.ExportTraceServiceRequest), st()))).MarshalProto()
		},
		reqUnmarshalPB: func(b []byte) (interface{}, error) {
			er := ptraceotlp.NewExportRequest()
			if err := er.UnmarshalProto(b); err != nil {
				return nil, err
			}
			return internal.GetOrigTraces(internal.Traces(er.Traces())), nil
		},
		reqMarshalJSON: func(r interface{}) ([]byte, error) {
			return ptraceotlp.NewExportRequestFromTraces(ptrace.Traces(internal.NewTraces(r.(*otlpcollectortrace.ExportTraceServiceRequest), st()))).MarshalJSON()
		},
		reqUnmarshalJSON: func(b []byte) (interface{}, error) {
			er := ptraceotlp.NewExportRequest()
			if err := er.UnmarshalJSON(b); err != nil {
				return nil, err
			}
			return internal.GetOrigTraces(internal.Traces(er.Traces())), nil
		},
		newResp: func(n int64, m string) vRespAPI {
			r := ptraceotlp.NewExportResponse()
			r.PartialSuccess().SetRejectedSpans(n)
			r.PartialSuccess().SetErrorMessage(m)
			return r
		},
		respGet: func(r vRespAPI) (int64, string) {
			x := r.(ptraceotlp.ExportResponse)
			return x.PartialSuccess().RejectedSpans(), x.PartialSuccess().ErrorMessage()
		},
	}
	profiles := &vSignal{
		name: "profiles", req: reflect.TypeOf(otlpcollectorprofile.ExportProfilesServiceRequest{}), data: reflect.TypeOf(otlpprofiles.ProfilesData{}),
		resp: reflect.TypeOf(otlpcollectorprofile.ExportProfilesServiceResponse{}),
		marshalPB: func(r interface{}) ([]byte, error) {
			return (&pprofile.ProtoMarshaler{}).MarshalProfiles(pprofile.Profiles(internal.NewProfiles(r.(*otlpcollectorprofile.ExportProfilesServiceRequest), st())))
		},
		sizePB: func(r interface{}) int {
			return (&pprofile.ProtoMarshaler{}).ProfilesSize(pprofile.Profiles(internal.NewProfiles(r.(*otlpcollectorprofile.ExportProfilesServiceRequest), st())))
		},
		unmarshalPB: func(b []byte) (interface{}, error) {
			ld, err := (&pprofile.ProtoUnmarshaler{}).UnmarshalProfiles(b)
			if err != nil {
				return nil, err
			}
			return internal.GetOrigProfiles(internal.Profiles(ld)), nil
		},
		marshalJSON: func(r interface{}) ([]byte, error) {
			return (&pprofile.JSONMarshaler{}).MarshalProfiles(pprofile.Profiles(internal.NewProfiles(r.(*otlpcollectorprofile.ExportProfilesServiceRequest), st())))
		},
		unmarshalJSON: func(b []byte) (interface{}, error) {
			ld, err := (&pprofile.JSONUnmarshaler{}).UnmarshalProfiles(b)
			if err != nil {
				return nil, err
			}
			return internal.GetOrigProfiles(internal.Profiles(ld)), nil
		},
		reqMarshalPB: func(r interface{}) ([]byte, error) {
			return NewExportRequestFromProfiles(pprofile.Profiles(internal.NewProfiles(r.(*otlpcollectorprofile.ExportProfilesServiceRequest), st()))).MarshalProto()
		},
		reqUnmarshalPB: func(b []byte) (interface{}, error) {
			er := NewExportRequest()
			if err := er.UnmarshalProto(b); err != nil {
				return nil, err
			}
			return er.orig, nil
		},
		reqMarshalJSON: func(r interface{}) ([]byte, error) {
			return NewExportRequestFromProfiles(pprofile.Profiles(internal.NewProfiles(r.(*otlpcollectorprofile.ExportProfilesServiceRequest), st()))).MarshalJSON()
		},
		reqUnmarshalJSON: func(b []byte) (interface{}, error) {
			er := NewExportRequest()
			if err := er.UnmarshalJSON(b); err != nil {
				return nil, err
			}
			return er.orig, nil
		},
		newResp: func(n int64, m string) vRespAPI {
			r := NewExportResponse()
			r.PartialSuccess().SetRejectedProfiles(n)
			r.PartialSuccess().SetErrorMessage(m)
			return r
		},
		respGet: func(r vRespAPI) (int64, string) {
			x := r.(ExportResponse)
			return x.PartialSuccess().RejectedProfiles(), x.PartialSuccess().ErrorMessage()
		},
	}
	sigs := []*vSignal{logs, metrics, traces, profiles}
	for _, sg := range sigs {
		vSafeSignal(sg)
	}
	return sigs
}

func vBuildSchema() (*vSchema, []*vSignal, error) {
	s := &vSchema{byType: map[reflect.Type]*vMsg{}}
	sigs := vSignals()
	var err error
	func() {
		defer func() {
			if r := recover(); r != nil {
				err = fmt.Errorf("schema: %v", r)
			}
		}()
		for _, sg := range sigs {
			s.add(sg.req)
			s.add(sg.resp)
			s.add(sg.data)
		}
	}()
	if err != nil {
		return nil, nil, err
	}
	for _, m := range s.msgs {
		if err := s.probeOrder(m); err != nil {
			return nil, nil, err
		}
	}
	return s, sigs, nil
}

// TestVerifC08Schema dumps the schema as coq/Generated/OtlpProto.v (path in VERIF_C08_SCHEMA_OUT).
func TestVerifC08Schema(t *testing.T) {
	out := vOpen()
	defer out.Close()
	vCur.out = out
	defer vHarnessRecover(t)
	s, sigs, err := vBuildSchema()
	if err != nil {
		t.Fatal(err)
	}
	if pj := os.Getenv("VERIF_C08_JSON_OUT"); pj != "" {
		if err := os.WriteFile(pj, []byte(s.coqDecoders(sigs, out.Stat)), 0o644); err != nil {
			t.Fatal(err)
		}
	}
	p := os.Getenv("VERIF_C08_SCHEMA_OUT")
	if p == "" {
		t.Fatal("VERIF_C08_SCHEMA_OUT not set")
	}
	if err := os.WriteFile(p, []byte(s.coq()), 0o644); err != nil {
		t.Fatal(err)
	}
	nf := 0
	for _, m := range s.msgs {
		nf += len(m.fields)
	}
	out.Stat("schema_order_guessed", vSchemaGuessed)
	out.Stat("schema_messages", len(s.msgs))
	out.Stat("schema_fields", nf)
}

// ---- running implementation code under a deadline, recovering panics ---------------------------
func vGuard(out *vOut, what, term string, f func()) (ok bool) {
	type res struct {
		r       interface{}
		harness bool
		where   string
	}
	done := make(chan *res, 1)
	vCur.term = term
	go func() {
		defer func() {
			if r := recover(); r != nil {
				h, where := vPanicOrigin()
				done <- &res{r, h, where}
				return
			}
			done <- nil
		}()
		f()
	}()
	select {
	case r := <-done:
		if r == nil {
			return true
		}
		if r.harness {
			vHarnessBug(fmt.Sprintf("%s: %v at %s", what, r.r, r.where))
			return false
		}
		out.Oracle("panic", term, fmt.Sprintf("%s panicked: %v (at %s)", what, r.r, r.where))
		return false
	case <-time.After(20 * time.Second):
		out.Oracle("hang", term, what+" did not return within 20 s")
		return false
	}
}

// ---- known-defect normalisation on trees (what the proto round trip is KNOWN to change) -----------
type vNormInfo struct{ negzero, nilinner int }

func (s *vSchema) normProto(m *vMsg, t *vT, info *vNormInfo) {
	for i, f := range m.fields {
		c := t.kids[i]
		switch f.card {
		case vcOpt:
			if f.ty == vtScalar && f.skind == "SDouble" && c.n == 1<<63 {
				c.n = 0
				info.negzero++
			}
			if f.ty == vtMsg {
				s.normProto(f.msg, c, info)
			}
		case vcOneof:
			if c.k == 's' {
				if c.kids[0].k == 'n' {
					t.kids[i] = vtNone()
					info.nilinner++
				} else if f.ty == vtMsg {
					s.normProto(f.msg, c.kids[0], info)
				}
			}
		case vcRep:
			if f.ty == vtMsg {
				for _, e := range c.kids {
					s.normProto(f.msg, e, info)
				}
			}
		}
	}
}

// a case with the two further observations (a second value, a second byte string; "=" = identical to the first)
func vCaseTermO(kind int, msg int, val string, b []byte, size int, jv string, back string, b2 []byte, b2same bool) string {
	h2 := `"="%string`
	if !b2same {
		h2 = vHex(b2) + "%string"
	}
	return fmt.Sprintf("mkcaseo %d %d (%s) %s %d (%s) (%s) %s", kind, msg, val, vHex(b), size, jv, back, h2)
}

func vCaseTerm(kind int, msg int, val string, b []byte, size int) string {
	return fmt.Sprintf("mkcase %d %d (%s) %s %d", kind, msg, val, vHex(b), size)
}

type vRun struct {
	t     *testing.T
	out   *vOut
	s     *vSchema
	sigs  []*vSignal
	rng   *vRand
	hist  map[string]int
	jpool []vJSONDoc
	quiet bool // oracle only: do not emit correspondence cases
}

func (r *vRun) emit(nontrivial bool, term string) {
	if !r.quiet {
		r.caseOut(nontrivial, term)
	}
}

// a correspondence case; very large terms (payloads with 16 KiB strings) are left to the direct oracle: a
// single Coq definition of several hundred KB overflows coqc's stack while it is being read
func (r *vRun) caseOut(nontrivial bool, term string) {
	if len(term) > 40000 {
		r.hist["case_too_large_for_coq"]++
		return
	}
	r.out.Case(nontrivial, term)
}

// value -> bytes on message type m through the generated Marshal/Size/Unmarshal
func (r *vRun) protoValueCase(m *vMsg, v reflect.Value, marshal func() ([]byte, error), size func() int,
	unmarshal func([]byte) (reflect.Value, error), label string) []byte {
	t0 := r.s.tree(m, v)
	var b []byte
	var err error
	var sz int
	term0 := vCaseTerm(0, m.id, t0.String(), nil, 0)
	if !vGuard(r.out, label+" Marshal", term0, func() { b, err = marshal(); sz = size() }) {
		return nil
	}
	if err != nil {
		r.out.Oracle("marshal-error", term0, fmt.Sprintf("%s: %v", label, err))
		return nil
	}
	term := vCaseTerm(0, m.id, t0.String(), b, sz)
	// what is observed after this point goes into the case as well (Harness.v obs_back / obs_bytes2)
	backObs, b2Obs, b2Same := "VRep []", []byte(nil), true
	defer func() {
		r.emit(len(b) > 2, vCaseTermO(0, m.id, t0.String(), b, sz, "JNull", backObs, b2Obs, b2Same))
	}()
	r.hist[fmt.Sprintf("bytes_%s_%04d", label, len(b)/256*256)]++
	if sz != len(b) {
		r.out.Oracle("size", term, fmt.Sprintf("%s: Size()=%d but len(Marshal())=%d", label, sz, len(b)))
	}
	// round trip on the implementation alone
	var back reflect.Value
	if !vGuard(r.out, label+" Unmarshal", term, func() { back, err = unmarshal(b) }) {
		return b
	}
	if err != nil {
		r.out.Oracle("proto-roundtrip", term, fmt.Sprintf("%s: Unmarshal(Marshal(v)) fails: %v", label, err))
		return b
	}
	t1 := r.s.tree(m, back)
	backObs = "VNone"
	if t1.String() != t0.String() {
		backObs = "VSome (" + t1.String() + ")"
		exp := t0.clone()
		var info vNormInfo
		r.s.normProto(m, exp, &info)
		if t1.String() == exp.String() {
			if info.negzero > 0 {
				r.out.Oracle("proto-roundtrip", term, fmt.Sprintf("known:negative-zero %s: -0.0 in a singular double field is not marshalled (gogo `!= 0` guard) and comes back as +0.0 (%d field(s))", label, info.negzero))
			}
			if info.nilinner > 0 {
				r.out.Oracle("proto-roundtrip", term, fmt.Sprintf("%s: a oneof member holding a nil []byte is not marshalled and comes back as an unset value (%d member(s)) — the public API must never build one (NewValueBytes / SetEmptyBytes store an empty non-nil slice)", label, info.nilinner))
			}
		} else {
			r.out.Oracle("proto-roundtrip", term, fmt.Sprintf("%s: Unmarshal(Marshal(v)) differs from v: %s", label, vDiff(t0, t1)))
		}
	}
	if pb, ok := back.Addr().Interface().(vPB); ok {
		b2, err2 := vMarshal(pb)
		if err2 == nil && !bytes.Equal(b2, b) {
			b2Obs, b2Same = b2, false
		}
		if err2 != nil || !bytes.Equal(b2, b) {
			r.out.Oracle("proto-remarshal", term, fmt.Sprintf("%s: Marshal(Unmarshal(Marshal(v))) != Marshal(v) (err=%v)", label, err2))
		}
	}
	return b
}

// first difference between two trees, as a path
func vDiff(a, b *vT) string {
	var rec func(a, b *vT, path string) string
	rec = func(a, b *vT, path string) string {
		if a.k != b.k || a.n != b.n || !bytes.Equal(a.b, b.b) || len(a.kids) != len(b.kids) {
			x, y := a.String(), b.String()
			if len(x) > 120 {
				x = x[:120] + "…"
			}
			if len(y) > 120 {
				y = y[:120] + "…"
			}
			return fmt.Sprintf("at %s: %s  vs  %s", path, x, y)
		}
		for i := range a.kids {
			if d := rec(a.kids[i], b.kids[i], fmt.Sprintf("%s/%d", path, i)); d != "" {
				return d
			}
		}
		return ""
	}
	return rec(a, b, "")
}

func vUnmarshalInto(typ reflect.Type) func([]byte) (reflect.Value, error) {
	return func(b []byte) (reflect.Value, error) {
		p := reflect.New(typ)
		err := vUnmarshal(p.Interface().(vPB), b)
		return p.Elem(), err
	}
}

func TestVerifC08(t *testing.T) {
	out := vOpen()
	defer out.Close()
	vCur.out = out
	defer vHarnessRecover(t)
	defer vFailOnHarnessBugs(t)
	switch os.Getenv("VERIF_C08_SELFTEST") { // self-test of the panic classification (see NOTES.md)
	case "harness-panic":
		var a []int
		_ = a[3]
	case "harness-panic-guarded":
		vGuard(out, "selftest", "mkcase 3 0 (VNone) \"\" 0", func() {
			var a []int
			_ = a[3]
		})
	}
	s, sigs, err := vBuildSchema()
	if err != nil {
		t.Fatal(err)
	}
	r := &vRun{t: t, out: out, s: s, sigs: sigs, rng: vNewRand(8), hist: map[string]int{}}
	r.hist["schema_order_guessed"] = vSchemaGuessed
	defer func() {
		for k, v := range r.hist {
			out.Stat(k, v)
		}
	}()
	var pool [][2]interface{} // (msg, valid encoding) for the byte-level part

	// (A) whole payloads of the four signals through the public pdata API
	nA := vBudget(60, 15)
	for _, sg := range sigs {
		m := s.byType[sg.req]
		for i := 0; i < nA; i++ {
			o := &vGenOpt{rng: r.rng, budget: 4 + r.rng.Intn(30), quirks: r.rng.Intn(14) == 0, hist: r.hist}
			v := s.gen(o, m, 0)
			req := v.Addr().Interface()
			b := r.protoValueCase(m, v,
				func() ([]byte, error) { return sg.marshalPB(req) },
				func() int { return sg.sizePB(req) },
				func(b []byte) (reflect.Value, error) {
					x, err := sg.unmarshalPB(b)
					if err != nil {
						return reflect.Value{}, err
					}
					return reflect.ValueOf(x).Elem(), nil
				}, sg.name)
			if b == nil {
				continue
			}
			pool = append(pool, [2]interface{}{m, b})
			// the export-request wrapper marshals the same bytes, and decodes them to the same value
			b2, err := sg.reqMarshalPB(req)
			if err != nil || !bytes.Equal(b, b2) {
				out.Oracle("wrapper-agree", vCaseTerm(0, m.id, s.tree(m, v).String(), b, len(b)), fmt.Sprintf("%s: ExportRequest.MarshalProto differs from ProtoMarshaler (err=%v)", sg.name, err))
			}
			x, err := sg.reqUnmarshalPB(b)
			if err != nil {
				out.Oracle("wrapper-agree", vCaseTerm(0, m.id, s.tree(m, v).String(), b, len(b)), fmt.Sprintf("%s: ExportRequest.UnmarshalProto fails: %v", sg.name, err))
			} else {
				y, _ := sg.unmarshalPB(b)
				if s.tree(m, reflect.ValueOf(x).Elem()).String() != s.tree(m, reflect.ValueOf(y).Elem()).String() {
					out.Oracle("wrapper-agree", vCaseTerm(0, m.id, s.tree(m, v).String(), b, len(b)), sg.name+": ExportRequest.UnmarshalProto and ProtoUnmarshaler decode the same bytes differently")
				}
			}
			r.sizersCase(sg, m, v)
			r.sizersCase(sg, m, v)
			r.jsonChecks(sg, m, v, b)
		}
	}

	// (B) every message type of the schema on its own (generated Marshal/Size/Unmarshal directly)
	nB := vBudget(14, 15)
	for _, m := range s.msgs {
		for i := 0; i < nB; i++ {
			o := &vGenOpt{rng: r.rng, budget: 1 + r.rng.Intn(12), quirks: r.rng.Intn(14) == 0, deprecated: r.rng.Intn(3) == 0, hist: r.hist}
			v := s.gen(o, m, 0)
			pb := v.Addr().Interface().(vPB)
			b := r.protoValueCase(m, v, func() ([]byte, error) { return vMarshal(pb) }, func() int { return vSize(pb) }, vUnmarshalInto(m.typ), "msg")
			if b != nil {
				pool = append(pool, [2]interface{}{m, b})
			}
		}
	}

	// (C) export responses through the wrappers' API
	nC := vBudget(25, 10)
	for _, sg := range sigs {
		m := s.byType[sg.resp]
		for i := 0; i < nC; i++ {
			o := &vGenOpt{rng: r.rng, budget: 3, hist: r.hist}
			v := s.gen(o, m, 0)
			ps := v.Field(0)
			rej, msg := ps.Field(0).Int(), ps.Field(1).String()
			api := sg.newResp(rej, msg)
			b := r.protoValueCase(m, v, api.MarshalProto, func() int { return vSize(v.Addr().Interface().(vPB)) },
				func(b []byte) (reflect.Value, error) {
					a2 := sg.newResp(0, "")
					if err := a2.UnmarshalProto(b); err != nil {
						return reflect.Value{}, err
					}
					n, e := sg.respGet(a2)
					w := reflect.New(m.typ).Elem()
					w.Field(0).Field(0).SetInt(n)
					w.Field(0).Field(1).SetString(e)
					return w, nil
				}, sg.name+"-response")
			if b != nil {
				pool = append(pool, [2]interface{}{m, b})
				r.jsonResponseChecks(sg, m, v, api, b)
			}
		}
	}

	// (D) byte strings offered to the unmarshalers
	r.byteCases(pool)

	// (E) texts offered to the JSON unmarshalers
	r.jsonByteCases()

	// (F) every field of every reachable message with its extreme values, one at a time
	r.directedCases()

	// (G) every field with malformed and boundary JSON tokens, one at a time
	r.hostileJSONCases()
	r.hostilePBCases()

	// (I) objects whose entries interact: oneof members, duplicate keys, both spellings
	r.multiKeyCases()

	// (K) regression streams of the repaired findings: empty Bytes values through every API path, invalid UTF-8
	r.regressionStreams()

	// (L) independence of successive and concurrent Marshal calls, of decoded values from their input
	r.independenceCases()
}
