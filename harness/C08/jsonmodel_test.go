// C08 harness, part 5: the tie of the JSON tree model (coq/C08/Json.v).
//   - jvTerm: a JSON document parsed along the schema into a Coq term of type jv (numbers kept
//     as integer / double-bits tokens, base64 and hex strings decoded — the character level is
//     the oracle part of the JSON model);
//   - the decoder table of the hand-written jsoniter decoders, obtained by RUNNING them: for every
//     message reachable from the four request roots, every field, both spellings of its key and
//     every token form, a minimal document is decoded and the field that changed is observed
//     (coq/Generated/C08JsonDecoders.v, regenerated on every run).
package pprofileotlp

import (
	"encoding/base64"
	"encoding/hex"
	stdjson "encoding/json"
	"fmt"
	"math"
	"math/big"
	"reflect"
	"sort"
	"strconv"
	"strings"
)

func vCoqStr(s string) string {
	return `"` + strings.ReplaceAll(s, `"`, `""`) + `"%string`
}

func vIsIntLit(s string) bool {
	return !strings.ContainsAny(s, ".eE")
}

// generic conversion (no schema information)
func vJVGeneric(x interface{}) string {
	switch t := x.(type) {
	case nil:
		return "JNull"
	case bool:
		if t {
			return "JBool true"
		}
		return "JBool false"
	case stdjson.Number:
		if vIsIntLit(string(t)) {
			if z, ok := new(big.Int).SetString(string(t), 10); ok {
				return fmt.Sprintf("JInt (%s)", z.String())
			}
		}
		f, _ := strconv.ParseFloat(string(t), 64)
		return fmt.Sprintf("JFloat %d", math.Float64bits(f))
	case string:
		return "JStr (hex " + vHex([]byte(t)) + ")"
	case []interface{}:
		var p []string
		for _, e := range t {
			p = append(p, vJVGeneric(e))
		}
		return "JArr [" + strings.Join(p, "; ") + "]"
	case vOrdObj:
		var p []string
		for _, kv := range t {
			p = append(p, "("+vCoqStr(kv.k)+", "+vJVGeneric(kv.v)+")")
		}
		return "JObj [" + strings.Join(p, "; ") + "]"
	case map[string]interface{}:
		var ks []string
		for k := range t {
			ks = append(ks, k)
		}
		sort.Strings(ks)
		var p []string
		for _, k := range ks {
			p = append(p, "("+vCoqStr(k)+", "+vJVGeneric(t[k])+")")
		}
		return "JObj [" + strings.Join(p, "; ") + "]"
	}
	return "JNull"
}

func (s *vSchema) jvOne(f *vField, x interface{}) string {
	switch f.ty {
	case vtMsg:
		return s.jvTerm(f.msg, x)
	case vtScalar:
		if str, ok := x.(string); ok && f.skind != "SDouble" && f.skind != "SBool" {
			if z, ok := new(big.Int).SetString(str, 10); ok && z.String() == str {
				return fmt.Sprintf("JIntStr (%s)", z.String())
			}
		}
		if str, ok := x.(string); ok && f.skind == "SDouble" && str != "NaN" && str != "Infinity" && str != "-Infinity" {
			if fl, err := strconv.ParseFloat(str, 64); err == nil {
				return fmt.Sprintf("JFloatStr %d", math.Float64bits(fl))
			}
		}
		if n, ok := x.(stdjson.Number); ok && f.skind == "SDouble" {
			fl, _ := strconv.ParseFloat(string(n), 64)
			return fmt.Sprintf("JFloat %d", math.Float64bits(fl))
		}
	case vtBytes:
		if str, ok := x.(string); ok {
			if b, err := base64.StdEncoding.DecodeString(str); err == nil {
				return "JB64 (hex " + vHex(b) + ")"
			}
		}
	case vtID:
		if str, ok := x.(string); ok {
			if b, err := hex.DecodeString(str); err == nil {
				return "JHex (hex " + vHex(b) + ")"
			}
		}
	}
	return vJVGeneric(x)
}

// a document that is (meant to be) message m, as a Coq term of type jv
func (s *vSchema) jvTerm(m *vMsg, node interface{}) string {
	var entries vOrdObj
	switch t := node.(type) {
	case vOrdObj: // entries in document order, duplicates kept
		entries = t
	case map[string]interface{}:
		var ks []string
		for k := range t {
			ks = append(ks, k)
		}
		sort.Strings(ks)
		for _, k := range ks {
			entries = append(entries, vKV{k, t[k]})
		}
	default:
		return vJVGeneric(node)
	}
	var parts []string
	for _, kv := range entries {
		k, v := kv.k, kv.v
		var f *vField
		for _, g := range m.fields {
			if g.jsonName == k || g.name == k {
				f = g
				break
			}
		}
		var t string
		switch {
		case f == nil:
			t = vJVGeneric(v)
		case f.card == vcRep || f.card == vcPacked:
			if arr, ok := v.([]interface{}); ok {
				var p []string
				for _, e := range arr {
					p = append(p, s.jvOne(f, e))
				}
				t = "JArr [" + strings.Join(p, "; ") + "]"
			} else {
				t = vJVGeneric(v)
			}
		default:
			t = s.jvOne(f, v)
		}
		parts = append(parts, "("+vCoqStr(k)+", "+t+")")
	}
	return "JObj [" + strings.Join(parts, "; ") + "]"
}

func vCaseTermJ(kind int, msg int, val string, jv string) string {
	return fmt.Sprintf("mkcasej %d %d (%s) (%s)", kind, msg, val, jv)
}

// ---- decoder table by probing -----------------------------------------------------------------
type vHop struct {
	key string
	arr bool
}

type vProbeRoot struct {
	sg   *vSignal
	path []vHop
	// the root message the path starts at and the public JSON decoder of that root (request: JSONUnmarshaler;
	// response: ExportResponse.UnmarshalJSON, observed through the accessors)
	root      *vMsg
	unmarshal func([]byte) (interface{}, error)
}

func vNest(path []vHop, leaf string) string {
	var sb strings.Builder
	for _, h := range path {
		sb.WriteString(`{"` + h.key + `":`)
		if h.arr {
			sb.WriteString("[")
		}
	}
	sb.WriteString(leaf)
	for i := len(path) - 1; i >= 0; i-- {
		if path[i].arr {
			sb.WriteString("]")
		}
		sb.WriteString("}")
	}
	return sb.String()
}

// first path (camelCase keys) from a request root to every reachable message
func (s *vSchema) jsonPaths(sigs []*vSignal) (map[*vMsg]vProbeRoot, []*vMsg) {
	res := map[*vMsg]vProbeRoot{}
	var order []*vMsg
	for _, sg := range sigs {
		root := s.byType[sg.req]
		if _, ok := res[root]; ok {
			continue
		}
		res[root] = vProbeRoot{sg: sg, root: root, unmarshal: sg.unmarshalJSON}
		order = append(order, root)
		queue := []*vMsg{root}
		for len(queue) > 0 {
			m := queue[0]
			queue = queue[1:]
			for _, f := range m.fields {
				if f.ty != vtMsg {
					continue
				}
				if _, ok := res[f.msg]; ok {
					continue
				}
				p := append(append([]vHop(nil), res[m].path...), vHop{f.jsonName, f.card == vcRep})
				res[f.msg] = vProbeRoot{sg: res[m].sg, path: p, root: res[m].root, unmarshal: res[m].unmarshal}
				order = append(order, f.msg)
				queue = append(queue, f.msg)
			}
		}
	}
	return res, order
}

type vJDec struct {
	msg                        *vMsg
	key                        string
	f                          *vField
	num, str, name, raw, found bool
}

func (s *vSchema) sentinel(m *vMsg) (string, bool) {
	for _, f := range m.fields {
		if f.card == vcRep || f.card == vcPacked {
			continue
		}
		switch {
		case f.ty == vtStr:
			return `{"` + f.jsonName + `":"x"}`, true
		case f.ty == vtScalar && f.skind != "SBool" && f.skind != "SDouble":
			return `{"` + f.jsonName + `":7}`, true
		}
	}
	return "{}", false
}

// does decoding nest(path,{key:token}) change exactly field f of message m, to the expected slot?
func (s *vSchema) probeOne(pr vProbeRoot, root *vMsg, m *vMsg, f *vField, key, token, expect string, base *vT) (ok bool, got string) {
	doc := vNest(pr.path, `{"`+key+`":`+token+`}`)
	var x interface{}
	var err error
	func() {
		defer func() {
			if r := recover(); r != nil {
				err = fmt.Errorf("panic: %v", r)
			}
		}()
		x, err = pr.unmarshal([]byte(doc))
	}()
	if err != nil {
		return false, "error"
	}
	t := s.tree(root, reflect.ValueOf(x).Elem())
	var diffs []vFieldDiff
	s.diffAll(root, base, t, &diffs)
	if len(diffs) == 0 {
		return false, "ignored"
	}
	for _, d := range diffs {
		if d.msg == m.name && d.field == f.name {
			if expect == "" || d.got == expect {
				return true, d.got
			}
			return false, d.got
		}
	}
	if f.ty == vtMsg && expect == "" { // a change below an embedded message
		return true, "nested"
	}
	return false, diffs[0].msg + "." + diffs[0].field
}

// the export responses: root = ExportXServiceResponse, decoded by ExportResponse.UnmarshalJSON
func (s *vSchema) responsePaths(sigs []*vSignal, res map[*vMsg]vProbeRoot, order []*vMsg) []*vMsg {
	for _, sg := range sigs {
		sg := sg
		root := s.byType[sg.resp]
		if _, ok := res[root]; ok {
			continue
		}
		un := func(doc []byte) (interface{}, error) {
			a := sg.newResp(0, "")
			if err := a.UnmarshalJSON(doc); err != nil {
				return nil, err
			}
			n, e := sg.respGet(a)
			w := reflect.New(root.typ)
			w.Elem().Field(0).Field(0).SetInt(n)
			w.Elem().Field(0).Field(1).SetString(e)
			return w.Interface(), nil
		}
		res[root] = vProbeRoot{sg: sg, root: root, unmarshal: un}
		order = append(order, root)
		for _, f := range root.fields {
			if f.ty == vtMsg {
				if _, ok := res[f.msg]; !ok {
					res[f.msg] = vProbeRoot{sg: sg, path: []vHop{{f.jsonName, f.card == vcRep}}, root: root, unmarshal: un}
					order = append(order, f.msg)
				}
			}
		}
	}
	return order
}

func (s *vSchema) probeDecoders(sigs []*vSignal, stat func(string, int)) ([]*vJDec, []*vMsg) {
	paths, order := s.jsonPaths(sigs)
	order = s.responsePaths(sigs, paths, order)
	var res []*vJDec
	for _, m := range order {
		pr := paths[m]
		root := pr.root
		bx, err := pr.unmarshal([]byte(vNest(pr.path, "{}")))
		if err != nil {
			stat("json_probe_unreachable", 1)
			continue
		}
		base := s.tree(root, reflect.ValueOf(bx).Elem())
		for _, f := range m.fields {
			keys := []string{f.jsonName}
			if f.name != f.jsonName {
				keys = append(keys, f.name)
			}
			wrap := func(tok string) string {
				if f.card == vcRep || f.card == vcPacked {
					return "[" + tok + "]"
				}
				return tok
			}
			slot := func(inner string) string {
				switch f.card {
				case vcOneof:
					return "VSome (" + inner + ")"
				case vcRep, vcPacked:
					return "VRep [" + inner + "]"
				}
				return inner
			}
			for _, key := range keys {
				d := &vJDec{msg: m, key: key, f: f}
				switch f.ty {
				case vtScalar:
					switch f.skind {
					case "SBool":
						d.num, _ = s.probeOne(pr, root, m, f, key, wrap("true"), slot("VInt 1"), base)
					case "SDouble":
						e := slot(fmt.Sprintf("VInt %d", math.Float64bits(1.5)))
						d.num, _ = s.probeOne(pr, root, m, f, key, wrap("1.5"), e, base)
						d.str, _ = s.probeOne(pr, root, m, f, key, wrap(`"NaN"`), slot(fmt.Sprintf("VInt %d", math.Float64bits(math.NaN()))), base)
					case "SEnum":
						d.num, _ = s.probeOne(pr, root, m, f, key, wrap("1"), slot("VInt 1"), base)
						if name, ok := f.enumName[1]; ok {
							d.name, _ = s.probeOne(pr, root, m, f, key, wrap(`"`+name+`"`), slot("VInt 1"), base)
						}
					default:
						d.num, _ = s.probeOne(pr, root, m, f, key, wrap("7"), slot("VInt 7"), base)
						d.str, _ = s.probeOne(pr, root, m, f, key, wrap(`"7"`), slot("VInt 7"), base)
					}
				case vtStr:
					d.str, _ = s.probeOne(pr, root, m, f, key, wrap(`"x"`), slot(`VB "78"`), base)
				case vtBytes:
					var got string
					d.str, got = s.probeOne(pr, root, m, f, key, wrap(`"AQI="`), slot(`VB "0102"`), base)
					d.raw = got == slot(`VB "`+hex.EncodeToString([]byte("AQI="))+`"`)
				case vtID:
					id := strings.Repeat("01", f.idLen)
					d.str, _ = s.probeOne(pr, root, m, f, key, wrap(`"`+id+`"`), slot(`VB "`+id+`"`), base)
				case vtMsg:
					sen, _ := s.sentinel(f.msg)
					d.num, _ = s.probeOne(pr, root, m, f, key, wrap(sen), "", base)
				}
				d.found = d.num || d.str || d.name || d.raw
				if d.found {
					res = append(res, d)
				} else {
					stat("json_probe_key_not_decoded", 1)
				}
			}
		}
	}
	return res, order
}

func vCoqBool(b bool) string {
	if b {
		return "true"
	}
	return "false"
}

func (s *vSchema) coqDecoders(sigs []*vSignal, stat func(string, int)) string {
	decs, order := s.probeDecoders(sigs, stat)
	var sb strings.Builder
	sb.WriteString("(* GENERATED on every check run by harness/C08 (TestVerifC08Schema): the decoder table of the\n")
	sb.WriteString("   hand-written jsoniter decoders (pdata/*/json.go, pdata/internal/json), observed by running them\n")
	sb.WriteString("   on one minimal document per (message, key, token form).  Do not edit. *)\n")
	sb.WriteString("From Verif Require Import Common.Base C08.Model C08.Json.\nFrom Coq Require Import String.\nLocal Open Scope N_scope.\nLocal Open Scope string_scope.\n\n")
	sb.WriteString("Definition OtlpJsonReachable : list nat := [")
	for i, m := range order {
		if i > 0 {
			sb.WriteString("; ")
		}
		fmt.Fprintf(&sb, "%d%%nat", m.id)
	}
	sb.WriteString("]%list.\n\n(* mkJ message key field-number  number/native-token  string-token  enum-name  bytes-read-raw *)\n")
	sb.WriteString("Definition OtlpJsonDecoders : list jdec := [\n")
	for i, d := range decs {
		sep := ";"
		if i == len(decs)-1 {
			sep = ""
		}
		fmt.Fprintf(&sb, "  mkJ %d %s %d %s %s %s %s%s\n", d.msg.id, vCoqStr(d.key), d.f.num, vCoqBool(d.num), vCoqBool(d.str), vCoqBool(d.name), vCoqBool(d.raw), sep)
	}
	sb.WriteString("]%list.\n\n(* enum names: ((message, field number), [(name, value in the 64-bit view)]) *)\n")
	sb.WriteString("Definition OtlpEnums : enums := [\n")
	first := true
	for _, m := range s.msgs {
		for _, f := range m.fields {
			if f.skind != "SEnum" {
				continue
			}
			var vals []int
			for v := range f.enumName {
				vals = append(vals, int(v))
			}
			sort.Ints(vals)
			var items []string
			for _, v := range vals {
				items = append(items, fmt.Sprintf("(hex %s, %d)", vHex([]byte(f.enumName[int32(v)])), uint64(int64(v))))
			}
			if !first {
				sb.WriteString(";\n")
			}
			first = false
			fmt.Fprintf(&sb, "  ((%d%%nat, %d), [%s])", m.id, f.num, strings.Join(items, "; "))
		}
	}
	sb.WriteString("\n]%list.\n")
	stat("json_decoder_entries", len(decs))
	stat("json_reachable_messages", len(order))
	return sb.String()
}
