// C08 harness, part 6: a directed pass over the value space the property quantifies over — for
// EVERY message reachable from the four request roots and EVERY field of it, a payload that
// reaches the message and sets just that field to each of its extreme values (integer
// boundaries incl. > 2^53, NaN / +-Inf / -0 / denormal / max doubles, every enum value and an
// undefined one, non-ASCII strings, 0x00/0xff bytes, all-0xff ids).  Each payload goes through
// the same protobuf and JSON oracles (round trips, JSON->proto agreement, alternate token forms)
// as the random ones; one in twelve is also a correspondence case.
package pprofileotlp

import (
	"math"
	"reflect"
	"sort"
	"strings"
)

type vFPath struct {
	sg   *vSignal
	hops []*vField
}

func (s *vSchema) fieldPaths(sigs []*vSignal) (map[*vMsg]vFPath, []*vMsg) {
	res := map[*vMsg]vFPath{}
	var order []*vMsg
	for _, sg := range sigs {
		root := s.byType[sg.req]
		if _, ok := res[root]; ok {
			continue
		}
		res[root] = vFPath{sg, nil}
		order = append(order, root)
		queue := []*vMsg{root}
		for len(queue) > 0 {
			m := queue[0]
			queue = queue[1:]
			for _, f := range m.fields {
				if f.ty != vtMsg || f.num == 1000 {
					continue
				}
				if _, ok := res[f.msg]; ok {
					continue
				}
				res[f.msg] = vFPath{res[m].sg, append(append([]*vField(nil), res[m].hops...), f)}
				order = append(order, f.msg)
				queue = append(queue, f.msg)
			}
		}
	}
	return res, order
}

// a root value in which the path is instantiated; returns the root and the (addressable) leaf message
func (s *vSchema) buildAlong(root *vMsg, hops []*vField) (reflect.Value, reflect.Value) {
	rootv := reflect.New(root.typ).Elem()
	cur := rootv
	for _, f := range hops {
		fv := cur.Field(f.fieldIdx)
		switch f.card {
		case vcOpt:
			cur = fv
		case vcOneof:
			w := reflect.New(f.wrapper)
			child := reflect.New(f.msg.typ)
			w.Elem().Field(0).Set(child)
			fv.Set(w)
			cur = child.Elem()
		default:
			sl := reflect.MakeSlice(f.goType, 1, 1)
			if f.goType.Elem().Kind() == reflect.Ptr {
				child := reflect.New(f.msg.typ)
				sl.Index(0).Set(child)
				fv.Set(sl)
				cur = child.Elem()
			} else {
				fv.Set(sl)
				cur = fv.Index(0)
			}
		}
	}
	return rootv, cur
}

var vNegZeroDone, vNilBytesDone bool

func vExtremes(f *vField) []uint64 {
	switch f.skind {
	case "SU64", "SFix64", "SI64", "SSFix64":
		out := []uint64{1, 1<<53 + 1, 1234567890123456789, 1<<63 - 1, 1 << 63, 1<<64 - 1, uint64(1<<64 - (1<<53 + 1))}
		for k := uint(1); k <= 9; k++ { // both sides of every varint size boundary (sovX)
			out = append(out, 1<<(7*k)-1, 1<<(7*k))
		}
		return out
	case "SU32", "SFix32", "SI32", "SZig32":
		return []uint64{1, 1<<31 - 1, 1 << 31, 1<<32 - 1}
	case "SBool":
		return []uint64{1}
	case "SEnum":
		var ks []int
		for k := range f.enumName {
			if k != 0 {
				ks = append(ks, int(k))
			}
		}
		sort.Ints(ks)
		out := []uint64{99, uint64(1<<64 - 1)}
		for _, k := range ks {
			out = append(out, uint64(int64(k)))
		}
		return out
	case "SDouble":
		out := []uint64{math.Float64bits(math.NaN()), 0x7ff0000000000000, 0xfff0000000000000, 1, 0x7fefffffffffffff, 0x3fb999999999999a, 0xc340000000000001}
		if f.card != vcOpt || !vNegZeroDone {
			// -0.0 is dropped in a singular field (known finding C08-NEGZERO): exercised on ONE such
			// field per run so that the finding reproduces on every seed, and on every non-singular field
			if f.card == vcOpt {
				vNegZeroDone = true
			}
			out = append(out, 1<<63)
		}
		return out
	}
	return nil
}

// set field f of the leaf message to one value
func (s *vSchema) setLeaf(leaf reflect.Value, f *vField, set func(x reflect.Value)) {
	fv := leaf.Field(f.fieldIdx)
	switch f.card {
	case vcOpt:
		set(fv)
	case vcOneof:
		w := reflect.New(f.wrapper)
		set(w.Elem().Field(0))
		fv.Set(w)
	default:
		sl := reflect.MakeSlice(f.goType, 1, 1)
		set(sl.Index(0))
		fv.Set(sl)
	}
}

func (r *vRun) directedCases() {
	vNegZeroDone, vNilBytesDone = false, false
	paths, order := r.s.fieldPaths(r.sigs)
	n := 0
	for _, m := range order {
		p := paths[m]
		root := r.s.byType[p.sg.req]
		for _, f := range m.fields {
			if f.num == 1000 || f.ty == vtMsg {
				continue
			}
			var setters []func(x reflect.Value)
			switch f.ty {
			case vtScalar:
				for _, bits := range vExtremes(f) {
					b := bits
					setters = append(setters, func(x reflect.Value) { vSetScalar(x, b) })
				}
			case vtStr:
				setters = append(setters, func(x reflect.Value) { x.SetString("é\"\\\n <世>") })
				if n%7 == 0 { // lengths on both sides of the 1-/2-/3-byte length prefix
					for _, l := range []int{127, 128, 16383, 16384} {
						ll := l
						setters = append(setters, func(x reflect.Value) { x.SetString(strings.Repeat("a", ll)) })
					}
				}
			case vtBytes:
				setters = append(setters, func(x reflect.Value) { x.SetBytes([]byte{0, 255, 128}) }, func(x reflect.Value) { x.SetBytes([]byte{}) })
				if f.card == vcOneof && !vNilBytesDone {
					vNilBytesDone = true                              // Value.SetEmptyBytes(): known finding C08-EMPTYBYTES, once per run
					setters = append(setters, func(x reflect.Value) { // what Value.SetEmptyBytes() stores (nil as the code stands)
						if w := vAPIEmptyBytes(f.wrapper); w.IsValid() {
							x.Set(w.Elem().Field(0))
						}
					})
				}
			case vtID:
				setters = append(setters, func(x reflect.Value) {
					for i := 0; i < x.Len(); i++ {
						x.Index(i).SetUint(255)
					}
				})
			}
			for _, set := range setters {
				v, leaf := r.s.buildAlong(root, p.hops)
				r.s.setLeaf(leaf, f, set)
				n++
				r.quiet = n%12 != 0
				sg := p.sg
				req := v.Addr().Interface()
				b := r.protoValueCase(root, v,
					func() ([]byte, error) { return sg.marshalPB(req) },
					func() int { return sg.sizePB(req) },
					func(b []byte) (reflect.Value, error) {
						x, err := sg.unmarshalPB(b)
						if err != nil {
							return reflect.Value{}, err
						}
						return reflect.ValueOf(x).Elem(), nil
					}, sg.name+"-directed")
				if b != nil {
					r.jsonChecks(sg, root, v, b)
				}
				r.quiet = false
				r.hist["directed_"+f.skind+vTyName(f)]++
			}
		}
	}
	r.hist["directed_total"] = n
}

func vTyName(f *vField) string {
	switch f.ty {
	case vtStr:
		return "string"
	case vtBytes:
		return "bytes"
	case vtID:
		return "id"
	}
	return ""
}
