// C08 harness, part 9: the public per-element sizers of ProtoMarshaler (ResourceLogsSize, ScopeLogsSize,
// LogRecordSize, …, NumberDataPointSize, …, ProfileSize — what the batching sizers use).  Clause "the
// reported protobuf size equals the length of the encoding", for every element of every generated
// payload: XSize(element) = len(generated Marshal of that element).
package pprofileotlp

import (
	"fmt"
	"reflect"

	"go.opentelemetry.io/collector/pdata/internal"
	otlpcollectorlog "go.opentelemetry.io/collector/pdata/internal/data/protogen/collector/logs/v1"
	otlpcollectormetrics "go.opentelemetry.io/collector/pdata/internal/data/protogen/collector/metrics/v1"
	otlpcollectorprofile "go.opentelemetry.io/collector/pdata/internal/data/protogen/collector/profiles/v1development"
	otlpcollectortrace "go.opentelemetry.io/collector/pdata/internal/data/protogen/collector/trace/v1"
	"go.opentelemetry.io/collector/pdata/pcommon"
	"go.opentelemetry.io/collector/pdata/plog"
	"go.opentelemetry.io/collector/pdata/pmetric"
	"go.opentelemetry.io/collector/pdata/pprofile"
	"go.opentelemetry.io/collector/pdata/ptrace"
)

// the i-th element (a struct) of the repeated message field `name` of struct v
func vElem(v reflect.Value, name string, i int) reflect.Value {
	e := v.FieldByName(name).Index(i)
	if e.Kind() == reflect.Ptr {
		e = e.Elem()
	}
	return e
}

func (r *vRun) sizerCheck(term, what string, got int, orig reflect.Value) {
	r.hist["sizer_"+what]++
	b, err := vMarshal(orig.Addr().Interface().(vPB))
	if err != nil {
		return
	}
	if got != len(b) {
		r.out.Oracle("size", term, fmt.Sprintf("ProtoMarshaler.%sSize = %d but the element marshals to %d bytes", what, got, len(b)))
	}
}

// req is the *Export…ServiceRequest of signal sg
func (r *vRun) sizersCase(sg *vSignal, m *vMsg, v reflect.Value) {
	term := vCaseTerm(0, m.id, r.s.tree(m, v).String(), nil, 0)
	st := internal.StateMutable
	vGuard(r.out, sg.name+" per-element sizers", term, func() {
		switch req := v.Addr().Interface().(type) {
		case *otlpcollectorlog.ExportLogsServiceRequest:
			ld := plog.Logs(internal.NewLogs(req, &st))
			pm := &plog.ProtoMarshaler{}
			for i := 0; i < ld.ResourceLogs().Len(); i++ {
				rl, o1 := ld.ResourceLogs().At(i), vElem(v, "ResourceLogs", i)
				r.sizerCheck(term, "ResourceLogs", pm.ResourceLogsSize(rl), o1)
				for j := 0; j < rl.ScopeLogs().Len(); j++ {
					sl, o2 := rl.ScopeLogs().At(j), vElem(o1, "ScopeLogs", j)
					r.sizerCheck(term, "ScopeLogs", pm.ScopeLogsSize(sl), o2)
					for k := 0; k < sl.LogRecords().Len(); k++ {
						r.sizerCheck(term, "LogRecord", pm.LogRecordSize(sl.LogRecords().At(k)), vElem(o2, "LogRecords", k))
					}
				}
			}
		case *otlpcollectortrace.ExportTraceServiceRequest:
			td := ptrace.Traces(internal.NewTraces(req, &st))
			pm := &ptrace.ProtoMarshaler{}
			for i := 0; i < td.ResourceSpans().Len(); i++ {
				rs, o1 := td.ResourceSpans().At(i), vElem(v, "ResourceSpans", i)
				r.sizerCheck(term, "ResourceSpans", pm.ResourceSpansSize(rs), o1)
				for j := 0; j < rs.ScopeSpans().Len(); j++ {
					ss, o2 := rs.ScopeSpans().At(j), vElem(o1, "ScopeSpans", j)
					r.sizerCheck(term, "ScopeSpans", pm.ScopeSpansSize(ss), o2)
					for k := 0; k < ss.Spans().Len(); k++ {
						r.sizerCheck(term, "Span", pm.SpanSize(ss.Spans().At(k)), vElem(o2, "Spans", k))
					}
				}
			}
		case *otlpcollectorprofile.ExportProfilesServiceRequest:
			pd := pprofile.Profiles(internal.NewProfiles(req, &st))
			pm := &pprofile.ProtoMarshaler{}
			for i := 0; i < pd.ResourceProfiles().Len(); i++ {
				rp, o1 := pd.ResourceProfiles().At(i), vElem(v, "ResourceProfiles", i)
				r.sizerCheck(term, "ResourceProfiles", pm.ResourceProfilesSize(rp), o1)
				for j := 0; j < rp.ScopeProfiles().Len(); j++ {
					sp, o2 := rp.ScopeProfiles().At(j), vElem(o1, "ScopeProfiles", j)
					r.sizerCheck(term, "ScopeProfiles", pm.ScopeProfilesSize(sp), o2)
					for k := 0; k < sp.Profiles().Len(); k++ {
						r.sizerCheck(term, "Profile", pm.ProfileSize(sp.Profiles().At(k)), vElem(o2, "Profiles", k))
					}
				}
			}
		case *otlpcollectormetrics.ExportMetricsServiceRequest:
			md := pmetric.Metrics(internal.NewMetrics(req, &st))
			pm := &pmetric.ProtoMarshaler{}
			for i := 0; i < md.ResourceMetrics().Len(); i++ {
				rm, o1 := md.ResourceMetrics().At(i), vElem(v, "ResourceMetrics", i)
				r.sizerCheck(term, "ResourceMetrics", pm.ResourceMetricsSize(rm), o1)
				for j := 0; j < rm.ScopeMetrics().Len(); j++ {
					sm, o2 := rm.ScopeMetrics().At(j), vElem(o1, "ScopeMetrics", j)
					r.sizerCheck(term, "ScopeMetrics", pm.ScopeMetricsSize(sm), o2)
					for k := 0; k < sm.Metrics().Len(); k++ {
						mt, o3 := sm.Metrics().At(k), vElem(o2, "Metrics", k)
						r.sizerCheck(term, "Metric", pm.MetricSize(mt), o3)
						data := o3.FieldByName("Data")
						if data.IsNil() || data.Elem().IsNil() || data.Elem().Elem().Field(0).IsNil() {
							continue
						}
						inner := data.Elem().Elem().Field(0).Elem() // Gauge / Sum / Histogram / … struct
						switch mt.Type() {
						case pmetric.MetricTypeGauge:
							for l := 0; l < mt.Gauge().DataPoints().Len(); l++ {
								r.sizerCheck(term, "NumberDataPoint", pm.NumberDataPointSize(mt.Gauge().DataPoints().At(l)), vElem(inner, "DataPoints", l))
							}
						case pmetric.MetricTypeSum:
							for l := 0; l < mt.Sum().DataPoints().Len(); l++ {
								r.sizerCheck(term, "NumberDataPoint", pm.NumberDataPointSize(mt.Sum().DataPoints().At(l)), vElem(inner, "DataPoints", l))
							}
						case pmetric.MetricTypeHistogram:
							for l := 0; l < mt.Histogram().DataPoints().Len(); l++ {
								r.sizerCheck(term, "HistogramDataPoint", pm.HistogramDataPointSize(mt.Histogram().DataPoints().At(l)), vElem(inner, "DataPoints", l))
							}
						case pmetric.MetricTypeExponentialHistogram:
							for l := 0; l < mt.ExponentialHistogram().DataPoints().Len(); l++ {
								r.sizerCheck(term, "ExponentialHistogramDataPoint", pm.ExponentialHistogramDataPointSize(mt.ExponentialHistogram().DataPoints().At(l)), vElem(inner, "DataPoints", l))
							}
						case pmetric.MetricTypeSummary:
							for l := 0; l < mt.Summary().DataPoints().Len(); l++ {
								r.sizerCheck(term, "SummaryDataPoint", pm.SummaryDataPointSize(mt.Summary().DataPoints().At(l)), vElem(inner, "DataPoints", l))
							}
						}
					}
				}
			}
		}
	})
}

// the oneof wrapper that the public API builds for an empty Bytes value (pcommon.Value.SetEmptyBytes), as a
// reflect.Value of type *wrapper; invalid if the wrapper type is not AnyValue_BytesValue
func vAPIEmptyBytes(wrapper reflect.Type) reflect.Value {
	v := pcommon.NewValueEmpty()
	v.SetEmptyBytes()
	w := reflect.ValueOf(internal.GetOrigValue(internal.Value(v)).Value)
	if !w.IsValid() || w.Type() != reflect.PtrTo(wrapper) {
		return reflect.Value{}
	}
	return w
}
