// C08 harness, part 8: objects in which several entries interact — two members of one oneof group
// (in both orders, and the same member twice), the same key twice, and both spellings of a key.
// The marshalers never write such objects, the decoders must still be total on them and follow the
// document-directed semantics the model states (Json.oj_fields): a later oneof member REPLACES the
// group, a repeated key appends, an embedded message merges, a scalar is last-wins.
//
//	oracle: no panic, returns, wrapper agrees, accepted input re-encodes to a fixed point;
//	correspondence kind 6, TWO-SIDED, on the document parsed with its entries IN ORDER.
package pprofileotlp

import (
	"bytes"
	stdjson "encoding/json"
	"fmt"
	"io"
	"reflect"
	"strings"
)

// an object with its entries in document order, duplicates kept
type vKV struct {
	k string
	v interface{}
}
type vOrdObj []vKV

func vParseOrdered(doc []byte) (interface{}, error) {
	dec := stdjson.NewDecoder(bytes.NewReader(doc))
	dec.UseNumber()
	v, err := vParseOrdValue(dec)
	if err != nil {
		return nil, err
	}
	if _, err := dec.Token(); err != io.EOF {
		return nil, fmt.Errorf("trailing data")
	}
	return v, nil
}

func vParseOrdValue(dec *stdjson.Decoder) (interface{}, error) {
	t, err := dec.Token()
	if err != nil {
		return nil, err
	}
	if d, ok := t.(stdjson.Delim); ok {
		switch d {
		case '{':
			obj := vOrdObj{}
			for dec.More() {
				kt, err := dec.Token()
				if err != nil {
					return nil, err
				}
				k, ok := kt.(string)
				if !ok {
					return nil, fmt.Errorf("key is not a string")
				}
				v, err := vParseOrdValue(dec)
				if err != nil {
					return nil, err
				}
				obj = append(obj, vKV{k, v})
			}
			_, err := dec.Token()
			return obj, err
		case '[':
			arr := []interface{}{}
			for dec.More() {
				v, err := vParseOrdValue(dec)
				if err != nil {
					return nil, err
				}
				arr = append(arr, v)
			}
			_, err := dec.Token()
			return arr, err
		}
		return nil, fmt.Errorf("unexpected delimiter")
	}
	return t, nil
}

// a valid token for field f, two variants
func (s *vSchema) validTok(f *vField, variant int, depth int) string {
	q := func(x string) string { return `"` + x + `"` }
	var tok string
	switch f.ty {
	case vtScalar:
		switch f.skind {
		case "SBool":
			tok = []string{"true", "false"}[variant%2]
		case "SDouble":
			tok = []string{"1.5", "2.5"}[variant%2]
		case "SEnum":
			tok = []string{"1", "2"}[variant%2]
		case "SU64", "SI64", "SFix64", "SSFix64":
			tok = []string{q("7"), "8"}[variant%2]
		default:
			tok = []string{"7", "8"}[variant%2]
		}
	case vtStr:
		tok = []string{q("x"), q("y")}[variant%2]
	case vtBytes:
		tok = []string{q("AQ=="), q("AQI=")}[variant%2]
	case vtID:
		tok = q(strings.Repeat([]string{"a1", "b2"}[variant%2], f.idLen))
	case vtMsg:
		tok = s.objWithKnownField(f.msg, variant, depth)
	}
	if f.card == vcRep || f.card == vcPacked {
		return "[" + tok + "]"
	}
	return tok
}

// an object of message m with (at least) one known field
func (s *vSchema) objWithKnownField(m *vMsg, variant int, depth int) string {
	if depth > 2 {
		return "{}"
	}
	var first *vField
	for _, f := range m.fields {
		if f.num == 1000 {
			continue
		}
		if f.ty != vtMsg {
			return `{"` + f.jsonName + `":` + s.validTok(f, variant, depth+1) + `}`
		}
		if first == nil {
			first = f
		}
	}
	if first != nil {
		return `{"` + first.jsonName + `":` + s.validTok(first, variant, depth+1) + `}`
	}
	return "{}"
}

func (r *vRun) multiKeyCases() {
	paths, order := r.s.jsonPaths(r.sigs)
	n, emitted := 0, 0
	run := func(pr vProbeRoot, root *vMsg, leaf string, what string, asCase bool) {
		doc := []byte(vNest(pr.path, leaf))
		n++
		r.hist["multikey_"+what]++
		term := vCaseTerm(3, root.id, "VNone", doc, 0)
		var x, y interface{}
		var err, err2 error
		if !vGuard(r.out, pr.sg.name+" UnmarshalJSON("+what+")", term, func() { x, err = pr.sg.unmarshalJSON(doc) }) {
			return
		}
		if vGuard(r.out, pr.sg.name+" ExportRequest.UnmarshalJSON("+what+")", term, func() { y, err2 = pr.sg.reqUnmarshalJSON(doc) }) {
			if (err == nil) != (err2 == nil) || (err == nil && r.s.tree(root, reflect.ValueOf(x).Elem()).String() != r.s.tree(root, reflect.ValueOf(y).Elem()).String()) {
				r.out.Oracle("wrapper-agree", term, fmt.Sprintf("%s: JSONUnmarshaler and ExportRequest.UnmarshalJSON disagree on a %s document (%v / %v)", pr.sg.name, what, err, err2))
			}
		}
		if err == nil {
			r.hist["multikey_accepted_"+what]++
			if n%2 == 0 {
				r.jsonDecodeCase(pr.sg, doc, "multikey-"+what)
			}
		}
		if asCase {
			parsed, perr := vParseOrdered(doc)
			if perr != nil {
				return
			}
			val := "VNone"
			if err == nil {
				val = "VSome (" + r.s.tree(root, reflect.ValueOf(x).Elem()).String() + ")"
			}
			r.caseOut(true, vCaseTermJ(6, root.id, val, r.s.jvTerm(root, parsed)))
			emitted++
		}
	}
	for _, m := range order {
		pr := paths[m]
		root := r.s.byType[pr.sg.req]
		// (a) two members of a oneof group, every ordered pair, and the same member twice
		groups := map[int][]*vField{}
		for _, f := range m.fields {
			if f.card == vcOneof {
				groups[f.group] = append(groups[f.group], f)
			}
		}
		for g := 0; g < m.groups; g++ {
			for _, f1 := range groups[g] {
				for _, f2 := range groups[g] {
					leaf := `{"` + f1.jsonName + `":` + r.s.validTok(f1, 0, 0) + `,"` + f2.jsonName + `":` + r.s.validTok(f2, 1, 0) + `}`
					what := "oneof-two-members"
					if f1 == f2 {
						what = "oneof-member-twice"
					}
					run(pr, root, leaf, what, true)
				}
			}
		}
		// (b) the same key twice, and both spellings of a key
		for _, f := range m.fields {
			if f.num == 1000 || f.card == vcOneof {
				continue
			}
			leaf := `{"` + f.jsonName + `":` + r.s.validTok(f, 0, 0) + `,"` + f.jsonName + `":` + r.s.validTok(f, 1, 0) + `}`
			run(pr, root, leaf, "key-twice-"+vCardName(f), n%2 == 0 || f.ty == vtMsg)
			if f.name != f.jsonName {
				leaf = `{"` + f.name + `":` + r.s.validTok(f, 0, 0) + `,"` + f.jsonName + `":` + r.s.validTok(f, 1, 0) + `}`
				run(pr, root, leaf, "both-spellings-"+vCardName(f), n%2 == 0 || f.ty == vtMsg)
			}
		}
	}
	r.hist["multikey_total"] = n
	r.hist["multikey_two_sided_cases"] = emitted
}

func vCardName(f *vField) string {
	switch {
	case f.card == vcRep || f.card == vcPacked:
		return "repeated"
	case f.ty == vtMsg:
		return "message"
	}
	return "scalar"
}
