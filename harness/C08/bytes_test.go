// C08 harness, part 3: byte strings offered to the unmarshalers — valid encodings rewritten at
// the wire level (reordered, duplicated, merged, unknown fields and groups, packed <-> unpacked,
// non-minimal and overlong varints, truncated field numbers, ids of every length), corrupted
// encodings and random bytes.  Oracle: no panic, returns within the deadline, and whatever
// decodes re-encodes to a fixed point.  Correspondence: when the MODEL accepts the bytes the
// implementation accepted them and built the same value (case kinds 1 and 2).
package pprofileotlp

import (
	"bytes"
	"fmt"
	"reflect"
)

func vAppendVarint(b []byte, x uint64) []byte {
	for x >= 0x80 {
		b = append(b, byte(x)|0x80)
		x >>= 7
	}
	return append(b, byte(x))
}

// non-minimal varint: pad continuation bytes up to n bytes in total
func vAppendVarintPadded(b []byte, x uint64, n int) []byte {
	k := 0
	for x >= 0x80 {
		b = append(b, byte(x)|0x80)
		x >>= 7
		k++
	}
	k++
	if k >= n {
		return append(b, byte(x))
	}
	b = append(b, byte(x)|0x80)
	for ; k < n-1; k++ {
		b = append(b, 0x80)
	}
	return append(b, 0)
}

type vPiece struct {
	num      uint64
	wt       int
	tagEnd   int // offset of the first byte after the tag
	payStart int // for wt 2: offset of the payload
	raw      []byte
}

// split a VALID encoding into its top-level fields
func vPieces(b []byte) ([]vPiece, bool) {
	var out []vPiece
	i := 0
	rd := func() (uint64, bool) {
		var x uint64
		for sh := uint(0); ; sh += 7 {
			if i >= len(b) || sh > 63 {
				return 0, false
			}
			c := b[i]
			i++
			x |= uint64(c&0x7f) << sh
			if c < 0x80 {
				return x, true
			}
		}
	}
	for i < len(b) {
		st := i
		w, ok := rd()
		if !ok {
			return nil, false
		}
		p := vPiece{num: w >> 3, wt: int(w & 7), tagEnd: i - st}
		switch p.wt {
		case 0:
			if _, ok := rd(); !ok {
				return nil, false
			}
		case 1:
			i += 8
		case 5:
			i += 4
		case 2:
			l, ok := rd()
			if !ok || l > uint64(len(b)-i) {
				return nil, false
			}
			p.payStart = i - st
			i += int(l)
		default:
			return nil, false
		}
		if i > len(b) {
			return nil, false
		}
		p.raw = b[st:i]
		out = append(out, p)
	}
	return out, true
}

func vJoin(ps []vPiece) []byte {
	var b []byte
	for _, p := range ps {
		b = append(b, p.raw...)
	}
	return b
}

func (m *vMsg) fieldByNum(n uint64) *vField {
	for _, f := range m.fields {
		if uint64(f.num) == n {
			return f
		}
	}
	return nil
}

// an unknown (or deliberately odd) field
func (r *vRun) junkPiece(m *vMsg) ([]byte, string) {
	rng := r.rng
	nums := []uint64{99, 2000, 17, 536870911, 15, 63}
	num := nums[rng.Intn(len(nums))]
	for m.fieldByNum(num) != nil {
		num += 101
	}
	var b []byte
	switch rng.Intn(12) {
	case 0:
		b = vAppendVarint(b, num<<3|0)
		return vAppendVarint(b, rng.U64()>>uint(rng.Intn(64))), "unknown-varint"
	case 1:
		b = vAppendVarint(b, num<<3|1)
		return append(b, 1, 2, 3, 4, 5, 6, 7, 8), "unknown-fixed64"
	case 2:
		b = vAppendVarint(b, num<<3|5)
		return append(b, 1, 2, 3, 4), "unknown-fixed32"
	case 3:
		b = vAppendVarint(b, num<<3|2)
		n := rng.Intn(6)
		b = vAppendVarint(b, uint64(n))
		for i := 0; i < n; i++ {
			b = append(b, byte(rng.U64()))
		}
		return b, "unknown-bytes"
	case 4: // a group, possibly nested, with fields inside
		b = vAppendVarint(b, num<<3|3)
		b = vAppendVarint(b, 1<<3|0)
		b = vAppendVarint(b, 300)
		if rng.Bool() {
			b = vAppendVarint(b, 7<<3|3)
			b = vAppendVarint(b, 2<<3|2)
			b = append(b, 2, 0xff, 0xff)
			b = vAppendVarint(b, 7<<3|4)
		}
		b = vAppendVarint(b, 3<<3|5)
		b = append(b, 9, 9, 9, 9)
		return vAppendVarint(b, num<<3|4), "unknown-group"
	case 5: // group that never ends
		b = vAppendVarint(b, num<<3|3)
		return vAppendVarint(b, 1<<3|0), "unterminated-group"
	case 6:
		return vAppendVarint(b, num<<3|4), "lone-end-group"
	case 7:
		b = vAppendVarint(b, num<<3|uint64(6+rng.Intn(2)))
		return append(b, 0), "wiretype-6-7"
	case 8: // field number 0
		b = vAppendVarint(b, 0<<3|0)
		return append(b, 1), "fieldnum-0"
	case 9: // fieldNum := int32(wire >> 3): a huge field number aliases a small one
		f := m.fields[rng.Intn(len(m.fields))]
		wt := uint64(2)
		if f.ty == vtScalar && f.card != vcPacked {
			wt = map[string]uint64{"varint": 0, "zigzag32": 0, "fixed64": 1, "fixed32": 5}[f.wire]
		}
		b = vAppendVarint(b, (uint64(f.num)+1<<32)<<3|wt)
		switch wt {
		case 0:
			b = append(b, 5)
		case 1:
			b = append(b, 1, 0, 0, 0, 0, 0, 0, 0)
		case 5:
			b = append(b, 1, 0, 0, 0)
		default:
			b = append(b, 0)
		}
		return b, "fieldnum-aliased-by-int32-truncation"
	case 10: // negative int32 field number
		b = vAppendVarint(b, (uint64(1)<<31|5)<<3|0)
		return append(b, 1), "fieldnum-negative-int32"
	default: // known field, wrong wire type
		f := m.fields[rng.Intn(len(m.fields))]
		b = vAppendVarint(b, uint64(f.num)<<3|3)
		return vAppendVarint(b, uint64(f.num)<<3|4), "known-field-as-group"
	}
}

// a crafted occurrence of a known field that a canonical encoder would not produce
func (r *vRun) craftPiece(m *vMsg) ([]byte, string) {
	rng := r.rng
	f := m.fields[rng.Intn(len(m.fields))]
	var b []byte
	switch {
	case f.ty == vtID:
		b = vAppendVarint(b, uint64(f.num)<<3|2)
		n := []int{0, f.idLen, f.idLen, f.idLen - 1, f.idLen + 1, 1}[rng.Intn(6)]
		b = vAppendVarint(b, uint64(n))
		zero := rng.Bool()
		for i := 0; i < n; i++ {
			if zero {
				b = append(b, 0)
			} else {
				b = append(b, byte(1+rng.Intn(255)))
			}
		}
		return b, fmt.Sprintf("id-len-%+d", n-f.idLen)
	case f.ty == vtScalar && f.card != vcPacked && (f.wire == "varint" || f.wire == "zigzag32"):
		b = vAppendVarint(b, uint64(f.num)<<3|0)
		switch rng.Intn(4) {
		case 0: // explicit zero (a canonical encoder omits it)
			return append(b, 0), "explicit-zero"
		case 1: // 10-byte varint whose last byte overflows 64 bits
			for i := 0; i < 9; i++ {
				b = append(b, byte(0x80|rng.Intn(128)))
			}
			return append(b, byte(rng.Intn(128))), "varint-overflowing-64-bits"
		case 2: // 11-byte varint: error
			for i := 0; i < 10; i++ {
				b = append(b, 0x80)
			}
			return append(b, 1), "varint-11-bytes"
		default: // value wider than the field (int32/uint32/bool take the low bits)
			return vAppendVarintPadded(b, rng.U64(), 10), "varint-wider-than-field"
		}
	case f.ty == vtScalar && f.card != vcPacked && f.wire == "fixed64":
		b = vAppendVarint(b, uint64(f.num)<<3|1)
		if rng.Bool() {
			return append(b, 0, 0, 0, 0, 0, 0, 0, 0x80), "explicit-negative-zero"
		}
		return append(b, 0, 0, 0, 0, 0, 0, 0, 0), "explicit-zero"
	case f.card == vcPacked:
		// unpacked occurrence, or a packed blob whose length cuts the last element
		wt := map[string]uint64{"varint": 0, "zigzag32": 0, "fixed64": 1, "fixed32": 5}[f.wire]
		if rng.Bool() {
			b = vAppendVarint(b, uint64(f.num)<<3|wt)
			switch wt {
			case 0:
				return vAppendVarint(b, rng.U64()>>uint(rng.Intn(64))), "packed-field-unpacked"
			case 1:
				return append(b, 1, 2, 3, 4, 5, 6, 7, 8), "packed-field-unpacked"
			}
			return append(b, 1, 2, 3, 4), "packed-field-unpacked"
		}
		b = vAppendVarint(b, uint64(f.num)<<3|2)
		switch wt {
		case 0:
			b = append(b, 3, 0x81, 0x82, 0x83, 0x04) // declared 3 bytes, the element ends at the 4th
		case 1:
			b = append(b, 12, 1, 2, 3, 4, 5, 6, 7, 8, 9, 10, 11, 12, 13, 14, 15, 16)
		default:
			b = append(b, 6, 1, 2, 3, 4, 5, 6, 7, 8)
		}
		return b, "packed-last-element-overruns-length"
	case f.ty == vtMsg:
		b = vAppendVarint(b, uint64(f.num)<<3|2)
		if rng.Bool() {
			return append(b, 0), "empty-embedded-message"
		}
		return vAppendVarintPadded(append(b[:0], vAppendVarintPadded(nil, uint64(f.num)<<3|2, 1+len(b))...), 0, 2+rng.Intn(8)), "non-minimal-length"
	default: // string / bytes
		b = vAppendVarintPadded(b, uint64(f.num)<<3|2, 2+rng.Intn(3))
		return append(b, 2, 'h', 'i'), "non-minimal-tag"
	}
}

// rewrite a valid encoding of message m into another byte string; valid=true when the result is
// still a well-formed encoding by construction
func (r *vRun) mutate(m *vMsg, b []byte, byMsg map[*vMsg][][]byte, depth int) ([]byte, string) {
	rng := r.rng
	ps, ok := vPieces(b)
	if !ok {
		return b, "unsplittable"
	}
	op := rng.Intn(13)
	if len(ps) == 0 && op < 5 {
		op = 5 + rng.Intn(4)
	}
	switch op {
	case 0: // shuffle the fields
		for i := len(ps) - 1; i > 0; i-- {
			j := rng.Intn(i + 1)
			ps[i], ps[j] = ps[j], ps[i]
		}
		return vJoin(ps), "shuffle"
	case 1: // duplicate a field somewhere else
		p := ps[rng.Intn(len(ps))]
		at := rng.Intn(len(ps) + 1)
		ps = append(ps[:at], append([]vPiece{p}, ps[at:]...)...)
		return vJoin(ps), "duplicate"
	case 2, 3: // descend into an embedded message and rewrite it there
		if depth < 5 {
			var idx []int
			for i, p := range ps {
				if f := m.fieldByNum(p.num); f != nil && f.ty == vtMsg && p.wt == 2 {
					idx = append(idx, i)
				}
			}
			if len(idx) > 0 {
				i := idx[rng.Intn(len(idx))]
				f := m.fieldByNum(ps[i].num)
				inner, what := r.mutate(f.msg, ps[i].raw[ps[i].payStart:], byMsg, depth+1)
				nb := append([]byte(nil), ps[i].raw[:ps[i].tagEnd]...)
				nb = vAppendVarint(nb, uint64(len(inner)))
				nb = append(nb, inner...)
				ps[i].raw = nb
				return vJoin(ps), "nested:" + what
			}
		}
		fallthrough
	case 4: // unpack a packed field: one tagged occurrence per element
		for i, p := range ps {
			f := m.fieldByNum(p.num)
			if f == nil || f.card != vcPacked || p.wt != 2 {
				continue
			}
			// (the input may itself be the product of an earlier rewrite or a corruption: the payload need
			// not be a whole number of elements — then this operator does not apply)
			pay := p.raw[p.payStart:]
			var nb []byte
			wt := map[string]uint64{"varint": 0, "zigzag32": 0, "fixed64": 1, "fixed32": 5}[f.wire]
			whole := true
			for len(pay) > 0 {
				n := 0
				switch wt {
				case 0:
					for n < len(pay) && pay[n] >= 0x80 {
						n++
					}
					n++
				case 1:
					n = 8
				default:
					n = 4
				}
				if n > len(pay) {
					whole = false
					break
				}
				nb = vAppendVarint(nb, uint64(f.num)<<3|wt)
				nb = append(nb, pay[:n]...)
				pay = pay[n:]
			}
			if !whole {
				continue
			}
			ps[i].raw = nb
			return vJoin(ps), "unpack-packed"
		}
		fallthrough
	case 5: // merge with another valid encoding of the same message type
		if others := byMsg[m]; len(others) > 0 {
			o := others[rng.Intn(len(others))]
			if rng.Bool() {
				return append(append([]byte(nil), b...), o...), "concat"
			}
			return append(append([]byte(nil), o...), b...), "concat"
		}
		fallthrough
	case 6, 7: // insert an unknown / odd field
		j, what := r.junkPiece(m)
		at := rng.Intn(len(ps) + 1)
		return append(append(append([]byte(nil), vJoin(ps[:at])...), j...), vJoin(ps[at:])...), what
	case 8, 9: // insert a crafted occurrence of a known field
		j, what := r.craftPiece(m)
		at := rng.Intn(len(ps) + 1)
		return append(append(append([]byte(nil), vJoin(ps[:at])...), j...), vJoin(ps[at:])...), what
	case 10: // corrupt
		c := append([]byte(nil), b...)
		if len(c) == 0 {
			return []byte{byte(rng.U64())}, "corrupt-insert"
		}
		switch rng.Intn(4) {
		case 0:
			c[rng.Intn(len(c))] ^= byte(1 << uint(rng.Intn(8)))
			return c, "corrupt-bitflip"
		case 1:
			return c[:rng.Intn(len(c))], "corrupt-truncate"
		case 2:
			at := rng.Intn(len(c) + 1)
			return append(append(append([]byte(nil), c[:at]...), byte(rng.U64())), c[at:]...), "corrupt-insert"
		}
		c[rng.Intn(len(c))] = byte(rng.U64())
		return c, "corrupt-byte"
	case 11: // random bytes
		n := rng.Intn(24)
		c := make([]byte, n)
		for i := range c {
			c[i] = byte(rng.U64())
			if rng.Intn(3) == 0 {
				c[i] &= 0x7f
			}
		}
		return c, "random"
	}
	return b, "identity"
}

// offer b to the generated Unmarshal of message m; record the case and run the oracle
// again: the decode used for the second round of the fixed-point check (nil: the generated Unmarshal);
// for a public decode path it is that same path, so that whatever the path does after Unmarshal
// (migration of deprecated fields) is part of the fixed point
func (r *vRun) decodeCase(kind int, m *vMsg, b []byte, what string, unmarshal func([]byte) (reflect.Value, error), again func([]byte) (reflect.Value, error)) {
	term0 := vCaseTerm(kind, m.id, "VNone", b, 0)
	var v reflect.Value
	var err error
	if !vGuard(r.out, "Unmarshal("+what+")", term0, func() { v, err = unmarshal(b) }) {
		return
	}
	if err != nil {
		r.caseOut(false, term0)
		r.hist["decode_rejected_"+what]++
		return
	}
	t := r.s.tree(m, v)
	term := vCaseTerm(kind, m.id, "VSome ("+t.String()+")", b, 0)
	// observations for the clause checker: hx2 = Marshal(decoded), back = what one more round gives
	var b1, b2 []byte
	b1Obs, round2 := false, "VRep []"
	defer func() {
		if b1Obs {
			r.caseOut(len(b) > 0, vCaseTermO(kind, m.id, "VSome ("+t.String()+")", b, 0, "JNull", round2, b1, false))
		} else {
			r.caseOut(len(b) > 0, term)
		}
	}()
	r.hist["decode_accepted_"+what]++
	// fixed point, on the implementation alone
	pb, ok := v.Addr().Interface().(vPB)
	if !ok {
		return
	}
	var e1, e2, e3 error
	var sz int
	if !vGuard(r.out, "re-encode("+what+")", term, func() {
		b1, e1 = vMarshal(pb)
		sz = vSize(pb)
		if again != nil {
			var v2 reflect.Value
			v2, e2 = again(b1)
			if e2 == nil {
				b2, e3 = vMarshal(v2.Addr().Interface().(vPB))
			}
			return
		}
		p2 := reflect.New(m.typ)
		e2 = vUnmarshal(p2.Interface().(vPB), b1)
		if e2 == nil {
			b2, e3 = vMarshal(p2.Interface().(vPB))
		}
	}) {
		return
	}
	if e1 == nil {
		b1Obs = true
		switch {
		case e2 != nil || e3 != nil:
			round2 = "VRep []"
		case bytes.Equal(b1, b2):
			round2 = "VNone"
		default:
			round2 = "VB " + vHex(b2)
		}
	}
	switch {
	case e1 != nil:
		r.out.Oracle("decode-fixpoint", term, fmt.Sprintf("%s: decoded value cannot be marshalled: %v", what, e1))
	case sz != len(b1):
		r.out.Oracle("size", term, fmt.Sprintf("%s: Size()=%d but len(Marshal())=%d on a decoded value", what, sz, len(b1)))
	case e2 != nil:
		r.out.Oracle("decode-fixpoint", term, fmt.Sprintf("%s: Marshal(Unmarshal(b)) does not decode: %v", what, e2))
	case e3 != nil || !bytes.Equal(b1, b2):
		r.out.Oracle("decode-fixpoint", term, fmt.Sprintf("%s: Marshal(Unmarshal(Marshal(Unmarshal(b)))) != Marshal(Unmarshal(b)) (err=%v)", what, e3))
	}
}

func (r *vRun) byteCases(pool [][2]interface{}) {
	byMsg := map[*vMsg][][]byte{}
	for _, p := range pool {
		m := p[0].(*vMsg)
		byMsg[m] = append(byMsg[m], p[1].([]byte))
	}
	n := vBudget(700, 40)
	for i := 0; i < n && len(pool) > 0; i++ {
		p := pool[r.rng.Intn(len(pool))]
		m, b := p[0].(*vMsg), p[1].([]byte)
		nb, what := r.mutate(m, b, byMsg, 0)
		if r.rng.Intn(4) == 0 { // a second rewrite on top
			var w2 string
			nb, w2 = r.mutate(m, nb, byMsg, 0)
			what = what + "+" + w2
			if len(what) > 60 {
				what = "multi"
			}
		}
		r.decodeCase(1, m, nb, what, vUnmarshalInto(m.typ), nil)
	}

	// the decode paths of the public API on payloads that still use the deprecated scope fields
	// (field 1000 of Resource{Logs,Metrics,Spans}): ProtoUnmarshaler does not migrate,
	// ExportRequest.UnmarshalProto does for logs and traces (as the code stands).
	nd := vBudget(25, 10)
	for _, sg := range r.sigs {
		m := r.s.byType[sg.req]
		for i := 0; i < nd; i++ {
			o := &vGenOpt{rng: r.rng, budget: 6 + r.rng.Intn(10), deprecated: true, hist: r.hist}
			v := r.s.gen(o, m, 0)
			if i%2 == 0 {
				r.s.legacySender(m, v) // what the migration exists for: only the deprecated field is used
			}
			b, err := vMarshal(v.Addr().Interface().(vPB))
			if err != nil {
				continue
			}
			r.hist["migrate_relevant_resources_"+sg.name] += r.s.migrateRelevant(m, r.s.tree(m, v))
			if r.rng.Intn(3) == 0 {
				b, _ = r.mutate(m, b, byMsg, 0)
			}
			wrap := func(f func([]byte) (interface{}, error)) func([]byte) (reflect.Value, error) {
				return func(b []byte) (reflect.Value, error) {
					x, err := f(b)
					if err != nil {
						return reflect.Value{}, err
					}
					return reflect.ValueOf(x).Elem(), nil
				}
			}
			// kind 9 = ProtoUnmarshaler, kind 2 = ExportRequest.UnmarshalProto (kind 1 is the generated Unmarshal):
			// whether a path migrates is decided by the MODEL (Model.path_migrates), the harness only says which API it called
			r.decodeCase(9, m, b, sg.name+"-ProtoUnmarshaler", wrap(sg.unmarshalPB), wrap(sg.unmarshalPB))
			r.decodeCase(2, m, b, sg.name+"-ExportRequest.UnmarshalProto", wrap(sg.reqUnmarshalPB), wrap(sg.reqUnmarshalPB))
			r.decodePaths(sg, m, b)
		}
	}
}

// number of non-empty deprecated (field number 1000) slots anywhere in a tree of message m
func (s *vSchema) deprecatedLeft(m *vMsg, t *vT) int {
	n := 0
	for i, f := range m.fields {
		c := t.kids[i]
		if f.num == 1000 && len(c.kids) > 0 {
			n++
		}
		if f.ty != vtMsg {
			continue
		}
		switch f.card {
		case vcOpt:
			n += s.deprecatedLeft(f.msg, c)
		case vcOneof:
			if c.k == 's' && c.kids[0].k == 'm' {
				n += s.deprecatedLeft(f.msg, c.kids[0])
			}
		case vcRep:
			for _, e := range c.kids {
				n += s.deprecatedLeft(f.msg, e)
			}
		}
	}
	return n
}

// number of resources of a request tree in which the migration has something to do: scope_* (field 2)
// empty and the deprecated field (1000) set
func (s *vSchema) migrateRelevant(m *vMsg, t *vT) int {
	n := 0
	if len(m.fields) == 0 || m.fields[0].ty != vtMsg || m.fields[0].card != vcRep {
		return 0
	}
	rm := m.fields[0].msg
	i2, i1000 := -1, -1
	for i, f := range rm.fields {
		if f.num == 2 {
			i2 = i
		}
		if f.num == 1000 {
			i1000 = i
		}
	}
	if i2 < 0 || i1000 < 0 {
		return 0
	}
	for _, e := range t.kids[0].kids {
		if len(e.kids[i2].kids) == 0 && len(e.kids[i1000].kids) > 0 {
			n++
		}
	}
	return n
}

// turn a request into what a legacy sender produces: in every resource the scope_* field (2) is moved
// to the deprecated field (1000) when that one exists and is empty
func (s *vSchema) legacySender(m *vMsg, v reflect.Value) {
	if len(m.fields) == 0 || m.fields[0].ty != vtMsg || m.fields[0].card != vcRep {
		return
	}
	rm := m.fields[0].msg
	var f2, f1000 *vField
	for _, f := range rm.fields {
		if f.num == 2 {
			f2 = f
		}
		if f.num == 1000 {
			f1000 = f
		}
	}
	if f2 == nil || f1000 == nil || f2.goType != f1000.goType {
		return
	}
	rs := v.Field(m.fields[0].fieldIdx)
	for i := 0; i < rs.Len(); i++ {
		e := rs.Index(i)
		if e.Kind() == reflect.Ptr {
			e = e.Elem()
		}
		a, d := e.Field(f2.fieldIdx), e.Field(f1000.fieldIdx)
		if a.Len() > 0 && d.Len() == 0 {
			d.Set(a)
			a.Set(reflect.Zero(a.Type()))
		}
	}
}

// the migration contract on the implementation alone ("Any plog.Unmarshaler implementation from OTLP
// (proto/json) MUST call this", internal/otlp/*.go): after EVERY public protobuf decode path no
// deprecated scope field is left, and the public paths decode the same bytes to the same payload.
func (r *vRun) decodePaths(sg *vSignal, m *vMsg, b []byte) {
	x, e1 := sg.reqUnmarshalPB(b)
	y, e2 := sg.unmarshalPB(b)
	if (e1 == nil) != (e2 == nil) {
		r.out.Oracle("decode-paths", vCaseTerm(1, m.id, "VNone", b, 0), fmt.Sprintf("%s: ExportRequest.UnmarshalProto and ProtoUnmarshaler disagree on accepting the same bytes (%v / %v)", sg.name, e1, e2))
		return
	}
	if e1 != nil {
		return
	}
	r.hist["decode_paths_checked"]++
	tx, ty := r.s.tree(m, reflect.ValueOf(x).Elem()), r.s.tree(m, reflect.ValueOf(y).Elem())
	if n := r.s.deprecatedLeft(m, tx); n > 0 {
		r.out.Oracle("migrate", vCaseTerm(2, m.id, "VSome ("+tx.String()+")", b, 0), fmt.Sprintf("%s: %d deprecated scope field(s) still set after ExportRequest.UnmarshalProto (otlp.Migrate must move them to scope_* and clear them)", sg.name, n))
	}
	if n := r.s.deprecatedLeft(m, ty); n > 0 {
		r.out.Oracle("migrate", vCaseTerm(9, m.id, "VSome ("+ty.String()+")", b, 0), fmt.Sprintf("%s: %d deprecated scope field(s) still set after ProtoUnmarshaler.Unmarshal (otlp.Migrate must move them to scope_* and clear them: every OTLP unmarshaler MUST call it)", sg.name, n))
	}
	if tx.String() != ty.String() {
		r.out.Oracle("decode-paths", vCaseTerm(9, m.id, "VSome ("+ty.String()+")", b, 0), fmt.Sprintf("%s: ProtoUnmarshaler and ExportRequest.UnmarshalProto decode the same bytes to different payloads: %s", sg.name, vDiff(tx, ty)))
	}
	// the decoded payload must survive JSON like any other payload (JSON -> protobuf agreement)
	if j, err := sg.marshalJSON(y); err == nil {
		if z, err := sg.unmarshalJSON(j); err == nil {
			p1, _ := sg.marshalPB(y)
			p2, _ := sg.marshalPB(z)
			if !bytes.Equal(p1, p2) && r.s.deprecatedLeft(m, ty) > 0 {
				r.out.Oracle("decode-paths", vCaseTerm(9, m.id, "VSome ("+ty.String()+")", b, 0), fmt.Sprintf("%s: the payload ProtoUnmarshaler built from these bytes does not survive JSON: Marshal(UnmarshalJSON(MarshalJSON(x))) has %d bytes, Marshal(x) %d", sg.name, len(p2), len(p1)))
			}
		}
	}
}

// otlp.MigrateX on a tree: in every resource, scope_* (2) takes the deprecated field (1000) when empty; 1000 is cleared
func (s *vSchema) migrateTree(m *vMsg, t *vT) {
	if len(m.fields) == 0 || m.fields[0].ty != vtMsg || m.fields[0].card != vcRep {
		return
	}
	rm := m.fields[0].msg
	i2, i1000 := -1, -1
	for i, f := range rm.fields {
		if f.num == 2 {
			i2 = i
		}
		if f.num == 1000 {
			i1000 = i
		}
	}
	if i2 < 0 || i1000 < 0 {
		return
	}
	for _, e := range t.kids[0].kids {
		if len(e.kids[i2].kids) == 0 {
			e.kids[i2] = e.kids[i1000]
		}
		e.kids[i1000] = &vT{k: 'r'}
	}
}
