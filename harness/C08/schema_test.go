// C08 harness, part 1: the schema of the OTLP messages read from the CURRENT tree by reflection
// over the gogo-generated structs (struct tags `protobuf:"…"`, `protobuf_oneof`,
// XXX_OneofWrappers), the emission order of every message probed by marshalling, a canonical
// value tree (the Coq type pv of coq/C08/Model.v) and a random value generator.
// Injected by overlay into pdata/pprofile/pprofileotlp (the only package that can import all
// four signals and their otlp wrappers); never copied into /repo.
package pprofileotlp

import (
	"fmt"
	"math"
	"reflect"
	"sort"
	"strconv"
	"strings"
)

const (
	vtScalar = iota
	vtBytes
	vtStr
	vtID
	vtMsg
)

const (
	vcOpt = iota
	vcOneof
	vcRep
	vcPacked
)

type vField struct {
	num      int
	wire     string
	skind    string // Coq constructor of skind
	ty       int
	card     int
	group    int
	idLen    int
	msg      *vMsg
	name     string // original (snake_case) name
	jsonName string // lowerCamelCase name
	enumMap  map[string]int32
	enumName map[int32]string
	fieldIdx int          // index of the Go struct field (for a oneof member: the interface field)
	wrapper  reflect.Type // oneof member: the wrapper struct type
	goType   reflect.Type // Go type of the field (of the wrapper's field for a oneof member)
}

type vMsg struct {
	id     int
	typ    reflect.Type
	name   string
	fields []*vField // emission order once probed
	groups int
}

type vSchema struct {
	msgs   []*vMsg
	byType map[reflect.Type]*vMsg
}

func vLowerFirst(s string) string { return s }

func (s *vSchema) parseTag(tag string, goType reflect.Type, f *vField) error {
	parts := strings.Split(tag, ",")
	if len(parts) < 3 {
		return fmt.Errorf("short protobuf tag %q", tag)
	}
	f.wire = parts[0]
	n, err := strconv.Atoi(parts[1])
	if err != nil {
		return err
	}
	f.num = n
	rep := parts[2] == "rep"
	packed := false
	custom := ""
	enum := ""
	for _, p := range parts[3:] {
		switch {
		case p == "packed":
			packed = true
		case strings.HasPrefix(p, "name="):
			f.name = p[5:]
		case strings.HasPrefix(p, "json="):
			f.jsonName = p[5:]
		case strings.HasPrefix(p, "customtype="):
			custom = p[11:]
		case strings.HasPrefix(p, "enum="):
			enum = p[5:]
		case p == "oneof":
			if f.card != vcOneof {
				return fmt.Errorf("oneof tag on a non-oneof field %q", tag)
			}
		case p == "proto3":
		default:
			return fmt.Errorf("unsupported protobuf tag option %q in %q", p, tag)
		}
	}
	if f.jsonName == "" {
		f.jsonName = f.name
	}
	f.goType = goType
	et := goType
	if rep {
		if goType.Kind() != reflect.Slice {
			return fmt.Errorf("repeated field that is not a slice: %q", tag)
		}
		et = goType.Elem()
		if packed {
			f.card = vcPacked
		} else {
			f.card = vcRep
		}
	}
	switch f.wire {
	case "bytes":
		switch {
		case custom != "":
			if et.Kind() != reflect.Array || et.Elem().Kind() != reflect.Uint8 || rep || f.card == vcOneof {
				return fmt.Errorf("unsupported customtype field %q", tag)
			}
			f.ty = vtID
			f.idLen = et.Len()
		case et.Kind() == reflect.String:
			f.ty = vtStr
		case et.Kind() == reflect.Slice && et.Elem().Kind() == reflect.Uint8:
			f.ty = vtBytes
			if rep {
				return fmt.Errorf("unsupported repeated bytes %q", tag)
			}
		case et.Kind() == reflect.Struct:
			if f.card == vcOneof {
				return fmt.Errorf("oneof message member that is not a pointer %q", tag)
			}
			f.ty = vtMsg
			f.msg = s.add(et)
		case et.Kind() == reflect.Ptr && et.Elem().Kind() == reflect.Struct:
			if f.card == vcOpt {
				return fmt.Errorf("unsupported nullable singular message %q", tag)
			}
			f.ty = vtMsg
			f.msg = s.add(et.Elem())
		default:
			return fmt.Errorf("unsupported bytes field %q of Go type %v", tag, goType)
		}
	case "varint", "fixed64", "fixed32", "zigzag32":
		f.ty = vtScalar
		if f.card == vcRep {
			return fmt.Errorf("unpacked repeated scalar %q", tag)
		}
		k := et.Kind()
		switch {
		case f.wire == "varint" && enum != "" && k == reflect.Int32:
			f.skind = "SEnum"
			zero := reflect.Zero(et)
			if d, ok := zero.Interface().(interface{ EnumDescriptor() ([]byte, []int) }); ok {
				_ = d
			}
			f.enumMap, f.enumName = vEnumMaps(et)
		case f.wire == "varint" && k == reflect.Uint64:
			f.skind = "SU64"
		case f.wire == "varint" && k == reflect.Int64:
			f.skind = "SI64"
		case f.wire == "varint" && k == reflect.Uint32:
			f.skind = "SU32"
		case f.wire == "varint" && k == reflect.Int32:
			f.skind = "SI32"
		case f.wire == "varint" && k == reflect.Bool:
			f.skind = "SBool"
		case f.wire == "zigzag32" && k == reflect.Int32:
			f.skind = "SZig32"
		case f.wire == "fixed64" && k == reflect.Uint64:
			f.skind = "SFix64"
		case f.wire == "fixed64" && k == reflect.Int64:
			f.skind = "SSFix64"
		case f.wire == "fixed64" && k == reflect.Float64:
			f.skind = "SDouble"
		case f.wire == "fixed32" && k == reflect.Uint32:
			f.skind = "SFix32"
		default:
			return fmt.Errorf("unsupported scalar %q of Go type %v", tag, goType)
		}
	default:
		return fmt.Errorf("unsupported wire kind %q", tag)
	}
	return nil
}

// enum name maps: String() of the enum type on the values 0..63 and -1 (gogo prints the number
// for an undefined value)
func vEnumMaps(et reflect.Type) (map[string]int32, map[int32]string) {
	m := map[string]int32{}
	r := map[int32]string{}
	for i := int32(-2); i < 64; i++ {
		v := reflect.New(et).Elem()
		v.SetInt(int64(i))
		if st, ok := v.Interface().(fmt.Stringer); ok {
			name := st.String()
			if name != strconv.Itoa(int(i)) {
				m[name] = i
				r[i] = name
			}
		}
	}
	return m, r
}

func (s *vSchema) add(t reflect.Type) *vMsg {
	if m, ok := s.byType[t]; ok {
		return m
	}
	m := &vMsg{id: len(s.msgs), typ: t, name: vMsgName(t)}
	s.msgs = append(s.msgs, m)
	s.byType[t] = m
	var wrappers []interface{}
	if meth := reflect.New(t).MethodByName("XXX_OneofWrappers"); meth.IsValid() {
		wrappers = meth.Call(nil)[0].Interface().([]interface{})
	}
	for i := 0; i < t.NumField(); i++ {
		sf := t.Field(i)
		if on := sf.Tag.Get("protobuf_oneof"); on != "" {
			g := m.groups
			m.groups++
			found := 0
			for _, w := range wrappers {
				wt := reflect.TypeOf(w)
				if !wt.Implements(sf.Type) {
					continue
				}
				ws := wt.Elem()
				if ws.NumField() != 1 {
					panic(fmt.Sprintf("oneof wrapper %v with %d fields", ws, ws.NumField()))
				}
				f := &vField{card: vcOneof, group: g, fieldIdx: i, wrapper: ws}
				if err := s.parseTag(ws.Field(0).Tag.Get("protobuf"), ws.Field(0).Type, f); err != nil {
					panic(fmt.Sprintf("%v.%s: %v", t, sf.Name, err))
				}
				m.fields = append(m.fields, f)
				found++
			}
			if found == 0 {
				panic(fmt.Sprintf("%v.%s: oneof without members", t, sf.Name))
			}
			continue
		}
		tag := sf.Tag.Get("protobuf")
		if tag == "" {
			if strings.HasPrefix(sf.Name, "XXX_") {
				continue
			}
			panic(fmt.Sprintf("%v.%s: field without protobuf tag", t, sf.Name))
		}
		f := &vField{card: vcOpt, fieldIdx: i}
		if err := s.parseTag(tag, sf.Type, f); err != nil {
			panic(fmt.Sprintf("%v.%s: %v", t, sf.Name, err))
		}
		m.fields = append(m.fields, f)
	}
	return m
}

// ---- value tree (Coq: pv) -------------------------------------------------------------------
type vT struct {
	k    byte // 'i' VInt, 'b' VBytes, 'm' VMsg, 'r' VRep, 'n' VNone, 's' VSome
	n    uint64
	b    []byte
	kids []*vT
}

func vtInt(n uint64) *vT    { return &vT{k: 'i', n: n} }
func vtBytes_(b []byte) *vT { return &vT{k: 'b', b: append([]byte(nil), b...)} }
func vtNone() *vT           { return &vT{k: 'n'} }
func vtSome(x *vT) *vT      { return &vT{k: 's', kids: []*vT{x}} }

const vHexDigits = "0123456789abcdef"

func vHex(b []byte) string {
	var sb strings.Builder
	sb.Grow(2*len(b) + 2)
	sb.WriteByte('"')
	for _, x := range b {
		sb.WriteByte(vHexDigits[x>>4])
		sb.WriteByte(vHexDigits[x&15])
	}
	sb.WriteByte('"')
	return sb.String()
}

func (t *vT) write(sb *strings.Builder) {
	switch t.k {
	case 'i':
		sb.WriteString("VInt ")
		sb.WriteString(strconv.FormatUint(t.n, 10))
	case 'b':
		sb.WriteString("VB ")
		sb.WriteString(vHex(t.b))
	case 'n':
		sb.WriteString("VNone")
	case 's':
		sb.WriteString("VSome (")
		t.kids[0].write(sb)
		sb.WriteString(")")
	case 'm', 'r':
		if t.k == 'm' {
			sb.WriteString("VMsg [")
		} else {
			sb.WriteString("VRep [")
		}
		for i, c := range t.kids {
			if i > 0 {
				sb.WriteString("; ")
			}
			c.write(sb)
		}
		sb.WriteString("]")
	}
}

func (t *vT) String() string {
	var sb strings.Builder
	t.write(&sb)
	return sb.String()
}

func (t *vT) clone() *vT {
	c := &vT{k: t.k, n: t.n, b: append([]byte(nil), t.b...)}
	for _, x := range t.kids {
		c.kids = append(c.kids, x.clone())
	}
	return c
}

func vScalarBits(v reflect.Value) uint64 {
	switch v.Kind() {
	case reflect.Int32, reflect.Int64:
		return uint64(v.Int())
	case reflect.Uint32, reflect.Uint64:
		return v.Uint()
	case reflect.Bool:
		if v.Bool() {
			return 1
		}
		return 0
	case reflect.Float64:
		return math.Float64bits(v.Float())
	}
	panic("vScalarBits: " + v.Kind().String())
}

func vSetScalar(v reflect.Value, bits uint64) {
	switch v.Kind() {
	case reflect.Int32:
		v.SetInt(int64(int32(bits)))
	case reflect.Int64:
		v.SetInt(int64(bits))
	case reflect.Uint32:
		v.SetUint(uint64(uint32(bits)))
	case reflect.Uint64:
		v.SetUint(bits)
	case reflect.Bool:
		v.SetBool(bits != 0)
	case reflect.Float64:
		v.SetFloat(math.Float64frombits(bits))
	default:
		panic("vSetScalar: " + v.Kind().String())
	}
}

func vAllZero(b []byte) bool {
	for _, x := range b {
		if x != 0 {
			return false
		}
	}
	return true
}

// one present value of field f held in Go value v (not a oneof wrapper, not a slice of a repeated field)
func (s *vSchema) treeOne(f *vField, v reflect.Value) *vT {
	switch f.ty {
	case vtScalar:
		return vtInt(vScalarBits(v))
	case vtStr:
		return vtBytes_([]byte(v.String()))
	case vtBytes:
		return vtBytes_(v.Bytes())
	case vtID:
		b := make([]byte, v.Len())
		for i := range b {
			b[i] = byte(v.Index(i).Uint())
		}
		if vAllZero(b) {
			return vtBytes_(nil)
		}
		return vtBytes_(b)
	case vtMsg:
		if v.Kind() == reflect.Ptr {
			v = v.Elem()
		}
		return s.tree(f.msg, v)
	}
	panic("treeOne")
}

// tree of a message struct value
func (s *vSchema) tree(m *vMsg, v reflect.Value) *vT {
	t := &vT{k: 'm'}
	for _, f := range m.fields {
		fv := v.Field(f.fieldIdx)
		switch f.card {
		case vcOpt:
			t.kids = append(t.kids, s.treeOne(f, fv))
		case vcOneof:
			if fv.IsNil() || fv.Elem().Type() != reflect.PtrTo(f.wrapper) || fv.Elem().IsNil() {
				t.kids = append(t.kids, vtNone())
				continue
			}
			inner := fv.Elem().Elem().Field(0)
			if (f.ty == vtMsg || f.ty == vtBytes) && inner.IsNil() {
				t.kids = append(t.kids, vtSome(vtNone()))
				continue
			}
			t.kids = append(t.kids, vtSome(s.treeOne(f, inner)))
		case vcRep, vcPacked:
			r := &vT{k: 'r'}
			for i := 0; i < fv.Len(); i++ {
				r.kids = append(r.kids, s.treeOne(f, fv.Index(i)))
			}
			t.kids = append(t.kids, r)
		}
	}
	return t
}

// ---- emission order ---------------------------------------------------------------------------
// A value with every field set (round r selects member r mod k of every oneof group), marshalled;
// the top-level tags are read back in order.
func (s *vSchema) fillAll(m *vMsg, round int, depth int) reflect.Value {
	v := reflect.New(m.typ).Elem()
	alt := map[int]int{}
	cnt := map[int]int{}
	for _, f := range m.fields {
		if f.card == vcOneof {
			cnt[f.group]++
		}
	}
	for _, f := range m.fields {
		fv := v.Field(f.fieldIdx)
		one := func(t reflect.Type) reflect.Value {
			x := reflect.New(t).Elem()
			switch f.ty {
			case vtScalar:
				vSetScalar(x, 1)
			case vtStr:
				x.SetString("x")
			case vtBytes:
				x.SetBytes([]byte{1})
			case vtID:
				x.Index(0).SetUint(1)
			case vtMsg:
				if t.Kind() == reflect.Ptr {
					x = reflect.New(t.Elem())
				}
			}
			return x
		}
		switch f.card {
		case vcOpt:
			fv.Set(one(f.goType))
		case vcOneof:
			idx := alt[f.group]
			alt[f.group]++
			if idx != round%cnt[f.group] {
				continue
			}
			w := reflect.New(f.wrapper)
			w.Elem().Field(0).Set(one(f.goType))
			fv.Set(w)
		case vcRep, vcPacked:
			sl := reflect.MakeSlice(f.goType, 1, 1)
			sl.Index(0).Set(one(f.goType.Elem()))
			fv.Set(sl)
		}
	}
	return v
}

// fields whose emission position had to be guessed (0 on a healthy tree)
var vSchemaGuessed int

type vPB interface {
	Marshal() ([]byte, error)
	Unmarshal([]byte) error
	Size() int
}

func vTopLevelNums(b []byte) ([]int, error) {
	var out []int
	i := 0
	rd := func() (uint64, error) {
		var x uint64
		for sh := uint(0); ; sh += 7 {
			if i >= len(b) || sh > 63 {
				return 0, fmt.Errorf("bad varint")
			}
			c := b[i]
			i++
			x |= uint64(c&0x7f) << sh
			if c < 0x80 {
				return x, nil
			}
		}
	}
	for i < len(b) {
		w, err := rd()
		if err != nil {
			return nil, err
		}
		num := int(w >> 3)
		switch w & 7 {
		case 0:
			if _, err := rd(); err != nil {
				return nil, err
			}
		case 1:
			i += 8
		case 5:
			i += 4
		case 2:
			l, err := rd()
			if err != nil {
				return nil, err
			}
			i += int(l)
		default:
			return nil, fmt.Errorf("wire type %d", w&7)
		}
		if len(out) == 0 || out[len(out)-1] != num {
			out = append(out, num)
		}
	}
	if i != len(b) {
		return nil, fmt.Errorf("overrun")
	}
	return out, nil
}

func (s *vSchema) probeOrder(m *vMsg) error {
	maxAlt := 1
	cnt := map[int]int{}
	for _, f := range m.fields {
		if f.card == vcOneof {
			cnt[f.group]++
			if cnt[f.group] > maxAlt {
				maxAlt = cnt[f.group]
			}
		}
	}
	byNum := map[int]*vField{}
	for _, f := range m.fields {
		if byNum[f.num] != nil {
			return fmt.Errorf("%s: duplicate field number %d", m.name, f.num)
		}
		byNum[f.num] = f
	}
	var order []int
	pos := func(n int) int {
		for i, x := range order {
			if x == n {
				return i
			}
		}
		return -1
	}
	for r := 0; r < maxAlt; r++ {
		v := s.fillAll(m, r, 0)
		b, err := vMarshal(v.Addr().Interface().(vPB))
		if err != nil {
			return err
		}
		nums, err := vTopLevelNums(b)
		if err != nil {
			return fmt.Errorf("%s: %v", m.name, err)
		}
		for _, n := range nums {
			f := byNum[n]
			if f == nil {
				return fmt.Errorf("%s: marshalled field %d is not in the struct tags", m.name, n)
			}
			if pos(n) >= 0 {
				continue
			}
			if r == 0 {
				order = append(order, n)
				continue
			}
			if f.card != vcOneof {
				return fmt.Errorf("%s: field %d appears only in round %d", m.name, n, r)
			}
			at := -1
			for i, x := range order {
				if g := byNum[x]; g.card == vcOneof && g.group == f.group {
					at = i
				}
			}
			if at < 0 {
				return fmt.Errorf("%s: no sibling placed for oneof member %d", m.name, n)
			}
			order = append(order[:at+1], append([]int{n}, order[at+1:]...)...)
		}
	}
	if len(order) != len(m.fields) {
		// a field of the tags that a full value does not marshal (the tree is broken there): do not
		// stop the run — place it by ascending field number (the gogo rule) so that the correspondence
		// and the direct oracle still run and report the concrete failing input
		for _, f := range m.fields {
			if pos(f.num) >= 0 {
				continue
			}
			at := len(order)
			for i, x := range order {
				if x > f.num {
					at = i
					break
				}
			}
			order = append(order[:at], append([]int{f.num}, order[at:]...)...)
			vSchemaGuessed++
		}
	}
	sort.SliceStable(m.fields, func(i, j int) bool { return pos(m.fields[i].num) < pos(m.fields[j].num) })
	return nil
}

// ---- Coq output ---------------------------------------------------------------------------------
func (f *vField) coqType() string {
	switch f.ty {
	case vtScalar:
		return "TScalar " + f.skind
	case vtBytes:
		return "TBytes"
	case vtStr:
		return "TStr"
	case vtID:
		return fmt.Sprintf("TId %d", f.idLen)
	}
	return fmt.Sprintf("TMsg %d", f.msg.id)
}

func (f *vField) coqCard() string {
	switch f.card {
	case vcOpt:
		return "COpt"
	case vcOneof:
		return fmt.Sprintf("COneof %d", f.group)
	case vcRep:
		return "CRep"
	}
	return "CPacked"
}

func (s *vSchema) coq() string {
	var sb strings.Builder
	sb.WriteString("(* GENERATED on every check run by harness/C08 (TestVerifC08Schema) from the struct tags,\n")
	sb.WriteString("   XXX_OneofWrappers and the marshalled field order of pdata/internal/data/protogen/**.\n")
	sb.WriteString("   Do not edit. *)\n")
	sb.WriteString("From Verif Require Import Common.Base C08.Model.\nFrom Coq Require Import String.\nLocal Open Scope N_scope.\nLocal Open Scope string_scope.\n\n")
	for _, m := range s.msgs {
		fmt.Fprintf(&sb, "Definition m_%s : nat := %d%%nat.\n", vIdent(m.name), m.id)
	}
	sb.WriteString("\nDefinition OtlpSchema : schema := [\n")
	for i, m := range s.msgs {
		fmt.Fprintf(&sb, "  (* %d *) mkM \"%s\" [\n", m.id, m.name)
		for j, f := range m.fields {
			sep := ";"
			if j == len(m.fields)-1 {
				sep = ""
			}
			fmt.Fprintf(&sb, "      mkF %d (%s) (%s) \"%s\" \"%s\"%s\n", f.num, f.coqType(), f.coqCard(), f.jsonName, f.name, sep)
		}
		def := s.tree(m, reflect.New(m.typ).Elem())
		var items []string
		for _, k := range def.kids {
			items = append(items, k.String())
		}
		sb.WriteString("    ] [" + strings.ReplaceAll(strings.Join(items, "; "), "VB \"\"", "VBytes []") + "]")
		if i < len(s.msgs)-1 {
			sb.WriteString(";")
		}
		sb.WriteString("\n")
	}
	sb.WriteString("]%list.\n")
	return sb.String()
}

func vMsgName(t reflect.Type) string {
	p := t.PkgPath()
	if i := strings.Index(p, "/protogen/"); i >= 0 {
		p = p[i+len("/protogen/"):]
	}
	return p + "." + t.Name()
}

func vIdent(s string) string {
	var sb strings.Builder
	for _, c := range s {
		if (c >= 'a' && c <= 'z') || (c >= 'A' && c <= 'Z') || (c >= '0' && c <= '9') {
			sb.WriteRune(c)
		} else {
			sb.WriteByte('_')
		}
	}
	return sb.String()
}

// ---- random values ------------------------------------------------------------------------------
type vGenOpt struct {
	rng        *vRand
	budget     int  // messages still allowed
	deprecated bool // also fill the deprecated_scope_* fields (1000)
	quirks     bool // allow values in the known-defect regions (-0.0 in a plain double, nil bytes in a oneof)
	asciiOnly  bool
	hist       map[string]int
}

var vU64s = []uint64{1, 2, 127, 128, 255, 16383, 16384, 1 << 21, 1<<28 - 1, 1 << 28, 1<<32 - 1, 1 << 32, 1 << 35, 1 << 42, 1 << 49, 1 << 56, 1<<63 - 1, 1 << 63, 1<<64 - 1}
var vI32s = []int32{1, -1, 63, 64, -64, -65, 127, 128, 1<<31 - 1, -1 << 31, 1 << 20, -(1 << 20)}
var vF64s = []uint64{0x3ff0000000000000, 0xbff8000000000000, 0x7ff0000000000000, 0xfff0000000000000, 0x7ff8000000000001, 0x7ff8000000000000, 0xfff8000000000000, 0x7ff0000000000001,
	0x0000000000000001, 0x000fffffffffffff, 0x0010000000000000, 0x7fefffffffffffff, 0xffefffffffffffff, 0x3fb999999999999a, 0x4340000000000000, 0x4340000000000001, 0x43e0000000000000, 0x3e7ad7f29abcaf48, 0x44b52d02c7e14af6}

func (o *vGenOpt) scalarBits(f *vField, singular bool) uint64 {
	r := o.rng
	if r.Intn(100) < 22 {
		return 0
	}
	switch f.skind {
	case "SBool":
		return 1
	case "SU64", "SFix64":
		if r.Intn(2) == 0 {
			return vU64s[r.Intn(len(vU64s))]
		}
		return r.U64() >> uint(r.Intn(64))
	case "SI64", "SSFix64":
		switch r.Intn(4) {
		case 0:
			return vU64s[r.Intn(len(vU64s))]
		case 1:
			return uint64(-int64(r.U64() >> uint(1+r.Intn(63))))
		}
		return r.U64() >> uint(r.Intn(64))
	case "SU32", "SFix32":
		if r.Intn(2) == 0 {
			return uint64(uint32(vU64s[r.Intn(len(vU64s))]))
		}
		return uint64(uint32(r.U64()) >> uint(r.Intn(32)))
	case "SI32", "SZig32":
		if r.Intn(2) == 0 {
			return uint64(int64(vI32s[r.Intn(len(vI32s))]))
		}
		return uint64(int64(int32(uint32(r.U64())) >> uint(r.Intn(32))))
	case "SEnum":
		if r.Intn(8) == 0 { // undefined enum numbers are legal proto3 values
			return uint64(int64(vI32s[r.Intn(len(vI32s))]))
		}
		var keys []int
		for k := range f.enumName {
			keys = append(keys, int(k))
		}
		sort.Ints(keys)
		return uint64(int64(keys[r.Intn(len(keys))]))
	case "SDouble":
		switch r.Intn(5) {
		case 0, 1:
			return vF64s[r.Intn(len(vF64s))]
		case 2:
			return math.Float64bits(float64(int64(r.U64()>>40)) / 8)
		case 3:
			if o.quirks && r.Intn(3) == 0 {
				o.hist["quirk_negzero"]++
				return 1 << 63
			}
			return math.Float64bits(float64(r.Intn(1000)))
		}
		b := r.U64()
		if b == 1<<63 {
			b = 0
		}
		return b
	}
	panic("scalarBits " + f.skind)
}

var vStrs = []string{"a", "service.name", "hello world", "\"quoted\" \\ back/slash", "tab\tnewline\nret\r", "é世界\U0001F600", "<html>&amp;</html>", "  ", "\x00\x01\x1f\x7f", "0", "null", "{}", "NaN"}

func (o *vGenOpt) str() string {
	r := o.rng
	switch r.Intn(6) {
	case 0:
		return ""
	case 1, 2:
		return vStrs[r.Intn(len(vStrs))]
	case 3:
		n := 100 + r.Intn(120) // pushes lengths over 127: two-byte length varints
		b := make([]byte, n)
		for i := range b {
			b[i] = byte('a' + r.Intn(26))
		}
		return string(b)
	}
	n := 1 + r.Intn(12)
	b := make([]byte, n)
	for i := range b {
		b[i] = byte(32 + r.Intn(95))
	}
	return string(b)
}

func (o *vGenOpt) bytes() []byte {
	r := o.rng
	n := r.Intn(20)
	if r.Intn(10) == 0 {
		n = 120 + r.Intn(20)
	}
	b := make([]byte, n)
	for i := range b {
		b[i] = byte(r.U64())
	}
	if n == 0 {
		return nil
	}
	return b
}

func (s *vSchema) genOne(o *vGenOpt, f *vField, t reflect.Type, depth int, singular bool) reflect.Value {
	x := reflect.New(t).Elem()
	switch f.ty {
	case vtScalar:
		vSetScalar(x, o.scalarBits(f, singular))
	case vtStr:
		x.SetString(o.str())
	case vtBytes:
		if b := o.bytes(); b != nil {
			x.SetBytes(b)
		} else if !singular {
			x.SetBytes([]byte{}) // inside a oneof an empty value is an empty NON-NIL slice (what decoders build); a nil
			// slice there only arises through the public API, see vAPIEmptyBytes
		}
	case vtID:
		if o.rng.Intn(3) != 0 {
			for i := 0; i < x.Len(); i++ {
				x.Index(i).SetUint(o.rng.U64() & 0xff)
			}
			if o.rng.Intn(6) == 0 { // mostly zero id: only the last byte set
				for i := 0; i < x.Len()-1; i++ {
					x.Index(i).SetUint(0)
				}
				x.Index(x.Len() - 1).SetUint(1)
			}
		}
	case vtMsg:
		mv := s.gen(o, f.msg, depth+1)
		if t.Kind() == reflect.Ptr {
			p := reflect.New(t.Elem())
			p.Elem().Set(mv)
			return p
		}
		return mv
	}
	return x
}

func (s *vSchema) gen(o *vGenOpt, m *vMsg, depth int) reflect.Value {
	o.budget--
	o.hist["msg_"+m.name]++
	v := reflect.New(m.typ).Elem()
	r := o.rng
	// choose the selected member of every oneof group
	sel := map[int]*vField{}
	cnt := map[int]int{}
	for _, f := range m.fields {
		if f.card == vcOneof {
			cnt[f.group]++
		}
	}
	for g := 0; g < m.groups; g++ { // in group order: a map iteration here would make the stream depend on the run
		if cnt[g] == 0 || r.Intn(100) < 12 {
			continue
		}
		var cands []*vField
		for _, f := range m.fields {
			if f.card == vcOneof && f.group == g {
				if f.ty == vtMsg && (o.budget <= 0 || depth > 7) {
					continue
				}
				cands = append(cands, f)
			}
		}
		sort.Slice(cands, func(i, j int) bool { return cands[i].num < cands[j].num })
		if len(cands) > 0 {
			sel[g] = cands[r.Intn(len(cands))]
		}
	}
	for _, f := range m.fields {
		fv := v.Field(f.fieldIdx)
		switch f.card {
		case vcOpt:
			if f.ty == vtMsg || r.Intn(100) < 75 {
				fv.Set(s.genOne(o, f, f.goType, depth, true))
			}
		case vcOneof:
			if sel[f.group] != f {
				continue
			}
			w := reflect.New(f.wrapper)
			o.hist[fmt.Sprintf("oneof_%s_%d", m.name, f.num)]++
			if f.ty == vtBytes && r.Intn(4) == 0 {
				if o.quirks && r.Intn(2) == 0 {
					// an EMPTY bytes value exactly as the public API builds it (pcommon.Value.SetEmptyBytes):
					// as the code stands a wrapper holding a nil slice (known finding C08-EMPTYBYTES)
					if x := vAPIEmptyBytes(f.wrapper); x.IsValid() {
						w = x
						if w.Elem().Field(0).IsNil() {
							o.hist["quirk_nilbytes"]++
						}
					}
				} else {
					w.Elem().Field(0).SetBytes([]byte{}) // what a decoder leaves for a present empty field
				}
			} else {
				w.Elem().Field(0).Set(s.genOne(o, f, f.goType, depth, false))
			}
			fv.Set(w)
		case vcRep, vcPacked:
			if f.num == 1000 && !o.deprecated {
				continue
			}
			n := 0
			switch r.Intn(10) {
			case 0, 1, 2:
				n = 0
			case 3, 4, 5, 6:
				n = 1
			case 7, 8:
				n = 2
			default:
				n = 3 + r.Intn(3)
			}
			if f.ty == vtMsg && (o.budget <= 0 || depth > 7) {
				n = 0
			}
			if f.card == vcPacked && r.Intn(12) == 0 {
				n = 20 + r.Intn(20) // packed payload longer than 127 bytes for fixed64
			}
			if n == 0 {
				continue
			}
			sl := reflect.MakeSlice(f.goType, 0, n)
			for i := 0; i < n; i++ {
				if f.ty == vtMsg && o.budget <= 0 {
					break
				}
				sl = reflect.Append(sl, s.genOne(o, f, f.goType.Elem(), depth, false))
			}
			if sl.Len() > 0 {
				fv.Set(sl)
			}
		}
	}
	return v
}
