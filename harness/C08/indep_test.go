// C08 harness, part 11: independence of successive calls.  The outputs of SEVERAL Marshal calls — of every
// marshaler of every signal, protobuf and JSON, payload, export request and export response — are kept and only
// looked at afterwards: each must still be what it was when it was returned, and must decode to its own payload
// (a marshaler that hands out a recycled buffer fails this although marshal-then-immediately-decode works).
// Also: the same under concurrent calls; a decoded value must not depend on the input buffer any more (the
// caller may reuse it); marshaling must not change the payload.
//
//	oracle kinds: marshal-independence, unmarshal-independence, marshal-mutates;
//	correspondence kinds 10 (protobuf) and 11 (JSON): the bytes read at the END = Model.observe (run_fresh …).
package pprofileotlp

import (
	"bytes"
	"fmt"
	"reflect"
	"runtime"
	"strings"
	"sync"
)

type vMarshalAPI struct {
	name string
	enc  func(interface{}) ([]byte, error)
	dec  func([]byte) (interface{}, error)
	json bool
}

func (r *vRun) independenceCases() {
	for _, sg := range r.sigs {
		m := r.s.byType[sg.req]
		apis := []vMarshalAPI{
			{"ProtoMarshaler", sg.marshalPB, sg.unmarshalPB, false},
			{"ExportRequest.MarshalProto", sg.reqMarshalPB, sg.reqUnmarshalPB, false},
			{"JSONMarshaler", sg.marshalJSON, sg.unmarshalJSON, true},
			{"ExportRequest.MarshalJSON", sg.reqMarshalJSON, sg.reqUnmarshalJSON, true},
		}
		// payloads of different and of equal encoded sizes: A, B, C, then A', B', C' with the same shapes
		var vals []reflect.Value
		for i := 0; i < 4; i++ {
			o := &vGenOpt{rng: r.rng, budget: 2 + r.rng.Intn(4), asciiOnly: true, hist: r.hist}
			vals = append(vals, r.s.gen(o, m, 0))
		}
		// make them pairwise different and of different sizes whatever the generator drew: the first resource
		// gets a schema_url "independence-<i>-xxxx…" (an empty payload would hide an overwritten buffer)
		for i, v := range vals {
			rs := v.Field(m.fields[0].fieldIdx)
			if rs.Len() == 0 {
				rs.Set(reflect.Append(rs, reflect.New(rs.Type().Elem().Elem())))
			}
			e := rs.Index(0)
			if e.Kind() == reflect.Ptr {
				e = e.Elem()
			}
			if f := e.FieldByName("SchemaUrl"); f.IsValid() {
				f.SetString(fmt.Sprintf("independence-%d-%s", i, strings.Repeat("x", 5*i)))
			}
		}
		vals = append(vals, vals[0], vals[1]) // the same payloads again: same size, a recycled buffer fits exactly
		trees := make([]string, len(vals))
		for i, v := range vals {
			vCanonNaN(v)
			trees[i] = r.s.tree(m, v).String()
		}
		for _, api := range apis {
			outs := make([][]byte, len(vals))
			copies := make([][]byte, len(vals))
			okAll := true
			for i, v := range vals {
				b, err := api.enc(v.Addr().Interface())
				if err != nil {
					okAll = false
					break
				}
				outs[i] = b
				copies[i] = append([]byte(nil), b...)
			}
			if !okAll {
				continue
			}
			r.hist["independence_"+api.name]++
			// only now are the kept outputs looked at
			for i := range vals {
				term := vCaseTerm(0, m.id, trees[i], copies[i], len(copies[i]))
				if !bytes.Equal(outs[i], copies[i]) {
					r.out.Oracle("marshal-independence", term, fmt.Sprintf("%s %s: the bytes returned for payload #%d of %d changed after later calls (the result aliases a buffer that a later call reuses): %s", sg.name, api.name, i+1, len(vals), vFirstDiff(copies[i], outs[i])))
					continue
				}
				x, err := api.dec(outs[i])
				if err != nil {
					r.out.Oracle("marshal-independence", term, fmt.Sprintf("%s %s: the bytes kept from call #%d do not decode any more after later calls: %v", sg.name, api.name, i+1, err))
					continue
				}
				// a decoded value must not depend on the input buffer: the caller may reuse it
				t1 := r.s.tree(m, reflect.ValueOf(x).Elem()).String()
				for k := range outs[i] {
					outs[i][k] = 0xAA
				}
				if t2 := r.s.tree(m, reflect.ValueOf(x).Elem()).String(); t1 != t2 {
					r.out.Oracle("unmarshal-independence", term, fmt.Sprintf("%s %s: the decoded payload changes when the input buffer is overwritten afterwards (it aliases the caller's buffer)", sg.name, strings.Replace(api.name, "Marshal", "Unmarshal", 1)))
				}
			}
			// marshaling must leave the payload alone
			for i, v := range vals {
				if r.s.tree(m, v).String() != trees[i] {
					r.out.Oracle("marshal-mutates", vCaseTerm(0, m.id, trees[i], nil, 0), fmt.Sprintf("%s %s changed the payload it was given", sg.name, api.name))
				}
			}
			// correspondence: the bytes read at the END against the model of successive calls
			if api.name == "ProtoMarshaler" || api.name == "JSONMarshaler" {
				var parts []string
				for i := range vals {
					if api.json {
						if doc, err := vParseOrdered(copies[i]); err == nil {
							parts = append(parts, r.s.jvTerm(m, doc))
						} else {
							parts = append(parts, "JNull")
						}
					} else {
						parts = append(parts, "JStr (hex "+vHex(copies[i])+")")
					}
				}
				kind := 10
				if api.json {
					kind = 11
				}
				r.caseOut(true, vCaseTermJ(kind, m.id, "VRep ["+strings.Join(trees, "; ")+"]", "JArr ["+strings.Join(parts, "; ")+"]"))
			}
			r.concurrentMarshal(sg, m, api, vals, copies)
		}
		// the export responses
		type resp struct {
			n int64
			s string
		}
		rs := []resp{{1, "a"}, {-5, "longer message"}, {1 << 40, ""}, {1, "a"}}
		for _, js := range []bool{false, true} {
			outs := make([][]byte, len(rs))
			copies := make([][]byte, len(rs))
			for i, x := range rs {
				a := sg.newResp(x.n, x.s)
				var b []byte
				var err error
				if js {
					b, err = a.MarshalJSON()
				} else {
					b, err = a.MarshalProto()
				}
				if err != nil {
					continue
				}
				outs[i], copies[i] = b, append([]byte(nil), b...)
			}
			for i, x := range rs {
				if !bytes.Equal(outs[i], copies[i]) {
					r.out.Oracle("marshal-independence", vCaseTerm(3, r.s.byType[sg.resp].id, "VNone", copies[i], 0), fmt.Sprintf("%s ExportResponse (json=%v): the bytes returned for response #%d (%d, %q) changed after later calls", sg.name, js, i+1, x.n, x.s))
					continue
				}
				a2 := sg.newResp(0, "")
				var err error
				if js {
					err = a2.UnmarshalJSON(outs[i])
				} else {
					err = a2.UnmarshalProto(outs[i])
				}
				if n, s := sg.respGet(a2); err != nil || n != x.n || s != x.s {
					r.out.Oracle("marshal-independence", vCaseTerm(3, r.s.byType[sg.resp].id, "VNone", copies[i], 0), fmt.Sprintf("%s ExportResponse (json=%v): the bytes kept from call #%d decode to (%d, %q) instead of (%d, %q) (err=%v)", sg.name, js, i+1, n, s, x.n, x.s, err))
				}
			}
			r.hist["independence_response"]++
		}
	}
}

// several goroutines marshal their own payload repeatedly; every result, looked at a little later, must still
// be the reference encoding of that payload
func (r *vRun) concurrentMarshal(sg *vSignal, m *vMsg, api vMarshalAPI, vals []reflect.Value, refs [][]byte) {
	var mu sync.Mutex
	var bad []string
	var wg sync.WaitGroup
	for g := range vals {
		g := g
		wg.Add(1)
		go func() {
			defer wg.Done()
			req := vals[g].Addr().Interface()
			var prev []byte
			for it := 0; it < 40; it++ {
				b, err := api.enc(req)
				if err != nil {
					return
				}
				runtime.Gosched()
				if prev != nil && !bytes.Equal(prev, refs[g]) {
					mu.Lock()
					if len(bad) < 3 {
						bad = append(bad, fmt.Sprintf("goroutine %d iteration %d: %s", g, it, vFirstDiff(refs[g], prev)))
					}
					mu.Unlock()
					return
				}
				prev = b
			}
		}()
	}
	wg.Wait()
	r.hist["independence_concurrent_"+api.name]++
	if len(bad) > 0 {
		r.out.Oracle("marshal-independence", vCaseTerm(0, m.id, r.s.tree(m, vals[0]).String(), refs[0], len(refs[0])), fmt.Sprintf("%s %s under concurrent calls: a result kept across other goroutines' calls changed: %s", sg.name, api.name, strings.Join(bad, " | ")))
	}
}
