// C08 harness, part 7: malformed and boundary TOKENS, field by field.  For every message
// reachable from the four request roots and every field of it, a minimal OTLP/JSON document that
// reaches the message and gives the field one hostile value: ids of every length (empty, short,
// exact, over-long, odd, non-hex), bad and good base64, integers at and beyond their range as
// numbers and as strings, floats and booleans where integers are expected, unknown enum names,
// strings where numbers are expected and the reverse, null / object / array in every position.
//
//	oracle (all tokens): no panic, returns, and whatever decodes re-encodes to a fixed point;
//	correspondence kind 6 (the tokens whose meaning the model defines): TWO-SIDED — the
//	implementation accepts the document iff the model does, and builds the same value.
package pprofileotlp

import (
	"fmt"
	"reflect"
	"strings"
)

type vTok struct {
	text     string
	what     string
	twoSided bool
}

func vIntToks(f *vField) []vTok {
	var lo, hi, below, above string
	switch f.skind {
	case "SU64", "SFix64":
		lo, hi, below, above = "0", "18446744073709551615", "-1", "18446744073709551616"
	case "SI64", "SSFix64":
		lo, hi, below, above = "-9223372036854775808", "9223372036854775807", "-9223372036854775809", "9223372036854775808"
	case "SU32", "SFix32":
		lo, hi, below, above = "0", "4294967295", "-1", "4294967296"
	default: // SI32, SZig32, SEnum
		lo, hi, below, above = "-2147483648", "2147483647", "-2147483649", "2147483648"
	}
	q := func(s string) string { return `"` + s + `"` }
	toks := []vTok{
		{lo, "int-min", true}, {hi, "int-max", true}, {below, "int-below-range", true}, {above, "int-above-range", true},
		{"1.5", "float-for-int", true}, {"true", "bool-for-int", true},
		{"1e3", "exponent-for-int", false}, {"null", "null", false}, {"{}", "object-for-scalar", false}, {"[]", "array-for-scalar", false},
		{q("007"), "leading-zeros-string", false}, {q("+7"), "plus-sign-string", false}, {q(" 7"), "space-string", false},
		{q(""), "empty-string-for-int", false}, {q("1e3"), "exponent-string", false},
		{q(strings.Repeat("9", 100)), "100-digit-string", false}, {strings.Repeat("9", 100), "100-digit-number", false},
	}
	if f.skind != "SEnum" {
		// a reader that accepts strings at all accepts the decimal forms; the model knows from the table
		toks = append(toks, vTok{q(lo), "int-min-string", true}, vTok{q(hi), "int-max-string", true},
			vTok{q(below), "int-below-range-string", true}, vTok{q(above), "int-above-range-string", true},
			vTok{q("abc"), "word-for-int", true})
	} else {
		toks = append(toks, vTok{q("NO_SUCH_ENUM_VALUE"), "unknown-enum-name", true}, vTok{q(""), "empty-enum-name", false})
		for _, name := range f.enumName {
			toks = append(toks, vTok{q(name), "enum-name", true})
			break
		}
	}
	return toks
}

func vHostileToks(f *vField) []vTok {
	q := func(s string) string { return `"` + s + `"` }
	switch f.ty {
	case vtScalar:
		switch f.skind {
		case "SBool":
			return []vTok{{"true", "bool", true}, {"false", "bool", true}, {"1", "int-for-bool", true}, {q("true"), "string-for-bool", true},
				{"null", "null", false}, {"{}", "object-for-scalar", false}}
		case "SDouble":
			return []vTok{{"1.5", "double", true}, {q("NaN"), "NaN", true}, {q("Infinity"), "Infinity", true}, {q("-Infinity"), "-Infinity", true},
				{"true", "bool-for-double", true},
				{q("nan"), "lowercase-nan", false}, {q("+Inf"), "+Inf", false}, {q("abc"), "word-for-double", false}, {q(""), "empty-string-for-double", false},
				{"1e999", "overflowing-double", false}, {"-1e999", "overflowing-double", false}, {q("1e999"), "overflowing-double-string", false},
				{"-0", "negative-zero-literal", false}, {"7", "int-for-double", false}, {"null", "null", false}, {"[]", "array-for-scalar", false},
				{"1" + strings.Repeat("0", 400), "401-digit-number", false}}
		}
		return vIntToks(f)
	case vtStr:
		return []vTok{{q("x"), "string", true}, {"7", "int-for-string", true}, {"true", "bool-for-string", true},
			{"null", "null", false}, {"{}", "object-for-string", false}, {"[]", "array-for-string", false},
			{q(`\ud800`), "lone-surrogate", false}, {q(`\x`), "bad-escape", false}, {q(strings.Repeat("a", 5000)), "long-string", false}}
	case vtBytes:
		return []vTok{{q(""), "base64-0", true}, {q("AQ=="), "base64-1", true}, {q("AQI="), "base64-2", true}, {q("AQID"), "base64-3", true},
			{q("***"), "not-base64", false}, {q("A"), "base64-truncated", false}, {q("AQI"), "base64-unpadded", false}, {q("AQI=="), "base64-overpadded", false},
			{q("AQ-_"), "base64-url-alphabet", false}, {"7", "int-for-bytes", false}, {"null", "null", false}, {"{}", "object-for-bytes", false}}
	case vtID:
		n := f.idLen
		hx := func(k int) string { return strings.Repeat("a1", k) }
		return []vTok{{q(""), "id-empty", true}, {q(hx(1)), "id-1-byte", true}, {q(hx(n - 1)), "id-one-short", true}, {q(hx(n)), "id-exact", true},
			{q(hx(n + 1)), "id-one-long", true}, {q(hx(2 * n)), "id-double", true}, {q(strings.Repeat("00", n)), "id-all-zero", true},
			{q(hx(n) + "a"), "id-odd-long", false}, {q(hx(n-1) + "a"), "id-odd-short", false}, {q(strings.Repeat("zz", n)), "id-not-hex", false},
			{q(strings.Repeat("A1", n)), "id-uppercase", false}, {q(hx(200)), "id-200-bytes", false},
			{"7", "int-for-id", false}, {"null", "null", false}, {"{}", "object-for-id", false}, {"[]", "array-for-id", false}}
	case vtMsg:
		return []vTok{{"null", "null-for-message", false}, {"7", "int-for-message", false}, {q("x"), "string-for-message", false},
			{"[]", "array-for-message", false}, {"[null]", "array-of-null", false}, {"[7]", "array-of-int", false}, {"{}", "empty-object", false},
			{`{"":1}`, "empty-key", false}}
	}
	return nil
}

func (r *vRun) hostileJSONCases() {
	paths, order := r.s.jsonPaths(r.sigs)
	n, emitted := 0, 0
	for _, m := range order {
		pr := paths[m]
		root := r.s.byType[pr.sg.req]
		for _, f := range m.fields {
			if f.num == 1000 {
				continue
			}
			keys := []string{f.jsonName}
			if f.ty == vtID && f.name != f.jsonName {
				keys = append(keys, f.name)
			}
			for _, key := range keys {
				for _, tk := range vHostileToks(f) {
					tok := tk.text
					if (f.card == vcRep || f.card == vcPacked) && f.ty != vtMsg {
						tok = "[" + tok + "]"
					}
					doc := []byte(vNest(pr.path, `{"`+key+`":`+tok+`}`))
					n++
					r.hist["hostile_"+tk.what]++
					var x interface{}
					var err error
					term := vCaseTerm(3, root.id, "VNone", doc, 0)
					if len(doc) > 1500 {
						term = vCaseTerm(3, root.id, "VNone", doc[:1500], 0)
					}
					if !vGuard(r.out, pr.sg.name+" UnmarshalJSON("+tk.what+" at "+m.name+"."+f.name+")", term, func() { x, err = pr.sg.unmarshalJSON(doc) }) {
						continue
					}
					if err == nil {
						r.hist["hostile_accepted_"+tk.what]++
					}
					// the same document through the export-request wrapper must not panic either, and must agree
					var y interface{}
					var err2 error
					if vGuard(r.out, pr.sg.name+" ExportRequest.UnmarshalJSON("+tk.what+")", term, func() { y, err2 = pr.sg.reqUnmarshalJSON(doc) }) {
						if (err == nil) != (err2 == nil) {
							r.out.Oracle("wrapper-agree", term, fmt.Sprintf("%s: JSONUnmarshaler and ExportRequest.UnmarshalJSON disagree on accepting %s at %s.%s (%v / %v)", pr.sg.name, tk.what, m.name, f.name, err, err2))
						} else if err == nil && r.s.tree(root, reflect.ValueOf(x).Elem()).String() != r.s.tree(root, reflect.ValueOf(y).Elem()).String() {
							r.out.Oracle("wrapper-agree", term, fmt.Sprintf("%s: JSONUnmarshaler and ExportRequest.UnmarshalJSON decode %s at %s.%s differently", pr.sg.name, tk.what, m.name, f.name))
						}
					}
					if err == nil && n%3 == 0 {
						r.jsonDecodeCase(pr.sg, doc, "hostile-"+tk.what) // fixed point of what was accepted
					}
					if tk.twoSided && len(doc) < 1500 && (f.ty != vtScalar || f.skind == "SEnum" || n%3 == 0) {
						parsed, perr := vParseJSON(doc)
						if perr != nil {
							continue
						}
						val := "VNone"
						if err == nil {
							val = "VSome (" + r.s.tree(root, reflect.ValueOf(x).Elem()).String() + ")"
						}
						r.caseOut(true, vCaseTermJ(6, root.id, val, r.s.jvTerm(root, parsed)))
						emitted++
					}
				}
			}
		}
	}
	r.hist["hostile_total"] = n
	r.hist["hostile_two_sided_cases"] = emitted
}

// ---- the same on the protobuf side -------------------------------------------------------------
// One hostile occurrence of one field inside an otherwise minimal, valid request: ids of every
// length, an 11-byte varint, a varint cut by the end of the input, a length that runs past the end,
// the wrong wire type, an end-group tag.  Oracle: no panic, returns, fixed point.  Correspondence
// kind 7, TWO-SIDED (these are definite errors or definite values of the model): the public
// ProtoUnmarshaler accepts iff the model's decode does, with the same value.
func vWrapPB(hops []*vField, leaf []byte) []byte {
	b := leaf
	for i := len(hops) - 1; i >= 0; i-- {
		w := vAppendVarint(nil, uint64(hops[i].num)<<3|2)
		w = vAppendVarint(w, uint64(len(b)))
		b = append(w, b...)
	}
	return b
}

type vPBTok struct {
	b    []byte
	what string
}

func vHostilePB(f *vField) []vPBTok {
	tag := func(wt uint64) []byte { return vAppendVarint(nil, uint64(f.num)<<3|wt) }
	ld := func(p []byte) []byte { return append(vAppendVarint(tag(2), uint64(len(p))), p...) }
	rep := func(x byte, n int) []byte {
		p := make([]byte, n)
		for i := range p {
			p[i] = x
		}
		return p
	}
	var out []vPBTok
	natural := uint64(2)
	if f.ty == vtScalar && f.card != vcPacked {
		natural = map[string]uint64{"varint": 0, "zigzag32": 0, "fixed64": 1, "fixed32": 5}[f.wire]
	}
	if f.ty == vtID {
		n := f.idLen
		for _, k := range []int{0, 1, n - 1, n, n + 1, 2 * n} {
			out = append(out, vPBTok{ld(rep(0xa1, k)), fmt.Sprintf("pb-id-len%+d", k-n)})
		}
		out = append(out, vPBTok{ld(rep(0, n)), "pb-id-all-zero"})
	}
	switch natural {
	case 0:
		out = append(out, vPBTok{append(tag(0), 0xff, 0xff, 0xff, 0xff, 0xff, 0xff, 0xff, 0xff, 0xff, 0x01), "pb-varint-max"},
			vPBTok{append(tag(0), 0x80, 0x80, 0x80, 0x80, 0x80, 0x80, 0x80, 0x80, 0x80, 0x80, 0x01), "pb-varint-11-bytes"},
			vPBTok{append(tag(0), 0x80, 0x80), "pb-varint-cut"},
			vPBTok{append(tag(1), 1, 2, 3, 4, 5, 6, 7, 8), "pb-wrong-wire-type"})
	case 1:
		out = append(out, vPBTok{append(tag(1), 0xff, 0xff, 0xff, 0xff, 0xff, 0xff, 0xff, 0xff), "pb-fixed64-max"},
			vPBTok{append(tag(1), 1, 2, 3), "pb-fixed64-cut"}, vPBTok{append(tag(0), 7), "pb-wrong-wire-type"})
	case 5:
		out = append(out, vPBTok{append(tag(5), 0xff, 0xff, 0xff, 0xff), "pb-fixed32-max"},
			vPBTok{append(tag(5), 1), "pb-fixed32-cut"}, vPBTok{append(tag(0), 7), "pb-wrong-wire-type"})
	default:
		out = append(out, vPBTok{append(tag(2), 5, 1, 2), "pb-length-past-end"},
			vPBTok{append(tag(2), 0xff, 0xff, 0xff, 0xff, 0xff, 0xff, 0xff, 0xff, 0xff, 0x01), "pb-length-2^64-1"},
			vPBTok{append(tag(2), 0xff, 0xff, 0xff, 0xff, 0x07), "pb-length-2^31-1"},
			vPBTok{append(tag(0), 7), "pb-wrong-wire-type"}, vPBTok{ld(nil), "pb-empty-payload"})
	}
	out = append(out, vPBTok{tag(4), "pb-end-group-tag"}, vPBTok{tag(3), "pb-start-group-tag-for-known-field"})
	return out
}

func (r *vRun) hostilePBCases() {
	paths, order := r.s.fieldPaths(r.sigs)
	n := 0
	for _, m := range order {
		p := paths[m]
		root := r.s.byType[p.sg.req]
		sg := p.sg
		for _, f := range m.fields {
			if f.num == 1000 {
				continue
			}
			for _, tk := range vHostilePB(f) {
				// the leaf sits at the END of every enclosing message, so "cut" tokens are cut by the end of input
				b := vWrapPB(p.hops, tk.b)
				n++
				r.hist["hostile_"+tk.what]++
				term0 := vCaseTerm(7, root.id, "VNone", b, 0)
				vCur.term = term0
				var x interface{}
				var err error
				if !vGuard(r.out, sg.name+" UnmarshalX("+tk.what+" at "+m.name+"."+f.name+")", term0, func() { x, err = sg.unmarshalPB(b) }) {
					continue
				}
				// every id token is a correspondence case; of the uniform ones (wire types, cuts) one in three
				asCase := f.ty == vtID || n%5 == 0
				if err != nil {
					if asCase {
						r.caseOut(false, term0)
					}
					continue
				}
				r.hist["hostile_accepted_"+tk.what]++
				v := reflect.ValueOf(x).Elem()
				if asCase {
					r.caseOut(true, vCaseTerm(7, root.id, "VSome ("+r.s.tree(root, v).String()+")", b, 0))
				}
				pb := v.Addr().Interface().(vPB)
				b1, e1 := vMarshal(pb)
				if sz := vSize(pb); e1 != nil || sz != len(b1) {
					r.out.Oracle("decode-fixpoint", term0, fmt.Sprintf("%s: decoded value does not marshal (err=%v) or Size()=%d != %d", tk.what, e1, sz, len(b1)))
					continue
				}
				if y, e2 := sg.unmarshalPB(b1); e2 != nil {
					r.out.Oracle("decode-fixpoint", term0, fmt.Sprintf("%s: Marshal(Unmarshal(b)) does not decode: %v", tk.what, e2))
				} else if b2, e3 := vMarshal(reflect.ValueOf(y).Interface().(vPB)); e3 != nil || string(b2) != string(b1) {
					r.out.Oracle("decode-fixpoint", term0, fmt.Sprintf("%s: re-encoding is not a fixed point (err=%v)", tk.what, e3))
				}
			}
		}
	}
	// lengths at the edge of the int range, for an UNKNOWN field that sits at a non-zero offset of its message
	// (after another unknown field), and for every message: the generated decoders add such a length to the
	// current offset in several places (skip of unknown fields, postIndex of known ones) and must detect the
	// overflow — "offset + length" wraps to a negative number only when the length is within `offset` of MaxInt64
	for _, m := range order {
		p := paths[m]
		root := r.s.byType[p.sg.req]
		sg := p.sg
		unk := uint64(99)
		for m.fieldByNum(unk) != nil {
			unk += 101
		}
		for _, pre := range []int{1, 3, 9} { // how many 2-byte unknown varint fields precede: offsets 2, 6, 18
			var prefix []byte
			for i := 0; i < pre; i++ {
				prefix = vAppendVarint(vAppendVarint(prefix, unk<<3|0), 1)
			}
			for d := uint64(0); d <= 24; d++ {
				for _, wt2 := range []bool{true, false} {
					leaf := append([]byte(nil), prefix...)
					what := "pb-unknown-length-near-maxint64"
					if wt2 {
						leaf = vAppendVarint(vAppendVarint(leaf, unk<<3|2), uint64(1<<63-1)-d)
					} else { // the same length on the first length-delimited KNOWN field of the message, if any
						var kf *vField
						for _, f := range m.fields {
							if f.num != 1000 && (f.ty != vtScalar || f.card == vcPacked) {
								kf = f
								break
							}
						}
						if kf == nil {
							continue
						}
						what = "pb-known-length-near-maxint64"
						leaf = vAppendVarint(vAppendVarint(leaf, uint64(kf.num)<<3|2), uint64(1<<63-1)-d)
					}
					b := vWrapPB(p.hops, leaf)
					n++
					r.hist["hostile_"+what]++
					term0 := vCaseTerm(7, root.id, "VNone", b, 0)
					vCur.term = term0
					var err error
					if !vGuard(r.out, sg.name+" UnmarshalX("+what+" in "+m.name+")", term0, func() { _, err = sg.unmarshalPB(b) }) {
						continue
					}
					if err == nil {
						r.out.Oracle("decode-fixpoint", term0, fmt.Sprintf("%s in %s: an input whose declared length runs (far) past the end is accepted", what, m.name))
					}
					if d == 0 && pre == 3 {
						r.caseOut(false, term0) // two-sided: the model rejects as well
					}
				}
			}
		}
	}
	r.hist["hostile_pb_total"] = n
}
