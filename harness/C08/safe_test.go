// C08 harness, part 0: telling a panic of the IMPLEMENTATION from a bug of this harness.
//   - every call into the implementation goes through a recovering wrapper (the vSignal functions
//     are wrapped by vSafeSignal; the generated Marshal/Size/Unmarshal through vMarshal / vSize /
//     vUnmarshal; closures run by vGuard).  A panic there is reported as oracle kind "panic" with
//     the input of the case being processed, and the run goes on.
//   - the origin of a recovered panic is read from the stack: if the first frame that is not runtime /
//     reflect code lies in a harness file (zz_verif_*), it is a HARNESS BUG: it is never turned
//     into an oracle failure; the test fails with a line starting VERIF-HARNESS-PANIC, which
//     props/C08/check.py reports as a broken harness, not as a finding about the code.
package pprofileotlp

import (
	"fmt"
	"path/filepath"
	"runtime"
	"runtime/debug"
	"strings"
	"sync"
	"testing"
)

var vCur struct {
	out  *vOut
	term string
}

var (
	vBugMu       sync.Mutex
	vHarnessBugs []string
)

func vHarnessBug(msg string) {
	vBugMu.Lock()
	defer vBugMu.Unlock()
	if len(vHarnessBugs) < 20 {
		vHarnessBugs = append(vHarnessBugs, msg)
	}
}

// to be called inside a deferred function that has just recovered a panic: where did it originate?
func vPanicOrigin() (harness bool, where string) {
	pcs := make([]uintptr, 64)
	n := runtime.Callers(2, pcs)
	frames := runtime.CallersFrames(pcs[:n])
	seenPanic := false
	for {
		fr, more := frames.Next()
		fn := fr.Function
		switch {
		case strings.HasPrefix(fn, "runtime."):
			if strings.HasPrefix(fn, "runtime.gopanic") || strings.HasPrefix(fn, "runtime.goPanic") || strings.HasPrefix(fn, "runtime.panic") || strings.HasPrefix(fn, "runtime.sigpanic") {
				seenPanic = true
			}
		case !seenPanic:
			// frames of the deferred function itself
		case strings.HasPrefix(fn, "reflect.") || strings.HasPrefix(fn, "internal/"):
			// keep looking: who called reflect?
		default:
			base := filepath.Base(fr.File)
			where = fmt.Sprintf("%s:%d %s", base, fr.Line, fn[strings.LastIndex(fn, "/")+1:])
			return strings.HasPrefix(base, "zz_verif_"), where
		}
		if !more {
			return false, "?"
		}
	}
}

type vImplPanic struct{ msg string }

func (e *vImplPanic) Error() string { return e.msg }

// turn a recovered panic into an oracle failure (implementation) or a harness bug
func vOnPanic(what string, r interface{}) error {
	h, where := vPanicOrigin2()
	if h {
		vHarnessBug(fmt.Sprintf("%s: %v at %s", what, r, where))
		return &vImplPanic{"harness bug: " + fmt.Sprint(r)}
	}
	msg := fmt.Sprintf("%s panicked: %v (at %s)", what, r, where)
	if vCur.out != nil {
		vCur.out.Oracle("panic", vCur.term, msg)
	}
	return &vImplPanic{msg}
}

// same as vPanicOrigin, one frame deeper (called from vOnPanic)
func vPanicOrigin2() (bool, string) {
	pcs := make([]uintptr, 64)
	n := runtime.Callers(3, pcs)
	frames := runtime.CallersFrames(pcs[:n])
	seenPanic := false
	for {
		fr, more := frames.Next()
		fn := fr.Function
		switch {
		case strings.HasPrefix(fn, "runtime."):
			if strings.HasPrefix(fn, "runtime.gopanic") || strings.HasPrefix(fn, "runtime.goPanic") || strings.HasPrefix(fn, "runtime.panic") || strings.HasPrefix(fn, "runtime.sigpanic") {
				seenPanic = true
			}
		case !seenPanic:
		case strings.HasPrefix(fn, "reflect.") || strings.HasPrefix(fn, "internal/"):
		default:
			base := filepath.Base(fr.File)
			return strings.HasPrefix(base, "zz_verif_"), fmt.Sprintf("%s:%d %s", base, fr.Line, fn[strings.LastIndex(fn, "/")+1:])
		}
		if !more {
			return false, "?"
		}
	}
}

func vMarshal(pb vPB) (b []byte, err error) {
	defer func() {
		if r := recover(); r != nil {
			b, err = nil, vOnPanic("Marshal", r)
		}
	}()
	return pb.Marshal()
}

func vSize(pb vPB) (n int) {
	defer func() {
		if r := recover(); r != nil {
			_ = vOnPanic("Size", r)
			n = -1
		}
	}()
	return pb.Size()
}

func vUnmarshal(pb vPB, b []byte) (err error) {
	defer func() {
		if r := recover(); r != nil {
			err = vOnPanic("Unmarshal", r)
		}
	}()
	return pb.Unmarshal(b)
}

type vSafeResp struct{ in vRespAPI }

func (s vSafeResp) MarshalProto() (b []byte, err error) {
	defer func() {
		if r := recover(); r != nil {
			b, err = nil, vOnPanic("ExportResponse.MarshalProto", r)
		}
	}()
	return s.in.MarshalProto()
}

func (s vSafeResp) UnmarshalProto(b []byte) (err error) {
	defer func() {
		if r := recover(); r != nil {
			err = vOnPanic("ExportResponse.UnmarshalProto", r)
		}
	}()
	return s.in.UnmarshalProto(b)
}

func (s vSafeResp) MarshalJSON() (b []byte, err error) {
	defer func() {
		if r := recover(); r != nil {
			b, err = nil, vOnPanic("ExportResponse.MarshalJSON", r)
		}
	}()
	return s.in.MarshalJSON()
}

func (s vSafeResp) UnmarshalJSON(b []byte) (err error) {
	defer func() {
		if r := recover(); r != nil {
			err = vOnPanic("ExportResponse.UnmarshalJSON", r)
		}
	}()
	return s.in.UnmarshalJSON(b)
}

func vSafeSignal(sg *vSignal) {
	enc := func(name string, f func(interface{}) ([]byte, error)) func(interface{}) ([]byte, error) {
		return func(x interface{}) (b []byte, err error) {
			defer func() {
				if r := recover(); r != nil {
					b, err = nil, vOnPanic(sg.name+" "+name, r)
				}
			}()
			return f(x)
		}
	}
	dec := func(name string, f func([]byte) (interface{}, error)) func([]byte) (interface{}, error) {
		return func(b []byte) (x interface{}, err error) {
			defer func() {
				if r := recover(); r != nil {
					x, err = nil, vOnPanic(sg.name+" "+name, r)
				}
			}()
			return f(b)
		}
	}
	sg.marshalPB = enc("ProtoMarshaler", sg.marshalPB)
	sg.marshalJSON = enc("JSONMarshaler", sg.marshalJSON)
	sg.reqMarshalPB = enc("ExportRequest.MarshalProto", sg.reqMarshalPB)
	sg.reqMarshalJSON = enc("ExportRequest.MarshalJSON", sg.reqMarshalJSON)
	sg.unmarshalPB = dec("ProtoUnmarshaler", sg.unmarshalPB)
	sg.unmarshalJSON = dec("JSONUnmarshaler", sg.unmarshalJSON)
	sg.reqUnmarshalPB = dec("ExportRequest.UnmarshalProto", sg.reqUnmarshalPB)
	sg.reqUnmarshalJSON = dec("ExportRequest.UnmarshalJSON", sg.reqUnmarshalJSON)
	size := sg.sizePB
	sg.sizePB = func(x interface{}) (n int) {
		defer func() {
			if r := recover(); r != nil {
				_ = vOnPanic(sg.name+" Sizer", r)
				n = -1
			}
		}()
		return size(x)
	}
	newResp, respGet := sg.newResp, sg.respGet
	sg.newResp = func(n int64, m string) vRespAPI { return vSafeResp{newResp(n, m)} }
	sg.respGet = func(r vRespAPI) (int64, string) {
		if s, ok := r.(vSafeResp); ok {
			r = s.in
		}
		return respGet(r)
	}
}

// deferred at the top of every test: a panic that reaches it is by construction harness code
func vHarnessRecover(t *testing.T) {
	if r := recover(); r != nil {
		t.Fatalf("VERIF-HARNESS-PANIC (bug in harness/C08, not in the implementation): %v\n%s", r, debug.Stack())
	}
}

func vFailOnHarnessBugs(t *testing.T) {
	vBugMu.Lock()
	defer vBugMu.Unlock()
	if len(vHarnessBugs) > 0 {
		t.Errorf("VERIF-HARNESS-PANIC (bug in harness/C08, not in the implementation), %d recovered: %s", len(vHarnessBugs), strings.Join(vHarnessBugs, " | "))
	}
}
