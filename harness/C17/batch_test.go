// C17 correspondence harness for processor/batchprocessor (injected by overlay; package-internal).
//
// Case terms (Coq type C17.Harness.vcase, every number an N, whole term wrapped in ( ... )%N):
//   CSplit3 sig size src d k      the real splitLogs (sig 0) / splitTraces (sig 1): returned value d, src afterwards k
//   CSplit4 size src d k          the real splitMetrics
//   CRun3 sig cfg script obs      a run of the real processor with a recording sink
//   CRun4 cfg script obs
//   CValidate cfg class           Config.Validate (0 nil, 1 max<size, 2 duplicate key, 3 negative timeout)
// Direct oracle (independent of the Coq model), on the sink log of every run:
//   conservation  multiset of (export-context tuple, item with resource/scope/schema URLs/metric identity) emitted
//                 == multiset accepted (tuple computed from the producer's metadata by the harness)
//   max-size      no export above send_batch_max_size
//   size-trigger  once a shard is quiescent fewer than send_batch_size items are pending (none when there is no timer)
//   timer-flush   a timer firing emits everything pending; a real 30 ms timeout flushes without any further arrival
//   cardinality   a new tuple is refused (permanent error) iff the limit is reached; nothing else is refused
//   split         count(d) = min(size, count(src)) and items(d) ++ items(k) = items(src) with full identity
package batchprocessor

import (
	"context"
	"errors"
	"fmt"
	"runtime"
	"sort"
	"strings"
	"sync"
	"sync/atomic"
	"testing"
	"time"

	"go.opentelemetry.io/collector/client"
	"go.opentelemetry.io/collector/component/componenttest"
	"go.opentelemetry.io/collector/consumer"
	"go.opentelemetry.io/collector/consumer/consumererror"
	"go.opentelemetry.io/collector/pdata/plog"
	"go.opentelemetry.io/collector/pdata/pmetric"
	"go.opentelemetry.io/collector/pdata/ptrace"
	"go.opentelemetry.io/collector/processor/batchprocessor/internal/metadata"
	"go.opentelemetry.io/collector/processor/processortest"
)

// ---- signal adapters -----------------------------------------------------------------------------
type vSignal[T any, P any] struct {
	sig     int // 0 logs, 1 traces, 2 metrics
	name    string
	build   func(P) T
	read    func(T) P
	term    func(P) string
	items   func(P) []string
	gen     func(*vGen) P
	mk      func(*vGen, int) P // a payload with exactly n items
	split   func(int, T) T
	newProc func(cfg *Config, sink func(context.Context, T) error) (*batchProcessor[T], func(context.Context, T) error, error)
}

func vLogsSignal() vSignal[plog.Logs, []vRes3] {
	return vSignal[plog.Logs, []vRes3]{
		sig: 0, name: "logs", build: vBuildLogs, read: vReadLogs, term: vTerm3, items: vItems3,
		gen: func(g *vGen) []vRes3 { return g.payload3() }, mk: vMk3, split: splitLogs,
		newProc: func(cfg *Config, sink func(context.Context, plog.Logs) error) (*batchProcessor[plog.Logs], func(context.Context, plog.Logs) error, error) {
			next, err := consumer.NewLogs(sink)
			if err != nil {
				return nil, nil, err
			}
			p, err := newLogsBatchProcessor(processortest.NewNopSettings(metadata.Type), next, cfg)
			if err != nil {
				return nil, nil, err
			}
			lp := p.(*logsBatchProcessor)
			return lp.batchProcessor, lp.ConsumeLogs, nil
		},
	}
}

func vTracesSignal() vSignal[ptrace.Traces, []vRes3] {
	return vSignal[ptrace.Traces, []vRes3]{
		sig: 1, name: "traces", build: vBuildTraces, read: vReadTraces, term: vTerm3, items: vItems3,
		gen: func(g *vGen) []vRes3 { return g.payload3() }, mk: vMk3, split: splitTraces,
		newProc: func(cfg *Config, sink func(context.Context, ptrace.Traces) error) (*batchProcessor[ptrace.Traces], func(context.Context, ptrace.Traces) error, error) {
			next, err := consumer.NewTraces(sink)
			if err != nil {
				return nil, nil, err
			}
			p, err := newTracesBatchProcessor(processortest.NewNopSettings(metadata.Type), next, cfg)
			if err != nil {
				return nil, nil, err
			}
			tp := p.(*tracesBatchProcessor)
			return tp.batchProcessor, tp.ConsumeTraces, nil
		},
	}
}

func vMetricsSignal() vSignal[pmetric.Metrics, []vRes4] {
	return vSignal[pmetric.Metrics, []vRes4]{
		sig: 2, name: "metrics", build: vBuildMetrics, read: vReadMetrics, term: vTerm4, items: vItems4,
		gen: func(g *vGen) []vRes4 { return g.payload4() }, mk: vMk4, split: splitMetrics,
		newProc: func(cfg *Config, sink func(context.Context, pmetric.Metrics) error) (*batchProcessor[pmetric.Metrics], func(context.Context, pmetric.Metrics) error, error) {
			next, err := consumer.NewMetrics(sink)
			if err != nil {
				return nil, nil, err
			}
			p, err := newMetricsBatchProcessor(processortest.NewNopSettings(metadata.Type), next, cfg)
			if err != nil {
				return nil, nil, err
			}
			mp := p.(*metricsBatchProcessor)
			return mp.batchProcessor, mp.ConsumeMetrics, nil
		},
	}
}

func (sg vSignal[T, P]) splitCase(size int, src, d, k string) string {
	if sg.sig == 2 {
		return fmt.Sprintf("(CSplit4 %d %s %s %s)%%N", size, src, d, k)
	}
	return fmt.Sprintf("(CSplit3 %d %d %s %s %s)%%N", sg.sig, size, src, d, k)
}

func (sg vSignal[T, P]) runCase(cfg, script, obs string) string {
	if sg.sig == 2 {
		return fmt.Sprintf("(CRun4 %s %s %s)%%N", cfg, script, obs)
	}
	return fmt.Sprintf("(CRun3 %d %s %s %s)%%N", sg.sig, cfg, script, obs)
}

// ---- (1) the pure splits --------------------------------------------------------------------------
func vEqStrings(a, b []string) bool {
	if len(a) != len(b) {
		return false
	}
	for i := range a {
		if a[i] != b[i] {
			return false
		}
	}
	return true
}

func vSplitCases[T any, P any](out *vOut, rng *vRand, sg vSignal[T, P], n int) {
	for c := 0; c < n; c++ {
		g := &vGen{r: rng}
		p := sg.gen(g)
		before := sg.items(p)
		cnt := len(before)
		var size int
		switch rng.Pick(1, 6, 2, 1) {
		case 0:
			size = 0
		case 1:
			if cnt > 1 {
				size = 1 + rng.Intn(cnt-1) // a real split
			} else {
				size = 1
			}
		case 2:
			size = cnt + rng.Intn(3) // fits: src is returned itself
		default:
			size = cnt - 1
			if size < 0 {
				size = 0
			}
		}
		src := sg.build(p)
		srcTerm := sg.term(p)
		d := sg.split(size, src)
		dIR, kIR := sg.read(d), sg.read(src)
		term := sg.splitCase(size, srcTerm, sg.term(dIR), sg.term(kIR))
		out.Case(cnt > size && size > 0, term)
		out.Stat(sg.name+".split_cases", 1)
		di, ki := sg.items(dIR), sg.items(kIR)
		if cnt <= size {
			out.Stat(sg.name+".split_fits", 1)
			if !vEqStrings(di, before) {
				out.Oracle("split", term, fmt.Sprintf("%s: size %d >= count %d but the returned payload differs from the source", sg.name, size, cnt))
			}
			continue
		}
		out.Stat(sg.name+".split_cuts", 1)
		if len(di) != size {
			out.Oracle("split", term, fmt.Sprintf("%s: returned %d items, want min(size,count) = %d", sg.name, len(di), size))
		}
		if !vEqStrings(append(append([]string{}, di...), ki...), before) {
			out.Oracle("split", term, fmt.Sprintf("%s: items(returned) ++ items(rest) differs from items(source) (with identity): %s", sg.name, vDiff(append(append([]string{}, di...), ki...), before)))
		}
	}
}

// vDiff describes the first difference between two item multisets / lists (got vs want).
func vDiff(got, want []string) string {
	id := func(s string) string { // the bare item id: between the optional "tuple|" prefix and "@"
		if i := strings.Index(s, "|"); i >= 0 {
			s = s[i+1:]
		}
		return s[:strings.Index(s, "@")]
	}
	wantBy := map[string]string{}
	wc := map[string]int{}
	for _, w := range want {
		wantBy[id(w)] = w
		wc[w]++
	}
	gc := map[string]int{}
	for _, g := range got {
		gc[g]++
	}
	for _, g := range got {
		if gc[g] > wc[g] {
			if w, ok := wantBy[id(g)]; ok && w != g {
				return fmt.Sprintf("identity changed: item %s arrived as %s", g, w)
			}
			if wc[g] > 0 {
				return fmt.Sprintf("duplicated: %s emitted %d times, accepted %d", g, gc[g], wc[g])
			}
			return "invented: " + g
		}
	}
	for _, w := range want {
		if wc[w] > gc[w] {
			return "lost: " + w
		}
	}
	return "order differs"
}

// ---- (2) processor runs ---------------------------------------------------------------------------
var vKeyPool = [][]string{{"k1", "K1"}, {"k2", "K2", "k2"}, {"tenant-id", "Tenant-Id", "TENANT-ID"}}

// metadata values: opaque to the model (an N id); the pool contains values that differ only in how they
// split into list elements, in case, in white space or by an empty string, so that ANY non-injective way of
// forming the shard key from the value list (joining, sorting, de-duplicating, first value only, lower-casing,
// trimming, dropping empties) merges two groups that must stay apart.
var vValPool = []string{"a", "b", "c", "a,b", "", "A", "a b", "ab", " a", "a;b", "a,", ",a"}

func vValID(s string) uint64 {
	for i, v := range vValPool {
		if v == s {
			return uint64(i + 1)
		}
	}
	return 999
}

// value lists by family; nil = key absent (distinct from the explicit empty list only in the generator)
var vValFamilies = [][][]string{
	{{"a", "b"}, {"a,b"}, {"b", "a"}, {"a;b"}, {"a b"}, {"ab"}, {"a"}, {"a", ""}, {"a,"}, {"", "a"}, {",a"}}, // element boundaries
	{nil, {}, {""}, {"a", ""}, {"", "a"}, {"a"}, {"", ""}, {"a,"}},                                              // absent / empty / empty string
	{{"a"}, {"A"}, {" a"}, {"a", "a"}, {"b"}, {"a", "b"}, {"b", "a"}},                                          // normalisation, duplicates, order
	{{"a"}, {"b"}, {"c"}, {"a", "b"}, nil},                                                                      // plain
}

func vTupleTerm(vals [][]string) string {
	var it []string
	for _, vs := range vals {
		var l []uint64
		for _, v := range vs {
			l = append(l, vValID(v))
		}
		it = append(it, vUs(l))
	}
	return "[" + strings.Join(it, ";") + "]"
}

type vCfg struct {
	cfg     *Config
	term    string
	keysLow []string
	timer   bool
	fail    int // downstream verdicts: 0 all nil, 1 every second export fails (plain error), 2 every export fails (permanent)
}

func vGenCfg(rng *vRand, timeoutReal time.Duration, timeoutTerm int) vCfg {
	size := 0
	if rng.Intn(100) >= 15 {
		size = 1 + rng.Intn(10)
	}
	max := 0
	if rng.Intn(100) >= 35 {
		if size == 0 {
			max = 1 + rng.Intn(6)
		} else {
			max = size + rng.Intn(5)
		}
	}
	// the property quantifies over what Config.Validate ACCEPTS: one configuration in twelve has max < size; the
	// callers use it only if the current Validate lets it through (on the unchanged tree it never does)
	if size > 1 && rng.Intn(12) == 0 {
		max = 1 + rng.Intn(size-1)
	}
	var keys, low []string
	nk := rng.Pick(4, 3, 2, 1)
	perm := []int{0, 1, 2}
	for i := 2; i > 0; i-- {
		j := rng.Intn(i + 1)
		perm[i], perm[j] = perm[j], perm[i]
	}
	for i := 0; i < nk; i++ {
		v := vKeyPool[perm[i]]
		keys = append(keys, v[rng.Intn(len(v))])
		low = append(low, v[0])
	}
	limit := 0
	if rng.Bool() {
		limit = 1 + rng.Intn(4)
	}
	cfg := &Config{Timeout: timeoutReal, SendBatchSize: uint32(size), SendBatchMaxSize: uint32(max),
		MetadataKeys: keys, MetadataCardinalityLimit: uint32(limit)}
	ks := make([]string, len(keys))
	for i, k := range keys {
		ks[i] = vStr(k)
	}
	term := fmt.Sprintf("(HC %d false %d %d %s %d)", timeoutTerm, size, max, vList(ks), limit)
	return vCfg{cfg: cfg, term: term, keysLow: low, timer: timeoutReal != 0 && size != 0}
}

// vGenValid draws configurations until the CURRENT Config.Validate accepts one.
func vGenValid(rng *vRand, timeoutReal time.Duration, timeoutTerm int) vCfg {
	for {
		if vc := vGenCfg(rng, timeoutReal, timeoutTerm); vc.cfg.Validate() == nil {
			return vc
		}
	}
}

func vGenMD(rng *vRand, fam int) (map[string][]string, string) {
	md := map[string][]string{}
	var it []string
	for _, v := range vKeyPool {
		f := vValFamilies[fam%len(vValFamilies)]
		if rng.Intn(100) >= 70 {
			f = vValFamilies[rng.Intn(len(vValFamilies))]
		}
		vals := f[rng.Intn(len(f))]
		if vals == nil {
			continue // key absent
		}
		k := v[rng.Intn(len(v))]
		md[k] = vals
		var l []uint64
		for _, x := range vals {
			l = append(l, vValID(x))
		}
		it = append(it, "("+vStr(k)+","+vUs(l)+")")
	}
	if rng.Intn(3) == 0 { // a key the processor is not configured for
		md["other"] = []string{"c"}
		it = append(it, "("+vStr("other")+",[3])")
	}
	return md, "[" + strings.Join(it, ";") + "]"
}

// the harness's own reading of "the values of the configured keys" (case-insensitive; absent = empty)
func vTupleOf(md map[string][]string, keysLow []string) string {
	vals := make([][]string, len(keysLow))
	for i, k := range keysLow {
		for mk, mv := range md {
			if strings.ToLower(mk) == k {
				vals[i] = mv
			}
		}
	}
	return vTupleTerm(vals)
}

type vExport struct {
	extra   string // keys of the export context that are not configured metadata keys
	tuple   string
	payload string
	items   []string
	at      time.Time
}

type vSink struct {
	mu       sync.Mutex
	exports  []vExport
	perTuple map[string]int
	total    int
}

func (s *vSink) add(e vExport) {
	s.mu.Lock()
	defer s.mu.Unlock()
	s.exports = append(s.exports, e)
	s.perTuple[e.tuple] += len(e.items)
	s.total += len(e.items)
}

func (s *vSink) count(tuple string) int {
	s.mu.Lock()
	defer s.mu.Unlock()
	return s.perTuple[tuple]
}

func (s *vSink) totalCount() int {
	s.mu.Lock()
	defer s.mu.Unlock()
	return s.total
}

func vCtxTuple(ctx context.Context, keysLow []string) string {
	md := client.FromContext(ctx).Metadata
	vals := make([][]string, len(keysLow))
	for i, k := range keysLow {
		vals[i] = md.Get(k)
	}
	return vTupleTerm(vals)
}

// vSinkTuple is what a downstream consumer does with the export context: it reads the values of the configured
// keys — and then WRITES into the slices it got (redacting, normalising in place).  Metadata.Get documents that it
// returns a copy, and a shard's export context is reused for every batch of its group: the write must not reach the
// metadata that later batches of the group are sent with.
func vSinkTuple(ctx context.Context, keysLow []string) string {
	md := client.FromContext(ctx).Metadata
	vals := make([][]string, len(keysLow))
	for i, k := range keysLow {
		vals[i] = md.Get(k)
	}
	t := vTupleTerm(vals)
	for _, vs := range vals {
		for i := range vs {
			vs[i] = "c" // a valid pool value, so a leak shows as a WRONG tuple, not as a parse problem
		}
	}
	return t
}

// vShutCtx: Shutdown is called with contexts of all kinds — background, already cancelled, deadline already
// expired, deadline in 1 ms: "emitted by the time Shutdown returns" does not depend on the caller's patience.
var vShutN atomic.Int32

func vShutCtx() context.Context {
	switch vShutN.Add(1) % 4 {
	case 1:
		ctx, cancel := context.WithCancel(context.Background())
		cancel()
		return ctx
	case 2:
		ctx, cancel := context.WithDeadline(context.Background(), time.Now().Add(-time.Second))
		_ = cancel
		return ctx
	case 3:
		ctx, cancel := context.WithTimeout(context.Background(), time.Millisecond)
		_ = cancel
		return ctx
	}
	return context.Background()
}

// vCtxExtra lists the keys of the export context's client metadata that are not configured keys: a batch is
// sent with exactly its group's metadata, nothing else of the producer's metadata may leak into it.
func vCtxExtra(ctx context.Context, keysLow []string) string {
	var extra []string
	for k := range client.FromContext(ctx).Metadata.Keys() {
		ok := false
		for _, c := range keysLow {
			if c == k {
				ok = true
			}
		}
		if !ok {
			extra = append(extra, k)
		}
	}
	sort.Strings(extra)
	return strings.Join(extra, ",")
}

func vMk3(g *vGen, n int) []vRes3 {
	return []vRes3{{c: g.ctx(), scopes: []vScope3{{c: g.ctx(), items: g.ids(n)}}}}
}

func vMk4(g *vGen, n int) []vRes4 {
	m := g.metric(n)
	if m.kind == 0 {
		m.kind = 1
		m.pts = g.ids(n)
	}
	return []vRes4{{c: g.ctx(), scopes: []vScope4{{c: g.ctx(), ms: []vMetric{m}}}}}
}

func vWait(cond func() bool, d time.Duration) bool {
	dl := time.Now().Add(d)
	for !cond() {
		if time.Now().After(dl) {
			return false
		}
		time.Sleep(100 * time.Microsecond)
	}
	return true
}

func vShards[T any](bp *batchProcessor[T]) []*shard[T] {
	switch b := bp.batcher.(type) {
	case *singleShardBatcher[T]:
		return []*shard[T]{b.single}
	case *multiShardBatcher[T]:
		var out []*shard[T]
		b.batchers.Range(func(_, v any) bool {
			out = append(out, v.(*shard[T]))
			return true
		})
		return out
	}
	return nil
}

// vQuiesce: an empty payload is pushed through every shard's channel; the shard's single goroutine takes
// it only after it has completely processed everything sent before, so "channel empty again" means the
// earlier items are fully processed (the empty payload itself changes nothing: add ignores it).
func vQuiesce[T any](bp *batchProcessor[T], empty func() T) bool {
	ok := true
	for _, sh := range vShards(bp) {
		sh := sh
		select {
		case sh.newItem <- empty():
		case <-time.After(vDL(20 * time.Second)):
			return false
		}
		ok = vWait(func() bool { return len(sh.newItem) == 0 }, vDL(20*time.Second)) && ok
	}
	return ok
}

type vOp[P any] struct {
	timer  bool
	md     map[string][]string
	mdTerm string
	p      P
}

const vLongTimeout = time.Hour

// once a timer flush has failed, later timer steps wait only briefly (keeps a broken tree's run short)
var vTimerBroken atomic.Bool

// vFlush pushes what has been recorded so far to the output file: a change that makes a shard goroutine panic
// kills the test binary, and the failures found before that must survive it.
func vFlush(out *vOut) {
	out.mu.Lock()
	out.w.Flush()
	out.mu.Unlock()
}

// a shard goroutine that wedges (e.g. blocks on its timer channel) makes every later wait run into its deadline:
// after the first such failure the deadlines shrink, after five the remaining processor runs are skipped (the
// recorded failures are the verdict; this only bounds the time spent on a tree that is already known broken)
var vStuckN atomic.Int32

func vStuck() { vStuckN.Add(1) }

func vDL(d time.Duration) time.Duration {
	if vStuckN.Load() > 0 {
		return 500 * time.Millisecond
	}
	return d
}

func vRunCases[T any, P any](t *testing.T, out *vOut, rng *vRand, sg vSignal[T, P], n int) {
	for c := 0; c < n; c++ {
		vFlush(out)
		if vStuckN.Load() >= 5 {
			out.Stat(sg.name+".runs_skipped_after_stuck", 1)
			continue
		}
		timeoutReal, timeoutTerm := time.Duration(0), 0
		if rng.Bool() {
			timeoutReal, timeoutTerm = vLongTimeout, 1000
		}
		vc := vGenCfg(rng, timeoutReal, timeoutTerm)
		vc.fail = rng.Pick(7, 2, 1)
		out.Stat(fmt.Sprintf("%s.downstream_mode_%d", sg.name, vc.fail), 1)
		if err := vc.cfg.Validate(); err != nil {
			out.Stat(sg.name+".configs_rejected_by_validate", 1)
			continue
		}
		g := &vGen{r: rng}
		nops := 1 + rng.Intn(10)
		fam := rng.Intn(len(vValFamilies))
		out.Stat(fmt.Sprintf("%s.md_family_%d", sg.name, fam), 1)
		var script []vOp[P]
		for i := 0; i < nops; i++ {
			if vc.timer && rng.Intn(100) < 15 {
				script = append(script, vOp[P]{timer: true})
				continue
			}
			md, mdTerm := vGenMD(rng, fam)
			script = append(script, vOp[P]{md: md, mdTerm: mdTerm, p: sg.gen(g)})
		}
		vRunOne(t, out, sg, vc, script)
	}
}

func vRunOne[T any, P any](t *testing.T, out *vOut, sg vSignal[T, P], vc vCfg, script []vOp[P]) {
	sink := &vSink{perTuple: map[string]int{}}
	var calls atomic.Int32
	bp, consume, err := sg.newProc(vc.cfg, func(ctx context.Context, d T) error {
		ir := sg.read(d)
		sink.add(vExport{extra: vCtxExtra(ctx, vc.keysLow), tuple: vSinkTuple(ctx, vc.keysLow), payload: sg.term(ir), items: sg.items(ir), at: time.Now()})
		// the downstream verdict: the processor only logs a failure and drops the batch; every export CALL is
		// recorded, so the comparison with the model checks that a failing downstream changes nothing else
		// (no retry, no second export of the items, no effect on later batches or on Consume results)
		n := calls.Add(1)
		switch {
		case vc.fail == 1 && n%2 == 0:
			return errors.New("downstream refuses")
		case vc.fail == 2:
			return consumererror.NewPermanent(errors.New("downstream refuses for good"))
		}
		return nil
	})
	if err != nil {
		t.Fatalf("cannot create the processor: %v", err)
	}
	// the context given to Start ends right after Start returned (the service's start-up context is not the
	// component's lifetime)
	sctx, scancel := context.WithCancel(context.Background())
	if err := bp.Start(sctx, componenttest.NewNopHost()); err != nil {
		t.Fatalf("start: %v", err)
	}
	scancel()
	empty := func() T { var z P; return sg.build(z) }

	var stTerms, results []string
	var failures [][2]string // oracle failures (kind, detail), reported once the case term is known
	fail := func(kind, detail string) { failures = append(failures, [2]string{kind, detail}) }
	accepted := map[string]int{}
	var known []string
	var acceptedTagged []string
	isKnown := func(tp string) bool {
		for _, k := range known {
			if k == tp {
				return true
			}
		}
		return false
	}
	limit := int(vc.cfg.MetadataCardinalityLimit)
	for _, op := range script {
		if op.timer {
			stTerms = append(stTerms, "STimer")
			out.Stat(sg.name+".op_timer", 1)
			if !vQuiesce(bp, empty) {
				vStuck()
				fail("stuck", "a shard did not take an item from its channel within 20 s")
				continue
			}
			for _, sh := range vShards(bp) {
				if sh.timer == nil {
					continue
				}
				tp := vCtxTuple(sh.exportCtx, vc.keysLow)
				if accepted[tp]-sink.count(tp) > 0 {
					out.Stat(sg.name+".timer_fired_with_pending", 1)
					sh.timer.Reset(time.Nanosecond) // logical time advances to the shard's deadline
					wait := 15 * time.Second
					if vTimerBroken.Load() {
						wait = 300 * time.Millisecond
					}
					if !vWait(func() bool { return sink.count(tp) >= accepted[tp] }, wait) {
						vTimerBroken.Store(true)
						fail("timer-flush", fmt.Sprintf("timer fired with %d items pending for tuple %s; after the wait %d are still not emitted",
							accepted[tp]-sink.count(tp), tp, accepted[tp]-sink.count(tp)))
					}
				}
			}
			continue
		}
		out.Stat(sg.name+".op_consume", 1)
		stTerms = append(stTerms, "(SConsume "+op.mdTerm+" "+sg.term(op.p)+")")
		tagged := sg.items(op.p)
		tp := vTupleOf(op.md, vc.keysLow)
		// the producer's own map and slices: it overwrites them once Consume has returned (a receiver reusing its
		// header buffers); the processor must not be holding on to them
		own := map[string][]string{}
		for k, v := range op.md {
			own[k] = append([]string{}, v...)
		}
		ctx := client.NewContext(context.Background(), client.Info{Metadata: client.NewMetadata(own)})
		if len(op.md) == 0 {
			ctx = context.Background() // a producer without any client.Info in its context
			out.Stat(sg.name+".consume_without_client_info", 1)
		}
		var err error
		cdone := make(chan error, 1)
		go func(d T) { cdone <- consume(ctx, d) }(sg.build(op.p))
		select {
		case err = <-cdone:
		case <-time.After(vDL(20 * time.Second)):
			vStuck()
			fail("stuck", "Consume did not return within 20 s (the shard no longer takes items from its channel)")
			results = append(results, "0")
			continue
		}
		for _, v := range own { // Consume has returned: the producer reuses its buffers
			for i := range v {
				v[i] = "b"
			}
		}
		wantRefuse := len(vc.keysLow) > 0 && limit > 0 && !isKnown(tp) && len(known) >= limit
		if err != nil {
			results = append(results, "1")
			out.Stat(sg.name+".refused", 1)
			if !wantRefuse {
				fail("cardinality", fmt.Sprintf("arrival with tuple %s refused (%v) although %d of %d groups exist and known=%v", tp, err, len(known), limit, isKnown(tp)))
			} else if !consumererror.IsPermanent(err) {
				fail("cardinality", "the refusal is not a permanent error: "+err.Error())
			}
			continue
		}
		results = append(results, "0")
		if wantRefuse {
			fail("cardinality", fmt.Sprintf("arrival with new tuple %s accepted beyond the cardinality limit %d", tp, limit))
		}
		if !isKnown(tp) {
			known = append(known, tp)
		}
		accepted[tp] += len(tagged)
		for _, it := range tagged {
			acceptedTagged = append(acceptedTagged, tp+"|"+it)
		}
	}
	// size trigger: at quiescence fewer than send_batch_size items are pending (none without a timer)
	if vQuiesce(bp, empty) {
		for tp, a := range accepted {
			pending := a - sink.count(tp)
			if pending < 0 {
				fail("isolation", fmt.Sprintf("tuple %s: %d items accepted but %d emitted under this export context: items of another group were sent with it", tp, a, sink.count(tp)))
				continue
			}
			if vc.timer && pending >= int(vc.cfg.SendBatchSize) || !vc.timer && pending != 0 {
				fail("size-trigger", fmt.Sprintf("tuple %s: %d items pending at quiescence with send_batch_size %d, timer=%v", tp, pending, vc.cfg.SendBatchSize, vc.timer))
			}
		}
	} else {
		vStuck()
		fail("stuck", "a shard did not take an item from its channel within 20 s")
	}
	done := make(chan struct{})
	go func() { _ = bp.Shutdown(vShutCtx()); close(done) }()
	select {
	case <-done:
	case <-time.After(vDL(30 * time.Second)):
		vStuck()
		fail("stuck", "Shutdown did not return within 30 s")
	}
	sink.mu.Lock()
	exports := append([]vExport{}, sink.exports...)
	sink.mu.Unlock()

	// observation: per export-context tuple (order of first export) the requests in order
	var order []string
	groups := map[string][]string{}
	var emittedTagged []string
	for _, e := range exports {
		if _, ok := groups[e.tuple]; !ok {
			order = append(order, e.tuple)
		}
		groups[e.tuple] = append(groups[e.tuple], e.payload)
		for _, it := range e.items {
			emittedTagged = append(emittedTagged, e.tuple+"|"+it)
		}
		if e.extra != "" {
			fail("export-metadata", fmt.Sprintf("a batch of tuple %s was exported with client-metadata keys that are not configured: %s", e.tuple, e.extra))
		}
		if m := int(vc.cfg.SendBatchMaxSize); m > 0 && len(e.items) > m {
			fail("max-size", fmt.Sprintf("a batch of %d items was emitted with send_batch_max_size %d", len(e.items), m))
		}
		out.Stat(fmt.Sprintf("%s.batch_items_%02d", sg.name, len(e.items)/4*4), 1)
	}
	var gs []string
	for _, tp := range order {
		gs = append(gs, "("+tp+","+vList(groups[tp])+")")
	}
	term := sg.runCase(vc.term, vList(stTerms), "("+vList(results)+","+vList(gs)+")")
	out.Case(len(exports) >= 2, term)
	out.Stat(sg.name+".runs", 1)
	out.Stat(fmt.Sprintf("%s.shards_%d", sg.name, len(order)), 1)
	if vc.timer {
		out.Stat(sg.name+".runs_with_timer", 1)
	}
	if vc.cfg.SendBatchMaxSize > 0 {
		out.Stat(sg.name+".runs_with_max", 1)
	}

	// conservation with identity and with the export context (=> exactly once, nothing invented, isolation)
	sort.Strings(emittedTagged)
	sort.Strings(acceptedTagged)
	if !vEqStrings(emittedTagged, acceptedTagged) {
		fail("conservation", vDiff(emittedTagged, acceptedTagged))
	}
	for _, f := range failures {
		out.Oracle(f[0], term, f[1])
	}
}

// ---- (3) real timers: whatever the history of the shard (idle periods with nothing pending, timeout flushes,
// size-triggered sends, remainders after a max-size split, a rarely used metadata group), items that stay
// below send_batch_size are emitted by the timeout alone.  Scripts over {gap, small arrival, big arrival};
// after every arrival the harness waits (generous margin: only "never flushed" fails) until everything accepted
// so far has reached the sink.  The timers here are the real ones: a timer that is not re-armed on some path
// shows as a flush that never comes.
type vRTStep[P any] struct {
	kind  int // 0 gap, 1 small arrival (< send_batch_size), 2 big arrival (> max or >= size)
	gap   time.Duration
	tuple int
	p     P
	n     int
}

func vTimeoutCases[T any, P any](t *testing.T, out *vOut, rng *vRand, sg vSignal[T, P], n int) {
	var wg sync.WaitGroup
	for c := 0; c < n; c++ {
		vFlush(out)
		const timeout = 20 * time.Millisecond
		size := 5 + rng.Intn(5)
		max := 0
		if rng.Intn(100) < 60 {
			max = size + rng.Intn(3)
		}
		keyed := rng.Intn(3) == 0
		cfg := &Config{Timeout: timeout, SendBatchSize: uint32(size), SendBatchMaxSize: uint32(max)}
		var keysLow []string
		cfgTerm := fmt.Sprintf("(HC 20 false %d %d [] 0)", size, max)
		if keyed {
			cfg.MetadataKeys = []string{"k1"}
			keysLow = []string{"k1"}
			cfgTerm = fmt.Sprintf("(HC 20 false %d %d [%s] 0)", size, max, vStr("k1"))
		}
		g := &vGen{r: rng}
		var script []vRTStep[P]
		var hist []string
		for i := 0; i < 3+rng.Intn(3); i++ {
			st := vRTStep[P]{kind: rng.Pick(3, 4, 2), tuple: rng.Pick(3, 1)}
			switch st.kind {
			case 0:
				st.gap = time.Duration(1+rng.Intn(3))*timeout + 10*time.Millisecond
				hist = append(hist, fmt.Sprintf("gap(%v)", st.gap))
			case 1:
				st.n = 1 + rng.Intn(size-1)
				st.p = sg.mk(g, st.n)
				hist = append(hist, fmt.Sprintf("small(%d,t%d)", st.n, st.tuple))
			case 2:
				st.n = size + rng.Intn(size)
				if max > 0 {
					st.n = max + 1 + rng.Intn(size-1)
				}
				st.p = sg.mk(g, st.n)
				hist = append(hist, fmt.Sprintf("big(%d,t%d)", st.n, st.tuple))
			}
			script = append(script, st)
			out.Stat(fmt.Sprintf("%s.real_timer_step_%d", sg.name, st.kind), 1)
		}
		out.Stat(sg.name+".real_timer_runs", 1)
		if keyed {
			out.Stat(sg.name+".real_timer_runs_keyed", 1)
		}
		term := "(CValidate " + cfgTerm + " 0)%N"
		wg.Add(1)
		go func() {
			defer wg.Done()
			sink := &vSink{perTuple: map[string]int{}}
			bp, consume, err := sg.newProc(cfg, func(ctx context.Context, d T) error {
				ir := sg.read(d)
				sink.add(vExport{tuple: vSinkTuple(ctx, keysLow), items: sg.items(ir), at: time.Now()})
				return nil
			})
			if err != nil {
				out.Oracle("stuck", term, "cannot create the processor: "+err.Error())
				return
			}
			_ = bp.Start(context.Background(), componenttest.NewNopHost())
			accepted := map[string]int{}
			var want []string
			for i, st := range script {
				if st.kind == 0 {
					time.Sleep(st.gap)
					continue
				}
				md := map[string][]string{"k1": {vValPool[st.tuple]}}
				tp := vTupleOf(md, keysLow)
				ctx := client.NewContext(context.Background(), client.Info{Metadata: client.NewMetadata(md)})
				for _, it := range sg.items(st.p) {
					want = append(want, tp+"|"+it)
				}
				accepted[tp] += st.n
				cdone := make(chan error, 1)
				go func() { cdone <- consume(ctx, sg.build(st.p)) }()
				select {
				case <-cdone:
				case <-time.After(vDL(20 * time.Second)):
					vStuck()
					out.Oracle("stuck", term, fmt.Sprintf("%s: Consume did not return within 20 s; history %s", sg.name, strings.Join(hist[:i+1], " ")))
					return
				}
				wait := 15 * time.Second
				if vTimerBroken.Load() {
					wait = time.Second
				}
				t0 := time.Now()
				if !vWait(func() bool { return sink.count(tp) >= accepted[tp] }, timeout+wait) {
					vTimerBroken.Store(true)
					out.Oracle("timeout-flush", term, fmt.Sprintf("%s: %d items of tuple %s pending (send_batch_size %d, timeout %v), not emitted after %v without further arrival; history: %s",
						sg.name, accepted[tp]-sink.count(tp), tp, size, timeout, time.Since(t0).Round(time.Millisecond), strings.Join(hist[:i+1], " ")))
					break
				}
				out.Stat(fmt.Sprintf("%s.real_timer_flush_within_ms_%04d", sg.name, int(time.Since(t0)/time.Millisecond)/50*50+50), 1)
			}
			done := make(chan struct{})
			go func() { _ = bp.Shutdown(vShutCtx()); close(done) }()
			select {
			case <-done:
			case <-time.After(vDL(20 * time.Second)):
				vStuck()
				out.Oracle("stuck", term, fmt.Sprintf("%s: Shutdown did not return within 20 s; history %s", sg.name, strings.Join(hist, " ")))
				return
			}
			var got []string
			sink.mu.Lock()
			for _, e := range sink.exports {
				for _, it := range e.items {
					got = append(got, e.tuple+"|"+it)
				}
				if max > 0 && len(e.items) > max {
					out.Oracle("max-size", term, fmt.Sprintf("%s (real timer run): batch of %d items, max %d", sg.name, len(e.items), max))
				}
			}
			sink.mu.Unlock()
			sort.Strings(got)
			sort.Strings(want)
			if !vEqStrings(got, want) {
				out.Oracle("conservation", term, sg.name+" (real timer run, history "+strings.Join(hist, " ")+"): "+vDiff(got, want))
			}
		}()
	}
	wg.Wait()
}

// ---- (4) concurrent producers: conservation, bound and isolation on the emitted multiset ---------------
func vConcurrentCases[T any, P any](t *testing.T, out *vOut, rng *vRand, sg vSignal[T, P], n int) {
	for c := 0; c < n; c++ {
		vFlush(out)
		if vStuckN.Load() >= 5 {
			out.Stat(sg.name+".concurrent_skipped_after_stuck", 1)
			continue
		}
		timeoutReal := time.Duration(0)
		if rng.Bool() {
			timeoutReal = time.Duration(1+rng.Intn(5)) * time.Millisecond // the real timer fires during the run
		}
		vc := vGenValid(rng, timeoutReal, 1)
		fam := rng.Intn(len(vValFamilies))
		sink := &vSink{perTuple: map[string]int{}}
		bp, consume, err := sg.newProc(vc.cfg, func(ctx context.Context, d T) error {
			ir := sg.read(d)
			sink.add(vExport{extra: vCtxExtra(ctx, vc.keysLow), tuple: vSinkTuple(ctx, vc.keysLow), items: sg.items(ir), at: time.Now()})
			return nil
		})
		if err != nil {
			t.Fatal(err)
		}
		_ = bp.Start(context.Background(), componenttest.NewNopHost())
		const producers = 8
		var wg sync.WaitGroup
		var mu sync.Mutex
		var acceptedTagged []string
		refused := 0
		for pr := 0; pr < producers; pr++ {
			// everything random is drawn here, sequentially, so the inputs are a function of the seed
			type one struct {
				md     map[string][]string
				p      P
				tagged []string
			}
			g := &vGen{r: rng, next: uint64(pr) * 100000}
			var work []one
			for i := 0; i < 6+rng.Intn(10); i++ {
				md, _ := vGenMD(rng, fam)
				p := sg.gen(g)
				work = append(work, one{md, p, sg.items(p)})
			}
			wg.Add(1)
			go func() {
				defer wg.Done()
				for _, w := range work {
					ctx := client.NewContext(context.Background(), client.Info{Metadata: client.NewMetadata(w.md)})
					if err := consume(ctx, sg.build(w.p)); err != nil {
						mu.Lock()
						refused++
						mu.Unlock()
						continue
					}
					tp := vTupleOf(w.md, vc.keysLow)
					mu.Lock()
					for _, it := range w.tagged {
						acceptedTagged = append(acceptedTagged, tp+"|"+it)
					}
					mu.Unlock()
				}
			}()
		}
		// every Consume has returned: shutdown begins afterwards
		pdone := make(chan struct{})
		go func() { wg.Wait(); close(pdone) }()
		select {
		case <-pdone:
		case <-time.After(vDL(60 * time.Second)):
			vStuck()
			out.Oracle("stuck", "(CValidate "+vc.term+" 0)%N", "concurrent run: producers still blocked in Consume after 60 s (a shard no longer takes items)")
			continue
		}
		done := make(chan struct{})
		go func() { _ = bp.Shutdown(vShutCtx()); close(done) }()
		term := "(CValidate " + vc.term + " 0)%N"
		select {
		case <-done:
		case <-time.After(vDL(30 * time.Second)):
			vStuck()
			out.Oracle("stuck", term, "Shutdown did not return within 30 s (concurrent run)")
		}
		var emittedTagged []string
		tuples := map[string]bool{}
		for _, e := range sink.exports {
			tuples[e.tuple] = true
			if e.extra != "" {
				out.Oracle("export-metadata", term, "concurrent run: export context carries unconfigured keys: "+e.extra)
			}
			for _, it := range e.items {
				emittedTagged = append(emittedTagged, e.tuple+"|"+it)
			}
			if m := int(vc.cfg.SendBatchMaxSize); m > 0 && len(e.items) > m {
				out.Oracle("max-size", term, fmt.Sprintf("concurrent run: a batch of %d items with send_batch_max_size %d", len(e.items), m))
			}
		}
		sort.Strings(emittedTagged)
		sort.Strings(acceptedTagged)
		if !vEqStrings(emittedTagged, acceptedTagged) {
			out.Oracle("conservation", term, "concurrent run: "+vDiff(emittedTagged, acceptedTagged))
		}
		if l := int(vc.cfg.MetadataCardinalityLimit); l > 0 && len(vc.keysLow) > 0 && len(tuples) > l {
			out.Oracle("cardinality", term, fmt.Sprintf("concurrent run: %d distinct export contexts with limit %d", len(tuples), l))
		}
		out.Stat(sg.name+".concurrent_runs", 1)
		out.Stat(sg.name+".concurrent_refused", refused)
		out.Stat(sg.name+".concurrent_items", len(acceptedTagged))
	}
}

// ---- (5) Config.Validate ---------------------------------------------------------------------------
func vValidateCases(out *vOut, rng *vRand, n int) {
	for c := 0; c < n; c++ {
		size, max := rng.Intn(6), rng.Intn(6)
		neg := rng.Intn(4) == 0
		tm := rng.Intn(3)
		var keys []string
		for i := 0; i < rng.Intn(4); i++ {
			v := vKeyPool[rng.Intn(len(vKeyPool))]
			keys = append(keys, v[rng.Intn(len(v))])
		}
		d := time.Duration(tm) * time.Millisecond
		if neg {
			d = -d
		}
		cfg := &Config{Timeout: d, SendBatchSize: uint32(size), SendBatchMaxSize: uint32(max), MetadataKeys: keys}
		class := 0
		if err := cfg.Validate(); err != nil {
			switch {
			case strings.Contains(err.Error(), "send_batch_max_size"):
				class = 1
			case strings.Contains(err.Error(), "duplicate entry"):
				class = 2
			case strings.Contains(err.Error(), "timeout must"):
				class = 3
			default:
				class = 9
			}
		}
		ks := make([]string, len(keys))
		for i, k := range keys {
			ks[i] = vStr(k)
		}
		out.Case(class != 0, fmt.Sprintf("(CValidate (HC %d %s %d %d %s 0) %d)%%N", tm, vBool(neg), size, max, vList(ks), class))
		out.Stat(fmt.Sprintf("validate.class_%d", class), 1)
	}
}

// ---- (6) Shutdown right behind the last Consume ------------------------------------------------------------
// "Everything accepted before shutdown began is emitted by the time Shutdown returns": the whole life of a
// processor — Start, the Consume calls, Shutdown, a snapshot of the sink — runs in ONE goroutine without any
// wait in between, so Shutdown meets shards that were created a moment ago, items still in channels, goroutines
// that have not been scheduled yet.  Half of the runs execute on a single P (runtime.GOMAXPROCS(1)): there no
// shard goroutine runs before Shutdown blocks, which makes that interleaving deterministic.  The snapshot is taken
// in the same goroutine immediately after Shutdown returned.  The runs are ordinary correspondence cases as well
// (the model's result does not depend on when a shard processes its channel).
func vImmediateCases[T any, P any](t *testing.T, out *vOut, rng *vRand, sg vSignal[T, P], n int) {
	for c := 0; c < n; c++ {
		vFlush(out)
		if vStuckN.Load() >= 5 {
			out.Stat(sg.name+".immediate_skipped_after_stuck", 1)
			continue
		}
		oneP := c%2 == 0
		timeoutReal, timeoutTerm := time.Duration(0), 0
		if rng.Intn(3) != 0 {
			timeoutReal, timeoutTerm = vLongTimeout, 1000
		}
		vc := vGenValid(rng, timeoutReal, timeoutTerm)
		for try := 0; try < 10 && len(vc.keysLow) == 0 && c%4 != 3; try++ { // three runs in four with metadata keys
			vc = vGenValid(rng, timeoutReal, timeoutTerm)
		}
		g := &vGen{r: rng}
		fam := rng.Intn(len(vValFamilies))
		type one struct {
			md     map[string][]string
			mdTerm string
			p      P
			tp     string
			tagged []string
			data   T
		}
		var script []one
		var stTerms []string
		for i := 0; i < 1+rng.Intn(6); i++ {
			md, mdTerm := vGenMD(rng, fam)
			p := sg.gen(g)
			if rng.Intn(3) == 0 {
				p = sg.mk(g, 1+rng.Intn(12))
			}
			script = append(script, one{md: md, mdTerm: mdTerm, p: p, tp: vTupleOf(md, vc.keysLow), tagged: sg.items(p), data: sg.build(p)})
			stTerms = append(stTerms, "(SConsume "+mdTerm+" "+sg.term(p)+")")
		}
		sink := &vSink{perTuple: map[string]int{}}
		bp, consume, err := sg.newProc(vc.cfg, func(ctx context.Context, d T) error {
			ir := sg.read(d)
			sink.add(vExport{extra: vCtxExtra(ctx, vc.keysLow), tuple: vSinkTuple(ctx, vc.keysLow), payload: sg.term(ir), items: sg.items(ir), at: time.Now()})
			return nil
		})
		if err != nil {
			t.Fatalf("cannot create the processor: %v", err)
		}
		errs := make([]error, len(script))
		var snap []vExport
		left := 0
		done := make(chan struct{})
		prev := 0
		if oneP {
			prev = runtime.GOMAXPROCS(1)
		}
		go func() {
			defer close(done)
			_ = bp.Start(context.Background(), componenttest.NewNopHost())
			for i, st := range script {
				ctx := client.NewContext(context.Background(), client.Info{Metadata: client.NewMetadata(st.md)})
				errs[i] = consume(ctx, st.data)
			}
			_ = bp.Shutdown(vShutCtx())
			sink.mu.Lock()
			snap = append([]vExport{}, sink.exports...)
			sink.mu.Unlock()
			for _, sh := range vShards(bp) {
				left += len(sh.newItem)
			}
		}()
		stuck := false
		select {
		case <-done:
		case <-time.After(vDL(60 * time.Second)):
			stuck = true
			vStuck()
		}
		if oneP {
			runtime.GOMAXPROCS(prev)
		}
		var results, known, acceptedTagged []string
		var failures [][2]string
		fail := func(kind, detail string) { failures = append(failures, [2]string{kind, detail}) }
		if stuck {
			out.Oracle("stuck", "(CValidate "+vc.term+" 0)%N", "Start + Consume calls + Shutdown in one goroutine did not finish within 60 s")
			continue
		}
		limit := int(vc.cfg.MetadataCardinalityLimit)
		for i, st := range script {
			isKnown := false
			for _, k := range known {
				isKnown = isKnown || k == st.tp
			}
			wantRefuse := len(vc.keysLow) > 0 && limit > 0 && !isKnown && len(known) >= limit
			if errs[i] != nil {
				results = append(results, "1")
				if !wantRefuse {
					fail("cardinality", fmt.Sprintf("arrival with tuple %s refused (%v) although %d of %d groups exist", st.tp, errs[i], len(known), limit))
				}
				continue
			}
			results = append(results, "0")
			if wantRefuse {
				fail("cardinality", fmt.Sprintf("arrival with new tuple %s accepted beyond the cardinality limit %d", st.tp, limit))
			}
			if !isKnown {
				known = append(known, st.tp)
			}
			for _, it := range st.tagged {
				acceptedTagged = append(acceptedTagged, st.tp+"|"+it)
			}
		}
		var order, emittedTagged []string
		groups := map[string][]string{}
		for _, e := range snap {
			if _, ok := groups[e.tuple]; !ok {
				order = append(order, e.tuple)
			}
			groups[e.tuple] = append(groups[e.tuple], e.payload)
			for _, it := range e.items {
				emittedTagged = append(emittedTagged, e.tuple+"|"+it)
			}
			if m := int(vc.cfg.SendBatchMaxSize); m > 0 && len(e.items) > m {
				fail("max-size", fmt.Sprintf("a batch of %d items was emitted with send_batch_max_size %d", len(e.items), m))
			}
			if e.extra != "" {
				fail("export-metadata", "export context carries unconfigured keys: "+e.extra)
			}
		}
		var gs []string
		for _, tp := range order {
			gs = append(gs, "("+tp+","+vList(groups[tp])+")")
		}
		term := sg.runCase(vc.term, vList(stTerms), "("+vList(results)+","+vList(gs)+")")
		out.Case(len(snap) >= 2, term)
		out.Stat(sg.name+".immediate_runs", 1)
		if oneP {
			out.Stat(sg.name+".immediate_runs_single_P", 1)
		}
		out.Stat(fmt.Sprintf("%s.immediate_groups_%d", sg.name, len(known)), 1)
		sort.Strings(emittedTagged)
		sort.Strings(acceptedTagged)
		if !vEqStrings(emittedTagged, acceptedTagged) {
			// did the missing items arrive after Shutdown had returned?
			late := vWait(func() bool { return sink.totalCount() >= len(acceptedTagged) }, 300*time.Millisecond)
			fail("conservation", fmt.Sprintf("at the moment Shutdown returned (single P: %v; %d groups, %d payloads): %s; %d payload(s) still in shard channels; emitted after Shutdown had returned: %v",
				oneP, len(known), len(script), vDiff(emittedTagged, acceptedTagged), left, late))
		} else if left != 0 {
			fail("conservation", fmt.Sprintf("%d payload(s) still in shard channels when Shutdown returned", left))
		}
		for _, f := range failures {
			out.Oracle(f[0], term, f[1])
		}
	}
}

// ---- (7) the bounded channel: producers blocked on a full newItem channel ------------------------------------
// The sink holds the shard's goroutine inside its first export (a gate), the harness fills the channel to its
// capacity (cap(newItem) = runtime.NumCPU()) and starts k more producers, which must block.  Variant A opens the
// gate and then shuts down; variant B calls Shutdown first and opens the gate afterwards (the drain loop of the
// shutdown branch must release the blocked producers).  Every blocked Consume must return nil, Shutdown must
// return, and at that moment everything is emitted.  With k = 1 the run is also a correspondence case for
// coq/C17/Bounded.v (calls returned / producers blocked at the check points, and the exports).
func vBlockedCases[T any, P any](t *testing.T, out *vOut, rng *vRand, sg vSignal[T, P], n int) {
	for c := 0; c < n; c++ {
		vFlush(out)
		if vStuckN.Load() >= 5 {
			continue
		}
		size := rng.Intn(6)
		max := 0
		if rng.Bool() {
			max = size + 1 + rng.Intn(4)
		}
		keyed := rng.Intn(3) == 0
		cfg := &Config{Timeout: 0, SendBatchSize: uint32(size), SendBatchMaxSize: uint32(max)}
		var keysLow []string
		cfgTerm := fmt.Sprintf("(HC 0 false %d %d [] 0)", size, max)
		md := map[string][]string{}
		mdTerm := "[]"
		if keyed {
			cfg.MetadataKeys = []string{"K1"}
			keysLow = []string{"k1"}
			cfgTerm = fmt.Sprintf("(HC 0 false %d %d [%s] 0)", size, max, vStr("K1"))
			md = map[string][]string{"k1": {"a", "b"}}
			mdTerm = "[(" + vStr("k1") + ",[1;2])]"
		}
		k := 1
		if c%3 == 2 {
			k = 2 + rng.Intn(3)
		}
		variantB := rng.Bool()
		g := &vGen{r: rng}
		gate := make(chan struct{})
		var entered atomic.Bool
		sink := &vSink{perTuple: map[string]int{}}
		bp, consume, err := sg.newProc(cfg, func(ctx context.Context, d T) error {
			if !entered.Swap(true) {
				<-gate // the shard's goroutine is held inside its first export
			}
			ir := sg.read(d)
			sink.add(vExport{tuple: vSinkTuple(ctx, keysLow), payload: sg.term(ir), items: sg.items(ir), at: time.Now()})
			return nil
		})
		if err != nil {
			t.Fatal(err)
		}
		_ = bp.Start(context.Background(), componenttest.NewNopHost())
		ctx := client.NewContext(context.Background(), client.Info{Metadata: client.NewMetadata(md)})
		tp := vTupleOf(md, keysLow)
		var ops, want []string
		var returned atomic.Int32
		send := func(p P) { // a Consume call expected to return at once
			ops = append(ops, "(BoC "+mdTerm+" "+sg.term(p)+")")
			for _, it := range sg.items(p) {
				want = append(want, tp+"|"+it)
			}
			if err := consume(ctx, sg.build(p)); err == nil {
				returned.Add(1)
			}
		}
		term0 := "(CValidate " + cfgTerm + " 0)%N"
		send(sg.mk(g, 1+rng.Intn(3)))
		ops = append(ops, "(BoR 0)")
		if !vWait(func() bool { return entered.Load() }, vDL(20*time.Second)) {
			vStuck()
			out.Oracle("stuck", term0, "the shard did not export the first payload within 20 s")
			close(gate)
			continue
		}
		sh := vShards(bp)[0]
		capN := cap(sh.newItem)
		for i := 0; i < capN; i++ {
			p := sg.gen(g)
			if rng.Intn(3) == 0 {
				p = sg.mk(g, rng.Intn(3))
			}
			send(p)
		}
		var wg sync.WaitGroup
		for i := 0; i < k; i++ {
			p := sg.mk(g, 1+rng.Intn(4))
			ops = append(ops, "(BoC "+mdTerm+" "+sg.term(p)+")")
			for _, it := range sg.items(p) {
				want = append(want, tp+"|"+it)
			}
			d := sg.build(p)
			wg.Add(1)
			go func() {
				defer wg.Done()
				if err := consume(ctx, d); err == nil {
					returned.Add(1)
				}
			}()
			time.Sleep(2 * time.Millisecond)
		}
		time.Sleep(20 * time.Millisecond)
		var checks []string
		check := func() {
			r := int(returned.Load())
			checks = append(checks, fmt.Sprintf("(%d,%d)", r, 1+capN+k-r))
			ops = append(ops, "BoCheck")
		}
		check() // 1 + cap calls have returned, k producers are blocked
		if int(returned.Load()) != 1+capN {
			out.Oracle("blocked-producer", term0, fmt.Sprintf("%d Consume calls returned while the shard was held with a full channel of capacity %d (expected %d)", returned.Load(), capN, 1+capN))
		}
		sdone := make(chan struct{})
		var snap []vExport
		shutdown := func() {
			_ = bp.Shutdown(vShutCtx())
			sink.mu.Lock()
			snap = append([]vExport{}, sink.exports...)
			sink.mu.Unlock()
			close(sdone)
		}
		pdone := make(chan struct{})
		go func() { wg.Wait(); close(pdone) }()
		ok := true
		if variantB {
			go shutdown()
			time.Sleep(5 * time.Millisecond)
			close(gate)
		} else {
			close(gate)
		}
		select {
		case <-pdone:
		case <-time.After(vDL(20 * time.Second)):
			vStuck()
			ok = false
			out.Oracle("blocked-producer", term0, fmt.Sprintf("%d producer(s) blocked on the full channel of a LIVE shard were not released within 20 s (variant B: %v)", 1+capN+k-int(returned.Load()), variantB))
		}
		if !variantB {
			ops = append(ops, "(BoR 0)")
			check()
			go shutdown()
		}
		ops = append(ops, "(BoS 0)")
		select {
		case <-sdone:
		case <-time.After(vDL(30 * time.Second)):
			vStuck()
			ok = false
			out.Oracle("stuck", term0, "Shutdown did not return within 30 s after producers had been blocked")
		}
		if !ok {
			continue
		}
		if variantB {
			check()
		}
		var got, reqs, results []string
		for _, e := range snap {
			reqs = append(reqs, e.payload)
			for _, it := range e.items {
				got = append(got, e.tuple+"|"+it)
			}
			if max > 0 && len(e.items) > max {
				out.Oracle("max-size", term0, fmt.Sprintf("blocked-producer run: batch of %d items, max %d", len(e.items), max))
			}
		}
		for i := 0; i < int(returned.Load()); i++ {
			results = append(results, "0")
		}
		gs := "[]"
		if len(reqs) > 0 {
			gs = "[(" + tp + "," + vList(reqs) + ")]"
		}
		obs := "(" + vList(checks) + ",(" + vList(results) + "," + gs + "))"
		term := term0
		if k == 1 {
			if sg.sig == 2 {
				term = fmt.Sprintf("(CBounded4 %s %d %s %s)%%N", cfgTerm, capN, vList(ops), obs)
			} else {
				term = fmt.Sprintf("(CBounded3 %d %s %d %s %s)%%N", sg.sig, cfgTerm, capN, vList(ops), obs)
			}
			out.Case(true, term)
		}
		sort.Strings(got)
		sort.Strings(want)
		if !vEqStrings(got, want) {
			out.Oracle("conservation", term, fmt.Sprintf("blocked-producer run (k=%d, variant B: %v) at the moment Shutdown returned: %s", k, variantB, vDiff(got, want)))
		}
		out.Stat(sg.name+".blocked_runs", 1)
		out.Stat(fmt.Sprintf("%s.blocked_producers_%d", sg.name, k), 1)
		if variantB {
			out.Stat(sg.name+".blocked_runs_shutdown_first", 1)
		}
	}
}

// ---- (8) Consume after and concurrent with Shutdown (outside the property; the model's account is checked) ------
// after: a payload for an existing group (or the single shard) is accepted (nil) and never emitted — compared with
// the model (script op SShutdown); a payload of a NEW group after Shutdown may or may not be emitted (the new shard
// sees the closed shutdown channel): only "nothing twice, nothing invented" is checked.
// concurrent: producers keep calling while Shutdown runs; afterwards the harness empties the shards' channels:
// emitted + left in channels = accepted (theorem bp_shutdown_accounting on the implementation).
func vAfterShutdownCases[T any, P any](t *testing.T, out *vOut, rng *vRand, sg vSignal[T, P], n int) {
	for c := 0; c < n; c++ {
		vFlush(out)
		if vStuckN.Load() >= 5 {
			continue
		}
		timeoutReal, timeoutTerm := time.Duration(0), 0
		if rng.Bool() {
			timeoutReal, timeoutTerm = vLongTimeout, 1000
		}
		vc := vGenValid(rng, timeoutReal, timeoutTerm)
		vc.cfg.MetadataCardinalityLimit = 0
		vc.term = strings.TrimSuffix(vc.term[:strings.LastIndex(vc.term, " ")], " ") + " 0)"
		g := &vGen{r: rng}
		fam := rng.Intn(len(vValFamilies))
		sink := &vSink{perTuple: map[string]int{}}
		bp, consume, err := sg.newProc(vc.cfg, func(ctx context.Context, d T) error {
			ir := sg.read(d)
			sink.add(vExport{tuple: vSinkTuple(ctx, vc.keysLow), payload: sg.term(ir), items: sg.items(ir), at: time.Now()})
			return nil
		})
		if err != nil {
			t.Fatal(err)
		}
		_ = bp.Start(context.Background(), componenttest.NewNopHost())
		var stTerms, results, known, acceptedTagged []string
		type mdv struct {
			md   map[string][]string
			term string
		}
		var seen []mdv
		term0 := "(CValidate " + vc.term + " 0)%N"
		do := func(md map[string][]string, mdTerm string, after bool) bool {
			p := sg.gen(g)
			ctx := client.NewContext(context.Background(), client.Info{Metadata: client.NewMetadata(md)})
			cdone := make(chan error, 1)
			go func(d T) { cdone <- consume(ctx, d) }(sg.build(p))
			select {
			case err := <-cdone:
				if err != nil {
					out.Oracle("cardinality", term0, "Consume refused without a cardinality limit: "+err.Error())
					return false
				}
			case <-time.After(vDL(20 * time.Second)):
				vStuck()
				out.Oracle("stuck", term0, fmt.Sprintf("Consume (after shutdown: %v) did not return within 20 s", after))
				return false
			}
			stTerms = append(stTerms, "(SConsume "+mdTerm+" "+sg.term(p)+")")
			results = append(results, "0")
			if !after {
				tp := vTupleOf(md, vc.keysLow)
				for _, it := range sg.items(p) {
					acceptedTagged = append(acceptedTagged, tp+"|"+it)
				}
			}
			return true
		}
		okRun := true
		for i := 0; i < 1+rng.Intn(4) && okRun; i++ {
			md, mdTerm := vGenMD(rng, fam)
			tp := vTupleOf(md, vc.keysLow)
			isKnown := false
			for _, k := range known {
				isKnown = isKnown || k == tp
			}
			if !isKnown {
				known = append(known, tp)
				seen = append(seen, mdv{md, mdTerm})
			}
			okRun = do(md, mdTerm, false)
		}
		if !okRun {
			continue
		}
		sd := make(chan struct{})
		go func() { _ = bp.Shutdown(vShutCtx()); close(sd) }()
		select {
		case <-sd:
		case <-time.After(vDL(30 * time.Second)):
			vStuck()
			out.Oracle("stuck", term0, "Shutdown did not return within 30 s")
			continue
		}
		stTerms = append(stTerms, "SShutdown")
		before := sink.totalCount()
		for i := 0; i < 1+rng.Intn(3) && okRun; i++ { // existing groups only: deterministic
			m := seen[rng.Intn(len(seen))]
			okRun = do(m.md, m.term, true)
		}
		if !okRun {
			continue
		}
		time.Sleep(10 * time.Millisecond)
		sink.mu.Lock()
		exports := append([]vExport{}, sink.exports...)
		sink.mu.Unlock()
		var order, emittedTagged []string
		groups := map[string][]string{}
		for _, e := range exports {
			if _, ok := groups[e.tuple]; !ok {
				order = append(order, e.tuple)
			}
			groups[e.tuple] = append(groups[e.tuple], e.payload)
			for _, it := range e.items {
				emittedTagged = append(emittedTagged, e.tuple+"|"+it)
			}
		}
		var gs []string
		for _, tp := range order {
			gs = append(gs, "("+tp+","+vList(groups[tp])+")")
		}
		term := sg.runCase(vc.term, vList(stTerms), "("+vList(results)+","+vList(gs)+")")
		out.Case(true, term)
		out.Stat(sg.name+".after_shutdown_runs", 1)
		if sink.totalCount() != before {
			out.Oracle("after-shutdown", term, fmt.Sprintf("%d items were emitted after Shutdown had returned", sink.totalCount()-before))
		}
		sort.Strings(emittedTagged)
		sort.Strings(acceptedTagged)
		if !vEqStrings(emittedTagged, acceptedTagged) {
			out.Oracle("conservation", term, "run with Consume calls after Shutdown: "+vDiff(emittedTagged, acceptedTagged))
		}
	}
}

func vConcurrentShutdownCases[T any, P any](t *testing.T, out *vOut, rng *vRand, sg vSignal[T, P], n int) {
	for c := 0; c < n; c++ {
		vFlush(out)
		if vStuckN.Load() >= 5 {
			continue
		}
		timeoutReal := time.Duration(0)
		if rng.Bool() {
			timeoutReal = time.Duration(1+rng.Intn(5)) * time.Millisecond
		}
		vc := vGenValid(rng, timeoutReal, 1)
		fam := rng.Intn(len(vValFamilies))
		sink := &vSink{perTuple: map[string]int{}}
		bp, consume, err := sg.newProc(vc.cfg, func(ctx context.Context, d T) error {
			ir := sg.read(d)
			sink.add(vExport{tuple: vSinkTuple(ctx, vc.keysLow), items: sg.items(ir), at: time.Now()})
			return nil
		})
		if err != nil {
			t.Fatal(err)
		}
		_ = bp.Start(context.Background(), componenttest.NewNopHost())
		// Groups are created BEFORE the concurrent phase (one payload each, sequentially) and the producers use only
		// these: a producer that creates a NEW group while Shutdown is in goroutines.Wait() makes the real code panic
		// ("sync: WaitGroup is reused before previous Wait has returned" / "Add called concurrently with Wait" —
		// observed on the unchanged tree, see NOTES.md); that is outside the property and must not make the check flaky.
		var pool []map[string][]string
		var acceptedTagged []string
		g0 := &vGen{r: rng, next: 9000000}
		for i := 0; i < 3; i++ {
			md, _ := vGenMD(rng, fam)
			pool = append(pool, md)
			p := sg.gen(g0)
			ctx := client.NewContext(context.Background(), client.Info{Metadata: client.NewMetadata(md)})
			if err := consume(ctx, sg.build(p)); err == nil {
				tp := vTupleOf(md, vc.keysLow)
				for _, it := range sg.items(p) {
					acceptedTagged = append(acceptedTagged, tp+"|"+it)
				}
			}
		}
		producers := runtime.NumCPU() / 2 // fewer calls in flight than a channel has room for: nobody blocks for ever
		if producers > 8 {
			producers = 8
		}
		if producers < 1 {
			producers = 1
		}
		var stop atomic.Bool
		var mu sync.Mutex
		var wg sync.WaitGroup
		for pr := 0; pr < producers; pr++ {
			type one struct {
				md     map[string][]string
				d      T
				tagged []string
			}
			g := &vGen{r: rng, next: uint64(pr) * 100000}
			var work []one
			for i := 0; i < 40; i++ {
				md := pool[rng.Intn(len(pool))]
				p := sg.gen(g)
				work = append(work, one{md, sg.build(p), sg.items(p)})
			}
			wg.Add(1)
			go func() {
				defer wg.Done()
				for _, w := range work {
					if stop.Load() {
						return
					}
					ctx := client.NewContext(context.Background(), client.Info{Metadata: client.NewMetadata(w.md)})
					if err := consume(ctx, w.d); err != nil {
						continue
					}
					tp := vTupleOf(w.md, vc.keysLow)
					mu.Lock()
					for _, it := range w.tagged {
						acceptedTagged = append(acceptedTagged, tp+"|"+it)
					}
					mu.Unlock()
				}
			}()
		}
		time.Sleep(time.Duration(rng.Intn(400)) * time.Microsecond)
		stop.Store(true)
		term := "(CValidate " + vc.term + " 0)%N"
		fin := make(chan struct{})
		go func() { _ = bp.Shutdown(vShutCtx()); wg.Wait(); close(fin) }()
		select {
		case <-fin:
		case <-time.After(vDL(30 * time.Second)):
			vStuck()
			out.Oracle("stuck", term, "Shutdown with producers still calling: Shutdown or a producer did not return within 30 s")
			continue
		}
		time.Sleep(5 * time.Millisecond) // shards created after the shutdown notice their start-up
		var all []string
		left := 0
		for _, sh := range vShards(bp) {
			tp := vCtxTuple(sh.exportCtx, vc.keysLow)
		DRAIN:
			for {
				select {
				case d := <-sh.newItem:
					for _, it := range sg.items(sg.read(d)) {
						all = append(all, tp+"|"+it)
						left++
					}
				default:
					break DRAIN
				}
			}
		}
		sink.mu.Lock()
		for _, e := range sink.exports {
			for _, it := range e.items {
				all = append(all, e.tuple+"|"+it)
			}
		}
		sink.mu.Unlock()
		sort.Strings(all)
		sort.Strings(acceptedTagged)
		if !vEqStrings(all, acceptedTagged) {
			out.Oracle("shutdown-accounting", term, "Shutdown with producers still calling: emitted + left in the channels differs from accepted: "+vDiff(all, acceptedTagged))
		}
		out.Stat(sg.name+".concurrent_shutdown_runs", 1)
		out.Stat(sg.name+".concurrent_shutdown_items_left_in_channels", left)
		out.Stat(sg.name+".concurrent_shutdown_items_accepted", len(acceptedTagged))
	}
}

// ---- (9) concurrent FIRST arrivals of one new metadata group (the stale-Load schedule, label LConsumeStale) ----
// The lookup in multiShardBatcher.consume is lock-free; the creation happens under mb.lock.  The harness holds
// mb.lock (a legal schedule: sync.Mutex is not FIFO), starts k producers that all deliver the first payload of the
// SAME not yet seen group — they miss the lookup and queue up on the lock — and releases it.  The model
// (bp_consume_locked: limit check, then LoadOrStore) and bp_groups_distinct say: ONE shard for the group.  Checked on
// the implementation: the k one-item payloads (k = send_batch_size) are emitted as one batch at once (size trigger:
// items of one group are never pending in two batches), the group counts once against the cardinality limit (a
// further new group within the limit is accepted), every export of the group carries its tuple, conservation.
func vStaleCases[T any, P any](t *testing.T, out *vOut, rng *vRand, sg vSignal[T, P], n int) {
	for c := 0; c < n; c++ {
		vFlush(out)
		if vStuckN.Load() >= 5 {
			continue
		}
		k := 2 + rng.Intn(2)
		limit := 0
		if rng.Bool() {
			limit = 3 // k stale arrivals of ONE group must count once: two more groups fit
		}
		cfg := &Config{Timeout: vLongTimeout, SendBatchSize: uint32(k), SendBatchMaxSize: 0,
			MetadataKeys: []string{"k1"}, MetadataCardinalityLimit: uint32(limit)}
		keysLow := []string{"k1"}
		cfgTerm := fmt.Sprintf("(HC 1000 false %d 0 [%s] %d)", k, vStr("k1"), limit)
		term := "(CValidate " + cfgTerm + " 0)%N"
		sink := &vSink{perTuple: map[string]int{}}
		bp, consume, err := sg.newProc(cfg, func(ctx context.Context, d T) error {
			ir := sg.read(d)
			sink.add(vExport{tuple: vSinkTuple(ctx, keysLow), items: sg.items(ir), at: time.Now()})
			return nil
		})
		if err != nil {
			t.Fatal(err)
		}
		_ = bp.Start(context.Background(), componenttest.NewNopHost())
		mb, ok := bp.batcher.(*multiShardBatcher[T])
		if !ok {
			t.Fatal("not a multi-shard batcher")
		}
		g := &vGen{r: rng}
		mdA := map[string][]string{"k1": {vValPool[rng.Intn(3)]}}
		tpA := vTupleOf(mdA, keysLow)
		var want []string
		var wg sync.WaitGroup
		var refused atomic.Int32
		mb.lock.Lock() // producers that miss the lookup now wait here
		for i := 0; i < k; i++ {
			p := sg.mk(g, 1)
			for _, it := range sg.items(p) {
				want = append(want, tpA+"|"+it)
			}
			d := sg.build(p)
			wg.Add(1)
			go func() {
				defer wg.Done()
				ctx := client.NewContext(context.Background(), client.Info{Metadata: client.NewMetadata(map[string][]string{"K1": {mdA["k1"][0]}})})
				if err := consume(ctx, d); err != nil {
					refused.Add(1)
				}
			}()
		}
		runtime.Gosched()
		time.Sleep(5 * time.Millisecond)
		mb.lock.Unlock()
		pdone := make(chan struct{})
		go func() { wg.Wait(); close(pdone) }()
		select {
		case <-pdone:
		case <-time.After(vDL(20 * time.Second)):
			vStuck()
			out.Oracle("stuck", term, "concurrent first arrivals of one group: a Consume did not return within 20 s")
			continue
		}
		out.Stat(sg.name+".stale_runs", 1)
		if refused.Load() != 0 {
			out.Oracle("cardinality", term, fmt.Sprintf("%d of %d concurrent first arrivals of ONE group were refused (limit %d)", refused.Load(), k, limit))
		}
		// size trigger: k = send_batch_size items of the group are in the processor: one batch, now
		if !vWait(func() bool { return sink.count(tpA) >= k }, 3*time.Second) {
			out.Oracle("size-trigger", term, fmt.Sprintf("%d one-item payloads of group %s arrived concurrently as the group's first (send_batch_size %d): after 3 s only %d items are emitted — items of one group are pending in more than one batch",
				k, tpA, k, sink.count(tpA)))
		}
		// the group counts once: further new groups within the limit are accepted
		for j := 1; j <= 2; j++ {
			mdB := map[string][]string{"k1": {vValPool[3+j]}}
			p := sg.mk(g, 1)
			ctx := client.NewContext(context.Background(), client.Info{Metadata: client.NewMetadata(mdB)})
			cdone := make(chan error, 1)
			go func(d T) { cdone <- consume(ctx, d) }(sg.build(p))
			select {
			case err := <-cdone:
				if err != nil {
					out.Oracle("cardinality", term, fmt.Sprintf("group %d of %d allowed was refused (%v) after one group had arrived through %d concurrent first payloads: the group was counted more than once", j+1, limit, err, k))
				} else {
					for _, it := range sg.items(p) {
						want = append(want, vTupleOf(mdB, keysLow)+"|"+it)
					}
				}
			case <-time.After(vDL(20 * time.Second)):
				vStuck()
				out.Oracle("stuck", term, "Consume did not return within 20 s")
			}
		}
		sd := make(chan struct{})
		var snap []vExport
		go func() {
			_ = bp.Shutdown(vShutCtx())
			sink.mu.Lock()
			snap = append([]vExport{}, sink.exports...)
			sink.mu.Unlock()
			close(sd)
		}()
		select {
		case <-sd:
		case <-time.After(vDL(30 * time.Second)):
			vStuck()
			out.Oracle("stuck", term, "Shutdown did not return within 30 s")
			continue
		}
		var got []string
		batchesA := 0
		for _, e := range snap {
			if e.tuple == tpA {
				batchesA++
			}
			for _, it := range e.items {
				got = append(got, e.tuple+"|"+it)
			}
		}
		sort.Strings(got)
		sort.Strings(want)
		if !vEqStrings(got, want) {
			out.Oracle("conservation", term, "concurrent first arrivals of one group: "+vDiff(got, want))
		}
		out.Stat(fmt.Sprintf("%s.stale_batches_of_group_%d", sg.name, batchesA), 1)
	}
}

func TestVerifC17(t *testing.T) {
	out := vOpen()
	defer out.Close()
	lg, tr, mt := vLogsSignal(), vTracesSignal(), vMetricsSignal()

	vSplitCases(out, vNewRand(1701), lg, vBudget(120, 20))
	vSplitCases(out, vNewRand(1702), tr, vBudget(120, 20))
	vSplitCases(out, vNewRand(1703), mt, vBudget(240, 20))

	vRunCases(t, out, vNewRand(1711), lg, vBudget(110, 15))
	vRunCases(t, out, vNewRand(1712), tr, vBudget(110, 15))
	vRunCases(t, out, vNewRand(1713), mt, vBudget(130, 15))

	vValidateCases(out, vNewRand(1721), vBudget(60, 5))

	vTimeoutCases(t, out, vNewRand(1731), lg, vBudget(6, 4))
	vTimeoutCases(t, out, vNewRand(1732), tr, vBudget(6, 4))
	vTimeoutCases(t, out, vNewRand(1733), mt, vBudget(6, 4))

	vImmediateCases(t, out, vNewRand(1751), lg, vBudget(40, 10))
	vImmediateCases(t, out, vNewRand(1752), tr, vBudget(40, 10))
	vImmediateCases(t, out, vNewRand(1753), mt, vBudget(40, 10))

	vBlockedCases(t, out, vNewRand(1761), lg, vBudget(6, 6))
	vBlockedCases(t, out, vNewRand(1762), tr, vBudget(6, 6))
	vBlockedCases(t, out, vNewRand(1763), mt, vBudget(6, 6))

	vStaleCases(t, out, vNewRand(1791), lg, vBudget(8, 6))
	vStaleCases(t, out, vNewRand(1792), tr, vBudget(8, 6))
	vStaleCases(t, out, vNewRand(1793), mt, vBudget(8, 6))

	vAfterShutdownCases(t, out, vNewRand(1771), lg, vBudget(15, 6))
	vAfterShutdownCases(t, out, vNewRand(1772), tr, vBudget(15, 6))
	vAfterShutdownCases(t, out, vNewRand(1773), mt, vBudget(15, 6))

	vConcurrentShutdownCases(t, out, vNewRand(1781), lg, vBudget(8, 10))
	vConcurrentShutdownCases(t, out, vNewRand(1782), tr, vBudget(8, 10))
	vConcurrentShutdownCases(t, out, vNewRand(1783), mt, vBudget(8, 10))

	vConcurrentCases(t, out, vNewRand(1741), lg, vBudget(6, 20))
	vConcurrentCases(t, out, vNewRand(1742), tr, vBudget(6, 20))
	vConcurrentCases(t, out, vNewRand(1743), mt, vBudget(6, 20))
}
