// C17 harness, part 1: a small tree IR of the three payload kinds, builders (IR -> pdata), readers
// (pdata -> IR), Coq term printers and the generator.  Injected by overlay into
// processor/batchprocessor (package-internal), never written into /repo.
//
// Identity encoding (what the Coq model treats as opaque values):
//   Resource / Scope        -> attribute "id" (int)              ; 0 when absent
//   schema URL              -> "https://u/<k>" -> k              ; "" -> 0
//   log record / span / data point -> attribute "id" (int), unique within a case
//   metric name/desc/unit   -> "m<k>" / "d<k>" / "u<k>" -> k     ; "" -> 0
//   metric metadata         -> Metadata()["k"] (int)             ; 0 when absent
package batchprocessor

import (
	"fmt"
	"strconv"
	"strings"

	"go.opentelemetry.io/collector/pdata/pcommon"
	"go.opentelemetry.io/collector/pdata/plog"
	"go.opentelemetry.io/collector/pdata/pmetric"
	"go.opentelemetry.io/collector/pdata/ptrace"
)

type vCtx struct{ id, url uint64 }
type vScope3 struct {
	c     vCtx
	items []uint64
}
type vRes3 struct {
	c      vCtx
	scopes []vScope3
}
type vMetric struct {
	name, desc, unit, meta uint64
	kind                   int // 0 empty, 1 gauge, 2 sum, 3 histogram, 4 exp histogram, 5 summary
	temp                   uint64
	mono                   bool
	pts                    []uint64
}
type vScope4 struct {
	c  vCtx
	ms []vMetric
}
type vRes4 struct {
	c      vCtx
	scopes []vScope4
}

// ---- string <-> number ---------------------------------------------------------------------------
func vTag(prefix string, k uint64) string {
	if k == 0 {
		return ""
	}
	return prefix + strconv.FormatUint(k, 10)
}

func vUntag(prefix, s string) uint64 {
	if s == "" {
		return 0
	}
	if !strings.HasPrefix(s, prefix) {
		return 999999
	}
	n, err := strconv.ParseUint(s[len(prefix):], 10, 64)
	if err != nil {
		return 999998
	}
	return n
}

const vURL = "https://u/"

func vGetID(m pcommon.Map) uint64 {
	if v, ok := m.Get("id"); ok {
		return uint64(v.Int())
	}
	return 0
}

// A Resource / Scope identity is spread over EVERY field of the message (attributes, dropped-attributes count, for a
// scope also name and version): a copy that forgets one of them reads back as a different identity.
func vPutRes(r pcommon.Resource, id uint64) {
	r.Attributes().PutInt("id", int64(id))
	r.Attributes().PutStr("host", vTag("h", id))
	r.SetDroppedAttributesCount(uint32(id + 10))
}

func vResID(r pcommon.Resource) uint64 {
	id := vGetID(r.Attributes())
	h, _ := r.Attributes().Get("host")
	if r.Attributes().Len() != 2 || vUntag("h", h.Str()) != id || r.DroppedAttributesCount() != uint32(id+10) {
		return 999996
	}
	return id
}

func vPutScope(sc pcommon.InstrumentationScope, id uint64) {
	sc.Attributes().PutInt("id", int64(id))
	sc.SetName(vTag("scope", id))
	sc.SetVersion(vTag("v", id))
	sc.SetDroppedAttributesCount(uint32(id + 20))
}

func vScopeID(sc pcommon.InstrumentationScope) uint64 {
	id := vGetID(sc.Attributes())
	if sc.Attributes().Len() != 1 || vUntag("scope", sc.Name()) != id || vUntag("v", sc.Version()) != id || sc.DroppedAttributesCount() != uint32(id+20) {
		return 999997
	}
	return id
}

// ---- builders ------------------------------------------------------------------------------------
func vBuildLogs(p []vRes3) plog.Logs {
	ld := plog.NewLogs()
	for _, r := range p {
		rl := ld.ResourceLogs().AppendEmpty()
		vPutRes(rl.Resource(), r.c.id)
		rl.SetSchemaUrl(vTag(vURL, r.c.url))
		for _, s := range r.scopes {
			sl := rl.ScopeLogs().AppendEmpty()
			vPutScope(sl.Scope(), s.c.id)
			sl.SetSchemaUrl(vTag(vURL, s.c.url))
			for _, it := range s.items {
				lr := sl.LogRecords().AppendEmpty()
				lr.Attributes().PutInt("id", int64(it))
				lr.Body().SetStr("b" + strconv.FormatUint(it, 10))
			}
		}
	}
	return ld
}

func vBuildTraces(p []vRes3) ptrace.Traces {
	td := ptrace.NewTraces()
	for _, r := range p {
		rs := td.ResourceSpans().AppendEmpty()
		vPutRes(rs.Resource(), r.c.id)
		rs.SetSchemaUrl(vTag(vURL, r.c.url))
		for _, s := range r.scopes {
			ss := rs.ScopeSpans().AppendEmpty()
			vPutScope(ss.Scope(), s.c.id)
			ss.SetSchemaUrl(vTag(vURL, s.c.url))
			for _, it := range s.items {
				sp := ss.Spans().AppendEmpty()
				sp.Attributes().PutInt("id", int64(it))
				sp.SetName("s" + strconv.FormatUint(it, 10))
			}
		}
	}
	return td
}

func vBuildMetrics(p []vRes4) pmetric.Metrics {
	md := pmetric.NewMetrics()
	for _, r := range p {
		rm := md.ResourceMetrics().AppendEmpty()
		vPutRes(rm.Resource(), r.c.id)
		rm.SetSchemaUrl(vTag(vURL, r.c.url))
		for _, s := range r.scopes {
			sm := rm.ScopeMetrics().AppendEmpty()
			vPutScope(sm.Scope(), s.c.id)
			sm.SetSchemaUrl(vTag(vURL, s.c.url))
			for _, m := range s.ms {
				mm := sm.Metrics().AppendEmpty()
				mm.SetName(vTag("m", m.name))
				mm.SetDescription(vTag("d", m.desc))
				mm.SetUnit(vTag("u", m.unit))
				if m.meta != 0 {
					mm.Metadata().PutInt("k", int64(m.meta))
				}
				switch m.kind {
				case 1:
					dps := mm.SetEmptyGauge().DataPoints()
					for _, it := range m.pts {
						dp := dps.AppendEmpty()
						dp.Attributes().PutInt("id", int64(it))
						dp.SetIntValue(int64(it))
					}
				case 2:
					sum := mm.SetEmptySum()
					sum.SetAggregationTemporality(pmetric.AggregationTemporality(m.temp))
					sum.SetIsMonotonic(m.mono)
					for _, it := range m.pts {
						dp := sum.DataPoints().AppendEmpty()
						dp.Attributes().PutInt("id", int64(it))
						dp.SetDoubleValue(float64(it))
					}
				case 3:
					h := mm.SetEmptyHistogram()
					h.SetAggregationTemporality(pmetric.AggregationTemporality(m.temp))
					for _, it := range m.pts {
						dp := h.DataPoints().AppendEmpty()
						dp.Attributes().PutInt("id", int64(it))
						dp.SetCount(it)
					}
				case 4:
					h := mm.SetEmptyExponentialHistogram()
					h.SetAggregationTemporality(pmetric.AggregationTemporality(m.temp))
					for _, it := range m.pts {
						dp := h.DataPoints().AppendEmpty()
						dp.Attributes().PutInt("id", int64(it))
						dp.SetCount(it)
					}
				case 5:
					sy := mm.SetEmptySummary()
					for _, it := range m.pts {
						dp := sy.DataPoints().AppendEmpty()
						dp.Attributes().PutInt("id", int64(it))
						dp.SetCount(it)
					}
				}
			}
		}
	}
	return md
}

// ---- readers -------------------------------------------------------------------------------------
func vReadLogs(ld plog.Logs) []vRes3 {
	var out []vRes3
	for i := 0; i < ld.ResourceLogs().Len(); i++ {
		rl := ld.ResourceLogs().At(i)
		r := vRes3{c: vCtx{vResID(rl.Resource()), vUntag(vURL, rl.SchemaUrl())}}
		for j := 0; j < rl.ScopeLogs().Len(); j++ {
			sl := rl.ScopeLogs().At(j)
			s := vScope3{c: vCtx{vScopeID(sl.Scope()), vUntag(vURL, sl.SchemaUrl())}}
			for k := 0; k < sl.LogRecords().Len(); k++ {
				s.items = append(s.items, vGetID(sl.LogRecords().At(k).Attributes()))
			}
			r.scopes = append(r.scopes, s)
		}
		out = append(out, r)
	}
	return out
}

func vReadTraces(td ptrace.Traces) []vRes3 {
	var out []vRes3
	for i := 0; i < td.ResourceSpans().Len(); i++ {
		rs := td.ResourceSpans().At(i)
		r := vRes3{c: vCtx{vResID(rs.Resource()), vUntag(vURL, rs.SchemaUrl())}}
		for j := 0; j < rs.ScopeSpans().Len(); j++ {
			ss := rs.ScopeSpans().At(j)
			s := vScope3{c: vCtx{vScopeID(ss.Scope()), vUntag(vURL, ss.SchemaUrl())}}
			for k := 0; k < ss.Spans().Len(); k++ {
				s.items = append(s.items, vGetID(ss.Spans().At(k).Attributes()))
			}
			r.scopes = append(r.scopes, s)
		}
		out = append(out, r)
	}
	return out
}

func vReadMetrics(md pmetric.Metrics) []vRes4 {
	var out []vRes4
	for i := 0; i < md.ResourceMetrics().Len(); i++ {
		rm := md.ResourceMetrics().At(i)
		r := vRes4{c: vCtx{vResID(rm.Resource()), vUntag(vURL, rm.SchemaUrl())}}
		for j := 0; j < rm.ScopeMetrics().Len(); j++ {
			sm := rm.ScopeMetrics().At(j)
			s := vScope4{c: vCtx{vScopeID(sm.Scope()), vUntag(vURL, sm.SchemaUrl())}}
			for k := 0; k < sm.Metrics().Len(); k++ {
				mm := sm.Metrics().At(k)
				m := vMetric{name: vUntag("m", mm.Name()), desc: vUntag("d", mm.Description()), unit: vUntag("u", mm.Unit())}
				if v, ok := mm.Metadata().Get("k"); ok {
					m.meta = uint64(v.Int())
				}
				switch mm.Type() {
				case pmetric.MetricTypeGauge:
					m.kind = 1
					dps := mm.Gauge().DataPoints()
					for q := 0; q < dps.Len(); q++ {
						m.pts = append(m.pts, vGetID(dps.At(q).Attributes()))
					}
				case pmetric.MetricTypeSum:
					m.kind = 2
					m.temp = uint64(mm.Sum().AggregationTemporality())
					m.mono = mm.Sum().IsMonotonic()
					dps := mm.Sum().DataPoints()
					for q := 0; q < dps.Len(); q++ {
						m.pts = append(m.pts, vGetID(dps.At(q).Attributes()))
					}
				case pmetric.MetricTypeHistogram:
					m.kind = 3
					m.temp = uint64(mm.Histogram().AggregationTemporality())
					dps := mm.Histogram().DataPoints()
					for q := 0; q < dps.Len(); q++ {
						m.pts = append(m.pts, vGetID(dps.At(q).Attributes()))
					}
				case pmetric.MetricTypeExponentialHistogram:
					m.kind = 4
					m.temp = uint64(mm.ExponentialHistogram().AggregationTemporality())
					dps := mm.ExponentialHistogram().DataPoints()
					for q := 0; q < dps.Len(); q++ {
						m.pts = append(m.pts, vGetID(dps.At(q).Attributes()))
					}
				case pmetric.MetricTypeSummary:
					m.kind = 5
					dps := mm.Summary().DataPoints()
					for q := 0; q < dps.Len(); q++ {
						m.pts = append(m.pts, vGetID(dps.At(q).Attributes()))
					}
				}
				s.ms = append(s.ms, m)
			}
			r.scopes = append(r.scopes, s)
		}
		out = append(out, r)
	}
	return out
}

// ---- Coq term printers (all numbers are N; the whole case is wrapped in ( ... )%N) ---------------------
func vU(n uint64) string { return strconv.FormatUint(n, 10) }

func vUs(l []uint64) string {
	it := make([]string, len(l))
	for i, x := range l {
		it[i] = vU(x)
	}
	return "[" + strings.Join(it, ";") + "]"
}

func (c vCtx) term() string { return "(" + vU(c.id) + "," + vU(c.url) + ")" }

func vTerm3(p []vRes3) string {
	var rs []string
	for _, r := range p {
		var ss []string
		for _, s := range r.scopes {
			ss = append(ss, "("+s.c.term()+","+vUs(s.items)+")")
		}
		rs = append(rs, "("+r.c.term()+",["+strings.Join(ss, ";")+"])")
	}
	return "[" + strings.Join(rs, ";") + "]"
}

func (m vMetric) identTerm() string {
	k := "MEmpty"
	switch m.kind {
	case 1:
		k = "MGauge"
	case 2:
		k = "(MSum " + vU(m.temp) + " " + vBool(m.mono) + ")"
	case 3:
		k = "(MHistogram " + vU(m.temp) + ")"
	case 4:
		k = "(MExpHistogram " + vU(m.temp) + ")"
	case 5:
		k = "MSummary"
	}
	return "(MI " + vU(m.name) + " " + vU(m.desc) + " " + vU(m.unit) + " " + vU(m.meta) + " " + k + ")"
}

func vTerm4(p []vRes4) string {
	var rs []string
	for _, r := range p {
		var ss []string
		for _, s := range r.scopes {
			var ms []string
			for _, m := range s.ms {
				ms = append(ms, "("+m.identTerm()+","+vUs(m.pts)+")")
			}
			ss = append(ss, "("+s.c.term()+",["+strings.Join(ms, ";")+"])")
		}
		rs = append(rs, "("+r.c.term()+",["+strings.Join(ss, ";")+"])")
	}
	return "[" + strings.Join(rs, ";") + "]"
}

// ---- items with their full identity (for the direct oracle) -----------------------------------------
func vItems3(p []vRes3) []string {
	var out []string
	for _, r := range p {
		for _, s := range r.scopes {
			for _, it := range s.items {
				out = append(out, fmt.Sprintf("%d@r%s/s%s", it, r.c.term(), s.c.term()))
			}
		}
	}
	return out
}

func vItems4(p []vRes4) []string {
	var out []string
	for _, r := range p {
		for _, s := range r.scopes {
			for _, m := range s.ms {
				for _, it := range m.pts {
					out = append(out, fmt.Sprintf("%d@r%s/s%s/%s", it, r.c.term(), s.c.term(), m.identTerm()))
				}
			}
		}
	}
	return out
}

// ---- generator -----------------------------------------------------------------------------------
type vGen struct {
	r    *vRand
	next uint64 // next item id (unique within a case)
}

func (g *vGen) ctx() vCtx {
	// small pools so that the same resource / scope recurs across payloads; url 0 = empty
	return vCtx{uint64(1 + g.r.Intn(4)), uint64(g.r.Intn(4))}
}

func (g *vGen) ids(n int) []uint64 {
	var l []uint64
	for i := 0; i < n; i++ {
		g.next++
		l = append(l, g.next)
	}
	return l
}

// shape: 0 = small mixed, 1 = one big scope, 2 = many tiny, 3 = empty-ish
func (g *vGen) payload3() []vRes3 {
	shape := g.r.Pick(5, 2, 2, 1)
	var p []vRes3
	nr := 1 + g.r.Intn(3)
	if shape == 3 {
		nr = g.r.Intn(2)
	}
	for i := 0; i < nr; i++ {
		r := vRes3{c: g.ctx()}
		ns := 1 + g.r.Intn(3)
		if shape == 3 {
			ns = g.r.Intn(2)
		}
		for j := 0; j < ns; j++ {
			n := g.r.Intn(4)
			switch shape {
			case 1:
				n = 3 + g.r.Intn(8)
			case 2:
				n = g.r.Intn(2)
			case 3:
				n = 0
			}
			r.scopes = append(r.scopes, vScope3{c: g.ctx(), items: g.ids(n)})
		}
		p = append(p, r)
	}
	return p
}

func (g *vGen) metric(n int) vMetric {
	m := vMetric{name: uint64(1 + g.r.Intn(5)), desc: uint64(g.r.Intn(3)), unit: uint64(g.r.Intn(3)), meta: uint64(g.r.Intn(3))}
	m.kind = 1 + g.r.Intn(5)
	if g.r.Intn(12) == 0 {
		m.kind = 0
	}
	// failing-input search: the driver names a metric type on which a translated function and the model differ
	if f := vEnvInt("VERIF_C17_FOCUS_KIND", -1); f >= 0 && f <= 5 && g.r.Intn(10) < 8 {
		m.kind = f
	}
	switch m.kind {
	case 2:
		m.temp = uint64(g.r.Intn(3))
		m.mono = g.r.Bool()
	case 3, 4:
		m.temp = uint64(g.r.Intn(3))
	}
	if m.kind != 0 {
		m.pts = g.ids(n)
	}
	return m
}

func (g *vGen) payload4() []vRes4 {
	shape := g.r.Pick(5, 2, 2, 1)
	var p []vRes4
	nr := 1 + g.r.Intn(2)
	if shape == 3 {
		nr = g.r.Intn(2)
	}
	for i := 0; i < nr; i++ {
		r := vRes4{c: g.ctx()}
		ns := 1 + g.r.Intn(2)
		if shape == 3 {
			ns = g.r.Intn(2)
		}
		for j := 0; j < ns; j++ {
			s := vScope4{c: g.ctx()}
			nm := 1 + g.r.Intn(3)
			if shape == 3 {
				nm = g.r.Intn(2)
			}
			for k := 0; k < nm; k++ {
				n := g.r.Intn(4)
				switch shape {
				case 1:
					n = 2 + g.r.Intn(7)
				case 2:
					n = g.r.Intn(2)
				case 3:
					n = 0
				}
				s.ms = append(s.ms, g.metric(n))
			}
			r.scopes = append(r.scopes, s)
		}
		p = append(p, r)
	}
	return p
}

func vCount3(p []vRes3) int { return len(vItems3(p)) }
func vCount4(p []vRes4) int { return len(vItems4(p)) }
