// C06 correspondence harness for processor/processorhelper (injected by overlay; package-internal): the capability a
// processor built by processorhelper.NewLogs/NewMetrics/NewTraces advertises for a list of WithCapabilities options.
// Case term: (CBuilt 1 sig opts false o_cap).  Direct oracle: the last option wins; the default is MutatesData=true.
package processorhelper

import (
	"context"
	"fmt"
	"testing"

	"go.opentelemetry.io/collector/consumer"
	"go.opentelemetry.io/collector/consumer/consumertest"
	"go.opentelemetry.io/collector/pdata/plog"
	"go.opentelemetry.io/collector/pdata/pmetric"
	"go.opentelemetry.io/collector/pdata/ptrace"
	"go.opentelemetry.io/collector/processor/processortest"
)

func vBuiltProcOne(out *vOut, sig int, opts []bool) {
	po := make([]Option, len(opts))
	for i, b := range opts {
		po[i] = WithCapabilities(consumer.Capabilities{MutatesData: b})
	}
	set := processortest.NewNopSettings(processortest.NopType)
	cfg := &struct{}{}
	var got bool
	switch sig {
	case 0:
		p, err := NewLogs(context.Background(), set, cfg, consumertest.NewNop(),
			func(_ context.Context, ld plog.Logs) (plog.Logs, error) { return ld, nil }, po...)
		if err != nil {
			panic(err)
		}
		got = p.Capabilities().MutatesData
	case 1:
		p, err := NewMetrics(context.Background(), set, cfg, consumertest.NewNop(),
			func(_ context.Context, md pmetric.Metrics) (pmetric.Metrics, error) { return md, nil }, po...)
		if err != nil {
			panic(err)
		}
		got = p.Capabilities().MutatesData
	default:
		p, err := NewTraces(context.Background(), set, cfg, consumertest.NewNop(),
			func(_ context.Context, td ptrace.Traces) (ptrace.Traces, error) { return td, nil }, po...)
		if err != nil {
			panic(err)
		}
		got = p.Capabilities().MutatesData
	}
	ot := make([]string, len(opts))
	for i, b := range opts {
		ot[i] = vBool(b)
	}
	term := fmt.Sprintf("(CBuilt 1 %d %s false %s)", sig, vList(ot), vBool(got))
	want := true
	if len(opts) > 0 {
		want = opts[len(opts)-1]
	}
	if got != want {
		out.Oracle("built-processor-capability-not-last-option", term,
			fmt.Sprintf("processor built with WithCapabilities options %v advertises MutatesData=%v; expected %v", opts, got, want))
	}
	out.Case(len(opts) >= 1, term)
	out.Stat(fmt.Sprintf("built_processor_options_%d", len(opts)), 1)
}

func TestVerifC06BuiltProcessor(t *testing.T) {
	out := vOpen()
	defer out.Close()
	for sig := 0; sig < 3; sig++ {
		for n := 0; n <= 3; n++ {
			for bits := 0; bits < 1<<n; bits++ {
				opts := make([]bool, n)
				for i := range opts {
					opts[i] = bits>>i&1 == 1
				}
				vBuiltProcOne(out, sig, opts)
			}
		}
	}
}
