// C06 correspondence harness for service/internal/graph (injected by overlay; package-internal).
//
// Generated pipeline trees — one receiver feeding 1..6 pipelines; each pipeline has 0..5 processors
// and 1..6 exporters, an exporter may be a same-signal connector feeding 1..5 further pipelines —
// with a declared MutatesData capability on every processor, exporter and connector, are built by
// the REAL graph.Build (capabilitiesNode computation in buildComponents, connector.go aggregateCap,
// capabilityconsumer, the receiver / connector-router / exporter fan-outs of fanoutconsumer).
//
// Case terms (Coq, type vcase, see coq/C06/Harness.v):
//   CPipe sig procs exps o_cap                    one pipeline, exporters only (exhaustive small vectors)
//   CGraph sig tree o_arrivals o_finals           the consumer tree (TreeModel.v comp) with what every component
//                                                 received (cell, read-only flag, markers) and finally holds
//   CTree sig roots o_recv_cap o_caps             a tree; o_recv_cap = MutatesData of the consumer handed to
//                                                 the receiver; o_caps = MutatesData advertised by every
//                                                 pipeline's capabilitiesNode, pre-order
//
// Direct oracle (independent of the Coq model): one payload is pushed through the receiver of the
// built graph (a payload with items, or one that has a resource / scope / metric descriptors but no items at
// all).  Every mutating component writes a marker (its own id) into the payload it receives.
// Expected: what a component receives carries exactly the markers of the mutating components UPSTREAM
// on its own path from the receiver (never a sibling's); a declared-mutating component never meets
// the read-only panic; after everything has run an exporter's payload holds its arrival markers plus
// its own only, and every other component's payload holds no marker of a component that is neither
// upstream nor downstream of it; every component is reached exactly once — also when the caller's context
// is already cancelled or gets cancelled while some component is working (and every component is handed
// that same context); a pipeline advertises
// MutatesData iff one of its processors mutates or all of its exporters (as advertised) do.
package graph

import (
	"context"
	"fmt"
	"sort"
	"strings"
	"testing"

	"go.opentelemetry.io/collector/component"
	"go.opentelemetry.io/collector/component/componenttest"
	"go.opentelemetry.io/collector/connector"
	"go.opentelemetry.io/collector/connector/xconnector"
	"go.opentelemetry.io/collector/consumer"
	"go.opentelemetry.io/collector/consumer/xconsumer"
	"go.opentelemetry.io/collector/exporter"
	"go.opentelemetry.io/collector/exporter/xexporter"
	"go.opentelemetry.io/collector/pdata/pcommon"
	"go.opentelemetry.io/collector/pdata/plog"
	"go.opentelemetry.io/collector/pdata/pmetric"
	"go.opentelemetry.io/collector/pdata/pprofile"
	"go.opentelemetry.io/collector/pdata/ptrace"
	"go.opentelemetry.io/collector/pdata/testdata"
	"go.opentelemetry.io/collector/pipeline"
	"go.opentelemetry.io/collector/pipeline/xpipeline"
	"go.opentelemetry.io/collector/processor"
	"go.opentelemetry.io/collector/processor/xprocessor"
	"go.opentelemetry.io/collector/receiver"
	"go.opentelemetry.io/collector/receiver/xreceiver"
	"go.opentelemetry.io/collector/service/internal/builders"
	"go.opentelemetry.io/collector/service/pipelines"
)

// ---- the world of one case: what every component observed ------------------------------------------
type vArr struct {
	seq     int // position in the global delivery order
	count   int
	cell    int
	ro      bool
	arrival []string
	payload any
	final   func() []string
}

type vWorldT struct {
	cells    []any
	arr      map[string]*vArr
	recv     map[string]bool // receiver id -> MutatesData of the consumer it was given
	push     map[string]func(context.Context) error
	failures []string
	seqN     int
	// the caller's context: cancelled when component cancelAt is reached ("" = not during the run)
	cancelAt string
	cancel   func()
	ended    bool
	// shape of the payload pushed through the graph (see vGTraces)
	payloadKind int
	roIn        bool // the receiver hands over a payload it has marked read-only (it keeps using it)
}

type vGCtxKey struct{}

// payload kinds: 0 a testdata payload with items; 1 one resource with a named scope but NO items (metrics:
// descriptors of an empty gauge and an untyped metric, zero data points); 2 a resource only
func vGTraces(kind int) ptrace.Traces {
	if kind == 0 {
		return testdata.GenerateTraces(2)
	}
	td := ptrace.NewTraces()
	e := td.ResourceSpans().AppendEmpty()
	e.Resource().Attributes().PutStr("service.name", "idle")
	if kind == 1 {
		e.ScopeSpans().AppendEmpty().Scope().SetName("no-spans")
	}
	return td
}

func vGMetrics(kind int) pmetric.Metrics {
	if kind == 0 {
		return testdata.GenerateMetrics(2)
	}
	md := pmetric.NewMetrics()
	e := md.ResourceMetrics().AppendEmpty()
	e.Resource().Attributes().PutStr("service.name", "idle")
	if kind == 1 {
		sc := e.ScopeMetrics().AppendEmpty()
		sc.Scope().SetName("no-points")
		g := sc.Metrics().AppendEmpty()
		g.SetName("queue.length")
		g.SetEmptyGauge()
		sc.Metrics().AppendEmpty().SetName("untyped")
	}
	return md
}

func vGLogs(kind int) plog.Logs {
	if kind == 0 {
		return testdata.GenerateLogs(2)
	}
	ld := plog.NewLogs()
	e := ld.ResourceLogs().AppendEmpty()
	e.Resource().Attributes().PutStr("service.name", "idle")
	if kind == 1 {
		e.ScopeLogs().AppendEmpty().Scope().SetName("no-records")
	}
	return ld
}

func vGProfiles(kind int) pprofile.Profiles {
	if kind == 0 {
		return testdata.GenerateProfiles(2)
	}
	pd := pprofile.NewProfiles()
	e := pd.ResourceProfiles().AppendEmpty()
	e.Resource().Attributes().PutStr("service.name", "idle")
	if kind == 1 {
		e.ScopeProfiles().AppendEmpty().Scope().SetName("no-profiles")
	}
	return pd
}

var vWorld *vWorldT

func (w *vWorldT) fail(kind, detail string) { w.failures = append(w.failures, kind+"|"+detail) }

func (w *vWorldT) cellOf(p any) int {
	for i, c := range w.cells {
		if c == p {
			return i
		}
	}
	w.cells = append(w.cells, p)
	return len(w.cells) - 1
}

const vMk = "mk:"

func vMarkers(m pcommon.Map) []string {
	var r []string
	m.Range(func(k string, _ pcommon.Value) bool {
		if strings.HasPrefix(k, vMk) {
			r = append(r, k[len(vMk):])
		}
		return true
	})
	return r
}

// one component type for receivers, processors, exporters and connectors of all four signals
type vComp struct {
	id  string
	mut bool
	nT  consumer.Traces
	nM  consumer.Metrics
	nL  consumer.Logs
	nP  xconsumer.Profiles
}

func (c *vComp) Start(context.Context, component.Host) error { return nil }
func (c *vComp) Shutdown(context.Context) error              { return nil }
func (c *vComp) Capabilities() consumer.Capabilities         { return consumer.Capabilities{MutatesData: c.mut} }

func vHandle(ctx context.Context, c *vComp, payload any, ro bool, attrs func() pcommon.Map, next func() error) error {
	w := vWorld
	if v, _ := ctx.Value(vGCtxKey{}).(int); v != 4242 {
		w.fail("context-not-propagated", fmt.Sprintf("component %s was not handed the caller's context", c.id))
	}
	if (ctx.Err() != nil) != w.ended {
		w.fail("context-state-differs", fmt.Sprintf("component %s sees ctx.Err()=%v, caller's context ended=%v", c.id, ctx.Err(), w.ended))
	}
	if c.id == w.cancelAt {
		w.cancel()
		w.ended = true
	}
	a := w.arr[c.id]
	if a == nil {
		a = &vArr{}
		w.arr[c.id] = a
	}
	a.count++
	if a.count == 1 {
		a.seq = w.seqN
		w.seqN++
	}
	a.cell = w.cellOf(payload)
	a.ro = ro
	// a payload that lost its (first) resource on the way makes attrs() panic: report it, do not crash
	safe := func() (r []string) {
		defer func() {
			if rec := recover(); rec != nil {
				r = []string{"<payload has no resource>"}
			}
		}()
		return vMarkers(attrs())
	}
	a.arrival = safe()
	if len(a.arrival) == 1 && a.arrival[0] == "<payload has no resource>" {
		w.fail("payload-lost-structure", fmt.Sprintf("component %s received a payload without the resource that was sent", c.id))
	}
	a.payload = payload
	a.final = safe
	if c.mut {
		func() {
			defer func() {
				if r := recover(); r != nil {
					if fmt.Sprint(r) == "invalid access to shared data" {
						w.fail("declared-mutator-panicked", fmt.Sprintf("component %s declares MutatesData but got a read-only payload: %v", c.id, r))
					} else {
						w.fail("payload-lost-structure", fmt.Sprintf("component %s cannot write its payload: %v", c.id, r))
					}
				}
			}()
			attrs().PutStr(vMk+c.id, "1")
		}()
	}
	if next == nil {
		return nil
	}
	return next()
}

func (c *vComp) ConsumeTraces(ctx context.Context, td ptrace.Traces) error {
	var next func() error
	if c.nT != nil {
		next = func() error { return c.nT.ConsumeTraces(ctx, td) }
	}
	return vHandle(ctx, c, td, td.IsReadOnly(), func() pcommon.Map { return td.ResourceSpans().At(0).Resource().Attributes() }, next)
}

func (c *vComp) ConsumeMetrics(ctx context.Context, md pmetric.Metrics) error {
	var next func() error
	if c.nM != nil {
		next = func() error { return c.nM.ConsumeMetrics(ctx, md) }
	}
	return vHandle(ctx, c, md, md.IsReadOnly(), func() pcommon.Map { return md.ResourceMetrics().At(0).Resource().Attributes() }, next)
}

func (c *vComp) ConsumeLogs(ctx context.Context, ld plog.Logs) error {
	var next func() error
	if c.nL != nil {
		next = func() error { return c.nL.ConsumeLogs(ctx, ld) }
	}
	return vHandle(ctx, c, ld, ld.IsReadOnly(), func() pcommon.Map { return ld.ResourceLogs().At(0).Resource().Attributes() }, next)
}

func (c *vComp) ConsumeProfiles(ctx context.Context, pd pprofile.Profiles) error {
	var next func() error
	if c.nP != nil {
		next = func() error { return c.nP.ConsumeProfiles(ctx, pd) }
	}
	return vHandle(ctx, c, pd, pd.IsReadOnly(), func() pcommon.Map { return pd.ResourceProfiles().At(0).Resource().Attributes() }, next)
}

func vNewComp(id component.ID) *vComp {
	return &vComp{id: id.Name(), mut: strings.HasSuffix(id.Name(), "_m")}
}

func vCfg() component.Config { return &struct{ _ int }{} }

const vStab = component.StabilityLevelDevelopment

var vRecvFactory = xreceiver.NewFactory(component.MustNewType("vrecv"), vCfg,
	xreceiver.WithTraces(func(_ context.Context, set receiver.Settings, _ component.Config, n consumer.Traces) (receiver.Traces, error) {
		vWorld.recv[set.ID.Name()] = n.Capabilities().MutatesData
		vWorld.push[set.ID.Name()] = func(ctx context.Context) error {
			p := vGTraces(vWorld.payloadKind)
			vWorld.cellOf(p) // the sent payload is cell 0
			if vWorld.roIn {
				p.MarkReadOnly()
			}
			return n.ConsumeTraces(ctx, p)
		}
		return vNewComp(set.ID), nil
	}, vStab),
	xreceiver.WithMetrics(func(_ context.Context, set receiver.Settings, _ component.Config, n consumer.Metrics) (receiver.Metrics, error) {
		vWorld.recv[set.ID.Name()] = n.Capabilities().MutatesData
		vWorld.push[set.ID.Name()] = func(ctx context.Context) error {
			p := vGMetrics(vWorld.payloadKind)
			vWorld.cellOf(p) // the sent payload is cell 0
			if vWorld.roIn {
				p.MarkReadOnly()
			}
			return n.ConsumeMetrics(ctx, p)
		}
		return vNewComp(set.ID), nil
	}, vStab),
	xreceiver.WithLogs(func(_ context.Context, set receiver.Settings, _ component.Config, n consumer.Logs) (receiver.Logs, error) {
		vWorld.recv[set.ID.Name()] = n.Capabilities().MutatesData
		vWorld.push[set.ID.Name()] = func(ctx context.Context) error {
			p := vGLogs(vWorld.payloadKind)
			vWorld.cellOf(p) // the sent payload is cell 0
			if vWorld.roIn {
				p.MarkReadOnly()
			}
			return n.ConsumeLogs(ctx, p)
		}
		return vNewComp(set.ID), nil
	}, vStab),
	xreceiver.WithProfiles(func(_ context.Context, set receiver.Settings, _ component.Config, n xconsumer.Profiles) (xreceiver.Profiles, error) {
		vWorld.recv[set.ID.Name()] = n.Capabilities().MutatesData
		vWorld.push[set.ID.Name()] = func(ctx context.Context) error {
			p := vGProfiles(vWorld.payloadKind)
			vWorld.cellOf(p) // the sent payload is cell 0
			if vWorld.roIn {
				p.MarkReadOnly()
			}
			return n.ConsumeProfiles(ctx, p)
		}
		return vNewComp(set.ID), nil
	}, vStab),
)

var vProcFactory = xprocessor.NewFactory(component.MustNewType("vproc"), vCfg,
	xprocessor.WithTraces(func(_ context.Context, set processor.Settings, _ component.Config, n consumer.Traces) (processor.Traces, error) {
		c := vNewComp(set.ID)
		c.nT = n
		return c, nil
	}, vStab),
	xprocessor.WithMetrics(func(_ context.Context, set processor.Settings, _ component.Config, n consumer.Metrics) (processor.Metrics, error) {
		c := vNewComp(set.ID)
		c.nM = n
		return c, nil
	}, vStab),
	xprocessor.WithLogs(func(_ context.Context, set processor.Settings, _ component.Config, n consumer.Logs) (processor.Logs, error) {
		c := vNewComp(set.ID)
		c.nL = n
		return c, nil
	}, vStab),
	xprocessor.WithProfiles(func(_ context.Context, set processor.Settings, _ component.Config, n xconsumer.Profiles) (xprocessor.Profiles, error) {
		c := vNewComp(set.ID)
		c.nP = n
		return c, nil
	}, vStab),
)

var vExpFactory = xexporter.NewFactory(component.MustNewType("vexp"), vCfg,
	xexporter.WithTraces(func(_ context.Context, set exporter.Settings, _ component.Config) (exporter.Traces, error) {
		return vNewComp(set.ID), nil
	}, vStab),
	xexporter.WithMetrics(func(_ context.Context, set exporter.Settings, _ component.Config) (exporter.Metrics, error) {
		return vNewComp(set.ID), nil
	}, vStab),
	xexporter.WithLogs(func(_ context.Context, set exporter.Settings, _ component.Config) (exporter.Logs, error) {
		return vNewComp(set.ID), nil
	}, vStab),
	xexporter.WithProfiles(func(_ context.Context, set exporter.Settings, _ component.Config) (xexporter.Profiles, error) {
		return vNewComp(set.ID), nil
	}, vStab),
)

var vConnFactory = xconnector.NewFactory(component.MustNewType("vconn"), vCfg,
	xconnector.WithTracesToTraces(func(_ context.Context, set connector.Settings, _ component.Config, n consumer.Traces) (connector.Traces, error) {
		c := vNewComp(set.ID)
		c.nT = n
		return c, nil
	}, vStab),
	xconnector.WithMetricsToMetrics(func(_ context.Context, set connector.Settings, _ component.Config, n consumer.Metrics) (connector.Metrics, error) {
		c := vNewComp(set.ID)
		c.nM = n
		return c, nil
	}, vStab),
	xconnector.WithLogsToLogs(func(_ context.Context, set connector.Settings, _ component.Config, n consumer.Logs) (connector.Logs, error) {
		c := vNewComp(set.ID)
		c.nL = n
		return c, nil
	}, vStab),
	xconnector.WithProfilesToProfiles(func(_ context.Context, set connector.Settings, _ component.Config, n xconsumer.Profiles) (xconnector.Profiles, error) {
		c := vNewComp(set.ID)
		c.nP = n
		return c, nil
	}, vStab),
)

// ---- pipeline trees ---------------------------------------------------------------------------------
type vNodeT struct {
	conn  bool
	mut   bool
	name  string
	nexts []*vPipeT
}

type vPipeT struct {
	name     string
	procs    []bool
	procName []string
	exps     []*vNodeT
}

type vTreeGen struct {
	rng *vRand
	n   int
}

func (g *vTreeGen) fresh(prefix string, mut bool) string {
	g.n++
	if mut {
		return fmt.Sprintf("%s%d_m", prefix, g.n)
	}
	return fmt.Sprintf("%s%d_r", prefix, g.n)
}

func (g *vTreeGen) pipe(depth int, pm int) *vPipeT {
	g.n++
	p := &vPipeT{name: fmt.Sprintf("pl%d", g.n)}
	for k, m := 0, g.rng.Pick(9, 9, 6, 3, 1, 1); k < m; k++ { // 0..5 processors
		mut := g.rng.Intn(100) < pm
		p.procs = append(p.procs, mut)
		p.procName = append(p.procName, g.fresh("p", mut))
	}
	for k, m := 0, 1+g.rng.Pick(12, 9, 6, 1, 1, 1); k < m; k++ { // 1..6 exporters / connectors
		mut := g.rng.Intn(100) < pm
		nd := &vNodeT{mut: mut}
		if depth > 0 && g.rng.Intn(100) < 35 {
			nd.conn = true
			nd.name = g.fresh("c", mut)
			for j, mm := 0, 1+g.rng.Pick(8, 6, 2, 1, 1); j < mm; j++ { // 1..5 pipelines behind a connector
				nd.nexts = append(nd.nexts, g.pipe(depth-1, pm))
			}
		} else {
			nd.name = g.fresh("e", mut)
		}
		p.exps = append(p.exps, nd)
	}
	return p
}

func vPipeTerm(p *vPipeT) string {
	pr := make([]string, len(p.procs))
	for i, b := range p.procs {
		pr[i] = vBool(b)
	}
	ex := make([]string, len(p.exps))
	for i, e := range p.exps {
		if e.conn {
			ns := make([]string, len(e.nexts))
			for j, n := range e.nexts {
				ns[j] = vPipeTerm(n)
			}
			ex[i] = fmt.Sprintf("NConn %s %s", vBool(e.mut), vList(ns))
		} else {
			ex[i] = "NExp " + vBool(e.mut)
		}
	}
	return fmt.Sprintf("(Pipe %s %s)", vList(pr), vList(ex))
}

var vSignals = []pipeline.Signal{pipeline.SignalLogs, pipeline.SignalMetrics, pipeline.SignalTraces, xpipeline.SignalProfiles}

// vRunTree builds the graph of the tree, reads the advertised capabilities, pushes one payload through
// and evaluates the direct oracle.  simple != nil: emit a CPipe case for the single exporter-only pipeline.
func vRunTree(out *vOut, sig int, roots []*vPipeT, simple bool, ctxMode, ctxPick int) {
	signal := vSignals[sig]
	vWorld = &vWorldT{arr: map[string]*vArr{}, recv: map[string]bool{}, push: map[string]func(context.Context) error{}}
	w := vWorld
	cfgs := pipelines.Config{}
	rcfg := map[component.ID]component.Config{}
	pcfg := map[component.ID]component.Config{}
	ecfg := map[component.ID]component.Config{}
	ccfg := map[component.ID]component.Config{}
	recvID := component.MustNewIDWithName("vrecv", "r0")
	rcfg[recvID] = vCfg()

	// expectations derived from the tree alone
	upstream := map[string][]string{}   // component -> markers it must see on arrival
	related := map[string]map[string]bool{} // component -> upstream + self + downstream
	isExporter := map[string]bool{}
	isMut := map[string]bool{}
	var order []*vPipeT // pre-order
	var all []string
	var declare func(p *vPipeT, from component.ID, up []string) []string // returns all components below (incl.)
	declare = func(p *vPipeT, from component.ID, up []string) []string {
		order = append(order, p)
		pc := &pipelines.PipelineConfig{Receivers: []component.ID{from}}
		cfgs[pipeline.NewIDWithName(signal, p.name)] = pc
		cur := append([]string{}, up...)
		var below []string
		var chain []string // processors of this pipeline, in order
		for k, mut := range p.procs {
			id := component.MustNewIDWithName("vproc", p.procName[k])
			pcfg[id] = vCfg()
			pc.Processors = append(pc.Processors, id)
			upstream[p.procName[k]] = append([]string{}, cur...)
			isMut[p.procName[k]] = mut
			if mut {
				cur = append(cur, p.procName[k])
			}
			chain = append(chain, p.procName[k])
		}
		var belowExps []string
		for _, e := range p.exps {
			upstream[e.name] = append([]string{}, cur...)
			isMut[e.name] = e.mut
			sub := []string{e.name}
			if e.conn {
				id := component.MustNewIDWithName("vconn", e.name)
				ccfg[id] = vCfg()
				pc.Exporters = append(pc.Exporters, id)
				cur2 := append([]string{}, cur...)
				if e.mut {
					cur2 = append(cur2, e.name)
				}
				for _, n := range e.nexts {
					sub = append(sub, declare(n, id, cur2)...)
				}
			} else {
				id := component.MustNewIDWithName("vexp", e.name)
				ecfg[id] = vCfg()
				pc.Exporters = append(pc.Exporters, id)
				isExporter[e.name] = true
			}
			// everything below exporter e is related to e
			rel := map[string]bool{}
			for _, x := range sub {
				rel[x] = true
			}
			related[e.name] = rel
			belowExps = append(belowExps, sub...)
		}
		// processors: related to the later processors of the chain and to everything below the exporters
		for k, name := range chain {
			rel := map[string]bool{}
			for _, x := range chain[k:] {
				rel[x] = true
			}
			for _, x := range belowExps {
				rel[x] = true
			}
			related[name] = rel
		}
		below = append(below, chain...)
		below = append(below, belowExps...)
		// everything below is also related (downstream) to the nodes of sub-pipelines: add upstream markers later
		return below
	}
	for _, p := range roots {
		all = append(all, declare(p, recvID, nil)...)
	}
	for name, up := range upstream {
		for _, u := range up {
			related[name][u] = true
		}
	}
	// nested connectors: a component is related to every component below it; the maps built in declare
	// cover a node's own subtree; upstream covers mutating ancestors.  Non-mutating ancestors never write.

	set := Settings{
		Telemetry:        componenttest.NewNopTelemetrySettings(),
		BuildInfo:        component.NewDefaultBuildInfo(),
		ReceiverBuilder:  builders.NewReceiver(rcfg, map[component.Type]receiver.Factory{vRecvFactory.Type(): vRecvFactory}),
		ProcessorBuilder: builders.NewProcessor(pcfg, map[component.Type]processor.Factory{vProcFactory.Type(): vProcFactory}),
		ExporterBuilder:  builders.NewExporter(ecfg, map[component.Type]exporter.Factory{vExpFactory.Type(): vExpFactory}),
		ConnectorBuilder: builders.NewConnector(ccfg, map[component.Type]connector.Factory{vConnFactory.Type(): vConnFactory}),
		PipelineConfigs:  cfgs,
	}
	g, err := Build(context.Background(), set)
	if err != nil {
		panic(fmt.Sprintf("C06 graph harness: Build failed: %v", err))
	}
	// ---- observation: advertised capabilities ----
	caps := make([]string, len(order))
	capOf := map[string]bool{}
	for i, p := range order {
		pn := g.pipelines[pipeline.NewIDWithName(signal, p.name)]
		c := pn.capabilitiesNode.getConsumer().Capabilities().MutatesData
		caps[i] = vBool(c)
		capOf[p.name] = c
	}
	recvCap := w.recv["r0"]
	var term string
	if simple {
		p := roots[0]
		pr := make([]string, len(p.procs))
		for i, b := range p.procs {
			pr[i] = vBool(b)
		}
		ex := make([]string, len(p.exps))
		for i, e := range p.exps {
			ex[i] = vBool(e.mut)
		}
		term = fmt.Sprintf("(CPipe %d %s %s %s)", sig, vList(pr), vList(ex), caps[0])
	} else {
		rt := make([]string, len(roots))
		for i, p := range roots {
			rt[i] = vPipeTerm(p)
		}
		term = fmt.Sprintf("(CTree %d %s %s %s)", sig, vList(rt), vBool(recvCap), vList(caps))
	}

	// ---- direct oracle 1: a pipeline advertises MutatesData iff a processor mutates or all exporters (as advertised) do
	var nodeCap func(e *vNodeT) bool
	nodeCap = func(e *vNodeT) bool {
		c := e.mut
		for _, n := range e.nexts {
			c = c || capOf[n.name]
		}
		return c
	}
	for _, p := range order {
		want := len(p.exps) > 0
		for _, e := range p.exps {
			want = want && nodeCap(e)
		}
		for _, b := range p.procs {
			want = want || b
		}
		if capOf[p.name] != want {
			w.fail("pipeline-capability-not-exact", fmt.Sprintf("pipeline %s advertises MutatesData=%v, processors %v / exporters require %v", p.name, capOf[p.name], p.procs, want))
		}
	}
	wantRecv := true
	for _, p := range roots {
		wantRecv = wantRecv && capOf[p.name]
	}
	if recvCap != wantRecv {
		w.fail("receiver-fanout-capability-not-exact", fmt.Sprintf("consumer given to the receiver advertises MutatesData=%v, pipelines %v", recvCap, caps))
	}

	// ---- direct oracle 2: push one payload through the graph ----
	func() {
		defer func() {
			if r := recover(); r != nil {
				w.fail("panic-in-graph", fmt.Sprint(r))
			}
		}()
		// the caller's context: live | already cancelled | cancelled when a chosen component is reached
		ctx, cancel := context.WithCancel(context.WithValue(context.Background(), vGCtxKey{}, 4242))
		defer cancel()
		w.cancel = cancel
		w.roIn = ctxPick%5 == 0
		if w.roIn {
			out.Stat("graph_input_readonly", 1)
		}
		w.payloadKind = (ctxPick / 3) % 3
		out.Stat(fmt.Sprintf("graph_payload_kind_%d", w.payloadKind), 1)
		switch ctxMode {
		case 1:
			cancel()
			w.ended = true
			out.Stat("graph_ctx_cancelled_before", 1)
		case 2:
			w.cancelAt = all[ctxPick%len(all)]
			out.Stat("graph_ctx_cancelled_at_component", 1)
		default:
			out.Stat("graph_ctx_live", 1)
		}
		if err := w.push["r0"](ctx); err != nil {
			w.fail("consume-error", err.Error())
		}
	}()
	for _, name := range all {
		a := w.arr[name]
		if a == nil || a.count != 1 {
			n := 0
			if a != nil {
				n = a.count
			}
			w.fail("component-not-reached-exactly-once", fmt.Sprintf("component %s reached %d times", name, n))
			continue
		}
		if fmt.Sprint(a.arrival) != fmt.Sprint(upstream[name]) {
			w.fail("foreign-mutation-visible-at-arrival", fmt.Sprintf("component %s received markers %v, its upstream mutators are %v", name, a.arrival, upstream[name]))
		}
		if a.ro && isMut[name] {
			w.fail("read-only-given-to-mutator", fmt.Sprintf("component %s declares MutatesData and received a read-only payload", name))
		}
		fin := a.final()
		if isExporter[name] {
			want := append([]string{}, upstream[name]...)
			if isMut[name] {
				want = append(want, name)
			}
			if fmt.Sprint(fin) != fmt.Sprint(want) {
				w.fail("sibling-mutation-visible", fmt.Sprintf("exporter %s finally sees markers %v, expected %v", name, fin, want))
			}
		} else {
			for _, mk := range fin {
				if !related[name][mk] {
					w.fail("sibling-mutation-visible", fmt.Sprintf("component %s finally sees marker %s of an unrelated component", name, mk))
				}
			}
		}
	}
	// payload identity: a payload held by a mutating exporter is held by no component outside its own path
	for _, x := range all {
		ax := w.arr[x]
		if ax == nil || !isMut[x] {
			continue
		}
		for _, y := range all {
			ay := w.arr[y]
			if ay == nil || x == y || ay.cell != ax.cell {
				continue
			}
			if !related[x][y] && !related[y][x] {
				w.fail("mutator-shares-payload-with-sibling", fmt.Sprintf("mutating component %s and unrelated component %s hold the same payload", x, y))
			}
		}
	}
	// ---- CGraph case: the consumer tree (fan-out children in observed delivery order) + what every
	// component received and finally holds, compared with the store-passing tree model (TreeModel.v) ----
	idOf := map[string]int{}
	for i, name := range all {
		idOf[name] = i + 1
	}
	seqOf := func(name string) int {
		if a := w.arr[name]; a != nil && a.count > 0 {
			return a.seq
		}
		return 1 << 30
	}
	var pipeSeq func(p *vPipeT) int
	pipeSeq = func(p *vPipeT) int {
		m := 1 << 30
		for _, n := range p.procName {
			if x := seqOf(n); x < m {
				m = x
			}
		}
		for _, e := range p.exps {
			if x := seqOf(e.name); x < m {
				m = x
			}
		}
		return m
	}
	var pipeC func(p *vPipeT) string
	nodeC := func(e *vNodeT) string {
		if !e.conn {
			return fmt.Sprintf("CExp %d %s", idOf[e.name], vBool(e.mut))
		}
		ns := append([]*vPipeT{}, e.nexts...)
		sort.SliceStable(ns, func(i, j int) bool { return pipeSeq(ns[i]) < pipeSeq(ns[j]) })
		it := make([]string, len(ns))
		for i, n := range ns {
			it[i] = pipeC(n)
		}
		return fmt.Sprintf("CConn %d %s (CFanout %s)", idOf[e.name], vBool(e.mut), vList(it))
	}
	pipeC = func(p *vPipeT) string {
		es := append([]*vNodeT{}, p.exps...)
		sort.SliceStable(es, func(i, j int) bool { return seqOf(es[i].name) < seqOf(es[j].name) })
		it := make([]string, len(es))
		for i, e := range es {
			it[i] = nodeC(e)
		}
		t := "CFanout " + vList(it)
		for k := len(p.procs) - 1; k >= 0; k-- {
			t = fmt.Sprintf("CProc %d %s (%s)", idOf[p.procName[k]], vBool(p.procs[k]), t)
		}
		return "CCap (" + t + ")"
	}
	rs := append([]*vPipeT{}, roots...)
	sort.SliceStable(rs, func(i, j int) bool { return pipeSeq(rs[i]) < pipeSeq(rs[j]) })
	rt := make([]string, len(rs))
	for i, p := range rs {
		rt[i] = pipeC(p)
	}
	mkZ := func(ms []string) string {
		it := make([]string, len(ms))
		for i, m := range ms {
			it[i] = fmt.Sprint(idOf[m]) // unknown marker -> 0
		}
		return "[" + strings.Join(it, ";") + "]%Z"
	}
	byseq := append([]string{}, all...)
	sort.SliceStable(byseq, func(i, j int) bool { return seqOf(byseq[i]) < seqOf(byseq[j]) })
	var arrT, finT []string
	for _, name := range byseq {
		a := w.arr[name]
		if a == nil || a.count == 0 {
			continue
		}
		ro := 0
		if a.ro {
			ro = 1
		}
		arrT = append(arrT, fmt.Sprintf("(%d,(%d,%s))", idOf[name], 2*a.cell+ro, mkZ(a.arrival)))
		finT = append(finT, fmt.Sprintf("(%d,%s)", idOf[name], mkZ(a.final())))
	}
	gterm := fmt.Sprintf("(CGraph %d %s (CFanout %s) %s %s)", sig, vBool(w.roIn), vList(rt), vList(arrT), vList(finT))
	out.Case(len(all) >= 2, gterm)
	out.Stat("graph_tree_cases", 1)

	seen := map[string]bool{}
	for _, f := range w.failures {
		p := strings.SplitN(f, "|", 2)
		if seen[p[0]] {
			continue
		}
		seen[p[0]] = true
		out.Oracle(p[0], term, vSignalName(sig)+": "+p[1])
	}
	nmut := 0
	for _, m := range isMut {
		if m {
			nmut++
		}
	}
	out.Case(len(order) >= 2 || nmut > 0 || len(all) >= 2, term)
	out.Stat(fmt.Sprintf("graph_pipelines_%02d", len(order)), 1)
	out.Stat("graph_cases_"+vSignalName(sig), 1)
	out.Stat(fmt.Sprintf("graph_recv_cap=%v", recvCap), 1)
	for _, p := range order {
		out.Stat(fmt.Sprintf("graph_pipeline_cap=%v", capOf[p.name]), 1)
	}
	if len(w.cells) > 1 {
		out.Stat("graph_case_with_clone", 1)
	}
	out.Stat("graph_components", len(all))
}

func vSignalName(sig int) string { return []string{"logs", "metrics", "traces", "profiles"}[sig] }

func TestVerifC06Graph(t *testing.T) {
	out := vOpen()
	defer out.Close()
	rng := vNewRand(650)
	g := &vTreeGen{rng: rng}
	// (0) the witness of pipeline_advertises_only_if_it_mutates_refuted, replayed on the implementation: a pipeline
	// whose only exporter is a non-mutating connector feeding a mutating and a non-mutating pipeline advertises
	// MutatesData; the CTree / CGraph comparison shows the advertised capability and that nobody writes its payload
	for sig := 0; sig < 4; sig++ {
		g.n = 0
		pa := &vPipeT{name: "plA", procs: []bool{true}, procName: []string{g.fresh("p", true)}, exps: []*vNodeT{{mut: false, name: g.fresh("e", false)}}}
		pb := &vPipeT{name: "plB", exps: []*vNodeT{{mut: false, name: g.fresh("e", false)}}}
		conn := &vNodeT{conn: true, mut: false, name: g.fresh("c", false), nexts: []*vPipeT{pa, pb}}
		vRunTree(out, sig, []*vPipeT{{name: "plW", exps: []*vNodeT{conn}}}, false, 0, 0)
		out.Stat("graph_witness_over_advertising_pipeline", 1)
	}
	// (1) exhaustive: one pipeline, 0..2 processors x 1..3 exporters, every capability vector, signals in rotation
	k := 0
	for np := 0; np <= 2; np++ {
		for pb := 0; pb < 1<<np; pb++ {
			for ne := 1; ne <= 3; ne++ {
				for eb := 0; eb < 1<<ne; eb++ {
					g.n = 0
					p := &vPipeT{name: "pl0"}
					for i := 0; i < np; i++ {
						mut := pb>>i&1 == 1
						p.procs = append(p.procs, mut)
						p.procName = append(p.procName, g.fresh("p", mut))
					}
					for i := 0; i < ne; i++ {
						mut := eb>>i&1 == 1
						p.exps = append(p.exps, &vNodeT{mut: mut, name: g.fresh("e", mut)})
					}
					vRunTree(out, k%4, []*vPipeT{p}, true, rng.Pick(2, 1, 2), rng.Intn(64))
					k++
				}
			}
		}
	}
	// (2) random trees: 1..3 pipelines under the receiver, connectors up to depth 2
	for c, m := 0, vBudget(240, 20); c < m; c++ {
		g.n = 0
		pm := []int{0, 15, 40, 70, 100}[rng.Intn(5)]
		var roots []*vPipeT
		for j, mm := 0, 1+rng.Pick(6, 8, 4, 1, 1, 1); j < mm; j++ { // 1..6 pipelines under the receiver
			roots = append(roots, g.pipe(2, pm))
		}
		vRunTree(out, c%4, roots, false, rng.Pick(2, 1, 2), rng.Intn(64))
	}
}
