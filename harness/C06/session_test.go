// C06 correspondence harness, sessions: SEVERAL deliveries through the SAME fan-out object (injected by overlay
// next to fanout_test.go, whose signal adapters, payload shapes and write programs it reuses).
//
// The fan-out keeps no state between ConsumeX calls; a consumer may keep (queue, batch) the payload it was handed
// and work on it after further deliveries have been made.  A session is a sequence of deliveries, each either
// started after the previous one returned or RE-ENTRANTLY from inside a consumer call of the previous one (for the
// fan-out the same as a concurrent ConsumeX, but deterministic); the script's writes address (delivery, consumer):
// the payload that consumer was handed in that delivery — the current one or an earlier, retained one.
//
// Case term (Coq, type vcase): (CSess sig caps script o_dels), see coq/C06/Harness.v; model: Model.v srun.
// Direct oracle: in every delivery every consumer is called exactly once and receives the bytes sent in THAT
// delivery; a payload handed out in one delivery was never seen in another one (no buffer reuse); after every write
// every held payload of every delivery still has the bytes its holder expects (sent bytes changed by the holder's
// own successful writes only): a later delivery never changes a retained payload and vice versa; a successful
// write only on a payload nobody else holds; declared mutators never panic; errors aggregated per delivery.
package fanoutconsumer

import (
	"bytes"
	"context"
	"fmt"
	"sort"
	"strings"
	"testing"

	"go.uber.org/multierr"
)

type vSLab struct {
	d     int // delivery whose payload is written
	who   int
	w     vWr
	async bool
}

type vDelSpec struct {
	roIn   bool
	c0     []int64
	errs   [][]uint64
	segs   [][]vSLab // segs[k]: writes while the (k+1)-th consumer call of this delivery is in progress
	nestAt int       // k >= 1: the next delivery is started inside this delivery's k-th consumer call; -1: after it returned
	after  []vSLab   // writes after this delivery's ConsumeX returned
}

type vDelRun[T comparable] struct {
	idx       int
	spec      vDelSpec
	sent      T
	sentBytes []byte
	handles   []T
	called    []int
	expect    [][]byte
	evs       []vObsEv
	callOrder []int
	callNo    int
	local     []T // payload identities first seen in this delivery; local[0] = the caller's payload
	ret       error
}

func vSWriteTerm(l vSLab) string {
	return fmt.Sprintf("WStep %d (%d,(%d,(%d,%s)))", l.d, l.w.kind, l.who, l.w.k, vZ(l.w.v))
}

func vRunSession[T comparable, C any](ops vSigOps[T, C], out *vOut, caps []bool, specs []vDelSpec, final []vSLab) {
	n := len(caps)
	var dels []*vDelRun[T]
	var stack []int
	owner := map[T]int{}
	var script []string
	var fails []string
	fail := func(kind, detail string) { fails = append(fails, kind+"|"+detail) }
	nextIdx := 0
	var startNext func()

	checkAll := func(when string, writerDel int) {
		for _, d := range dels {
			for j := 0; j < n; j++ {
				if d.called[j] > 0 && !bytes.Equal(ops.enc(d.handles[j]), d.expect[j]) {
					if d.idx != writerDel {
						fail("retained-payload-changed-by-other-delivery", fmt.Sprintf("delivery %d consumer %d (mutates=%v) sees different bytes %s", d.idx, j, caps[j], when))
					} else {
						fail("sibling-observed-change", fmt.Sprintf("delivery %d consumer %d (mutates=%v) sees different bytes %s", d.idx, j, caps[j], when))
					}
					d.expect[j] = ops.enc(d.handles[j])
				}
			}
		}
	}
	holders := func(d *vDelRun[T], i int) int {
		c := 0
		for _, e := range dels {
			for j := 0; j < n; j++ {
				if (e != d || j != i) && e.called[j] > 0 && e.handles[j] == d.handles[i] {
					c++
				}
			}
		}
		return c
	}
	doWrite := func(l vSLab) {
		if l.d >= len(dels) || l.who >= n {
			return // the generator never does this
		}
		script = append(script, vSWriteTerm(l))
		d := dels[l.d]
		if d.called[l.who] == 0 {
			d.evs = append(d.evs, vObsEv{1, l.who, 2, nil})
			out.Stat("sess_write_no_payload", 1)
			return
		}
		res := 0
		body := func() {
			defer func() {
				if r := recover(); r != nil {
					res = 1
					if fmt.Sprint(r) != "invalid access to shared data" {
						fail("unexpected-panic", fmt.Sprintf("delivery %d consumer %d write %v: %v", l.d, l.who, l.w, r))
					}
				}
			}()
			if !ops.write(d.handles[l.who], l.w) {
				res = 2
			}
		}
		if l.async {
			done := make(chan struct{})
			go func() { defer close(done); body() }()
			<-done
		} else {
			body()
		}
		d.evs = append(d.evs, vObsEv{1, l.who, res, nil})
		switch res {
		case 0:
			if sh := holders(d, l.who); sh > 0 {
				fail("write-on-shared-succeeded", fmt.Sprintf("delivery %d consumer %d (mutates=%v) wrote a payload held by %d other holder(s)", l.d, l.who, caps[l.who], sh))
			}
			d.expect[l.who] = ops.enc(d.handles[l.who])
			if len(stack) > 0 && stack[len(stack)-1] != l.d || len(stack) == 0 && l.d != len(dels)-1 {
				out.Stat("sess_write_ok_on_retained_payload", 1)
			} else {
				out.Stat("sess_write_ok_current", 1)
			}
		case 1:
			out.Stat("sess_write_panic", 1)
			if caps[l.who] {
				fail("declared-mutator-panicked", fmt.Sprintf("delivery %d consumer %d declares MutatesData but its payload is read-only", l.d, l.who))
			}
		default:
			out.Stat("sess_write_skip", 1)
		}
		checkAll(fmt.Sprintf("after write %v by consumer %d on its payload of delivery %d", l.w, l.who, l.d), l.d)
	}

	cons := make([]C, n)
	for i := 0; i < n; i++ {
		i := i
		cons[i] = ops.mkCons(vOptsFor(caps[i], i, n), func(_ context.Context, p T) error {
			d := dels[stack[len(stack)-1]]
			script = append(script, fmt.Sprintf("WStep %d %s", d.idx, vCallTerm))
			d.called[i]++
			d.handles[i] = p
			d.callOrder = append(d.callOrder, i)
			cell := -1
			for k, q := range d.local {
				if q == p {
					cell = k
				}
			}
			if cell < 0 {
				if o, ok := owner[p]; ok && o != d.idx {
					cell = 500 + o
					fail("payload-reused-across-deliveries", fmt.Sprintf("delivery %d hands consumer %d (mutates=%v) a payload object already used in delivery %d", d.idx, i, caps[i], o))
				} else {
					owner[p] = d.idx
					d.local = append(d.local, p)
					cell = len(d.local) - 1
				}
			}
			ro := 0
			if ops.isRO(p) {
				ro = 1
			}
			d.evs = append(d.evs, vObsEv{0, i, 4*cell + ro, ops.abs(p)})
			b := ops.enc(p)
			if !bytes.Equal(b, d.sentBytes) {
				fail("content-differs-at-call", fmt.Sprintf("delivery %d consumer %d (mutates=%v) received bytes different from what was sent in this delivery", d.idx, i, caps[i]))
			}
			d.expect[i] = b
			// handing this payload out must not have changed anything held from other deliveries
			checkAll(fmt.Sprintf("after delivery %d handed a payload to consumer %d", d.idx, i), d.idx)
			if d.callNo < len(d.spec.segs) {
				for _, l := range d.spec.segs[d.callNo] {
					doWrite(l)
				}
			}
			d.callNo++
			if d.spec.nestAt == d.callNo && nextIdx < len(specs) {
				out.Stat("sess_delivery_started_reentrantly", 1)
				startNext()
			}
			var err error
			for _, id := range d.spec.errs[i] {
				err = multierr.Append(err, vMkErr(id))
			}
			return err
		})
	}
	fan := ops.newFan(cons)

	startNext = func() {
		k := nextIdx
		nextIdx++
		sp := specs[k]
		d := &vDelRun[T]{idx: k, spec: sp, handles: make([]T, n), called: make([]int, n), expect: make([][]byte, n)}
		d.sent = ops.newP(sp.c0)
		if sp.roIn {
			ops.markRO(d.sent)
		}
		d.sentBytes = ops.enc(d.sent)
		d.local = []T{d.sent}
		owner[d.sent] = k
		dels = append(dels, d)
		errsT := make([]string, n)
		for i := range errsT {
			errsT[i] = vNList(sp.errs[i])
		}
		script = append(script, fmt.Sprintf("WDeliver %s %s %s", vBool(sp.roIn), vZList(sp.c0), vList(errsT)))
		stack = append(stack, k)
		d.ret = ops.consume(context.Background(), fan, d.sent)
		stack = stack[:len(stack)-1]
		for _, l := range sp.after {
			doWrite(l)
		}
	}
	for nextIdx < len(specs) {
		if nextIdx > 0 {
			out.Stat("sess_delivery_started_sequentially", 1)
		}
		startNext()
	}
	for _, l := range final {
		doWrite(l)
	}

	// ---- observation + per-delivery oracle ----
	capsT := make([]string, n)
	for i := range capsT {
		capsT[i] = vBool(caps[i])
	}
	obsT := make([]string, len(dels))
	for k, d := range dels {
		evT := make([]string, len(d.evs))
		for i, e := range d.evs {
			evT[i] = fmt.Sprintf("(%d,(%d,(%d,%s)))", e.tag, e.who, e.a, vZList(e.seen))
		}
		finals := make([]string, n)
		for i := 0; i < n; i++ {
			if d.called[i] > 0 {
				finals[i] = "Some " + vZList(ops.abs(d.handles[i]))
			} else {
				finals[i] = "None"
			}
		}
		var gotErr, wantErr []uint64
		for _, e := range multierr.Errors(d.ret) {
			gotErr = append(gotErr, vErrID(e))
		}
		for _, i := range d.callOrder {
			wantErr = append(wantErr, d.spec.errs[i]...)
		}
		if fmt.Sprint(gotErr) != fmt.Sprint(wantErr) {
			fail("error-not-aggregated", fmt.Sprintf("delivery %d returned leaves %v, consumers returned %v", k, gotErr, wantErr))
		}
		for i := 0; i < n; i++ {
			if d.called[i] != 1 {
				fail("consumer-not-called-exactly-once", fmt.Sprintf("delivery %d: consumer %d (mutates=%v) called %d times", k, i, caps[i], d.called[i]))
				continue
			}
			sh := holders(d, i)
			if caps[i] && sh > 0 {
				fail("mutating-consumer-shares-payload", fmt.Sprintf("delivery %d: consumer %d declares MutatesData and its payload has %d other holder(s)", k, i, sh))
			}
			if sh > 0 && !ops.isRO(d.handles[i]) {
				fail("shared-payload-not-read-only", fmt.Sprintf("delivery %d: consumer %d shares its payload but it is not read-only", k, i))
			}
		}
		obsT[k] = fmt.Sprintf("(%s,(%s,(%s,%s)))", vList(evT), vList(finals), vBool(ops.isRO(d.sent)), vNList(gotErr))
	}
	checkAll("at the end of the session", -1)
	term := fmt.Sprintf("(CSess %d %s %s %s)", ops.id, vList(capsT), vList(script), vList(obsT))
	sort.Strings(fails)
	seen := map[string]bool{}
	for _, f := range fails {
		p := strings.SplitN(f, "|", 2)
		if seen[p[0]] {
			continue
		}
		seen[p[0]] = true
		out.Oracle(p[0], term, ops.name+" session: "+p[1])
	}
	out.Case(len(dels) >= 2, term)
	out.Stat(fmt.Sprintf("sess_deliveries_%d", len(dels)), 1)
	out.Stat("sess_cases_"+ops.name, 1)
	nmut := 0
	for _, c := range caps {
		if c {
			nmut++
		}
	}
	if nmut >= 2 {
		out.Stat("sess_with_2plus_mutating_consumers", 1)
	}
}

// ---- generator ----------------------------------------------------------------------------------------
func vGenSession(rng *vRand, caps []bool) ([]vDelSpec, []vSLab) {
	n := len(caps)
	nd := 2 + rng.Pick(5, 3)
	if rng.Intn(10) == 0 {
		nd = 1
	}
	var order []int // call order: mutating first
	for i, c := range caps {
		if c {
			order = append(order, i)
		}
	}
	for i, c := range caps {
		if !c {
			order = append(order, i)
		}
	}
	specs := make([]vDelSpec, nd)
	lens := make([]int, nd)
	// which deliveries exist (have been started) when delivery k's calls are running: 0..k ; nested ones later too,
	// but the generator only addresses deliveries 0..k from delivery k's segments
	genW := func(cur, nCalled int) vSLab {
		d := cur
		if cur > 0 && rng.Intn(100) < 35 {
			d = rng.Intn(cur) // a payload retained from an earlier delivery
		}
		who := rng.Intn(n)
		if d == cur && nCalled > 0 && rng.Intn(100) < 85 {
			who = order[rng.Intn(nCalled)]
		}
		var w vWr
		switch rng.Pick(4, 4, 2, 2) {
		case 0:
			w = vWr{kind: 1, v: int64(4 + rng.Intn(5))}
		case 1:
			w = vWr{kind: 2, k: rng.Intn(lens[d] + 2), v: int64(4 + rng.Intn(5))}
		case 3:
			w = vWr{kind: 5}
		default:
			w = vWr{kind: 3, v: int64(rng.Intn(6))}
			if len(specs[d].c0) > 0 && rng.Intn(2) == 0 {
				w.v = specs[d].c0[rng.Intn(len(specs[d].c0))]
			}
		}
		return vSLab{d: d, who: who, w: w, async: rng.Intn(3) == 0}
	}
	for k := 0; k < nd; k++ {
		sp := &specs[k]
		sp.roIn = rng.Intn(4) == 0
		for j, ln := 0, rng.Intn(4); j < ln; j++ {
			shape := rng.Intn(vNShapes)
			sp.c0 = append(sp.c0, int64(rng.Intn(4)+10*shape))
		}
		lens[k] = len(sp.c0)
		sp.errs = make([][]uint64, n)
		for i := range sp.errs {
			if rng.Intn(4) == 0 {
				sp.errs[i] = []uint64{uint64(100*k + 10*i + 1)}
			}
		}
		sp.nestAt = -1
		if k+1 < nd && n > 0 && rng.Intn(100) < 35 {
			sp.nestAt = 1 + rng.Intn(n)
		}
		sp.segs = make([][]vSLab, n)
		for c := 0; c < n; c++ {
			for j, m := 0, rng.Pick(3, 4, 2); j < m; j++ {
				sp.segs[c] = append(sp.segs[c], genW(k, c+1))
			}
		}
		if n > 0 {
			for j, m := 0, rng.Intn(3); j < m; j++ {
				sp.after = append(sp.after, genW(k, n))
			}
		}
	}
	var final []vSLab
	if n > 0 {
		for j, m := 0, rng.Intn(4); j < m; j++ {
			final = append(final, genW(nd-1, n))
		}
	}
	return specs, final
}

func vSessionAll[T comparable, C any](ops vSigOps[T, C], out *vOut) {
	rng := vNewRand(uint64(690 + ops.id))
	L := 4
	if vTier() != "quick" {
		L = 5
	}
	for n := 1; n <= L; n++ {
		for bits := 0; bits < 1<<n; bits++ {
			caps := make([]bool, n)
			for i := range caps {
				caps[i] = bits>>i&1 == 1
			}
			specs, final := vGenSession(rng, caps)
			vRunSession(ops, out, caps, specs, final)
		}
	}
	for c, m := 0, vBudget(25, 20); c < m; c++ {
		n := 2 + rng.Intn(5)
		caps := make([]bool, n)
		pm := []int{30, 60, 100}[rng.Intn(3)]
		for i := range caps {
			caps[i] = rng.Intn(100) < pm
		}
		specs, final := vGenSession(rng, caps)
		vRunSession(ops, out, caps, specs, final)
	}
}

func TestVerifC06Session(t *testing.T) {
	out := vOpen()
	defer out.Close()
	vSessionAll(vLogs, out)
	vSessionAll(vMetrics, out)
	vSessionAll(vTraces, out)
	vSessionAll(vProfiles, out)
}
