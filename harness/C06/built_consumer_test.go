// C06 correspondence harness for consumer/{logs,metrics,traces}.go + consumer/internal NewBaseImpl (injected by
// overlay; package-internal): the capability a consumer advertises as built by the real constructor from a list of
// WithCapabilities options.  Case term: (CBuilt 0 sig opts false o_cap), opts = the MutatesData values in order.
// Direct oracle: the LAST WithCapabilities wins; without one the consumer does not declare mutation.
package consumer

import (
	"context"
	"fmt"
	"testing"

	"go.opentelemetry.io/collector/pdata/plog"
	"go.opentelemetry.io/collector/pdata/pmetric"
	"go.opentelemetry.io/collector/pdata/ptrace"
)

func vBuiltOpts(opts []bool) []Option {
	r := make([]Option, len(opts))
	for i, b := range opts {
		r[i] = WithCapabilities(Capabilities{MutatesData: b})
	}
	return r
}

func vBuiltOne(out *vOut, sig int, opts []bool) {
	var got bool
	switch sig {
	case 0:
		c, err := NewLogs(func(context.Context, plog.Logs) error { return nil }, vBuiltOpts(opts)...)
		if err != nil {
			panic(err)
		}
		got = c.Capabilities().MutatesData
	case 1:
		c, err := NewMetrics(func(context.Context, pmetric.Metrics) error { return nil }, vBuiltOpts(opts)...)
		if err != nil {
			panic(err)
		}
		got = c.Capabilities().MutatesData
	default:
		c, err := NewTraces(func(context.Context, ptrace.Traces) error { return nil }, vBuiltOpts(opts)...)
		if err != nil {
			panic(err)
		}
		got = c.Capabilities().MutatesData
	}
	ot := make([]string, len(opts))
	for i, b := range opts {
		ot[i] = vBool(b)
	}
	term := fmt.Sprintf("(CBuilt 0 %d %s false %s)", sig, vList(ot), vBool(got))
	want := false
	if len(opts) > 0 {
		want = opts[len(opts)-1]
	}
	if got != want {
		out.Oracle("built-consumer-capability-not-last-option", term,
			fmt.Sprintf("consumer built with WithCapabilities options %v advertises MutatesData=%v; the last option says %v", opts, got, want))
	}
	out.Case(len(opts) >= 2, term)
	out.Stat(fmt.Sprintf("built_consumer_options_%d", len(opts)), 1)
}

func TestVerifC06BuiltConsumer(t *testing.T) {
	out := vOpen()
	defer out.Close()
	rng := vNewRand(710)
	for sig := 0; sig < 3; sig++ {
		for n := 0; n <= 4; n++ {
			for bits := 0; bits < 1<<n; bits++ {
				opts := make([]bool, n)
				for i := range opts {
					opts[i] = bits>>i&1 == 1
				}
				vBuiltOne(out, sig, opts)
			}
		}
		for c, m := 0, vBudget(10, 20); c < m; c++ {
			opts := make([]bool, 5+rng.Intn(6))
			for i := range opts {
				opts[i] = rng.Bool()
			}
			vBuiltOne(out, sig, opts)
		}
	}
}
