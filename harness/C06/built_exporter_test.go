// C06 correspondence harness for exporter/exporterhelper (injected by overlay; package-internal): the capability an
// exporter built by exporterhelper.NewLogs/NewMetrics/NewTraces advertises for a list of WithCapabilities options,
// with batching off, with the (deprecated) batcher enabled, or with a queue that batches.
// Case term: (CBuilt 2 sig opts batching o_cap).  Direct oracle: batching => MutatesData ("Batcher mutates the
// data"), otherwise the last WithCapabilities wins, default false.
package exporterhelper

import (
	"context"
	"fmt"
	"testing"

	"go.opentelemetry.io/collector/consumer"
	"go.opentelemetry.io/collector/exporter/exportertest"
	"go.opentelemetry.io/collector/pdata/plog"
	"go.opentelemetry.io/collector/pdata/pmetric"
	"go.opentelemetry.io/collector/pdata/ptrace"
)

// mode 0: no batching; 1: WithBatcher(enabled); 2: WithQueue(config with Batch set); the position of the batching
// option among the WithCapabilities options varies (first / last)
func vBuiltExpOne(out *vOut, sig int, opts []bool, mode int, batchFirst bool) {
	var eo []Option
	for _, b := range opts {
		eo = append(eo, WithCapabilities(consumer.Capabilities{MutatesData: b}))
	}
	var bo Option
	switch mode {
	case 1:
		bc := NewDefaultBatcherConfig()
		bc.Enabled = true
		bo = WithBatcher(bc)
	case 2:
		qc := NewDefaultQueueConfig()
		qc.Batch = &BatchConfig{FlushTimeout: 200_000_000, MinSize: 10}
		bo = WithQueue(qc)
	}
	if bo != nil {
		if batchFirst {
			eo = append([]Option{bo}, eo...)
		} else {
			eo = append(eo, bo)
		}
	}
	set := exportertest.NewNopSettings(exportertest.NopType)
	cfg := &struct{}{}
	var got bool
	switch sig {
	case 0:
		e, err := NewLogs(context.Background(), set, cfg, func(context.Context, plog.Logs) error { return nil }, eo...)
		if err != nil {
			panic(fmt.Sprintf("C06 built exporter harness: %v", err))
		}
		got = e.Capabilities().MutatesData
	case 1:
		e, err := NewMetrics(context.Background(), set, cfg, func(context.Context, pmetric.Metrics) error { return nil }, eo...)
		if err != nil {
			panic(fmt.Sprintf("C06 built exporter harness: %v", err))
		}
		got = e.Capabilities().MutatesData
	default:
		e, err := NewTraces(context.Background(), set, cfg, func(context.Context, ptrace.Traces) error { return nil }, eo...)
		if err != nil {
			panic(fmt.Sprintf("C06 built exporter harness: %v", err))
		}
		got = e.Capabilities().MutatesData
	}
	ot := make([]string, len(opts))
	for i, b := range opts {
		ot[i] = vBool(b)
	}
	term := fmt.Sprintf("(CBuilt 2 %d %s %s %s)", sig, vList(ot), vBool(mode > 0), vBool(got))
	want := mode > 0
	if mode == 0 && len(opts) > 0 {
		want = opts[len(opts)-1]
	}
	if got != want {
		out.Oracle("built-exporter-capability-wrong", term,
			fmt.Sprintf("exporter built with WithCapabilities options %v, batching mode %d advertises MutatesData=%v; expected %v", opts, mode, got, want))
	}
	out.Case(mode > 0 || len(opts) >= 2, term)
	out.Stat(fmt.Sprintf("built_exporter_mode_%d", mode), 1)
}

func TestVerifC06BuiltExporter(t *testing.T) {
	out := vOpen()
	defer out.Close()
	for sig := 0; sig < 3; sig++ {
		for n := 0; n <= 3; n++ {
			for bits := 0; bits < 1<<n; bits++ {
				opts := make([]bool, n)
				for i := range opts {
					opts[i] = bits>>i&1 == 1
				}
				for mode := 0; mode < 3; mode++ {
					vBuiltExpOne(out, sig, opts, mode, (bits+n+mode)%2 == 0)
				}
			}
		}
	}
}
