// C06 correspondence harness for internal/fanoutconsumer (injected by overlay; package-internal).
//
// For each of the four signal files (logs.go, metrics.go, traces.go, profiles.go) the REAL
// NewX / Capabilities / ConsumeX are driven with generated capability vectors, read-only or
// mutable input, per-consumer error results and a mutation script.  The consumers are scripted:
// consumer i records the payload it is given (identity, IsReadOnly, content) and then the script
// segment of that call is executed: mutation programs run by consumers on THEIR OWN payload,
// inline or from a fresh goroutine ("asynchronously after returning" for earlier consumers); the
// last segment runs after ConsumeX has returned.
//
// Case term (Coq, type vcase):
//   CFan sig caps ro_in c0 errs labels  o_cap o_evs o_final o_ro0 o_err
// see coq/C06/Harness.v for the wire encodings.
//
// Direct oracle (independent of the Coq model), evaluated on the implementation's payloads with
// the canonical protobuf encoding:
//   every consumer called exactly once; bytes at call time == bytes sent; after every write the
//   bytes seen by every OTHER consumer are unchanged; a successful write happened only on a
//   payload nobody else holds; a write by a consumer whose payload is held by somebody else
//   panics; mutating consumers' payloads are distinct from everybody else's; payload shared by
//   >= 2 consumers is read-only; returned error leaves == all consumer error leaves in call order;
//   Capabilities().MutatesData of the fan-out is true exactly when there is a consumer and all mutate.
package fanoutconsumer

import (
	"bytes"
	"context"
	"errors"
	"fmt"
	"sort"
	"strings"
	"sync"
	"testing"
	"time"

	"go.uber.org/multierr"

	"go.opentelemetry.io/collector/consumer"
	"go.opentelemetry.io/collector/consumer/xconsumer"
	"go.opentelemetry.io/collector/pdata/plog"
	"go.opentelemetry.io/collector/pdata/pmetric"
	"go.opentelemetry.io/collector/pdata/pprofile"
	"go.opentelemetry.io/collector/pdata/ptrace"
	"go.opentelemetry.io/collector/pdata/testdata"
)

const vMarker = "m"

// a mutation program: kind 1 append(v) | 2 set(k, v) | 3 remove(v) | 5 rotate (first entry to the end)
type vWr struct {
	kind int
	k    int
	v    int64
}

// one script label: call == true is the fan-out's next consumer call, else consumer `who` runs w
type vLab struct {
	who   int
	w     vWr
	async bool
}

type vErr struct{ id uint64 }

func (e *vErr) Error() string { return fmt.Sprintf("verif-error-%d", e.id) }

// vSigOps adapts one signal: T is the payload type (comparable: a struct of two pointers, so ==
// is payload identity), C the consumer interface.
type vSigOps[T comparable, C any] struct {
	id      int
	name    string
	newP    func(c0 []int64) T
	markRO  func(T)
	isRO    func(T) bool
	abs     func(T) []int64
	enc     func(T) []byte
	write   func(T, vWr) bool // returns whether a pdata mutator was reached; may panic
	mkCons  func(opts []bool, fn func(context.Context, T) error) C // opts: the MutatesData values of the WithCapabilities options, in order
	newFan  func([]C) C
	consume func(context.Context, C, T) error
	caps    func(C) bool
}

// ---- logs ---------------------------------------------------------------------------------------
var vLogs = vSigOps[plog.Logs, consumer.Logs]{
	id: 0, name: "logs",
	newP: func(c0 []int64) plog.Logs {
		ld := plog.NewLogs()
		for k, v := range c0 {
			e := ld.ResourceLogs().AppendEmpty()
			vShapeLogs(e, k, int(v/10))
			e.Resource().Attributes().PutInt(vMarker, v)
		}
		return ld
	},
	markRO: func(ld plog.Logs) { ld.MarkReadOnly() },
	isRO:   func(ld plog.Logs) bool { return ld.IsReadOnly() },
	abs: func(ld plog.Logs) []int64 {
		rl := ld.ResourceLogs()
		r := make([]int64, rl.Len())
		for i := range r {
			r[i] = vMark(rl.At(i).Resource().Attributes().Get(vMarker))
		}
		return r
	},
	enc: func(ld plog.Logs) []byte {
		b, err := (&plog.ProtoMarshaler{}).MarshalLogs(ld)
		if err != nil {
			panic(err)
		}
		return b
	},
	write: func(ld plog.Logs, w vWr) bool {
		rl := ld.ResourceLogs()
		switch w.kind {
		case 1:
			rl.AppendEmpty().Resource().Attributes().PutInt(vMarker, w.v)
		case 2:
			if w.k >= rl.Len() {
				return false
			}
			e := rl.At(w.k)
			e.Resource().Attributes().PutInt(vMarker, w.v)
			if e.ScopeLogs().Len() > 0 && e.ScopeLogs().At(0).LogRecords().Len() > 0 {
				lr := e.ScopeLogs().At(0).LogRecords().At(0)
				lr.Body().SetInt(w.v)
				lr.Attributes().PutStr("written", "yes")
			}
		case 5: // any other mutation: make room, then rotate the entries (first one to the end)
			rl.EnsureCapacity(rl.Len() + 1)
			if rl.Len() > 0 {
				rl.At(0).MoveTo(rl.AppendEmpty())
				first := true
				rl.RemoveIf(func(plog.ResourceLogs) bool {
					f := first
					first = false
					return f
				})
			}
		default:
			rl.RemoveIf(func(e plog.ResourceLogs) bool {
				return vMark(e.Resource().Attributes().Get(vMarker)) == w.v
			})
		}
		return true
	},
	mkCons: func(opts []bool, fn func(context.Context, plog.Logs) error) consumer.Logs {
		c, err := consumer.NewLogs(func(ctx context.Context, ld plog.Logs) error { return fn(ctx, ld) },
			vCapOpts(opts)...)
		if err != nil {
			panic(err)
		}
		return c
	},
	newFan:  NewLogs,
	consume: func(ctx context.Context, c consumer.Logs, ld plog.Logs) error { return c.ConsumeLogs(ctx, ld) },
	caps:    func(c consumer.Logs) bool { return c.Capabilities().MutatesData },
}

// ---- metrics ------------------------------------------------------------------------------------
var vMetrics = vSigOps[pmetric.Metrics, consumer.Metrics]{
	id: 1, name: "metrics",
	newP: func(c0 []int64) pmetric.Metrics {
		md := pmetric.NewMetrics()
		for k, v := range c0 {
			e := md.ResourceMetrics().AppendEmpty()
			vShapeMetrics(e, k, int(v/10))
			e.Resource().Attributes().PutInt(vMarker, v)
		}
		return md
	},
	markRO: func(md pmetric.Metrics) { md.MarkReadOnly() },
	isRO:   func(md pmetric.Metrics) bool { return md.IsReadOnly() },
	abs: func(md pmetric.Metrics) []int64 {
		rl := md.ResourceMetrics()
		r := make([]int64, rl.Len())
		for i := range r {
			r[i] = vMark(rl.At(i).Resource().Attributes().Get(vMarker))
		}
		return r
	},
	enc: func(md pmetric.Metrics) []byte {
		b, err := (&pmetric.ProtoMarshaler{}).MarshalMetrics(md)
		if err != nil {
			panic(err)
		}
		return b
	},
	write: func(md pmetric.Metrics, w vWr) bool {
		rl := md.ResourceMetrics()
		switch w.kind {
		case 1:
			rl.AppendEmpty().Resource().Attributes().PutInt(vMarker, w.v)
		case 2:
			if w.k >= rl.Len() {
				return false
			}
			e := rl.At(w.k)
			e.Resource().Attributes().PutInt(vMarker, w.v)
			if e.ScopeMetrics().Len() > 0 && e.ScopeMetrics().At(0).Metrics().Len() > 0 {
				m := e.ScopeMetrics().At(0).Metrics().At(0)
				m.SetName(fmt.Sprintf("written-%d", w.v))
				m.Metadata().PutStr("written", "yes")
			}
		case 5: // any other mutation: make room, then rotate the entries (first one to the end)
			rl.EnsureCapacity(rl.Len() + 1)
			if rl.Len() > 0 {
				rl.At(0).MoveTo(rl.AppendEmpty())
				first := true
				rl.RemoveIf(func(pmetric.ResourceMetrics) bool {
					f := first
					first = false
					return f
				})
			}
		default:
			rl.RemoveIf(func(e pmetric.ResourceMetrics) bool {
				return vMark(e.Resource().Attributes().Get(vMarker)) == w.v
			})
		}
		return true
	},
	mkCons: func(opts []bool, fn func(context.Context, pmetric.Metrics) error) consumer.Metrics {
		c, err := consumer.NewMetrics(func(ctx context.Context, md pmetric.Metrics) error { return fn(ctx, md) },
			vCapOpts(opts)...)
		if err != nil {
			panic(err)
		}
		return c
	},
	newFan:  NewMetrics,
	consume: func(ctx context.Context, c consumer.Metrics, md pmetric.Metrics) error { return c.ConsumeMetrics(ctx, md) },
	caps:    func(c consumer.Metrics) bool { return c.Capabilities().MutatesData },
}

// ---- traces -------------------------------------------------------------------------------------
var vTraces = vSigOps[ptrace.Traces, consumer.Traces]{
	id: 2, name: "traces",
	newP: func(c0 []int64) ptrace.Traces {
		td := ptrace.NewTraces()
		for k, v := range c0 {
			e := td.ResourceSpans().AppendEmpty()
			vShapeTraces(e, k, int(v/10))
			e.Resource().Attributes().PutInt(vMarker, v)
		}
		return td
	},
	markRO: func(td ptrace.Traces) { td.MarkReadOnly() },
	isRO:   func(td ptrace.Traces) bool { return td.IsReadOnly() },
	abs: func(td ptrace.Traces) []int64 {
		rl := td.ResourceSpans()
		r := make([]int64, rl.Len())
		for i := range r {
			r[i] = vMark(rl.At(i).Resource().Attributes().Get(vMarker))
		}
		return r
	},
	enc: func(td ptrace.Traces) []byte {
		b, err := (&ptrace.ProtoMarshaler{}).MarshalTraces(td)
		if err != nil {
			panic(err)
		}
		return b
	},
	write: func(td ptrace.Traces, w vWr) bool {
		rl := td.ResourceSpans()
		switch w.kind {
		case 1:
			rl.AppendEmpty().Resource().Attributes().PutInt(vMarker, w.v)
		case 2:
			if w.k >= rl.Len() {
				return false
			}
			e := rl.At(w.k)
			e.Resource().Attributes().PutInt(vMarker, w.v)
			if e.ScopeSpans().Len() > 0 && e.ScopeSpans().At(0).Spans().Len() > 0 {
				sp := e.ScopeSpans().At(0).Spans().At(0)
				sp.SetName(fmt.Sprintf("written-%d", w.v))
				sp.Attributes().PutStr("written", "yes")
				if sp.Events().Len() > 0 {
					sp.Events().At(0).SetName("written")
				}
			}
		case 5: // any other mutation: make room, then rotate the entries (first one to the end)
			rl.EnsureCapacity(rl.Len() + 1)
			if rl.Len() > 0 {
				rl.At(0).MoveTo(rl.AppendEmpty())
				first := true
				rl.RemoveIf(func(ptrace.ResourceSpans) bool {
					f := first
					first = false
					return f
				})
			}
		default:
			rl.RemoveIf(func(e ptrace.ResourceSpans) bool {
				return vMark(e.Resource().Attributes().Get(vMarker)) == w.v
			})
		}
		return true
	},
	mkCons: func(opts []bool, fn func(context.Context, ptrace.Traces) error) consumer.Traces {
		c, err := consumer.NewTraces(func(ctx context.Context, td ptrace.Traces) error { return fn(ctx, td) },
			vCapOpts(opts)...)
		if err != nil {
			panic(err)
		}
		return c
	},
	newFan:  NewTraces,
	consume: func(ctx context.Context, c consumer.Traces, td ptrace.Traces) error { return c.ConsumeTraces(ctx, td) },
	caps:    func(c consumer.Traces) bool { return c.Capabilities().MutatesData },
}

// ---- profiles -----------------------------------------------------------------------------------
var vProfiles = vSigOps[pprofile.Profiles, xconsumer.Profiles]{
	id: 3, name: "profiles",
	newP: func(c0 []int64) pprofile.Profiles {
		pd := pprofile.NewProfiles()
		for k, v := range c0 {
			e := pd.ResourceProfiles().AppendEmpty()
			vShapeProfiles(e, k, int(v/10))
			e.Resource().Attributes().PutInt(vMarker, v)
		}
		return pd
	},
	markRO: func(pd pprofile.Profiles) { pd.MarkReadOnly() },
	isRO:   func(pd pprofile.Profiles) bool { return pd.IsReadOnly() },
	abs: func(pd pprofile.Profiles) []int64 {
		rl := pd.ResourceProfiles()
		r := make([]int64, rl.Len())
		for i := range r {
			r[i] = vMark(rl.At(i).Resource().Attributes().Get(vMarker))
		}
		return r
	},
	enc: func(pd pprofile.Profiles) []byte {
		b, err := (&pprofile.ProtoMarshaler{}).MarshalProfiles(pd)
		if err != nil {
			panic(err)
		}
		return b
	},
	write: func(pd pprofile.Profiles, w vWr) bool {
		rl := pd.ResourceProfiles()
		switch w.kind {
		case 1:
			rl.AppendEmpty().Resource().Attributes().PutInt(vMarker, w.v)
		case 2:
			if w.k >= rl.Len() {
				return false
			}
			e := rl.At(w.k)
			e.Resource().Attributes().PutInt(vMarker, w.v)
			if e.ScopeProfiles().Len() > 0 && e.ScopeProfiles().At(0).Profiles().Len() > 0 {
				p := e.ScopeProfiles().At(0).Profiles().At(0)
				p.SetPeriod(w.v)
				p.SetDroppedAttributesCount(uint32(w.v))
				p.AttributeIndices().Append(int32(w.v))
			}
		case 5: // any other mutation: make room, then rotate the entries (first one to the end)
			rl.EnsureCapacity(rl.Len() + 1)
			if rl.Len() > 0 {
				rl.At(0).MoveTo(rl.AppendEmpty())
				first := true
				rl.RemoveIf(func(pprofile.ResourceProfiles) bool {
					f := first
					first = false
					return f
				})
			}
		default:
			rl.RemoveIf(func(e pprofile.ResourceProfiles) bool {
				return vMark(e.Resource().Attributes().Get(vMarker)) == w.v
			})
		}
		return true
	},
	mkCons: func(opts []bool, fn func(context.Context, pprofile.Profiles) error) xconsumer.Profiles {
		c, err := xconsumer.NewProfiles(func(ctx context.Context, pd pprofile.Profiles) error { return fn(ctx, pd) },
			vCapOpts(opts)...)
		if err != nil {
			panic(err)
		}
		return c
	},
	newFan:  NewProfiles,
	consume: func(ctx context.Context, c xconsumer.Profiles, pd pprofile.Profiles) error { return c.ConsumeProfiles(ctx, pd) },
	caps:    func(c xconsumer.Profiles) bool { return c.Capabilities().MutatesData },
}

// ---- the caller's context ---------------------------------------------------------------------------
// kind 0: a live context that never ends; 1: context.WithCancel, cancelled at the chosen point; 3: context.WithDeadline
// (1 h ahead) cancelled at the chosen point; 4: context.WithDeadline whose deadline has ALREADY passed (ends before ConsumeX);
// 2: a context whose deadline "passes" at the chosen point (own implementation of context.Context, so the
// moment is chosen by the script, not by a clock: Err() == context.DeadlineExceeded from then on).
type vCtxKey struct{}

type vDeadlineCtx struct {
	mu   sync.Mutex
	done chan struct{}
	err  error
	tag  int
}

func (c *vDeadlineCtx) Deadline() (time.Time, bool) {
	c.mu.Lock()
	defer c.mu.Unlock()
	if c.err != nil {
		return time.Now().Add(-time.Minute), true // the deadline has passed
	}
	return time.Now().Add(time.Hour), true
}
func (c *vDeadlineCtx) Done() <-chan struct{}       { return c.done }
func (c *vDeadlineCtx) Err() error {
	c.mu.Lock()
	defer c.mu.Unlock()
	return c.err
}
func (c *vDeadlineCtx) Value(k any) any {
	if k == (vCtxKey{}) {
		return c.tag
	}
	return nil
}
func (c *vDeadlineCtx) expire() {
	c.mu.Lock()
	defer c.mu.Unlock()
	if c.err == nil {
		c.err = context.DeadlineExceeded
		close(c.done)
	}
}

func vMakeCtx(kind, tag int) (context.Context, func()) {
	switch kind {
	case 1:
		return context.WithCancel(context.WithValue(context.Background(), vCtxKey{}, tag))
	case 2:
		c := &vDeadlineCtx{done: make(chan struct{}), tag: tag}
		return c, c.expire
	case 3: // a REAL deadline context; it can only "end before ConsumeX" (deadline already passed) or be cancelled
		return context.WithDeadline(context.WithValue(context.Background(), vCtxKey{}, tag), time.Now().Add(time.Hour))
	case 4:
		return context.WithDeadline(context.WithValue(context.Background(), vCtxKey{}, tag), time.Now().Add(-time.Hour))
	default:
		return context.WithValue(context.Background(), vCtxKey{}, tag), func() {}
	}
}

// error leaves with a meaning: the consumer failed by running into the caller's cancellation / deadline
const (
	vErrCanceled = 900001
	vErrDeadline = 900002
	vErrWrapped  = 900003
)

func vMkErr(id uint64) error {
	switch id {
	case vErrCanceled:
		return context.Canceled
	case vErrDeadline:
		return context.DeadlineExceeded
	case vErrWrapped:
		return fmt.Errorf("export failed: %w", context.DeadlineExceeded)
	}
	return &vErr{id}
}

func vErrID(e error) uint64 {
	var ve *vErr
	switch {
	case e == context.Canceled:
		return vErrCanceled
	case e == context.DeadlineExceeded:
		return vErrDeadline
	case errors.Is(e, context.DeadlineExceeded):
		return vErrWrapped
	case errors.As(e, &ve):
		return ve.id
	}
	return 999999
}

// ---- payload shapes ----------------------------------------------------------------------------------
// The marker v of an initial entry encodes its shape: shape = v / 10 (so a case replays from its term alone).
//   0 a full testdata entry (items present)             1 a resource only: attributes + schema URL, no scope
//   2 a resource with one named scope and NO items      3 two scopes, one empty, one holding item(s) that are
//   4 a full entry plus an empty scope + schema URLs      entirely default / carry no data (metrics: descriptors
//   5 (metrics) histogram / exponential histogram /       of an empty gauge, an empty monotonic sum and a metric
//     summary without points and a gauge point without    with no type: zero data points)
//     value; (others) an item with only attributes
// A payload made of shapes 1-3 only has resources, scopes (and metric descriptors) but a zero item count.
const vNShapes = 6

func vShapeLogs(e plog.ResourceLogs, k, shape int) {
	switch shape {
	case 0, 4:
		testdata.GenerateLogs(1 + k%3).ResourceLogs().At(0).CopyTo(e)
		if shape == 4 {
			e.SetSchemaUrl("https://example.test/res/1.2.3")
			e.ScopeLogs().AppendEmpty().SetSchemaUrl("https://example.test/scope")
		}
	case 1:
		e.Resource().Attributes().PutStr("service.name", "idle")
		e.Resource().SetDroppedAttributesCount(3)
		e.SetSchemaUrl("https://example.test/res/1.2.3")
	case 2:
		e.Resource().Attributes().PutStr("service.name", "idle")
		sc := e.ScopeLogs().AppendEmpty()
		sc.Scope().SetName("scope-without-records")
		sc.Scope().SetVersion("v9")
		sc.Scope().Attributes().PutBool("empty", true)
	case 3:
		e.ScopeLogs().AppendEmpty()
		e.ScopeLogs().AppendEmpty().LogRecords().AppendEmpty()
	default:
		lr := e.ScopeLogs().AppendEmpty().LogRecords().AppendEmpty()
		lr.Attributes().PutStr("only", "attributes")
	}
}

func vShapeMetrics(e pmetric.ResourceMetrics, k, shape int) {
	switch shape {
	case 0, 4:
		testdata.GenerateMetrics(1 + k%7).ResourceMetrics().At(0).CopyTo(e)
		if shape == 4 {
			e.SetSchemaUrl("https://example.test/res/1.2.3")
			e.ScopeMetrics().AppendEmpty().SetSchemaUrl("https://example.test/scope")
		}
	case 1:
		e.Resource().Attributes().PutStr("service.name", "idle")
		e.Resource().SetDroppedAttributesCount(3)
		e.SetSchemaUrl("https://example.test/res/1.2.3")
	case 2:
		e.Resource().Attributes().PutStr("service.name", "idle")
		sc := e.ScopeMetrics().AppendEmpty()
		sc.Scope().SetName("scope-without-metrics")
		sc.Scope().SetVersion("v9")
		sc.Scope().Attributes().PutBool("empty", true)
	case 3:
		e.Resource().Attributes().PutStr("service.name", "declared-but-idle")
		e.ScopeMetrics().AppendEmpty()
		ms := e.ScopeMetrics().AppendEmpty().Metrics()
		g := ms.AppendEmpty()
		g.SetName("queue.length")
		g.SetUnit("1")
		g.SetDescription("no points yet")
		g.Metadata().PutStr("origin", "verif")
		g.SetEmptyGauge()
		sm := ms.AppendEmpty()
		sm.SetName("requests")
		sm.SetEmptySum().SetIsMonotonic(true)
		sm.Sum().SetAggregationTemporality(pmetric.AggregationTemporalityCumulative)
		ms.AppendEmpty().SetName("no-type-set")
	default:
		ms := e.ScopeMetrics().AppendEmpty().Metrics()
		h := ms.AppendEmpty()
		h.SetName("latency")
		h.SetEmptyHistogram().SetAggregationTemporality(pmetric.AggregationTemporalityDelta)
		eh := ms.AppendEmpty()
		eh.SetName("latency.exp")
		eh.SetEmptyExponentialHistogram()
		ms.AppendEmpty().SetEmptySummary()
		ms.AppendEmpty().SetEmptyGauge().DataPoints().AppendEmpty().Attributes().PutStr("no", "value")
	}
}

func vShapeTraces(e ptrace.ResourceSpans, k, shape int) {
	switch shape {
	case 0, 4:
		testdata.GenerateTraces(1 + k%3).ResourceSpans().At(0).CopyTo(e)
		if shape == 4 {
			e.SetSchemaUrl("https://example.test/res/1.2.3")
			e.ScopeSpans().AppendEmpty().SetSchemaUrl("https://example.test/scope")
		}
	case 1:
		e.Resource().Attributes().PutStr("service.name", "idle")
		e.Resource().SetDroppedAttributesCount(3)
		e.SetSchemaUrl("https://example.test/res/1.2.3")
	case 2:
		e.Resource().Attributes().PutStr("service.name", "idle")
		sc := e.ScopeSpans().AppendEmpty()
		sc.Scope().SetName("scope-without-spans")
		sc.Scope().SetVersion("v9")
		sc.Scope().Attributes().PutBool("empty", true)
	case 3:
		e.ScopeSpans().AppendEmpty()
		e.ScopeSpans().AppendEmpty().Spans().AppendEmpty()
	default:
		sp := e.ScopeSpans().AppendEmpty().Spans().AppendEmpty()
		sp.Attributes().PutStr("only", "attributes")
		sp.Events().AppendEmpty()
		sp.Links().AppendEmpty()
	}
}

func vShapeProfiles(e pprofile.ResourceProfiles, k, shape int) {
	switch shape {
	case 0, 4:
		testdata.GenerateProfiles(1 + k%3).ResourceProfiles().At(0).CopyTo(e)
		if shape == 4 {
			e.SetSchemaUrl("https://example.test/res/1.2.3")
			e.ScopeProfiles().AppendEmpty().SetSchemaUrl("https://example.test/scope")
		}
	case 1:
		e.Resource().Attributes().PutStr("service.name", "idle")
		e.Resource().SetDroppedAttributesCount(3)
		e.SetSchemaUrl("https://example.test/res/1.2.3")
	case 2:
		e.Resource().Attributes().PutStr("service.name", "idle")
		sc := e.ScopeProfiles().AppendEmpty()
		sc.Scope().SetName("scope-without-profiles")
		sc.Scope().SetVersion("v9")
		sc.Scope().Attributes().PutBool("empty", true)
	case 3:
		e.ScopeProfiles().AppendEmpty()
		e.ScopeProfiles().AppendEmpty().Profiles().AppendEmpty() // a profile without samples
	default:
		p := e.ScopeProfiles().AppendEmpty().Profiles().AppendEmpty()
		p.SetDroppedAttributesCount(7)
		p.Sample().AppendEmpty()
	}
}

// the WithCapabilities options of a consumer, in order (the last one wins; none = non-mutating)
func vCapOpts(opts []bool) []consumer.Option {
	r := make([]consumer.Option, len(opts))
	for i, b := range opts {
		r[i] = consumer.WithCapabilities(consumer.Capabilities{MutatesData: b})
	}
	return r
}

// vOptsFor: an option list whose effective capability is mut, chosen by the consumer's position (so a case
// replays from its term alone): a single option | an earlier contrary option overridden | two overrides | default
func vOptsFor(mut bool, i, n int) []bool {
	switch (i + n) % 4 {
	case 1:
		return []bool{!mut, mut}
	case 2:
		return []bool{mut, !mut, mut}
	case 3:
		if !mut {
			return nil // no WithCapabilities at all: the default
		}
		return []bool{false, false, true}
	}
	return []bool{mut}
}

func vMark(v interface{ Int() int64 }, ok bool) int64 {
	if !ok {
		return -1
	}
	return v.Int()
}

// ---- one case -----------------------------------------------------------------------------------
type vFanCase struct {
	caps  []bool
	roIn  bool
	c0    []int64
	errs  [][]uint64 // per consumer: leaves of the error it returns ([] = nil)
	seg0  []vLab     // writes attempted before the first call (nobody holds a payload yet)
	segs  [][]vLab   // segs[k]: writes after the (k+1)-th consumer call; the last one after ConsumeX returned
	extra []vLab     // writes after ConsumeX returned
	// the caller's context: kind (see vMakeCtx) and the point at which it ends: -1 never; 0 before ConsumeX is
	// called; k in 1..n while the k-th consumer call is in progress; n+1 after ConsumeX returned
	ctxKind  int
	ctxEndAt int
}

type vObsEv struct {
	tag, who, a int
	seen        []int64
}

func vZList(l []int64) string {
	it := make([]string, len(l))
	for i, x := range l {
		if x < 0 {
			it[i] = fmt.Sprintf("(%d)", x)
		} else {
			it[i] = fmt.Sprint(x)
		}
	}
	return "[" + strings.Join(it, ";") + "]%Z"
}

func vNList(l []uint64) string {
	it := make([]string, len(l))
	for i, x := range l {
		it[i] = fmt.Sprint(x)
	}
	return "[" + strings.Join(it, ";") + "]%N"
}

func vLabTerm(l vLab) string {
	return fmt.Sprintf("(%d,(%d,(%d,%s)))", l.w.kind, l.who, l.w.k, vZ(l.w.v))
}

const vCallTerm = "(0,(0,(0,0%Z)))"
const vCancelTerm = "(4,(0,(0,0%Z)))"

func vRunFan[T comparable, C any](ops vSigOps[T, C], out *vOut, cs vFanCase) {
	n := len(cs.caps)
	sent := ops.newP(cs.c0)
	if cs.roIn {
		ops.markRO(sent)
	}
	sentBytes := ops.enc(sent)

	cells := []T{sent}
	cellOf := func(p T) int {
		for i, c := range cells {
			if c == p {
				return i
			}
		}
		cells = append(cells, p)
		return len(cells) - 1
	}
	handles := make([]T, n)
	called := make([]int, n)
	expect := make([][]byte, n) // what consumer i must see: sent bytes, updated only by its own successful writes
	var evs []vObsEv
	var callOrder []int
	var fails []string // direct-oracle failures (kind|detail)
	fail := func(kind, detail string) { fails = append(fails, kind+"|"+detail) }

	holders := func(i int) int { // how many OTHER called consumers hold consumer i's payload
		c := 0
		for j := 0; j < n; j++ {
			if j != i && called[j] > 0 && handles[j] == handles[i] {
				c++
			}
		}
		return c
	}
	checkViews := func(when string) {
		for j := 0; j < n; j++ {
			if called[j] > 0 && !bytes.Equal(ops.enc(handles[j]), expect[j]) {
				fail("sibling-observed-change", fmt.Sprintf("consumer %d (mutates=%v) sees different bytes %s", j, cs.caps[j], when))
				expect[j] = ops.enc(handles[j]) // report once
			}
		}
	}
	doWrite := func(l vLab) {
		i := l.who
		if i >= n || called[i] == 0 {
			evs = append(evs, vObsEv{1, i, 2, nil})
			out.Stat("write_no_payload", 1)
			return
		}
		res := 0
		body := func() {
			defer func() {
				if r := recover(); r != nil {
					if fmt.Sprint(r) == "invalid access to shared data" {
						res = 1
					} else {
						res = 1
						fail("unexpected-panic", fmt.Sprintf("consumer %d write %v: %v", i, l.w, r))
					}
				}
			}()
			if !ops.write(handles[i], l.w) {
				res = 2
			}
		}
		if l.async {
			done := make(chan struct{})
			go func() { defer close(done); body() }()
			<-done
		} else {
			body()
		}
		evs = append(evs, vObsEv{1, i, res, nil})
		shared := holders(i)
		switch res {
		case 0:
			out.Stat(fmt.Sprintf("write_ok_mut=%v", cs.caps[i]), 1)
			if shared > 0 {
				fail("write-on-shared-succeeded", fmt.Sprintf("consumer %d (mutates=%v) wrote a payload held by %d other consumer(s)", i, cs.caps[i], shared))
			}
			expect[i] = ops.enc(handles[i])
		case 1:
			out.Stat(fmt.Sprintf("write_panic_mut=%v", cs.caps[i]), 1)
			if cs.caps[i] {
				fail("declared-mutator-panicked", fmt.Sprintf("consumer %d declares MutatesData but its payload is read-only", i))
			}
		default:
			out.Stat("write_skip", 1)
		}
		checkViews(fmt.Sprintf("after write %v by consumer %d", l.w, i))
	}

	callNo := 0
	ctxTag := 1000 + n
	ctx, endCtx := vMakeCtx(cs.ctxKind, ctxTag)
	ctxEnded := false
	endNow := func() {
		endCtx()
		ctxEnded = true
		evs = append(evs, vObsEv{2, 0, 0, nil})
		out.Stat("ctx_ended", 1)
	}
	cons := make([]C, n)
	for i := 0; i < n; i++ {
		i := i
		cons[i] = ops.mkCons(vOptsFor(cs.caps[i], i, n), func(cctx context.Context, p T) error {
			called[i]++
			handles[i] = p
			callOrder = append(callOrder, i)
			ro := 0
			if ops.isRO(p) {
				ro = 1
			}
			// the context the consumer is handed must be the caller's: same values, done iff the caller's is done
			dn := 0
			if cctx.Err() != nil {
				dn = 2
			}
			if (dn == 2) != ctxEnded {
				fail("context-state-differs", fmt.Sprintf("consumer %d (mutates=%v) sees ctx.Err()=%v, the caller's context ended=%v", i, cs.caps[i], cctx.Err(), ctxEnded))
			}
			if v, _ := cctx.Value(vCtxKey{}).(int); v != ctxTag {
				fail("context-not-propagated", fmt.Sprintf("consumer %d (mutates=%v) was not handed the caller's context (value lost)", i, cs.caps[i]))
			}
			if ctxEnded {
				out.Stat(fmt.Sprintf("call_with_done_ctx_mut=%v", cs.caps[i]), 1)
			}
			evs = append(evs, vObsEv{0, i, 4*cellOf(p) + dn + ro, ops.abs(p)})
			if cs.ctxEndAt == callNo+1 {
				// this consumer is slow: the caller's deadline passes / the caller gives up while it works
				endNow()
				out.Stat(fmt.Sprintf("ctx_ends_during_call_mut=%v", cs.caps[i]), 1)
			}
			b := ops.enc(p)
			if !bytes.Equal(b, sentBytes) {
				fail("content-differs-at-call", fmt.Sprintf("consumer %d (mutates=%v) received bytes different from what was sent", i, cs.caps[i]))
			}
			expect[i] = b
			if callNo < len(cs.segs) {
				for _, l := range cs.segs[callNo] {
					doWrite(l)
				}
			}
			callNo++
			var err error
			for _, id := range cs.errs[i] {
				err = multierr.Append(err, vMkErr(id))
			}
			return err
		})
	}
	fan := ops.newFan(cons)
	// the slice belongs to the caller: it may reuse it afterwards (a scratch buffer).  Overwrite every element with a
	// consumer that must never be invoked.
	for i := range cons {
		i := i
		cons[i] = ops.mkCons([]bool{!cs.caps[i]}, func(context.Context, T) error {
			fail("fanout-aliases-callers-slice", fmt.Sprintf("the fan-out invoked what the caller stored at index %d of its slice AFTER NewX returned", i))
			return nil
		})
	}
	capObs := ops.caps(fan)
	for _, l := range cs.seg0 {
		doWrite(l)
	}
	if cs.ctxEndAt == 0 {
		endNow()
	}
	ret := ops.consume(ctx, fan, sent)
	if cs.ctxEndAt == n+1 {
		endNow()
	}
	for _, l := range cs.extra {
		doWrite(l)
	}
	endCtx()

	// ---- observation ----
	var gotErr []uint64
	for _, e := range multierr.Errors(ret) {
		gotErr = append(gotErr, vErrID(e))
	}
	finals := make([]string, n)
	for i := 0; i < n; i++ {
		if called[i] > 0 {
			finals[i] = "Some " + vZList(ops.abs(handles[i]))
		} else {
			finals[i] = "None"
		}
	}
	capsT := make([]string, n)
	errsT := make([]string, n)
	for i := 0; i < n; i++ {
		capsT[i] = vBool(cs.caps[i])
		errsT[i] = vNList(cs.errs[i])
	}
	var labs []string
	for _, l := range cs.seg0 {
		labs = append(labs, vLabTerm(l))
	}
	if cs.ctxEndAt == 0 {
		labs = append(labs, vCancelTerm)
	}
	for k, seg := range cs.segs {
		labs = append(labs, vCallTerm)
		if cs.ctxEndAt == k+1 {
			labs = append(labs, vCancelTerm)
		}
		for _, l := range seg {
			labs = append(labs, vLabTerm(l))
		}
	}
	if cs.ctxEndAt == n+1 {
		labs = append(labs, vCancelTerm)
	}
	for _, l := range cs.extra {
		labs = append(labs, vLabTerm(l))
	}
	evT := make([]string, len(evs))
	for i, e := range evs {
		evT[i] = fmt.Sprintf("(%d,(%d,(%d,%s)))", e.tag, e.who, e.a, vZList(e.seen))
	}
	term := fmt.Sprintf("(CFan %d %s %s %s %s %s %s %s %s %s %s)", ops.id, vList(capsT), vBool(cs.roIn), vZList(cs.c0),
		vList(errsT), vList(labs), vBool(capObs), vList(evT), vList(finals), vBool(ops.isRO(sent)), vNList(gotErr))

	// ---- direct oracle on the final situation ----
	for i := 0; i < n; i++ {
		if called[i] != 1 {
			fail("consumer-not-called-exactly-once", fmt.Sprintf("consumer %d (mutates=%v) called %d times", i, cs.caps[i], called[i]))
		}
	}
	var wantErr []uint64
	for _, i := range callOrder {
		wantErr = append(wantErr, cs.errs[i]...)
	}
	if fmt.Sprint(wantErr) != fmt.Sprint(gotErr) {
		fail("error-not-aggregated", fmt.Sprintf("returned leaves %v, consumers returned %v", gotErr, wantErr))
	}
	origToMut := false
	for i := 0; i < n; i++ {
		if called[i] == 0 {
			continue
		}
		sh := holders(i)
		if cs.caps[i] && sh > 0 {
			fail("mutating-consumer-shares-payload", fmt.Sprintf("consumer %d declares MutatesData and shares its payload with %d other(s)", i, sh))
		}
		if sh > 0 && !ops.isRO(handles[i]) {
			fail("shared-payload-not-read-only", fmt.Sprintf("consumer %d shares its payload with %d other(s) but it is not read-only", i, sh))
		}
		if cs.caps[i] && handles[i] == sent {
			origToMut = true
		}
	}
	if origToMut && !capObs {
		fail("original-mutated-but-not-advertised", "a mutating consumer received the caller's payload although Capabilities().MutatesData is false")
	}
	allMut := n > 0
	for _, c := range cs.caps {
		allMut = allMut && c
	}
	if capObs != allMut {
		fail("capability-not-exact", fmt.Sprintf("Capabilities().MutatesData=%v but consumers' capabilities are %v (must be true exactly when all of >= 1 consumers mutate)", capObs, cs.caps))
	}
	if cs.roIn && origToMut {
		fail("read-only-input-given-to-mutator", "a mutating consumer received the caller's read-only payload")
	}
	checkViews("at the end")
	sort.Strings(fails)
	seen := map[string]bool{}
	for _, f := range fails {
		p := strings.SplitN(f, "|", 2)
		if seen[p[0]] {
			continue
		}
		seen[p[0]] = true
		out.Oracle(p[0], term, ops.name+": "+p[1])
	}
	nmut := 0
	for _, c := range cs.caps {
		if c {
			nmut++
		}
	}
	out.Case(n >= 2 || nmut > 0, term)

	// ---- histograms: which branch of ConsumeX / NewX was taken ----
	switch {
	case n == 0:
		out.Stat("branch_no_consumer", 1)
	case n == 1 && nmut == 0:
		out.Stat("branch_unwrapped_single", 1)
	case nmut == n && !cs.roIn:
		out.Stat("branch_all_mutating_original_to_last", 1)
	case nmut == n && cs.roIn:
		out.Stat("branch_all_mutating_readonly_input_clone", 1)
	case nmut > 0 && n-nmut == 1:
		out.Stat("branch_mixed_one_readonly", 1)
	case nmut > 0:
		out.Stat("branch_mixed_shared_marked", 1)
	default:
		out.Stat("branch_all_readonly_marked", 1)
	}
	if cs.roIn {
		out.Stat("input_readonly", 1)
	}
	switch {
	case cs.ctxEndAt < 0:
		out.Stat("ctx_never_ends", 1)
	case cs.ctxEndAt == 0:
		out.Stat("ctx_ended_before_consume", 1)
	case cs.ctxEndAt > n:
		out.Stat("ctx_ended_after_return", 1)
	case cs.ctxEndAt <= nmut:
		out.Stat("ctx_ends_during_mutating_phase", 1)
		if cs.ctxEndAt < n {
			out.Stat("ctx_ends_with_consumers_still_to_call", 1)
		}
	default:
		out.Stat("ctx_ends_during_readonly_phase", 1)
		if cs.ctxEndAt < n {
			out.Stat("ctx_ends_with_consumers_still_to_call", 1)
		}
	}
	// payload shape histogram
	degenerate := len(cs.c0) > 0
	for _, v := range cs.c0 {
		sh := int(v / 10)
		out.Stat(fmt.Sprintf("payload_entry_shape_%d", sh), 1)
		degenerate = degenerate && sh >= 1 && sh <= 3
	}
	switch {
	case len(cs.c0) == 0:
		out.Stat("payload_wholly_empty", 1)
	case degenerate:
		out.Stat("payload_structure_without_items", 1)
		if len(cells) > 1 {
			out.Stat("payload_structure_without_items_cloned", 1)
		}
	default:
		out.Stat("payload_with_items", 1)
	}
	out.Stat(fmt.Sprintf("ctx_kind_%d", cs.ctxKind), 1)
	out.Stat(fmt.Sprintf("consumers_%02d", n), 1)
	out.Stat("cases_"+ops.name, 1)
}

// ---- generator ----------------------------------------------------------------------------------
func vGenCase(rng *vRand, caps []bool, roIn bool) vFanCase {
	n := len(caps)
	cs := vFanCase{caps: caps, roIn: roIn}
	for k, ln := 0, rng.Intn(4); k < ln; k++ {
		cs.c0 = append(cs.c0, int64(rng.Intn(4))) // shape added below
	}
	// payload shape: 35% of the payloads have resources / scopes / descriptors but NO items at all (shapes 1-3),
	// the others mix all shapes; (the wholly empty payload is len(c0) == 0)
	noItems := rng.Intn(100) < 35
	for k := range cs.c0 {
		shape := rng.Intn(vNShapes)
		if noItems {
			shape = 1 + rng.Intn(3)
		}
		cs.c0[k] += int64(10 * shape)
	}
	cs.errs = make([][]uint64, n)
	for i := range cs.errs {
		switch rng.Pick(12, 6, 2, 1, 1) {
		case 1:
			cs.errs[i] = []uint64{uint64(10*i + 1)}
		case 2:
			cs.errs[i] = []uint64{uint64(10*i + 1), uint64(10*i + 2)}
		case 3: // the consumer's OWN timeout (the caller's context may be perfectly live)
			cs.errs[i] = []uint64{vErrDeadline}
		case 4:
			cs.errs[i] = []uint64{vErrWrapped, uint64(10*i + 4), vErrCanceled}
		}
	}
	// expected call order (mutating first), only to bias writers towards consumers that already hold a payload
	var order []int
	for i, c := range caps {
		if c {
			order = append(order, i)
		}
	}
	for i, c := range caps {
		if !c {
			order = append(order, i)
		}
	}
	// the caller's context: never ends | already ended before ConsumeX | ends while the k-th call is in progress
	// (that consumer fails with the context's error; later ones may too) | ends after the return
	cs.ctxEndAt = -1
	cs.ctxKind = rng.Intn(4)
	if cs.ctxKind > 0 {
		switch rng.Pick(2, 2, 5, 1) {
		case 1:
			cs.ctxEndAt = 0
		case 2:
			if n > 0 {
				cs.ctxEndAt = 1 + rng.Intn(n)
			}
		case 3:
			cs.ctxEndAt = n + 1
		}
		if cs.ctxKind == 3 && cs.ctxEndAt == 0 && rng.Intn(2) == 0 {
			cs.ctxKind = 4 // the deadline had already passed when ConsumeX was called
		}
		ctxLeaf := uint64(vErrCanceled)
		if cs.ctxKind == 2 || cs.ctxKind == 4 {
			ctxLeaf = vErrDeadline
		}
		for k, i := range order {
			switch {
			case cs.ctxEndAt >= 1 && k+1 == cs.ctxEndAt && rng.Intn(4) > 0:
				cs.errs[i] = []uint64{ctxLeaf}
			case cs.ctxEndAt >= 0 && k+1 > cs.ctxEndAt && rng.Intn(2) == 0:
				cs.errs[i] = []uint64{ctxLeaf}
				if cs.ctxKind == 2 && rng.Intn(2) == 0 {
					cs.errs[i] = []uint64{vErrWrapped, uint64(10*i + 3)}
				}
			}
		}
	}
	cur := len(cs.c0)
	genW := func(nCalled int) vLab {
		var who int
		if nCalled > 0 && rng.Intn(100) < 85 {
			who = order[rng.Intn(nCalled)]
		} else if n > 0 {
			who = rng.Intn(n)
		}
		var w vWr
		switch rng.Pick(4, 4, 2, 2) {
		case 0:
			w = vWr{kind: 1, v: int64(4 + rng.Intn(5))}
		case 1:
			w = vWr{kind: 2, k: rng.Intn(cur + 2), v: int64(4 + rng.Intn(5))}
		case 3:
			w = vWr{kind: 5}
		default:
			w = vWr{kind: 3, v: int64(rng.Intn(6))}
			if len(cs.c0) > 0 && rng.Intn(2) == 0 {
				w.v = cs.c0[rng.Intn(len(cs.c0))]
			}
		}
		return vLab{who: who, w: w, async: rng.Intn(3) == 0}
	}
	if n > 0 && rng.Intn(10) == 0 {
		cs.seg0 = append(cs.seg0, genW(0))
	}
	cs.segs = make([][]vLab, n)
	for k := 0; k < n; k++ {
		for j, m := 0, rng.Pick(3, 4, 2, 1); j < m; j++ {
			cs.segs[k] = append(cs.segs[k], genW(k+1))
		}
	}
	if n > 0 {
		for j, m := 0, rng.Intn(5); j < m; j++ {
			cs.extra = append(cs.extra, genW(n))
		}
	}
	return cs
}

func vFanAll[T comparable, C any](ops vSigOps[T, C]) {
	out := vOpen()
	defer out.Close()
	rng := vNewRand(uint64(600 + ops.id))
	// (1) exhaustive: every capability vector up to length L x {mutable, read-only input}
	L := 5
	if vTier() != "quick" {
		L = 7
	}
	for n := 0; n <= L; n++ {
		for bits := 0; bits < 1<<n; bits++ {
			for _, ro := range []bool{false, true} {
				caps := make([]bool, n)
				for i := range caps {
					caps[i] = bits>>i&1 == 1
				}
				vRunFan(ops, out, vGenCase(rng, caps, ro))
			}
		}
	}
	// (2) random longer vectors
	for c, m := 0, vBudget(40, 25); c < m; c++ {
		n := 6 + rng.Intn(7)
		caps := make([]bool, n)
		pm := []int{10, 30, 50, 80, 100}[rng.Intn(5)]
		for i := range caps {
			caps[i] = rng.Intn(100) < pm
		}
		vRunFan(ops, out, vGenCase(rng, caps, rng.Intn(3) == 0))
	}
}

func TestVerifC06Logs(t *testing.T)     { vFanAll(vLogs) }
func TestVerifC06Metrics(t *testing.T)  { vFanAll(vMetrics) }
func TestVerifC06Traces(t *testing.T)   { vFanAll(vTraces) }
func TestVerifC06Profiles(t *testing.T) { vFanAll(vProfiles) }
