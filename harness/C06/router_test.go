// C06 correspondence harness for connector/{logs,metrics,traces}_router.go + connector/internal/router.go
// (injected by overlay; package-internal).  A router over k pipelines with generated capabilities is
// built by the REAL NewXRouter; Consumer(ids...) is called with a generated selection (repetitions
// allowed) and one payload is sent through the returned consumer.
//
// Case term (Coq, type vcase): CRouter sig pipe_caps sel o_cap o_default_cap o_calls
//   o_cap         MutatesData of Consumer(sel...)            o_default_cap  MutatesData of the router itself
//   o_calls       pipeline indices in the order they were invoked
// Direct oracle: every selected pipeline is invoked once per occurrence; a mutating pipeline receives a
// payload no other invocation received, and never a read-only one; payload shared by several invocations
// is read-only; content at call time equals what was sent; Consumer() / Consumer(unknown) fail; all of it also
// when the caller's context is cancelled before or during the fan-out.
package connector

import (
	"bytes"
	"context"
	"fmt"
	"testing"

	"go.opentelemetry.io/collector/consumer"
	"go.opentelemetry.io/collector/pdata/plog"
	"go.opentelemetry.io/collector/pdata/pmetric"
	"go.opentelemetry.io/collector/pdata/ptrace"
	"go.opentelemetry.io/collector/pdata/testdata"
	"go.opentelemetry.io/collector/pipeline"
)

type vRtOps[T comparable, C any] struct {
	id      int
	name    string
	signal  pipeline.Signal
	newP    func(kind int) T
	enc     func(T) []byte
	isRO    func(T) bool
	markRO  func(T)
	mkCons  func(mut bool, fn func(T) error) C
	router  func(map[pipeline.ID]C) (def C, sel func(...pipeline.ID) (C, error))
	caps    func(C) bool
	consume func(context.Context, C, T) error
}

var vRtLogs = vRtOps[plog.Logs, consumer.Logs]{
	id: 0, name: "logs", signal: pipeline.SignalLogs,
	newP: func(kind int) plog.Logs {
		if kind == 0 {
			return testdata.GenerateLogs(2)
		}
		ld := plog.NewLogs()
		e := ld.ResourceLogs().AppendEmpty()
		e.Resource().Attributes().PutStr("service.name", "idle")
		e.SetSchemaUrl("https://example.test/res")
		if kind == 1 {
			e.ScopeLogs().AppendEmpty().Scope().SetName("no-records")
		}
		return ld
	},
	enc:    func(p plog.Logs) []byte { b, _ := (&plog.ProtoMarshaler{}).MarshalLogs(p); return b },
	isRO:   func(p plog.Logs) bool { return p.IsReadOnly() },
	markRO: func(p plog.Logs) { p.MarkReadOnly() },
	mkCons: func(mut bool, fn func(plog.Logs) error) consumer.Logs {
		c, _ := consumer.NewLogs(func(_ context.Context, p plog.Logs) error { return fn(p) },
			consumer.WithCapabilities(consumer.Capabilities{MutatesData: mut}))
		return c
	},
	router: func(cm map[pipeline.ID]consumer.Logs) (consumer.Logs, func(...pipeline.ID) (consumer.Logs, error)) {
		r := NewLogsRouter(cm)
		return r, r.Consumer
	},
	caps:    func(c consumer.Logs) bool { return c.Capabilities().MutatesData },
	consume: func(ctx context.Context, c consumer.Logs, p plog.Logs) error { return c.ConsumeLogs(ctx, p) },
}

var vRtMetrics = vRtOps[pmetric.Metrics, consumer.Metrics]{
	id: 1, name: "metrics", signal: pipeline.SignalMetrics,
	newP: func(kind int) pmetric.Metrics {
		if kind == 0 {
			return testdata.GenerateMetrics(2)
		}
		md := pmetric.NewMetrics()
		e := md.ResourceMetrics().AppendEmpty()
		e.Resource().Attributes().PutStr("service.name", "idle")
		e.SetSchemaUrl("https://example.test/res")
		if kind == 1 {
			sc := e.ScopeMetrics().AppendEmpty()
			sc.Scope().SetName("no-points")
			sc.Metrics().AppendEmpty().SetEmptySum().SetIsMonotonic(true)
			sc.Metrics().AppendEmpty().SetName("untyped")
		}
		return md
	},
	enc:    func(p pmetric.Metrics) []byte { b, _ := (&pmetric.ProtoMarshaler{}).MarshalMetrics(p); return b },
	isRO:   func(p pmetric.Metrics) bool { return p.IsReadOnly() },
	markRO: func(p pmetric.Metrics) { p.MarkReadOnly() },
	mkCons: func(mut bool, fn func(pmetric.Metrics) error) consumer.Metrics {
		c, _ := consumer.NewMetrics(func(_ context.Context, p pmetric.Metrics) error { return fn(p) },
			consumer.WithCapabilities(consumer.Capabilities{MutatesData: mut}))
		return c
	},
	router: func(cm map[pipeline.ID]consumer.Metrics) (consumer.Metrics, func(...pipeline.ID) (consumer.Metrics, error)) {
		r := NewMetricsRouter(cm)
		return r, r.Consumer
	},
	caps:    func(c consumer.Metrics) bool { return c.Capabilities().MutatesData },
	consume: func(ctx context.Context, c consumer.Metrics, p pmetric.Metrics) error { return c.ConsumeMetrics(ctx, p) },
}

var vRtTraces = vRtOps[ptrace.Traces, consumer.Traces]{
	id: 2, name: "traces", signal: pipeline.SignalTraces,
	newP: func(kind int) ptrace.Traces {
		if kind == 0 {
			return testdata.GenerateTraces(2)
		}
		td := ptrace.NewTraces()
		e := td.ResourceSpans().AppendEmpty()
		e.Resource().Attributes().PutStr("service.name", "idle")
		e.SetSchemaUrl("https://example.test/res")
		if kind == 1 {
			e.ScopeSpans().AppendEmpty().Scope().SetName("no-spans")
		}
		return td
	},
	enc:    func(p ptrace.Traces) []byte { b, _ := (&ptrace.ProtoMarshaler{}).MarshalTraces(p); return b },
	isRO:   func(p ptrace.Traces) bool { return p.IsReadOnly() },
	markRO: func(p ptrace.Traces) { p.MarkReadOnly() },
	mkCons: func(mut bool, fn func(ptrace.Traces) error) consumer.Traces {
		c, _ := consumer.NewTraces(func(_ context.Context, p ptrace.Traces) error { return fn(p) },
			consumer.WithCapabilities(consumer.Capabilities{MutatesData: mut}))
		return c
	},
	router: func(cm map[pipeline.ID]consumer.Traces) (consumer.Traces, func(...pipeline.ID) (consumer.Traces, error)) {
		r := NewTracesRouter(cm)
		return r, r.Consumer
	},
	caps:    func(c consumer.Traces) bool { return c.Capabilities().MutatesData },
	consume: func(ctx context.Context, c consumer.Traces, p ptrace.Traces) error { return c.ConsumeTraces(ctx, p) },
}

func vRunRouter[T comparable, C any](ops vRtOps[T, C], out *vOut, pcaps []bool, sel []int, roIn bool) {
	type call struct {
		pipe int
		p    T
		ro   bool
		same bool
	}
	var calls []call
	// the caller's context: live, or cancelled while the first invoked pipeline works (every third case),
	// or already cancelled (every seventh)
	ctx, cancel := context.WithCancel(context.Background())
	defer cancel()
	cancelMid := (len(sel)+len(pcaps)+sel[0])%3 == 0
	if (len(sel)*5+len(pcaps)+sel[len(sel)-1])%7 == 0 {
		cancel()
		out.Stat("router_ctx_cancelled_before", 1)
	} else if cancelMid {
		out.Stat("router_ctx_cancelled_during", 1)
	}
	// payload: with items | resource + scope (+ metric descriptors) but no items | resource only
	pk := (len(sel)*3 + len(pcaps) + sel[0]*2) % 3
	out.Stat(fmt.Sprintf("router_payload_kind_%d", pk), 1)
	sent := ops.newP(pk)
	if roIn {
		ops.markRO(sent)
	}
	sentBytes := ops.enc(sent)
	cm := map[pipeline.ID]C{}
	ids := make([]pipeline.ID, len(pcaps))
	for i, mut := range pcaps {
		i := i
		ids[i] = pipeline.NewIDWithName(ops.signal, fmt.Sprintf("p%d", i))
		cm[ids[i]] = ops.mkCons(mut, func(p T) error {
			calls = append(calls, call{i, p, ops.isRO(p), bytes.Equal(ops.enc(p), sentBytes)})
			if cancelMid {
				cancel() // the caller gives up while the first invoked pipeline is working
			}
			return nil
		})
	}
	def, selF := ops.router(cm)
	var fails []string
	fail := func(kind, detail string) { fails = append(fails, kind+"|"+detail) }
	if _, err := selF(); err == nil {
		fail("router-accepts-empty-selection", "Consumer() returned no error")
	}
	if _, err := selF(pipeline.NewIDWithName(ops.signal, "unknown")); err == nil {
		fail("router-accepts-unknown-pipeline", "Consumer(unknown) returned no error")
	}
	selIDs := make([]pipeline.ID, len(sel))
	for k, s := range sel {
		selIDs[k] = ids[s]
	}
	c, err := selF(selIDs...)
	if err != nil {
		panic(fmt.Sprintf("C06 router harness: Consumer(%v) failed: %v", sel, err))
	}
	capObs := ops.caps(c)
	defCap := ops.caps(def)
	if err := ops.consume(ctx, c, sent); err != nil {
		fail("consume-error", err.Error())
	}
	// ---- term ----
	pc := make([]string, len(pcaps))
	for i, b := range pcaps {
		pc[i] = vBool(b)
	}
	st := make([]string, len(sel))
	for i, s := range sel {
		st[i] = vNat(s)
	}
	ct := make([]string, len(calls))
	for i, cl := range calls {
		ct[i] = vNat(cl.pipe)
	}
	// the read-only flag of the input does not change capability or call order; it is part of the oracle only
	term := fmt.Sprintf("(CRouter %d %s %s %s %s %s)", ops.id, vList(pc), vList(st), vBool(capObs), vBool(defCap), vList(ct))
	// ---- oracle ----
	want := map[int]int{}
	for _, s := range sel {
		want[s]++
	}
	got := map[int]int{}
	for _, cl := range calls {
		got[cl.pipe]++
	}
	for i := range pcaps {
		if want[i] != got[i] {
			fail("pipeline-not-invoked-once-per-selection", fmt.Sprintf("pipeline %d selected %d times, invoked %d times", i, want[i], got[i]))
		}
	}
	allMut := len(sel) > 0
	for _, s := range sel {
		allMut = allMut && pcaps[s]
	}
	if capObs != allMut {
		fail("capability-not-exact", fmt.Sprintf("Consumer(%v).Capabilities().MutatesData=%v, pipeline capabilities %v", sel, capObs, pcaps))
	}
	for a, ca := range calls {
		if !ca.same {
			fail("content-differs-at-call", fmt.Sprintf("pipeline %d received bytes different from what was sent", ca.pipe))
		}
		if pcaps[ca.pipe] && ca.ro {
			fail("read-only-given-to-mutator", fmt.Sprintf("mutating pipeline %d received a read-only payload", ca.pipe))
		}
		for b, cb := range calls {
			if a != b && ca.p == cb.p {
				if pcaps[ca.pipe] {
					fail("mutating-consumer-shares-payload", fmt.Sprintf("mutating pipeline %d shares its payload with pipeline %d", ca.pipe, cb.pipe))
				}
				if !ops.isRO(ca.p) {
					fail("shared-payload-not-read-only", fmt.Sprintf("pipelines %d and %d share a payload that is not read-only", ca.pipe, cb.pipe))
				}
			}
		}
		if pcaps[ca.pipe] && ca.p == sent && !capObs {
			fail("original-mutated-but-not-advertised", fmt.Sprintf("mutating pipeline %d received the caller's payload", ca.pipe))
		}
	}
	seen := map[string]bool{}
	for _, f := range fails {
		k := f[:bytes.IndexByte([]byte(f), '|')]
		if seen[k] {
			continue
		}
		seen[k] = true
		out.Oracle(k, term, "router/"+ops.name+": "+f[len(k)+1:])
	}
	out.Case(len(sel) >= 2 || allMut, term)
	out.Stat("router_cases_"+ops.name, 1)
	out.Stat(fmt.Sprintf("router_sel_%02d", len(sel)), 1)
	out.Stat(fmt.Sprintf("router_cap=%v", capObs), 1)
	if roIn {
		out.Stat("router_input_readonly", 1)
	}
}

// vRunRoutes: ONE router; Consumer(sel...) is called for every selection in turn and every result is KEPT (what a
// routing connector does at start-up, one call per route); then one payload is sent through each kept result, the
// first one last.  Case term: (CRoutes sig pcaps sels [(cap, calls)...]).  Direct oracle: every kept route consumer
// still delivers to exactly its own selection, once per occurrence, whatever was asked of the router afterwards.
func vRunRoutes[T comparable, C any](ops vRtOps[T, C], out *vOut, pcaps []bool, sels [][]int) {
	cur := -1
	calls := make([][]int, len(sels))
	cm := map[pipeline.ID]C{}
	ids := make([]pipeline.ID, len(pcaps))
	for i, mut := range pcaps {
		i := i
		ids[i] = pipeline.NewIDWithName(ops.signal, fmt.Sprintf("p%d", i))
		cm[ids[i]] = ops.mkCons(mut, func(T) error {
			if cur >= 0 {
				calls[cur] = append(calls[cur], i)
			}
			return nil
		})
	}
	_, selF := ops.router(cm)
	routes := make([]C, len(sels))
	caps := make([]bool, len(sels))
	for k, sel := range sels {
		sid := make([]pipeline.ID, len(sel))
		for j, x := range sel {
			sid[j] = ids[x]
		}
		c, err := selF(sid...)
		if err != nil {
			panic(fmt.Sprintf("C06 router harness: Consumer(%v) failed: %v", sel, err))
		}
		routes[k] = c
	}
	// capabilities are read and payloads are sent only after ALL Consumer calls were made
	var fails []string
	for k := len(sels) - 1; k >= 0; k-- {
		caps[k] = ops.caps(routes[k])
		cur = k
		if err := ops.consume(context.Background(), routes[k], ops.newP(k%3)); err != nil {
			fails = append(fails, "consume-error|"+err.Error())
		}
	}
	cur = -1
	pc := make([]string, len(pcaps))
	for i, b := range pcaps {
		pc[i] = vBool(b)
	}
	st := make([]string, len(sels))
	ot := make([]string, len(sels))
	for k, sel := range sels {
		a := make([]string, len(sel))
		for j, x := range sel {
			a[j] = vNat(x)
		}
		st[k] = vList(a)
		b := make([]string, len(calls[k]))
		for j, x := range calls[k] {
			b[j] = vNat(x)
		}
		ot[k] = fmt.Sprintf("(%s,%s)", vBool(caps[k]), vList(b))
		want, got := map[int]int{}, map[int]int{}
		for _, x := range sel {
			want[x]++
		}
		for _, x := range calls[k] {
			got[x]++
		}
		for i := range pcaps {
			if want[i] != got[i] {
				fails = append(fails, fmt.Sprintf("kept-route-consumer-changed-by-later-Consumer-call|route %d = Consumer(%v) kept across %d later Consumer call(s): pipeline %d selected %d times, invoked %d times", k, sel, len(sels)-1-k, i, want[i], got[i]))
			}
		}
		allMut := len(sel) > 0
		for _, x := range sel {
			allMut = allMut && pcaps[x]
		}
		if caps[k] != allMut {
			fails = append(fails, fmt.Sprintf("capability-not-exact|route %d = Consumer(%v) advertises MutatesData=%v, pipeline capabilities %v", k, sel, caps[k], pcaps))
		}
	}
	term := fmt.Sprintf("(CRoutes %d %s %s %s)", ops.id, vList(pc), vList(st), vList(ot))
	seen := map[string]bool{}
	for _, f := range fails {
		k := f[:bytes.IndexByte([]byte(f), '|')]
		if seen[k] {
			continue
		}
		seen[k] = true
		out.Oracle(k, term, "router/"+ops.name+": "+f[len(k)+1:])
	}
	out.Case(len(sels) >= 2, term)
	out.Stat(fmt.Sprintf("routes_kept_%d", len(sels)), 1)
}

func vRoutesAll[T comparable, C any](ops vRtOps[T, C], out *vOut) {
	rng := vNewRand(uint64(730 + ops.id))
	for c, m := 0, vBudget(60, 15); c < m; c++ {
		k := 2 + rng.Intn(4)
		pcaps := make([]bool, k)
		pm := []int{0, 0, 30, 70}[rng.Intn(4)] // all-non-mutating routers are the common real case
		for i := range pcaps {
			pcaps[i] = rng.Intn(100) < pm
		}
		sels := make([][]int, 2+rng.Intn(3))
		for r := range sels {
			sels[r] = make([]int, 1+rng.Intn(3))
			for j := range sels[r] {
				sels[r][j] = rng.Intn(k)
			}
		}
		vRunRoutes(ops, out, pcaps, sels)
	}
}

func vRouterAll[T comparable, C any](ops vRtOps[T, C], out *vOut) {
	vRoutesAll(ops, out)
	rng := vNewRand(uint64(670 + ops.id))
	// exhaustive: 1..3 pipelines, every capability vector, every selection of length 1..3
	for k := 1; k <= 3; k++ {
		for bits := 0; bits < 1<<k; bits++ {
			pcaps := make([]bool, k)
			for i := range pcaps {
				pcaps[i] = bits>>i&1 == 1
			}
			for ln := 1; ln <= 3; ln++ {
				tot := 1
				for j := 0; j < ln; j++ {
					tot *= k
				}
				for code := 0; code < tot; code++ {
					if k == 3 && ln == 3 && code%3 != int(rng.Intn(3)) && vTier() == "quick" {
						continue // quick tier: a third of the 27 length-3 selections over 3 pipelines
					}
					sel := make([]int, ln)
					x := code
					for j := range sel {
						sel[j] = x % k
						x /= k
					}
					vRunRouter(ops, out, pcaps, sel, rng.Intn(4) == 0)
				}
			}
		}
	}
	for c, m := 0, vBudget(30, 20); c < m; c++ {
		k := 4 + rng.Intn(5)
		pcaps := make([]bool, k)
		pm := []int{10, 50, 90, 100}[rng.Intn(4)]
		for i := range pcaps {
			pcaps[i] = rng.Intn(100) < pm
		}
		sel := make([]int, 1+rng.Intn(8))
		for j := range sel {
			sel[j] = rng.Intn(k)
		}
		vRunRouter(ops, out, pcaps, sel, rng.Intn(3) == 0)
	}
}

func TestVerifC06Router(t *testing.T) {
	out := vOpen()
	defer out.Close()
	vRouterAll(vRtLogs, out)
	vRouterAll(vRtMetrics, out)
	vRouterAll(vRtTraces, out)
}
