// C11: reports issued CONCURRENTLY by a shared component (injected next to shared_test.go: vComp, vDiagram).
//
// hostWrapper.Report hands one report to ALL attached instances inside one critical section, so two reports made
// from two goroutines reach every instance in the same order and the instances' state machines cannot diverge.
// Scenario: 2-4 instances attach (real Component.Start), 0-2 reports are made sequentially, then 2-3 reports are
// issued concurrently, one goroutine each.  Observation = every report forwarded to a host, in global ARRIVAL order
// (a host logs before it does anything else).  Verdicts (never timing dependent):
//
//	correspondence (case kind 6): the observation is the model's run for SOME ordering of the concurrent reports;
//	direct oracle: every instance was handed the same sequence, which is a permutation of the concurrent reports.
//
// Schedulers: (a) forced — the host of one instance is SLOW on the first concurrent report (it blocks after logging
// it until the other reports have either finished or had 40 ms); (b) free-running races.
package sharedcomponent

import (
	"context"
	"fmt"
	"runtime"
	"sort"
	"sync"
	"sync/atomic"
	"testing"
	"time"

	"go.opentelemetry.io/collector/component"
	"go.opentelemetry.io/collector/component/componentstatus"
)

type vRaceRec struct {
	mu     sync.Mutex
	log    [][2]int
	armed  atomic.Bool
	inside chan struct{}
	gate   chan struct{}
}

type vSlowHost struct {
	i    int
	rec  *vRaceRec
	slow bool
}

func (h *vSlowHost) GetExtensions() map[component.ID]component.Component { return nil }
func (h *vSlowHost) Report(e *componentstatus.Event) {
	h.rec.mu.Lock()
	h.rec.log = append(h.rec.log, [2]int{h.i, int(e.Status())})
	h.rec.mu.Unlock()
	if h.slow && h.rec.armed.CompareAndSwap(true, false) {
		close(h.rec.inside)
		<-h.rec.gate
	}
}

type vRaceResult struct {
	script   [][2]int
	log      [][2]int
	ninst    int
	concFrom int // len(log) when the concurrent phase began
	ops      []int
	overtook bool
	forced   bool
}

func vSharedRaceScenario(rng *vRand, forced bool) vRaceResult {
	rec := &vRaceRec{inside: make(chan struct{}), gate: make(chan struct{})}
	var script [][2]int
	m := NewMap[int, *vComp]()
	inner := &vComp{}
	comp, err := m.LoadOrStore(1, func() (*vComp, error) { return inner, nil })
	if err != nil {
		panic(err)
	}
	ninst := 2 + rng.Intn(3)
	slowIdx := rng.Intn(ninst - 1) // not the last one: a report stuck at the last host has reached everybody already
	if rng.Intn(6) == 0 {
		slowIdx = ninst - 1
	}
	attach := func(i int) {
		_ = comp.Start(context.Background(), &vSlowHost{i: i, rec: rec, slow: forced && i == slowIdx})
		script = append(script, [2]int{0, i})
		if i == 0 {
			script = append(script, [2]int{1, 1}) // the automatic Starting
		}
	}
	cur := 1
	report := func(st int) {
		componentstatus.ReportStatus(inner.host, componentstatus.NewEvent(componentstatus.Status(st)))
		script = append(script, [2]int{1, st})
		if vDiagram(cur, st) {
			cur = st
		}
	}
	attach(0)
	pre := rng.Intn(3)
	for i := 1; i < ninst; i++ {
		if pre > 0 && rng.Bool() {
			report(2 + rng.Intn(2))
			pre--
		}
		attach(i)
	}
	for ; pre > 0; pre-- {
		report(2 + rng.Intn(2))
	}
	// the concurrent reports: mostly legal moves from the current status, pairwise different when possible
	nops := 2 + rng.Intn(2)
	var ops []int
	for k := 0; k < nops; k++ {
		st := 2 + rng.Intn(5)
		if rng.Intn(100) < 70 {
			var legal []int
			for b := 2; b <= 6; b++ {
				if vDiagram(cur, b) {
					legal = append(legal, b)
				}
			}
			if len(legal) > 0 {
				st = legal[rng.Intn(len(legal))]
			}
		}
		if st == 5 && rng.Intn(3) != 0 {
			st = 3
		}
		ops = append(ops, st)
	}
	rec.mu.Lock()
	concFrom := len(rec.log)
	rec.mu.Unlock()
	do := func(st int) {
		componentstatus.ReportStatus(inner.host, componentstatus.NewEvent(componentstatus.Status(st)))
	}
	overtook := false
	var wg sync.WaitGroup
	if forced {
		rec.armed.Store(true)
		wg.Add(1)
		go func() { defer wg.Done(); do(ops[0]) }()
		select {
		case <-rec.inside: // the first report is now stuck at the slow host
		case <-time.After(5 * time.Second): // it never got there (a lost report: the oracle below will say so)
		}
		others := make(chan struct{})
		var wo sync.WaitGroup
		for _, st := range ops[1:] {
			st := st
			wg.Add(1)
			wo.Add(1)
			go func() { defer wg.Done(); defer wo.Done(); do(st) }()
		}
		go func() { wo.Wait(); close(others) }()
		select {
		case <-others:
			overtook = true // the other reports got through while the first one was still being delivered
		case <-time.After(40 * time.Millisecond):
		}
		close(rec.gate)
	} else {
		var ready atomic.Int32
		n := int32(len(ops))
		for _, st := range ops {
			st := st
			wg.Add(1)
			go func() {
				defer wg.Done()
				ready.Add(1)
				for ready.Load() < n {
					runtime.Gosched()
				}
				do(st)
			}()
		}
	}
	wg.Wait()
	rec.mu.Lock()
	log := append([][2]int(nil), rec.log...)
	rec.mu.Unlock()
	return vRaceResult{script: script, log: log, ninst: ninst, concFrom: concFrom, ops: ops, overtook: overtook, forced: forced}
}

func vSharedRaceTerm(r vRaceResult) string {
	st := make([]string, 0, len(r.script)+1+len(r.ops))
	for _, s := range r.script {
		st = append(st, vPair(vNat(s[0]), vZ(int64(s[1]))))
	}
	st = append(st, vPair(vNat(9), vZ(0)))
	for _, o := range r.ops {
		st = append(st, vPair(vNat(1), vZ(int64(o))))
	}
	ob := make([]string, len(r.log))
	for i, e := range r.log {
		ob[i] = vPair(vNat(e[0]), vZ(int64(e[1])))
	}
	return vPair("6", vPair(vList(st), vList(ob)))
}

func vSharedRaceJudge(out *vOut, r vRaceResult, emit bool) {
	term := vSharedRaceTerm(r)
	seqs := make([][]int, r.ninst)
	for _, e := range r.log[r.concFrom:] {
		seqs[e[0]] = append(seqs[e[0]], e[1])
	}
	want := append([]int(nil), r.ops...)
	sort.Ints(want)
	for i := 0; i < r.ninst; i++ {
		got := append([]int(nil), seqs[i]...)
		sort.Ints(got)
		if fmt.Sprint(got) != fmt.Sprint(want) {
			out.Oracle("shared-concurrent-report-lost", term,
				fmt.Sprintf("concurrent reports %v: instance %d was handed %v", r.ops, i, seqs[i]))
			break
		}
		if fmt.Sprint(seqs[i]) != fmt.Sprint(seqs[0]) {
			out.Oracle("shared-instances-see-different-order", term,
				fmt.Sprintf("concurrent reports %v: instance 0 was handed %v, instance %d %v (forced=%v overtook=%v)", r.ops, seqs[0], i, seqs[i], r.forced, r.overtook))
			break
		}
	}
	if emit {
		out.Case(true, term)
	}
}

func TestVerifC11SharedRace(t *testing.T) {
	out := vOpen()
	defer out.Close()
	rng := vNewRand(1121)
	n := vBudget(20, 10)
	for c := 0; c < n; c++ {
		r := vSharedRaceScenario(rng, true)
		vSharedRaceJudge(out, r, true)
		if r.overtook {
			out.Stat("forced_other_reports_overtook", 1)
		} else {
			out.Stat("forced_other_reports_waited", 1)
		}
		out.Stat(fmt.Sprintf("forced_instances_%d", r.ninst), 1)
	}
	iters := vBudget(3000, 10)
	seen := map[string]bool{}
	for c := 0; c < iters; c++ {
		r := vSharedRaceScenario(rng, false)
		key := fmt.Sprint(r.script, r.ops, r.log)
		emit := !seen[key] && len(seen) < 60
		if emit {
			seen[key] = true
		}
		vSharedRaceJudge(out, r, emit)
		if fmt.Sprint(r.log[r.concFrom:]) != fmt.Sprint(vLaunchOrderLog(r)) {
			out.Stat("race_outcome_is_other_order", 1)
		}
	}
	out.Stat("race_iterations", iters)
	out.Stat("race_distinct_outcomes_sent_to_model", len(seen))
}

func vLaunchOrderLog(r vRaceResult) [][2]int {
	var l [][2]int
	for _, o := range r.ops {
		for i := 0; i < r.ninst; i++ {
			l = append(l, [2]int{i, o})
		}
	}
	return l
}
