// C11 correspondence harness for internal/sharedcomponent (injected by overlay).
// Drives the REAL Component[V] through its public Start/Shutdown API while the wrapped component
// reports statuses through the host it was given.  Case term (Coq): (1, (script, observed)) with
//   script   : list (op, arg)   (0, i) = instance i attaches (Start with host i); (1, s) = status s reported
//   observed : list (instance, status)  every report forwarded to an attached host, in order
// Direct oracle: every attached instance, run through the documented diagram, ends up with the
// same delivered event sequence as the first instance.
package sharedcomponent

import (
	"context"
	"errors"
	"fmt"
	"sync"
	"testing"
	"time"

	"go.opentelemetry.io/collector/component"
	"go.opentelemetry.io/collector/component/componentstatus"
)

func vDiagram(a, b int) bool {
	switch a {
	case 0:
		return b == 1
	case 1:
		return b == 2 || b == 3 || b == 4 || b == 5 || b == 6
	case 2:
		return b == 3 || b == 4 || b == 5 || b == 6
	case 3:
		return b == 2 || b == 4 || b == 5 || b == 6
	case 4:
		return b == 6
	case 6:
		return b == 3 || b == 4 || b == 5 || b == 7
	}
	return false
}

type vHost struct {
	i   int
	log *[][2]int
}

func (h *vHost) GetExtensions() map[component.ID]component.Component { return nil }
func (h *vHost) Report(e *componentstatus.Event) {
	*h.log = append(*h.log, [2]int{h.i, int(e.Status())})
}

type vComp struct {
	host                component.Host
	failStart, failStop bool // the wrapped component's own Start / Shutdown fails (error paths of Component.Start/Shutdown)
}

func (c *vComp) Start(_ context.Context, h component.Host) error {
	c.host = h
	if c.failStart {
		return fmt.Errorf("start: %w", context.DeadlineExceeded)
	}
	return nil
}

func (c *vComp) Shutdown(context.Context) error {
	if c.failStop {
		return errors.New("stop failed")
	}
	return nil
}

func TestVerifC11Shared(t *testing.T) {
	out := vOpen()
	defer out.Close()
	rng := vNewRand(1111)
	// the Coq witness of shared_delivers_all_refuted (Proofs.s3_witness_es) replayed on the implementation:
	// Starting + OK, RecoverableError, OK, RecoverableError, OK before the late attach, then RecoverableError, Shutdown
	{
		var log [][2]int
		m := NewMap[int, *vComp]()
		inner := &vComp{}
		comp, err := m.LoadOrStore(1, func() (*vComp, error) { return inner, nil })
		if err != nil {
			t.Fatal(err)
		}
		script := [][2]int{{0, 0}, {1, 1}}
		_ = comp.Start(context.Background(), &vHost{0, &log})
		for _, st := range []int{2, 3, 2, 3, 2} {
			componentstatus.ReportStatus(inner.host, componentstatus.NewEvent(componentstatus.Status(st)))
			script = append(script, [2]int{1, st})
		}
		_ = comp.Start(context.Background(), &vHost{1, &log})
		script = append(script, [2]int{0, 1})
		componentstatus.ReportStatus(inner.host, componentstatus.NewEvent(componentstatus.StatusRecoverableError))
		_ = comp.Shutdown(context.Background())
		script = append(script, [2]int{1, 3}, [2]int{1, 6}, [2]int{1, 7})
		st := make([]string, len(script))
		for i, x := range script {
			st[i] = vPair(vNat(x[0]), vZ(int64(x[1])))
		}
		ob := make([]string, len(log))
		late := 0
		for i, e := range log {
			ob[i] = vPair(vNat(e[0]), vZ(int64(e[1])))
		}
		state := 0
		for _, e := range log {
			if e[0] == 1 && vDiagram(state, e[1]) {
				state = e[1]
				late++
			}
		}
		term := vPair("1", vPair(vList(st), vList(ob)))
		out.Case(true, term)
		out.Stat("s3_coq_witness_replayed", 1)
		if late == 0 {
			out.Oracle("shared-late-instance-misses-status", term,
				"reports_before_first_late_attach=6 instance=1 delivered=[] (the Coq witness of shared_delivers_all_refuted replayed)")
		}
	}
	n := vBudget(400, 20)
	for c := 0; c < n; c++ {
		var log [][2]int
		var script [][2]int
		m := NewMap[int, *vComp]()
		// 15 %: the wrapped component's Start fails (Component.Start then reports PermanentError to every instance and
		// keeps it for late ones); 25 % of the shutdowns fail (PermanentError instead of Stopped)
		inner := &vComp{failStart: rng.Intn(100) < 15, failStop: rng.Intn(100) < 25}
		comp, err := m.LoadOrStore(1, func() (*vComp, error) { return inner, nil })
		if err != nil {
			t.Fatal(err)
		}
		ninst := 2 + rng.Intn(3)
		// attach instants: instance 0 first; the others after a generated number of reports.
		// ~8% of the cases put more than 5 reports before a late attach (known finding S3 region).
		attached := 1
		attachAt := make([]int, 5) // len(log) when instance k had finished attaching (replay included)
		_ = comp.Start(context.Background(), &vHost{0, &log})
		script = append(script, [2]int{0, 0}, [2]int{1, 1}) // attach 0; automatic Starting
		reportsSoFar := 1
		firstLateAt := -1
		cur := 1
		if inner.failStart {
			script = append(script, [2]int{1, 4})
			reportsSoFar++
			cur = 4
			out.Stat("wrapped_start_failed", 1)
		}
		steps := 2 + rng.Intn(10)
		deep := rng.Intn(100) < 8
		for k := 0; k < steps; k++ {
			wantAttach := attached < ninst && (rng.Intn(3) == 0)
			if wantAttach && !deep && reportsSoFar > 5 { // up to 5 reports fit the ring: the boundary (exactly 5) is generated
				wantAttach = false
			}
			if wantAttach && deep && reportsSoFar < 6 {
				wantAttach = false
			}
			if wantAttach {
				_ = comp.Start(context.Background(), &vHost{attached, &log})
				script = append(script, [2]int{0, attached})
				attachAt[attached] = len(log)
				if firstLateAt < 0 {
					firstLateAt = reportsSoFar
				}
				attached++
				continue
			}
			// the component reports a runtime status (mostly legal moves)
			st := 2 + rng.Intn(4)
			if rng.Intn(100) < 70 {
				var legal []int
				for b := 2; b <= 5; b++ {
					if vDiagram(cur, b) {
						legal = append(legal, b)
					}
				}
				if len(legal) > 0 {
					st = legal[rng.Intn(len(legal))]
				}
			}
			if st == 5 && rng.Intn(3) != 0 {
				st = 3
			}
			componentstatus.ReportStatus(inner.host, componentstatus.NewEvent(componentstatus.Status(st)))
			script = append(script, [2]int{1, st})
			reportsSoFar++
			if vDiagram(cur, st) {
				cur = st
			}
		}
		if rng.Intn(2) == 0 {
			_ = comp.Shutdown(context.Background())
			if inner.failStop {
				script = append(script, [2]int{1, 6}, [2]int{1, 4})
				out.Stat("wrapped_shutdown_failed", 1)
			} else {
				script = append(script, [2]int{1, 6}, [2]int{1, 7})
			}
		}
		st := make([]string, len(script))
		for i, s := range script {
			st[i] = vPair(vNat(s[0]), vZ(int64(s[1])))
		}
		ob := make([]string, len(log))
		for i, e := range log {
			ob[i] = vPair(vNat(e[0]), vZ(int64(e[1])))
		}
		term := vPair("1", vPair(vList(st), vList(ob)))
		out.Case(attached > 1, term)
		out.Stat(fmt.Sprintf("late_attach_after_%02d_reports", firstLateAt), 1)

		// direct oracle — "delivers its status to every instance it represents": the state machine behind every instance
		// (a) begins with Starting, (b) ends in the same status as the first instance's, (c) accepts exactly the same events
		// as the first instance's from the moment it is attached.  (HOW a late instance is brought up to the current status
		// — the whole history, or a shorter legal path — is not prescribed.)
		events := make([][]int, attached)
		pos := make([][]int, attached)
		state := make([]int, attached)
		for k, e := range log {
			if vDiagram(state[e[0]], e[1]) {
				state[e[0]] = e[1]
				events[e[0]] = append(events[e[0]], e[1])
				pos[e[0]] = append(pos[e[0]], k)
			}
		}
		after := func(i, from int) []int {
			var l []int
			for k, p := range pos[i] {
				if p >= from {
					l = append(l, events[i][k])
				}
			}
			return l
		}
		for j := 1; j < attached; j++ {
			if state[j] != state[0] || (len(events[j]) > 0 && events[j][0] != 1) ||
				fmt.Sprint(after(j, attachAt[j])) != fmt.Sprint(after(0, attachAt[j])) {
				out.Oracle("shared-late-instance-misses-status", term,
					fmt.Sprintf("reports_before_first_late_attach=%d instance=%d delivered=%v first=%v", firstLateAt, j, events[j], events[0]))
				break
			}
		}
	}
}

// ---- concurrent attach vs report ---------------------------------------------------------------
// A late instance attaches (Start with its own host) while the wrapped component reports from
// another goroutine.  The late host BLOCKS inside the first replayed event until the harness has
// given the concurrent report 60 ms to get through; attach (replay + registration) must be atomic
// with respect to reports, so the concurrent report has to wait and is then delivered to EVERY
// attached instance, the late one included.  Script sent to the model: attach-then-report (the
// only linearisation in which the report was issued after the replay had begun).

type vGateHost struct {
	i      int
	mu     *sync.Mutex
	log    *[][2]int
	first  sync.Once
	inside chan struct{}
	gate   chan struct{}
}

func (h *vGateHost) GetExtensions() map[component.ID]component.Component { return nil }
func (h *vGateHost) Report(e *componentstatus.Event) {
	h.first.Do(func() {
		if h.inside != nil {
			close(h.inside)
			<-h.gate
		}
	})
	h.mu.Lock()
	*h.log = append(*h.log, [2]int{h.i, int(e.Status())})
	h.mu.Unlock()
}

func TestVerifC11SharedConc(t *testing.T) {
	out := vOpen()
	defer out.Close()
	rng := vNewRand(1114)
	n := vBudget(24, 10)
	for c := 0; c < n; c++ {
		var mu sync.Mutex
		var log [][2]int
		var script [][2]int
		m := NewMap[int, *vComp]()
		inner := &vComp{}
		comp, err := m.LoadOrStore(1, func() (*vComp, error) { return inner, nil })
		if err != nil {
			t.Fatal(err)
		}
		_ = comp.Start(context.Background(), &vGateHost{i: 0, mu: &mu, log: &log})
		script = append(script, [2]int{0, 0}, [2]int{1, 1})
		cur := 1
		// 0-3 reports before the late attach (stays below the ring size: outside finding S3)
		for k := rng.Intn(4); k > 0; k-- {
			st := []int{2, 3}[rng.Intn(2)]
			componentstatus.ReportStatus(inner.host, componentstatus.NewEvent(componentstatus.Status(st)))
			script = append(script, [2]int{1, st})
			if vDiagram(cur, st) {
				cur = st
			}
		}
		// the concurrent report: a legal move from the current status, so every instance must deliver it
		var legal []int
		for b := 2; b <= 4; b++ {
			if vDiagram(cur, b) {
				legal = append(legal, b)
			}
		}
		x := legal[rng.Intn(len(legal))]
		late := &vGateHost{i: 1, mu: &mu, log: &log, inside: make(chan struct{}), gate: make(chan struct{})}
		attachDone := make(chan struct{})
		go func() { _ = comp.Start(context.Background(), late); close(attachDone) }()
		select {
		case <-late.inside: // the replay to the late instance has begun
		case <-time.After(5 * time.Second): // nothing was replayed at all (the oracle / the model will say so)
		}
		reportDone := make(chan struct{})
		go func() {
			componentstatus.ReportStatus(inner.host, componentstatus.NewEvent(componentstatus.Status(x)))
			close(reportDone)
		}()
		overtook := false
		select {
		case <-reportDone:
			overtook = true // the report got through while the attach was still replaying
		case <-time.After(60 * time.Millisecond):
		}
		close(late.gate)
		<-attachDone
		<-reportDone
		script = append(script, [2]int{0, 1}, [2]int{1, x})
		if rng.Bool() {
			_ = comp.Shutdown(context.Background())
			script = append(script, [2]int{1, 6}, [2]int{1, 7})
		}
		st := make([]string, len(script))
		for i, s := range script {
			st[i] = vPair(vNat(s[0]), vZ(int64(s[1])))
		}
		mu.Lock()
		ob := make([]string, len(log))
		for i, e := range log {
			ob[i] = vPair(vNat(e[0]), vZ(int64(e[1])))
		}
		events := make([][]int, 2)
		state := make([]int, 2)
		for _, e := range log {
			if vDiagram(state[e[0]], e[1]) {
				state[e[0]] = e[1]
				events[e[0]] = append(events[e[0]], e[1])
			}
		}
		mu.Unlock()
		term := vPair("1", vPair(vList(st), vList(ob)))
		out.Case(true, term)
		if overtook {
			out.Stat("report_overtook_attach", 1)
		} else {
			out.Stat("report_waited_for_attach", 1)
		}
		// the late instance ends in the same status as the first one (the report issued during its attach included) and
		// what it was delivered begins with Starting
		if state[1] != state[0] || (len(events[1]) > 0 && events[1][0] != 1) {
			out.Oracle("shared-concurrent-report-missed", term,
				fmt.Sprintf("report %d issued during the late attach: late instance delivered=%v first=%v overtook=%v", x, events[1], events[0], overtook))
		}
	}
}
