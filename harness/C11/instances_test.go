// C11: the identities under which status is reported (injected into service/internal/graph).
// Graph.createNodes (receivers, processors, exporters) and Graph.createConnector are run on generated pipeline
// configurations in which components are reused across pipelines of the same and of different signals; the
// InstanceID stored for every node must name EVERY pipeline the component was configured in (status watchers
// attribute events to pipelines through InstanceID.AllPipelineIDs) and nothing else.
// Case term (Coq kind 7): (script, observed); script = the create calls in configuration order (the resulting SET
// does not depend on the order — Build ranges over a map): (pipeline, kind*1000+component), kind 1 receiver /
// 2 processor / 3 exporter, connector = (exporter pipeline, 4000000 + receiver pipeline*1000 + component);
// pipeline = signal*10 + name.  observed = sorted (pipeline, node key) pairs read from g.instanceIDs.
package graph

import (
	"fmt"
	"sort"
	"testing"

	gg "gonum.org/v1/gonum/graph"
	"gonum.org/v1/gonum/graph/simple"

	"go.opentelemetry.io/collector/component"
	"go.opentelemetry.io/collector/component/componentstatus"
	"go.opentelemetry.io/collector/pipeline"
	"go.opentelemetry.io/collector/pipeline/xpipeline"
	"go.opentelemetry.io/collector/service/internal/builders"
	"go.opentelemetry.io/collector/service/pipelines"
)

var vC11Signals = []pipeline.Signal{pipeline.SignalTraces, pipeline.SignalMetrics, pipeline.SignalLogs, xpipeline.SignalProfiles}

func vC11SignalIdx(s pipeline.Signal) int {
	for i, x := range vC11Signals {
		if x == s {
			return i
		}
	}
	return 9
}

func TestVerifC11Instances(t *testing.T) {
	out := vOpen()
	defer out.Close()
	rng := vNewRand(1123)
	n := vBudget(150, 20)
	for c := 0; c < n; c++ {
		// pipelines: 1-5 distinct (signal, name); few signals/names so that sharing is the rule
		np := 1 + rng.Intn(5)
		var ps []int
		seenP := map[int]bool{}
		for len(ps) < np {
			p := rng.Intn(4)*10 + rng.Intn(3) // traces, metrics, logs, profiles
			if rng.Intn(2) == 0 && len(ps) > 0 {
				p = ps[0]/10*10 + rng.Intn(3) // same signal as the first pipeline
			}
			if !seenP[p] {
				seenP[p] = true
				ps = append(ps, p)
			}
		}
		pid := func(p int) pipeline.ID { return pipeline.NewIDWithName(vC11Signals[p/10], fmt.Sprint(p%10)) }
		back := map[pipeline.ID]int{}
		for _, p := range ps {
			back[pid(p)] = p
		}
		cid := func(kind string, k int) component.ID { return component.MustNewIDWithName(kind, fmt.Sprint(k)) }
		cfg := pipelines.Config{}
		var script [][2]int
		type want struct{ key, p int }
		var wants []want
		for _, p := range ps {
			pc := &pipelines.PipelineConfig{}
			pick := func(pool, max int) []int {
				k := 1 + rng.Intn(max)
				var l []int
				used := map[int]bool{}
				for len(l) < k {
					x := rng.Intn(pool)
					if !used[x] {
						used[x] = true
						l = append(l, x)
					}
				}
				return l
			}
			for _, r := range pick(3, 2) {
				pc.Receivers = append(pc.Receivers, cid("r", r))
				script = append(script, [2]int{p, 1000 + r})
				wants = append(wants, want{1000 + r*100 + p/10, p})
			}
			if rng.Intn(3) != 0 {
				for _, r := range pick(3, 2) {
					pc.Processors = append(pc.Processors, cid("p", r))
					script = append(script, [2]int{p, 2000 + r})
					wants = append(wants, want{2000 + r*100 + p, p})
				}
			}
			for _, r := range pick(3, 2) {
				pc.Exporters = append(pc.Exporters, cid("e", r))
				script = append(script, [2]int{p, 3000 + r})
				wants = append(wants, want{3000 + r*100 + p/10, p})
			}
			cfg[pid(p)] = pc
		}
		g := &Graph{
			componentGraph: simple.NewDirectedGraph(),
			pipelines:      make(map[pipeline.ID]*pipelineNodes, len(cfg)),
			instanceIDs:    make(map[int64]*componentstatus.InstanceID),
		}
		for pipelineID := range cfg {
			g.pipelines[pipelineID] = &pipelineNodes{receivers: make(map[int64]gg.Node), exporters: make(map[int64]gg.Node)}
		}
		if err := g.createNodes(Settings{ConnectorBuilder: builders.NewConnector(nil, nil), PipelineConfigs: cfg}); err != nil {
			t.Fatal(err)
		}
		// connectors: 0-3 (exporter pipeline, receiver pipeline, component) uses, few components so that nodes are reused
		lastPe, lastPr, lastX := -1, -1, 0
		sameSignal := func(p int) int { // a pipeline of the same signal as p (possibly p itself)
			var l []int
			for _, q := range ps {
				if q/10 == p/10 {
					l = append(l, q)
				}
			}
			return l[rng.Intn(len(l))]
		}
		for k := rng.Intn(6); k > 0; k-- {
			pe, pr, x := ps[rng.Intn(len(ps))], ps[rng.Intn(len(ps))], rng.Intn(2)
			if lastPe >= 0 && rng.Intn(2) == 0 { // reuse the previous connector NODE from other pipelines of the same signals
				pe, pr, x = sameSignal(lastPe), sameSignal(lastPr), lastX
				out.Stat("connector_node_reuse_attempts", 1)
			}
			lastPe, lastPr, lastX = pe, pr, x
			g.createConnector(pid(pe), pid(pr), cid("c", x))
			script = append(script, [2]int{pe, 4000000 + pr*1000 + x})
			key := 4000 + x*100 + pe/10*10 + pr/10
			wants = append(wants, want{key, pe}, want{key, pr})
			out.Stat("connector_uses", 1)
		}
		// observed: every (node key, pipeline) pair
		var obs [][2]int
		named := map[[2]int]bool{}
		nodes := g.componentGraph.Nodes()
		for nodes.Next() {
			nd := nodes.Node()
			id := g.instanceIDs[nd.ID()]
			key, kind := -1, component.Kind{}
			num := func(cid component.ID) int { var x int; fmt.Sscan(cid.Name(), &x); return x }
			switch v := nd.(type) {
			case *receiverNode:
				key, kind = 1000+num(v.componentID)*100+vC11SignalIdx(v.pipelineType), component.KindReceiver
			case *processorNode:
				key, kind = 2000+num(v.componentID)*100+back[v.pipelineID], component.KindProcessor
			case *exporterNode:
				key, kind = 3000+num(v.componentID)*100+vC11SignalIdx(v.pipelineType), component.KindExporter
			case *connectorNode:
				key, kind = 4000+num(v.componentID)*100+vC11SignalIdx(v.exprPipelineType)*10+vC11SignalIdx(v.rcvrPipelineType), component.KindConnector
			}
			if id == nil || id.Kind() != kind {
				out.Oracle("instance-id-wrong-kind", "", fmt.Sprintf("node key %d: instance id %v", key, id))
				continue
			}
			id.AllPipelineIDs(func(p pipeline.ID) bool {
				obs = append(obs, [2]int{key, back[p]})
				named[[2]int{key, back[p]}] = true
				return true
			})
		}
		sort.Slice(obs, func(i, j int) bool { return obs[i][0] < obs[j][0] || (obs[i][0] == obs[j][0] && obs[i][1] < obs[j][1]) })
		sc := make([]string, len(script))
		for i, s := range script {
			sc[i] = vPair(vNat(s[0]), vZ(int64(s[1])))
		}
		ob := make([]string, len(obs))
		for i, e := range obs {
			ob[i] = vPair(vNat(e[1]), vZ(int64(e[0]))) // (pipeline, node key)
		}
		term := vPair("7", vPair(vList(sc), vList(ob)))
		shared := len(wants) > g.componentGraph.Nodes().Len() // some node serves several uses
		out.Case(shared, term)
		if shared {
			out.Stat("configs_with_a_node_shared_by_pipelines", 1)
		}
		out.Stat(fmt.Sprintf("pipelines_%d", np), 1)
		// direct oracle: every configured use is named by the node's InstanceID
		for _, w := range wants {
			if !named[[2]int{w.key, w.p}] {
				out.Oracle("instance-id-misses-pipeline", term,
					fmt.Sprintf("node %d is used by pipeline %d (signal*10+name) but its InstanceID does not name that pipeline: events of the component never reach that pipeline's view", w.key, w.p))
				break
			}
		}
	}
}
